/-
  Proofs/TieC12.lean — obligation over `Generated/CodeC12.lean`, the translation of the *current* source of
  `util.xopen`: the opener is chosen by the path suffix alone (.bz2 → bz2.open, .gz → gzip.open, .xz →
  lzma.open, anything else → open), every opener receives `path`, `mode` and all keyword arguments, and text
  modes get `encoding="utf-8"` as a default *before* the dispatch (so also for `.xz`, cf. fix 6dd586c).
  This is the branch-level counterpart of the table theorem `C12.xopen_dispatch`.
-/
import Generated.CodeC12

namespace DI.Tie.C12

open DI.Py DI.Gen

def ends (suffix : String) : Term := Term.app ".endswith" [Term.app "str" [Term.sym "path"], Term.sym suffix]
def textMode : Term := Term.app "NotIn" [Term.sym "'b'", Term.sym "mode"]

/-- (opener, positional and keyword arguments) of the returned call. -/
def opened : Out → Option (String × List Term)
  | .ret _ (.app f args) => some (f, args)
  | _ => none

/-- does the effect list set the default encoding? -/
def setsEncoding : Out → Bool
  | .ret (.app ".setdefault" [.sym "kwargs", .sym "'encoding'", .sym "'utf-8'"] :: _) _ => true
  | _ => false

theorem xopen_dispatch_by_suffix (truth : Term → Bool) :
    opened (util_xopen truth) = some
      ((if truth (ends "'.bz2'") then "bz2.open" else if truth (ends "'.gz'") then "gzip.open"
        else if truth (ends "'.xz'") then "lzma.open" else "open"),
       [Term.sym "path", Term.sym "mode", Term.app "=**" [Term.sym "kwargs"]]) := by
  unfold util_xopen ends
  cases truth (Term.app "NotIn" [Term.sym "'b'", Term.sym "mode"]) <;>
    cases truth (Term.app ".endswith" [Term.app "str" [Term.sym "path"], Term.sym "'.bz2'"]) <;>
    cases truth (Term.app ".endswith" [Term.app "str" [Term.sym "path"], Term.sym "'.gz'"]) <;>
    cases truth (Term.app ".endswith" [Term.app "str" [Term.sym "path"], Term.sym "'.xz'"]) <;> rfl

theorem xopen_text_default_encoding (truth : Term → Bool) :
    setsEncoding (util_xopen truth) = truth textMode := by
  unfold util_xopen textMode
  cases truth (Term.app "NotIn" [Term.sym "'b'", Term.sym "mode"]) <;>
    cases truth (Term.app ".endswith" [Term.app "str" [Term.sym "path"], Term.sym "'.bz2'"]) <;>
    cases truth (Term.app ".endswith" [Term.app "str" [Term.sym "path"], Term.sym "'.gz'"]) <;>
    cases truth (Term.app ".endswith" [Term.app "str" [Term.sym "path"], Term.sym "'.xz'"]) <;> rfl

/-! ### the writers and the readers that are their mirror images -/

def xo (mode : String) (extra : List Term := []) : Term := Term.app "with" [Term.app "util.xopen" ([Term.sym "path", Term.sym mode] ++ extra)]
def enc : Term := Term.app "=encoding" [Term.sym "encoding"]
def mkdirs : Term := Term.app "util.makedirs_for_file" [Term.sym "path"]

/-- **pickle**: every column written as a plain NumPy array OF ITS OWN DTYPE (`np.array(v, v.dtype)`: a string column stays a
    string column, an object column an object column) through `xopen(path, "wb")` (so the suffix decides the compression);
    read back by `pickle.load` from `xopen(path, "rb")` into the constructor — no conversion by content on either side. -/
theorem pickle_code (truth : Term → Bool) :
    DataFrame_write_pickle truth = Out.fall [mkdirs, xo "'wb'",
      Term.app "pickle.dump" [Term.app "DictComp" [Term.app "pair" [Term.sym "k", Term.app "np.array" [Term.sym "v", Term.app ".dtype" [Term.sym "v"]]],
        Term.app "in" [Term.app "tuple" [Term.sym "k", Term.sym "v"], Term.app ".items" [Term.sym "self"], Term.app "if" []]], xo "'wb'", Term.sym "pickle.HIGHEST_PROTOCOL"]] ∧
    DataFrame_read_pickle truth = Out.ret [xo "'rb'"] (Term.app "cls" [Term.app "pickle.load" [xo "'rb'"]]) ∧
    ListOfDicts_write_pickle truth = Out.fall [mkdirs, xo "'wb'",
      Term.app "pickle.dump" [Term.app "ListComp" [Term.app "dict()" [Term.sym "x"], Term.app "in" [Term.sym "x", Term.sym "self", Term.app "if" []]],
        xo "'wb'", Term.sym "pickle.HIGHEST_PROTOCOL"]] ∧
    ListOfDicts_read_pickle truth = Out.ret [xo "'rb'"] (Term.app "cls" [Term.app "pickle.load" [xo "'rb'"]]) := ⟨rfl, rfl, rfl, rfl⟩

/-- **NPZ**: the columns by name through `np.savez` / `np.savez_compressed`, read back by `np.load` into the constructor. -/
theorem npz_code (truth : Term → Bool) :
    DataFrame_write_npz truth = Out.fall [mkdirs, Term.app "call"
      [if truth (Term.sym "compress") then Term.sym "np.savez_compressed" else Term.sym "np.savez", Term.sym "path", Term.app "=**" [Term.sym "self"]]] ∧
    DataFrame_read_npz truth =
      let f := Term.app "with" [Term.app "np.load" [Term.sym "path", Term.app "=allow_pickle" [Term.sym "allow_pickle"]]]
      Out.ret [f] (Term.app "cls" [Term.app "=**" [f]]) := ⟨rfl, rfl⟩

/-- **Parquet**: the Arrow table of the frame written with the caller's options only (no flavor / option of our own). -/
theorem write_parquet_code (truth : Term → Bool) :
    DataFrame_write_parquet truth = Out.fall [mkdirs,
      Term.app "pq.write_table" [Term.app ".to_arrow" [Term.sym "self"], Term.sym "path", Term.app "=**" [Term.sym "kwargs"]]] := rfl

/-- **CSV (data frame)**: Arrow writes UTF-8 through `xopen(path, "wb")` with the header / separator options; for any other
    encoding the WHOLE file is read back as UTF-8 text and rewritten in the requested encoding through `xopen` again (so
    compression by suffix applies to the rewritten file too). -/
theorem df_write_csv_code (truth : Term → Bool) :
    DataFrame_write_csv truth =
      let first := [mkdirs, xo "'wb'", Term.app "csv.write_csv" [Term.app ".to_arrow" [Term.sym "self"], xo "'wb'",
        Term.app "=write_options" [Term.app "csv.WriteOptions" [Term.app "=include_header" [Term.sym "header"], Term.app "=delimiter" [Term.sym "sep"],
          Term.app "=quoting_style" [Term.sym "'needed'"]]]]]
      if truth (Term.app "NotEq" [Term.app "codecs.lookup" [Term.sym "encoding"], Term.app "codecs.lookup" [Term.sym "'utf-8'"]]) then
        let src := xo "'rt'" [Term.app "=encoding" [Term.sym "'utf-8'"]]
        Out.fall (first ++ [src, xo "'wt'" [enc], Term.app ".write" [xo "'wt'" [enc], Term.app ".read" [src]]])
      else Out.fall first := by
  unfold DataFrame_write_csv
  dsimp only [xo, mkdirs, enc]
  split <;> rfl

/-- **JSON**: the frame's records through the ListOfDicts writer, which streams `JSONEncoder(**kwargs).iterencode(self)` into
    `xopen(path, "wt", encoding=…)` and ends the file with a newline. -/
theorem write_json_code (truth : Term → Bool) :
    DataFrame_write_json truth = Out.ret [] (Term.app ".write_json" [Term.app ".to_list_of_dicts" [Term.sym "self"], Term.sym "path", enc, Term.app "=**" [Term.sym "kwargs"]]) ∧
    ListOfDicts_write_json truth =
      let f := xo "'wt'" [enc]
      Out.fall [Term.app ".setdefault" [Term.sym "kwargs", Term.sym "'default'", Term.sym "str"],
                Term.app ".setdefault" [Term.sym "kwargs", Term.sym "'ensure_ascii'", Term.sym "False"],
                Term.app ".setdefault" [Term.sym "kwargs", Term.sym "'indent'", Term.int 2], mkdirs, f,
                Term.app "for" [Term.sym "chunk", Term.app ".iterencode" [Term.app "json.JSONEncoder" [Term.app "=**" [Term.sym "kwargs"]], Term.sym "self"],
                  Term.app "block" [Term.app ".write" [f, Term.sym "chunk"]]],
                Term.app ".write" [f, Term.sym "'\\n'"]] := ⟨rfl, rfl⟩

/-- **CSV (list of dicts)**: a `csv.DictWriter` over ALL keys of the list (`self.keys()`): every row is written BY KEY in
    that one field order (an item's own key order does not matter), a key the item lacks as an empty cell
    (`{**dict.fromkeys(keys), **item}`); an empty list is refused. -/
theorem lod_write_csv_code (truth : Term → Bool) :
    ListOfDicts_write_csv truth =
      if truth (Term.sym "self") then
        let keys := Term.app "list()" [Term.app ".keys" [Term.sym "self"]]
        let f := xo "'wt'" [enc]
        let writer := Term.app "csv.DictWriter" [f, keys, Term.app "=dialect" [Term.sym "'unix'"], Term.app "=delimiter" [Term.sym "sep"],
          Term.app "=quoting" [Term.sym "csv.QUOTE_MINIMAL"]]
        Out.fall [mkdirs, f, if truth (Term.sym "header") then Term.app ".writeheader" [writer] else Term.sym "None",
          Term.app "for" [Term.sym "item", Term.sym "self", Term.app "block"
            [Term.app "assign" [Term.sym "item", Term.app "dict" [Term.app "**" [Term.app "dict.fromkeys" [keys]], Term.app "**" [Term.sym "item"]]],
             Term.app ".writerow" [writer, Term.sym "item"]]]]
      else Out.raise [] "ValueError" := by
  unfold ListOfDicts_write_csv
  dsimp only [xo, mkdirs, enc]
  split <;> simp_all

end DI.Tie.C12

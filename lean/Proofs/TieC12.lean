/-
  Proofs/TieC12.lean — obligation over `Generated/CodeC12.lean`, the translation of the *current* source of
  `util.xopen`: the opener is chosen by the path suffix alone (.bz2 → bz2.open, .gz → gzip.open, .xz →
  lzma.open, anything else → open), every opener receives `path`, `mode` and all keyword arguments, and text
  modes get `encoding="utf-8"` as a default *before* the dispatch (so also for `.xz`, cf. fix 6dd586c).
  This is the branch-level counterpart of the table theorem `C12.xopen_dispatch`.
-/
import Generated.CodeC12

namespace DI.Tie.C12

open DI.Py DI.Gen

def ends (suffix : String) : Term := Term.app ".endswith" [Term.app "str" [Term.sym "path"], Term.sym suffix]
def textMode : Term := Term.app "NotIn" [Term.sym "'b'", Term.sym "mode"]

/-- (opener, positional and keyword arguments) of the returned call. -/
def opened : Out → Option (String × List Term)
  | .ret _ (.app f args) => some (f, args)
  | _ => none

/-- does the effect list set the default encoding? -/
def setsEncoding : Out → Bool
  | .ret (.app ".setdefault" [.sym "kwargs", .sym "'encoding'", .sym "'utf-8'"] :: _) _ => true
  | _ => false

theorem xopen_dispatch_by_suffix (truth : Term → Bool) :
    opened (util_xopen truth) = some
      ((if truth (ends "'.bz2'") then "bz2.open" else if truth (ends "'.gz'") then "gzip.open"
        else if truth (ends "'.xz'") then "lzma.open" else "open"),
       [Term.sym "path", Term.sym "mode", Term.app "=**" [Term.sym "kwargs"]]) := by
  unfold util_xopen ends
  cases truth (Term.app "NotIn" [Term.sym "'b'", Term.sym "mode"]) <;>
    cases truth (Term.app ".endswith" [Term.app "str" [Term.sym "path"], Term.sym "'.bz2'"]) <;>
    cases truth (Term.app ".endswith" [Term.app "str" [Term.sym "path"], Term.sym "'.gz'"]) <;>
    cases truth (Term.app ".endswith" [Term.app "str" [Term.sym "path"], Term.sym "'.xz'"]) <;> rfl

theorem xopen_text_default_encoding (truth : Term → Bool) :
    setsEncoding (util_xopen truth) = truth textMode := by
  unfold util_xopen textMode
  cases truth (Term.app "NotIn" [Term.sym "'b'", Term.sym "mode"]) <;>
    cases truth (Term.app ".endswith" [Term.app "str" [Term.sym "path"], Term.sym "'.bz2'"]) <;>
    cases truth (Term.app ".endswith" [Term.app "str" [Term.sym "path"], Term.sym "'.gz'"]) <;>
    cases truth (Term.app ".endswith" [Term.app "str" [Term.sym "path"], Term.sym "'.xz'"]) <;> rfl

end DI.Tie.C12

/-
  Proofs/EvalC19b.lean — property C19, "code ⇒ semantics ⇒ model" for the functions of `dataiter/dt.py` that
  `Proofs/EvalC19.lean` left unevaluated: `_pull_datetime`, `replace` (scalar AND vector components), `to_string`,
  `from_string`, `quarter`, `weekday` (and the extractors `hour` / `minute` / `second` that `from_string` calls).

  `Model/PyEvalLiftDt.lean` extends the evaluator of `Model/PyEvalLift.lean` (nothing there is changed): the stdlib methods
  `datetime.replace`, `strftime`, `strptime` and the attribute reads are PARAMETERS, partial where Python can raise
  (`none` = the method raises for that element, and then the whole call raises: `none`); dicts of components, `locals()`,
  comprehensions, `d[k] = v`, `or`, nested `for`.  Here, for ALL vectors (any length, any pattern of missing values):

  * `pull_datetime_eval`: `_pull_datetime` is the element-wise map of the (partial) method, NaT stays NaT
    (`pull_datetime_eval_model`: `DtRe.pull` for a total method; `pull_datetime_missing`: missing out ⇔ missing in);
  * `replace_scalar_eval` / `replace_vector_eval`: scalar components ⇒ every non-missing element becomes
    `replace(y, **kw)`; with a vector component element `j` gets the `j`-th value of every vector component and the scalar
    ones as they are; a component vector of ANOTHER LENGTH is an AssertionError (`replace_vector_length_mismatch` — no
    broadcast, not even of a one-element vector); `replace_singleton_agrees`: one-element vectors and scalars agree on a
    one-element `x`; `*_model`: equal to `DtRe.replace` — for the vector form under the hypothesis that `replace` does not
    depend on the ORDER of its keywords, because the code passes the scalar components first
    (`replace_vector_order_counterexample`);
  * `to_string_eval` = `_pull_str` of `strftime(format)`;
  * `from_string_eval`: every non-blank string parsed, blank ⇒ NaT, ValueError as soon as one does not parse; the result
    is narrowed to DATES iff there is at least one parsed value and hour = minute = second = microsecond = 0 for every
    one — four tests on the extracted components of the parsed DATETIMES, i.e. iff every parsed value is at midnight to the
    microsecond (`from_string_dates_iff_midnight`); `from_string_keeps_subsecond`: a value half a second after midnight
    stays a datetime (the defect found here — the microsecond was not looked at and the fraction was lost — is repaired;
    checked against the library);
  * `pull_datetime_scalar_eval` / `replace_scalarx_eval` / `to_string_scalar_eval` / `from_string_scalar_eval`: the
    scalar forms; `new_eval`: `np.datetime64` of every element,
    NaT for a missing one;
  * `quarter_eval` = `ceil(month / 3)` per element (= `(month - 1) // 3 + 1`: `quarter_formula`), integer iff nothing
    is missing; `weekday_eval` / `extractor_eval`; `hour_minute_second_are_the_code`.

  Hypotheses: the parameters bound as stated; `truth` — the parameter of the generated code that answers its symbolic
  tests — agrees with the evaluator (`AgreesD`; for `from_string`, whose last five tests read the array the body has
  written, `FsAgrees`: satisfiable, `truthOfD` / `fsTruth`, see the examples).  Statements only; the proofs cite
  `Lemmas/PyEvalLiftDt.lean`.
-/
import Generated.CodeC19
import Model.PyEvalLiftDt
import Lemmas.PyEvalLiftDt
import Proofs.TieC19
import Proofs.TieC19b
import Proofs.C19

namespace DI.Eval.C19

open DI DI.Py DI.Gen DI.PyEvalLift DI.PyEvalLiftDt DI.DtRe

variable {ε ρ γ : Type}

/-! ### `_pull_datetime` -/

/-- **pull_datetime_eval**: on a vector, with `function` the stdlib method `y ↦ C.f y kw` (partial), the regenerated
    `_pull_datetime` returns the method's value at every non-missing position and NaT at every missing one, in place;
    it raises (`none`) iff the method rejects some non-missing element (`mapOpt`). -/
theorem pull_datetime_eval (C : DCtx ε ρ γ) (xs : List (Option ε)) (kw : List (String × γ)) (truth : Term → Bool)
    (ht : AgreesD C (pullEnvD xs kw) truth) :
    runD C (pullEnvD xs kw) (dt_pull_datetime truth) = (mapOpt (fun y => C.f y kw) xs).map DVal.out :=
  pull_datetime_run C xs kw truth ht

/-- … for a method that never raises: the model's `DtRe.pull` (`C19.dt_elementwise`). -/
theorem pull_datetime_eval_model (C : DCtx ε ρ γ) (f : ε → ρ) (xs : List (Option ε)) (kw : List (String × γ))
    (hf : ∀ y, C.f y kw = some (f y)) (truth : Term → Bool) (ht : AgreesD C (pullEnvD xs kw) truth) :
    runD C (pullEnvD xs kw) (dt_pull_datetime truth) = some (.out (DtRe.pull f xs)) := by
  rw [pull_datetime_run C xs kw truth ht, show (fun y => C.f y kw) = fun y => some (f y) from funext hf, mapOpt_total,
    pull_elementwise]
  rfl

/-- … missing out ⇔ missing in, position by position, same length — whenever the call returns. -/
theorem pull_datetime_missing (C : DCtx ε ρ γ) (xs : List (Option ε)) (kw : List (String × γ)) (truth : Term → Bool)
    (ht : AgreesD C (pullEnvD xs kw) truth) (l : List (Option ρ))
    (h : runD C (pullEnvD xs kw) (dt_pull_datetime truth) = some (.out l)) :
    l.length = xs.length ∧ l.map (·.isNone) = xs.map (·.isNone) ∧ l = xs.map (fun x => x.bind (fun y => C.f y kw)) := by
  rw [pull_datetime_run C xs kw truth ht] at h
  cases hm : mapOpt (fun y => C.f y kw) xs with
  | none => rw [hm] at h; cases h
  | some l' =>
    rw [hm] at h
    simp only [Option.map_some, Option.some.injEq, DVal.out.injEq] at h
    subst h
    exact ⟨mapOpt_length _ _ _ hm, mapOpt_isNone _ _ _ hm, mapOpt_eq_bind _ _ _ hm⟩

/-- **pull_datetime_scalar_eval**: on a scalar, `_pull_datetime(Vector([x], np.datetime64), function)[0]` — the inner
    call being the regenerated `_pull_datetime` on the one-element vector — is the method's value, NaT for NaT
    (`scalarRes`; for a total method the model's `DtRe.scalarCall (DtRe.pull f)`). -/
theorem pull_datetime_scalar_eval (C : DCtx ε ρ γ) (x : Option ε) (kw : List (String × γ)) (truth : Term → Bool)
    (ht : AgreesD (pdSelfCtx C) [("x", .elem x), ("function", .meth kw)] truth) :
    runD (pdSelfCtx C) [("x", .elem x), ("function", .meth kw)] (dt_pull_datetime truth) =
      scalarRes (fun y => C.f y kw) x :=
  pull_datetime_scalar_run C x kw truth ht

/-- … `scalarRes` of a total method is the model's scalar form. -/
theorem scalarRes_total (f : ε → ρ) (x : Option ε) :
    (scalarRes (fun y => some (f y)) x : Option (DVal ε ρ γ)) = some (.res (scalarCall (DtRe.pull f) x)) := by
  rw [DI.C19.scalar_like_singleton]; cases x <;> rfl

/-! ### `replace` -/

/-- **replace_scalar_eval**: when every given component is a scalar (`kw` = the given components, in signature
    order), `replace` is `_pull_datetime(x, lambda y: y.replace(**kw))`: every non-missing element becomes
    `repl y kw`, missing stays missing; an exception iff `datetime.replace` rejects one non-missing element (a rejected
    value at a MISSING position is never seen).  `ps` = the component parameters with their arguments (`none` = not given). -/
theorem replace_scalar_eval (repl : ε → List (String × γ) → Option ε) (xs : List (Option ε))
    (ps : List (String × Option (Comp γ))) (hn : ∀ p ∈ ps, p.1 ∈ compNames) (kw : List (String × γ))
    (hsc : allScalar (kwargsOf ps) = some kw) (truth : Term → Bool) (ht : AgreesD (replCtx repl) (replEnv xs ps) truth) :
    runD (replCtx repl) (replEnv xs ps) (dt_replace truth) = (mapOpt (fun y => repl y kw) xs).map DVal.out :=
  replace_scalar_run repl xs ps hn kw hsc truth ht

/-- … for a `replace` that never raises: the model's `DtRe.replace` (`C19.replace_is_elementwise`). -/
theorem replace_scalar_eval_model [Inhabited γ] (repl : ε → List (String × γ) → ε) (xs : List (Option ε))
    (ps : List (String × Option (Comp γ))) (hn : ∀ p ∈ ps, p.1 ∈ compNames) (kw : List (String × γ))
    (hsc : allScalar (kwargsOf ps) = some kw) (truth : Term → Bool)
    (ht : AgreesD (replCtx (fun y k => some (repl y k))) (replEnv xs ps) truth) :
    runD (replCtx (fun y k => some (repl y k))) (replEnv xs ps) (dt_replace truth) =
      some (.out (DtRe.replace repl xs (kwargsOf ps))) := by
  rw [replace_scalar_run _ xs ps hn kw hsc truth ht]
  exact replace_scalar_model repl xs ps kw hsc

/-- **replace_vector_eval**: when some given component is a vector: an AssertionError (`none`) unless EVERY vector
    component has exactly the length of `x`; otherwise element `j`, if not missing, becomes `repl y (kwAt ps j)` —
    `kwAt ps j` = the scalar components as they are, FOLLOWED BY the `j`-th value of every vector component — and missing
    stays missing; an exception as soon as `datetime.replace` rejects a non-missing element.
    Hypotheses on the context: `.replace` is the stdlib method (`C.std`), not shadowed by a module function. -/
theorem replace_vector_eval (C : DCtx ε ρ γ) (hstd : C.std = ".replace") (hcalls : C.calls ".replace" = none)
    (xs : List (Option ε)) (ps : List (String × Option (Comp γ))) (hn : ∀ p ∈ ps, p.1 ∈ compNames)
    (hnd : (ps.map (·.1)).Nodup) (hvec : allScalar (kwargsOf ps) = none) (truth : Term → Bool)
    (ht : AgreesD C (replEnv xs ps) truth) :
    runD C (replEnv xs ps) (dt_replace truth) =
      if (kwargsOf ps).all (fun p => lenOk xs.length p.2) then
        (mapOptIdx (fun j y => C.f y (kwAt ps j)) 0 xs).map DVal.out
      else none :=
  replace_vector_run C xs ps hn hnd hstd hcalls hvec truth ht

/-- **a component vector of another length is an error** (AssertionError — also for a one-element vector: nothing is
    broadcast; and under `python -O`, where the `assert` vanishes, an IndexError or a silently ignored tail instead). -/
theorem replace_vector_length_mismatch (C : DCtx ε ρ γ) (hstd : C.std = ".replace") (hcalls : C.calls ".replace" = none)
    (xs : List (Option ε)) (ps : List (String × Option (Comp γ))) (hn : ∀ p ∈ ps, p.1 ∈ compNames)
    (hnd : (ps.map (·.1)).Nodup) (k : String) (vs : List γ) (hk : (k, some (Comp.vector vs)) ∈ ps)
    (hlen : vs.length ≠ xs.length) (truth : Term → Bool) (ht : AgreesD C (replEnv xs ps) truth) :
    runD C (replEnv xs ps) (dt_replace truth) = none := by
  have hmem : (k, Comp.vector vs) ∈ kwargsOf ps := List.mem_filterMap.mpr ⟨_, hk, rfl⟩
  have hvec : allScalar (kwargsOf ps) = none := by
    cases h : allScalar (kwargsOf ps) with
    | none => rfl
    | some kw => obtain ⟨v, hv⟩ := allScalar_all _ _ h _ hmem; cases hv
  rw [replace_vector_run C xs ps hn hnd hstd hcalls hvec truth ht, if_neg]
  intro hall
  have := List.all_eq_true.mp hall _ hmem
  simp only [lenOk, beq_iff_eq] at this
  exact hlen this

/-- … for a `replace` that never raises and does not depend on the order of its keywords (Python's keyword call does
    not): the model's `DtRe.replace` (`C19.replace_vector_components_positionwise`). -/
theorem replace_vector_eval_model [Inhabited γ] (repl : ε → List (String × γ) → ε)
    (hperm : ∀ y kw kw', kw.Perm kw' → repl y kw = repl y kw') (xs : List (Option ε))
    (ps : List (String × Option (Comp γ))) (hn : ∀ p ∈ ps, p.1 ∈ compNames) (hnd : (ps.map (·.1)).Nodup)
    (hvec : allScalar (kwargsOf ps) = none) (hlen : (kwargsOf ps).all (fun p => lenOk xs.length p.2) = true)
    (truth : Term → Bool) (ht : AgreesD (replCtx (fun y k => some (repl y k))) (replEnv xs ps) truth) :
    runD (replCtx (fun y k => some (repl y k))) (replEnv xs ps) (dt_replace truth) =
      some (.out (DtRe.replace repl xs (kwargsOf ps))) := by
  rw [replace_vector_run _ xs ps hn hnd rfl rfl hvec truth ht, if_pos hlen]
  exact replace_vector_model repl hperm xs ps hvec hlen

/-- **the one-element-vector form and the scalar form agree**: on a one-element `x`, giving every component as a
    one-element vector `[v]` (`vec1Params`) returns what giving the scalars `v` returns. -/
theorem replace_singleton_agrees (repl : ε → List (String × γ) → Option ε) (x : Option ε)
    (ps : List (String × Option (Comp γ))) (hn : ∀ p ∈ ps, p.1 ∈ compNames) (hnd : (ps.map (·.1)).Nodup)
    (kw : List (String × γ)) (hsc : allScalar (kwargsOf ps) = some kw) (hne : kwargsOf ps ≠ [])
    (truth truth' : Term → Bool) (ht : AgreesD (replCtx repl) (replEnv [x] ps) truth)
    (ht' : AgreesD (replCtx repl) (replEnv [x] (vec1Params ps)) truth') :
    runD (replCtx repl) (replEnv [x] (vec1Params ps)) (dt_replace truth') =
      runD (replCtx repl) (replEnv [x] ps) (dt_replace truth) := by
  have hn' : ∀ p ∈ vec1Params ps, p.1 ∈ compNames := by
    intro p hp
    obtain ⟨q, hq, rfl⟩ := List.mem_map.mp hp
    exact hn q hq
  have hnd' : ((vec1Params ps).map (·.1)).Nodup := by rw [vec1Params_names]; exact hnd
  rw [replace_scalar_run repl [x] ps hn kw hsc truth ht,
    replace_vector_run (replCtx repl) [x] (vec1Params ps) hn' hnd' rfl rfl (allScalar_vec1_none ps hne) truth' ht',
    if_pos (show ((kwargsOf (vec1Params ps)).all fun p => lenOk [x].length p.2) = true from lenOk_vec1 ps kw hsc)]
  cases x with
  | none => rfl
  | some y =>
    show Option.map DVal.out (mapOptIdx (fun j y => repl y (kwAt (vec1Params ps) j)) 0 [some y]) = _
    simp only [mapOptIdx, mapOpt, kwAt_vec1 ps kw hsc]
    cases repl y kw <;> rfl

/-- **replace of a scalar `x`** with scalar components: `repl x kw`, NaT for NaT (through the scalar branch of
    `_pull_datetime`); with a VECTOR component a scalar `x` is a TypeError (`len(x)`: see the examples). -/
theorem replace_scalarx_eval (repl : ε → List (String × γ) → Option ε) (x : Option ε)
    (ps : List (String × Option (Comp γ))) (hn : ∀ p ∈ ps, p.1 ∈ compNames) (kw : List (String × γ))
    (hsc : allScalar (kwargsOf ps) = some kw) (truth : Term → Bool)
    (ht : AgreesD (replCtx repl) (replEnvX (.elem x) ps) truth) :
    runD (replCtx repl) (replEnvX (.elem x) ps) (dt_replace truth) = scalarRes (fun y => repl y kw) x :=
  replace_scalarx_run repl x ps hn kw hsc truth ht

/-! ### `to_string` -/

/-- **to_string_eval**: `to_string(x, format)` is `_pull_str(x, lambda x: x.strftime(format))`: what `strftime` gives
    at every non-missing position, the blank (missing) string at every NaT; an exception iff `strftime` raises for one
    non-missing element. -/
theorem to_string_eval (fmt : ε → Option ρ) (xs : List (Option ε)) (format : String) (truth : Term → Bool) :
    runD (tsCtx fmt : DCtx ε ρ γ) [("x", .vec xs), ("format", .opaque format)] (dt_to_string truth) =
      (mapOpt fmt xs).map DVal.out :=
  to_string_run fmt xs format truth

/-- … for a `strftime` that never raises: the model's `DtRe.pull`. -/
theorem to_string_eval_model (fmt : ε → ρ) (xs : List (Option ε)) (format : String) (truth : Term → Bool) :
    runD (tsCtx (fun y => some (fmt y)) : DCtx ε ρ γ) [("x", .vec xs), ("format", .opaque format)] (dt_to_string truth) =
      some (.out (DtRe.pull fmt xs)) := by
  rw [to_string_run, mapOpt_total, pull_elementwise]; rfl

/-- **to_string of a scalar**: `strftime` of it, the blank string for NaT (through the scalar branch of `_pull_str`). -/
theorem to_string_scalar_eval (fmt : ε → Option ρ) (x : Option ε) (format : String) (truth : Term → Bool) :
    runD (tsCtx fmt : DCtx ε ρ γ) [("x", .elem x), ("format", .opaque format)] (dt_to_string truth) = scalarRes fmt x :=
  to_string_scalar_run fmt x format truth

/-! ### `from_string` -/

section fromString
variable {δ : Type} (parse : String → Option δ) (h m s u : δ → Nat)

/-- **from_string_eval**: every non-blank string goes through `strptime` (`parse`; ValueError — `none` — as soon as
    one does not parse), blank ⇒ NaT, in place; the result is narrowed to DATES (`DVal.dates`: unit days) iff
    `fsIsDates`: at least one parsed value, and hour = 0, minute = 0, second = 0, microsecond = 0 for every parsed value —
    four tests on
    the components EXTRACTED from the parsed datetimes (`dt.hour` / `dt.minute` / `dt.second` of `out[~na]`), not a test on
    the integer representation. -/
theorem from_string_eval (xs : List (Option String)) (fmt : String) (truth : Term → Bool)
    (ht : FsAgrees (fsCtx parse h m s u : DCtx String δ γ) (fsEnv xs fmt) truth) :
    runD (fsCtx parse h m s u : DCtx String δ γ) (fsEnv xs fmt) (dt_from_string truth) =
      (mapOpt parse xs).map (fun l => if fsIsDates h m s u l then DVal.dates l else DVal.out l) :=
  from_string_run parse h m s u xs fmt truth ht

/-- … the values: `parse` of every non-blank string, NaT for the blank ones; missing out ⇔ blank in. -/
theorem from_string_values (xs : List (Option String)) (fmt : String) (truth : Term → Bool)
    (ht : FsAgrees (fsCtx parse h m s u : DCtx String δ γ) (fsEnv xs fmt) truth) (l : List (Option δ))
    (hl : mapOpt parse xs = some l) :
    (runD (fsCtx parse h m s u : DCtx String δ γ) (fsEnv xs fmt) (dt_from_string truth) = some (.dates l) ∨
     runD (fsCtx parse h m s u : DCtx String δ γ) (fsEnv xs fmt) (dt_from_string truth) = some (.out l)) ∧
    l = xs.map (fun x => x.bind parse) ∧ l.map (·.isNone) = xs.map (·.isNone) := by
  refine ⟨?_, mapOpt_eq_bind _ _ _ hl, mapOpt_isNone _ _ _ hl⟩
  rw [from_string_run parse h m s u xs fmt truth ht, hl]
  by_cases hd : fsIsDates h m s u l = true <;> simp [hd]

/-- **from_string of a scalar**: `from_string(Vector([x], str), format)[0]`, the inner call being the regenerated
    `from_string` on the one-element vector: NaT for the blank string, ValueError if the string does not parse, else the
    parsed value — as a DATE (`dres`) iff its hour, minute, second and microsecond are 0. -/
theorem from_string_scalar_eval (x : Option String) (fmt : String) (truth : Term → Bool)
    (ht : AgreesOnD (fsSelfCtx parse h m s u : DCtx String δ γ) [("x", .elem x), ("format", .opaque fmt)] [] [fsScalarT] truth) :
    runD (fsSelfCtx parse h m s u : DCtx String δ γ) [("x", .elem x), ("format", .opaque fmt)] (dt_from_string truth) =
      fsScalarRes parse h m s u x :=
  from_string_scalar_run parse h m s u x fmt truth ht

/-- the hypothesis of `from_string_eval` is satisfiable, for every vector. -/
theorem from_string_truth_exists (xs : List (Option String)) (fmt : String) :
    FsAgrees (fsCtx parse h m s u : DCtx String δ γ) (fsEnv xs fmt)
      (fsTruth (fsCtx parse h m s u : DCtx String δ γ) (fsEnv xs fmt)) :=
  fsTruth_agrees _ _

/-- **from_string_dates_iff_midnight**: for any predicate `isMidnight` that says "hour, minute, second and
    microsecond are all 0", the result of `from_string` is DATES iff there is at least one parsed value and EVERY parsed
    value is at midnight (to the microsecond), and datetimes otherwise. -/
theorem from_string_dates_iff_midnight (isMidnight : δ → Bool)
    (hmid : ∀ d, isMidnight d = (h d == 0 && m d == 0 && s d == 0 && u d == 0))
    (xs : List (Option String)) (fmt : String) (truth : Term → Bool)
    (ht : FsAgrees (fsCtx parse h m s u : DCtx String δ γ) (fsEnv xs fmt) truth) :
    runD (fsCtx parse h m s u : DCtx String δ γ) (fsEnv xs fmt) (dt_from_string truth) =
      (mapOpt parse xs).map (fun l =>
        if decide (0 < (l.filterMap id).length) && (l.filterMap id).all isMidnight then DVal.dates l else DVal.out l) := by
  rw [from_string_run parse h m s u xs fmt truth ht]
  have : isMidnight = fun d => (h d == 0 && m d == 0 && s d == 0 && u d == 0) := funext hmid
  simp only [fsIsDates_eq, this]

/-- **`hour` / `minute` / `second` / `microsecond` as `from_string` calls them are the regenerated extractors**: on a
    datetime vector the meaning given to `hour(v)` in `fsCtx` (`attrCall`) is what the regenerated `dt_hour` (=
    `_pull_int(x, lambda y: y.hour)`, `Tie.C19.extractor_codes_b`), run by the same evaluator, returns; the same for
    `dt_minute`, `dt_second`, `dt_microsecond`. -/
theorem hour_minute_second_are_the_code (l : List (Option δ)) :
    (attrCall h [.out l] : Option (DVal String δ γ)) = codeAttr ".hour" dt_hour h [.out l] ∧
    (attrCall m [.out l] : Option (DVal String δ γ)) = codeAttr ".minute" dt_minute m [.out l] ∧
    (attrCall s [.out l] : Option (DVal String δ γ)) = codeAttr ".second" dt_second s [.out l] ∧
    (attrCall u [.out l] : Option (DVal String δ γ)) = codeAttr ".microsecond" dt_microsecond u [.out l] :=
  ⟨attrCall_is_code ".hour" dt_hour h (fun _ => rfl) l, attrCall_is_code ".minute" dt_minute m (fun _ => rfl) l,
   attrCall_is_code ".second" dt_second s (fun _ => rfl) l,
   attrCall_is_code ".microsecond" dt_microsecond u (fun _ => rfl) l⟩

end fromString

/-! ### `quarter`, `weekday` and the other extractors -/

/-- **extractor_eval**: a function of the form `_pull_int(x, lambda y: y.<attr>)` returns the attribute of every
    non-missing element: integers when there is at least one element and none is missing (`DtRe.pullIntIsInteger`), floats
    with NaN at the NaT positions otherwise. -/
theorem extractor_eval (attr : String) (f : ε → ρ) (cd : ρ → Nat → ρ) (xs : List (Option ε)) :
    runD (attrCtx attr f cd : DCtx ε ρ γ) [("x", .vec xs)] (pullIntOfT attr) =
      some (if pullIntIsInteger xs then .iout ((xs.filterMap id).map f) else .out (DtRe.pull f xs)) := by
  rw [extractor_run, pull_elementwise]

/-- **weekday_eval**: `weekday` is that, with `y.weekday()` (Monday = 0 … Sunday = 6). -/
theorem weekday_eval (wd : ε → ρ) (cd : ρ → Nat → ρ) (xs : List (Option ε)) (truth : Term → Bool) :
    runD (attrCtx ".weekday" wd cd : DCtx ε ρ γ) [("x", .vec xs)] (dt_weekday truth) =
      some (if pullIntIsInteger xs then .iout ((xs.filterMap id).map wd) else .out (DtRe.pull wd xs)) :=
  extractor_eval ".weekday" wd cd xs

/-- **quarter_eval**: `quarter(x)` is `np.ceil(month(x) / 3)` element by element (`cd v 3`, `month` the regenerated
    `month`), NaN where `x` is missing; an integer vector iff nothing is missing (`DtRe.quarterIsInteger`: the empty vector
    included — `quarter` of an empty vector is an integer vector while `month` of it is a float one). -/
theorem quarter_eval (month : ε → ρ) (cd : ρ → Nat → ρ) (xs : List (Option ε)) (truth : Term → Bool)
    (ht : AgreesD (quarterCtx month cd : DCtx ε ρ γ) [("x", .vec xs)] truth) :
    runD (quarterCtx month cd : DCtx ε ρ γ) [("x", .vec xs)] (dt_quarter truth) =
      some (if quarterIsInteger xs then .iout ((xs.filterMap id).map (fun y => cd (month y) 3))
            else .out (DtRe.pull (fun y => cd (month y) 3) xs)) := by
  rw [quarter_run month cd xs truth ht, pull_elementwise]

/-- exact ceiling division on the naturals. -/
def ceilDivNat (v d : Nat) : Nat := (v + d - 1) / d

/-- **quarter_formula**: with months as naturals, `ceil(month / 3)` is the model's `DtRe.quarterOf`, and for a month
    ≥ 1 it is `(month - 1) // 3 + 1`. -/
theorem quarter_formula (mth : Nat) : ceilDivNat mth 3 = quarterOf mth ∧ (1 ≤ mth → ceilDivNat mth 3 = (mth - 1) / 3 + 1) := by
  unfold ceilDivNat quarterOf
  refine ⟨rfl, fun h => ?_⟩
  omega

/-! ### `new` -/

/-- **new_eval**: on a sequence, `new` is `np.datetime64` (`mk`) applied to every non-missing element and NaT for every
    missing one (`None` / the blank string) — `Vector.fast(map(np.datetime64, x), np.datetime64)`, no mask — and raises as
    soon as `np.datetime64` rejects one element.  (The common unit NumPy picks for the result is not modelled.) -/
theorem new_eval (mk : ε → Option ρ) (xs : List (Option ε)) (truth : Term → Bool)
    (ht : AgreesD (newCtx mk : DCtx ε ρ γ) [("x", .vec xs)] truth) :
    runD (newCtx mk : DCtx ε ρ γ) [("x", .vec xs)] (dt_new truth) = (mapOpt mk xs).map DVal.out :=
  new_run mk xs truth ht

/-- … on a scalar: `np.datetime64(x)`. -/
theorem new_scalar_eval (mk : ε → Option ρ) (y : ε) (truth : Term → Bool)
    (ht : AgreesD (newCtx mk : DCtx ε ρ γ) [("x", .elem (some y))] truth) :
    runD (newCtx mk : DCtx ε ρ γ) [("x", .elem (some y))] (dt_new truth) = (mk y).map (fun v => .res (some v)) :=
  new_scalar_run mk y truth ht

/-! ### discrepancies (and a repaired one) -/

/-- a datetime as (seconds since midnight, microseconds); hour / minute / second read from the seconds, the microsecond
    from the second component. -/
abbrev ToyTime := Nat × Nat
def toyHour (t : ToyTime) : Nat := t.1 / 3600
def toyMinute (t : ToyTime) : Nat := t.1 / 60 % 60
def toySecond (t : ToyTime) : Nat := t.1 % 60
def toyMicro (t : ToyTime) : Nat := t.2
/-- exactly midnight. -/
def toyIsMidnight (t : ToyTime) : Bool := t.1 == 0 && t.2 == 0

/-- **from_string_keeps_subsecond** (was `from_string_midnight_counterexample`, a defect of the code as first verified:
    hour, minute and second only were tested and a value 00:00:00.5 was narrowed to a date, losing the half second; the
    source now also tests the microsecond): a value half a second after midnight is NOT at midnight and the result stays
    a DATETIME vector holding it; the same vector with the value exactly at midnight becomes dates.
    (Library, after the repair: `dt.from_string(di.Vector(["15.10.2022 00:00:00.500000"]), "%d.%m.%Y %H:%M:%S.%f")` is
    `2022-10-15T00:00:00.500000`, dtype `datetime64[us]`.) -/
theorem from_string_keeps_subsecond :
    let parse : String → Option ToyTime :=
      fun str => if str = "00:00:00.5" then some (0, 500000) else if str = "00:00:00.0" then some (0, 0) else none
    let C : DCtx String ToyTime Nat := fsCtx parse toyHour toyMinute toySecond toyMicro
    let env : DEnv String ToyTime Nat := fsEnv [some "00:00:00.5", none] "%H:%M:%S.%f"
    let env0 : DEnv String ToyTime Nat := fsEnv [some "00:00:00.0", none] "%H:%M:%S.%f"
    runD C env (dt_from_string (fsTruth C env)) = some (.out [some (0, 500000), none]) ∧
      ([some (0, 500000), none].filterMap id).all toyIsMidnight = false ∧
      runD C env0 (dt_from_string (fsTruth C env0)) = some (.dates [some (0, 0), none]) := by
  decide

/-- **replace_vector_order_counterexample** — the keywords reach `datetime.replace` in ANOTHER ORDER than the model
    (`DtRe.replace`) passes them: scalars first, then the vector components (`year=[…], month=1` ⇒ `{month: 1, year: …}`).
    Immaterial for Python's keyword call; visible for an abstract `repl` that reads the first keyword. -/
theorem replace_vector_order_counterexample :
    let repl : Nat → List (String × Nat) → Option Nat := fun _ kw => (kw.head?).map (·.2)
    let ps : List (String × Option (Comp Nat)) := [("year", some (.vector [2000])), ("month", some (.scalar 1))]
    let env : DEnv Nat Nat Nat := replEnv [some 7] ps
    runD (replCtx repl) env (dt_replace (truthOfD (replCtx repl) env)) = some (.out [some 1]) ∧
      DtRe.replace (fun _ kw => ((kw.head?).map (·.2)).getD 0) [some 7] (kwargsOf ps) = [some 2000] := by
  decide

/-! ### non-vacuity: `decide` examples (datetimes and components are naturals) -/

/-- a toy `datetime.replace`: adds the keyword values, rejects the value 99. -/
def toyRepl (y : Nat) (kw : List (String × Nat)) : Option Nat :=
  if kw.any (·.2 == 99) then none else some (y * 1000 + (kw.map (·.2)).sum)

def exArgs : ReplArgs Nat := { month := some (.scalar 5), minute := some (.scalar 7) }
def exArgsV : ReplArgs Nat := { year := some (.vector [10, 20, 30]), month := some (.scalar 5) }

example : ∀ p ∈ exArgsV.params, p.1 ∈ compNames := exArgsV.names
example : (exArgsV.params.map (·.1)).Nodup := exArgsV.nodup
example : allScalar (kwargsOf exArgs.params) = some [("month", 5), ("minute", 7)] := by decide
example : allScalar (kwargsOf exArgsV.params) = none := by decide
example (C : DCtx Nat Nat Nat) (env : DEnv Nat Nat Nat) : AgreesD C env (truthOfD C env) := agrees_truthOfD C env

/-- `_pull_datetime`. -/
example : runD (replInner toyRepl) (pullEnvD [some 1, none, some 3] [("month", 5)])
    (dt_pull_datetime (truthOfD (replInner toyRepl) (pullEnvD [some 1, none, some 3] [("month", 5)]))) =
    some (.out [some 1005, none, some 3005]) := by decide
/-- scalar components; a rejected element; no component at all (identity); all missing; empty. -/
example : runD (replCtx toyRepl) (replEnv [some 1, none, some 3] exArgs.params)
    (dt_replace (truthOfD (replCtx toyRepl) (replEnv [some 1, none, some 3] exArgs.params))) =
    some (.out [some 1012, none, some 3012]) := by decide
example : runD (replCtx toyRepl) (replEnv [some 1, none] ({ day := some (.scalar 99) } : ReplArgs Nat).params)
    (dt_replace (truthOfD (replCtx toyRepl) (replEnv [some 1, none] ({ day := some (.scalar 99) } : ReplArgs Nat).params))) =
    none := by decide
example : runD (replCtx toyRepl) (replEnv [some 1, none] ({} : ReplArgs Nat).params)
    (dt_replace (truthOfD (replCtx toyRepl) (replEnv [some 1, none] ({} : ReplArgs Nat).params))) =
    some (.out [some 1000, none]) := by decide
/-- vector components: element `j` gets the `j`-th value; a rejected value at a MISSING position is never seen; another
    length is an error; the one-element vector on a three-element `x` is an error too (no broadcast). -/
example : runD (replCtx toyRepl) (replEnv [some 1, none, some 3] exArgsV.params)
    (dt_replace (truthOfD (replCtx toyRepl) (replEnv [some 1, none, some 3] exArgsV.params))) =
    some (.out [some 1015, none, some 3035]) := by decide
example : runD (replCtx toyRepl) (replEnv [some 1, none, some 3] ({ day := some (.vector [1, 99, 3]) } : ReplArgs Nat).params)
    (dt_replace (truthOfD (replCtx toyRepl) (replEnv [some 1, none, some 3] ({ day := some (.vector [1, 99, 3]) } : ReplArgs Nat).params))) =
    some (.out [some 1001, none, some 3003]) := by decide
example : runD (replCtx toyRepl) (replEnv [some 1, none, some 3] ({ day := some (.vector [1]) } : ReplArgs Nat).params)
    (dt_replace (truthOfD (replCtx toyRepl) (replEnv [some 1, none, some 3] ({ day := some (.vector [1]) } : ReplArgs Nat).params))) =
    none := by decide
/-- a scalar `x`: scalar components ⇒ the replaced scalar; a vector component ⇒ an error (`len(x)` of a scalar). -/
example : runD (replCtx toyRepl) (replEnvX (.elem (some 4)) exArgs.params)
    (dt_replace (truthOfD (replCtx toyRepl) (replEnvX (.elem (some 4)) exArgs.params))) = some (.res (some 4012)) := by decide
example : runD (replCtx toyRepl) (replEnvX (.elem (some 4)) ({ day := some (.vector [1]) } : ReplArgs Nat).params)
    (dt_replace (truthOfD (replCtx toyRepl) (replEnvX (.elem (some 4)) ({ day := some (.vector [1]) } : ReplArgs Nat).params))) =
    none := by decide
/-- `new`: a missing element becomes NaT, a rejected one raises. -/
def toyNew : DCtx Nat Nat Nat := newCtx (fun y => if y = 0 then none else some (y + 1))
example : runD toyNew [("x", .vec [some 1, none, some 3])] (dt_new (truthOfD toyNew [("x", .vec [some 1, none, some 3])])) =
    some (.out [some 2, none, some 4]) := by decide
example : runD toyNew [("x", .vec [some 1, some 0])] (dt_new (truthOfD toyNew [("x", .vec [some 1, some 0])])) = none := by
  decide
/-- `to_string`, `weekday`, `quarter` (a missing element: floats; none missing: integers). -/
example : runD (tsCtx (fun y : Nat => some (y + 1)) : DCtx Nat Nat Nat) [("x", .vec [some 1, none]), ("format", .opaque "%d")]
    (dt_to_string (fun _ => false)) = some (.out [some 2, none]) := by decide
example : runD (attrCtx ".weekday" (· % 7) (fun r _ => r) : DCtx Nat Nat Nat) [("x", .vec [some 8, some 13])]
    (dt_weekday (fun _ => false)) = some (.iout [1, 6]) := by decide
def toyQ : DCtx Nat Nat Nat := quarterCtx id ceilDivNat
example : runD toyQ [("x", .vec [some 1, none, some 12])]
    (dt_quarter (truthOfD toyQ [("x", .vec [some 1, none, some 12])])) = some (.out [some 1, none, some 4]) := by decide
example : runD toyQ [("x", .vec [some 3, some 4, some 10])]
    (dt_quarter (truthOfD toyQ [("x", .vec [some 3, some 4, some 10])])) = some (.iout [1, 2, 4]) := by decide
/-- `from_string`: midnight values ⇒ dates; one value at 00:00:01 ⇒ datetimes; all blank ⇒ datetimes; a string that does
    not parse ⇒ error. -/
def toyParse (str : String) : Option ToyTime :=
  if str = "a" then some (0, 0) else if str = "b" then some (1, 0) else none
def toyFs : DCtx String ToyTime Nat := fsCtx toyParse toyHour toyMinute toySecond toyMicro
example : runD toyFs (fsEnv [some "a", none] "%f") (dt_from_string (fsTruth toyFs (fsEnv [some "a", none] "%f"))) =
    some (.dates [some (0, 0), none]) := by decide
example : runD toyFs (fsEnv [some "a", some "b"] "%f") (dt_from_string (fsTruth toyFs (fsEnv [some "a", some "b"] "%f"))) =
    some (.out [some (0, 0), some (1, 0)]) := by decide
example : runD toyFs (fsEnv [none, none] "%f") (dt_from_string (fsTruth toyFs (fsEnv [none, none] "%f"))) =
    some (.out [none, none]) := by decide
example : runD toyFs (fsEnv [some "zz"] "%f") (dt_from_string (fsTruth toyFs (fsEnv [some "zz"] "%f"))) = none := by decide

/-- scalar forms: `to_string`, `from_string` (a date, a datetime, NaT). -/
example : runD (tsCtx (fun y : Nat => some (y + 1)) : DCtx Nat Nat Nat) [("x", .elem (some 1)), ("format", .opaque "%d")]
    (dt_to_string (fun _ => false)) = some (.res (some 2)) := by decide
def toyFsS : DCtx String ToyTime Nat := fsSelfCtx toyParse toyHour toyMinute toySecond toyMicro
example : runD toyFsS [("x", .elem (some "a")), ("format", .opaque "%f")]
    (dt_from_string (truthOfD toyFsS [("x", .elem (some "a")), ("format", .opaque "%f")])) = some (.dres (some (0, 0))) := by
  decide
example : runD toyFsS [("x", .elem (some "b")), ("format", .opaque "%f")]
    (dt_from_string (truthOfD toyFsS [("x", .elem (some "b")), ("format", .opaque "%f")])) = some (.res (some (1, 0))) := by
  decide
example : runD toyFsS [("x", .elem none), ("format", .opaque "%f")]
    (dt_from_string (truthOfD toyFsS [("x", .elem none), ("format", .opaque "%f")])) = some (.res none) := by decide

end DI.Eval.C19

/-
  Proofs/C18.lean — property C18: GeoJSON read/write is faithful to the feature collection.
  Statements only; proofs cite Lemmas/GeoJSON.lean and Lemmas/ReadRestrict.lean.
-/
import Model.GeoJSON
import Lemmas.GeoJSON
import Lemmas.ReadRestrict

namespace DI.C18

open DI.Geo DI.Read

/-- the written file is one well-formed JSON object: the metadata members in order, then
    "features" holding exactly the features in order — for any number (zero included) of
    metadata members and of features: the hand-placed commas are right. -/
theorem written_file_is_valid_json (metadata : List (String × String)) (feats : List String) :
    Object (writeTokens metadata feats)
      (metadata.map (fun (k, v) => (k, Val.blob v)) ++ [("\"features\"", Val.arr feats)]) :=
  write_wellformed metadata feats

/-- reading: one row per feature in file order, the geometry objects unchanged. -/
theorem read_one_row_per_feature (feats : List Feature) (columns : List String) :
    (readColumns feats columns).2 = feats.map (·.geometry) ∧
    ∀ c ∈ (readColumns feats columns).1, c.2.length = feats.length := read_rows feats columns

/-- a column for every property key occurring in any feature (restricted to `columns` if given) ... -/
theorem read_column_per_key (feats : List Feature) (columns : List String) (hc : columns ≠ []) (k : String) :
    k ∈ (readColumns feats columns).1.map (·.1) ↔ k ∈ unionKeys (feats.map (·.props)) ∧ k ∈ columns := by
  have := restrict_keeps_exactly (feats.map (·.props)) columns hc k
  exact this

/-- ... holding each feature's own value, missing where the feature lacks the key. -/
theorem read_values (feats : List Feature) (columns : List String) (k : String) (vals : List (Option String))
    (h : (k, vals) ∈ (readColumns feats columns).1) :
    vals = (feats.map (·.props)).map (fun r => lookup r k) := by
  have h' : (k, vals) ∈ frameFromRecords (feats.map (·.props)) columns := h
  exact restrict_eq_select (feats.map (·.props)) columns k vals h'

/-- all other top-level members end up in metadata. -/
theorem read_metadata_is_rest (members : List (String × String)) (m : String × String) :
    m ∈ readMetadata members ↔ m ∈ members ∧ m.1 ≠ "features" := read_metadata members m

example : writeTokens [("type", "\"FeatureCollection\"")] ["F0", "F1"] =
    [.lbrace, .str "type", .colon, .blob "\"FeatureCollection\"", .comma, .str "\"features\"", .colon, .lbrack,
     .blob "F0", .comma, .blob "F1", .rbrack, .rbrace] := by decide

end DI.C18

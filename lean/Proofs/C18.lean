/-
  Proofs/C18.lean — property C18: GeoJSON read/write is faithful to the feature collection.
  Statements only; proofs cite Lemmas/GeoJSON.lean and Lemmas/ReadRestrict.lean.
-/
import Model.GeoJSON
import Lemmas.GeoJSON
import Lemmas.ReadRestrict
import Lemmas.GeoRoundtrip

namespace DI.C18

open DI.Geo DI.Read DI.Convert

/-- the written file is one well-formed JSON object: the metadata members in order, then
    "features" holding exactly the features in order — for any number (zero included) of
    metadata members and of features: the hand-placed commas are right. -/
theorem written_file_is_valid_json (metadata : List (String × String)) (feats : List String) :
    Object (writeTokens metadata feats)
      (metadata.map (fun (k, v) => (k, Val.blob v)) ++ [("\"features\"", Val.arr feats)]) :=
  write_wellformed metadata feats

/-- reading: one row per feature in file order, the geometry objects unchanged. -/
theorem read_one_row_per_feature (feats : List Feature) (columns : List String) :
    (readColumns feats columns).2 = feats.map (·.geometry) ∧
    ∀ c ∈ (readColumns feats columns).1, c.2.length = feats.length := read_rows feats columns

/-- a column for every property key occurring in any feature (restricted to `columns` if given) ... -/
theorem read_column_per_key (feats : List Feature) (columns : List String) (hc : columns ≠ []) (k : String) :
    k ∈ (readColumns feats columns).1.map (·.1) ↔ k ∈ unionKeys (feats.map (·.props)) ∧ k ∈ columns := by
  have := restrict_keeps_exactly (feats.map (·.props)) columns hc k
  exact this

/-- ... holding each feature's own value, missing where the feature lacks the key. -/
theorem read_values (feats : List Feature) (columns : List String) (k : String) (vals : List (Option String))
    (h : (k, vals) ∈ (readColumns feats columns).1) :
    vals = (feats.map (·.props)).map (fun r => lookup r k) := by
  have h' : (k, vals) ∈ frameFromRecords (feats.map (·.props)) columns := h
  exact restrict_eq_select (feats.map (·.props)) columns k vals h'

/-- all other top-level members end up in metadata. -/
theorem read_metadata_is_rest (members : List (String × String)) (m : String × String) :
    m ∈ readMetadata members ↔ m ∈ members ∧ m.1 ≠ "features" := read_metadata members m

example : writeTokens [("type", "\"FeatureCollection\"")] ["F0", "F1"] =
    [.lbrace, .str "type", .colon, .blob "\"FeatureCollection\"", .comma, .str "\"features\"", .colon, .lbrack,
     .blob "F0", .comma, .blob "F1", .rbrack, .rbrace] := by decide

/-! ### round 3: which value is written, and what comes back -/

/-- `write_features_in_order`: a strict parser of the token stream (members `name : blob ,` then
    `"features" : [ blob , ... blob ] }`, no trailing / missing / doubled comma accepted) reads
    back from the written file exactly the metadata members and exactly the features — each once,
    in order — for every number of either, zero included.  Hypothesis (forced, see
    `write_duplicate_features_key_counterexample`): no metadata member is itself named "features". -/
theorem write_features_in_order (metadata : List (String × String)) (feats : List String)
    (hk : ∀ m ∈ metadata, m.1 ≠ featuresKey) :
    parse (writeTokens metadata feats) = some (metadata, feats) := parse_write metadata feats hk

/-- the parser is exact: a token stream parses to `(metadata, feats)` iff it is the stream `write`
    produces for them. So the written stream determines the members and the features. -/
theorem parse_accepts_only_written (ts : List Tok) (metadata : List (String × String)) (feats : List String) :
    parse ts = some (metadata, feats) ↔
      (ts = writeTokens metadata feats ∧ ∀ m ∈ metadata, m.1 ≠ featuresKey) :=
  parse_eq_some_iff ts metadata feats

/-- a metadata member called "features" (possible: `data.metadata.features = ...`) puts two
    "features" members into the file; the strict parser rejects it. -/
theorem write_duplicate_features_key_counterexample :
    parse (writeTokens [(featuresKey, "1")] ["F0"]) = none := parse_write_counterexample

/-- `read_write_roundtrip`: the features `write` builds from a frame's rows (`to_list_of_dicts`,
    geometry popped, missing values as `null`) are read back as the same frame: column names in
    order, values, missing positions, and the geometry column — for a frame with at least one row,
    distinct column names, all columns as long as the geometry column.  (`hnull`: a cell whose JSON
    text is `null` is the missing value, see `roundtrip_null_is_missing`.) -/
theorem read_write_roundtrip (cols : List (Col String)) (geoms : List String)
    (hn : 0 < geoms.length) (hnd : (cols.map (·.1)).Nodup) (hlen : ∀ c ∈ cols, c.2.length = geoms.length)
    (hnull : ∀ c ∈ cols, ∀ v ∈ c.2, v ≠ some nullBlob) :
    (readColumns (featuresOf cols geoms) []).1.map (fun c => (c.1, c.2.map pyCell)) = cols ∧
    (readColumns (featuresOf cols geoms) []).2 = geoms := read_featuresOf cols geoms hn hnd hlen hnull

/-- the same with a `columns` restriction: exactly the requested columns of the frame, in the
    frame's order. -/
theorem read_write_roundtrip_restricted (cols : List (Col String)) (geoms : List String) (columns : List String)
    (hn : 0 < geoms.length) (hnd : (cols.map (·.1)).Nodup) (hlen : ∀ c ∈ cols, c.2.length = geoms.length)
    (hnull : ∀ c ∈ cols, ∀ v ∈ c.2, v ≠ some nullBlob) :
    (readColumns (featuresOf cols geoms) columns).1.map (fun c => (c.1, c.2.map pyCell)) =
      (if columns.isEmpty then cols else cols.filter (fun c => columns.contains c.1)) ∧
    (readColumns (featuresOf cols geoms) columns).2 = geoms :=
  read_featuresOf_restricted cols geoms columns hn hnd hlen hnull

/-- what is lost without the hypothesis `0 < n`: a frame without rows writes no feature, and no
    property column comes back. -/
theorem roundtrip_empty_frame_loses_columns (cols : List (Col String)) (columns : List String) :
    readColumns (featuresOf cols []) columns = ([], []) := read_featuresOf_empty cols columns

theorem roundtrip_null_is_missing :
    (readColumns (featuresOf [("a", [some "null"])] ["G"]) []).1.map (fun c => (c.1, c.2.map pyCell)) =
      [("a", [none])] := read_featuresOf_null_counterexample

/-- metadata on read: all members but "features", in order; a file whose only "features" member
    sits anywhere among the others gives the others back. -/
theorem read_metadata_roundtrip (pre post : List (String × String)) (v : String)
    (h1 : ∀ m ∈ pre, m.1 ≠ "features") (h2 : ∀ m ∈ post, m.1 ≠ "features") :
    readMetadata (pre ++ ("features", v) :: post) = pre ++ post := readMetadata_split pre post v h1 h2

/-- `read_missing_where_absent`: every column has one cell per feature; the cell of feature `i` in
    column `k` is the feature's own entry; Python sees `None` exactly when the feature lacks `k` or
    holds `k: null`, and the value otherwise. -/
theorem read_missing_where_absent (feats : List Feature) (columns : List String) (k : String)
    (vals : List (Option String)) (h : (k, vals) ∈ (readColumns feats columns).1) :
    vals.length = feats.length ∧
    ∀ i (hi : i < feats.length),
      vals[i]? = some (lookup feats[i].props k) ∧
      (k ∉ feats[i].props.map (·.1) → pyCell (lookup feats[i].props k) = none) ∧
      (lookup feats[i].props k = some nullBlob → pyCell (lookup feats[i].props k) = none) ∧
      (∀ v, lookup feats[i].props k = some v → v ≠ nullBlob → pyCell (lookup feats[i].props k) = some v) ∧
      (pyCell (lookup feats[i].props k) = none ↔
        (k ∉ feats[i].props.map (·.1) ∨ lookup feats[i].props k = some nullBlob)) := readColumns_cell_full feats columns k vals h

/-- column order: every property key once, in the order of first appearance over all features
    (`k1` is left of `k2` iff `k1` is first seen before `k2`); a `columns` restriction filters
    that list. -/
theorem read_column_order (feats : List Feature) (columns : List String) :
    (readColumns feats []).1.map (·.1) = (propKeys feats).eraseDups ∧
    (columns ≠ [] → (readColumns feats columns).1.map (·.1) =
        ((propKeys feats).eraseDups).filter (fun k => columns.contains k)) ∧
    ((propKeys feats).eraseDups).Nodup ∧
    (∀ k, k ∈ (propKeys feats).eraseDups ↔ ∃ f ∈ feats, k ∈ f.props.map (·.1)) ∧
    (∀ k1 k2, (List.idxOf k1 (propKeys feats).eraseDups < List.idxOf k2 (propKeys feats).eraseDups) ↔
        (List.idxOf k1 (propKeys feats) < List.idxOf k2 (propKeys feats))) :=
  ⟨readColumns_names_all feats, readColumns_names_restricted feats columns, nodup_eraseDups _,
    mem_propKeys feats, fun k1 k2 => idxOf_eraseDups_lt k1 k2 _⟩

/-- absent ≡ null holds for the cells (leaving a `null` property out changes no cell) ... -/
theorem absent_equiv_null_cells (r : Rec String) (k : String) (hnd : (r.map (·.1)).Nodup) :
    pyCell (lookup (dropNulls r) k) = pyCell (lookup r k) := pyCell_dropNulls r k hnd

/-- ... but not for the columns: a key first seen with `null` keeps its place only if written. -/
theorem absent_equiv_null_columns_counterexample :
    let feats : List Feature := [⟨[("a", "null"), ("b", "1")], "G0"⟩, ⟨[("a", "2"), ("b", "3")], "G1"⟩]
    (readColumns feats []).1.map (·.1) = ["a", "b"] ∧
    (readColumns (feats.map (fun f => { f with props := dropNulls f.props })) []).1.map (·.1) = ["b", "a"] :=
  dropNulls_changes_columns

/-- `read_geometry_column`: one geometry per feature, the feature's own blob, unchanged (`null`
    included), independent of the properties and of the `columns` restriction. -/
theorem read_geometry_column (feats : List Feature) (columns : List String) :
    (readColumns feats columns).2.length = feats.length ∧
    ∀ i : Nat, (readColumns feats columns).2[i]? = (feats[i]?).map (fun f => f.geometry) :=
  readColumns_geometry feats columns

example : parse (writeTokens [] []) = some ([], []) := by decide
example : (readColumns [⟨[("a", "1")], "null"⟩, ⟨[("b", "null")], "G1"⟩] []) =
    ([("a", [some "1", none]), ("b", [none, some "null"])], ["null", "G1"]) := by decide

end DI.C18

/-
  Proofs/TieC06b.lean — code theorems over `Generated/CodeC06.lean` for the Vector methods that were added to the
  regenerated file after `Proofs/TieC06.lean` was written: `concat`, `range`, `sample`, `map`, `replace_na`,
  `get_memory_use`, `__array_wrap__`.  What C06 needs of them: the value handed back is a buffer the method allocated
  (`.copy()` of a fancy index, or the constructor `self.__class__(…)`, whose `_np_array` calls `np.array(object, dtype)`
  without `copy=False` — `C10.np_array_normal_form`), the one in-place store (`replace_na`) goes into the method's own
  copy, and `__array_wrap__` never lets a 0-d array escape as a Vector.
-/
import Generated.CodeC06
import Model.Heap
import Model.HeapSites
import Proofs.C06
import Proofs.TieC10

namespace DI.Tie.C06

open DI DI.Py DI.Gen DI.Heap

/-! ### normal forms -/

/-- **`concat`**: `self.__class__(np.concatenate([self] + list(others)))` — the receiver FIRST, then the others in the
    order given; NumPy's `concatenate` allocates the joined array and the constructor is called on that new array with no
    dtype (so the dtype is the one NumPy promoted to; vectors without a common dtype raise in `np.concatenate`).
    `others` is variadic: `concat()` with no argument is a copy of the receiver. -/
theorem concat_normal_form (truth : Term → Bool) :
    Vector_concat truth =
      Out.ret [] (Term.app ".__class__" [Term.sym "self",
        Term.app "np.concatenate" [Term.app "Add" [Term.app "list" [Term.sym "self"], Term.app "list()" [Term.sym "others"]]]]) ∧
    Vector_concat_signature = ["self", "*others"] ∧
    Vector_concat_call_order = ["list", "np.concatenate", "self.__class__"] := ⟨rfl, rfl, rfl⟩

/-- **`range`**: `self.__class__([np.nanmin(self), np.nanmax(self)], self.dtype)` — minimum first, maximum second, the
    NaN-ignoring reductions, rebuilt through the constructor WITH the receiver's own dtype (a two-element list: it takes
    the `_std_to_np` path with an explicit dtype). -/
theorem range_normal_form (truth : Term → Bool) :
    Vector_range truth =
      Out.ret [] (Term.app ".__class__" [Term.sym "self",
        Term.app "list" [Term.app "np.nanmin" [Term.sym "self"], Term.app "np.nanmax" [Term.sym "self"]],
        Term.app ".dtype" [Term.sym "self"]]) ∧
    Vector_range_signature = ["self"] ∧
    Vector_range_call_order = ["np.nanmin", "np.nanmax", "self.__class__"] := ⟨rfl, rfl, rfl⟩

/-- `min(self.length, <n>)`. -/
def cappedCount (n : Term) : Term := Term.app "min" [Term.app ".length" [Term.sym "self"], n]

/-- `np.random.choice(self.length, <k>, replace=False)`: `k` distinct positions. -/
def choiceWithoutReplacement (k : Term) : Term :=
  Term.app "np.random.choice" [Term.app ".length" [Term.sym "self"], k, Term.app "=replace" [Term.sym "False"]]

/-- **`sample`**: `n` defaults to `dataiter.DEFAULT_PEEK_ELEMENTS` (when None), is capped at the length, that many
    DISTINCT positions are drawn (`replace=False`), SORTED (the sample keeps the receiver's order), and the fancy index
    is copied — the same shape as `head` / `tail` (`vector_head_refines`): `self[<positions>].copy()`. -/
theorem sample_normal_form (truth : Term → Bool) (nIsNone : Bool) :
    Vector_sample truth nIsNone =
      Out.ret [] (Term.app ".copy" [Term.app "getitem" [Term.sym "self",
        Term.app "np.sort" [choiceWithoutReplacement
          (cappedCount (if nIsNone then Term.sym "dataiter.DEFAULT_PEEK_ELEMENTS" else Term.sym "n"))]]]) := by
  cases nIsNone <;> rfl

theorem sample_signature :
    Vector_sample_signature = ["self", "n=None"] ∧ Vector_sample_signature = Vector_head_signature ∧
    Vector_sample_call_order = ["min", "np.random.choice", "np.sort", "self[np.sort(indices)].copy"] := ⟨rfl, rfl, rfl⟩

/-- **`map`**: `self.__class__((function(x, *args, **kwargs) for x in self), dtype)` — one call per element, in order,
    extra positional and keyword arguments passed through; `dtype` is KEYWORD-ONLY (it follows `*args`: a third
    positional argument goes to `function`, not to the dtype), defaults to None (infer), and `str` is mapped to
    StringDType first (`C10.map_input_dtype_normal_form`).  The generator is consumed by the constructor
    (`util.sequencify`), the result is a new vector of the receiver's class. -/
theorem map_normal_form (truth : Term → Bool) :
    Vector_map truth =
      Out.ret [] (Term.app ".__class__" [Term.sym "self",
        Term.app "GeneratorExp" [
          Term.app "function" [Term.sym "x", Term.app "*" [Term.sym "args"], Term.app "=**" [Term.sym "kwargs"]],
          Term.app "in" [Term.sym "x", Term.sym "self", Term.app "if" []]],
        Term.app "._map_input_dtype" [Term.sym "self", Term.sym "dtype"]]) ∧
    Vector_map_signature = ["self", "function", "*args", "dtype=None", "**kwargs"] ∧
    Vector_map_call_order = ["self._map_input_dtype", "function", "self.__class__"] := ⟨rfl, rfl, rfl⟩

/-- `self.copy()`. -/
def selfCopy : Term := Term.app ".copy" [Term.sym "self"]

/-- **`replace_na` works on a copy**: `vector = self.copy()` comes first; the one store is
    `vector[vector.is_na()] = value` — target AND mask are the copy (the mask of a fresh copy is the receiver's mask) —
    and the very object that was stored into is returned.  Exactly the missing positions are overwritten
    (`C10.replace_na_exact` / `replace_na_total` on the model's `vreplaceNa`). -/
theorem replace_na_normal_form (truth : Term → Bool) :
    Vector_replace_na truth =
      Out.ret [Term.app "store" [Term.app "getitem" [selfCopy, Term.app ".is_na" [selfCopy]], Term.sym "value"]] selfCopy ∧
    Vector_replace_na_call_order = ["self.copy", "vector.is_na"] ∧
    Vector_replace_na_signature = ["self", "value"] := ⟨rfl, rfl, rfl⟩

/-- **`replace_na` does not write into its receiver** (nor into `value`): no effect of the body is a store, `del`,
    attribute assignment or mutating call on the name `self` — the store's target is the `.copy()` term.  (An edit to
    `self[self.is_na()] = value` makes this `true`.) -/
theorem replace_na_leaves_receiver (truth : Term → Bool) :
    Term.anyAppList (writesInto "self") (Vector_replace_na truth).effs = false ∧
    Term.anyAppList (writesInto "value") (Vector_replace_na truth).effs = false ∧
    (∃ tgt key v, (Vector_replace_na truth).effs = [Term.app "store" [Term.app "getitem" [tgt, key], v]] ∧
      Vector_replace_na truth = Out.ret (Vector_replace_na truth).effs tgt ∧ tgt = selfCopy) :=
  ⟨rfl, rfl, _, _, _, rfl, rfl, rfl⟩

/-- **`get_memory_use`**: an object vector is measured element by element (`sum(sys.getsizeof(x) for x in self)`), every
    other vector by its buffer (`self.nbytes`). -/
theorem get_memory_use_normal_form (truth : Term → Bool) :
    Vector_get_memory_use truth =
      Out.ret [] (if truth (Term.app ".is_object" [Term.sym "self"])
        then Term.app "sum" [Term.app "GeneratorExp" [Term.app "sys.getsizeof" [Term.sym "x"],
               Term.app "in" [Term.sym "x", Term.sym "self", Term.app "if" []]]]
        else Term.app ".nbytes" [Term.sym "self"]) := by
  unfold Vector_get_memory_use; split <;> rfl

/-- per dtype class (the predicates as NumPy answers them, `TieC10.dtypeTruth`): only class `object` is summed; a
    StringDType vector (class `str`) reports `nbytes` — the 16-byte cells, NOT the text stored outside them (see the
    report). -/
theorem get_memory_use_refines (c : DI.Construct.DClass) :
    Vector_get_memory_use (DI.Tie.C10.dtypeTruth c) =
      Out.ret [] (if c == .object
        then Term.app "sum" [Term.app "GeneratorExp" [Term.app "sys.getsizeof" [Term.sym "x"],
               Term.app "in" [Term.sym "x", Term.sym "self", Term.app "if" []]]]
        else Term.app ".nbytes" [Term.sym "self"]) := by
  cases c <;> rfl

/-! ### `__array_wrap__` -/

/-- `array.dtype.type(array)`: the array's scalar type applied to it — a NumPy scalar, not an array. -/
def asScalar : Term := Term.app ".type" [Term.app ".dtype" [Term.sym "array"], Term.sym "array"]

/-- `array.view(self.__class__)`. -/
def asVector : Term := Term.app ".view" [Term.sym "array", Term.app ".__class__" [Term.sym "self"]]

/-- **`__array_wrap__`** (called by NumPy on the result of a ufunc / reduction of a Vector): an empty shape (0-d result)
    OR `return_scalar` ⇒ the scalar `array.dtype.type(array)`; otherwise the array viewed as the receiver's class. -/
theorem array_wrap_normal_form (truth : Term → Bool) :
    Vector_array_wrap truth =
      Out.ret [] (if !truth (Term.app ".shape" [Term.sym "array"]) || truth (Term.sym "return_scalar")
                  then asScalar else asVector) := by
  unfold Vector_array_wrap; split <;> rfl

/-- **a 0-d result is never returned as a Vector**: with an empty shape the outcome is the scalar, whatever
    `return_scalar` is; and `return_scalar=True` gives the scalar whatever the shape.  The view is taken exactly when the
    shape is non-empty and `return_scalar` is false. -/
theorem array_wrap_never_0d_vector (truth : Term → Bool) :
    (truth (Term.app ".shape" [Term.sym "array"]) = false → Vector_array_wrap truth = Out.ret [] asScalar) ∧
    (truth (Term.sym "return_scalar") = true → Vector_array_wrap truth = Out.ret [] asScalar) ∧
    (Vector_array_wrap truth = Out.ret [] asVector ↔
      (truth (Term.app ".shape" [Term.sym "array"]) = true ∧ truth (Term.sym "return_scalar") = false)) := by
  rw [array_wrap_normal_form]
  cases truth (Term.app ".shape" [Term.sym "array"]) <;> cases truth (Term.sym "return_scalar") <;>
    simp [asScalar, asVector]

/-- NumPy's protocol: `context` and `return_scalar` are optional (older NumPy passes neither), `return_scalar` defaults
    to False — so by default only the shape decides. -/
theorem array_wrap_signature :
    Vector_array_wrap_signature = ["self", "array", "context=None", "return_scalar=False"] ∧
    Vector_array_wrap_decorators = [] := ⟨rfl, rfl⟩

/-! ### which results are fresh (C06) -/

/-- does the returned expression allocate the buffer it returns?  `x.copy()` does; so does the constructor
    `self.__class__(…)` (`Vector.__new__` ends in `np.array(object, dtype)`, which copies — `C10.np_array_normal_form`
    — and the `.view(cls)` is a view of that copy, not of the argument). -/
def allocatesResult : Out → Bool
  | .ret _ (.app ".copy" [_]) => true
  | .ret _ (.app ".__class__" (.sym "self" :: _ :: _)) => true
  | _ => false

/-- **every one of `concat`, `range`, `sample`, `map`, `replace_na` returns a buffer it allocated itself**, for every
    interpretation of the calls it makes (and `sample` copies a fancy index, which is already new — like `head`). -/
theorem results_allocated (truth : Term → Bool) (b : Bool) :
    allocatesResult (Vector_concat truth) = true ∧ allocatesResult (Vector_range truth) = true ∧
    allocatesResult (Vector_sample truth b) = true ∧ allocatesResult (Vector_map truth) = true ∧
    allocatesResult (Vector_replace_na truth) = true := by
  refine ⟨rfl, rfl, ?_, rfl, rfl⟩
  cases b <;> rfl

/-- none of the four pure ones has an effect at all; `replace_na` has its one local store. -/
theorem effects_of_new_methods (truth : Term → Bool) (b : Bool) :
    (Vector_concat truth).effs = [] ∧ (Vector_range truth).effs = [] ∧ (Vector_sample truth b).effs = [] ∧
    (Vector_map truth).effs = [] ∧ (Vector_get_memory_use truth).effs = [] ∧ (Vector_array_wrap truth).effs = [] ∧
    (Vector_replace_na truth).effs.length = 1 := by
  refine ⟨rfl, rfl, ?_, rfl, ?_, ?_, rfl⟩
  · cases b <;> rfl
  · rw [get_memory_use_normal_form]; rfl
  · rw [array_wrap_normal_form]; rfl

/-- **the heap model's reading of these methods**: the regenerated site table classifies every result site of the five
    methods as `fresh` and `replace_na`'s store as `local`, they are methods of the table, and hence their `effectOf` is
    clean — `C06.call_frame_condition` / `sequences_frame_condition` apply to them. -/
theorem new_methods_clean :
    (["concat", "range", "sample", "map", "replace_na"].all (fun m =>
        (resultSites.filter (fun s => s.1 == "Vector" && s.2.1 == m)).all (fun s => s.2.2.2.2 == "fresh") &&
        resultSites.any (fun s => s.1 == "Vector" && s.2.1 == m)) = true) ∧
    (storeSites.filter (fun s => s.1 == "Vector" && s.2.1 == "replace_na")).map (·.2.2.2) = ["local"] ∧
    ∀ m ∈ ["concat", "range", "sample", "map", "replace_na"], (effectOf "Vector" m).clean := by
  refine ⟨by decide, by decide, ?_⟩
  intro m hm
  have hmem : ∀ m ∈ ["concat", "range", "sample", "map", "replace_na"], ("Vector", m) ∈ methodsOfTable := by decide
  exact DI.C06.table_effects_clean ("Vector", m) (hmem m hm)

end DI.Tie.C06

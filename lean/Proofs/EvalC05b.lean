/-
  Proofs/EvalC05b.lean — the TRUSTED LINKS of `Proofs/EvalC05.lean` discharged: the regenerated bodies of
  `DataFrame._get_join_indices` (`Generated/CodeC05.lean`) and of `DataFrame.drop_na` / `DataFrame.unique`
  (`Generated/CodeC02.lean`) are EVALUATED (`Model/PyEvalKeys.lean`) and what they evaluate to is exactly the meaning the
  evaluator of the joins (`Model/PyEvalFrameJoin.lean`) ASSUMED for the three primitives `other.drop_na(*by2)`,
  `frame.unique(*by2)` and `self._get_join_indices(other', by1, by2)`.

  * `get_join_indices_eval`                  `(found, src)` for ANY two frames (no assumption on the right keys): `src[i]` = the
                                             position of the key tuple of left row `i` in the dict `{other_ids[j]: j}`, or -1 —
                                             the lookup `joinPos` of the model's `joinSrc`; `found` = the positions with
                                             `src > -1`; = the primitive `joinIndices` (`get_join_indices_is_primitive`);
  * `get_join_indices_last_wins`             WITHOUT distinct right keys: the LAST right row with an equal key tuple wins
                                             (a dict comprehension overwrites), -1 iff there is none;
  * `get_join_indices_first_eq_last`         WITH `(right key tuples).Nodup` — what every caller guarantees by passing
                                             `other.drop_na(*by2).unique(*by2)` (`reduced_frame_keys_distinct`) — it is the FIRST one;
  * `missing_key_convention_irrelevant`      DISCREPANCY (recorded): inside `_get_join_indices` NaN / NaT keys are NOT replaced
                                             by None, so in Python a NaN left key does not match a NaN right key while the
                                             model's one missing cell equals itself; both readings give the same `src` when
                                             no right key is missing — which `drop_na` guarantees for every join;
  * `reduced_frame_eval`                     `other.drop_na(*by2).unique(*by2)` evaluated through the two regenerated bodies is
                                             `other` at the model's `rightReduced` rows = the value primitive (1) returned;
  * `get_join_indices_primitive_justified`   on that reduced frame the evaluated body returns `(semiJoinIdx, srcVec)` = the value
                                             primitive (2) returned (`EvalC05.get_join_indices_is_joinSrc` relates it to `joinSrc`);
  * `join_primitives_induced`                all of it in one statement: the primitive interpretation used by `semi_join_eval` …
                                             `left_join_eval` is the one INDUCED by the regenerated bodies;
  * `semi_join_eval_closed` … `left_join_eval_closed`   the four join theorems restated with the bodies in place of the primitives.

  The datetime unit promotion of fix c09ead9 (`unifyLoop`) is evaluated too: `.astype` is the parameter `cast`, assumed
  `CastSound` (a cast whose round trip gives the original column back is the identity on the model's unit-free cells);
  whether the loop promotes a pair of key columns or leaves it, the CELLS `zip(*keys)` reads are the key columns'.

  Hypotheses: at least one key name and as many right as left names (else Python raises / nothing matches), every name a
  column of its frame (KeyError), both frames rectangular.
-/
import Generated.CodeC02
import Generated.CodeC05
import Proofs.EvalC05
import Proofs.EvalC02b
import Lemmas.PyEvalKeys

namespace DI.Eval.C05

open DI DI.Py DI.Gen
open DI.PyEval (Frame nrow names Rect colOf wholeRows)
open DI.PyEvalX (ByItem leftNames rightNames leftKeys rightKeys srcVec joinPos foundOf joinIndices joinFrame)
open DI.PyEvalKeys (KVal DT CastSound JCtx joinIdxEnv unifyLoop foundT srcT firstPos)

/-! ### `_get_join_indices` -/

/-- **_get_join_indices as written** (`Tie.C05.get_join_indices_code` in the names of `Lemmas/PyEvalKeys.lean`): the unit
    promotion loop, then `(found, src)`. -/
theorem get_join_indices_normal_form (truth : Term → Bool) :
    DataFrame_get_join_indices truth = Out.ret [unifyLoop] (.app "tuple" [foundT, srcT]) :=
  DI.PyEvalKeys.join_indices_body truth

/-- **_get_join_indices(other, by1, by2)** for ANY two frames: `src` = for every left row, in order, the position its key
    tuple has in the dict built front to back over the rows of `other` (`joinPos`: the last equal one), or -1; `found` =
    the positions `i` with `src[i] > -1`.  `h : JCtx …` = the call context (`Lemmas/PyEvalKeys.lean`): receiver, `other`,
    `by1`, `by2` bound; at least one name, as many right as left names, every name a column, both frames rectangular;
    `joinIdxEnv_is_call` builds it. -/
theorem get_join_indices_eval (truth : Term → Bool) (cast : DT → DT → List Cell → List Cell) (hcast : CastSound cast)
    (env : DI.PyEvalKeys.Env) (self other : Frame) (dtS dtO : String → DT) (by1 by2 : List String)
    (h : JCtx env self dtS other dtO by1 by2) :
    DI.PyEvalKeys.runRet cast env (DataFrame_get_join_indices truth) =
      some (.pair
        (.ints ((foundOf (joinPos (rowsOf (nrow self) (by1.map (colOf self)))
            (rowsOf (nrow other) (by2.map (colOf other))))).map (fun (k : Nat) => (k : Int))))
        (.ints (joinPos (rowsOf (nrow self) (by1.map (colOf self))) (rowsOf (nrow other) (by2.map (colOf other)))))) := by
  rw [get_join_indices_normal_form]; exact DI.PyEvalKeys.run_join_indices cast h hcast

/-- the environment of the call `self._get_join_indices(other, by1, by2)` is a call context. -/
theorem joinIdxEnv_is_call (cast : DT → DT → List Cell → List Cell) (self other : Frame) (dtS dtO : String → DT)
    (by1 by2 : List String) (hne : by1 ≠ []) (hlen : by1.length = by2.length)
    (hL : ∀ c ∈ by1, c ∈ names self) (hR : ∀ c ∈ by2, c ∈ names other) (hrectS : Rect self) (hrectO : Rect other) :
    JCtx (joinIdxEnv cast self dtS other dtO by1 by2) self dtS other dtO by1 by2 :=
  DI.PyEvalKeys.joinIdxEnv_ctx cast self dtS other dtO by1 by2 hne hlen hL hR hrectS hrectO

/-- **the evaluated body IS the primitive** `self._get_join_indices(other, by1, by2)` of the join evaluator — for any
    frames, not only the reduced one. -/
theorem get_join_indices_is_primitive (truth : Term → Bool) (cast : DT → DT → List Cell → List Cell)
    (hcast : CastSound cast) (na : Cell) (self other : Frame) (dtS dtO : String → DT) (by1 by2 : List String)
    (hne : by1 ≠ []) (hlen : by1.length = by2.length)
    (hL : ∀ c ∈ by1, c ∈ names self) (hR : ∀ c ∈ by2, c ∈ names other) (hrectS : Rect self) (hrectO : Rect other) :
    DI.PyEvalX.prim na "._get_join_indices" [.frame self, .frame other, .strs by1, .strs by2] =
      (match DI.PyEvalKeys.runRet cast (joinIdxEnv cast self dtS other dtO by1 by2) (DataFrame_get_join_indices truth) with
       | some (.pair (.ints f) (.ints s)) => some (DI.PyEvalX.XVal.pair (.ints f) (.ints s))
       | _ => none) := by
  rw [get_join_indices_eval truth cast hcast _ self other dtS dtO by1 by2
    (joinIdxEnv_is_call cast self other dtS dtO by1 by2 hne hlen hL hR hrectS hrectO)]
  show (joinIndices self other by1 by2).map _ = _
  rw [DI.PyEvalKeys.joinIndices_eq self other by1 by2 hne hlen hL hR]
  rfl

/-- **without distinct right keys the LAST equal right row wins** (the dict comprehension overwrites): `src[i]` is -1 and no
    right row has the key tuple of left row `i`, or it is the last position `j` whose key tuple equals it. -/
theorem get_join_indices_last_wins (L R : List (List Cell)) (i : Nat) (hi : i < L.length) :
    ((joinPos L R)[i]! = -1 ∧ ∀ t (ht : t < R.length), R[t] ≠ L[i]) ∨
    (∃ j, ∃ hj : j < R.length, (joinPos L R)[i]! = (j : Int) ∧ R[j] = L[i] ∧
      ∀ t (ht : t < R.length), j < t → R[t] ≠ L[i]) :=
  DI.PyEvalKeys.joinPos_last_wins L R i hi

/-- **with distinct right key tuples first = last**: `src` is the position of the FIRST (the only) equal right row. -/
theorem get_join_indices_first_eq_last (L R : List (List Cell)) (hnd : R.Nodup) : joinPos L R = firstPos L R :=
  DI.PyEvalKeys.joinPos_eq_firstPos L R hnd

/-- what `firstPos` is, row by row. -/
theorem firstPos_row (L R : List (List Cell)) (i : Nat) (hi : i < L.length) :
    (firstPos L R)[i]! = (match R.zipIdx.find? (fun p => p.1 == L[i]) with
      | some p => ((p.2 : Nat) : Int)
      | none => -1) :=
  DI.PyEvalKeys.firstPos_get L R i hi

/-- **the callers' right frame has distinct right key tuples**: `other.drop_na(*by2).unique(*by2)` (= `other` at the
    model's `rightReduced` rows, `reduced_frame_eval`) — so for every join first = last. -/
theorem reduced_frame_keys_distinct (other : Frame) (bys : List ByItem) (hne : bys ≠ [])
    (hR : ∀ c ∈ rightNames bys, c ∈ names other) :
    (rowsOf (nrow (wholeRows other (rightReduced (nrow other) (rightKeys other bys) true)))
      ((rightNames bys).map (colOf (wholeRows other (rightReduced (nrow other) (rightKeys other bys) true))))).Nodup :=
  DI.PyEvalKeys.reduced_frame_keys_nodup other (rightNames bys) (by cases bys <;> simp_all [rightNames]) hR

/-! ### DISCREPANCY (recorded): missing keys inside `_get_join_indices` -/

/-- **where Python's tuple equality and the model's key equality DIFFER, and why no join sees it.**  `unique` replaces
    NaN / NaT by `None` before hashing; `_get_join_indices` does NOT: called on two frames that both have a NaN (or NaT) key,
    Python finds NO match for it (`nan != nan`; confirmed: `DataFrame(k=[1.0, nan, 2.0])._get_join_indices(
    DataFrame(k=[2.0, nan, 2.0]), ["k"], ["k"])` gives `src = [-1, -1, 2]`), while for `""` / `None` keys it does
    (`src = [-1, 1, 2]` for the same frames of strings).  The model's cells have ONE missing value that equals itself, so
    `get_join_indices_eval` (like the primitive `joinIndices` it justifies) reports a match in both cases.  The two
    conventions — a missing cell equals itself (`joinPos`) / a tuple with a missing cell equals nothing (`joinPosStrict`)
    — give the SAME `src` as soon as no RIGHT key tuple has a missing cell, which is what `other.drop_na(*by2)` establishes
    before every call (`reduced_frame_has_no_missing_key`): on the frames the joins pass, the definition relied on is exact
    for every dtype. -/
theorem missing_key_convention_irrelevant (L R : List (List Cell)) (h : ∀ r ∈ R, ∀ c ∈ r, isNa c = false) :
    joinPos L R = DI.PyEvalKeys.joinPosStrict L R :=
  DI.PyEvalKeys.joinPos_eq_strict L R h

/-- the right key tuples of `other.drop_na(*by2).unique(*by2)` have no missing cell. -/
theorem reduced_frame_has_no_missing_key (m : Nat) (rk : List (List Cell)) :
    ∀ r ∈ rowsOf (rightReduced m rk true).length (rk.map (fun c => gather c (rightReduced m rk true))),
      ∀ c ∈ r, isNa c = false :=
  DI.PyEvalKeys.reduced_keys_no_missing m rk

/-- the two conventions on frames with a missing key on both sides: they differ exactly at the missing left key. -/
theorem missing_key_conventions_differ :
    joinPos [[some (.i 1)], [none], [some (.i 2)]] [[some (.i 2)], [none], [some (.i 2)]] = [-1, 1, 2] ∧
    DI.PyEvalKeys.joinPosStrict [[some (.i 1)], [none], [some (.i 2)]] [[some (.i 2)], [none], [some (.i 2)]] =
      [-1, -1, 2] := by decide

/-! ### the reduced right frame through the regenerated bodies of `drop_na` and `unique` -/

/-- **`other.drop_na(*by2).unique(*by2)` evaluated**: the regenerated body of `drop_na` on `other` returns a frame `d`, the
    regenerated body of `unique` on `d` yields `other` at the model's `rightReduced` rows; `d` and that frame are exactly
    what the two primitives of the join evaluator returned (`EvalC05.reduced_frame_is_rightReduced`). -/
theorem reduced_frame_eval (truth : Term → Bool) (cast : DT → DT → List Cell → List Cell) (na : Cell)
    (other : Frame) (dtO : String → DT) (bys : List ByItem) (hne : bys ≠ [])
    (hR : ∀ c ∈ rightNames bys, c ∈ names other) (hrectO : Rect other) :
    ∃ d : Frame,
      DI.PyEvalKeys.runRet cast (DI.PyEvalKeys.callEnv other dtO [("colnames", .strs (rightNames bys))])
        (DataFrame_drop_na truth) = some (.frame d dtO) ∧
      DI.PyEvalKeys.runBody cast (DI.PyEvalKeys.callEnv d dtO [("colnames", .strs (rightNames bys))])
        (DataFrame_unique truth) = some (wholeRows other (rightReduced (nrow other) (rightKeys other bys) true)) ∧
      DI.PyEvalX.prim na ".drop_na" [.frame other, .star (.strs (rightNames bys))] = some (.frame d) ∧
      DI.PyEvalX.prim na ".unique" [.frame d, .star (.strs (rightNames bys))] =
        some (.frame (wholeRows other (rightReduced (nrow other) (rightKeys other bys) true))) := by
  have hrn : rightNames bys ≠ [] := by cases bys <;> simp_all [rightNames]
  have hred := DI.PyEvalX.reduced_frame hrn hR
  obtain ⟨d, hd, hu⟩ := Option.bind_eq_some_iff.mp hred
  have hdeq : d = wholeRows other (dropNaIdx (nrow other) ((rightNames bys).map (colOf other))) := by
    rw [DI.PyEvalKeys.dropNaFrame_eq other (rightNames bys) hR] at hd
    exact (Option.some.inj hd).symm
  have hdn : ∀ c ∈ rightNames bys, c ∈ names d := by
    intro c hc; rw [hdeq, DI.PyEval.wholeRows_names]; exact hR c hc
  have hdr : Rect d := by rw [hdeq]; exact DI.PyEvalKeys.rect_wholeRows _ _
  refine ⟨d, ?_, ?_, ?_, ?_⟩
  · rw [DI.Eval.C02.drop_na_eval truth cast _ other dtO (rightNames bys) rfl rfl hR hrectO, hdeq]
  · rw [← DI.Eval.C02.unique_primitive_justified truth cast d dtO (rightNames bys) hdn hdr, hu]
    rfl
  · show (DI.PyEvalX.dropNaFrame other (rightNames bys)).map DI.PyEvalX.XVal.frame = _
    rw [hd]; rfl
  · show (DI.PyEvalX.uniqueFrame d (rightNames bys)).map DI.PyEvalX.XVal.frame = _
    rw [hu]; rfl

/-- **on the reduced right frame the evaluated `_get_join_indices` returns what primitive (2) was assumed to return**:
    `found` = the model's `semiJoinIdx`, `src` = `srcVec` (which `EvalC05.get_join_indices_is_joinSrc` relates to the model's
    `joinSrc` position by position); and there the right key tuples are distinct, so `src` is also the FIRST-match vector. -/
theorem get_join_indices_primitive_justified (truth : Term → Bool) (cast : DT → DT → List Cell → List Cell)
    (hcast : CastSound cast) (na : Cell) (self other : Frame) (dtS dtO : String → DT) (bys : List ByItem)
    (hne : bys ≠ []) (hL : ∀ c ∈ leftNames bys, c ∈ names self) (hR : ∀ c ∈ rightNames bys, c ∈ names other)
    (hrectS : Rect self) :
    DI.PyEvalKeys.runRet cast
        (joinIdxEnv cast self dtS (wholeRows other (rightReduced (nrow other) (rightKeys other bys) true)) dtO
          (leftNames bys) (rightNames bys)) (DataFrame_get_join_indices truth) =
      some (.pair
        (.ints ((semiJoinIdx (nrow self) (leftKeys self bys) (nrow other) (rightKeys other bys)).map
          (fun (k : Nat) => (k : Int))))
        (.ints (srcVec (nrow self) (leftKeys self bys) (nrow other) (rightKeys other bys)))) ∧
    DI.PyEvalX.prim na "._get_join_indices"
        [.frame self, .frame (wholeRows other (rightReduced (nrow other) (rightKeys other bys) true)),
          .strs (leftNames bys), .strs (rightNames bys)] =
      some (.pair
        (.ints ((semiJoinIdx (nrow self) (leftKeys self bys) (nrow other) (rightKeys other bys)).map
          (fun (k : Nat) => (k : Int))))
        (.ints (srcVec (nrow self) (leftKeys self bys) (nrow other) (rightKeys other bys)))) ∧
    srcVec (nrow self) (leftKeys self bys) (nrow other) (rightKeys other bys) =
      firstPos (rowsOf (nrow self) (leftKeys self bys))
        (rowsOf (rightReduced (nrow other) (rightKeys other bys) true).length
          ((rightKeys other bys).map (fun c => gather c (rightReduced (nrow other) (rightKeys other bys) true)))) := by
  have hln : leftNames bys ≠ [] := by cases bys <;> simp_all [leftNames]
  have hlen : (leftNames bys).length = (rightNames bys).length := by simp [leftNames, rightNames]
  have hRr : ∀ c ∈ rightNames bys, c ∈ names (wholeRows other (rightReduced (nrow other) (rightKeys other bys) true)) := by
    intro c hc; rw [DI.PyEval.wholeRows_names]; exact hR c hc
  have hprim := DI.PyEvalX.joinIndices_reduced self other bys hne hL hR
  rw [DI.PyEvalX.takeRows_eq_wholeRows] at hprim
  have hgen := DI.PyEvalKeys.joinIndices_eq self (wholeRows other (rightReduced (nrow other) (rightKeys other bys) true))
    (leftNames bys) (rightNames bys) hln hlen hL hRr
  rw [hprim] at hgen
  have hpair := Option.some.inj hgen
  refine ⟨?_, ?_, ?_⟩
  · rw [get_join_indices_eval truth cast hcast _ self _ dtS dtO (leftNames bys) (rightNames bys)
      (joinIdxEnv_is_call cast self _ dtS dtO _ _ hln hlen hL hRr hrectS (DI.PyEvalKeys.rect_wholeRows _ _))]
    rw [← (Prod.mk.inj hpair).1, ← (Prod.mk.inj hpair).2]
  · show (joinIndices self _ (leftNames bys) (rightNames bys)).map _ = _
    rw [hprim]; rfl
  · unfold srcVec
    exact DI.PyEvalKeys.joinPos_eq_firstPos _ _ (DI.PyEvalKeys.reduced_keys_nodup (nrow other) (rightKeys other bys))

/-! ### the primitive interpretation of `Proofs/EvalC05.lean` is the one the regenerated bodies induce -/

/-- the three regenerated bodies evaluated one after the other, as a join does: `d = other.drop_na(*by2)`,
    `red = d.unique(*by2)`, `(found, src) = self._get_join_indices(red, by1, by2)`. -/
def BodiesChain (truth : Term → Bool) (cast : DT → DT → List Cell → List Cell) (self other : Frame)
    (dtS dtO : String → DT) (bys : List ByItem) (d red : Frame) (found src : List Int) : Prop :=
  DI.PyEvalKeys.runRet cast (DI.PyEvalKeys.callEnv other dtO [("colnames", .strs (rightNames bys))])
    (DataFrame_drop_na truth) = some (.frame d dtO) ∧
  DI.PyEvalKeys.runBody cast (DI.PyEvalKeys.callEnv d dtO [("colnames", .strs (rightNames bys))])
    (DataFrame_unique truth) = some red ∧
  DI.PyEvalKeys.runRet cast (joinIdxEnv cast self dtS red dtO (leftNames bys) (rightNames bys))
    (DataFrame_get_join_indices truth) = some (.pair (.ints found) (.ints src))

/-- the values the three primitives of the join evaluator return for the same calls. -/
def PrimsReturn (na : Cell) (self other : Frame) (bys : List ByItem) (d red : Frame) (found src : List Int) : Prop :=
  DI.PyEvalX.prim na ".drop_na" [.frame other, .star (.strs (rightNames bys))] = some (.frame d) ∧
  DI.PyEvalX.prim na ".unique" [.frame d, .star (.strs (rightNames bys))] = some (.frame red) ∧
  DI.PyEvalX.prim na "._get_join_indices" [.frame self, .frame red, .strs (leftNames bys), .strs (rightNames bys)] =
    some (.pair (.ints found) (.ints src))

/-- **the primitive interpretation used by the join theorems is the one induced by the regenerated bodies**: for every
    join call the bodies of `drop_na`, `unique` and `_get_join_indices`, evaluated in sequence, produce values `d`, `red`,
    `(found, src)`; the primitives return exactly these; and they are the model's: `red` = `other` at `rightReduced`,
    `found` = `semiJoinIdx`, `src` = `srcVec`. -/
theorem join_primitives_induced (truth : Term → Bool) (cast : DT → DT → List Cell → List Cell) (hcast : CastSound cast)
    (na : Cell) (self other : Frame) (dtS dtO : String → DT) (bys : List ByItem) (hne : bys ≠ [])
    (hL : ∀ c ∈ leftNames bys, c ∈ names self) (hR : ∀ c ∈ rightNames bys, c ∈ names other)
    (hrectS : Rect self) (hrectO : Rect other) :
    ∃ d red found src,
      BodiesChain truth cast self other dtS dtO bys d red found src ∧
      PrimsReturn na self other bys d red found src ∧
      red = wholeRows other (rightReduced (nrow other) (rightKeys other bys) true) ∧
      found = (semiJoinIdx (nrow self) (leftKeys self bys) (nrow other) (rightKeys other bys)).map
        (fun (k : Nat) => (k : Int)) ∧
      src = srcVec (nrow self) (leftKeys self bys) (nrow other) (rightKeys other bys) := by
  obtain ⟨d, h1, h2, h3, h4⟩ := reduced_frame_eval truth cast na other dtO bys hne hR hrectO
  obtain ⟨h5, h6, _⟩ := get_join_indices_primitive_justified truth cast hcast na self other dtS dtO bys hne hL hR hrectS
  exact ⟨d, _, _, _, ⟨h1, h2, h5⟩, ⟨h3, h4, h6⟩, rfl, rfl, rfl⟩

/-- **semi_join, closed**: with the regenerated bodies in place of the primitives — the result is every column of the
    receiver at the positions `found` the evaluated `_get_join_indices` returns on the evaluated reduced frame, and that
    is the model's semi-join. -/
theorem semi_join_eval_closed (truth : Term → Bool) (cast : DT → DT → List Cell → List Cell) (hcast : CastSound cast)
    (na : Cell) (env : DI.PyEvalX.Env) (self other : Frame) (dtS dtO : String → DT) (bys : List ByItem)
    (hself : env.get? "self" = some (.frame self)) (hother : env.get? "other" = some (.frame other))
    (hby : env.get? "by" = some (.byspec bys)) (hne : bys ≠ [])
    (hL : ∀ c ∈ leftNames bys, c ∈ names self) (hR : ∀ c ∈ rightNames bys, c ∈ names other)
    (hrectS : Rect self) (hrectO : Rect other) :
    ∃ d red found src, BodiesChain truth cast self other dtS dtO bys d red found src ∧
      PrimsReturn na self other bys d red found src ∧
      DI.PyEvalX.runBody na env (DataFrame_semi_join truth) = some (wholeRows self (found.map Int.toNat)) ∧
      found.map Int.toNat = semiJoinIdx (nrow self) (leftKeys self bys) (nrow other) (rightKeys other bys) := by
  obtain ⟨d, red, found, src, hb, hp, _, hf, _⟩ :=
    join_primitives_induced truth cast hcast na self other dtS dtO bys hne hL hR hrectS hrectO
  have hfm : found.map Int.toNat = semiJoinIdx (nrow self) (leftKeys self bys) (nrow other) (rightKeys other bys) := by
    rw [hf, List.map_map]; simp [Function.comp_def]
  exact ⟨d, red, found, src, hb, hp,
    by rw [hfm]; exact semi_join_eval na truth env self other bys hself hother hby hne hL hR hrectS, hfm⟩

/-- **anti_join, closed**: the receiver with the positions `found` deleted = the model's anti-join rows. -/
theorem anti_join_eval_closed (truth : Term → Bool) (cast : DT → DT → List Cell → List Cell) (hcast : CastSound cast)
    (na : Cell) (env : DI.PyEvalX.Env) (self other : Frame) (dtS dtO : String → DT) (bys : List ByItem)
    (hself : env.get? "self" = some (.frame self)) (hother : env.get? "other" = some (.frame other))
    (hby : env.get? "by" = some (.byspec bys)) (hne : bys ≠ [])
    (hL : ∀ c ∈ leftNames bys, c ∈ names self) (hR : ∀ c ∈ rightNames bys, c ∈ names other)
    (hrectS : Rect self) (hrectO : Rect other) :
    ∃ d red found src, BodiesChain truth cast self other dtS dtO bys d red found src ∧
      PrimsReturn na self other bys d red found src ∧
      DI.PyEvalX.runBody na env (DataFrame_anti_join truth) =
        some (wholeRows self (deleteIdx (nrow self) (found.map Int.toNat))) ∧
      deleteIdx (nrow self) (found.map Int.toNat) =
        antiJoinIdx (nrow self) (leftKeys self bys) (nrow other) (rightKeys other bys) := by
  obtain ⟨d, red, found, src, hb, hp, _, hf, _⟩ :=
    join_primitives_induced truth cast hcast na self other dtS dtO bys hne hL hR hrectS hrectO
  have hfm : found.map Int.toNat = semiJoinIdx (nrow self) (leftKeys self bys) (nrow other) (rightKeys other bys) := by
    rw [hf, List.map_map]; simp [Function.comp_def]
  have hdel := DI.PyEvalX.deleteIdx_semi (nrow self) (leftKeys self bys) (nrow other) (rightKeys other bys)
  exact ⟨d, red, found, src, hb, hp,
    by rw [hfm, hdel]; exact anti_join_eval na truth env self other bys hself hother hby hne hL hR hrectS,
    by rw [hfm, hdel]⟩

/-- **inner_join, closed**: the model's `innerJoinPairs` read off the two frames, where the pairs' left ids are `found`
    and (`EvalC05.get_join_indices_is_joinSrc`) the right id of left row `i` is the original row of position `src[i]` of
    the evaluated reduced frame. -/
theorem inner_join_eval_closed (truth : Term → Bool) (cast : DT → DT → List Cell → List Cell) (hcast : CastSound cast)
    (na : Cell) (env : DI.PyEvalX.Env) (self other : Frame) (dtS dtO : String → DT) (bys : List ByItem)
    (hself : env.get? "self" = some (.frame self)) (hother : env.get? "other" = some (.frame other))
    (hby : env.get? "by" = some (.byspec bys)) (hne : bys ≠ [])
    (hL : ∀ c ∈ leftNames bys, c ∈ names self) (hR : ∀ c ∈ rightNames bys, c ∈ names other)
    (hrectS : Rect self) (hrectO : Rect other) :
    ∃ d red found src, BodiesChain truth cast self other dtS dtO bys d red found src ∧
      PrimsReturn na self other bys d red found src ∧
      DI.PyEvalX.runBody na env (DataFrame_inner_join truth) =
        some (joinFrame na self other bys
          (innerJoinPairs (nrow self) (leftKeys self bys) (nrow other) (rightKeys other bys))) ∧
      innerJoinPairs (nrow self) (leftKeys self bys) (nrow other) (rightKeys other bys) =
        (found.map Int.toNat).map (fun i =>
          (some i, (joinSrc (nrow self) (leftKeys self bys) (nrow other) (rightKeys other bys))[i]!)) := by
  obtain ⟨d, red, found, src, hb, hp, _, hf, _⟩ :=
    join_primitives_induced truth cast hcast na self other dtS dtO bys hne hL hR hrectS hrectO
  have hfm : found.map Int.toNat = semiJoinIdx (nrow self) (leftKeys self bys) (nrow other) (rightKeys other bys) := by
    rw [hf, List.map_map]; simp [Function.comp_def]
  exact ⟨d, red, found, src, hb, hp,
    inner_join_eval na truth env self other bys hself hother hby hne hL hR hrectS,
    by rw [hfm]; exact DI.PyEvalX.innerJoinPairs_eq_semi _ _ _ _⟩

/-- **left_join, closed**: the model's `leftJoinPairs` read off the two frames; `src` (from the evaluated bodies) is, row by
    row, the position in the evaluated reduced frame of the model's partner, or -1. -/
theorem left_join_eval_closed (truth : Term → Bool) (cast : DT → DT → List Cell → List Cell) (hcast : CastSound cast)
    (na : Cell) (env : DI.PyEvalX.Env) (self other : Frame) (dtS dtO : String → DT) (bys : List ByItem)
    (hself : env.get? "self" = some (.frame self)) (hother : env.get? "other" = some (.frame other))
    (hby : env.get? "by" = some (.byspec bys)) (hne : bys ≠ [])
    (hL : ∀ c ∈ leftNames bys, c ∈ names self) (hR : ∀ c ∈ rightNames bys, c ∈ names other)
    (hrectS : Rect self) (hrectO : Rect other) :
    ∃ d red found src, BodiesChain truth cast self other dtS dtO bys d red found src ∧
      PrimsReturn na self other bys d red found src ∧
      DI.PyEvalX.runBody na env (DataFrame_left_join truth) =
        some (joinFrame na self other bys
          (leftJoinPairs (nrow self) (leftKeys self bys) (nrow other) (rightKeys other bys))) ∧
      ∀ i, i < nrow self →
        (∃ p : Nat, p < (rightReduced (nrow other) (rightKeys other bys) true).length ∧ src[i]! = (p : Int) ∧
          (joinSrc (nrow self) (leftKeys self bys) (nrow other) (rightKeys other bys))[i]! =
            some (rightReduced (nrow other) (rightKeys other bys) true)[p]!) ∨
        (src[i]! = -1 ∧ (joinSrc (nrow self) (leftKeys self bys) (nrow other) (rightKeys other bys))[i]! = none) := by
  obtain ⟨d, red, found, src, hb, hp, _, _, hs⟩ :=
    join_primitives_induced truth cast hcast na self other dtS dtO bys hne hL hR hrectS hrectO
  exact ⟨d, red, found, src, hb, hp,
    left_join_eval na truth env self other bys hself hother hby hne hL hR hrectS,
    fun i hi => by rw [hs]; exact DI.PyEvalX.srcVec_get _ _ _ _ i hi⟩

/-! ### non-vacuity: the frames of `Proofs/EvalC05.lean` (a duplicate right key, missing keys on both sides) -/

def idCast : DT → DT → List Cell → List Cell := fun _ _ c => c
def odt : String → DT := fun _ => ⟨.other, 0⟩

example : CastSound idCast := fun _ _ _ _ => rfl

/-- `(found, src)` as a pair of lists (values of the evaluator have no decidable equality: a frame carries a function). -/
def pairOf : Option KVal → Option (List Int × List Int)
  | some (.pair (.ints f) (.ints s)) => some (f, s)
  | _ => none

/-- WITHOUT `drop_na` / `unique` (the right frame as it is): right rows 0 and 2 both have the key 2 — the LAST one (2)
    wins; a missing left key matches the missing right key (`None == None`): that is why the callers drop them first. -/
example : pairOf (DI.PyEvalKeys.runRet idCast (joinIdxEnv idCast lf odt rt odt ["k"] ["k"])
    (DataFrame_get_join_indices (fun _ => false))) = some ([1, 2, 3], [-1, 1, 2, 3]) := by decide +kernel

example : joinPos [[some (.i 2)]] [[some (.i 2)], [none], [some (.i 2)]] = [2] ∧
    firstPos [[some (.i 2)]] [[some (.i 2)], [none], [some (.i 2)]] = [0] := by decide

/-- on the reduced right frame (rows 0 and 3 of `rt`): `found = [2, 3]`, `src = [-1, -1, 0, 1]`. -/
example : rightReduced (nrow rt) (rightKeys rt [.name "k"]) true = [0, 3] ∧
    semiJoinIdx (nrow lf) (leftKeys lf [.name "k"]) (nrow rt) (rightKeys rt [.name "k"]) = [2, 3] ∧
    srcVec (nrow lf) (leftKeys lf [.name "k"]) (nrow rt) (rightKeys rt [.name "k"]) = [-1, -1, 0, 1] := by decide

/-- datetime keys of different units: the promotion loop runs (and stores), the result is the same. -/
example : pairOf (DI.PyEvalKeys.runRet idCast
    (joinIdxEnv idCast lf (fun _ => ⟨.datetime, 1⟩) rt (fun _ => ⟨.datetime, 2⟩) ["k"] ["k"])
    (DataFrame_get_join_indices (fun _ => false))) = some ([1, 2, 3], [-1, 1, 2, 3]) := by decide +kernel

/-- no key names: Python raises (IndexError / ValueError) unless both frames are empty. -/
example : pairOf (DI.PyEvalKeys.runRet idCast (joinIdxEnv idCast lf odt rt odt [] [])
    (DataFrame_get_join_indices (fun _ => false))) = none := by decide +kernel

end DI.Eval.C05

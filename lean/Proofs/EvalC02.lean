/-
  Proofs/EvalC02.lean — what the REGENERATED generator bodies of `DataFrame.filter` / `filter_out` / `slice` /
  `slice_off` (`Generated/CodeC02.lean`, translated from the current Python source on every run) DENOTE under the
  evaluator of `Model/PyEvalFrame.lean`: for every frame (any number of columns and rows) and every argument, the list of
  yielded (name, column) pairs is the model's whole-row function — EVERY column of the receiver, in dict order, gathered
  (`gather`, the function of `C02.whole_rows`) at ONE list of row positions: `filterIdx mask`, `filterOutIdx mask`,
  `sliceIdx nrow rows`, `sliceOffIdx nrow rows` (`Model/Frame.lean`), the lists the theorems of `Proofs/C02.lean` are about.

  Statements only; the proofs cite `Lemmas/PyEvalFrame.lean`.  The bodies are first rewritten to their normal forms with
  the theorems of `Proofs/TieC02.lean`.

  Hypotheses: `Rect self` (every column has `nrow` cells: the class invariant `_check_dimensions` enforces), for
  `slice` / `slice_off` distinct column names (a dict) and positions within range (NumPy raises IndexError otherwise).
-/
import Generated.CodeC02
import Proofs.TieC02
import Proofs.C02
import Lemmas.PyEvalFrame

namespace DI.Eval.C02

open DI DI.Py DI.Gen DI.PyEval DI.Tie.C02

/-! ### filter / filter_out -/

/-- the statements of the body of `filter`: the pairs loop (only in the `colname=value` form), then the ONE loop over the
    columns (`Tie.C02.filter_whole_rows` is the statement about the last of them). -/
theorem filter_body (truth : Term → Bool) (rowsNone : Bool) :
    DataFrame_filter truth rowsNone =
      Out.fall ((if rowsNone && truth (Term.sym "colname_value_pairs") then [kvFold] else []) ++
        [perColumn (fun c => Term.app "np.take"
          [c, parsedMask (conditionOf truth rowsNone (Term.app "value-after-loop" [Term.sym "rows", kvFold]))])]) := by
  unfold DataFrame_filter conditionOf
  cases rowsNone <;> cases truth (Term.app "callable" [Term.sym "rows"]) <;>
    cases truth (Term.sym "colname_value_pairs") <;> rfl

/-- the same for `filter_out`, with `np.delete` in place of `np.take` (`Tie.C02.filter_out_whole_rows`). -/
theorem filter_out_body (truth : Term → Bool) (rowsNone : Bool) :
    DataFrame_filter_out truth rowsNone =
      Out.fall ((if rowsNone && truth (Term.sym "colname_value_pairs") then [kvFold] else []) ++
        [perColumn (fun c => Term.app "np.delete"
          [c, parsedMask (conditionOf truth rowsNone (Term.app "value-after-loop" [Term.sym "rows", kvFold]))])]) := by
  unfold DataFrame_filter_out conditionOf
  cases rowsNone <;> cases truth (Term.app "callable" [Term.sym "rows"]) <;>
    cases truth (Term.sym "colname_value_pairs") <;> rfl

/-- **filter(mask)**: every column of the receiver, in dict order, gathered at `filterIdx mask`. -/
theorem filter_mask_eval (truth : Term → Bool) (env : Env) (self : Frame) (m : List Bool)
    (hcall : truth (Term.app "callable" [Term.sym "rows"]) = false)
    (hself : env.get? "self" = some (.frame self)) (hrows : env.get? "rows" = some (.mask m))
    (hrect : Rect self) (hm : m.length = nrow self) :
    runBody env (DataFrame_filter truth false) = some (wholeRows self (filterIdx m)) := by
  rw [filter_body]
  simp only [conditionOf, hcall, Bool.false_and, Bool.not_false, if_true, Bool.false_eq_true, if_false, List.nil_append]
  exact run_filter_take _ m env self hself hrect hm (cond_mask hrows)

/-- **filter(callable)**: the callable is applied ONCE, to the whole receiver; then as for the mask it returns. -/
theorem filter_callable_eval (truth : Term → Bool) (env : Env) (self : Frame) (g : Frame → List Bool)
    (hcall : truth (Term.app "callable" [Term.sym "rows"]) = true)
    (hself : env.get? "self" = some (.frame self)) (hrows : env.get? "rows" = some (.fn g))
    (hrect : Rect self) (hm : (g self).length = nrow self) :
    runBody env (DataFrame_filter truth false) = some (wholeRows self (filterIdx (g self))) := by
  rw [filter_body]
  simp only [conditionOf, hcall, Bool.false_and, Bool.not_false, if_true, Bool.false_eq_true, if_false, List.nil_append]
  exact run_filter_take _ (g self) env self hself hrect hm (cond_callable hself hrows)

/-- the pairs loop of the regenerated body is `kvLoop` with an initial value that evaluates to all-true (whichever of the
    two spellings of `Vector.fast([True], bool).repeat(self.nrow)` the translator emits). -/
theorem kvFold_shape : ∃ initT, kvFold = kvLoop initT ∧
    ∀ (e : Env) (self : Frame), e.get? "self" = some (.frame self) →
      evalExpr e initT = some (.mask (List.replicate (nrow self) true)) := by
  first
    | exact ⟨_, rfl, fun _ _ h => init_true_opaque h⟩
    | exact ⟨_, rfl, fun _ _ h => init_true_structural h⟩

/-- **filter(colname=value, …)** (non-missing values): the conjunction of the masks `self[colname] == value`
    (`andMasks`, the mask `C02.filter_forms_interchangeable` is about), then as for that mask. -/
theorem filter_pairs_eval (truth : Term → Bool) (env : Env) (self : Frame) (kvs : List (String × Key))
    (hpairs : truth (Term.sym "colname_value_pairs") = true)
    (hself : env.get? "self" = some (.frame self)) (hkv : env.get? "colname_value_pairs" = some (.kdict kvs))
    (hrect : Rect self) (hnames : ∀ p ∈ kvs, p.1 ∈ names self) :
    runBody env (DataFrame_filter truth true) =
      some (wholeRows self (filterIdx (andMasks (nrow self) (kvMasks self kvs)))) := by
  obtain ⟨initT, hk, hinit⟩ := kvFold_shape
  rw [filter_body]
  simp only [conditionOf, hpairs, Bool.true_and, Bool.not_true, if_true, Bool.false_eq_true, if_false,
    List.cons_append, List.nil_append]
  rw [hk]
  exact run_pairs_take initT env self kvs (fun e h => hinit e self h) hself hkv hrect hnames

/-- a mask that does not have one entry per row is rejected (the ValueError of `_parse_rows_from_boolean`,
    `Tie.C02.boolean_rows_guard`) — `hm` of `filter_mask_eval` is needed.  (For a receiver WITHOUT columns the translated
    body never evaluates the inlined `rows` expression; Python evaluates it before the loop.) -/
theorem filter_wrong_length_eval (truth : Term → Bool) (env : Env) (self : Frame) (m : List Bool)
    (hcall : truth (Term.app "callable" [Term.sym "rows"]) = false)
    (hself : env.get? "self" = some (.frame self)) (hrows : env.get? "rows" = some (.mask m))
    (hne : self ≠ []) (hm : m.length ≠ nrow self) :
    runBody env (DataFrame_filter truth false) = none := by
  rw [filter_body]
  simp only [conditionOf, hcall, Bool.false_and, Bool.not_false, if_true, Bool.false_eq_true, if_false, List.nil_append]
  exact run_filter_bad_length "np.take" (by decide) _ m env self hself hne hm (cond_mask hrows)

/-- **filter_out(mask)**: every column of the receiver, in dict order, gathered at `filterOutIdx mask`. -/
theorem filter_out_mask_eval (truth : Term → Bool) (env : Env) (self : Frame) (m : List Bool)
    (hcall : truth (Term.app "callable" [Term.sym "rows"]) = false)
    (hself : env.get? "self" = some (.frame self)) (hrows : env.get? "rows" = some (.mask m))
    (hrect : Rect self) (hm : m.length = nrow self) :
    runBody env (DataFrame_filter_out truth false) = some (wholeRows self (filterOutIdx m)) := by
  rw [filter_out_body]
  simp only [conditionOf, hcall, Bool.false_and, Bool.not_false, if_true, Bool.false_eq_true, if_false, List.nil_append]
  exact run_filter_delete _ m env self hself hrect hm (cond_mask hrows)

/-- **filter_out(callable)**: the callable applied once to the whole receiver, then as for the mask it returns. -/
theorem filter_out_callable_eval (truth : Term → Bool) (env : Env) (self : Frame) (g : Frame → List Bool)
    (hcall : truth (Term.app "callable" [Term.sym "rows"]) = true)
    (hself : env.get? "self" = some (.frame self)) (hrows : env.get? "rows" = some (.fn g))
    (hrect : Rect self) (hm : (g self).length = nrow self) :
    runBody env (DataFrame_filter_out truth false) = some (wholeRows self (filterOutIdx (g self))) := by
  rw [filter_out_body]
  simp only [conditionOf, hcall, Bool.false_and, Bool.not_false, if_true, Bool.false_eq_true, if_false, List.nil_append]
  exact run_filter_delete _ (g self) env self hself hrect hm (cond_callable hself hrows)

/-- **filter_out(colname=value, …)**: the complement of what `filter` keeps for the same pairs. -/
theorem filter_out_pairs_eval (truth : Term → Bool) (env : Env) (self : Frame) (kvs : List (String × Key))
    (hpairs : truth (Term.sym "colname_value_pairs") = true)
    (hself : env.get? "self" = some (.frame self)) (hkv : env.get? "colname_value_pairs" = some (.kdict kvs))
    (hrect : Rect self) (hnames : ∀ p ∈ kvs, p.1 ∈ names self) :
    runBody env (DataFrame_filter_out truth true) =
      some (wholeRows self (filterOutIdx (andMasks (nrow self) (kvMasks self kvs)))) := by
  obtain ⟨initT, hk, hinit⟩ := kvFold_shape
  rw [filter_out_body]
  simp only [conditionOf, hpairs, Bool.true_and, Bool.not_true, if_true, Bool.false_eq_true, if_false,
    List.cons_append, List.nil_append]
  rw [hk]
  exact run_pairs_delete initT env self kvs (fun e h => hinit e self h) hself hkv hrect hnames

/-- what "whole rows" means cell by cell (`C02.whole_rows`): column `k` of the result has the name of column `k` of the
    receiver, and its row `j` is the receiver's row `idx[j]` — the same `idx[j]` in every column. -/
theorem whole_rows_cells (self : Frame) (idx : List Nat) (k j : Nat) (hk : k < self.length) (hj : j < idx.length) :
    ((wholeRows self idx)[k]!).1 = (self[k]!).1 ∧ ((wholeRows self idx)[k]!).2[j]! = ((self[k]!).2)[idx[j]!]! :=
  wholeRows_cell self idx k j hk hj

/-- **filter ∪ filter_out is a partition of the rows** (corollary of `C02.filter_filter_out_partition`): the two
    results, stacked column by column, are the receiver's rows re-ordered by ONE permutation `idx` of all row positions —
    the same for every column; so every row goes to exactly one of the two, whole. -/
theorem filter_filter_out_partition_eval (truth : Term → Bool) (env : Env) (self : Frame) (m : List Bool)
    (hcall : truth (Term.app "callable" [Term.sym "rows"]) = false)
    (hself : env.get? "self" = some (.frame self)) (hrows : env.get? "rows" = some (.mask m))
    (hrect : Rect self) (hm : m.length = nrow self) :
    ∃ A B idx, runBody env (DataFrame_filter truth false) = some A ∧
      runBody env (DataFrame_filter_out truth false) = some B ∧
      idx.Perm (List.range (nrow self)) ∧
      List.zipWith (fun p q => (p.1, p.2 ++ q.2)) A B = wholeRows self idx ∧
      ∀ p ∈ self, (gather p.2 (filterIdx m) ++ gather p.2 (filterOutIdx m)).Perm p.2 := by
  obtain ⟨h1, h2, h3⟩ := partition_frames self m hrect hm
  exact ⟨_, _, _, filter_mask_eval truth env self m hcall hself hrows hrect hm,
    filter_out_mask_eval truth env self m hcall hself hrows hrect hm, h1, h2, h3⟩

/-! ### slice / slice_off -/

/-- **slice(rows, cols)**: the columns at the requested positions (all columns, in dict order, when `cols` is None),
    every one read at the ONE list of row positions `sliceIdx nrow rows` (all rows when `rows` is None). -/
theorem slice_eval (truth : Term → Bool) (rowsNone colsNone : Bool) (env : Env) (self : Frame) (rows cols : List Int)
    (hself : env.get? "self" = some (.frame self))
    (hrows : rowsNone = false → env.get? "rows" = some (.ints rows) ∧ ∀ r ∈ rows, InRange (nrow self) r)
    (hcols : colsNone = false → env.get? "cols" = some (.ints cols) ∧ ∀ c ∈ cols, InRange (ncol self) c)
    (hnd : (names self).Nodup) (hrect : Rect self) :
    runBody env (DataFrame_slice truth rowsNone colsNone) =
      some ((if colsNone then List.range (ncol self) else DI.sliceIdx (ncol self) cols).map (fun j =>
        ((self[j]!).1, gather (self[j]!).2
          (if rowsNone then List.range (nrow self) else DI.sliceIdx (nrow self) rows)))) := by
  rw [slice_whole_rows]
  exact run_slice rowsNone colsNone env self rows cols hself hrows hcols hnd hrect

/-- **slice(rows)**: EVERY column of the receiver, in dict order, gathered at `sliceIdx nrow rows`. -/
theorem slice_rows_eval (truth : Term → Bool) (env : Env) (self : Frame) (rows : List Int)
    (hself : env.get? "self" = some (.frame self)) (hrows : env.get? "rows" = some (.ints rows))
    (hin : ∀ r ∈ rows, InRange (nrow self) r) (hnd : (names self).Nodup) (hrect : Rect self) :
    runBody env (DataFrame_slice truth false true) = some (wholeRows self (DI.sliceIdx (nrow self) rows)) := by
  rw [slice_whole_rows]
  exact run_slice_rows env self rows hself hrows hin hnd hrect

/-- **slice_off(rows, cols)**: the columns whose position is not listed in `cols`, in dict order, every one with the ONE
    list of row positions deleted (`sliceOffIdx nrow rows`); nothing is deleted for None. -/
theorem slice_off_eval (truth : Term → Bool) (rowsNone colsNone : Bool) (env : Env) (self : Frame) (rows cols : List Int)
    (hself : env.get? "self" = some (.frame self))
    (hrows : rowsNone = false → env.get? "rows" = some (.ints rows) ∧ ∀ r ∈ rows, InRange (nrow self) r)
    (hcols : colsNone = false → env.get? "cols" = some (.ints cols))
    (hnd : (names self).Nodup) (hrect : Rect self) :
    runBody env (DataFrame_slice_off truth rowsNone colsNone) =
      some ((self.zipIdx.filter (fun a => !(if colsNone then [] else cols).contains ((a.2 : Nat) : Int))).map
        (fun a => (a.1.1, gather a.1.2 (sliceOffIdx (nrow self) (if rowsNone then [] else rows))))) := by
  rw [slice_off_whole_rows]
  exact run_slice_off rowsNone colsNone env self rows cols hself hrows hcols hnd hrect

/-- **slice_off(rows)**: EVERY column of the receiver, in dict order, gathered at `sliceOffIdx nrow rows`. -/
theorem slice_off_rows_eval (truth : Term → Bool) (env : Env) (self : Frame) (rows : List Int)
    (hself : env.get? "self" = some (.frame self)) (hrows : env.get? "rows" = some (.ints rows))
    (hin : ∀ r ∈ rows, InRange (nrow self) r) (hnd : (names self).Nodup) (hrect : Rect self) :
    runBody env (DataFrame_slice_off truth false true) = some (wholeRows self (sliceOffIdx (nrow self) rows)) := by
  rw [slice_off_whole_rows]
  exact run_slice_off_rows env self rows hself hrows hin hnd hrect

/-! ### non-vacuity: a frame with 2 columns and 3 rows -/

def fr : Frame := [("a", [some (.i 1), none, some (.i 3)]), ("b", [some (.b true), some (.b false), none])]

example : Rect fr ∧ (names fr).Nodup := by decide

example : runBody (callEnv fr [("rows", .mask [true, false, true])]) (DataFrame_filter (fun _ => false) false)
    = some [("a", [some (.i 1), some (.i 3)]), ("b", [some (.b true), none])] := by decide
example : runBody (callEnv fr [("rows", .fn (fun f => (f.head!.2.map isNa)))]) (DataFrame_filter (fun _ => true) false)
    = some [("a", [none]), ("b", [some (.b false)])] := by decide
example : runBody (callEnv fr [("rows", .none), ("colname_value_pairs", .kdict [("a", .i 3)])])
    (DataFrame_filter (fun _ => true) true) = some [("a", [some (.i 3)]), ("b", [none])] := by decide
example : runBody (callEnv fr [("rows", .mask [true, false])]) (DataFrame_filter (fun _ => false) false) = none := by
  decide
example : runBody (callEnv fr [("rows", .mask [true, false, true])]) (DataFrame_filter_out (fun _ => false) false)
    = some [("a", [none]), ("b", [some (.b false)])] := by decide
example : runBody (callEnv fr [("rows", .ints [2, -3]), ("cols", .none)]) (DataFrame_slice (fun _ => false) false true)
    = some [("a", [some (.i 3), some (.i 1)]), ("b", [none, some (.b true)])] := by decide
example : runBody (callEnv fr [("rows", .ints [3])]) (DataFrame_slice (fun _ => false) false true) = none := by decide
example : runBody (callEnv fr [("rows", .ints [2, -3]), ("cols", .none)])
    (DataFrame_slice_off (fun _ => false) false true) = some [("a", [none]), ("b", [some (.b false)])] := by decide
example : runBody (callEnv fr [("rows", .ints [2, -3]), ("cols", .ints [1])])
    (DataFrame_slice_off (fun _ => false) false false) = some [("a", [none])] := by decide
example : wholeRows fr (filterIdx [true, false, true]) =
    [("a", [some (.i 1), some (.i 3)]), ("b", [some (.b true), none])] := by decide

end DI.Eval.C02

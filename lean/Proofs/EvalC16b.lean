/-
  Proofs/EvalC16b.lean — property C16, "code ⇒ semantics ⇒ model" for `ListOfDicts.group_by`, `_split_join_by`,
  `aggregate` and `full_join` (continuing `Proofs/EvalC16.lean`).

  The meaning of the terms is `retA` / `runG` / `retM` of `Model/PyEvalLoDAgg.lean`: the evaluators of `Model/PyEval.lean` /
  `Model/PyEvalLoDJoin.lean` extended with allocation of new objects (`deepcopy`, `select`, `ListOfDicts(…)`), the dict of
  lists `items_by_group`, and METHOD CALLS — a call `x.unique(…)`, `.select`, `.sort`, `.left_join`, `.anti_join`,
  `.fill_missing_keys`, `.unselect`, `x + y` is evaluated by running the REGENERATED body of that method (`lodBodies`: the
  terms of `Generated/CodeC15.lean` / `CodeC16.lean`) in the environment that binds its parameters.  `truth` must send
  those bodies into the branch that applies (`unique`: receiver not empty and keys given; `fill_missing_keys`: pairs given;
  `+`: the operand is a ListOfDicts).

  * `group_by_eval`: the keys are recorded as the receiver's `_group_keys`; the receiver itself is returned.
  * `split_join_by_eval`: the regenerated `_split_join_by` returns the (left names, right names) that the join bodies use.
  * `aggregate_eval`: for EVERY store, references (an object may occur several times), callables that read only the items
    they are given (`GroupFn`): the body yields NEW row objects, one per distinct key tuple, in the order of the model's
    `LoD.aggregate` (ascending key tuples, None last), each holding the key entries and then `name = function(members)` for
    every pair — the members being (fresh copies of) exactly the items with that key tuple, in list order (`aggItems`); every
    object that existed before — the receiver's items — is unchanged.  `aggregate_eval_groups`: what that means item by item.
  * `full_join_eval`: the term `full_join` returns — both operands deep-copied and tagged with `_aid_` / `_bid_` = 1, 2, …
    (the two inlined counters), the left join of ANOTHER deep copy of the tagged left list, `fill_missing_keys` with the next
    counter value, the unmatched right items through `anti_join` on `_bid_`, the reverse left join, `+`, `sort(_aid_=1,
    _bid_=1)`, `unselect` — evaluates to NEW objects whose contents are, row by row and in order, those of the model's
    `LoD.fullJoin` (hence everything `Proofs/C16.lean` proves about `LoD.fullJoin` — every left item at least once, every
    right item kept, the order, the `…_once_partial` multiplicities and their counterexamples — is about what the code
    returns); the items of the receiver and of `other` are untouched.  The test `len(b') == 0` that `truth`
    resolved evaluates to "the model has no unmatched right item".  `full_join_reserved_key_counterexample`: the hypothesis
    "no item has a key `_aid_` / `_bid_`" is forced (the library drops such a key of the caller's).

  Statements only; proofs cite `Lemmas/PyEvalLoDAgg.lean`, `Lemmas/PyEvalLoDFull.lean`.
-/
import Generated.CodeC15
import Generated.CodeC16
import Model.PyEvalLoDAgg
import Lemmas.PyEvalLoDAgg
import Lemmas.PyEvalLoDFull
import Proofs.TieC15
import Proofs.TieC16

namespace DI.Eval.C16

open DI DI.Py DI.Gen DI.LoD DI.PyEvalLoD DI.Tie.C16

/-- the bodies of the methods that `aggregate` / `full_join` call: the regenerated code. -/
def lodBodies (truth : Term → Bool) : Bodies where
  unique := (ListOfDicts_unique truth).effs
  select := (ListOfDicts_select truth).effs
  leftJoin := (ListOfDicts_left_join truth).effs
  antiJoin := (ListOfDicts_anti_join truth).effs
  fill := (ListOfDicts_fill_missing_keys truth).effs
  unselect := (ListOfDicts_unselect truth).effs
  add := (ListOfDicts_add truth).effs
  sort := ListOfDicts_sort truth

/-- **group_by(*keys)**: the term says — `self._group_keys = tuple(keys)` (kept under the reserved name `groupKeysName`),
    then the receiver ITSELF is returned (the same value `v`; no new list, no copy); the store is unchanged. -/
theorem group_by_eval (truth : Term → Bool) (F : Funs) (ρ : Env) (σ : Store) (v : PVal) (ks : List PVal)
    (hself : ρ.lookup "self" = some v) (hkeys : ρ.lookup "keys" = some (.tuple ks)) :
    retA F (ListOfDicts_group_by truth) ρ σ = some (v, (groupKeysName, .tuple ks) :: ρ, σ) :=
  group_by_run F ρ σ v ks hself hkeys

/-- **_split_join_by(*by)**: the regenerated body, EVALUATED: a string names the key on both sides, a pair is read by
    position — the result is the pair (left names, right names), exactly the two lists that `item0 / item1
    [._split_join_by …]` denote in the join bodies (`Proofs/EvalC16.lean`). -/
theorem split_join_by_eval (truth : Term → Bool) (F : Funs) (ρ : Env) (σ : Store) (bys : List ByArg)
    (hby : ρ.lookup "by" = some (byVal bys)) :
    retA F (ListOfDicts_split_join_by truth) ρ σ = some (.tuple [keysVal (byLeft bys), keysVal (byRight bys)], ρ, σ) ∧
    evalJE F (Term.app "item0" [split]) ρ σ = some (keysVal (byLeft bys)) ∧
    evalJE F (Term.app "item1" [split]) ρ σ = some (keysVal (byRight bys)) :=
  ⟨split_join_by_run F ρ σ bys hby, evalJE_by1 F ρ σ bys hby, evalJE_by2 F ρ σ bys hby⟩

/-- **aggregate(**key_function_pairs)**: code ⇒ semantics ⇒ `LoD.aggregate`.  `ks`: the receiver's group keys (at least
    one; a key may be given more than once), `pfs`: the pairs name ↦ callable, `gf h`: what callable `h` computes from the contents of the
    items it is given (`GroupFn`).  `hall`: every item has the key columns (else KeyError); `hh`: per key, any two values can
    be ordered by Python (the group rows are sorted).  The yielded rows `R` are NEW objects (`σ.lookup = none` before),
    pairwise distinct; their contents are `aggItems` = for every group of the model, in the model's order, the key entries
    followed by `name = gf h (contents of the members in list order)`; every object of the initial store is unchanged. -/
theorem aggregate_eval (truth : Term → Bool) (hs : truth (Term.sym "self") = true) (hk : truth (Term.sym "keys") = true)
    (F : Funs) (gf : Nat → List LoD.Dict → LoD.Val) (ρ : Env) (σ : Store) (rs : List Nat) (xs : List Item) (ks : List String)
    (pfs : List (String × Nat)) (hne : ks ≠ [])
    (hself : ρ.lookup "self" = some (refsVal rs)) (hgk : ρ.lookup groupKeysName = some (keysVal ks))
    (hkfp : ρ.lookup "key_function_pairs" = some (fnPairsVal pfs)) (hbk : ρ.lookup bucketsName = none)
    (hv : Store.view σ rs = some xs) (hall : ∀ x, x ∈ xs → ∀ k, k ∈ ks → x.kv.has k = true)
    (hh : ∀ k, k ∈ ks → ∀ x, x ∈ xs → ∀ y, y ∈ xs → sameKind (keyVal k x) (keyVal k y) = true)
    (hgf : ∀ p, p ∈ pfs → GroupFn F p.2 (gf p.2)) :
    ∃ σ' R, runG F (lodBodies truth) (ListOfDicts_aggregate truth).effs ρ σ = some (R.map tagRef, σ') ∧
      Store.view σ' (R.map (·.tag)) = some R ∧ R.map (·.kv) = aggItems gf pfs ks xs ∧
      (R.map (·.tag)).Nodup ∧ (∀ r, r ∈ R → σ.lookup r.tag = none) ∧
      (∀ n d, σ.lookup n = some d → σ'.lookup n = some d) := by
  have hBu : (lodBodies truth).unique = [uniqueT] := by
    show (ListOfDicts_unique truth).effs = _; rw [DI.Tie.C15.unique_code truth hs hk]; rfl
  rw [aggregate_code]
  exact aggregate_run F (lodBodies truth) hBu rfl rfl gf ρ σ rs xs ks pfs hne hself hgk hkfp hbk hv hall hh hgf

/-- what `aggItems` says group by group: there is one row per distinct key tuple of the items (`LoD.aggregate`'s first
    components: pairwise different, every key tuple of an item among them, ascending with None last); the row of the
    model's group `(id, members)` holds the key entries `dict(zip(ks, id))` and then one entry per pair, computed from the contents
    of the items whose ids are `members` — the items with key tuple `id`, in list order; the groups partition the items. -/
theorem aggregate_eval_groups (gf : Nat → List LoD.Dict → LoD.Val) (pfs : List (String × Nat)) (ks : List String) (xs : List Item) :
    (aggItems gf pfs ks xs).length = (LoD.aggregate xs ks).length ∧
    (∀ (i : Nat) (h : i < (LoD.aggregate xs ks).length),
      (aggItems gf pfs ks xs)[i]? = some (aggDict gf pfs (Dict.ofPairs (ks.zip (LoD.aggregate xs ks)[i].1))
        ((membersOf ks xs (LoD.aggregate xs ks)[i].1).map (·.kv))) ∧
      (membersOf ks xs (LoD.aggregate xs ks)[i].1).map (·.tag) = (LoD.aggregate xs ks)[i].2) ∧
    ((LoD.aggregate xs ks).map (·.1)).Nodup ∧
    (∀ id, id ∈ (LoD.aggregate xs ks).map (·.1) ↔ id ∈ xs.map (extract ks)) ∧
    ((LoD.aggregate xs ks).map (·.1)).Pairwise (fun a b => LoD.lexLe a b = true ∧ LoD.lexLe b a = false) ∧
    ((LoD.aggregate xs ks).flatMap (·.2)).Perm (xs.map (·.tag)) := by
  refine ⟨by simp [aggItems], fun i h => ⟨by simp [aggItems, h], ?_⟩, aggregate_keys_nodup xs ks,
    fun id => mem_aggregate_keys xs ks id, aggregate_keys_strict_sorted xs ks, aggregate_partition xs ks⟩
  exact (aggregate_group xs ks _ (List.getElem_mem h)).symm

/-! ### full_join -/

/-- the bodies `full_join` calls are the regenerated ones, in the branch that applies: `fill_missing_keys` with pairs, `+`
    with a ListOfDicts. -/
theorem lodBodies_fj (truth : Term → Bool) (hkv : truth (Term.sym "key_value_pairs") = true)
    (hi : truth (Term.app "isinstance" [Term.sym "other", Term.sym "ListOfDicts"]) = true) : FJBodies (lodBodies truth) where
  leftJoin := rfl
  antiJoin := rfl
  fill := by show (ListOfDicts_fill_missing_keys truth).effs = _; rw [DI.Tie.C15.fill_missing_keys_code, hkv]; rfl
  unselect := rfl
  add := by show (ListOfDicts_add truth).effs = _; rw [DI.Tie.C15.add_code, if_pos hi]; rfl
  sort := rfl

/-- **full_join(other, *by)**: code ⇒ semantics ⇒ `LoD.fullJoin`.  `hk1` / `hk2`: the key columns are present; `hc1` / `hc2`:
    no item has a key `_aid_` / `_bid_`; `htest`: `truth` resolved the test `len(b') == 0` to the value it evaluates to (the
    first conclusion says which: the model has no unmatched right item).  Then the returned list consists of NEW, pairwise
    distinct objects `R` whose contents are those of the model's rows, in the model's order; every object of the initial
    store — the items of `self` and of `other` included — is unchanged. -/
theorem full_join_eval (truth : Term → Bool) (hkv : truth (Term.sym "key_value_pairs") = true)
    (hi : truth (Term.app "isinstance" [Term.sym "other", Term.sym "ListOfDicts"]) = true)
    (F : Funs) (ρ : Env) (σ : Store) (rs os : List Nat) (xs ys : List Item) (bys : List ByArg)
    (hself : ρ.lookup "self" = some (refsVal rs)) (hother : ρ.lookup "other" = some (refsVal os))
    (hby : ρ.lookup "by" = some (byVal bys)) (hne : bys ≠ [])
    (hv : Store.view σ rs = some xs) (hw : Store.view σ os = some ys)
    (hk1 : ∀ x, x ∈ xs → ∀ k, k ∈ byLeft bys → x.kv.has k = true)
    (hk2 : ∀ y, y ∈ ys → ∀ k, k ∈ byRight bys → y.kv.has k = true)
    (hc1 : ∀ x, x ∈ xs → Clean x.kv) (hc2 : ∀ y, y ∈ ys → Clean y.kv)
    (htest : truth fjTestT = (fjRest xs ys (byLeft bys) (byRight bys)).isEmpty) :
    (∃ σt, evalM1 F (lodBodies truth) fjTestT ρ σ = some (.bool (fjRest xs ys (byLeft bys) (byRight bys)).isEmpty, σt)) ∧
    ∃ σ' R, retM F (lodBodies truth) (ListOfDicts_full_join truth) ρ σ = some (.tuple (R.map tagRef), σ') ∧
      Store.view σ' (R.map (·.tag)) = some R ∧
      R.map (·.kv) = (LoD.fullJoin xs ys (byLeft bys) (byRight bys)).map (·.kv) ∧
      (R.map (·.tag)).Nodup ∧ (∀ r, r ∈ R → σ.lookup r.tag = none) ∧
      (∀ n d, σ.lookup n = some d → σ'.lookup n = some d) := by
  have h := full_join_run F (lodBodies truth) (lodBodies_fj truth hkv hi) ρ σ rs os xs ys bys hself hother hby hne hv hw hk1 hk2
    hc1 hc2
  refine ⟨h.1, ?_⟩
  have e : retM F (lodBodies truth) (ListOfDicts_full_join truth) ρ σ =
      evalM1 F (lodBodies truth) (if (fjRest xs ys (byLeft bys) (byRight bys)).isEmpty then fjThenT else fjElseT) ρ σ := by
    rw [full_join_code]
    have ht : truth (Term.app "Eq" [Term.app "len" [Term.app ".anti_join" [tagged "other" "=_bid_",
        Term.app ".fill_missing_keys" [Term.app ".left_join" [Term.app ".deepcopy" [tagged "self" "=_aid_"],
          tagged "other" "=_bid_", Term.app "*" [Term.sym "by"]], Term.app "=_bid_" [Term.app "next" [counter]]],
        Term.sym "'_bid_'"]], Term.int 0]) = (fjRest xs ys (byLeft bys) (byRight bys)).isEmpty := htest
    simp only [ht]
    cases (fjRest xs ys (byLeft bys) (byRight bys)).isEmpty <;> rfl
  rw [e]; exact h.2

/-- the hypotheses `hc1` / `hc2` are forced: a left item with a key `_aid_` of its own — `{k: 1, _aid_: 7}` joined with
    `{k: 1, w: 3}` on `k`.  `full_join` overwrites that key with its row id and removes it at the end: the evaluator (as
    the library) returns `{k: 1, w: 3}`, the model keeps the caller's entry. -/
theorem full_join_reserved_key_counterexample :
    (retM ⟨fun _ _ _ => .atom .none⟩ (lodBodies (fun _ => true)) (ListOfDicts_full_join (fun _ => true))
        [("self", refsVal [0]), ("other", refsVal [1]), ("by", byVal [.same "k"])]
        [(0, [("k", .i 1), ("_aid_", .i 7)]), (1, [("k", .i 1), ("w", .i 3)])]).map
      (fun r => (r.1, Store.view r.2 [3])) = some (refsVal [3], some [⟨3, [("k", .i 1), ("w", .i 3)]⟩]) ∧
    (LoD.fullJoin [⟨0, [("k", .i 1), ("_aid_", .i 7)]⟩] [⟨1, [("k", .i 1), ("w", .i 3)]⟩] ["k"] ["k"]).map (·.kv) =
      [[("k", .i 1), ("_aid_", .i 7), ("w", .i 3)]] ∧
    fjRest [⟨0, [("k", .i 1), ("_aid_", .i 7)]⟩] [⟨1, [("k", .i 1), ("w", .i 3)]⟩] ["k"] ["k"] = [] := by
  refine ⟨by decide +kernel, ?_, by decide +kernel⟩
  rw [fullJoin_eq]
  decide +kernel

/-! ### non-vacuity: concrete runs -/

/-- a callable that counts the items it is given (`len`). -/
def lenFuns : Funs := ⟨fun _ args _ => match args with | [.tuple l] => .atom (.i l.length) | _ => .atom .none⟩

theorem lenFuns_groupFn (h : Nat) : GroupFn lenFuns h (fun ds => .i ds.length) := by
  intro σ rs xs hv
  have : rs.length = xs.length := by rw [← Store.view_tags σ rs xs hv]; simp
  simp [lenFuns, refsVal, this]

/-- `data.group_by("k").aggregate(n=len)` on `k = 1, 1, None, 0`: rows for `k = 0`, `k = 1`, `k = None` (None last), with
    `n = 1, 2, 1`; the rows are new objects (ids 9, 7, 8), the receiver's objects 0–3 are untouched. -/
example :
    (runG lenFuns (lodBodies (fun _ => true)) (ListOfDicts_aggregate (fun _ => true)).effs
        [("self", refsVal [0, 1, 2, 3]), (groupKeysName, keysVal ["k"]), ("key_function_pairs", fnPairsVal [("n", 0)])]
        [(0, [("k", .i 1), ("a", .i 5)]), (1, [("k", .i 1), ("a", .i 6)]), (2, [("k", .none)]), (3, [("k", .i 0)])]).map
      (fun r => (r.1, Store.view r.2 [9, 7, 8], Store.view r.2 [0, 1, 2, 3])) =
      some ([.ref 9, .ref 7, .ref 8],
        some [⟨9, [("k", .i 0), ("n", .i 1)]⟩, ⟨7, [("k", .i 1), ("n", .i 2)]⟩, ⟨8, [("k", .none), ("n", .i 1)]⟩],
        some [⟨0, [("k", .i 1), ("a", .i 5)]⟩, ⟨1, [("k", .i 1), ("a", .i 6)]⟩, ⟨2, [("k", .none)]⟩, ⟨3, [("k", .i 0)]⟩]) := by
  decide +kernel

/-- a key given twice (`group_by("k", "a", "k")`): the rows hold it once, the order is that of `(k, a)`. -/
example :
    (runG lenFuns (lodBodies (fun _ => true)) (ListOfDicts_aggregate (fun _ => true)).effs
        [("self", refsVal [0, 1, 2]), (groupKeysName, keysVal ["k", "a", "k"]), ("key_function_pairs", fnPairsVal [("n", 0)])]
        [(0, [("k", .i 1), ("a", .i 5)]), (1, [("k", .i 1), ("a", .i 5)]), (2, [("k", .i 0), ("a", .i 9)])]).map
      (fun r => (r.1, Store.view r.2 [6, 5])) =
      some ([.ref 6, .ref 5],
        some [⟨6, [("k", .i 0), ("a", .i 9), ("n", .i 1)]⟩, ⟨5, [("k", .i 1), ("a", .i 5), ("n", .i 2)]⟩]) ∧
    aggItems (fun _ ds => .i ds.length) [("n", 0)] ["k", "a", "k"]
        [⟨0, [("k", .i 1), ("a", .i 5)]⟩, ⟨1, [("k", .i 1), ("a", .i 5)]⟩, ⟨2, [("k", .i 0), ("a", .i 9)]⟩] =
      [[("k", .i 0), ("a", .i 9), ("n", .i 1)], [("k", .i 1), ("a", .i 5), ("n", .i 2)]] := by
  refine ⟨by decide +kernel, ?_⟩
  simp +decide [aggItems, LoD.aggregate, LoD.unique, LoD.uniqueScan, LoD.sort, sortPass, argsortPy, argsort, sortPairs, gather,
    List.mergeSort, passLe, Val.le, List.zipIdx, List.MergeSort.Internal.splitInTwo, LoD.extract, Dict.get?, aggDict, membersOf,
    Dict.ofPairs, Dict.set, Dict.has]

/-- group_by("k", "a") records the keys as given and returns the receiver; `_split_join_by("k", ("p", "q"))`. -/
example :
    (retA lenFuns (ListOfDicts_group_by (fun _ => true)) [("self", refsVal [0, 1]), ("keys", keysVal ["k", "a"])] []).map
        (fun r => (r.1, r.2.1.lookup groupKeysName)) = some (refsVal [0, 1], some (keysVal ["k", "a"])) ∧
    (retA lenFuns (ListOfDicts_split_join_by (fun _ => true)) [("by", byVal [.same "k", .pair "p" "q"])] []).map (·.1) =
      some (.tuple [keysVal ["k", "p"], keysVal ["k", "q"]]) := ⟨by decide +kernel, by decide +kernel⟩

/-- `truth` for the runs below: every test true except the `len(b') == 0` of `full_join`. -/
def trueButEq : Term → Bool := fun t => match t with | .app "Eq" _ => false | _ => true

/-- full_join by `k`: left `k = 1, 2`, right `k = 1, 0`: the matched pair merged, the unmatched left item, then the unmatched
    right item; new objects (6, 7, 9); all four operands' items untouched. -/
example :
    (retM lenFuns (lodBodies trueButEq) (ListOfDicts_full_join trueButEq)
        [("self", refsVal [0, 1]), ("other", refsVal [2, 3]), ("by", byVal [.same "k"])]
        [(0, [("k", .i 1), ("a", .i 5)]), (1, [("k", .i 2), ("a", .i 6)]), (2, [("k", .i 1), ("b", .i 7)]),
         (3, [("k", .i 0), ("b", .i 8)])]).map (fun r => (r.1, Store.view r.2 [6, 7, 9], Store.view r.2 [0, 1, 2, 3])) =
      some (refsVal [6, 7, 9],
        some [⟨6, [("k", .i 1), ("a", .i 5), ("b", .i 7)]⟩, ⟨7, [("k", .i 2), ("a", .i 6)]⟩, ⟨9, [("k", .i 0), ("b", .i 8)]⟩],
        some [⟨0, [("k", .i 1), ("a", .i 5)]⟩, ⟨1, [("k", .i 2), ("a", .i 6)]⟩, ⟨2, [("k", .i 1), ("b", .i 7)]⟩,
          ⟨3, [("k", .i 0), ("b", .i 8)]⟩]) ∧
    (evalM1 lenFuns (lodBodies trueButEq) fjTestT
        [("self", refsVal [0, 1]), ("other", refsVal [2, 3]), ("by", byVal [.same "k"])]
        [(0, [("k", .i 1), ("a", .i 5)]), (1, [("k", .i 2), ("a", .i 6)]), (2, [("k", .i 1), ("b", .i 7)]),
         (3, [("k", .i 0), ("b", .i 8)])]).map (·.1) = some (.bool false) :=
  ⟨by decide +kernel, by decide +kernel⟩

end DI.Eval.C16

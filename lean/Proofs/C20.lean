/-
  Proofs/C20.lean — property C20: text rendering is total, side-effect free and structurally faithful.
  Statements only; proofs cite Lemmas/Render.lean.  `wc` is wcwidth; cell strings (the per-dtype number
  formatting) are inputs.  Totality and absence of side effects of the Python code are observed by the
  harness, not proved.
-/
import Model.Render
import Lemmas.Render
import Lemmas.RenderSpec

namespace DI.C20

open DI.Render

variable {wc : Char → Option Nat}

/-- padding: every padded string of a block has the same display width — for every assignment of
    display widths (0, 1, 2, …) to characters. -/
theorem padding_uniform (hsp : wc ' ' = some 1) {xs : List Str} (hp : ∀ x ∈ xs, Printable wc x) :
    ∀ y ∈ upad wc xs, ulen wc y = maxWidth wc xs ∧ Printable wc y := upad_uniform hsp hp

/-- padding only prepends spaces: the text is kept. -/
theorem padding_keeps_text (xs : List Str) (i : Nat) (h : i < xs.length) :
    (upad wc xs)[i]'(by simpa [upad] using h) = spaces (maxWidth wc xs - ulen wc xs[i]) ++ xs[i] :=
  upad_getElem xs i h

/-- with a finite truncate width every cell is a single line, whatever line breaks the value holds
    (trailing ones included). -/
theorem cells_are_single_line (t : Nat) (s : Str) : (truncCell wc (some t) s).any isBreak = false :=
  truncCell_no_break t s

/-- a cell is shown whole or as a prefix of its first line followed by "…". -/
theorem truncation_shows_prefix (tw : Option Nat) (s : Str) :
    truncCell wc tw s = s ∨ ∃ p, p <+: firstLine s ∧ truncCell wc tw s = p ++ ['…'] := truncCell_shape tw s

/-- one string per element. -/
theorem cells_count_preserved (tw : Option Nat) (xs : List Str) : (toStrings wc tw xs).length = xs.length :=
  toStrings_length tw xs

/-- every column is shown in exactly one block, in order, and no block is empty — for every
    max_width, however small. -/
theorem df_every_column_in_one_block (maxw : Nat) (rownums : List Str) (cols : List (List Str)) :
    ((layout wc maxw rownums cols).map (·.1)).flatten = cols ∧
    (∀ b ∈ layout wc maxw rownums cols, b.1 ≠ [] ∧ b.2 = renderBatch rownums b.1) :=
  layout_spec maxw rownums cols

/-- within a block all lines have the same display width, and a block has name, dtype label, rule and
    min(nrow, max_rows) data lines. -/
theorem df_block_lines_same_width (hsp : wc ' ' = some 1) (hrule : wc '─' = some 1)
    (hdig : ∀ c : Char, c.isDigit = true → wc c = some 1)
    (cols : List Col) (nrow maxRows maxw : Nat)
    (hp : ∀ c ∈ cols, Printable wc c.name ∧ Printable wc c.label ∧ ∀ x ∈ c.cells, Printable wc x)
    (hn : ∀ c ∈ cols, c.cells.length = min nrow maxRows) :
    ∀ b ∈ layout wc maxw (rowNumbers wc (min nrow maxRows)) (cols.map (fun c => mkColumn wc c.name c.label c.cells)),
      ∃ W, Uniform wc W (min nrow maxRows + 3) b.2 := by
  intro b hb
  have hspec := layout_spec (wc := wc) maxw (rowNumbers wc (min nrow maxRows))
    (cols.map (fun c => mkColumn wc c.name c.label c.cells))
  obtain ⟨W0, hW0⟩ := rowNumbers_uniform hsp hdig (min nrow maxRows)
  rw [(hspec.2 b hb).2]
  apply renderBatch_uniform hsp b.1 hW0
  intro c hc
  have hmem : c ∈ cols.map (fun c => mkColumn wc c.name c.label c.cells) := by
    rw [← hspec.1]
    exact List.mem_flatten.mpr ⟨b.1, List.mem_map.mpr ⟨b, hb, rfl⟩, hc⟩
  obtain ⟨col, hcol, rfl⟩ := List.mem_map.mp hmem
  have := mkColumn_uniform hsp hrule col.name col.label col.cells (hp col hcol).1 (hp col hcol).2.1 (hp col hcol).2.2
  rw [hn col hcol] at this
  exact ⟨_, this⟩

/-- line `i` of a block is row-number cell `i` followed by cell `i` of each of its columns: line 0 holds
    the (padded) column names, line 1 the dtype labels, line 3 + j data row j. -/
theorem df_line_content (rownums : List Str) (cols : List (List Str)) (i : Nat)
    (hr : i < rownums.length) (hc : ∀ c ∈ cols, i < c.length) :
    (renderBatch rownums cols)[i]? = some (rownums[i] ++ (cols.map (fun c => ' ' :: c[i]?.getD [])).flatten) :=
  renderBatch_line rownums cols i hr hc

/-- the total row count is stated exactly when rows are cut, and a frame without columns renders as
    the empty string. -/
theorem df_footer_iff (cols : List Col) (nrow maxRows maxw : Nat) (hne : cols ≠ []) :
    ∃ body, dfToString wc cols nrow maxRows maxw =
      some (body ++ [['.']] ++ (if maxRows < nrow then [footer nrow] else [])) := by
  unfold dfToString
  cases cols with
  | nil => exact absurd rfl hne
  | cons c cs => exact ⟨_, rfl⟩

theorem df_no_columns (nrow maxRows maxw : Nat) : dfToString wc [] nrow maxRows maxw = none := rfl

/-- Vector.to_string: undoing the line wrapping gives "[", the elements in order, "..." when elements
    are cut, and "] dtype" — for every print width. -/
theorem vector_rows_cover (pw : Nat) (elems : List Str) (cut : Bool) (label : Str) :
    unrows (vecRows wc pw elems cut label) = ['['] :: vecTokens elems cut label := by
  unfold vecRows
  rw [foldl_addElem_cover (wc := wc) (pw := pw) _ [[['[']]] (by simp) (by simp)]
  simp [unrows]

/-- ListOfDicts.to_string states the total exactly when items are cut. -/
theorem lod_footer_iff (json : Str) (len maxItems : Nat) :
    lodToString json len maxItems =
      if maxItems < len then json ++ " ... ".toList ++ natStr len ++ " items total".toList else json := rfl

/-- GeoJSON.to_string summarises one cell per geometry (the row count is unchanged). -/
theorem geo_summary_per_row (gs : List (Option Str)) : (gs.map geoSummary).length = gs.length := by simp

/-- the hypotheses of `df_block_lines_same_width` are satisfiable with wide and zero-width characters. -/
example : let wc : Char → Option Nat := fun c => if c = '中' then some 2 else if c = '́' then some 0 else some 1
    (upad wc ["中".toList, "ab".toList, "é".toList]).map (ulen wc) = [2, 2, 2] := by decide

/-! ## round 3: exact specifications -/

/-- `util.utruncate`, exactly the loop `for i in range(1, len(s)): if ulen(s[:i]) > width: return s[:i-1]`
    / `return s`, with no hypothesis on the widths: the result is a prefix of `s`; either there is a
    first `k` in `1 … len(s)-1` whose prefix is too wide and the result is `s[:k-1]`, or no proper
    non-empty prefix is too wide and the result is `s` itself (`s[:len(s)]` is never tested). -/
theorem utruncate_spec (s : Str) (width : Nat) :
    utruncate wc s width <+: s ∧
    ((∃ k, 1 ≤ k ∧ k < s.length ∧ width < ulen wc (s.take k) ∧
        (∀ j, 1 ≤ j → j < k → ulen wc (s.take j) ≤ width) ∧
        utruncate wc s width = s.take (k - 1)) ∨
    ((∀ j, 1 ≤ j → j < s.length → ulen wc (s.take j) ≤ width) ∧ utruncate wc s width = s)) :=
  utruncate_prefix_and_exact s width

/-- when every character has a width (widths are then monotone along prefixes): if the string without
    its last character fits, the string is returned whole; otherwise the result is the LONGEST prefix
    that fits (`s[:k]` fits, `s[:k+1]` does not, every fitting prefix is at most `k` long). -/
theorem utruncate_longest_fitting_prefix {s : Str} (hs : Printable wc s) (width : Nat) :
    (ulen wc s.dropLast ≤ width ∧ utruncate wc s width = s) ∨
    (width < ulen wc s.dropLast ∧ ∃ k, k + 1 < s.length ∧ utruncate wc s width = s.take k ∧
        ulen wc (s.take k) ≤ width ∧ width < ulen wc (s.take (k + 1)) ∧
        ∀ p, p <+: s → ulen wc p ≤ width → p.length ≤ k) :=
  utruncate_spec_printable hs width

/-- FINDING (real in the Python: `util.utruncate("ab中", 2) == "ab中"`, and
    `Vector(["ab中"]).to_strings(truncate_width=3)` gives `"ab中…"`, 5 columns wide): the loop never
    tests the whole string, so a string that is too wide only because of its last character is
    returned whole — for every string and width … -/
theorem utruncate_whole_when_only_last_char_overflows {s : Str} (hs : Printable wc s) (width : Nat)
    (h : ulen wc s.dropLast ≤ width) : utruncate wc s width = s :=
  utruncate_last_char_quirk_general hs width h

/-- … and concretely (`中` two columns wide): width 2 requested, 4 returned; the cell truncated to 3 is
    5 wide, where `"abcd"` gives `"ab…"`. -/
theorem utruncate_last_char_quirk :
    utruncate wcDemo "ab中".toList 2 = "ab中".toList ∧ ulen wcDemo (utruncate wcDemo "ab中".toList 2) = 4 ∧
    truncCell wcDemo (some 3) "ab中".toList = "ab中…".toList ∧ ulen wcDemo (truncCell wcDemo (some 3) "ab中".toList) = 5 ∧
    truncCell wcDemo (some 3) "abcd".toList = "ab…".toList := DI.Render.utruncate_last_char_quirk

/-- "the truncated string fits into `width`" is false in general … -/
theorem utruncate_fits_counterexample :
    ¬ (∀ (s : Str) (width : Nat), Printable wcDemo s → ulen wcDemo (utruncate wcDemo s width) ≤ width) :=
  DI.Render.utruncate_fits_counterexample

/-- … and true exactly outside the quirk: the string fits already, or does not fit even without its
    last character. -/
theorem utruncate_fits_partial {s : Str} (hs : Printable wc s) (width : Nat)
    (h : ulen wc s ≤ width ∨ width < ulen wc s.dropLast) : ulen wc (utruncate wc s width) ≤ width :=
  DI.Render.utruncate_fits_partial hs width h

/-- a cell truncated to `truncate_width = t ≥ 1` is at most `t` wide, except in the quirk case, where
    the whole first line is kept and "…" appended. -/
theorem truncated_cell_width (hell : wc '…' = some 1) (t : Nat) (ht : 1 ≤ t) (s : Str) (hs : Printable wc s) :
    ulen wc (truncCell wc (some t) s) ≤ t ∨
    (truncCell wc (some t) s = firstLine s ++ ['…'] ∧ ulen wc (firstLine s).dropLast ≤ t - 1 ∧
      t - 1 < ulen wc (firstLine s)) :=
  truncCell_fits_or_quirk hell t ht s hs

/-- `util.upad`, both alignments (`upadLeft` is `align="left"`), position by position: string `i` is
    the original with exactly `width - ulen(x)` spaces on the left (align right) or right (align
    left); `width = max ulen` is an upper bound that is attained; original width + number of padding
    spaces = `width`; every padded string has display width `width`. -/
theorem upad_spec (hsp : wc ' ' = some 1) (xs : List Str) (hp : ∀ x ∈ xs, Printable wc x) :
    (upad wc xs).length = xs.length ∧ (upadLeft wc xs).length = xs.length ∧
    (∀ x ∈ xs, ulen wc x ≤ maxWidth wc xs) ∧ (xs ≠ [] → ∃ x ∈ xs, ulen wc x = maxWidth wc xs) ∧
    ∀ (i : Nat) (h : i < xs.length),
      (upad wc xs)[i]? = some (spaces (maxWidth wc xs - ulen wc xs[i]) ++ xs[i]) ∧
      (upadLeft wc xs)[i]? = some (xs[i] ++ spaces (maxWidth wc xs - ulen wc xs[i])) ∧
      ulen wc xs[i] + (spaces (maxWidth wc xs - ulen wc xs[i])).length = maxWidth wc xs ∧
      ulen wc (spaces (maxWidth wc xs - ulen wc xs[i]) ++ xs[i]) = maxWidth wc xs ∧
      ulen wc (xs[i] ++ spaces (maxWidth wc xs - ulen wc xs[i])) = maxWidth wc xs :=
  upad_spec_full hsp xs hp

/-- `DataFrame.to_string`, the complete line structure (`n = min(nrow, max_rows)`; `cells` are
    `column[:n].to_strings(...)`, hence `n` long).  The columns are cut into consecutive non-empty
    segments `segs` with `segs.flatten = cols`: every column is in exactly one block, in column order.
    The output is, per segment, a separator ("." first, "" afterwards) and the `n + 3` lines of
    `blockSpec`: line 0 = the row-number padding and, in column order, a space and each column NAME
    right-aligned to its column width; line 1 the same with the dtype LABELS; line 2 the rule; then the
    `n` data rows; after the blocks "." and, iff rows were cut, the footer.  So every name and every
    label occurs in exactly one block, in that block's header lines, in column order; a block has
    `n + 3` lines, and all blocks together `#blocks · (n + 4)`. -/
theorem df_shows_every_column_name_and_label (cols : List Col) (nrow maxRows maxw : Nat) (hne : cols ≠ [])
    (hn : ∀ c ∈ cols, c.cells.length = min nrow maxRows) :
    ∃ segs : List (List Col), segs.flatten = cols ∧ (∀ g ∈ segs, g ≠ []) ∧
      dfToString wc cols nrow maxRows maxw =
        some (blocksSpec wc (min nrow maxRows) 0 segs ++ [['.']] ++
          (if maxRows < nrow then [footer nrow] else [])) ∧
      (∀ g : List Col, blockSpec wc (min nrow maxRows) g =
        (spaces (numWidth wc (min nrow maxRows)) ++
            (g.map (fun c => ' ' :: (spaces (colWidth wc c - ulen wc c.name) ++ c.name))).flatten) ::
        (spaces (numWidth wc (min nrow maxRows)) ++
            (g.map (fun c => ' ' :: (spaces (colWidth wc c - ulen wc c.label) ++ c.label))).flatten) ::
        ruleLine wc (min nrow maxRows) g ::
        (List.range (min nrow maxRows)).map (fun j =>
          padTo wc (numWidth wc (min nrow maxRows)) (natStr j) ++
            (g.map (fun c => ' ' :: padTo wc (colWidth wc c) (c.cells[j]?.getD []))).flatten)) ∧
      (∀ g : List Col, (blockSpec wc (min nrow maxRows) g).length = min nrow maxRows + 3) ∧
      (∀ k, (blocksSpec wc (min nrow maxRows) k segs).length = segs.length * (min nrow maxRows + 4)) :=
  dfToString_names_labels cols nrow maxRows maxw hne hn

/-- the total number of lines: `#blocks · (n + 4) + 1`, plus 1 for the footer iff rows were cut. -/
theorem df_line_count (cols : List Col) (nrow maxRows maxw : Nat) (hne : cols ≠ [])
    (hn : ∀ c ∈ cols, c.cells.length = min nrow maxRows) :
    ∃ lines, dfToString wc cols nrow maxRows maxw = some lines ∧
      lines.length =
        (layout wc maxw (rowNumbers wc (min nrow maxRows)) (cols.map (mkCol wc))).length * (min nrow maxRows + 4)
          + 1 + (if maxRows < nrow then 1 else 0) :=
  dfToString_line_count cols nrow maxRows maxw hne hn

/-- `max_width`: within a block all `n + 3` lines have the same display width
    `dfWidth = numWidth + Σ (colWidth + 1)`, and that width is at most `max_width` — unless the block
    holds a single column which, next to the row numbers, is wider than `max_width`: such a column gets
    a block of its own and nothing is cut.  Blocks are filled greedily: a block is closed only when the
    next column would push it over `max_width` (`GreedyChain`). -/
theorem df_blocks_fit_width (hsp : wc ' ' = some 1) (hrule : wc '─' = some 1)
    (hdig : ∀ c : Char, c.isDigit = true → wc c = some 1)
    (cols : List Col) (nrow maxRows maxw : Nat) (hne : cols ≠ [])
    (hp : ∀ c ∈ cols, ColPrintable wc c)
    (hn : ∀ c ∈ cols, c.cells.length = min nrow maxRows) :
    ∃ segs : List (List Col), segs.flatten = cols ∧
      dfToString wc cols nrow maxRows maxw =
        some (blocksSpec wc (min nrow maxRows) 0 segs ++ [['.']] ++
          (if maxRows < nrow then [footer nrow] else [])) ∧
      (∀ g ∈ segs,
        (∀ l ∈ blockSpec wc (min nrow maxRows) g, ulen wc l = dfWidth wc (min nrow maxRows) g ∧ Printable wc l) ∧
        (dfWidth wc (min nrow maxRows) g ≤ maxw ∨
          ∃ c, g = [c] ∧ maxw < numWidth wc (min nrow maxRows) + colWidth wc c + 1)) ∧
      GreedyChain wc maxw (numWidth wc (min nrow maxRows))
        (layout wc maxw (rowNumbers wc (min nrow maxRows)) (cols.map (mkCol wc))) :=
  dfToString_fits hsp hrule hdig cols nrow maxRows maxw hne hp hn

/-- whenever every single column fits next to the row-number column, no line of any block is wider
    than `max_width`. -/
theorem df_fits_when_every_column_fits (hsp : wc ' ' = some 1) (hrule : wc '─' = some 1)
    (hdig : ∀ c : Char, c.isDigit = true → wc c = some 1)
    (cols : List Col) (nrow maxRows maxw : Nat) (hne : cols ≠ [])
    (hp : ∀ c ∈ cols, ColPrintable wc c)
    (hn : ∀ c ∈ cols, c.cells.length = min nrow maxRows)
    (hfit : ∀ c ∈ cols, numWidth wc (min nrow maxRows) + colWidth wc c + 1 ≤ maxw) :
    ∃ segs : List (List Col), segs.flatten = cols ∧
      dfToString wc cols nrow maxRows maxw =
        some (blocksSpec wc (min nrow maxRows) 0 segs ++ [['.']] ++
          (if maxRows < nrow then [footer nrow] else [])) ∧
      ∀ g ∈ segs, ∀ l ∈ blockSpec wc (min nrow maxRows) g, ulen wc l ≤ maxw :=
  dfToString_fits_all hsp hrule hdig cols nrow maxRows maxw hne hp hn hfit

/-- `Vector.to_string(max_elements)` (`vecToRows` composes the model's parts as the Python does), for
    every print width: the tokens are "[", exactly `min(len, max_elements)` elements — element `i` is
    string `i` of the vector right-aligned to the widest shown one —, then "..." iff
    `max_elements < len`, then "] dtype". -/
theorem vector_to_string_structure (pw : Nat) (xs : List Str) (maxEl : Nat) (label : Str) :
    ∃ shown : List Str,
      unrows (vecToRows wc pw xs maxEl label) =
        ['['] :: shown ++ (if maxEl < xs.length then ["...".toList] else []) ++ [']' :: ' ' :: label] ∧
      shown.length = min xs.length maxEl ∧
      (∀ (i : Nat) (h : i < min xs.length maxEl),
        shown[i]? = some (padTo wc (maxWidth wc (xs.take maxEl)) (xs[i]'(by omega)))) ∧
      (unrows (vecToRows wc pw xs maxEl label)).length =
        min xs.length maxEl + 2 + (if maxEl < xs.length then 1 else 0) :=
  vecToRows_structure pw xs maxEl label

/-- the token after the last shown element is "..." iff elements were cut (an element that itself
    reads "..." cannot be confused with the marker: the marker has a position of its own). -/
theorem vector_marker_iff_cut (elems : List Str) (cut : Bool) (label : Str) :
    (vecTokens elems cut label)[elems.length]? = some "...".toList ↔ cut = true :=
  vecTokens_marker_iff elems cut label

/-- nothing cut: every element is shown. -/
theorem vector_all_shown_when_not_cut (pw : Nat) (xs : List Str) (maxEl : Nat) (label : Str)
    (h : ¬ maxEl < xs.length) :
    unrows (vecToRows wc pw xs maxEl label) = ['['] :: toStrings wc none xs ++ [']' :: ' ' :: label] :=
  vecToRows_all_shown pw xs maxEl label h

/-- `ListOfDicts.to_string(max_items)` (`lodRender` = JSON of `head(max_items)` + footer): exactly
    `min(len, max_items)` items are rendered, all of them when nothing is cut; the footer with the true
    total is appended iff items were cut, and it is a genuine iff (the footer is never empty). -/
theorem lod_to_string_structure {α : Type} (toJson : List α → Str) (items : List α) (maxItems : Nat) :
    lodRender toJson items maxItems =
      toJson (items.take maxItems) ++ (if maxItems < items.length then lodFooter items.length else []) ∧
    (items.take maxItems).length = min items.length maxItems ∧
    (¬ maxItems < items.length → items.take maxItems = items) ∧
    (lodRender toJson items maxItems = toJson (items.take maxItems) ↔ ¬ maxItems < items.length) :=
  lodRender_structure toJson items maxItems

end DI.C20

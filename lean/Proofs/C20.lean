/-
  Proofs/C20.lean — property C20: text rendering is total, side-effect free and structurally faithful.
  Statements only; proofs cite Lemmas/Render.lean.  `wc` is wcwidth; cell strings (the per-dtype number
  formatting) are inputs.  Totality and absence of side effects of the Python code are observed by the
  harness, not proved.
-/
import Model.Render
import Lemmas.Render

namespace DI.C20

open DI.Render

variable {wc : Char → Option Nat}

/-- padding: every padded string of a block has the same display width — for every assignment of
    display widths (0, 1, 2, …) to characters. -/
theorem padding_uniform (hsp : wc ' ' = some 1) {xs : List Str} (hp : ∀ x ∈ xs, Printable wc x) :
    ∀ y ∈ upad wc xs, ulen wc y = maxWidth wc xs ∧ Printable wc y := upad_uniform hsp hp

/-- padding only prepends spaces: the text is kept. -/
theorem padding_keeps_text (xs : List Str) (i : Nat) (h : i < xs.length) :
    (upad wc xs)[i]'(by simpa [upad] using h) = spaces (maxWidth wc xs - ulen wc xs[i]) ++ xs[i] :=
  upad_getElem xs i h

/-- with a finite truncate width every cell is a single line, whatever line breaks the value holds
    (trailing ones included). -/
theorem cells_are_single_line (t : Nat) (s : Str) : (truncCell wc (some t) s).any isBreak = false :=
  truncCell_no_break t s

/-- a cell is shown whole or as a prefix of its first line followed by "…". -/
theorem truncation_shows_prefix (tw : Option Nat) (s : Str) :
    truncCell wc tw s = s ∨ ∃ p, p <+: firstLine s ∧ truncCell wc tw s = p ++ ['…'] := truncCell_shape tw s

/-- one string per element. -/
theorem cells_count_preserved (tw : Option Nat) (xs : List Str) : (toStrings wc tw xs).length = xs.length :=
  toStrings_length tw xs

/-- every column is shown in exactly one block, in order, and no block is empty — for every
    max_width, however small. -/
theorem df_every_column_in_one_block (maxw : Nat) (rownums : List Str) (cols : List (List Str)) :
    ((layout wc maxw rownums cols).map (·.1)).flatten = cols ∧
    (∀ b ∈ layout wc maxw rownums cols, b.1 ≠ [] ∧ b.2 = renderBatch rownums b.1) :=
  layout_spec maxw rownums cols

/-- within a block all lines have the same display width, and a block has name, dtype label, rule and
    min(nrow, max_rows) data lines. -/
theorem df_block_lines_same_width (hsp : wc ' ' = some 1) (hrule : wc '─' = some 1)
    (hdig : ∀ c : Char, c.isDigit = true → wc c = some 1)
    (cols : List Col) (nrow maxRows maxw : Nat)
    (hp : ∀ c ∈ cols, Printable wc c.name ∧ Printable wc c.label ∧ ∀ x ∈ c.cells, Printable wc x)
    (hn : ∀ c ∈ cols, c.cells.length = min nrow maxRows) :
    ∀ b ∈ layout wc maxw (rowNumbers wc (min nrow maxRows)) (cols.map (fun c => mkColumn wc c.name c.label c.cells)),
      ∃ W, Uniform wc W (min nrow maxRows + 3) b.2 := by
  intro b hb
  have hspec := layout_spec (wc := wc) maxw (rowNumbers wc (min nrow maxRows))
    (cols.map (fun c => mkColumn wc c.name c.label c.cells))
  obtain ⟨W0, hW0⟩ := rowNumbers_uniform hsp hdig (min nrow maxRows)
  rw [(hspec.2 b hb).2]
  apply renderBatch_uniform hsp b.1 hW0
  intro c hc
  have hmem : c ∈ cols.map (fun c => mkColumn wc c.name c.label c.cells) := by
    rw [← hspec.1]
    exact List.mem_flatten.mpr ⟨b.1, List.mem_map.mpr ⟨b, hb, rfl⟩, hc⟩
  obtain ⟨col, hcol, rfl⟩ := List.mem_map.mp hmem
  have := mkColumn_uniform hsp hrule col.name col.label col.cells (hp col hcol).1 (hp col hcol).2.1 (hp col hcol).2.2
  rw [hn col hcol] at this
  exact ⟨_, this⟩

/-- line `i` of a block is row-number cell `i` followed by cell `i` of each of its columns: line 0 holds
    the (padded) column names, line 1 the dtype labels, line 3 + j data row j. -/
theorem df_line_content (rownums : List Str) (cols : List (List Str)) (i : Nat)
    (hr : i < rownums.length) (hc : ∀ c ∈ cols, i < c.length) :
    (renderBatch rownums cols)[i]? = some (rownums[i] ++ (cols.map (fun c => ' ' :: c[i]?.getD [])).flatten) :=
  renderBatch_line rownums cols i hr hc

/-- the total row count is stated exactly when rows are cut, and a frame without columns renders as
    the empty string. -/
theorem df_footer_iff (cols : List Col) (nrow maxRows maxw : Nat) (hne : cols ≠ []) :
    ∃ body, dfToString wc cols nrow maxRows maxw =
      some (body ++ [['.']] ++ (if maxRows < nrow then [footer nrow] else [])) := by
  unfold dfToString
  cases cols with
  | nil => exact absurd rfl hne
  | cons c cs => exact ⟨_, rfl⟩

theorem df_no_columns (nrow maxRows maxw : Nat) : dfToString wc [] nrow maxRows maxw = none := rfl

/-- Vector.to_string: undoing the line wrapping gives "[", the elements in order, "..." when elements
    are cut, and "] dtype" — for every print width. -/
theorem vector_rows_cover (pw : Nat) (elems : List Str) (cut : Bool) (label : Str) :
    unrows (vecRows wc pw elems cut label) = ['['] :: vecTokens elems cut label := by
  unfold vecRows
  rw [foldl_addElem_cover (wc := wc) (pw := pw) _ [[['[']]] (by simp) (by simp)]
  simp [unrows]

/-- ListOfDicts.to_string states the total exactly when items are cut. -/
theorem lod_footer_iff (json : Str) (len maxItems : Nat) :
    lodToString json len maxItems =
      if maxItems < len then json ++ " ... ".toList ++ natStr len ++ " items total".toList else json := rfl

/-- GeoJSON.to_string summarises one cell per geometry (the row count is unchanged). -/
theorem geo_summary_per_row (gs : List (Option Str)) : (gs.map geoSummary).length = gs.length := by simp

/-- the hypotheses of `df_block_lines_same_width` are satisfiable with wide and zero-width characters. -/
example : let wc : Char → Option Nat := fun c => if c = '中' then some 2 else if c = '́' then some 0 else some 1
    (upad wc ["中".toList, "ab".toList, "é".toList]).map (ulen wc) = [2, 2, 2] := by decide

end DI.C20

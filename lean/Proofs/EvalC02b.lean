/-
  Proofs/EvalC02b.lean — "code ⇒ semantics ⇒ model" for `DataFrame.drop_na` and `DataFrame.unique`: what the REGENERATED bodies
  (`Generated/CodeC02.lean`, translated from the current Python source on every run) DENOTE under the evaluator of
  `Model/PyEvalKeys.lean`, for every receiver (any number of rows and columns, any dtypes `dt`, any missing values), every
  list of column names and every interpretation `cast` of `.astype` / `truth` of the symbolic tests:

  * `drop_na_eval`   the receiver at the model's rows `dropNaIdx` (`Model/Frame.lean`) — WHOLE rows (`wholeRows`, every column
                     gathered at the same positions), exactly the rows without a missing cell in a named column, in order
                     (`drop_na_eval_rows`, with `C02.drop_na_rows`);
  * `unique_eval`    the receiver at the model's rows `uniqueIdx` of the key columns `colnames or self.colnames` — the first
                     row of every key tuple, a missing value being a key of its own (`unique_eval_rows`, with
                     `C02.unique_first_occurrence`);
  * the primitives the evaluators of the joins (`Model/PyEvalFrameJoin.lean`: `dropNaFrame`, `uniqueFrame`) and of
    `split` / `aggregate` (`Model/PyEvalSort.lean`: `uniqueFrame`) ASSUMED for these two methods are exactly the values the
    regenerated bodies evaluate to: `drop_na_primitive_justified`, `unique_primitive_justified`;
  * `filter_out_primitive_justified`: the one method `drop_na` calls (`self.filter_out(drop)`) has, as a primitive of
    `Model/PyEvalKeys.lean`, the value `Eval.C02.filter_out_mask_eval` proves for the regenerated body of `filter_out`.

  THE ONE DEFINITION RELIED ON (header of `Model/PyEvalKeys.lean`, stated here as `key_equality`): Python's equality /
  hashing of key tuples (`rows[i] not in seen`) is equality of the model's cell lists.  The model does NOT distinguish
  `0.0` and `-0.0` (one cell: Python's `0.0 == -0.0`, `hash(0.0) == hash(-0.0)`), nor NaN / NaT / None (one cell `none`:
  the body replaces NaN / NaT by None so that they equal themselves — on cells that substitution is the identity,
  `nan_to_none_is_identity`).

  Statements only; the proofs cite `Lemmas/PyEvalKeys.lean`, after rewriting the bodies to their normal forms
  (`drop_na_body`, `unique_body`: `rfl`).

  Hypotheses: every name a column of the receiver (else KeyError), `Rect self` (every column has `nrow` cells: the class
  invariant `_check_dimensions` enforces).
-/
import Generated.CodeC02
import Proofs.TieC02
import Proofs.C02
import Proofs.EvalC02
import Lemmas.PyEvalKeys

namespace DI.Eval.C02

open DI DI.Py DI.Gen
open DI.PyEval (Frame nrow names Rect colOf wholeRows)
open DI.PyEvalKeys (KVal DT CastSound keyNames dropLoop dropRetT uniqEff0 uniqEff1 uniqEff2)

/-! ### drop_na -/

/-- **drop_na as written**: `drop = False-vector; for colname in colnames: drop = drop | self[colname].is_na()`, then
    `self.filter_out(drop)`. -/
theorem drop_na_code (truth : Term → Bool) : DataFrame_drop_na truth = Out.ret [dropLoop] dropRetT :=
  DI.PyEvalKeys.drop_na_body truth

/-- **drop_na(*cols)**: the value returned is the receiver (same dtypes) with EVERY column, in dict order, gathered at the
    model's `dropNaIdx` of the named columns. -/
theorem drop_na_eval (truth : Term → Bool) (cast : DT → DT → List Cell → List Cell) (env : DI.PyEvalKeys.Env)
    (self : Frame) (dt : String → DT) (cols : List String)
    (hself : env.get? "self" = some (.frame self dt)) (hcols : env.get? "colnames" = some (.strs cols))
    (hnames : ∀ c ∈ cols, c ∈ names self) (hrect : Rect self) :
    DI.PyEvalKeys.runRet cast env (DataFrame_drop_na truth) =
      some (.frame (wholeRows self (dropNaIdx (nrow self) (cols.map (colOf self)))) dt) := by
  rw [drop_na_code]; exact DI.PyEvalKeys.run_drop_na cast ⟨hself, hcols, hnames, hrect⟩

/-- **which rows**: (with `C02.drop_na_rows`) the rows kept are exactly those without a missing cell in any named column,
    in their original order; `drop_na()` without names keeps every row. -/
theorem drop_na_eval_rows (self : Frame) (cols : List String) :
    (∀ i, i ∈ dropNaIdx (nrow self) (cols.map (colOf self)) ↔
      i < nrow self ∧ ∀ c ∈ cols, isNa (colOf self c)[i]! = false) ∧
    (dropNaIdx (nrow self) (cols.map (colOf self))).Pairwise (· < ·) ∧
    dropNaIdx (nrow self) (([] : List String).map (colOf self)) = List.range (nrow self) := by
  refine ⟨fun i => ?_, (DI.C02.drop_na_rows _ _).2, (DI.C02.drop_na_multi (nrow self) []).2.2.2⟩
  rw [(DI.C02.drop_na_rows _ _).1 i]
  simp

/-- **the primitive `frame.drop_na(*cols)` of the join evaluator is the value of the regenerated body.** -/
theorem drop_na_primitive_justified (truth : Term → Bool) (cast : DT → DT → List Cell → List Cell) (na : Cell)
    (self : Frame) (dt : String → DT) (cols : List String) (hnames : ∀ c ∈ cols, c ∈ names self) (hrect : Rect self) :
    (DI.PyEvalX.prim na ".drop_na" [.frame self, .star (.strs cols)]) =
      (match DI.PyEvalKeys.runRet cast (DI.PyEvalKeys.callEnv self dt [("colnames", .strs cols)])
          (DataFrame_drop_na truth) with
       | some (.frame f _) => some (DI.PyEvalX.XVal.frame f)
       | _ => none) := by
  rw [drop_na_eval truth cast _ self dt cols rfl rfl hnames hrect]
  show (DI.PyEvalX.dropNaFrame self cols).map DI.PyEvalX.XVal.frame = _
  rw [DI.PyEvalKeys.dropNaFrame_eq self cols hnames]
  rfl

/-- **the primitive `frame.filter_out(mask)` of `Model/PyEvalKeys.lean` is the value of the regenerated body of
    `filter_out`** (`filter_out_mask_eval`), for a mask with one entry per row. -/
theorem filter_out_primitive_justified (truth : Term → Bool) (self : Frame) (m : List Bool)
    (hcall : truth (Term.app "callable" [Term.sym "rows"]) = false) (hrect : Rect self) (hm : m.length = nrow self) :
    DI.PyEvalKeys.filterOutFrame self m =
      DI.PyEval.runBody (DI.PyEval.callEnv self [("rows", .mask m)]) (DataFrame_filter_out truth false) := by
  rw [filter_out_mask_eval truth _ self m hcall rfl rfl hrect hm]
  unfold DI.PyEvalKeys.filterOutFrame
  rw [if_pos hm]
  rfl

/-! ### unique -/

/-- **unique as written**: the NaN / NaT → None loop over the key columns, the first-occurrence scan over
    `rows = list(zip(*columns))`, the output loop `column[keep].copy()` over ALL columns. -/
theorem unique_code (truth : Term → Bool) : DataFrame_unique truth = Out.fall [uniqEff0, uniqEff1, uniqEff2] :=
  DI.PyEvalKeys.unique_body truth

/-- **unique(*cols)**: EVERY column of the receiver, in dict order, gathered at the model's `uniqueIdx` of the key columns
    `colnames or self.colnames` (`keyNames`: all columns when no name is given). -/
theorem unique_eval (truth : Term → Bool) (cast : DT → DT → List Cell → List Cell) (env : DI.PyEvalKeys.Env)
    (self : Frame) (dt : String → DT) (cols : List String)
    (hself : env.get? "self" = some (.frame self dt)) (hcols : env.get? "colnames" = some (.strs cols))
    (hnames : ∀ c ∈ cols, c ∈ names self) (hrect : Rect self) :
    DI.PyEvalKeys.runBody cast env (DataFrame_unique truth) =
      some (wholeRows self (uniqueIdx (nrow self) ((keyNames self cols).map (colOf self)))) := by
  rw [unique_code]; exact DI.PyEvalKeys.run_unique cast ⟨hself, hcols, hnames, hrect⟩

/-- **which rows**: (with `C02.unique_first_occurrence`) row `j` is kept iff no earlier row has the same key tuple — cells
    compared by equality, a missing cell equal to a missing cell and to nothing else —, in the original order; and
    `keyNames` is `cols`, or all column names when `cols` is empty. -/
theorem unique_eval_rows (self : Frame) (cols : List String) :
    (∀ j, j ∈ uniqueIdx (nrow self) ((keyNames self cols).map (colOf self)) ↔
      j < nrow self ∧ ∀ j' < j, (rowsOf (nrow self) ((keyNames self cols).map (colOf self)))[j']! ≠
        (rowsOf (nrow self) ((keyNames self cols).map (colOf self)))[j]!) ∧
    (uniqueIdx (nrow self) ((keyNames self cols).map (colOf self))).Pairwise (· < ·) ∧
    keyNames self cols = (if cols.isEmpty then names self else cols) :=
  ⟨(DI.C02.unique_first_occurrence _ _).1, (DI.C02.unique_first_occurrence _ _).2, rfl⟩

/-- **the primitive `frame.unique(*cols)` of the join / split evaluators is the value of the regenerated body.** -/
theorem unique_primitive_justified (truth : Term → Bool) (cast : DT → DT → List Cell → List Cell)
    (self : Frame) (dt : String → DT) (cols : List String) (hnames : ∀ c ∈ cols, c ∈ names self) (hrect : Rect self) :
    DI.PyEvalX.uniqueFrame self cols =
      DI.PyEvalKeys.runBody cast (DI.PyEvalKeys.callEnv self dt [("colnames", .strs cols)]) (DataFrame_unique truth) := by
  rw [unique_eval truth cast _ self dt cols rfl rfl hnames hrect, DI.PyEvalKeys.uniqueFrame_eq self cols hnames]

/-- the rows `unique` keeps have pairwise different key tuples. -/
theorem unique_keys_distinct (n : Nat) (ks : List (List Cell)) :
    (rowsOf (uniqueIdx n ks).length (ks.map (fun c => gather c (uniqueIdx n ks)))).Nodup :=
  DI.PyEvalKeys.unique_keys_nodup n ks

/-! ### the definition relied on, and what the body does about NaN / NaT -/

/-- **key equality** (the one definition relied on): `rows[i] not in seen` is "no element of `seen` EQUALS the tuple" and a
    dict key is found by equality — equality of the model's cell lists. -/
theorem key_equality (cast : DT → DT → List Cell → List Cell) (r : List Cell) (seen : List (List Cell))
    (d : List (List Cell × Int)) (dflt : Int) :
    DI.PyEvalKeys.prim cast "NotIn" [.row r, .rows seen] = some (.bool (decide (r ∉ seen))) ∧
    DI.PyEvalKeys.prim cast ".get" [.rdict d, .row r, .int dflt] =
      some (.int (match d.find? (fun q => decide (q.1 = r)) with | some q => q.2 | none => dflt)) := by
  refine ⟨?_, ?_⟩
  · show some (KVal.bool (!seen.contains r)) = _
    congr 2
    rw [Bool.eq_iff_iff]
    simp
  · show some (KVal.int (DI.PyEvalKeys.rdictGet d r dflt)) = _
    unfold DI.PyEvalKeys.rdictGet
    have : (fun q : List Cell × Int => q.1 == r) = (fun q => decide (q.1 = r)) := by
      funext q; rw [Bool.eq_iff_iff]; simp
    rw [this]
    rfl

/-- **the NaN / NaT → None substitution is the identity on cells**: `np.where(column.is_na(), None, column)` computed cell by
    cell gives the column back — every dtype's missing value is the one cell `none`, which equals itself. -/
theorem nan_to_none_is_identity (c : List Cell) : DI.PyEvalKeys.naToNone (c.map isNa) c = c :=
  DI.PyEvalKeys.naToNone_id c

/-! ### non-vacuity: duplicate keys, a missing key (twice), a float key column (0.0 and -0.0 are the one cell `.i 0`) -/

def kfr : Frame := [("k", [some (.i 0), none, some (.i 0), none, some (.i 2)]),
                    ("x", [some (.i 10), some (.i 20), some (.i 30), some (.i 40), none])]
def kdt : String → DT := fun n => if n == "k" then ⟨.float, 0⟩ else ⟨.other, 0⟩
def idCast : DT → DT → List Cell → List Cell := fun _ _ c => c

example : Rect kfr ∧ (∀ c ∈ ["k"], c ∈ names kfr) ∧ CastSound idCast := by
  refine ⟨by decide, by decide, fun _ _ _ _ => rfl⟩

/-- `kfr.unique("k")`: the first `0.0`, the first missing key, `2.0` — whole rows. -/
example : DI.PyEvalKeys.runBody idCast (DI.PyEvalKeys.callEnv kfr kdt [("colnames", .strs ["k"])])
    (DataFrame_unique (fun _ => false)) =
    some [("k", [some (.i 0), none, some (.i 2)]), ("x", [some (.i 10), some (.i 20), none])] := by
  rw [unique_eval (fun _ => false) idCast _ kfr kdt ["k"] rfl rfl (by decide) (by decide)]
  decide

/-- `kfr.unique()`: all columns are the key; all five rows differ. -/
example : wholeRows kfr (uniqueIdx (nrow kfr) ((keyNames kfr []).map (colOf kfr))) = kfr := by decide

/-- `kfr.drop_na("k")`: the three rows with a key. -/
example : (match DI.PyEvalKeys.runRet idCast (DI.PyEvalKeys.callEnv kfr kdt [("colnames", .strs ["k"])])
    (DataFrame_drop_na (fun _ => false)) with | some (.frame f _) => some f | _ => none) =
    some [("k", [some (.i 0), some (.i 0), some (.i 2)]), ("x", [some (.i 10), some (.i 30), none])] := by
  rw [drop_na_eval (fun _ => false) idCast _ kfr kdt ["k"] rfl rfl (by decide) (by decide)]
  decide

/-- the evaluator itself, run on the regenerated bodies (no theorem in between). -/
example : DI.PyEvalKeys.runBody idCast (DI.PyEvalKeys.callEnv kfr kdt [("colnames", .strs ["k"])])
    (DataFrame_unique (fun _ => false)) =
    some [("k", [some (.i 0), none, some (.i 2)]), ("x", [some (.i 10), some (.i 20), none])] := by decide +kernel

/-- a name that is not a column: KeyError. -/
example : DI.PyEvalKeys.runBody idCast (DI.PyEvalKeys.callEnv kfr kdt [("colnames", .strs ["z"])])
    (DataFrame_unique (fun _ => false)) = none := by decide +kernel

end DI.Eval.C02

/-
  Proofs/C10.lean — property C10: Vector construction and the missing-value model are
  coherent.  Statements only; proofs cite Lemmas/Construct.lean.

  Elements are abstracted to their Python / NumPy class (`Kind`); `construct` / `constructWith`
  transcribe `_std_to_np` (inferred / explicit dtype) and return the dtype class and `is_na` mask.
-/
import Model.Construct
import Lemmas.Construct
import Lemmas.ConstructMore

namespace DI.C10

open DI.Construct DI.Construct.More

/-- whenever the substituted missing value fits the resulting dtype class (NaN in float, "" in
    string, NaT in date/datetime/timedelta, None in object), `is_na` is true exactly at the
    positions that held None / NaN — and at values that are the sentinel themselves (""). -/
theorem is_na_exact_when_matched (c : DClass) (na : NaVal) (h : Matched c na = true) (xs : List Kind) :
    (xs.map (subst na)).map (isNaElem c) = xs.map (fun x => x.missing || isSentinel c x) :=
  construct_mask_matched c na xs h

/-- with an explicit dtype that has a missing value (integers widen to float) the mapping holds
    for every sequence the dtype accepts. -/
theorem explicit_dtype_mapping (c : DClass) (xs : List Kind) (r : Result)
    (hc : c ≠ .bool ∧ c ≠ .bytes) (h : constructWith c xs = some r) :
    r.na = xs.map (fun x => x.missing || isSentinel r.dclass x) := constructWith_flags c xs r hc h

theorem integers_widen_to_float (xs : List Kind) (r : Result) (h : constructWith .int xs = some r)
    (hm : xs.any (·.missing) = true) : r.dclass = .float := int_widens xs r h hm

/-- the hypothesis `Matched` is forced: two inputs on which the code loses the missing value
    (replayed on the implementation by the check; recorded in known_findings.json). -/
theorem npbool_none_loses_na :
    construct [.npbool, .none] = some { dclass := .bool, na := [false, false] } := npbool_counterexample

theorem mixed_date_datetime_none_loses_na :
    construct [.date, .datetime, .none] = some { dclass := .object, na := [false, false, false] } :=
  mixed_dates_counterexample

/-- equal is an equivalence relation that treats missing values as equal to each other. -/
theorem equal_is_equivalence {α : Type} [DecidableEq α] (a b c : List (Option α)) :
    vequal a a = true ∧ (vequal a b = true → vequal b a = true) ∧
    (vequal a b = true → vequal b c = true → vequal a c = true) :=
  ⟨vequal_refl a, vequal_symm a b, vequal_trans a b c⟩

/-- replace_na replaces exactly the missing positions and nothing else. -/
theorem replace_na_exact {α : Type} (a : List (Option α)) (v : α) :
    (a.map (fun x => match x with | none => some v | some y => some y)).length = a.length ∧
    ∀ i (h : i < a.length), (a.map (fun x => match x with | none => some v | some y => some y))[i]'(by simpa using h)
      = (match a[i] with | none => some v | some y => some y) := replaceNa_spec a v

/-! ### round 3: tolist round trip, drop_na / replace_na, the exact guard of the mask mapping -/

/-- `tolist()` round trip: `tolistKinds r xs` is the list `tolist()` returns for the vector `r`
    built from `xs` (None at the missing positions, the dtype's Python builtin class elsewhere);
    rebuilding with the vector's own dtype class gives the same dtype class and the same mask,
    and the same cells (`tolist()` of the rebuilt vector is the same list). -/
theorem tolist_roundtrip (c : DClass) (xs : List Kind) (r : Result) (hc : c ≠ .bytes)
    (h : constructWith c xs = some r) :
    constructWith r.dclass (tolistKinds r xs) = some r ∧
    (r.na.length = xs.length → tolistKinds r (tolistKinds r xs) = tolistKinds r xs) :=
  ⟨tolist_rebuild c xs r hc h, tolist_rebuild_cells r xs⟩

/-- `c ≠ bytes` is forced by the model: its `fits` table has no row for bytes elements (bytes
    vectors only arise by inference), so the rebuilt list is not accepted.  A gap of the model
    table, not a finding about the implementation. -/
theorem tolist_roundtrip_bytes_counterexample :
    constructWith .bytes [.none] = some { dclass := .bytes, na := [false] } ∧
    constructWith .bytes (tolistKinds { dclass := .bytes, na := [false] } [.none]) = none :=
  tolist_rebuild_bytes_counterexample

/-- drop_na keeps exactly the non-missing cells (`self[~is_na]`), as many as there are, in
    their original order; on a vector without missing values it is the identity. -/
theorem drop_na_exact {α : Type} (a : List (Option α)) :
    (vdropNa a).map some = a.filter (·.isSome) ∧
    (vdropNa a).length = a.countP (·.isSome) ∧
    ((vdropNa a).map some).Sublist a ∧
    ((∀ x ∈ a, x.isSome = true) → (vdropNa a).map some = a) :=
  ⟨vdropNa_eq_filter a, vdropNa_length a, vdropNa_sublist a, vdropNa_of_no_na a⟩

/-- replace_na: same length, non-missing positions unchanged, missing positions hold the value,
    no missing value left (so a following drop_na drops nothing). -/
theorem replace_na_total {α : Type} (a : List (Option α)) (v : α) :
    (vreplaceNa a v).length = a.length ∧
    (∀ (i : Nat) (y : α), a[i]? = some (some y) → (vreplaceNa a v)[i]? = some (some y)) ∧
    (∀ (i : Nat), a[i]? = some none → (vreplaceNa a v)[i]? = some (some v)) ∧
    (∀ x ∈ vreplaceNa a v, x.isSome = true) ∧
    (vdropNa (vreplaceNa a v)).map some = vreplaceNa a v :=
  ⟨vreplaceNa_length a v, fun i y h => vreplaceNa_some a v i y h, fun i h => vreplaceNa_none a v i h,
   vreplaceNa_no_na a v, vdropNa_vreplaceNa a v⟩

/-- THE GUARDED MAPPING for the inferred dtype.  `maskGuard xs`: no empty string (it is the
    missing-value sentinel of string vectors) and — when a None / NaN is present — neither a
    list of only NumPy bool scalars nor date and datetime objects mixed.  Under the guard,
    whenever `Vector(xs)` is built, `is_na` is true exactly where `xs` held None / NaN. -/
theorem construct_mask_exact (xs : List Kind) (r : Result) (hg : maskGuard xs = true)
    (h : construct xs = some r) : r.na = xs.map Kind.missing :=
  DI.Construct.More.construct_mask_exact xs r hg h

/-- the guard is exact: outside it the mask differs from the None / NaN positions. -/
theorem construct_mask_iff_guard (xs : List Kind) (r : Result) (h : construct xs = some r) :
    r.na = xs.map Kind.missing ↔ maskGuard xs = true :=
  DI.Construct.More.construct_mask_iff_guard xs r h

/-- the plain reading: no NumPy scalars, no empty string, not (missing value among mixed date
    and datetime objects). -/
theorem construct_mask_exact_plain (xs : List Kind) (r : Result) (hg : plainGuard xs = true)
    (h : construct xs = some r) : r.na = xs.map Kind.missing :=
  DI.Construct.More.construct_mask_exact_plain xs r hg h

/-- the guard is satisfiable (also with missing values and with NumPy scalars) … -/
theorem mask_guard_satisfiable :
    maskGuard [.int, .none, .float, .nan] = true ∧ maskGuard [.npint, .none] = true ∧
    maskGuard [.date, .npdt, .none] = true ∧ maskGuard [.bool, .none, .obj] = true ∧
    construct [.int, .none, .float, .nan] = some { dclass := .float, na := [false, true, false, true] } := by
  decide

/-- … and dropping a clause gives the known counterexamples (and the empty-string sentinel). -/
theorem mask_guard_needed :
    (maskGuard [.npbool, .none] = false ∧
      construct [.npbool, .none] = some { dclass := .bool, na := [false, false] }) ∧
    (maskGuard [.date, .datetime, .none] = false ∧
      construct [.date, .datetime, .none] = some { dclass := .object, na := [false, false, false] }) ∧
    (maskGuard [.str true] = false ∧
      construct [.str true] = some { dclass := .str, na := [true] }) := by decide

end DI.C10

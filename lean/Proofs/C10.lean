/-
  Proofs/C10.lean — property C10: Vector construction and the missing-value model are
  coherent.  Statements only; proofs cite Lemmas/Construct.lean.

  Elements are abstracted to their Python / NumPy class (`Kind`); `construct` / `constructWith`
  transcribe `_std_to_np` (inferred / explicit dtype) and return the dtype class and `is_na` mask.
-/
import Model.Construct
import Lemmas.Construct

namespace DI.C10

open DI.Construct

/-- whenever the substituted missing value fits the resulting dtype class (NaN in float, "" in
    string, NaT in date/datetime/timedelta, None in object), `is_na` is true exactly at the
    positions that held None / NaN — and at values that are the sentinel themselves (""). -/
theorem is_na_exact_when_matched (c : DClass) (na : NaVal) (h : Matched c na = true) (xs : List Kind) :
    (xs.map (subst na)).map (isNaElem c) = xs.map (fun x => x.missing || isSentinel c x) :=
  construct_mask_matched c na xs h

/-- with an explicit dtype that has a missing value (integers widen to float) the mapping holds
    for every sequence the dtype accepts. -/
theorem explicit_dtype_mapping (c : DClass) (xs : List Kind) (r : Result)
    (hc : c ≠ .bool ∧ c ≠ .bytes) (h : constructWith c xs = some r) :
    r.na = xs.map (fun x => x.missing || isSentinel r.dclass x) := constructWith_flags c xs r hc h

theorem integers_widen_to_float (xs : List Kind) (r : Result) (h : constructWith .int xs = some r)
    (hm : xs.any (·.missing) = true) : r.dclass = .float := int_widens xs r h hm

/-- the hypothesis `Matched` is forced: two inputs on which the code loses the missing value
    (replayed on the implementation by the check; recorded in known_findings.json). -/
theorem npbool_none_loses_na :
    construct [.npbool, .none] = some { dclass := .bool, na := [false, false] } := npbool_counterexample

theorem mixed_date_datetime_none_loses_na :
    construct [.date, .datetime, .none] = some { dclass := .object, na := [false, false, false] } :=
  mixed_dates_counterexample

/-- equal is an equivalence relation that treats missing values as equal to each other. -/
theorem equal_is_equivalence {α : Type} [DecidableEq α] (a b c : List (Option α)) :
    vequal a a = true ∧ (vequal a b = true → vequal b a = true) ∧
    (vequal a b = true → vequal b c = true → vequal a c = true) :=
  ⟨vequal_refl a, vequal_symm a b, vequal_trans a b c⟩

/-- replace_na replaces exactly the missing positions and nothing else. -/
theorem replace_na_exact {α : Type} (a : List (Option α)) (v : α) :
    (a.map (fun x => match x with | none => some v | some y => some y)).length = a.length ∧
    ∀ i (h : i < a.length), (a.map (fun x => match x with | none => some v | some y => some y))[i]'(by simpa using h)
      = (match a[i] with | none => some v | some y => some y) := replaceNa_spec a v

end DI.C10

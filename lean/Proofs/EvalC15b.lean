/-
  Proofs/EvalC15b.lean — property C15, "code ⇒ semantics ⇒ model" for the generator bodies of `ListOfDicts.unique`,
  `select` and `rename` (continuing `Proofs/EvalC15.lean`).

  The meaning of the statement terms is `runJ` of `Model/PyEvalLoDJoin.lean` (the evaluator of `Model/PyEval.lean` extended
  with comprehensions, the bookkeeping set of `unique`, and `AttributeDict(…)` building a NEW dict that is yielded BY
  VALUE: `dictVal d`).  For EVERY store, EVERY list of references (an object may occur several times), every callables:

  * `unique_eval`: the references whose key tuple has not been seen before, in order (= `LoD.unique`); store unchanged;
  * `select_eval` / `rename_eval`: one fresh dict per item, whose contents are those of the model's `LoD.select` /
    `LoD.rename` (for any choice of the fresh identities — identities of new objects are not modelled); the store, i.e.
    the receiver's own dicts, is unchanged.

  Statements only; proofs cite `Lemmas/PyEvalLoDJoin.lean`.
-/
import Generated.CodeC15
import Model.PyEvalLoDJoin
import Lemmas.PyEvalLoDJoin
import Proofs.TieC15

namespace DI.Eval.C15

open DI DI.Py DI.Gen DI.LoD DI.PyEvalLoD DI.Tie.C15

/-- **unique(*keys)** (the branch: receiver not empty, keys given — `truth` resolves both tests; `ks ≠ []` is what
    "keys given" means): code ⇒ semantics ⇒ `LoD.unique`.  Every item must have the key columns (else KeyError).
    `hseen`: the reserved name of the bookkeeping set is not bound beforehand (it is not a Python identifier). -/
theorem unique_eval (truth : Term → Bool) (hs : truth (Term.sym "self") = true) (hk : truth (Term.sym "keys") = true)
    (F : Funs) (ρ : Env) (σ : Store) (rs : List Nat) (ks : List String) (xs : List Item) (hne : ks ≠ [])
    (hself : ρ.lookup "self" = some (refsVal rs)) (hkeys : ρ.lookup "keys" = some (keysVal ks))
    (hseen : ρ.lookup seenName = none)
    (hv : Store.view σ rs = some xs) (hall : ∀ x, x ∈ xs → ∀ k, k ∈ ks → x.kv.has k = true) :
    runJ F (ListOfDicts_unique truth).effs ρ σ = some ((LoD.unique xs ks).map tagRef, σ) := by
  rw [unique_code truth hs hk]; exact unique_run F ρ σ rs ks xs hne hself hkeys hseen hv hall

/-- **select(*keys)**: code ⇒ semantics ⇒ `LoD.select`.  The yielded values are NEW dicts (by value) with the contents of
    `LoD.select xs ks fresh` — the requested keys that are present, in the REQUESTED order, a repeated key once — whatever
    identities `fresh` the new objects get; the store is unchanged.  Missing keys are skipped, so no key hypothesis. -/
theorem select_eval (truth : Term → Bool) (F : Funs) (ρ : Env) (σ : Store) (rs : List Nat) (ks : List String)
    (xs : List Item) (hself : ρ.lookup "self" = some (refsVal rs)) (hkeys : ρ.lookup "keys" = some (keysVal ks))
    (hv : Store.view σ rs = some xs) (fresh : List Nat) (hf : xs.length ≤ fresh.length) :
    runJ F (ListOfDicts_select truth).effs ρ σ = some ((LoD.select xs ks fresh).map (fun it => dictVal it.kv), σ) := by
  rw [select_code, select_kvs xs ks fresh hf]; exact select_run F ρ σ rs ks xs hself hkeys hv

/-- **rename(**to_from_pairs)**: code ⇒ semantics ⇒ `LoD.rename`.  `toFrom`: the keyword pairs new name ↦ old name.  The
    yielded values are NEW dicts with the contents of `LoD.rename xs toFrom fresh` (keys mapped through the inverted
    pairs all at once, order kept, a collision resolved as `dict(zip(…))` does); the store is unchanged. -/
theorem rename_eval (truth : Term → Bool) (F : Funs) (ρ : Env) (σ : Store) (rs : List Nat)
    (toFrom : List (String × String)) (xs : List Item)
    (hself : ρ.lookup "self" = some (refsVal rs)) (htf : ρ.lookup "to_from_pairs" = some (tfVal toFrom))
    (hv : Store.view σ rs = some xs) (fresh : List Nat) (hf : xs.length ≤ fresh.length) :
    runJ F (ListOfDicts_rename truth).effs ρ σ = some ((LoD.rename xs toFrom fresh).map (fun it => dictVal it.kv), σ) := by
  rw [rename_code, rename_kvs xs toFrom fresh hf]; exact rename_run F ρ σ rs toFrom xs hself htf hv

/-! ### non-vacuity: concrete runs -/

/-- no user callable occurs in these bodies. -/
def noFuns : Funs := ⟨fun _ _ _ => .atom .none⟩

/-- unique("k"): objects 0 and 2 share `k = 1`; the first is kept. -/
example :
    runJ noFuns (ListOfDicts_unique (fun _ => true)).effs [("self", refsVal [0, 1, 2]), ("keys", keysVal ["k"])]
        [(0, [("k", .i 1), ("a", .i 0)]), (1, [("k", .i 2)]), (2, [("k", .i 1), ("a", .i 5)])] =
      some ([.ref 0, .ref 1], [(0, [("k", .i 1), ("a", .i 0)]), (1, [("k", .i 2)]), (2, [("k", .i 1), ("a", .i 5)])]) ∧
    LoD.unique [⟨0, [("k", .i 1), ("a", .i 0)]⟩, ⟨1, [("k", .i 2)]⟩, ⟨2, [("k", .i 1), ("a", .i 5)]⟩] ["k"] =
      [⟨0, [("k", .i 1), ("a", .i 0)]⟩, ⟨1, [("k", .i 2)]⟩] := ⟨by decide, by decide⟩

/-- select("a", "k", "z"): requested order, the absent `z` skipped; new dicts, the store as before. -/
example :
    runJ noFuns (ListOfDicts_select (fun _ => true)).effs [("self", refsVal [0, 1]), ("keys", keysVal ["a", "k", "z"])]
        [(0, [("k", .i 1), ("a", .i 0)]), (1, [("k", .i 2)])] =
      some ([dictVal [("a", .i 0), ("k", .i 1)], dictVal [("k", .i 2)]], [(0, [("k", .i 1), ("a", .i 0)]), (1, [("k", .i 2)])]) ∧
    (LoD.select [⟨0, [("k", .i 1), ("a", .i 0)]⟩, ⟨1, [("k", .i 2)]⟩] ["a", "k", "z"] [7, 8]).map (·.kv) =
      [[("a", .i 0), ("k", .i 1)], [("k", .i 2)]] := ⟨by decide, by decide⟩

/-- rename(b="a", z="k") on `{k: 1, b: 9, a: 0}`: keys become `z, b, b`; `dict(zip(…))` keeps the first position of `b`
    and the last value. -/
example :
    runJ noFuns (ListOfDicts_rename (fun _ => true)).effs
        [("self", refsVal [0]), ("to_from_pairs", tfVal [("b", "a"), ("z", "k")])] [(0, [("k", .i 1), ("b", .i 9), ("a", .i 0)])] =
      some ([dictVal [("z", .i 1), ("b", .i 0)]], [(0, [("k", .i 1), ("b", .i 9), ("a", .i 0)])]) ∧
    (LoD.rename [⟨0, [("k", .i 1), ("b", .i 9), ("a", .i 0)]⟩] [("b", "a"), ("z", "k")] [7]).map (·.kv) =
      [[("z", .i 1), ("b", .i 0)]] := ⟨by decide, by decide⟩

end DI.Eval.C15

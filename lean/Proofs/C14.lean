/-
  Proofs/C14.lean — property C14: restricting or aliasing a read never changes what is read.
  Statements only; proofs cite Lemmas/ReadRestrict.lean; `Generated.IoAliases` is regenerated
  from dataiter/io.py (and the readers' signatures) on every run.
-/
import Model.ReadRestrict
import Lemmas.ReadRestrict
import Generated.IoAliases

namespace DI.C14

open DI.Read DI.Gen

def facts (a : Alias) : AliasFacts :=
  { posParams := a.posParams, kwParams := a.kwParams, defaults := a.defaults, varkw := a.varkw,
    passedPos := a.passedPos, passedKw := a.passedKw, star := a.star, targetKw := a.targetKw,
    targetDefaults := a.targetDefaults, targetVarkw := a.targetVarkw }

/-- every module-level reader forwards every parameter by name and unchanged to its class method,
    substitutes no literal, has the same parameters and defaults, and passes **kwargs on. -/
theorem aliases_forward_everything : ∀ a ∈ ioAliases, forwardsAll (facts a) = true := by decide

/-- the five documented aliases exist and point at the documented targets. -/
theorem aliases_complete :
    ioAliases.map (fun a => (a.name, a.target)) =
      [("read_csv", "DataFrame.read_csv"), ("read_geojson", "GeoJSON.read"),
       ("read_json", "ListOfDicts.read_json"), ("read_npz", "DataFrame.read_npz"),
       ("read_parquet", "DataFrame.read_parquet")] := by decide

/-- DataFrame.from_json / GeoJSON.read with `columns`: exactly the requested columns that exist
    are kept ... -/
theorem restrict_keeps_requested {β : Type} (recs : List (Rec β)) (columns : List String) (hc : columns ≠ [])
    (k : String) : k ∈ (frameFromRecords recs columns).map (·.1) ↔ k ∈ unionKeys recs ∧ k ∈ columns :=
  restrict_keeps_exactly recs columns hc k

/-- ... each with the values it has in the unrestricted read, under its own name ... -/
theorem restrict_values_unchanged {β : Type} (recs : List (Rec β)) (columns : List String) (k : String)
    (vals : List (Option β)) (h : (k, vals) ∈ frameFromRecords recs columns) :
    vals = recs.map (fun r => lookup r k) := restrict_eq_select recs columns k vals h

/-- ... for any requested order. -/
theorem restrict_any_order {β : Type} (recs : List (Rec β)) (c1 c2 : List String)
    (h : ∀ k, c1.contains k = c2.contains k) (h1 : c1.isEmpty = c2.isEmpty) :
    frameFromRecords recs c1 = frameFromRecords recs c2 := restrict_order_irrelevant recs c1 c2 h h1

/-- ListOfDicts.from_json(keys): every item keeps exactly its requested entries. -/
theorem json_keys_restriction {β : Type} (recs : List (Rec β)) (keys : List String) (hk : keys ≠ [])
    (i : Nat) (hi : i < recs.length) :
    (itemsRestricted recs keys)[i]? = some ((recs[i]).filter (fun p => keys.contains p.1)) :=
  items_restricted_spec recs keys hk i hi

/-- ListOfDicts.read_csv(keys): the restricted record is the full record filtered by key — each
    value stays under its own name, for any order of `keys`. -/
theorem csv_keys_restriction (header row : List String) (keys : List String) (h : header.length = row.length) :
    (header.filter (fun c => keys.contains c)).zip (keptCells header row keys) =
      (header.zip row).filter (fun p => keys.contains p.1) := csv_restricted_row header row keys h

example : csvRestricted ["x", "y", "z"] [["1", "2", "3"]] ["z", "x"] = [[("x", "1"), ("z", "3")]] := by decide

end DI.C14

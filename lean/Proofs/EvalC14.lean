/-
  Proofs/EvalC14.lean — "code ⇒ semantics ⇒ model" for the restriction logic of the readers (C14).

  `Generated/CodeC14.lean` is regenerated from the current Python source on every run; `Proofs/TieC14.lean` shows what the
  bodies ARE (normal forms); `Model/PyEvalRead.lean` says what they MEAN (an evaluator over parsed input: `json.loads`, the
  file, `csv.reader`, the `dtypes` / `types` conversions are parameters); this file proves that the meaning is the model of
  `Model/ReadRestrict.lean` (`frameFromRecords`, `itemsRestricted`) and relates it to `Proofs/C14.lean`.
  Statements only; the proofs are in `Lemmas/PyEvalRead.lean`.

  FINDINGS (checked against the real library, `PYTHONPATH=/repo python`):
  * `DataFrame.from_json(columns=…)`: the columns come out in the order of the FILE (first-seen union of the records' keys),
    not in the order requested; a requested name that never occurs is silently dropped (no column of missing values, no
    KeyError); a request none of whose names occurs gives an EMPTY frame (whereas `columns=[]` gives everything).
  * `dtypes` is applied to EVERY name of `dtypes`, by `data[name]`: a name that is not among the kept columns raises KeyError —
    so with `columns=["a"], dtypes={"b": …}` the restricted read raises although reading everything with the same `dtypes` and
    selecting `a` afterwards works (`df_restrict_typed_counterexample`).
  * the cast is applied to the PLUCKED list (the file's own values, `None` where the key is absent), BEFORE the frame
    constructor infers a type: `dtypes={"b": str}` on an integer column with missing cells gives "1" / "" where reading
    first and casting afterwards goes through a float column and gives "1.0" / "nan" (`dtypes_commute_counterexample`).
  * `ListOfDicts.from_json(types=…)`: the conversion is applied to every PRESENT value, `None` (JSON null) included
    (`if key in item`): `types={"a": str}` turns a null into "None", `types={"a": int}` raises TypeError on it.
-/
import Model.PyEvalRead
import Lemmas.PyEvalRead
import Proofs.C14

namespace DI.Eval.C14

open DI DI.Py DI.Read DI.PyEvalRead

variable {β : Type}

/-! ### DataFrame.from_json -/

/-- **`df_from_json_eval`** — for ALL record lists (ragged, any key order per record), ALL `columns` (any subset, any order,
    names that do not occur) and no `dtypes`: what `DataFrame.from_json` hands to the frame constructor is the model's
    `frameFromRecords recs columns`, every column a plain plucked list.  The input is a text that `json.loads` parses to the
    records, or the list of records itself (`recordsOf`). -/
theorem df_from_json_eval (ctx : Ctx β) (recs : List (Rec β)) (h : recordsOf ctx = some recs) (hd : ctx.casts = []) :
    evalDfFromJson ctx = some ((frameFromRecords recs ctx.columns).map fun p => (p.1, ColV.list p.2)) := by
  rw [evalDfFromJson_eq ctx recs h, hd, plucked_keptKeys]; rfl

/-- … and with `dtypes`: the same columns, then the casts in the order of `dtypes`, each one `data[name] =
    DataFrameColumn(data[name], dtype)` on the dict as the previous ones left it (`castStep`: KeyError = `none` for a name
    that is not a kept column; `none` when the conversion fails). -/
theorem df_from_json_eval_typed (ctx : Ctx β) (recs : List (Rec β)) (h : recordsOf ctx = some recs) :
    evalDfFromJson ctx =
      ctx.casts.foldlM castStep ((frameFromRecords recs ctx.columns).map fun p => (p.1, ColV.list p.2)) := by
  rw [evalDfFromJson_eq ctx recs h, plucked_keptKeys]

/-- the ORDER of the columns: the first-seen union of the records' keys, filtered — the order of the file, whatever the
    order of the request; a requested name that never occurs is dropped. -/
theorem df_columns_order (recs : List (Rec β)) (columns : List String) (hc : columns ≠ []) :
    (frameFromRecords recs columns).map (·.1) = (unionKeys recs).filter fun k => columns.contains k :=
  frameFromRecords_names recs columns hc

/-- **`df_restrict_is_select_after`**: the restricted result is the unrestricted result with the requested columns
    selected — the same pairs (name, values), in the order of the unrestricted result … -/
theorem df_restrict_is_select_after (recs : List (Rec β)) (columns : List String) (hc : columns ≠ []) :
    frameFromRecords recs columns = (frameFromRecords recs []).filter fun p => columns.contains p.1 :=
  restrict_is_filter recs columns hc

/-- … each value under its own name (`Proofs/C14.lean`, `restrict_values_unchanged`, `restrict_keeps_requested`): a name is
    kept iff it occurs and is requested, and then `selectAfter` finds exactly its column. -/
theorem df_restrict_select_after_by_name (recs : List (Rec β)) (columns : List String) (hc : columns ≠ []) (k : String) :
    (lookup (frameFromRecords recs columns) k) = selectAfter recs columns k :=
  restrict_lookup_eq_selectAfter recs columns hc k

/-- `dtypes` names a column that the restriction dropped: KeyError in the restricted read, although reading everything with
    the same `dtypes` works (and `a` could be selected afterwards) — "restrict = select after" FAILS in the presence of such
    a `dtypes` entry. -/
theorem df_restrict_typed_counterexample :
    let recs : List (Rec Nat) := [[("a", 1), ("b", 2)]]
    let casts : List (String × CastFn Nat) := [("b", fun xs => some xs)]
    casts.foldlM castStep ((frameFromRecords recs ["a"]).map fun p => (p.1, ColV.list p.2)) = none ∧
    casts.foldlM castStep ((frameFromRecords recs []).map fun p => (p.1, ColV.list p.2)) =
      some [("a", ColV.list [some 1]), ("b", ColV.column [some 2])] := by decide

/-- the cast works on the PLUCKED list, before the constructor infers a type (`construct infer`): with an inference that turns
    integers with a missing cell into floats (here: `n ↦ n + 1000`) and a cast that renders the cell (here: identity),
    casting while reading keeps the file's own value `1`, reading first and casting afterwards sees `1001`. -/
theorem dtypes_commute_counterexample :
    let raw : List (Option Nat) := [some 1, none]
    let infer : List (Option Nat) → List (Option Nat) := fun xs => if xs.contains none then xs.map (Option.map (· + 1000)) else xs
    let cast : CastFn Nat := fun xs => some xs
    (castStep [("b", ColV.list raw)] ("b", cast)).map (construct infer) = some [("b", [some 1, none])] ∧
    cast (infer raw) = some [some 1001, none] := by decide

/-- **`dtypes_commute`**: when the conversion is a function of the cell alone (`cast xs = xs.map conv`), casting a kept
    column while reading = reading it and converting its cells afterwards (the other columns untouched). -/
theorem dtypes_commute (d : Dict (ColV β)) (name : String) (cast : CastFn β) (conv : Option β → Option β)
    (hcell : ∀ xs, cast xs = some (xs.map conv)) (c : ColV β) (hl : lookup d name = some c) :
    castStep d (name, cast) = some (Dict.set d name (ColV.column (c.cells.map conv))) := by
  simp [castStep, hl, hcell]

/-! ### ListOfDicts.from_json -/

/-- **`lod_from_json_eval`** — for ALL lists of dicts (ragged, any key order; a dict has distinct keys) and ALL `keys` (any
    subset, any order, names that do not occur), no `types`: the model's `itemsRestricted` — every item keeps exactly its
    own requested entries, in its own order; a requested key an item does not have is NOT added. -/
theorem lod_from_json_eval (ctx : Ctx β) (s : String) (recs : List (Rec β)) (hin : ctx.input = .text s)
    (hl : ctx.loads s = some (.records recs)) (hnd : ∀ r ∈ recs, (r.map (·.1)).Nodup) (ht : ctx.convs = []) :
    evalLodFromJson ctx = some (itemsRestricted recs ctx.columns) := by
  rw [evalLodFromJson_eq ctx s recs hin hl hnd, ht]; rfl

/-- … and with `types`: the conversions run AFTER the restriction, in the order of `types`, each over all items; `convRec`:
    the value is converted iff the key is PRESENT — a present `None` (JSON null) is converted too (`str` gives "None", `int`
    raises), an absent key stays absent. -/
theorem lod_from_json_eval_typed (ctx : Ctx β) (s : String) (recs : List (Rec β)) (hin : ctx.input = .text s)
    (hl : ctx.loads s = some (.records recs)) (hnd : ∀ r ∈ recs, (r.map (·.1)).Nodup) :
    evalLodFromJson ctx = ctx.convs.foldlM convStep (itemsRestricted recs ctx.columns) :=
  evalLodFromJson_eq ctx s recs hin hl hnd

/-- "restrict = select after" for items (`Proofs/C14.lean`, `json_keys_restriction`): the restricted item is the full item
    with the requested entries selected, each value under its own key. -/
theorem lod_restrict_is_select_after (recs : List (Rec β)) (keys : List String) (hk : keys ≠ []) :
    itemsRestricted recs keys = (itemsRestricted recs []).map fun r => r.filter fun p => keys.contains p.1 := by
  have : keys.isEmpty = false := by cases keys <;> simp_all
  simp [itemsRestricted, this]

/-- a conversion touches present values only, `None` included: the task's "non-None" reading is FALSE for the code. -/
theorem lod_types_none_counterexample :
    convRec ("a", (fun (v : Option Nat) => some (some (v.getD 99)))) [("a", (none : Option Nat))] = some [("a", some 99)] ∧
    convRec ("a", (fun (_ : Option Nat) => none)) [("b", (none : Option Nat))] = some [("b", none)] := by decide

/-! ### non-vacuity: ragged records, a requested name that is absent, a permuted request -/

def toyRecs : List (Rec Nat) := [[("b", 1), ("a", 2)], [("c", 3), ("a", 0)], [("a", 5), ("b", 6)]]

example : frameFromRecords toyRecs ["c", "a", "zz"] =
    [("a", [some 2, some 0, some 5]), ("c", [none, some 3, none])] := by decide
example : frameFromRecords toyRecs ["zz"] = [] := by decide
example : itemsRestricted toyRecs ["c", "a", "zz"] = [[("a", 2)], [("c", 3), ("a", 0)], [("a", 5)]] := by decide

/-! ### the file readers only add the `xopen` + read step in front -/

/-- **`read_json_is_from_json`** (DataFrame): `read_json(path, columns=…, dtypes=…)` = `from_json` of the text of the file
    with the same `columns` and `dtypes`. -/
theorem df_read_json_is_from_json (ctx : Ctx β) :
    evalDfReadJson ctx = evalDfFromJson { ctx with input := .text ctx.fileText } := by
  unfold evalDfReadJson
  rw [DI.Tie.C14.df_read_json_code]
  show (match (evalDfFromJson { ctx with input := .text ctx.fileText, columns := ctx.columns, casts := ctx.casts }).map Val.frame with
    | some (.frame d) => some d | _ => none) = _
  cases evalDfFromJson { ctx with input := .text ctx.fileText } <;> rfl

/-- **`read_json_is_from_json`** (ListOfDicts). -/
theorem lod_read_json_is_from_json (ctx : Ctx β) :
    evalLodReadJson ctx = evalLodFromJson { ctx with input := .text ctx.fileText } := by
  unfold evalLodReadJson
  rw [DI.Tie.C14.lod_read_json_code]
  show (match (evalLodFromJson { ctx with input := .text ctx.fileText, columns := ctx.columns, convs := ctx.convs }).map Val.recs with
    | some (.recs l) => some l | _ => none) = _
  cases evalLodFromJson { ctx with input := .text ctx.fileText } <;> rfl

end DI.Eval.C14

/-
  Proofs/C12.lean — property C12: writing a file and reading it back reproduces the data.
  Statements only.  `Generated.IoSites` is regenerated from the source on every run.
  The codecs (pyarrow, pickle, numpy, json, csv, gzip/bz2/lzma) enter as hypotheses
  (`Codec.law`, `Wrap.law`), not as axioms; the check observes them on generated data.
-/
import Model.IO
import Lemmas.IO
import Generated.IoSites

namespace DI.C12

open DI.IO DI.Gen

def site (cls name : String) : Site :=
  match ioSites.find? (fun s => s.cls == cls && s.name == name) with
  | some s => { xopenModes := s.xopenModes, rawPath := s.rawPath, delegates := s.delegates }
  | none => { xopenModes := [], rawPath := ["<missing>"], delegates := [] }

/-- `xopen` dispatches on the suffix to bz2 / gzip / lzma / open and forwards mode and keyword
    arguments (the encoding) in every branch: ".gz", ".bz2", ".xz" paths are really compressed. -/
theorem xopen_dispatch : xopenBranches = xopenDocumented := by decide

/-- for every format the writer and the reader treat the path alike: CSV, JSON, Pickle (and
    GeoJSON) go through xopen on both sides; NPZ and Parquet hand the path to the library on both. -/
theorem read_write_symmetric :
    symmetric (site "DataFrame" "read_csv") (site "DataFrame" "write_csv") = true ∧
    symmetric (site "DataFrame" "read_json") (site "DataFrame" "write_json") = true ∧
    symmetric (site "DataFrame" "read_pickle") (site "DataFrame" "write_pickle") = true ∧
    symmetric (site "DataFrame" "read_npz") (site "DataFrame" "write_npz") = true ∧
    symmetric (site "DataFrame" "read_parquet") (site "DataFrame" "write_parquet") = true ∧
    symmetric (site "ListOfDicts" "read_csv") (site "ListOfDicts" "write_csv") = true ∧
    symmetric (site "ListOfDicts" "read_json") (site "ListOfDicts" "write_json") = true ∧
    symmetric (site "ListOfDicts" "read_pickle") (site "ListOfDicts" "write_pickle") = true ∧
    symmetric (site "GeoJSON" "read") (site "GeoJSON" "write") = true := by decide

/-- the text and pickle formats are the ones compressed by suffix (they use xopen to write). -/
theorem compressed_by_suffix :
    (site "DataFrame" "write_csv").writesViaXopen = true ∧ (site "DataFrame" "write_json").writesViaXopen = true ∧
    (site "DataFrame" "write_pickle").writesViaXopen = true ∧ (site "ListOfDicts" "write_csv").writesViaXopen = true ∧
    (site "ListOfDicts" "write_json").writesViaXopen = true ∧ (site "ListOfDicts" "write_pickle").writesViaXopen = true := by
  decide

/-- under the codec hypotheses, symmetric treatment gives the round trip for every suffix. -/
theorem roundtrip {T B : Type} (c : Codec T B) (w : Wrap B) (viaXopen : Bool) (suffix : String) (t : T) :
    readVia c w viaXopen suffix (writeVia c w viaXopen suffix t) = some t :=
  roundtrip_symmetric c w viaXopen suffix t

/-- and asymmetric treatment does not (what `write_csv` did before it was repaired). -/
theorem asymmetric_roundtrip_fails :
    ∃ (c : Codec Nat (List Nat)) (w : Wrap (List Nat)),
      readVia c w true ".gz" (writeVia c w false ".gz" 7) ≠ some 7 := asymmetric_fails

end DI.C12

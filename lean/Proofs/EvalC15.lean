/-
  Proofs/EvalC15.lean — property C15, "code ⇒ semantics ⇒ model" for the generator bodies of `ListOfDicts`.

  `Generated/CodeC15.lean` is the translation of the current source; `Proofs/TieC15.lean` shows each body equal to a
  small normal form; `Model/PyEval.lean` gives those statement terms a meaning (`run`: the yielded values and the final
  store).  Here:

  (a) evaluating the translated body of modify / modify_if / unselect / fill_missing_keys yields the receiver's
      references in order and ends in the store of the specification loop written directly in Lean
      (`Lemmas/PyEval.lean`: `modifyLoop`, `modifyIfLoop`, `unselectLoop`, `fillLoop`, `fillAllLoop`) — for EVERY store,
      EVERY list of references (also with one object at several positions) and EVERY callable; `none` on both sides
      exactly when the Python code raises (dangling reference, non-storable value);
  (b) on pairwise distinct references, when the callables only read the object they are called on, that store is the
      model's `LoD.modify` / `LoD.modifyIf` / `LoD.unselect` / `LoD.fillMissing` (mask = predicate on the ORIGINAL
      contents, values = function on the ORIGINAL contents), and nothing else in the store changes;
  (c) with one object at two positions the loop and the per-entry model differ (why the harness judges such steps by
      the plain-loop reference);
  (d) filter / filter_out (callable and key=value branch), reverse, append, `+`, `*`: the yielded references are those
      of `LoD.filterMask` / `LoD.filterOutMask` / `LoD.filterKv` / `LoD.filterOutKv` / `LoD.reverse` / `LoD.append` /
      `LoD.add` / `LoD.mul`, and the store is unchanged.

  Statements only; proofs cite `Lemmas/PyEval.lean`.
-/
import Generated.CodeC15
import Model.PyEval
import Lemmas.PyEval
import Proofs.TieC15

namespace DI.Eval.C15

open DI DI.Py DI.Gen DI.LoD DI.PyEvalLoD DI.Tie.C15

/-! ### (a) evaluation = specification loop -/

/-- **modify**: evaluating the translated body from ANY store, for ANY list of references `rs` bound to `self` and ANY
    pairs `key ↦ callable`, yields `rs` in order and ends in the store of `modifyLoop` (fold over `rs`; at each object
    the pairs in order, each callable applied in the CURRENT store). -/
theorem modify_eval (truth : Term → Bool) (F : Funs) (ρ : Env) (σ : Store) (rs : List Nat) (ps : List (String × Nat))
    (hself : ρ.lookup "self" = some (refsVal rs)) (hkfp : ρ.lookup "key_function_pairs" = some (fnPairsVal ps)) :
    run F (ListOfDicts_modify truth).effs ρ σ = (modifyLoop F ps rs σ).map fun σ' => (rs.map PVal.ref, σ') := by
  rw [modify_code]; exact modify_run F ρ σ rs ps hself hkfp

/-- **modify_if**: likewise with `modifyIfLoop`: at each object the predicate is tested on the CURRENT contents, then
    the pairs are applied in order. -/
theorem modify_if_eval (truth : Term → Bool) (F : Funs) (ρ : Env) (σ : Store) (rs : List Nat) (hp : Nat)
    (ps : List (String × Nat)) (hself : ρ.lookup "self" = some (refsVal rs))
    (hkfp : ρ.lookup "key_function_pairs" = some (fnPairsVal ps)) (hpred : ρ.lookup "predicate" = some (.fn hp)) :
    run F (ListOfDicts_modify_if truth).effs ρ σ = (modifyIfLoop F hp ps rs σ).map fun σ' => (rs.map PVal.ref, σ') := by
  rw [modify_if_code]; exact modify_if_run F ρ σ rs hp ps hself hkfp hpred

/-- **unselect**: `unselectLoop` deletes, at each object, the named keys that are present. -/
theorem unselect_eval (truth : Term → Bool) (F : Funs) (ρ : Env) (σ : Store) (rs : List Nat) (ks : List String)
    (hself : ρ.lookup "self" = some (refsVal rs)) (hkeys : ρ.lookup "keys" = some (keysVal ks)) :
    run F (ListOfDicts_unselect truth).effs ρ σ = (unselectLoop ks rs σ).map fun σ' => (rs.map PVal.ref, σ') := by
  rw [unselect_code]; exact unselect_run F ρ σ rs ks hself hkeys

/-- **fill_missing_keys(**pairs)** (the branch `truth key_value_pairs`): `fillLoop` adds, at each object, the pairs
    whose key is absent. -/
theorem fill_missing_keys_eval (truth : Term → Bool) (ht : truth (Term.sym "key_value_pairs") = true)
    (F : Funs) (ρ : Env) (σ : Store) (rs : List Nat) (kvs : List (String × LoD.Val))
    (hself : ρ.lookup "self" = some (refsVal rs)) (hkvp : ρ.lookup "key_value_pairs" = some (kvPairsVal kvs)) :
    run F (ListOfDicts_fill_missing_keys truth).effs ρ σ = (fillLoop kvs rs σ).map fun σ' => (rs.map PVal.ref, σ') := by
  rw [fill_missing_keys_code, ht]; exact fill_run F ρ σ rs kvs hself hkvp

/-- **fill_missing_keys()** (the other branch): the pairs are `self.keys()` with value None — recomputed in the
    current store at every position, because the translator inlines the local `key_value_pairs` into the loop
    (`fillAllLoop`). -/
theorem fill_missing_keys_all_eval (truth : Term → Bool) (ht : truth (Term.sym "key_value_pairs") = false)
    (F : Funs) (ρ : Env) (σ : Store) (rs : List Nat) (hself : ρ.lookup "self" = some (refsVal rs)) :
    run F (ListOfDicts_fill_missing_keys truth).effs ρ σ = (fillAllLoop rs rs σ).map fun σ' => (rs.map PVal.ref, σ') := by
  rw [fill_missing_keys_code, ht]; exact fill_all_run F ρ σ rs hself

/-! ### (b) specification loop = model function, for pairwise distinct references

  `Store.view σ rs = some xs`: the objects `rs` exist in `σ` and `xs` are the model's items for them (identity = object
  id, contents from the store).  `LocalFn F h g` / `LocalPred F h q`: the callable with handle `h` reads nothing but the
  object it is called on — its value is `g` (its truth value `q`) of that object's contents.  The conclusions say: the
  evaluation succeeds, yields the receiver's references, the receiver's objects then hold exactly the model's result, and
  every other object of the store is untouched. -/

/-- **modify(key=f)**: code ⇒ semantics ⇒ `LoD.modify` with `vals` = `f` on the original contents. -/
theorem modify_refines_model (truth : Term → Bool) (F : Funs) (ρ : Env) (σ : Store) (rs : List Nat)
    (key : String) (h : Nat) (g : LoD.Dict → LoD.Val)
    (hself : ρ.lookup "self" = some (refsVal rs)) (hkfp : ρ.lookup "key_function_pairs" = some (fnPairsVal [(key, h)]))
    (hg : LocalFn F h g) (hd : rs.Nodup) (xs : List Item) (hv : Store.view σ rs = some xs) :
    ∃ σ', run F (ListOfDicts_modify truth).effs ρ σ = some (rs.map PVal.ref, σ') ∧
      Store.view σ' rs = some (LoD.modify xs key (xs.map fun x => g x.kv)) ∧
      ∀ n, n ∉ rs → σ'.lookup n = σ.lookup n :=
  refines_of_run (modify_eval truth F ρ σ rs _ hself hkfp) (modifyLoop_model F key h g hg rs hd σ xs hv)

/-- **modify(k1=f1, k2=f2, …)**: one `LoD.modify` per pair, in order, each with the values computed on the list as the
    previous pairs left it. -/
theorem modify_many_refines_model (truth : Term → Bool) (F : Funs) (ρ : Env) (σ : Store) (rs : List Nat)
    (ps : List (String × Nat)) (g : Nat → LoD.Dict → LoD.Val)
    (hself : ρ.lookup "self" = some (refsVal rs)) (hkfp : ρ.lookup "key_function_pairs" = some (fnPairsVal ps))
    (hg : ∀ p, p ∈ ps → LocalFn F p.2 (g p.2)) (hd : rs.Nodup) (xs : List Item) (hv : Store.view σ rs = some xs) :
    ∃ σ', run F (ListOfDicts_modify truth).effs ρ σ = some (rs.map PVal.ref, σ') ∧
      Store.view σ' rs = some (ps.foldl (fun acc p => LoD.modify acc p.1 (acc.map fun x => g p.2 x.kv)) xs) ∧
      ∀ n, n ∉ rs → σ'.lookup n = σ.lookup n :=
  refines_of_run (modify_eval truth F ρ σ rs ps hself hkfp) (modifyLoop_model_many F g ps hg rs hd σ xs hv)

/-- **modify_if(predicate, key=f)**: code ⇒ semantics ⇒ `LoD.modifyIf` with `mask` = predicate on the ORIGINAL contents
    and `vals` = `f` on the ORIGINAL contents. -/
theorem modify_if_refines_model (truth : Term → Bool) (F : Funs) (ρ : Env) (σ : Store) (rs : List Nat)
    (hp : Nat) (q : LoD.Dict → Bool) (key : String) (h : Nat) (g : LoD.Dict → LoD.Val)
    (hself : ρ.lookup "self" = some (refsVal rs)) (hkfp : ρ.lookup "key_function_pairs" = some (fnPairsVal [(key, h)]))
    (hpred : ρ.lookup "predicate" = some (.fn hp)) (hq : LocalPred F hp q) (hg : LocalFn F h g)
    (hd : rs.Nodup) (xs : List Item) (hv : Store.view σ rs = some xs) :
    ∃ σ', run F (ListOfDicts_modify_if truth).effs ρ σ = some (rs.map PVal.ref, σ') ∧
      Store.view σ' rs = some (LoD.modifyIf xs (xs.map fun x => q x.kv) key (xs.map fun x => g x.kv)) ∧
      ∀ n, n ∉ rs → σ'.lookup n = σ.lookup n :=
  refines_of_run (modify_if_eval truth F ρ σ rs hp _ hself hkfp hpred)
    (modifyIfLoop_model F hp q hq key h g hg rs hd σ xs hv)

/-- modify_if with any number of pairs, item by item: where the predicate held on the original contents the pairs are
    applied in order (`applyPairsDict`), elsewhere the contents stay. -/
theorem modify_if_refines_pointwise (truth : Term → Bool) (F : Funs) (ρ : Env) (σ : Store) (rs : List Nat)
    (hp : Nat) (q : LoD.Dict → Bool) (ps : List (String × Nat)) (g : Nat → LoD.Dict → LoD.Val)
    (hself : ρ.lookup "self" = some (refsVal rs)) (hkfp : ρ.lookup "key_function_pairs" = some (fnPairsVal ps))
    (hpred : ρ.lookup "predicate" = some (.fn hp)) (hq : LocalPred F hp q) (hg : ∀ p, p ∈ ps → LocalFn F p.2 (g p.2))
    (hd : rs.Nodup) (xs : List Item) (hv : Store.view σ rs = some xs) :
    ∃ σ', run F (ListOfDicts_modify_if truth).effs ρ σ = some (rs.map PVal.ref, σ') ∧
      Store.view σ' rs =
        some (xs.map fun x => { tag := x.tag, kv := if q x.kv then applyPairsDict g ps x.kv else x.kv }) ∧
      ∀ n, n ∉ rs → σ'.lookup n = σ.lookup n :=
  refines_of_run (modify_if_eval truth F ρ σ rs hp ps hself hkfp hpred)
    (modifyIfLoop_pointwise F hp q hq g ps hg rs hd σ xs hv)

/-- **unselect(*keys)**: code ⇒ semantics ⇒ `LoD.unselect`. -/
theorem unselect_refines_model (truth : Term → Bool) (F : Funs) (ρ : Env) (σ : Store) (rs : List Nat) (ks : List String)
    (hself : ρ.lookup "self" = some (refsVal rs)) (hkeys : ρ.lookup "keys" = some (keysVal ks))
    (hd : rs.Nodup) (xs : List Item) (hv : Store.view σ rs = some xs) :
    ∃ σ', run F (ListOfDicts_unselect truth).effs ρ σ = some (rs.map PVal.ref, σ') ∧
      Store.view σ' rs = some (LoD.unselect xs ks) ∧ ∀ n, n ∉ rs → σ'.lookup n = σ.lookup n :=
  refines_of_run (unselect_eval truth F ρ σ rs ks hself hkeys) (unselectLoop_model ks rs hd σ xs hv)

/-- **fill_missing_keys(**pairs)**: code ⇒ semantics ⇒ `LoD.fillMissing`. -/
theorem fill_missing_keys_refines_model (truth : Term → Bool) (ht : truth (Term.sym "key_value_pairs") = true)
    (F : Funs) (ρ : Env) (σ : Store) (rs : List Nat) (kvs : List (String × LoD.Val))
    (hself : ρ.lookup "self" = some (refsVal rs)) (hkvp : ρ.lookup "key_value_pairs" = some (kvPairsVal kvs))
    (hd : rs.Nodup) (xs : List Item) (hv : Store.view σ rs = some xs) :
    ∃ σ', run F (ListOfDicts_fill_missing_keys truth).effs ρ σ = some (rs.map PVal.ref, σ') ∧
      Store.view σ' rs = some (LoD.fillMissing xs kvs) ∧ ∀ n, n ∉ rs → σ'.lookup n = σ.lookup n :=
  refines_of_run (fill_missing_keys_eval truth ht F ρ σ rs kvs hself hkvp) (fillLoop_model kvs rs hd σ xs hv)

/-- **fill_missing_keys()**: code ⇒ semantics ⇒ `LoD.fillMissingAll` — although the translated term recomputes
    `self.keys()` at every position, on distinct objects that list never changes (`fillAllLoop_eq_fillLoop`). -/
theorem fill_missing_keys_all_refines_model (truth : Term → Bool) (ht : truth (Term.sym "key_value_pairs") = false)
    (F : Funs) (ρ : Env) (σ : Store) (rs : List Nat) (hself : ρ.lookup "self" = some (refsVal rs))
    (hd : rs.Nodup) (xs : List Item) (hv : Store.view σ rs = some xs) :
    ∃ σ', run F (ListOfDicts_fill_missing_keys truth).effs ρ σ = some (rs.map PVal.ref, σ') ∧
      Store.view σ' rs = some (LoD.fillMissingAll xs) ∧ ∀ n, n ∉ rs → σ'.lookup n = σ.lookup n :=
  refines_of_run (fill_missing_keys_all_eval truth ht F ρ σ rs hself) (fillAllLoop_model rs hd σ xs hv)

/-! ### (c) one object at two positions: the loop is not the per-entry model -/

/-- `self = [o, o]` with `o = {"a": 0}`, `modify_if(lambda x: x.a <= 1, a=lambda x: x.a + 1)`.  Both callables read only
    the object they are given (`exFuns_localPred`, `exFuns_localFn`), so every hypothesis of `modify_if_refines_model`
    holds except `rs.Nodup`.  The loop reaches `o` twice and tests / edits it as the first visit left it: `a = 2`.  The
    model applied to the duplicated CONTENTS `[{"a": 0}, {"a": 0}]` (mask and values from the original contents) gives
    `a = 1` at both entries.  Hence steps on lists holding one dict twice are judged by the plain-loop reference. -/
theorem modify_if_shared_counterexample :
    LocalPred exFuns 0 exQ ∧ LocalFn exFuns 1 exG ∧
    ∃ σ' xs, run exFuns (ListOfDicts_modify_if (fun _ => true)).effs exEnv exStore = some ([.ref 0, .ref 0], σ') ∧
      Store.view exStore [0, 0] = some xs ∧
      Store.view σ' [0, 0] = some [⟨0, [("a", .i 2)]⟩, ⟨0, [("a", .i 2)]⟩] ∧
      LoD.modifyIf xs (xs.map fun x => exQ x.kv) "a" (xs.map fun x => exG x.kv) =
        [⟨0, [("a", .i 1)]⟩, ⟨0, [("a", .i 1)]⟩] :=
  ⟨exFuns_localPred, exFuns_localFn, [(0, [("a", .i 2)])], [⟨0, [("a", .i 0)]⟩, ⟨0, [("a", .i 0)]⟩], by decide⟩

/-! ### (d) the choosing / rearranging bodies: yielded references, store unchanged -/

/-- **filter(function)**: in general — the test `function(item)` is evaluated at every reference (all in the initial
    store, nothing is written) and the references whose test is true are yielded in order. -/
theorem filter_callable_eval (truth : Term → Bool) (hc : truth (Term.app "callable" [Term.sym "function"]) = true)
    (F : Funs) (ρ : Env) (σ : Store) (rs : List Nat) (hf : Nat)
    (hself : ρ.lookup "self" = some (refsVal rs)) (hfn : ρ.lookup "function" = some (.fn hf)) :
    run F (ListOfDicts_filter truth).effs ρ σ =
      (allM (fun r => callTest F hf r σ) rs).map fun mask => ((pick rs mask).map PVal.ref, σ) := by
  rw [filter_code, if_pos hc]; exact filter_fn_run F ρ σ rs hf hself hfn

/-- **filter(function)** = `LoD.filterMask` with the mask of the function's truth values; the store is unchanged. -/
theorem filter_callable_model (truth : Term → Bool) (hc : truth (Term.app "callable" [Term.sym "function"]) = true)
    (F : Funs) (ρ : Env) (σ : Store) (rs : List Nat) (hf : Nat)
    (hself : ρ.lookup "self" = some (refsVal rs)) (hfn : ρ.lookup "function" = some (.fn hf))
    (xs : List Item) (hv : Store.view σ rs = some xs) (mask : List Bool)
    (hm : allM (fun r => callTest F hf r σ) rs = some mask) :
    run F (ListOfDicts_filter truth).effs ρ σ = some ((LoD.filterMask xs mask).map tagRef, σ) := by
  rw [filter_code, if_pos hc]; exact filter_fn_model F ρ σ rs hf hself hfn xs hv mask hm

/-- **filter_out(function)** = `LoD.filterOutMask` with the same mask. -/
theorem filter_out_callable_model (truth : Term → Bool) (hc : truth (Term.app "callable" [Term.sym "function"]) = true)
    (F : Funs) (ρ : Env) (σ : Store) (rs : List Nat) (hf : Nat)
    (hself : ρ.lookup "self" = some (refsVal rs)) (hfn : ρ.lookup "function" = some (.fn hf))
    (xs : List Item) (hv : Store.view σ rs = some xs) (mask : List Bool)
    (hm : allM (fun r => callTest F hf r σ) rs = some mask) :
    run F (ListOfDicts_filter_out truth).effs ρ σ = some ((LoD.filterOutMask xs mask).map tagRef, σ) := by
  rw [filter_out_code, if_pos hc]; exact filter_out_fn_model F ρ σ rs hf hself hfn xs hv mask hm

/-- **filter(**key_value_pairs)** in general: `kvTest` = all the named keys present (else KeyError: `none`) and
    `itemgetter(*keys)(item) == values`.  `hone`: the translator resolved `len(values) == 1` through `truth`; it must
    agree with the actual number of pairs. -/
theorem filter_kv_eval (truth : Term → Bool) (hc : truth (Term.app "callable" [Term.sym "function"]) = false)
    (hk : truth (Term.sym "key_value_pairs") = true) (kvs : List (String × LoD.Val)) (hne : kvs ≠ [])
    (hone : truth (Term.app "Eq" [Term.app "len" [Term.app "tuple()" [Term.app ".values" [Term.sym "key_value_pairs"]]],
      Term.int 1]) = decide (kvs.length = 1))
    (F : Funs) (ρ : Env) (σ : Store) (rs : List Nat)
    (hself : ρ.lookup "self" = some (refsVal rs)) (hkvp : ρ.lookup "key_value_pairs" = some (kvPairsVal kvs)) :
    run F (ListOfDicts_filter truth).effs ρ σ =
      (allM (fun r => kvTest kvs r σ) rs).map fun mask => ((pick rs mask).map PVal.ref, σ) := by
  have hv : kvValues truth = kvValuesT (decide (kvs.length = 1)) := by simp only [kvValues, hone]; rfl
  rw [filter_code, hc, hk, hv]; exact filter_kv_run F ρ σ rs kvs hne hself hkvp

/-- **filter(**key_value_pairs)** = `LoD.filterKv` when every item has all the named keys. -/
theorem filter_kv_model (truth : Term → Bool) (hc : truth (Term.app "callable" [Term.sym "function"]) = false)
    (hk : truth (Term.sym "key_value_pairs") = true) (kvs : List (String × LoD.Val)) (hne : kvs ≠ [])
    (hone : truth (Term.app "Eq" [Term.app "len" [Term.app "tuple()" [Term.app ".values" [Term.sym "key_value_pairs"]]],
      Term.int 1]) = decide (kvs.length = 1))
    (F : Funs) (ρ : Env) (σ : Store) (rs : List Nat)
    (hself : ρ.lookup "self" = some (refsVal rs)) (hkvp : ρ.lookup "key_value_pairs" = some (kvPairsVal kvs))
    (xs : List Item) (hv : Store.view σ rs = some xs) (hall : ∀ x, x ∈ xs → ∀ p, p ∈ kvs → x.kv.has p.1 = true) :
    run F (ListOfDicts_filter truth).effs ρ σ = some ((LoD.filterKv xs kvs).map tagRef, σ) := by
  have hv' : kvValues truth = kvValuesT (decide (kvs.length = 1)) := by simp only [kvValues, hone]; rfl
  rw [filter_code, hc, hk, hv']; exact PyEvalLoD.filter_kv_model F ρ σ rs kvs hne hself hkvp xs hv hall

/-- **filter_out(**key_value_pairs)** = `LoD.filterOutKv` (the negation of the WHOLE conjunction). -/
theorem filter_out_kv_model (truth : Term → Bool) (hc : truth (Term.app "callable" [Term.sym "function"]) = false)
    (hk : truth (Term.sym "key_value_pairs") = true) (kvs : List (String × LoD.Val)) (hne : kvs ≠ [])
    (hone : truth (Term.app "Eq" [Term.app "len" [Term.app "tuple()" [Term.app ".values" [Term.sym "key_value_pairs"]]],
      Term.int 1]) = decide (kvs.length = 1))
    (F : Funs) (ρ : Env) (σ : Store) (rs : List Nat)
    (hself : ρ.lookup "self" = some (refsVal rs)) (hkvp : ρ.lookup "key_value_pairs" = some (kvPairsVal kvs))
    (xs : List Item) (hv : Store.view σ rs = some xs) (hall : ∀ x, x ∈ xs → ∀ p, p ∈ kvs → x.kv.has p.1 = true) :
    run F (ListOfDicts_filter_out truth).effs ρ σ = some ((LoD.filterOutKv xs kvs).map tagRef, σ) := by
  have hv' : kvValues truth = kvValuesT (decide (kvs.length = 1)) := by simp only [kvValues, hone]; rfl
  rw [filter_out_code, hc, hk, hv']; exact PyEvalLoD.filter_out_kv_model F ρ σ rs kvs hne hself hkvp xs hv hall

/-- **reverse**: the references reversed (= `LoD.reverse` of the items), store unchanged. -/
theorem reverse_eval (truth : Term → Bool) (F : Funs) (ρ : Env) (σ : Store) (rs : List Nat)
    (hself : ρ.lookup "self" = some (refsVal rs)) :
    run F (ListOfDicts_reverse truth).effs ρ σ = some (rs.reverse.map PVal.ref, σ) ∧
    ∀ xs, Store.view σ rs = some xs →
      run F (ListOfDicts_reverse truth).effs ρ σ = some ((LoD.reverse xs).map tagRef, σ) := by
  rw [reverse_code]; exact ⟨reverse_run F ρ σ rs hself, fun xs hv => reverse_model F ρ σ rs hself xs hv⟩

/-- **append(item)** with an AttributeDict `item` (object `n`): the references followed by `n` (= `LoD.append`). -/
theorem append_eval (truth : Term → Bool)
    (hi : truth (Term.app "isinstance" [Term.sym "item", Term.sym "AttributeDict"]) = true)
    (F : Funs) (ρ : Env) (σ : Store) (rs : List Nat) (n : Nat)
    (hself : ρ.lookup "self" = some (refsVal rs)) (hitem : ρ.lookup "item" = some (.ref n)) :
    run F (ListOfDicts_append truth).effs ρ σ = some ((rs ++ [n]).map PVal.ref, σ) ∧
    ∀ xs d, Store.view σ rs = some xs → σ.lookup n = some d →
      run F (ListOfDicts_append truth).effs ρ σ = some ((LoD.append xs { tag := n, kv := d }).map tagRef, σ) := by
  rw [append_code, hi]
  exact ⟨append_run F ρ σ rs n hself hitem, fun xs d hv hn => append_model F ρ σ rs n hself hitem xs hv d hn⟩

/-- **`+`** with a ListOfDicts `other`: the references of both in order (= `LoD.add`). -/
theorem add_eval (truth : Term → Bool)
    (hi : truth (Term.app "isinstance" [Term.sym "other", Term.sym "ListOfDicts"]) = true)
    (F : Funs) (ρ : Env) (σ : Store) (rs ys : List Nat)
    (hself : ρ.lookup "self" = some (refsVal rs)) (hother : ρ.lookup "other" = some (refsVal ys)) :
    run F (ListOfDicts_add truth).effs ρ σ = some ((rs ++ ys).map PVal.ref, σ) ∧
    ∀ xs zs, Store.view σ rs = some xs → Store.view σ ys = some zs →
      run F (ListOfDicts_add truth).effs ρ σ = some ((LoD.add xs zs).map tagRef, σ) := by
  rw [add_code, if_pos hi]
  exact ⟨add_run F ρ σ rs ys hself hother, fun xs zs hv hw => add_model F ρ σ rs ys hself hother xs zs hv hw⟩

/-- **`*`** with an int `other = n`: `n` copies of the reference list (none for `n ≤ 0`) (= `LoD.mul`). -/
theorem mul_eval (truth : Term → Bool)
    (hi : truth (Term.app "isinstance" [Term.sym "other", Term.sym "int"]) = true)
    (F : Funs) (ρ : Env) (σ : Store) (rs : List Nat) (n : Int)
    (hself : ρ.lookup "self" = some (refsVal rs)) (hother : ρ.lookup "other" = some (.atom (.i n))) :
    run F (ListOfDicts_mul truth).effs ρ σ = some ((List.replicate n.toNat rs).flatten.map PVal.ref, σ) ∧
    ∀ xs, Store.view σ rs = some xs →
      run F (ListOfDicts_mul truth).effs ρ σ = some ((LoD.mul xs n.toNat).map tagRef, σ) := by
  rw [mul_code, if_pos hi]
  exact ⟨mul_run F ρ σ rs n hself hother, fun xs hv => mul_model F ρ σ rs n hself hother xs hv⟩

/-! ### non-vacuity: concrete runs -/

/-- distinct objects `{"a": 0}`, `{"a": 5}`: modify_if edits the first only; the result is `LoD.modifyIf`. -/
example :
    run exFuns (ListOfDicts_modify_if (fun _ => true)).effs
        [("self", refsVal [0, 1]), ("key_function_pairs", fnPairsVal [("a", 1)]), ("predicate", .fn 0)]
        [(0, [("a", .i 0)]), (1, [("a", .i 5)])] =
      some ([.ref 0, .ref 1], [(0, [("a", .i 1)]), (1, [("a", .i 5)])]) ∧
    LoD.modifyIf [⟨0, [("a", .i 0)]⟩, ⟨1, [("a", .i 5)]⟩] [true, false] "a" [.i 1, .i 6] =
      [⟨0, [("a", .i 1)]⟩, ⟨1, [("a", .i 5)]⟩] := by decide

/-- unselect deletes the present keys only. -/
example :
    run exFuns (ListOfDicts_unselect (fun _ => true)).effs [("self", refsVal [0, 1]), ("keys", keysVal ["a", "z"])]
        [(0, [("a", .i 0), ("b", .i 1)]), (1, [("b", .i 5)])] =
      some ([.ref 0, .ref 1], [(0, [("b", .i 1)]), (1, [("b", .i 5)])]) := by decide

/-- fill_missing_keys() adds the keys of `self.keys()` that an item lacks, with None. -/
example :
    run exFuns (ListOfDicts_fill_missing_keys (fun _ => false)).effs [("self", refsVal [0, 1])]
        [(0, [("a", .i 0)]), (1, [("b", .i 5)])] =
      some ([.ref 0, .ref 1], [(0, [("a", .i 0), ("b", .none)]), (1, [("b", .i 5), ("a", .none)])]) := by decide

/-- filter(a=0, b=1): ALL pairs must match (`truth`: not callable, pairs given, more than one pair). -/
example :
    run exFuns (ListOfDicts_filter (fun t => match t with | .sym _ => true | _ => false)).effs
        [("self", refsVal [0, 1]), ("key_value_pairs", kvPairsVal [("a", .i 0), ("b", .i 1)])]
        [(0, [("a", .i 0), ("b", .i 1)]), (1, [("a", .i 0), ("b", .i 5)])] =
      some ([.ref 0], [(0, [("a", .i 0), ("b", .i 1)]), (1, [("a", .i 0), ("b", .i 5)])]) := by decide

/-- `self * 2`. -/
example :
    run exFuns (ListOfDicts_mul (fun _ => true)).effs [("self", refsVal [0, 1]), ("other", .atom (.i 2))] [] =
      some ([.ref 0, .ref 1, .ref 0, .ref 1], []) := by decide

end DI.Eval.C15

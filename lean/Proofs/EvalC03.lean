/-
  Proofs/EvalC03.lean — what the REGENERATED body of `DataFrame.sort` (`Generated/CodeC03.lean`, translated from the current
  Python source on every run) DENOTES under the evaluator of `Model/PyEvalSort.lean`: "code ⇒ semantics ⇒ model".

  * `sort_body`         the body is ONE loop over the receiver's columns, each `column[indices].copy()` for the one index
                        expression `np.lexsort(tuple(sort_key(*x) for x in reversed(colname_dir_pairs.items())))`;
  * `lexsort_reading`   the trusted reading of `np.lexsort` (one stable pass per key, first key first) is ONE stable sort
                        by the lexicographic order whose PRIMARY key is the LAST one: the model's `lexsortIdx`;
  * `sort_eval`         evaluating the body yields EVERY column of the receiver, in dict order, gathered at ONE
                        permutation — the model's `dfSortIdx` for the keys in the order the caller gave them;
  * `sort_eval_perm` / `sort_eval_ordered` / `sort_eval_stable`   corollaries by `Proofs/C03.lean`;
  * `sort_no_keys` …    the exceptions: no pairs (TypeError of `np.lexsort(())`), a direction other than 1 / -1, an unknown
                        column name; `sort_eval_total`: the body IS the primitive `sortFrame` that `Proofs/EvalC04.lean` uses
                        for `.sort(**…)`;
  * `sort_key_call_justified`   the one trusted link of the evaluator — `sort_key(colname, dir)` = the model's `sortKey` — is
                        what the regenerated `DataFrame_sort_key` evaluates to (`Tie.C03.sort_key_code`, the term it returns
                        evaluated with the column primitives, `Tie.C03.sort_key_refines`).

  Statements only; the proofs cite `Lemmas/PyEvalSort.lean`.
  Hypotheses: `Rect self` (every column has `nrow` cells: the class invariant `_check_dimensions` enforces); for the
  order statements the model's `WfKeys` (numeric key columns are integer-coded: the harness codec).
-/
import Generated.CodeC03
import Proofs.TieC03
import Proofs.C03
import Lemmas.PyEvalSort

namespace DI.Eval.C03

open DI DI.Py DI.Gen DI.PyEvalS DI.Tie.C03
open DI.PyEval (Frame nrow names colOf colOf? Rect wholeRows)

/-- **sort as written**, with the local function kept: the body is the ONE loop `sortLoop` over the receiver's columns
    (`for colname, column in self.items(): yield colname, column[indices].copy()`), `indices` being
    `np.lexsort(tuple(sort_key(*x) for x in reversed(colname_dir_pairs.items())))` for the local `def sort_key`. -/
theorem sort_body (truth : Term → Bool) :
    ∃ rest, DataFrame_sort truth = Out.fall [sortLoop (localSortKey rest)] := ⟨_, rfl⟩

/-- **the reading of `np.lexsort`**: one stable pass per key, the first key first, is ONE stable sort of the row numbers by
    the lexicographic order of the REVERSED key list (the model's `lexsortIdx`: `argsort` of the key rows under `leLex`,
    missing last) — for any number of keys, of any lengths, with any missing values. -/
theorem lexsort_reading (n : Nat) (keys : List (List Cell)) :
    lexsortPasses n keys = lexsortIdx n keys.reverse := lexsortPasses_eq n keys

/-- **sort(**pairs)**: EVERY column of the receiver, in dict order, gathered at ONE permutation, and that permutation is
    the model's multi-key sort permutation `dfSortIdx` for the keys IN THE ORDER GIVEN (`modelKeys`: dtype flags,
    descending?, the column) — the first pair is the primary key, ties are broken by the next, remaining ties keep the
    original row order (`sort_eval_ordered`, `sort_eval_stable`); any number of keys ≥ 1, any directions, any missing
    values. -/
theorem sort_eval (truth : Term → Bool) (kinds : String → ColKind) (env : Env) (self : Frame)
    (pairs : List (String × Int))
    (hself : env.get? "self" = some (.frame self)) (hpairs : env.get? "colname_dir_pairs" = some (.dirs pairs))
    (hne : pairs ≠ []) (hdir : ∀ p ∈ pairs, p.2 = 1 ∨ p.2 = -1) (hnames : ∀ p ∈ pairs, p.1 ∈ names self)
    (hrect : Rect self) :
    runBody kinds env (DataFrame_sort truth) =
      some (wholeRows self (dfSortIdx (nrow self) (modelKeys kinds self pairs))) := by
  obtain ⟨rest, h⟩ := sort_body truth
  have hs : self ≠ [] := by
    obtain ⟨p, t, rfl⟩ := List.exists_cons_of_ne_nil hne
    intro h0
    have := hnames p List.mem_cons_self
    rw [h0] at this
    cases this
  rw [h, run_sort_total kinds rest env self pairs hself hpairs hs hrect, sortFrame_eq,
    sortIndices_model kinds self pairs hne hdir hnames hrect]
  rfl

/-- the keys of `sort_eval` are well formed for the model when the numeric key columns are integer-coded. -/
theorem model_keys_wf (kinds : String → ColKind) (self : Frame) (pairs : List (String × Int))
    (hnames : ∀ p ∈ pairs, p.1 ∈ names self) (hrect : Rect self)
    (hcoded : ∀ p ∈ pairs, (kinds p.1).isNumber = true → IntCoded (colOf self p.1)) :
    WfKeys (nrow self) (modelKeys kinds self pairs) := by
  intro k hk
  obtain ⟨p, hp, rfl⟩ := List.mem_map.mp hk
  exact ⟨DI.PyEval.colOf_length hrect (hnames p hp), hcoded p hp⟩

/-- **every row exactly once, whole** (with `C03.sort_perm`): the one index vector is a permutation of the row numbers,
    so every column of the result is a permutation of the receiver's column, by the same permutation. -/
theorem sort_eval_perm (truth : Term → Bool) (kinds : String → ColKind) (env : Env) (self : Frame)
    (pairs : List (String × Int))
    (hself : env.get? "self" = some (.frame self)) (hpairs : env.get? "colname_dir_pairs" = some (.dirs pairs))
    (hne : pairs ≠ []) (hdir : ∀ p ∈ pairs, p.2 = 1 ∨ p.2 = -1) (hnames : ∀ p ∈ pairs, p.1 ∈ names self)
    (hrect : Rect self) :
    ∃ idx, runBody kinds env (DataFrame_sort truth) = some (wholeRows self idx) ∧
      idx.Perm (List.range (nrow self)) ∧ ∀ p ∈ self, (gather p.2 idx).Perm p.2 := by
  refine ⟨_, sort_eval truth kinds env self pairs hself hpairs hne hdir hnames hrect,
    DI.C03.sort_perm _ _, ?_⟩
  intro p hp
  exact DI.PyEval.gather_perm p.2 _ (by rw [hrect p hp]; exact DI.C03.sort_perm _ _)

/-- **in key order** (with `C03.sort_ordered`): the key cells of the result rows are ordered lexicographically by the
    specification orders of the pairs in the order given (first pair primary; ascending: missing last). -/
theorem sort_eval_ordered (truth : Term → Bool) (kinds : String → ColKind) (env : Env) (self : Frame)
    (pairs : List (String × Int))
    (hself : env.get? "self" = some (.frame self)) (hpairs : env.get? "colname_dir_pairs" = some (.dirs pairs))
    (hne : pairs ≠ []) (hdir : ∀ p ∈ pairs, p.2 = 1 ∨ p.2 = -1) (hnames : ∀ p ∈ pairs, p.1 ∈ names self)
    (hrect : Rect self) (hcoded : ∀ p ∈ pairs, (kinds p.1).isNumber = true → IntCoded (colOf self p.1)) :
    ∃ idx, runBody kinds env (DataFrame_sort truth) = some (wholeRows self idx) ∧
      (gather (rowsOf (nrow self) (origCols (modelKeys kinds self pairs))) idx).Pairwise
        (fun a b => leLexBy (specLts (modelKeys kinds self pairs)) a b) :=
  ⟨_, sort_eval truth kinds env self pairs hself hpairs hne hdir hnames hrect,
    DI.C03.sort_ordered _ _ (model_keys_wf kinds self pairs hnames hrect hcoded)⟩

/-- **stable** (with `C03.sort_stable`): two rows that the key order does not put the other way round keep their
    original relative order. -/
theorem sort_eval_stable (truth : Term → Bool) (kinds : String → ColKind) (env : Env) (self : Frame)
    (pairs : List (String × Int))
    (hself : env.get? "self" = some (.frame self)) (hpairs : env.get? "colname_dir_pairs" = some (.dirs pairs))
    (hne : pairs ≠ []) (hdir : ∀ p ∈ pairs, p.2 = 1 ∨ p.2 = -1) (hnames : ∀ p ∈ pairs, p.1 ∈ names self)
    (hrect : Rect self) (hcoded : ∀ p ∈ pairs, (kinds p.1).isNumber = true → IntCoded (colOf self p.1)) :
    ∃ idx, runBody kinds env (DataFrame_sort truth) = some (wholeRows self idx) ∧
      ∀ i j, i < j → j < nrow self →
        leLexBy (specLts (modelKeys kinds self pairs))
          (rowsOf (nrow self) (origCols (modelKeys kinds self pairs)))[i]!
          (rowsOf (nrow self) (origCols (modelKeys kinds self pairs)))[j]! = true →
        [i, j].Sublist idx :=
  ⟨_, sort_eval truth kinds env self pairs hself hpairs hne hdir hnames hrect,
    fun i j hij hj hle => DI.C03.sort_stable _ _ (model_keys_wf kinds self pairs hnames hrect hcoded) i j hij hj hle⟩

/-- **the body IS the primitive** `sortFrame` (the meaning `Proofs/EvalC04.lean` gives `.sort(**…)`) for every receiver
    with at least one column and EVERY pairs dict, the exceptions included. -/
theorem sort_eval_total (truth : Term → Bool) (kinds : String → ColKind) (env : Env) (self : Frame)
    (pairs : List (String × Int))
    (hself : env.get? "self" = some (.frame self)) (hpairs : env.get? "colname_dir_pairs" = some (.dirs pairs))
    (hne : self ≠ []) (hrect : Rect self) :
    runBody kinds env (DataFrame_sort truth) = sortFrame kinds self pairs := by
  obtain ⟨rest, h⟩ := sort_body truth
  rw [h]; exact run_sort_total kinds rest env self pairs hself hpairs hne hrect

/-- **no pairs**: Python raises (`np.lexsort(())`: "TypeError: need sequence of keys with len > 0 in lexsort"), and so
    does the evaluator (`none`) — the frame is NOT returned unchanged.  (The model's `C03.sort_no_keys`,
    `dfSortIdx n [] = range n`, describes a call the code never completes.) -/
theorem sort_no_keys (truth : Term → Bool) (kinds : String → ColKind) (env : Env) (self : Frame)
    (hself : env.get? "self" = some (.frame self)) (hpairs : env.get? "colname_dir_pairs" = some (.dirs []))
    (hne : self ≠ []) (hrect : Rect self) :
    runBody kinds env (DataFrame_sort truth) = none := by
  rw [sort_eval_total truth kinds env self [] hself hpairs hne hrect, sortFrame_eq, sortIndices_no_keys]
  rfl

/-- … except that for a receiver WITHOUT columns the translated body never evaluates the inlined index expression (the
    loop has no iteration), where Python evaluates `indices = np.lexsort(...)` before the loop and raises all the same. -/
theorem sort_no_keys_no_columns (truth : Term → Bool) (kinds : String → ColKind) (env : Env)
    (hself : env.get? "self" = some (.frame [])) : runBody kinds env (DataFrame_sort truth) = some [] := by
  obtain ⟨rest, h⟩ := sort_body truth
  rw [h]
  obtain ⟨env', h'⟩ := exec_perColumn kinds (fun c => .app ".copy" [.app "getitem" [c, lexsortTerm (localSortKey rest)]])
    id env [] hself (by intro e p hp; cases hp) env [] (Stable.refl _ _)
  exact runBody_single h'

/-- a direction other than 1 / -1: the ValueError of `sort_key` (`Tie.C03.sort_key_rejects`). -/
theorem sort_bad_dir_eval (truth : Term → Bool) (kinds : String → ColKind) (env : Env) (self : Frame)
    (pairs : List (String × Int))
    (hself : env.get? "self" = some (.frame self)) (hpairs : env.get? "colname_dir_pairs" = some (.dirs pairs))
    (hne : self ≠ []) (hrect : Rect self) (p : String × Int) (hp : p ∈ pairs) (hd : p.2 ≠ 1 ∧ p.2 ≠ -1) :
    runBody kinds env (DataFrame_sort truth) = none := by
  rw [sort_eval_total truth kinds env self pairs hself hpairs hne hrect, sortFrame_eq,
    sortIndices_bad_dir kinds self pairs p hp hd]
  rfl

/-- a name that is not a column: KeyError. -/
theorem sort_bad_name_eval (truth : Term → Bool) (kinds : String → ColKind) (env : Env) (self : Frame)
    (pairs : List (String × Int))
    (hself : env.get? "self" = some (.frame self)) (hpairs : env.get? "colname_dir_pairs" = some (.dirs pairs))
    (hne : self ≠ []) (hrect : Rect self) (p : String × Int) (hp : p ∈ pairs) (hn : p.1 ∉ names self) :
    runBody kinds env (DataFrame_sort truth) = none := by
  rw [sort_eval_total truth kinds env self pairs hself hpairs hne hrect, sortFrame_eq,
    sortIndices_bad_name kinds self pairs p hp hn]
  rfl

/-! ### the trusted link `sort_key(colname, dir)` = `sortKey` -/

/-- the term the regenerated `sort_key` returns, evaluated with the column primitives (`self[colname]`,
    `.rank(method='min')` = `rankKey`, `._optimize_for_argsort()` = identity on values, `~` / unary `-` = `invertKey`), is the
    key column `skEval` of its shape. -/
theorem sort_key_term_eval (kinds : String → ColKind) (e : Env) (self : Frame) (n : String) (col : List Cell) (s : SK)
    (hself : e.get? "self" = some (.frame self)) (hname : e.get? "colname" = some (.str n))
    (hcol : colOf? self n = some col) :
    evalS kinds [] e (skTerm s) = some (.col (skEval s col)) := eval_skTerm kinds e self n col s hself hname hcol

/-- **the link is what the code computes**: for a direction 1 / -1 and an interpretation `truth` of the dtype tests that
    is faithful for the column (`Tie.C03.Faithful`: the tests say what `kinds colname` records), the regenerated
    `DataFrame_sort_key` returns a term whose value is EXACTLY what the evaluator takes the call `sort_key(colname, dir)`
    to be (`sortKeyCall`, the model's `sortKey`). -/
theorem sort_key_call_justified (truth : Term → Bool) (kinds : String → ColKind) (e : Env) (self : Frame) (n : String)
    (col : List Cell) (desc : Bool)
    (hself : e.get? "self" = some (.frame self)) (hname : e.get? "colname" = some (.str n))
    (hcol : colOf? self n = some col) (hf : Faithful truth (kinds n) col) :
    ∃ t, DataFrame_sort_key truth (if desc then -1 else 1) = Out.ret [] t ∧
      (evalS kinds [] e t).bind (fun v => match v with | .col c => some c | _ => none) =
        sortKeyCall kinds self n (if desc then -1 else 1) := by
  refine ⟨_, sort_key_code truth desc, ?_⟩
  rw [eval_skTerm kinds e self n col _ hself hname hcol, sort_key_refines truth (kinds n) col desc hf]
  cases desc <;> simp [sortKeyCall, hcol]

/-! ### non-vacuity: a frame with 2 columns and 5 rows, one integer key ascending, one descending with a missing value -/

def ik : ColKind := { isString := false, fastAsc := true, isNumber := true, isInteger := true }

def fr : Frame := [("x", [some (.i 3), some (.i 1), some (.i 2), some (.i 1), some (.i 3)]),
  ("y", [some (.i 1), some (.i 2), none, some (.i 4), some (.i 5)])]

example : Rect fr := by decide

/-- `np.lexsort((y, x))`: `x` (the LAST key) is primary, `y` breaks its ties, the missing `y` of row 2 is alone in its `x`. -/
example : lexsortPasses 5 [[some (.i 1), some (.i 2), none, some (.i 4), some (.i 5)],
    [some (.i 3), some (.i 1), some (.i 2), some (.i 1), some (.i 3)]] = [1, 3, 2, 0, 4] := by
  simp [lexsortPasses, stablePass, argsort, sortPairs, gather, List.mergeSort, leNaLast, leRaw, Key.le, List.zipIdx,
    List.range, List.range.loop]

/-- `fr.sort(x=1, y=-1)` through the regenerated body (`sort_eval`, its hypotheses checked on the instance). -/
example : runBody (fun _ => ik) (callEnv fr [("colname_dir_pairs", .dirs [("x", 1), ("y", -1)])])
    (DataFrame_sort (fun _ => false)) =
    some [("x", [some (.i 1), some (.i 1), some (.i 2), some (.i 3), some (.i 3)]),
      ("y", [some (.i 4), some (.i 2), none, some (.i 5), some (.i 1)])] := by
  rw [sort_eval (fun _ => false) (fun _ => ik) _ fr [("x", 1), ("y", -1)] rfl rfl (by decide)
    (by decide) (by decide) (by decide)]
  have h : dfSortIdx 5 (modelKeys (fun _ => ik) fr [("x", 1), ("y", -1)]) = [3, 1, 2, 4, 0] := by
    simp [modelKeys, fr, ik, DI.PyEval.colOf, DI.PyEval.colOf?, dfSortIdx, lexsortIdx, argsort, sortPairs, sortKey, rowsOf,
      List.mergeSort, List.range, List.range.loop, List.zipIdx, leLex, ltNaLast, ltOf, Key.le, invertKey, isNa]
  have hn : nrow fr = 5 := by decide
  rw [hn, h]
  decide

example : npLexsort [] = none ∧ npLexsort [[none], [none, none]] = none := by decide

example : runBody (fun _ => ik) (callEnv fr [("colname_dir_pairs", .dirs [])]) (DataFrame_sort (fun _ => false)) = none := by
  decide

example : runBody (fun _ => ik) (callEnv fr [("colname_dir_pairs", .dirs [("x", 2)])]) (DataFrame_sort (fun _ => false))
    = none := by decide

example : runBody (fun _ => ik) (callEnv fr [("colname_dir_pairs", .dirs [("z", 1)])]) (DataFrame_sort (fun _ => false))
    = none := by decide

end DI.Eval.C03

/-
  Proofs/EvalC01.lean — property C01, the column STORE path of `DataFrame` EVALUATED.

  `Proofs/TieC01.lean` gives normal forms of the translated `DataFrameColumn.__new__`, `_reconcile_column`, `__setitem__`,
  `__delitem__`, `pop` (`Generated/CodeC01.lean`, regenerated from the current source on every run).  With the evaluator
  of `Model/PyEvalStore.lean` — the frame is the model's `FS.State`, the stored value is described by kind and length
  (`Value`), the symbolic tests are answered from the state (`truthOf`) — running these functions

      data[k] = v   =   __setitem__  →  _reconcile_column  →  DataFrameColumn.__new__  →  dict.__setitem__
      del data[k]   =   dict.__delitem__  →  hasattr / __is_builtin_attr  →  object.__delattr__          (pop: dict.pop)

  gives exactly the model's store step `FS.setitem` / `FS.delitem` (`setitem_eval`, `delitem_eval`, `pop_eval`), for
  every state (no invariant assumed), key and value.  Spelled out (`setitem_rule`, `setitem_on_empty_frame`,
  `setitem_keeps_order`): a value of the frame's row count is stored; a length-one value or scalar is repeated to the row
  count (≥ 1); anything else — another length, `ndim ≠ 1` — raises and the frame is unchanged; a frame without columns
  accepts any length, which becomes the row count; an existing name keeps its position, a new name is appended, no other
  column is touched.  `history_eval` lifts this to every list of operations, so the invariant of `Proofs/C01.lean`
  (rectangular, unique names, placeholders coherent) holds for every frame the CODE-level fold reaches
  (`history_wellformed`).

  Statements only; proofs cite `Lemmas/PyEvalStore.lean`.
-/
import Generated.CodeC01
import Model.PyEvalStore
import Lemmas.PyEvalStore
import Proofs.TieC01
import Proofs.C01

namespace DI.Eval.C01

open DI DI.Py DI.Gen DI.FS DI.PyEvalStore

/-- the normal forms evaluated here are those of `Proofs/TieC01.lean` (`setitem_normal_form`,
    `delitem_drops_placeholder`, `pop_drops_placeholder`), for every interpretation of the tests. -/
theorem store_terms (truth : Term → Bool) :
    DataFrame_setitem truth =
      Out.ret (if (!truth tHasattr' && truth tIdent) = true then [ePlaceholder] else [])
        (Term.app "super().__setitem__" [Term.sym "key", Term.app "._reconcile_column" [Term.sym "self", Term.sym "value"]]) ∧
    DataFrame_delitem truth =
      Out.ret (if (truth tHasattr && !truth tBuiltin) = true then [eDelattr] else [])
        (Term.app "super().__delitem__" [Term.sym "key"]) ∧
    DataFrame_pop truth =
      Out.ret (if (truth tHasattr && !truth tBuiltin) = true then [eDelattr] else [])
        (Term.app "super().pop" [Term.sym "key", Term.app "*" [Term.sym "args"], Term.app "=**" [Term.sym "kwargs"]]) :=
  ⟨setitem_code truth, delitem_code truth, pop_code truth⟩

/-! ### the broadcast rule and `_reconcile_column` -/

/-- **`DataFrameColumn(value, nrow=…)`, evaluated** = the model's `FS.column`, for every value and row count. -/
theorem column_new_eval (truth : Term → Bool) (v : Value) (nrow : Option Nat) :
    columnNew truth v (nrow.map (fun (n : Nat) => (n : Int))) = FS.column v.shape nrow := columnNew_eq truth v nrow

/-- **`self._reconcile_column(value)`, evaluated**: `FS.column` at `nrow = None` for a frame without columns, at the
    frame's row count otherwise; the short cut for a `DataFrameColumn` that already has the row count changes nothing. -/
theorem reconcile_eval (nm : Names) (s : State) (k : String) (v : Value) :
    reconcile (truthOf nm s k v.isColumn) s v = FS.column v.shape (nrowOf s) := reconcile_eq nm s k v

/-! ### `data[k] = v` -/

/-- **`__setitem__`, evaluated** = the model's store step, for every state, key and value. -/
theorem setitem_eval (nm : Names) (s : State) (k : String) (v : Value) :
    evalSetitem nm s k v = FS.setitem nm s k v.shape := evalSetitem_eq nm s k v

/-- the same, spelled out: the value is reconciled to `n` elements (or the store raises, `none`); the dict gets
    `(k, n)` — in place for an existing name, last for a new one (`put`); the placeholder attribute is added for an
    identifier that is not otherwise an attribute. -/
theorem setitem_explicit (nm : Names) (s : State) (k : String) (v : Value) :
    evalSetitem nm s k v =
      (FS.column v.shape (nrowOf s)).map fun n => { cols := put s.cols k n, attrs := (addPlaceholder nm s k).attrs } :=
  evalSetitem_explicit nm s k v

/-- **the rule on a frame WITH columns**: the store succeeds iff the value is one-dimensional and has the frame's row
    count, or is a length-one value / scalar and the row count is ≥ 1; the stored column then has the row count; in every
    other case the store raises (and `runCode` keeps the frame). -/
theorem setitem_rule (nm : Names) (s : State) (k : String) (v : Value) (hne : s.cols ≠ []) :
    (v.shape ≠ .nd ∧ (v.shape.length = s.nrow ∨ (v.shape.length = 1 ∧ 1 ≤ s.nrow)) →
      evalSetitem nm s k v = some { cols := put s.cols k s.nrow, attrs := (addPlaceholder nm s k).attrs }) ∧
    (¬ (v.shape ≠ .nd ∧ (v.shape.length = s.nrow ∨ (v.shape.length = 1 ∧ 1 ≤ s.nrow))) →
      evalSetitem nm s k v = none) := by
  have hn : nrowOf s = some s.nrow := by
    unfold nrowOf; cases h : s.cols with
    | nil => exact absurd h hne
    | cons c cs => rfl
  rw [setitem_explicit, hn]
  constructor
  · intro h
    rw [(column_some_iff v.shape s.nrow s.nrow).mpr ⟨rfl, h.1, h.2⟩]; rfl
  · intro h
    cases hc : FS.column v.shape (some s.nrow) with
    | none => rfl
    | some m => exact absurd ((column_some_iff v.shape s.nrow m).mp hc).2 h

/-- **a frame WITHOUT columns** accepts every one-dimensional value: its length (1 for a scalar) becomes the row count;
    only `ndim ≠ 1` is rejected. -/
theorem setitem_on_empty_frame (nm : Names) (attrs : List String) (k : String) (v : Value) :
    (v.shape ≠ .nd → ∃ s', evalSetitem nm ⟨[], attrs⟩ k v = some s' ∧ s'.cols = [(k, v.shape.length)] ∧
        s'.nrow = v.shape.length) ∧
    (v.shape = .nd → evalSetitem nm ⟨[], attrs⟩ k v = none) := by
  rw [setitem_explicit]
  have hn : nrowOf ⟨[], attrs⟩ = none := rfl
  rw [hn, column_none_eq]
  constructor
  · intro h; simp only [h, if_false]; exact ⟨_, rfl, rfl, rfl⟩
  · intro h; simp [h]

/-- **order**: after a successful store the names are the old names, with `k` appended iff it was new; the length of
    the dict grows by one exactly then; and position by position every old slot holds what it held, except the slot of
    `k`, which holds the new column. -/
theorem setitem_keeps_order (nm : Names) (s s' : State) (k : String) (v : Value)
    (h : evalSetitem nm s k v = some s') :
    s'.names = (if k ∈ s.names then s.names else s.names ++ [k]) ∧
    s'.cols.length = (if s.has k then s.cols.length else s.cols.length + 1) ∧
    ∃ n, FS.column v.shape (nrowOf s) = some n ∧
      ∀ (i : Nat) (hi : i < s.cols.length), s'.cols[i]? = some (if s.cols[i].1 == k then (k, n) else s.cols[i]) := by
  rw [setitem_explicit] at h
  cases hc : FS.column v.shape (nrowOf s) with
  | none => rw [hc] at h; cases h
  | some n =>
    rw [hc] at h
    simp only [Option.map_some, Option.some.injEq] at h
    subst h
    exact ⟨put_names s.cols k n, put_length s.cols k n, n, rfl, fun i hi => put_getElem s.cols k n i hi⟩

/-! ### `del data[k]`, `data.pop(k)` -/

/-- **`__delitem__`, evaluated** = the model's `FS.delitem`. -/
theorem delitem_eval (nm : Names) (s : State) (k : String) : evalDelitem nm s k = FS.delitem nm s k :=
  evalDelitem_eq nm s k

/-- **`pop` (without default), evaluated** = the model's `FS.delitem`: the same dict deletion and clean-up. -/
theorem pop_eval (nm : Names) (s : State) (k : String) : evalPop nm s k = FS.delitem nm s k := evalPop_eq nm s k

/-- deletion removes exactly the column named `k` — KeyError (the frame unchanged) when there is none; the other
    columns keep their order and lengths, the names are the old names without `k`, and the placeholder attribute of that
    name goes with it (unless the name is a class attribute, which never had one). -/
theorem delitem_removes_exactly (nm : Names) (s : State) (k : String) :
    (s.has k = false → evalDelitem nm s k = none ∧ evalPop nm s k = none) ∧
    (s.has k = true → ∃ s', evalDelitem nm s k = some s' ∧ evalPop nm s k = some s' ∧
      s'.cols = s.cols.filter (fun c => c.1 != k) ∧ s'.names = s.names.filter (· != k) ∧ k ∉ s'.names ∧
      s'.attrs = (if nm.classAttr k then s.attrs else s.attrs.filter (· != k))) := by
  rw [pop_eval, ← delitem_eval, evalDelitem_explicit]
  constructor
  · intro h; simp [h]
  · intro h
    simp only [h, if_true]
    refine ⟨_, rfl, rfl, rfl, filter_col_names s.cols k, ?_, rfl⟩
    simp only [State.names, filter_col_names]
    intro hm
    have := (List.mem_filter.mp hm).2
    simp at this

/-! ### histories -/

/-- one operation of the store path: the code-level step is the model's step. -/
theorem step_eval (nm : Names) (s : State) (op : COp) : stepCode nm s op = FS.step nm s op.toModel :=
  stepCode_eq nm s op

/-- **every history**: folding the evaluated code over any list of `data[k] = v` / `del data[k]` / `data.pop(k)` (an
    operation that raises leaves the frame as it was) equals the model's run over the corresponding model operations —
    from every start state. -/
theorem history_eval (nm : Names) (s0 : State) (ops : List COp) :
    runCode nm s0 ops = (ops.map COp.toModel).foldl (fun st op => (FS.step nm st op).getD st) s0 :=
  runCode_eq nm s0 ops

/-- **corollary** (`Proofs/C01.lean`, `reachable_wellformed`, transferred to the code): every frame the code-level fold
    reaches from a constructed frame is well-formed — unique names in stable order, all columns of the frame's row count,
    placeholder attributes exactly on the identifier names that are not class attributes. -/
theorem history_wellformed (nm : Names) (ps : List (String × Shape)) (s0 : State) (h0 : FS.new nm ps = some s0)
    (ops : List COp) : Inv nm (runCode nm s0 ops) := by
  rw [history_eval]
  exact DI.C01.reachable_wellformed nm ps s0 h0 (ops.map COp.toModel)

/-- the same from any well-formed frame, e.g. the empty one. -/
theorem history_wellformed_from (nm : Names) (s0 : State) (h0 : Inv nm s0) (ops : List COp) :
    Inv nm (runCode nm s0 ops) := by
  rw [history_eval]
  exact run_inv nm s0 (ops.map COp.toModel) h0

/-- in particular every reachable frame is rectangular: all its columns have one length, the row count. -/
theorem history_rectangular (nm : Names) (ps : List (String × Shape)) (s0 : State) (h0 : FS.new nm ps = some s0)
    (ops : List COp) : ∀ c ∈ (runCode nm s0 ops).cols, c.2 = (runCode nm s0 ops).nrow :=
  (history_wellformed nm ps s0 h0 ops).2.1

/-! ### non-vacuity -/

/-- a history on the empty frame: a vector defines the row count, a scalar and a length-one column are repeated, a wrong
    length and a 2-d array are rejected (frame unchanged), a re-assignment keeps the position, a non-identifier name gets
    no placeholder, deletions remove the column and its placeholder, a missing key is a KeyError. -/
example :
    let nm : Names := ⟨fun k => k != "a b", fun k => k == "sort"⟩
    runCode nm ⟨[], []⟩ [.setitem "a" (.vector 3), .setitem "b" .scalar, .setitem "c" (.vector 2),
        .setitem "d" (.nd false), .setitem "a b" (.column 3), .setitem "sort" (.column 1), .setitem "a" (.vector 1)] =
      ⟨[("a", 3), ("b", 3), ("a b", 3), ("sort", 3)], ["a", "b"]⟩ ∧
    runCode nm ⟨[("a", 3), ("b", 3), ("a b", 3), ("sort", 3)], ["a", "b"]⟩ [.delitem "b", .pop "zz", .pop "sort"] =
      ⟨[("a", 3), ("a b", 3)], ["a"]⟩ ∧
    evalSetitem nm ⟨[("a", 0)], ["a"]⟩ "b" .scalar = none ∧
    evalSetitem nm ⟨[], []⟩ "x" (.vector 0) = some ⟨[("x", 0)], ["x"]⟩ := by decide

end DI.Eval.C01

/-
  Proofs/EvalC10.lean — property C10, "code ⇒ semantics ⇒ model" for the missing-value helpers of `Vector`
  (`na_value`, `na_dtype`, `is_na`, `drop_na`, `tolist`, `equal`; dataiter/vector.py).

  `Generated/CodeC10.lean` is the translation of the current source; `Proofs/TieC10.lean` reads the decision chains off it
  (by dtype class: `dtypeTruth`, `NaTest`).  `Model/PyEvalNa.lean` gives the returned terms a meaning on the STORED elements
  of a vector (`El`: NaN, NaT, None, any other value; Python's `==` is `pyEq`, under which NaN and NaT are not equal to
  themselves; every NumPy primitive has its obvious list specification there — the trusted part); the method calls
  `self.is_na()` / `self.na_value` inside `drop_na`, `tolist`, `equal` RUN the regenerated bodies (`M1`).  Here, for EVERY
  dtype class `c` and EVERY list of elements `xs` (any length, any pattern of missing values):

  * `is_na_eval`: the chain flags exactly the elements `isNaEl c` recognises (NaT for date / datetime / timedelta, NaN for
    float, the blank string for both string dtypes, `is None` otherwise); `is_na_model`: that is the model's `isNa` on the
    cells and — for elements the class can store — the model's `isNaElem` of `Model/Construct.lean`;
  * `na_value_eval` / `na_dtype_eval` (= `naOfClass` / the table of `Tie.C10.na_dtype_refines`); `is_na_of_na_value`: a vector
    of the class `na_dtype` flags `na_value` wherever it occurs — for every class; in the vector's OWN class that holds
    for every class but int (`is_na_of_na_value_own_class_partial`, `…_counterexample`: an int vector cannot hold NaN, and
    its `is_na` tests for None);
  * `drop_na_eval` (= the elements `is_na` does not flag, in order = the model's `vdropNa` of the cells),
    `drop_na_idempotent`, `drop_na_no_na_left`;
  * `tolist_eval` (None exactly at the flagged positions = the cells with missing ↦ None);
  * `equal_eval` (one class: same length ∧ same missing positions ∧ `==` at every pair of non-missing elements — the
    second comparison only evaluated when the masks agree), `equal_guard_eval` (different lengths or different kinds of
    missing value: `False`, NOT an error), `equal_model` (= the model's `vequal` of the cells when the non-missing elements
    of the receiver equal themselves: `Clean`), `equal_symmetric` (always), `equal_reflexive_iff`: `v.equal(v)` holds
    EXACTLY when `Clean c xs` — every vector whose elements fit a non-object class (`equal_reflexive_typed`), but not an
    object vector holding a float NaN or a NaT (`equal_reflexive_counterexample`: `is_na` tests `is None`, and
    `nan == nan` is false).  That is the known finding "mixed-object-with-typed-sentinel" of C10.

  Statements only; proofs cite `Lemmas/PyEvalNa.lean`.
-/
import Generated.CodeC10
import Model.PyEvalNa
import Lemmas.PyEvalNa
import Proofs.TieC10
import Proofs.C10

namespace DI.Eval.C10

open DI DI.Py DI.Gen DI.Construct DI.PyEvalNa DI.Tie.C10

/-! ### the dtype predicates, `na_value`, `na_dtype` -/

/-- the evaluator answers the dtype predicates of the decision chains exactly as `Tie.C10.dtypeTruth` (NumPy's table,
    `is_integer` true of a timedelta vector included), under any method table. -/
theorem predicates_agree (M : Methods) (c : DClass) (xs : List El) :
    (∀ p ∈ [".is_datetime", ".is_timedelta", ".is_float", ".is_integer", ".is_string", "._is_string_fixed"],
      truthOf M (selfEnv c xs) (.app p [.sym "self"]) = dtypeTruth c (.app p [.sym "self"])) := by
  intro p hp
  simp only [List.mem_cons, List.not_mem_nil, or_false] at hp
  rcases hp with rfl | rfl | rfl | rfl | rfl | rfl
  · exact is_datetime_truth M c xs
  · exact is_timedelta_truth M c xs
  · exact is_float_truth M c xs
  · exact is_integer_truth M c xs
  · exact is_string_truth M c xs
  · exact is_string_fixed_truth M c xs

/-- **na_value**: running the regenerated chain on a vector of class `c` returns the model's `naOfClass c` (as an
    element: NaN, NaT, the blank string, None). -/
theorem na_value_eval (c : DClass) (xs : List El) :
    M1 ".na_value" [.vec c xs] = some (.el (naEl c)) ∧
    naEl c = (match naOfClass c with | .nan => El.nan | .nat => El.nat | .emptyStr => blank | .pyNone => El.pyNone) :=
  ⟨na_value_run c xs, rfl⟩

/-- **na_dtype**: the same class for float / string / date / datetime / timedelta, float for int, object otherwise — the
    table `Tie.C10.na_dtype_refines` reads off the code. -/
theorem na_dtype_eval (c : DClass) (xs : List El) :
    M1 ".na_dtype" [.vec c xs] = some (.dtype (naDtype c)) ∧
    decodeDtype c (Vector_na_dtype (dtypeTruth c)) = some (naDtype c) := by
  refine ⟨na_dtype_run c xs, ?_⟩
  rw [na_dtype_refines]; cases c <;> rfl

/-! ### is_na -/

/-- **is_na**: the regenerated chain, run, flags exactly the elements the class's test recognises. -/
theorem is_na_eval (c : DClass) (xs : List El) :
    M1 ".is_na" [.vec c xs] = some (.mask (xs.map (isNaEl c))) := is_na_run c xs

/-- the test per class (what `Tie.C10.is_na_refines` decodes as `isnat` / `isnan` / `eqEmpty` / `isNone`). -/
theorem is_na_test (c : DClass) (e : El) :
    isNaEl c e = (match c with
      | .date | .datetime | .timedelta => e == El.nat
      | .float => e == El.nan
      | .str | .ustr => e == blank
      | _ => e == El.pyNone) := by
  cases c <;> rfl

/-- **is_na = the model**: the mask is the model's `isNa` of the cells (`cells`: the flagged elements are `none`), and
    for a vector whose elements its class can store it is `isNaElem` of `Model/Construct.lean` on every element. -/
theorem is_na_model (c : DClass) (xs : List El) :
    M1 ".is_na" [.vec c xs] = some (.mask ((cells c xs).map DI.isNa)) ∧
    ((∀ e ∈ xs, Storable c e = true) →
      M1 ".is_na" [.vec c xs] = some (.mask (xs.map (fun e => isNaElem c (toElem c e))))) := by
  refine ⟨by rw [is_na_run, cells_isNa], fun h => ?_⟩
  rw [is_na_run]
  congr 2
  exact List.map_congr_left (fun e he => isNaEl_eq_isNaElem c e (h e he))

/-- **is_na (na_value)**: a vector of the class `na_dtype` can store `na_value`, and `is_na` flags it wherever it
    occurs — for EVERY class `c`. -/
theorem is_na_of_na_value (c : DClass) (pre post : List El) :
    Storable (naDtype c) (naEl c) = true ∧
    ∃ m, M1 ".is_na" [.vec (naDtype c) (pre ++ naEl c :: post)] = some (.mask m) ∧ m[pre.length]? = some true := by
  refine ⟨storable_naDtype c, _, is_na_run _ _, ?_⟩
  simp [isNaEl_naDtype]

/-- in the vector's OWN class: `is_na` flags `na_value` for every class but int … -/
theorem is_na_of_na_value_own_class_partial (c : DClass) (hc : c ≠ .int) (pre post : List El) :
    ∃ m, M1 ".is_na" [.vec c (pre ++ naEl c :: post)] = some (.mask m) ∧ m[pre.length]? = some true := by
  refine ⟨_, is_na_run _ _, ?_⟩
  have : isNaEl c (naEl c) = true := by cases c <;> first | rfl | exact absurd rfl hc
  simp [this]

/-- … and not for int: its `na_value` is NaN, which an int vector cannot store (`na_dtype` is float), and its `is_na`
    tests `is None`.  (bool / bytes: `na_value` is None, not storable either, but the `is None` test would flag it.) -/
theorem is_na_of_na_value_own_class_counterexample :
    naEl .int = El.nan ∧ Storable .int (naEl .int) = false ∧
    M1 ".is_na" [.vec .int [naEl .int]] = some (.mask [false]) ∧
    Storable .bool (naEl .bool) = false ∧ Storable .bytes (naEl .bytes) = false := by decide

/-! ### drop_na -/

/-- **drop_na**: `self[~self.is_na()].copy()`, with `is_na` run from its own body, = the elements not flagged, in their
    order, in the same class. -/
theorem drop_na_eval (c : DClass) (xs : List El) :
    dropNaRun c xs = some (.vec c (dropNa c xs)) ∧ dropNa c xs = xs.filter (fun e => !isNaEl c e) :=
  ⟨drop_na_run c xs, rfl⟩

/-- **drop_na = the model's `vdropNa`** on the cells (so `C10.drop_na_exact` applies: as many as there are non-missing
    cells, a sublist, the identity without missing values). -/
theorem drop_na_model (c : DClass) (xs : List El) :
    dropNaRun c xs = some (.vec c (More.vdropNa (cells c xs))) ∧ (dropNa c xs).Sublist xs := by
  rw [drop_na_run, dropNa_eq_vdropNa]
  exact ⟨rfl, by rw [← dropNa_eq_vdropNa]; exact List.filter_sublist⟩

/-- **drop_na is idempotent**, and nothing missing is left. -/
theorem drop_na_idempotent (c : DClass) (xs : List El) :
    (dropNaRun c xs).bind (fun v => match v with | .vec c' ys => dropNaRun c' ys | _ => none) = dropNaRun c xs := by
  rw [drop_na_run]
  show dropNaRun c (dropNa c xs) = _
  rw [drop_na_run, dropNa_idem]

theorem drop_na_no_na_left (c : DClass) (xs : List El) :
    M1 ".is_na" [.vec c (dropNa c xs)] = some (.mask ((dropNa c xs).map (fun _ => false))) := by
  rw [is_na_run]
  congr 2
  exact List.map_congr_left (fun e he => dropNa_no_na c xs e he)

/-! ### tolist -/

/-- **tolist**: `np.where(self.is_na(), None, self).tolist()` = None exactly at the flagged positions, the element itself
    elsewhere = the cells with missing ↦ None. -/
theorem tolist_eval (c : DClass) (xs : List El) :
    tolistRun c xs = some (.list ((cells c xs).map pyOfCell)) ∧
    (cells c xs).map pyOfCell = xs.map (fun e => if isNaEl c e then El.pyNone else e) := by
  rw [tolist_run, tolist_eq_cells]
  exact ⟨rfl, rfl⟩

/-- in a vector whose elements its class can store, `tolist` shows None at a position IFF `is_na` flags it. -/
theorem tolist_none_iff_na (c : DClass) (xs : List El) (h : ∀ e ∈ xs, Storable c e = true) (i : Nat) (hi : i < xs.length) :
    ((cells c xs).map pyOfCell)[i]? = some El.pyNone ↔ (xs.map (isNaEl c))[i]? = some true := by
  rw [← tolist_eq_cells]
  simp only [List.getElem?_map, List.getElem?_eq_getElem hi, Option.map_some, Option.some.injEq]
  exact tolist_none_iff c xs[i] (h _ (List.getElem_mem hi))

/-! ### equal -/

/-- **equal, the guard**: a vector of another length, or of a class with another kind of missing value, is unequal —
    the answer is `False`, no exception. -/
theorem equal_guard_eval (c d : DClass) (xs ys : List El) (h : xs.length ≠ ys.length ∨ strNa c ≠ strNa d) :
    equalRun c xs d ys = some (.bool false) := equal_run_guard c d xs ys h

/-- **equal, two vectors of one class**: same length, same missing positions, and Python's `==` true at every pair of
    non-missing elements (compared in order; evaluated only when the masks agree). -/
theorem equal_eval (c : DClass) (xs ys : List El) :
    equalRun c xs c ys = some (.bool (decide (xs.length = ys.length) &&
      (xs.map (isNaEl c) == ys.map (isNaEl c)) && (List.zipWith pyEq (dropNa c xs) (dropNa c ys)).all id)) := by
  rw [equal_run, Bool.and_assoc]; rfl

/-- **equal = the model's `vequal`** of the cells (the relation `C10.equal_is_equivalence` is about), provided the
    non-missing elements of the receiver are equal to themselves (`Clean`). -/
theorem equal_model (c : DClass) (xs ys : List El) (h : Clean c xs) :
    equalRun c xs c ys = some (.bool (vequal (cells c xs) (cells c ys))) := by
  rw [equal_run, equalSpec_eq_vequal c xs ys h]

/-- **equal is symmetric** on vectors of one class — always. -/
theorem equal_symmetric (c : DClass) (xs ys : List El) : equalRun c xs c ys = equalRun c ys c xs := by
  rw [equal_run, equal_run, equalSpec_comm c xs ys]
  have : decide (xs.length = ys.length) = decide (ys.length = xs.length) := by
    by_cases h : xs.length = ys.length
    · simp [h]
    · have h' : ¬ ys.length = xs.length := fun e => h e.symm
      simp [h, h']
  rw [this]

/-- **equal is reflexive EXACTLY on the clean vectors**: `v.equal(v)` is `True` iff no element that `is_na` does not flag
    is a NaN or a NaT. -/
theorem equal_reflexive_iff (c : DClass) (xs : List El) :
    equalRun c xs c xs = some (.bool true) ↔ Clean c xs := by
  rw [equal_run]
  simp only [decide_true, Bool.true_and, Option.some.injEq, Val.bool.injEq]
  exact equalSpec_refl_iff c xs

/-- … which every vector of a non-object class is, whatever it stores (`Storable`): NaN is the missing value of a float
    vector, NaT of a date / datetime / timedelta vector, and no other class can store either. -/
theorem equal_reflexive_typed (c : DClass) (xs : List El) (hc : c ≠ .object) (h : ∀ e ∈ xs, Storable c e = true) :
    equalRun c xs c xs = some (.bool true) :=
  (equal_reflexive_iff c xs).mpr (clean_of_storable c xs hc h)

/-- … and an object vector holding a float NaN (or a NaT) is not: it is unequal to itself. -/
theorem equal_reflexive_counterexample :
    equalRun .object [.nan, .v (.i 1)] .object [.nan, .v (.i 1)] = some (.bool false) ∧
    equalRun .object [.nat] .object [.nat] = some (.bool false) ∧
    M1 ".is_na" [.vec .object [.nan, .v (.i 1)]] = some (.mask [false, false]) ∧
    (∀ e ∈ [El.nan, El.v (.i 1)], Storable .object e = true) := by decide

/-! ### non-vacuity -/

example : M1 ".is_na" [.vec .float [.nan, .v (.i 3)]] = some (.mask [true, false]) := by decide
example : M1 ".is_na" [.vec .str [blank, .v (.s [97])]] = some (.mask [true, false]) := by decide
example : M1 ".is_na" [.vec .datetime [.v (.i 7), .nat]] = some (.mask [false, true]) := by decide
example : M1 ".is_na" [.vec .object [.nan, .pyNone, .v (.o 0)]] = some (.mask [false, true, false]) := by decide
example : M1 ".na_value" [.vec .int [.v (.i 3)]] = some (.el .nan) ∧ M1 ".na_dtype" [.vec .int [.v (.i 3)]] = some (.dtype .float) := by
  decide
example : dropNaRun .str [blank, .v (.s [97]), blank] = some (.vec .str [.v (.s [97])]) := by decide
example : tolistRun .float [.nan, .v (.i 2)] = some (.list [.pyNone, .v (.i 2)]) := by decide
example : equalRun .float [.nan, .v (.i 2)] .float [.nan, .v (.i 2)] = some (.bool true) := by decide
example : equalRun .float [.nan, .v (.i 2)] .float [.v (.i 2), .nan] = some (.bool false) := by decide
example : equalRun .float [.nan, .v (.i 2)] .float [.nan] = some (.bool false) := by decide
example : equalRun .float [.v (.i 2)] .str [.v (.s [50])] = some (.bool false) := by decide
example : Clean .float [.nan, .v (.i 2)] ∧ ¬ Clean .object [.nan] := by
  constructor
  · exact clean_of_storable _ _ (by decide) (by decide)
  · intro h; exact (h .nan (by simp) rfl).1 rfl

end DI.Eval.C10

/-
  Proofs/EvalC19.lean — property C19, "code ⇒ semantics ⇒ model" for the element-wise lifting helpers of
  `dataiter/regex.py` and `dataiter/dt.py`.

  `Generated/CodeC19.lean` is the translation of the current source; `Proofs/TieC19.lean` shows every body equal to ONE
  normal form (`lifted …` / `liftRe …` for the seven regex functions, `pull …` for `_pull_int` / `_pull_str`);
  `Model/PyEvalLift.lean` gives those terms a meaning (vectors = lists of optional elements, the stdlib function a
  parameter `f`, `np.flatnonzero(~na)` = the positions of the non-missing elements in increasing order, `np.full_like` =
  a list of the default, `out[i] = v` = list update, `out[~na] = values` = masked assignment, `_prep` = the meaning of
  its own regenerated body).  Here, for ALL vectors (any length, any pattern of missing values) and ALL `f`:

  * `lift_eval` / `lifted_vector_eval` / `findall_eval` … `subn_eval`: the vector branch denotes the model's element-wise
    map `DtRe.regexMap f xs` (`f x` at every non-missing position, the default at every missing one);
    `lifted_scalar_eval` / `findall_scalar_eval` …: the scalar branch denotes `f string`;
  * `missing_iff` (+ `missing_iff_never_default`): position `i` of the result holds the default iff `xs[i]` is missing
    (`C19.regex_missing_iff_missing`, `C19.regex_no_match_reads_as_missing`);
  * `pull_str_eval`, `pull_int_eval`, `pull_effects`: the vector branch of `_pull_*` denotes `DtRe.pull f xs` (fill at
    the NaT positions, `function x` elsewhere), the all-missing input skips the call, `_pull_int` ends in an integer
    vector iff `DtRe.pullIntIsInteger xs`; `pull_int_scalar_eval` / `pull_str_scalar_eval`: the scalar branch is
    `DtRe.scalarCall`;
  * `length_preserved`, `pull_length_preserved`.

  Hypotheses: `string` (`x`) is bound to the vector; the other arguments of the regex functions are opaque
  (`OpaqueParams`); `truth` — the parameter of the generated code that answers its symbolic tests — agrees with the
  evaluator (`Agrees`; satisfiable: `truthOf`, see the examples).  Statements only; the proofs cite
  `Lemmas/PyEvalLift.lean`.
-/
import Generated.CodeC19
import Model.PyEvalLift
import Lemmas.PyEvalLift
import Proofs.TieC19
import Proofs.C19

namespace DI.Eval.C19

open DI DI.Py DI.Gen DI.PyEvalLift DI.DtRe DI.Tie.C19

variable {ε ρ : Type}

/-! ### the contexts -/

/-- a regex function: the stdlib call named `std` denotes `f`; `_prep` is the regenerated `_prep` (`regex_prep`, with
    its regenerated signature), evaluated by the same evaluator. -/
def reCtx (std : String) (f : ε → ρ) : Ctx ε ρ :=
  { std := std, f := f,
    calls := fun g => if g = "_prep" then some (runFn ⟨std, f, noCalls⟩ regex_prep_signature regex_prep) else none }

/-- `_prep` has the meaning proved by `Tie.C19.prep_code`: (array pre-filled with the default, mask of the missing
    strings). -/
theorem prep_meaning (std : String) (f : ε → ρ) : PrepOK (reCtx std f) := by
  refine ⟨_, rfl, fun xs d => ?_⟩
  show runOut ⟨std, f, noCalls⟩ [("string", .vec xs), ("dtype", d), ("default", .na)]
    (regex_prep (truthOf ⟨std, f, noCalls⟩ [("string", .vec xs), ("dtype", d), ("default", .na)])) = _
  rw [prep_code]
  exact prepBody_run _ xs d

/-- the `_pull_*` helpers on a vector call nothing but NumPy and `function`. -/
def pullCtx (f : ε → ρ) : Ctx ε ρ := ⟨"", f, noCalls⟩

/-- the scalar branch of a `_pull_*` helper calls the helper itself (`name`, regenerated body `body`) on a vector. -/
def pullSelfCtx (name : String) (sig : List String) (body : (Term → Bool) → Out) (f : ε → ρ) : Ctx ε ρ :=
  { std := "", f := f, calls := fun g => if g = name then some (runFn (pullCtx f) sig body) else none }

/-! ### regex: the vector branch -/

/-- **lift_eval**: for any context in which `_prep` has its meaning and any `call` that denotes the stdlib function,
    `liftRe dtype default outDtype call` on a vector `xs` evaluates to the model's element-wise map: `f x` at every
    non-missing position, the default (missing marker) at every missing one. -/
theorem lift_eval (C : Ctx String ρ) (hprep : PrepOK C) (dt dflt odt : String) (hd : dflt ∈ naSyms)
    (call : Term → Term) (env : Env String ρ) (xs : List (Option String))
    (hs : env.get? "string" = some (.vec xs)) (hcall : CallDenotes C (liftOutT dt dflt) env call) :
    runOut C env (liftRe (Term.sym dt) (Term.sym dflt) (Term.sym odt) call) = some (.out (regexMap C.f xs)) :=
  liftOut_run C dt dflt odt call xs hprep hd hs hcall

/-- the same for any element type (`regexMap` is the `String` instance of this map). -/
theorem lift_eval_generic (C : Ctx ε ρ) (hprep : PrepOK C) (dt dflt odt : String) (hd : dflt ∈ naSyms)
    (call : Term → Term) (env : Env ε ρ) (xs : List (Option ε))
    (hs : env.get? "string" = some (.vec xs)) (hcall : CallDenotes C (liftOutT dt dflt) env call) :
    runOut C env (liftRe (Term.sym dt) (Term.sym dflt) (Term.sym odt) call) = some (.out (xs.map (fun x => x.map C.f))) :=
  liftOut_run C dt dflt odt call xs hprep hd hs hcall

/-- the one shape of the seven functions (`Tie.C19.lifted`), vector branch: with `_prep` the regenerated `_prep` and
    the `re` call `std(pattern, [repl,] string[i], …, flags=flags)` denoting `f`, the result is `regexMap f xs`. -/
theorem lifted_vector_eval (std : String) (f : String → ρ) (hstd : primNames.contains std = false)
    (hstd' : std ≠ "_prep") (truth : Term → Bool) (extra : List Term) (hex : extra.all isParamArg = true)
    (dt dflt odt : String) (hd : dflt ∈ naSyms) (env : Env String ρ) (xs : List (Option String))
    (hs : env.get? "string" = some (.vec xs)) (hop : OpaqueParams env) (ht : Agrees (reCtx std f) env truth) :
    runOut (reCtx std f) env (lifted truth std extra (Term.sym dt) (Term.sym dflt) (Term.sym odt)) =
      some (.out (regexMap f xs)) := by
  have h1 : truth (Term.app "util.is_scalar" [Term.sym "string"]) = false := ht _ _ (eval_is_scalar_string_vec _ hs)
  unfold lifted
  rw [h1, if_neg (by decide)]
  exact liftOut_run (reCtx std f) dt dflt odt (reCallT std extra) xs (prep_meaning std f) hd hs
    (reCall_denotes (reCtx std f) hstd (if_neg hstd') _ hop extra hex)

/-- scalar branch: the `re` call on the string itself, `f string`. -/
theorem lifted_scalar_eval (std : String) (f : ε → ρ) (hstd : primNames.contains std = false)
    (hstd' : std ≠ "_prep") (truth : Term → Bool) (extra : List Term) (hex : extra.all isParamArg = true)
    (dtype default outDtype : Term) (env : Env ε ρ) (s : ε)
    (hs : env.get? "string" = some (.elem (some s))) (hop : OpaqueParams env) (ht : Agrees (reCtx std f) env truth) :
    runOut (reCtx std f) env (lifted truth std extra dtype default outDtype) = some (.res (some (f s))) := by
  have h1 : truth (Term.app "util.is_scalar" [Term.sym "string"]) = true := ht _ _ (eval_is_scalar_string_elem _ hs)
  unfold lifted
  rw [h1, if_pos rfl]
  exact scalar_run (reCtx std f) hstd (if_neg hstd') hop extra hex s hs

section seven
variable (f : String → ρ) (truth : Term → Bool) (env : Env String ρ)

/-- **findall**, vector: the regenerated body denotes `regexMap f xs`. -/
theorem findall_eval (xs : List (Option String)) (hs : env.get? "string" = some (.vec xs)) (hop : OpaqueParams env)
    (ht : Agrees (reCtx "re.findall" f) env truth) :
    runOut (reCtx "re.findall" f) env (regex_findall truth) = some (.out (regexMap f xs)) := by
  rw [findall_code]; exact lifted_vector_eval _ f (by decide) (by decide) truth _ (by decide) _ _ _ (by decide) env xs hs hop ht
theorem fullmatch_eval (xs : List (Option String)) (hs : env.get? "string" = some (.vec xs)) (hop : OpaqueParams env)
    (ht : Agrees (reCtx "re.fullmatch" f) env truth) :
    runOut (reCtx "re.fullmatch" f) env (regex_fullmatch truth) = some (.out (regexMap f xs)) := by
  rw [fullmatch_code]; exact lifted_vector_eval _ f (by decide) (by decide) truth _ (by decide) _ _ _ (by decide) env xs hs hop ht
theorem match_eval (xs : List (Option String)) (hs : env.get? "string" = some (.vec xs)) (hop : OpaqueParams env)
    (ht : Agrees (reCtx "re.match" f) env truth) :
    runOut (reCtx "re.match" f) env (regex_match truth) = some (.out (regexMap f xs)) := by
  rw [match_code]; exact lifted_vector_eval _ f (by decide) (by decide) truth _ (by decide) _ _ _ (by decide) env xs hs hop ht
theorem search_eval (xs : List (Option String)) (hs : env.get? "string" = some (.vec xs)) (hop : OpaqueParams env)
    (ht : Agrees (reCtx "re.search" f) env truth) :
    runOut (reCtx "re.search" f) env (regex_search truth) = some (.out (regexMap f xs)) := by
  rw [search_code]; exact lifted_vector_eval _ f (by decide) (by decide) truth _ (by decide) _ _ _ (by decide) env xs hs hop ht
theorem split_eval (xs : List (Option String)) (hs : env.get? "string" = some (.vec xs)) (hop : OpaqueParams env)
    (ht : Agrees (reCtx "re.split" f) env truth) :
    runOut (reCtx "re.split" f) env (regex_split truth) = some (.out (regexMap f xs)) := by
  rw [split_code]; exact lifted_vector_eval _ f (by decide) (by decide) truth _ (by decide) _ _ _ (by decide) env xs hs hop ht
/-- `sub`: the output has the string dtype, its default is the missing string. -/
theorem sub_eval (xs : List (Option String)) (hs : env.get? "string" = some (.vec xs)) (hop : OpaqueParams env)
    (ht : Agrees (reCtx "re.sub" f) env truth) :
    runOut (reCtx "re.sub" f) env (regex_sub truth) = some (.out (regexMap f xs)) := by
  rw [sub_code]; exact lifted_vector_eval _ f (by decide) (by decide) truth _ (by decide) _ _ _ (by decide) env xs hs hop ht
theorem subn_eval (xs : List (Option String)) (hs : env.get? "string" = some (.vec xs)) (hop : OpaqueParams env)
    (ht : Agrees (reCtx "re.subn" f) env truth) :
    runOut (reCtx "re.subn" f) env (regex_subn truth) = some (.out (regexMap f xs)) := by
  rw [subn_code]; exact lifted_vector_eval _ f (by decide) (by decide) truth _ (by decide) _ _ _ (by decide) env xs hs hop ht

/-- the seven scalar branches: `f string`. -/
theorem findall_scalar_eval (s : String) (hs : env.get? "string" = some (.elem (some s))) (hop : OpaqueParams env)
    (ht : Agrees (reCtx "re.findall" f) env truth) :
    runOut (reCtx "re.findall" f) env (regex_findall truth) = some (.res (some (f s))) := by
  rw [findall_code]; exact lifted_scalar_eval _ f (by decide) (by decide) truth _ (by decide) _ _ _ env s hs hop ht
theorem fullmatch_scalar_eval (s : String) (hs : env.get? "string" = some (.elem (some s))) (hop : OpaqueParams env)
    (ht : Agrees (reCtx "re.fullmatch" f) env truth) :
    runOut (reCtx "re.fullmatch" f) env (regex_fullmatch truth) = some (.res (some (f s))) := by
  rw [fullmatch_code]; exact lifted_scalar_eval _ f (by decide) (by decide) truth _ (by decide) _ _ _ env s hs hop ht
theorem match_scalar_eval (s : String) (hs : env.get? "string" = some (.elem (some s))) (hop : OpaqueParams env)
    (ht : Agrees (reCtx "re.match" f) env truth) :
    runOut (reCtx "re.match" f) env (regex_match truth) = some (.res (some (f s))) := by
  rw [match_code]; exact lifted_scalar_eval _ f (by decide) (by decide) truth _ (by decide) _ _ _ env s hs hop ht
theorem search_scalar_eval (s : String) (hs : env.get? "string" = some (.elem (some s))) (hop : OpaqueParams env)
    (ht : Agrees (reCtx "re.search" f) env truth) :
    runOut (reCtx "re.search" f) env (regex_search truth) = some (.res (some (f s))) := by
  rw [search_code]; exact lifted_scalar_eval _ f (by decide) (by decide) truth _ (by decide) _ _ _ env s hs hop ht
theorem split_scalar_eval (s : String) (hs : env.get? "string" = some (.elem (some s))) (hop : OpaqueParams env)
    (ht : Agrees (reCtx "re.split" f) env truth) :
    runOut (reCtx "re.split" f) env (regex_split truth) = some (.res (some (f s))) := by
  rw [split_code]; exact lifted_scalar_eval _ f (by decide) (by decide) truth _ (by decide) _ _ _ env s hs hop ht
theorem sub_scalar_eval (s : String) (hs : env.get? "string" = some (.elem (some s))) (hop : OpaqueParams env)
    (ht : Agrees (reCtx "re.sub" f) env truth) :
    runOut (reCtx "re.sub" f) env (regex_sub truth) = some (.res (some (f s))) := by
  rw [sub_code]; exact lifted_scalar_eval _ f (by decide) (by decide) truth _ (by decide) _ _ _ env s hs hop ht
theorem subn_scalar_eval (s : String) (hs : env.get? "string" = some (.elem (some s))) (hop : OpaqueParams env)
    (ht : Agrees (reCtx "re.subn" f) env truth) :
    runOut (reCtx "re.subn" f) env (regex_subn truth) = some (.res (some (f s))) := by
  rw [subn_code]; exact lifted_scalar_eval _ f (by decide) (by decide) truth _ (by decide) _ _ _ env s hs hop ht

end seven

/-! ### missing out ⇔ missing in, length -/

/-- **missing_iff**: the evaluation of `liftRe` yields an array `ys` of the length of `xs` whose position `i` holds the
    default (the missing marker) iff `xs[i]` is missing — the existing `C19.regex_missing_iff_missing`, now about the
    regenerated code. -/
theorem missing_iff (C : Ctx String ρ) (hprep : PrepOK C) (dt dflt odt : String) (hd : dflt ∈ naSyms)
    (call : Term → Term) (env : Env String ρ) (xs : List (Option String))
    (hs : env.get? "string" = some (.vec xs)) (hcall : CallDenotes C (liftOutT dt dflt) env call) :
    ∃ ys, runOut C env (liftRe (Term.sym dt) (Term.sym dflt) (Term.sym odt) call) = some (.out ys) ∧
      SameMissing ys xs :=
  ⟨_, lift_eval C hprep dt dflt odt hd call env xs hs hcall, DI.C19.regex_missing_iff_missing C.f xs⟩

/-- when the stdlib function itself can return the default (`None`: `match` / `fullmatch` / `search`), what Python
    sees at position `i` is the default iff `xs[i]` is missing or `f` returned it
    (`C19.regex_no_match_reads_as_missing`) — hence, for an `f` that never returns the default, iff `xs[i]` is missing. -/
theorem missing_iff_never_default {μ : Type} (C : Ctx String (Option μ)) (hprep : PrepOK C) (dt dflt odt : String)
    (hd : dflt ∈ naSyms) (call : Term → Term) (env : Env String (Option μ)) (xs : List (Option String))
    (hs : env.get? "string" = some (.vec xs)) (hcall : CallDenotes C (liftOutT dt dflt) env call)
    (hf : ∀ s, C.f s ≠ none) :
    ∃ ys, runOut C env (liftRe (Term.sym dt) (Term.sym dflt) (Term.sym odt) call) = some (.out ys) ∧
      ys.length = xs.length ∧
      ∀ (i : Nat) (h1 : i < ys.length) (h2 : i < xs.length), (ys[i]).join = none ↔ xs[i] = none := by
  refine ⟨_, lift_eval C hprep dt dflt odt hd call env xs hs hcall, by simp [regexMap], ?_⟩
  intro i h1 h2
  rw [DI.C19.regex_no_match_reads_as_missing C.f xs i h2]
  constructor
  · rintro (h | ⟨s, _, h⟩)
    · exact h
    · exact absurd h (hf s)
  · exact Or.inl

/-- **length_preserved**: the result of `liftRe` has the length of the input. -/
theorem length_preserved (C : Ctx ε ρ) (hprep : PrepOK C) (dt dflt odt : String) (hd : dflt ∈ naSyms)
    (call : Term → Term) (env : Env ε ρ) (xs : List (Option ε))
    (hs : env.get? "string" = some (.vec xs)) (hcall : CallDenotes C (liftOutT dt dflt) env call) :
    ∃ ys, runOut C env (liftRe (Term.sym dt) (Term.sym dflt) (Term.sym odt) call) = some (.out ys) ∧
      ys.length = xs.length :=
  ⟨_, lift_eval_generic C hprep dt dflt odt hd call env xs hs hcall, by simp⟩

/-! ### dt: `_pull_int` / `_pull_str` -/

/-- **pull_eval (`_pull_str`)**: on a vector, the regenerated `_pull_str` denotes the model's `DtRe.pull`: the fill
    (blank string) at the NaT positions, `function x` elsewhere, in place (`C19.dt_elementwise`). -/
theorem pull_str_eval (C : Ctx ε ρ) (truth : Term → Bool) (xs : List (Option ε)) (ht : Agrees C (pullEnv xs) truth) :
    runOut C (pullEnv xs) (dt_pull_str truth) = some (.out (DtRe.pull C.f xs)) := by
  have h1 : truth (Term.app "util.is_scalar" [Term.sym "x"]) = false := ht _ _ (eval_is_scalar_vec C xs)
  have h2 : truth (Term.app ".all" [Term.app "np.isnat" [Term.sym "x"]]) = _ := ht _ _ (eval_all_na C xs)
  rw [pull_str_code, pull_elementwise]
  unfold Tie.C19.pull
  dsimp only
  rw [h1, h2, if_neg (by decide)]
  exact pullVec_run_str C "dtypes.string.na_object" "object" xs (by decide)

/-- **pull_eval (`_pull_int`)**: the values are `DtRe.pull`; the final conversion gives an integer vector (which has no
    missing marker) exactly when `DtRe.pullIntIsInteger xs` — at least one element and nothing missing
    (`C19.extractor_result_type`) — and the float vector with NaN at the NaT positions otherwise. -/
theorem pull_int_eval (C : Ctx ε ρ) (truth : Term → Bool) (xs : List (Option ε)) (ht : Agrees C (pullEnv xs) truth) :
    runOut C (pullEnv xs) (dt_pull_int truth) =
      some (if pullIntIsInteger xs then .iout ((xs.filterMap id).map C.f) else .out (DtRe.pull C.f xs)) := by
  have h1 : truth (Term.app "util.is_scalar" [Term.sym "x"]) = false := ht _ _ (eval_is_scalar_vec C xs)
  have h2 : truth (Term.app ".all" [Term.app "np.isnat" [Term.sym "x"]]) = _ := ht _ _ (eval_all_na C xs)
  have h3 : truth (Term.app ".any" [Term.app "np.isnat" [Term.sym "x"]]) = _ := ht _ _ (eval_any_na C xs)
  rw [pull_int_code, pull_elementwise]
  unfold Tie.C19.pull
  dsimp only
  rw [h1, h2, h3, if_neg (by decide)]
  exact pullVec_run_int C "np.nan" "float" xs (by decide)

/-- **pull_eval**, positionally: both helpers give the fill (missing marker) at the NaT positions and `function x`
    elsewhere, in place; `_pull_int` converts to an integer vector iff there is at least one element and nothing is
    missing (the statement of `C19.extractor_result_type`, as in `Tie.C19.pull_int_code`). -/
theorem pull_eval (C : Ctx ε ρ) (truth : Term → Bool) (xs : List (Option ε)) (ht : Agrees C (pullEnv xs) truth) :
    runOut C (pullEnv xs) (dt_pull_str truth) = some (.out (xs.map (fun x => x.map C.f))) ∧
    runOut C (pullEnv xs) (dt_pull_int truth) =
      some (if !xs.isEmpty && xs.all (·.isSome) then .iout ((xs.filterMap id).map C.f)
            else .out (xs.map (fun x => x.map C.f))) := by
  rw [pull_str_eval C truth xs ht, pull_int_eval C truth xs ht, DI.C19.dt_elementwise,
    DI.C19.extractor_result_type]
  exact ⟨rfl, rfl⟩

/-- the statements executed: the two `assert`s, and — unless every element is missing (or there is none) — the ONE
    masked assignment of the vectorised call; the all-missing input skips the call and returns the filled array. -/
theorem pull_effects (C : Ctx ε ρ) (truth : Term → Bool) (xs : List (Option ε)) (ht : Agrees C (pullEnv xs) truth) :
    (dt_pull_int truth).effs =
        (if xs.all (·.isNone) then pullChecks else pullChecks ++ [pullStore "np.nan" "float"]) ∧
    (dt_pull_str truth).effs =
        (if xs.all (·.isNone) then pullChecks else pullChecks ++ [pullStore "dtypes.string.na_object" "object"]) ∧
    (xs.all (·.isNone) = true →
      runOut C (pullEnv xs) (dt_pull_int truth) = some (.out (xs.map (fun _ => none))) ∧
      runOut C (pullEnv xs) (dt_pull_str truth) = some (.out (xs.map (fun _ => none)))) := by
  have hall : (xs.map (·.isNone)).all id = xs.all (·.isNone) := by simp [List.all_map]
  have h1 : truth (Term.app "util.is_scalar" [Term.sym "x"]) = false := ht _ _ (eval_is_scalar_vec C xs)
  have h2 : truth (Term.app ".all" [Term.app "np.isnat" [Term.sym "x"]]) = _ := ht _ _ (eval_all_na C xs)
  refine ⟨?_, ?_, ?_⟩
  · rw [pull_int_code]; unfold Tie.C19.pull; dsimp only
    rw [h1, h2, if_neg (by decide), hall]
    cases xs.all (·.isNone) <;> rfl
  · rw [pull_str_code]; unfold Tie.C19.pull; dsimp only
    rw [h1, h2, if_neg (by decide), hall]
    cases xs.all (·.isNone) <;> rfl
  · intro h
    have h' : (xs.map (·.isNone)).all id = true := hall.trans h
    have hint : pullIntIsInteger xs = false := by unfold pullIntIsInteger; simp only [h', if_true]
    rw [pull_int_eval C truth xs ht, pull_str_eval C truth xs ht, hint, pull_elementwise,
      all_isNone_map C.f xs h']
    exact ⟨rfl, rfl⟩

/-- **length_preserved** for the `_pull_*` helpers: `_pull_str` and the float form of `_pull_int` have the length of
    the input; so has the integer form (nothing is missing then). -/
theorem pull_length_preserved (C : Ctx ε ρ) (truth : Term → Bool) (xs : List (Option ε))
    (ht : Agrees C (pullEnv xs) truth) :
    (∃ ys, runOut C (pullEnv xs) (dt_pull_str truth) = some (.out ys) ∧ ys.length = xs.length ∧ SameMissing ys xs) ∧
    ((∃ ys, runOut C (pullEnv xs) (dt_pull_int truth) = some (.out ys) ∧ ys.length = xs.length ∧ SameMissing ys xs) ∨
     (∃ zs, runOut C (pullEnv xs) (dt_pull_int truth) = some (.iout zs) ∧ zs.length = xs.length ∧
        xs.all (·.isSome) = true)) := by
  refine ⟨⟨_, pull_str_eval C truth xs ht, (DI.C19.pull_missing_iff_nat C.f xs).1,
    DI.C19.pull_missing_iff_nat C.f xs⟩, ?_⟩
  rw [pull_int_eval C truth xs ht]
  cases hI : pullIntIsInteger xs
  · exact Or.inl ⟨_, rfl, (DI.C19.pull_missing_iff_nat C.f xs).1, DI.C19.pull_missing_iff_nat C.f xs⟩
  · have hs : xs.all (·.isSome) = true := by
      rw [DI.C19.extractor_result_type] at hI
      simp only [Bool.and_eq_true] at hI
      exact hI.2
    exact Or.inr ⟨_, rfl, by rw [List.length_map, filterMap_id_length_of_all xs hs], hs⟩

/-! ### dt: the scalar branch -/

/-- the scalar branch of `_pull_int`: `_pull_int(Vector([x], np.datetime64), function)[0]`, the inner call being the
    regenerated `_pull_int` itself on the one-element vector: `function x` (`DtRe.scalarCall`,
    `C19.scalar_like_singleton`), the missing marker for NaT. -/
theorem pull_int_scalar_eval (f : ε → ρ) (truth : Term → Bool) (x : Option ε)
    (ht : Agrees (pullSelfCtx "_pull_int" dt_pull_int_signature dt_pull_int f) [("x", .elem x), ("function", .fn)] truth) :
    runOut (pullSelfCtx "_pull_int" dt_pull_int_signature dt_pull_int f) [("x", .elem x), ("function", .fn)]
      (dt_pull_int truth) = some (.res (scalarCall (DtRe.pull f) x)) := by
  rw [pull_int_code, DI.C19.scalar_like_singleton]
  unfold Tie.C19.pull
  dsimp only
  rw [ht _ _ (eval_is_scalar_x_elem _ x), if_pos rfl]
  have hr : runFn (pullCtx f) dt_pull_int_signature dt_pull_int [.vec [x], .fn] =
      some (if pullIntIsInteger [x] then .iout (([x].filterMap id).map f) else .out (DtRe.pull f [x])) :=
    pull_int_eval (pullCtx f) _ [x] (agrees_truthOf _ _)
  simp only [runOut, execBlock]
  rw [pull_scalar_eval _ "_pull_int" _ (by decide) rfl x _ hr]
  cases x <;> rfl

/-- the scalar branch of `_pull_str`. -/
theorem pull_str_scalar_eval (f : ε → ρ) (truth : Term → Bool) (x : Option ε)
    (ht : Agrees (pullSelfCtx "_pull_str" dt_pull_str_signature dt_pull_str f) [("x", .elem x), ("function", .fn)] truth) :
    runOut (pullSelfCtx "_pull_str" dt_pull_str_signature dt_pull_str f) [("x", .elem x), ("function", .fn)]
      (dt_pull_str truth) = some (.res (scalarCall (DtRe.pull f) x)) := by
  rw [pull_str_code, DI.C19.scalar_like_singleton]
  unfold Tie.C19.pull
  dsimp only
  rw [ht _ _ (eval_is_scalar_x_elem _ x), if_pos rfl]
  have hr : runFn (pullCtx f) dt_pull_str_signature dt_pull_str [.vec [x], .fn] = some (.out (DtRe.pull f [x])) :=
    pull_str_eval (pullCtx f) _ [x] (agrees_truthOf _ _)
  simp only [runOut, execBlock]
  rw [pull_scalar_eval _ "_pull_str" _ (by decide) rfl x _ hr]
  cases x <;> rfl

/-! ### non-vacuity: the hypotheses are satisfiable (`truthOf` agrees), a 4-element vector with two missing -/

theorem truthOf_agrees (C : Ctx ε ρ) (env : Env ε ρ) : Agrees C env (truthOf C env) := agrees_truthOf C env

def exEnv : Env String Nat := [("string", .vec [some "ab", none, some "c", none])]

example : OpaqueParams exEnv := opaqueParams_single _

/-- regex, object dtype (default None) and string dtype (`sub`: default the missing string). -/
example : runOut (reCtx "re.findall" String.length) exEnv (regex_findall (truthOf (reCtx "re.findall" String.length) exEnv)) =
    some (.out [some 2, none, some 1, none]) := by decide
example : runOut (reCtx "re.sub" String.length) exEnv (regex_sub (truthOf (reCtx "re.sub" String.length) exEnv)) =
    some (.out [some 2, none, some 1, none]) := by decide
example : runOut (reCtx "re.split" String.length) [("string", .elem (some "abc"))]
    (regex_split (truthOf (reCtx "re.split" String.length) [("string", .elem (some "abc"))])) = some (.res (some 3)) := by
  decide
/-- the semantics gives no meaning to a stdlib call on the missing marker: the loop never makes one. -/
example : runOut (reCtx "re.split" String.length) [("string", .elem none)]
    (regex_split (truthOf (reCtx "re.split" String.length) [("string", .elem none)])) = none := by decide

/-- dt: two missing (float result), none missing (integer result), all missing (the call is skipped), `_pull_str`,
    and the scalar branch. -/
example : runOut (pullCtx (· + 1)) (pullEnv [some 1, none, some 3, none])
    (dt_pull_int (truthOf (pullCtx (· + 1)) (pullEnv [some 1, none, some 3, none]))) =
    some (.out [some 2, none, some 4, none]) := by decide
example : runOut (pullCtx (· + 1)) (pullEnv [some 1, some 3])
    (dt_pull_int (truthOf (pullCtx (· + 1)) (pullEnv [some 1, some 3]))) = some (.iout [2, 4]) := by decide
example : runOut (pullCtx (· + 1)) (pullEnv [none, none])
    (dt_pull_int (truthOf (pullCtx (· + 1)) (pullEnv [none, none]))) = some (.out [none, none]) := by decide
example : runOut (pullCtx (· + 1)) (pullEnv [some 1, none, some 3, none])
    (dt_pull_str (truthOf (pullCtx (· + 1)) (pullEnv [some 1, none, some 3, none]))) =
    some (.out [some 2, none, some 4, none]) := by decide
example : runOut (pullSelfCtx "_pull_int" dt_pull_int_signature dt_pull_int (· + 1)) [("x", .elem (some 4)), ("function", .fn)]
    (dt_pull_int (truthOf (pullSelfCtx "_pull_int" dt_pull_int_signature dt_pull_int (· + 1))
      [("x", .elem (some 4)), ("function", .fn)])) = some (.res (some 5)) := by decide

end DI.Eval.C19

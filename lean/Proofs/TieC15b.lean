/-
  Proofs/TieC15b.lean — obligations over the ListOfDicts methods and helpers regenerated into `Generated/CodeC15.lean` after
  `TieC15` was written: `__setitem__`, `clear`, `drop_na`, `keys`, `map`, `pluck`, `sample`, `util.unique_keys`,
  `util.unique_types`, and the wrappers of `deco.listify` / `deco.tuplefy`.  (C15: ListOfDicts transformations match plain
  list-of-dict semantics.  Model: `Model/LoD.lean`; only `keys` has a model function, `LoD.allKeys`.)
-/
import Generated.CodeC15
import Model.LoD
import Proofs.TieC15

namespace DI.Tie.C15

open DI DI.Py DI.Gen

/-! ### `__setitem__`, `clear` -/

/-- **`data[i] = value` as written**: it IS `list.__setitem__` at the index given (integer or slice, with the list's own
    IndexError), the value wrapped as an `AttributeDict` exactly when it is not one already — a plain dict assigned into the
    list becomes attribute-accessible like every other item, an AttributeDict is stored AS IS (the same object, not a copy).
    The test is on the VALUE (not on the index), and negated once. -/
theorem setitem_code (truth : Term → Bool) :
    ListOfDicts_setitem truth =
      let v := if truth (Term.app "isinstance" [Term.sym "value", Term.sym "AttributeDict"]) then Term.sym "value"
               else Term.app "AttributeDict" [Term.sym "value"]
      Out.ret [] (Term.app "super().__setitem__" [Term.sym "index", v]) := by
  unfold ListOfDicts_setitem
  cases truth (Term.app "isinstance" [Term.sym "value", Term.sym "AttributeDict"]) <;> rfl

/-- the wrapping rule of `__setitem__` is the one of `append` and `insert` (`TieC15.append_code`, `insert_code`): one and the
    same expression decides what is stored. -/
theorem setitem_wraps_like_append (truth : Term → Bool) :
    ∃ wrap : Term → Term,
      ListOfDicts_setitem truth = Out.ret [] (Term.app "super().__setitem__" [Term.sym "index", wrap (Term.sym "value")]) ∧
      ListOfDicts_append truth = Out.fall [Term.app "yield-from" [Term.app "itertools.chain" [Term.sym "self", Term.app "list" [wrap (Term.sym "item")]]]] ∧
      ∀ x, wrap x = if truth (Term.app "isinstance" [x, Term.sym "AttributeDict"]) then x else Term.app "AttributeDict" [x] := by
  refine ⟨fun x => if truth (Term.app "isinstance" [x, Term.sym "AttributeDict"]) then x else Term.app "AttributeDict" [x], ?_, ?_, fun _ => rfl⟩
  · exact setitem_code truth
  · exact append_code truth

/-- `__setitem__` is NOT decorated: it writes into the receiver in place (it is the list's own item assignment) and neither
    builds a new list nor marks anything obsolete. -/
theorem setitem_signature :
    ListOfDicts_setitem_signature = ["self", "index", "value"] ∧ ListOfDicts_setitem_decorators = [] := ⟨rfl, rfl⟩

/-- **clear as written**: a NEW empty list through `_new([])` (so the receiver keeps its items: `clear` returns, it does not
    empty in place like `list.clear`), no effect. -/
theorem clear_code (truth : Term → Bool) :
    ListOfDicts_clear truth = Out.ret [] (Term.app "._new" [Term.sym "self", Term.app "list" []]) ∧
    ListOfDicts_clear_signature = ["self"] ∧ ListOfDicts_clear_decorators = [] := ⟨rfl, rfl, rfl⟩

/-! ### `drop_na` -/

/-- `item.get(x, None) is None`: the key is absent from the item, or present with the value None (NaN is NOT missing here:
    a list of dicts holds Python values, and only None counts). -/
def missingAt (x : Term) : Term := Term.app "Is" [Term.app ".get" [Term.sym "item", x, Term.sym "None"], Term.sym "None"]

/-- `any(item.get(x, None) is None for x in keys)`. -/
def anyMissing : Term :=
  Term.app "any" [Term.app "GeneratorExp" [missingAt (Term.sym "x"), Term.app "in" [Term.sym "x", Term.sym "keys", Term.app "if" []]]]

/-- **drop_na as written**: a generator over the receiver's items, in order, yielding THE ITEM ITSELF (same object, every
    key kept) exactly when NONE of the given keys is missing in it (`not any(...)`: one missing key drops the item); with no
    keys given `any(())` is false and every item is kept.  It is `TieC15.keepIf` of that test — the shape of `filter`. -/
theorem drop_na_code (truth : Term → Bool) :
    ListOfDicts_drop_na truth = Out.fall [keepIf (Term.app "not" [anyMissing])] := rfl

/-- the result is a new list built from the generator (`deco.new_from_generator`: `self._new(<the yielded items>)`); the
    keys are the variadic positional parameter (no named parameter of its own that a key name could collide with). -/
theorem drop_na_signature :
    ListOfDicts_drop_na_decorators = ["deco.new_from_generator"] ∧ ListOfDicts_drop_na_signature = ["self", "*keys"] := ⟨rfl, rfl⟩

/-- drop_na never writes into an item. -/
theorem drop_na_leaves_items (truth : Term → Bool) : (ListOfDicts_drop_na truth).writesItems = false := rfl

/-! ### `keys`, `util.unique_keys` -/

/-- `dict.fromkeys(src)`: the elements of `src` as the keys of a dict — each once, in FIRST-SEEN order (a dict keeps
    insertion order and a repeated key does not move). -/
def firstSeen (src : Term) : Term := Term.app "dict.fromkeys" [src]

/-- `itertools.chain(*xs)`: the keys of the 1st item (iterating a dict gives its keys), then of the 2nd, … -/
def chainAll (xs : Term) : Term := Term.app "itertools.chain" [Term.app "*" [xs]]

/-- **keys as written**: a generator over `dict.fromkeys(itertools.chain(*self))` — all keys of all items (not of the first
    item only), each once, in first-seen order over the items in list order. -/
theorem keys_code (truth : Term → Bool) :
    ListOfDicts_keys truth = Out.fall [Term.app "yield-from" [firstSeen (chainAll (Term.sym "self"))]] ∧
    ListOfDicts_keys_signature = ["self"] ∧ ListOfDicts_keys_decorators = [] := ⟨rfl, rfl, rfl⟩

/-- **unique_keys as written**: `list(dict.fromkeys(keys))` — the same first-seen primitive, as a list. -/
theorem unique_keys_code (truth : Term → Bool) :
    util_unique_keys truth = Out.ret [] (Term.app "list()" [firstSeen (Term.sym "keys")]) ∧
    util_unique_keys_signature = ["keys"] ∧ util_unique_keys_decorators = [] := ⟨rfl, rfl, rfl⟩

/-- `ListOfDicts.keys()` yields what `util.unique_keys(itertools.chain(*self))` lists (the expression `DataFrame.from_json`
    uses for its columns, `TieC14.df_from_json_code`): one `dict.fromkeys` over one `chain(*…)`, so the key order of a list
    of dicts and the column order of the frame made from the same records cannot differ. -/
theorem keys_is_unique_keys_of_chain (truth : Term → Bool) :
    ∃ src : Term → Term,
      ListOfDicts_keys truth = Out.fall [Term.app "yield-from" [src (chainAll (Term.sym "self"))]] ∧
      util_unique_keys truth = Out.ret [] (Term.app "list()" [src (Term.sym "keys")]) ∧ src = firstSeen := ⟨_, rfl, rfl, rfl⟩

/-- the meaning of `dict.fromkeys` on a sequence of keys: first occurrence kept, in order. -/
def fromkeys (ks : List String) : List String := ks.foldl (fun acc k => if acc.contains k then acc else acc ++ [k]) []

/-- **refinement**: the model's `LoD.allKeys` (about which `Proofs/C15.lean` / `C13.lean` speak) IS `dict.fromkeys` — first
    occurrence, in order — of the chain of the items' own key sequences, the reading of `keys_code` above. -/
theorem keys_refines (xs : List LoD.Item) :
    LoD.allKeys xs = fromkeys ((xs.map (fun it => it.kv.map (·.1))).flatten) := by
  unfold LoD.allKeys fromkeys
  rw [List.flatMap_def]

/-! ### `map`, `pluck` -/

/-- `list(map(function, self))`: the function applied to every item, in order, once. -/
def mapped : Term := Term.app "list()" [Term.app "map" [Term.sym "function", Term.sym "self"]]

/-- **map as written**: the results are coerced to the receiver's class (`self.__class__(new)`: a subclass stays a
    subclass) exactly when EVERY result is a dict (`all(isinstance(x, dict) …)`: one non-dict result gives the plain list
    of all results, unchanged); the plain list is returned as it is, not copied again.  (An empty receiver gives
    `all(()) = True`: an empty ListOfDicts, not `[]`.) -/
theorem map_code (truth : Term → Bool) :
    ListOfDicts_map truth =
      let allDicts := Term.app "all" [Term.app "GeneratorExp" [Term.app "isinstance" [Term.sym "x", Term.sym "dict"],
        Term.app "in" [Term.sym "x", mapped, Term.app "if" []]]]
      Out.ret [] (if truth allDicts then Term.app ".__class__" [Term.sym "self", mapped] else mapped) := rfl

theorem map_signature : ListOfDicts_map_signature = ["self", "function"] ∧ ListOfDicts_map_decorators = [] ∧
    ListOfDicts_map_call_order = ["map", "list", "isinstance", "all", "self.__class__"] := ⟨rfl, rfl, rfl⟩

/-- **pluck as written**: one value per item, in item order (`[x.get(key, default) for x in self]`, no filter: the result
    has the length of the list), the item's value where it has the key — also when that value is None — and `default`
    where it has not; the default's default is None. -/
theorem pluck_code (truth : Term → Bool) :
    ListOfDicts_pluck truth = Out.ret [] (Term.app "ListComp" [Term.app ".get" [Term.sym "x", Term.sym "key", Term.sym "default"],
      Term.app "in" [Term.sym "x", Term.sym "self", Term.app "if" []]]) ∧
    ListOfDicts_pluck_signature = ["self", "key", "default=None"] ∧ ListOfDicts_pluck_decorators = [] := ⟨rfl, rfl, rfl⟩

/-! ### `sample` -/

/-- `for i in sorted(random.sample(range(len(self)), k)): yield self[i]`: `k` DISTINCT positions (sampling without
    replacement from `range(len)`), visited in increasing order — the chosen items keep their relative order — each
    yielding the item itself. -/
def sampleLoop (k : Term) : Term :=
  Term.app "for" [Term.sym "i", Term.app "sorted" [Term.app "random.sample" [Term.app "range" [Term.app "len" [Term.sym "self"]], k]],
    Term.app "block" [Term.app "yield" [Term.app "getitem" [Term.sym "self", Term.sym "i"]]]]

/-- **sample as written**: the number drawn is `min(len(self), n)` — asking for more than there is gives everything instead
    of `random.sample`'s ValueError —, `n` being `dataiter.DEFAULT_PEEK_ITEMS` READ AT CALL TIME when it is None (the
    signature default is `None`, not the setting's value at import). -/
theorem sample_code (truth : Term → Bool) (nIsNone : Bool) :
    ListOfDicts_sample truth nIsNone =
      let n := if nIsNone then Term.sym "dataiter.DEFAULT_PEEK_ITEMS" else Term.sym "n"
      Out.fall [sampleLoop (Term.app "min" [Term.app "len" [Term.sym "self"], n])] := by
  unfold ListOfDicts_sample
  cases nIsNone <;> rfl

theorem sample_signature :
    ListOfDicts_sample_signature = ["self", "n=None"] ∧ ListOfDicts_sample_decorators = ["deco.new_from_generator"] := ⟨rfl, rfl⟩

/-- `sample`, `head` and `tail` share the default: `n=None`, resolved to the same setting inside the call. -/
theorem peek_defaults_agree :
    ListOfDicts_sample_signature = ListOfDicts_head_signature ∧ ListOfDicts_head_signature = ListOfDicts_tail_signature := ⟨rfl, rfl⟩

/-! ### `util.unique_types`, the `listify` / `tuplefy` wrappers -/

/-- **unique_types as written**: the SET of the classes (`x.__class__`) of the elements that are neither None nor a float
    NaN.  The conjunction is `x is not None and not (isinstance(x, float) and np.isnan(x))`, in that order: `np.isnan` is
    reached only for a float (it raises TypeError on a str), and None is excluded before anything is asked of it. -/
theorem unique_types_code (truth : Term → Bool) :
    (util_unique_types truth =
      let present := Term.app "And" [Term.app "IsNot" [Term.sym "x", Term.sym "None"],
        Term.app "not" [Term.app "And" [Term.app "isinstance" [Term.sym "x", Term.sym "float"], Term.app "np.isnan" [Term.sym "x"]]]]
      Out.ret [] (Term.app "set()" [Term.app "GeneratorExp" [Term.app ".__class__" [Term.sym "x"],
        Term.app "in" [Term.sym "x", Term.sym "seq", Term.app "if" [present]]]])) ∧
    util_unique_types_signature = ["seq"] ∧ util_unique_types_call_order = ["isinstance", "np.isnan", "set"] := ⟨rfl, rfl, rfl⟩

/-- `function(*args, **kwargs)`: the decorated function called once with exactly the wrapper's arguments. -/
def calledThrough : Term := Term.app "function" [Term.app "*" [Term.sym "args"], Term.app "=**" [Term.sym "kwargs"]]

/-- **the `listify` / `tuplefy` wrappers as written**: the decorated (generator) function is called ONCE with all positional
    and keyword arguments handed on, and its result is consumed into a `list` / a `tuple` — nothing else (no caching, no
    argument of the wrapper's own).  `functools.wraps` keeps the name and docstring. -/
theorem listify_tuplefy_code (truth : Term → Bool) :
    deco_listify_wrapper truth = Out.ret [] (Term.app "list()" [calledThrough]) ∧
    deco_tuplefy_wrapper truth = Out.ret [] (Term.app "tuple()" [calledThrough]) ∧
    deco_listify_wrapper_signature = ["*args", "**kwargs"] ∧ deco_tuplefy_wrapper_signature = ["*args", "**kwargs"] ∧
    deco_listify_wrapper_decorators = ["functools.wraps(function)"] ∧ deco_tuplefy_wrapper_decorators = ["functools.wraps(function)"] ∧
    deco_listify_wrapper_call_order = ["function", "list"] ∧ deco_tuplefy_wrapper_call_order = ["function", "tuple"] :=
  ⟨rfl, rfl, rfl, rfl, rfl, rfl, rfl, rfl⟩

end DI.Tie.C15

/-
  Proofs/C13.lean — property C13: conversions to ListOfDicts, JSON, pandas and Arrow are
  invertible.  Statements only; proofs cite Lemmas/Convert.lean (and Lemmas/Construct.lean for
  the dtype that `Vector(...)` infers when the records come back).
  pandas / pyarrow are external: their part of the property is observed by the check.
-/
import Model.Convert
import Lemmas.Convert
import Lemmas.Construct

namespace DI.C13

open DI.Read DI.Convert DI.Construct

/-- the intermediate object has one record per row and one field per column (same names, same order). -/
theorem one_record_per_row {β : Type} (cols : List (Col β)) (n : Nat) :
    (toRecords cols n).length = n ∧
    ∀ r ∈ toRecords cols n, r.length = cols.length ∧ r.map (·.1) = cols.map (·.1) := toRecords_shape cols n

/-- missing values cross the boundary as None exactly at the missing positions, values unchanged. -/
theorem nulls_cross_as_null {β : Type} (cols : List (Col β)) (n i : Nat) (hi : i < n) (c : Col β) (hc : c ∈ cols)
    (hnd : (cols.map (·.1)).Nodup) (hlen : c.2.length = n) :
    ((toRecords cols n)[i]?).map (fun r => lookup r c.1) = some (some (c.2[i]'(by omega))) :=
  toRecords_null cols n i hi c hc hnd hlen

/-- DataFrame -> ListOfDicts -> DataFrame: same names and order, same values, same missing positions. -/
theorem list_of_dicts_roundtrip {β : Type} (cols : List (Col β)) (n : Nat) (hn : 0 < n)
    (hnd : (cols.map (·.1)).Nodup) (hlen : ∀ c ∈ cols, c.2.length = n) :
    toColumns (toRecords cols n) = cols := lod_roundtrip cols n hn hnd hlen

/-- DataFrame -> JSON records -> DataFrame (from_json takes the first-seen union of keys). -/
theorem json_records_roundtrip {β : Type} (cols : List (Col β)) (n : Nat) (hn : 0 < n)
    (hnd : (cols.map (·.1)).Nodup) (hlen : ∀ c ∈ cols, c.2.length = n) :
    fromJsonRecords (toRecords cols n) = cols := json_roundtrip cols n hn hnd hlen

/-- dtype on the way back (the slow `Vector(list)` constructor used by to_data_frame / from_json):
    float and string columns with missing values, and bool / int columns, come back in their dtype. -/
theorem dtype_comes_back :
    construct [.float, .none, .float] = some { dclass := .float, na := [false, true, false] } ∧
    construct [.none, .str false] = some { dclass := .str, na := [true, false] } ∧
    construct [.bool, .bool] = some { dclass := .bool, na := [false, false] } ∧
    construct [.int, .int] = some { dclass := .int, na := [false, false] } := by decide

end DI.C13

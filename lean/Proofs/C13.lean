/-
  Proofs/C13.lean — property C13: conversions to ListOfDicts, JSON, pandas and Arrow are
  invertible.  Statements only; proofs cite Lemmas/Convert.lean (and Lemmas/Construct.lean for
  the dtype that `Vector(...)` infers when the records come back).
  pandas / pyarrow are external: their part of the property is observed by the check.
-/
import Model.Convert
import Lemmas.Convert
import Lemmas.Construct
import Lemmas.ConvertFields

namespace DI.C13

open DI.Read DI.Convert DI.Construct

/-- the intermediate object has one record per row and one field per column (same names, same order). -/
theorem one_record_per_row {β : Type} (cols : List (Col β)) (n : Nat) :
    (toRecords cols n).length = n ∧
    ∀ r ∈ toRecords cols n, r.length = cols.length ∧ r.map (·.1) = cols.map (·.1) := toRecords_shape cols n

/-- missing values cross the boundary as None exactly at the missing positions, values unchanged. -/
theorem nulls_cross_as_null {β : Type} (cols : List (Col β)) (n i : Nat) (hi : i < n) (c : Col β) (hc : c ∈ cols)
    (hnd : (cols.map (·.1)).Nodup) (hlen : c.2.length = n) :
    ((toRecords cols n)[i]?).map (fun r => lookup r c.1) = some (some (c.2[i]'(by omega))) :=
  toRecords_null cols n i hi c hc hnd hlen

/-- DataFrame -> ListOfDicts -> DataFrame: same names and order, same values, same missing positions. -/
theorem list_of_dicts_roundtrip {β : Type} (cols : List (Col β)) (n : Nat) (hn : 0 < n)
    (hnd : (cols.map (·.1)).Nodup) (hlen : ∀ c ∈ cols, c.2.length = n) :
    toColumns (toRecords cols n) = cols := lod_roundtrip cols n hn hnd hlen

/-- DataFrame -> JSON records -> DataFrame (from_json takes the first-seen union of keys). -/
theorem json_records_roundtrip {β : Type} (cols : List (Col β)) (n : Nat) (hn : 0 < n)
    (hnd : (cols.map (·.1)).Nodup) (hlen : ∀ c ∈ cols, c.2.length = n) :
    fromJsonRecords (toRecords cols n) = cols := json_roundtrip cols n hn hnd hlen

/-- dtype on the way back (the slow `Vector(list)` constructor used by to_data_frame / from_json):
    float and string columns with missing values, and bool / int columns, come back in their dtype. -/
theorem dtype_comes_back :
    construct [.float, .none, .float] = some { dclass := .float, na := [false, true, false] } ∧
    construct [.none, .str false] = some { dclass := .str, na := [true, false] } ∧
    construct [.bool, .bool] = some { dclass := .bool, na := [false, false] } ∧
    construct [.int, .int] = some { dclass := .int, na := [false, false] } := by decide

/-! ### round 3: field level, the empty frame, heterogeneous records, the dtype that comes back -/

/-- `to_records`, field by field: for every row `i < n` the record exists; its keys are exactly
    the column names in column order; the value under a column's name is that column's value in
    row `i` (`none` where missing); no other name is a key. -/
theorem to_records_fields {β : Type} (cols : List (Col β)) (n i : Nat) (hi : i < n)
    (hnd : (cols.map (·.1)).Nodup) :
    ∃ r, (toRecords cols n)[i]? = some r ∧
      r = cols.map (fun c => (c.1, (c.2[i]?).join)) ∧
      r.map (·.1) = cols.map (·.1) ∧
      (∀ c ∈ cols, lookup r c.1 = some ((c.2[i]?).join)) ∧
      (∀ k, k ∉ cols.map (·.1) → lookup r k = none) := toRecords_fields_full cols n i hi hnd

/-- there are exactly `n` records: none beyond the last row. -/
theorem to_records_no_extra {β : Type} (cols : List (Col β)) (n i : Nat) (hi : n ≤ i) :
    (toRecords cols n)[i]? = none := toRecords_out_of_range cols n i hi

/-- `from_records (to_records cols n) = cols` (names, ORDER, values, NA positions) holds exactly
    for a non-empty frame — or one that has no column to lose ... -/
theorem list_of_dicts_roundtrip_iff {β : Type} (cols : List (Col β)) (n : Nat)
    (hnd : (cols.map (·.1)).Nodup) (hlen : ∀ c ∈ cols, c.2.length = n) :
    toColumns (toRecords cols n) = cols ↔ (0 < n ∨ cols = []) := lod_roundtrip_iff cols n hnd hlen

theorem json_records_roundtrip_iff {β : Type} (cols : List (Col β)) (n : Nat)
    (hnd : (cols.map (·.1)).Nodup) (hlen : ∀ c ∈ cols, c.2.length = n) :
    fromJsonRecords (toRecords cols n) = cols ↔ (0 < n ∨ cols = []) := json_roundtrip_iff cols n hnd hlen

/-- ... and for `n = 0` what is lost is everything: there is no record, so no column (name or
    dtype) comes back on either route. -/
theorem empty_frame_loses_all_columns {β : Type} (cols : List (Col β)) :
    toRecords cols 0 = [] ∧ toColumns (toRecords cols 0) = [] ∧ fromJsonRecords (toRecords cols 0) = [] := by
  rw [toRecords_zero]
  exact ⟨rfl, rfl, fromJsonRecords_nil⟩

/-- JSON route, heterogeneous key sets: one column per key in order of first appearance (every key
    once; `k1` left of `k2` iff first seen earlier); one cell per record: `none` where the record
    lacks the key. -/
theorem from_json_heterogeneous {β : Type} (recs : List (Rec (Option β))) :
    (fromJsonRecords recs).map (·.1) = (allKeys recs).eraseDups ∧
    ((allKeys recs).eraseDups).Nodup ∧
    (∀ k, k ∈ (allKeys recs).eraseDups ↔ ∃ r ∈ recs, k ∈ r.map (·.1)) ∧
    (∀ k1 k2, (List.idxOf k1 (allKeys recs).eraseDups < List.idxOf k2 (allKeys recs).eraseDups) ↔
        (List.idxOf k1 (allKeys recs) < List.idxOf k2 (allKeys recs))) ∧
    (∀ c ∈ fromJsonRecords recs, c.2.length = recs.length ∧
      ∀ i (h : i < recs.length), c.2[i]? = some ((lookup recs[i] c.1).join) ∧
        (c.1 ∉ recs[i].map (·.1) → c.2[i]? = some none)) := fromJsonRecords_full recs

/-- `fill_missing_keys()` gives every item every key of the union (missing ones as `None`, after
    its own keys, in union order) and is invisible to `from_json` ... -/
theorem fill_missing_keys_spec {β : Type} (recs : List (Rec (Option β))) :
    (∀ r ∈ fillMissingKeys recs, ∀ k ∈ unionKeys recs, k ∈ r.map (·.1)) ∧
    (∀ i (h : i < recs.length), ((fillMissingKeys recs)[i]'(by simpa [fillMissingKeys] using h)).map (·.1) =
      recs[i].map (·.1) ++ (unionKeys recs).filter (fun k => !(recs[i].map (·.1)).contains k)) ∧
    (∀ k, pluck (fillMissingKeys recs) k = pluck recs k) ∧
    fromJsonRecords (fillMissingKeys recs) = fromJsonRecords recs :=
  ⟨fill_has_all recs, fill_keys recs, pluck_fill recs, fromJson_fill recs⟩

/-- ... and `from_json` = `fill_missing_keys()` then `to_data_frame()` (keys of the first item):
    same columns, same order, same cells. -/
theorem from_json_is_fill_then_to_data_frame {β : Type} (recs : List (Rec (Option β))) (hne : recs ≠ [])
    (hnd : ∀ r ∈ recs.head?, (r.map (·.1)).Nodup) :
    toColumns (fillMissingKeys recs) = fromJsonRecords recs := fromJson_eq_fill_toColumns recs hne hnd

/-- without `fill_missing_keys`, `to_data_frame` sees only the keys of the first item. -/
theorem to_data_frame_unfilled_counterexample :
    toColumns [[("a", some "1")], [("a", some "2"), ("b", some "3")]] = [("a", [some "1", some "2"])] ∧
    fromJsonRecords [[("a", some "1")], [("a", some "2"), ("b", some "3")]] =
      [("a", [some "1", some "2"]), ("b", [none, some "3"])] := by decide

/-- `dtype_comes_back`, for every column: if all non-missing values have JSON scalar kind `K`
    (bool / int / float / str) and at least one is present, `Vector(list)` gives class
    `backClass K anyMissing` — K itself, except int -> float and bool -> object when a value is
    missing — and flags exactly the missing positions (and `""` in a str column). -/
theorem dtype_comes_back_general (K : JKind) (xs : List Kind) (h : ∀ x ∈ xs, x.missing = true ∨ K.has x = true)
    (hne : ∃ x ∈ xs, x.missing = false) :
    construct xs = some { dclass := backClass K (xs.any (·.missing)),
                          na := xs.map (fun x => x.missing || isSentinel (backClass K (xs.any (·.missing))) x) } :=
  construct_oneKind K xs h hne

/-- exact: the column comes back with its own class K iff K is float or str (which hold their own
    missing value) or no value is missing. -/
theorem dtype_comes_back_iff (K : JKind) (xs : List Kind) (h : ∀ x ∈ xs, x.missing = true ∨ K.has x = true)
    (hne : ∃ x ∈ xs, x.missing = false) :
    (construct xs).map (·.dclass) = some K.dclass ↔ (K = .float ∨ K = .str ∨ xs.any (·.missing) = false) :=
  class_comes_back_iff K xs h hne

/-- the mask that comes back. -/
theorem na_mask_comes_back (K : JKind) (xs : List Kind) (h : ∀ x ∈ xs, x.missing = true ∨ K.has x = true)
    (hne : ∃ x ∈ xs, x.missing = false) :
    (construct xs).map (·.na) = some (xs.map (fun x => x.missing || (K == .str && x == Kind.str true))) :=
  mask_comes_back K xs h hne

/-- all values missing: the class is "unknown" = object (float for a column without rows), every
    position missing; so the original class is NOT recovered from an all-missing column. -/
theorem dtype_all_missing (xs : List Kind) (h : ∀ x ∈ xs, x.missing = true) :
    construct xs = some { dclass := if xs.isEmpty then DClass.float else DClass.object, na := xs.map (fun _ => true) } ∧
    ((construct xs).map (·.dclass) = some DClass.object ↔ xs ≠ []) ∧
    ((construct xs).map (·.dclass) = some DClass.float ↔ xs = []) :=
  ⟨construct_allMissing xs h, class_unknown_iff xs h⟩

/-- the two classes that do not survive a missing value. -/
theorem dtype_widening_counterexample :
    construct [.int, .none] = some { dclass := .float, na := [false, true] } ∧
    construct [.bool, .none] = some { dclass := .object, na := [false, true] } ∧
    construct [.none, .none] = some { dclass := .object, na := [true, true] } := by decide

example : ∃ r, (toRecords [("a", [some 1, none]), ("b", [none, some 2])] 2)[1]? = some r ∧
    r = [("a", none), ("b", some 2)] := ⟨_, by decide, rfl⟩
example : construct [.str false, .none, .str true] = some { dclass := .str, na := [false, true, true] } := by decide

end DI.C13

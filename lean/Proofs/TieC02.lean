/-
  Proofs/TieC02.lean — refinement obligations over `Generated/CodeC02.lean`, the translation of the
  *current* source of `DataFrame.head`, `DataFrame.tail` and `DataFrame._parse_rows_from_boolean`
  (regenerated on every run by harness/py2lean.py): the code computes exactly the row positions of
  the model functions `headIdx` / `tailIdx` that the C02 theorems are about, for every row count and
  every `n` (including the `n is None` default), and the Boolean-mask parser rejects exactly a mask of
  the wrong length.
-/
import Generated.CodeC02
import Model.Frame
import Lemmas.PyCore

namespace DI.Tie.C02

open DI DI.Py DI.Gen

/-- `DataFrame.head(n)` as written hands `self.slice` the positions `headIdx nrow n`. -/
theorem head_refines (truth : Term → Bool) (isNone : Bool) (dflt nrow n : Nat) :
    DataFrame_head truth isNone dflt nrow n =
      Out.ret [] (Term.app ".slice" [Term.sym "self",
        Term.rows ((headIdx nrow (if isNone then dflt else n)).map (fun (k : Nat) => (k : Int)))]) := by
  unfold DataFrame_head headIdx
  cases isNone <;> simp only [if_true, if_false, Bool.false_eq_true, pmin_cast, arange_zero]

/-- `DataFrame.tail(n)` as written hands `self.slice` the positions `tailIdx nrow n`. -/
theorem tail_refines (truth : Term → Bool) (isNone : Bool) (dflt nrow n : Nat) :
    DataFrame_tail truth isNone dflt nrow n =
      Out.ret [] (Term.app ".slice" [Term.sym "self",
        Term.rows ((tailIdx nrow (if isNone then dflt else n)).map (fun (k : Nat) => (k : Int)))]) := by
  have key : ∀ m : Nat, arange ((nrow : Int) - ((min nrow m : Nat) : Int)) (nrow : Int) =
      (tailIdx nrow m).map (fun (k : Nat) => (k : Int)) := by
    intro m
    have h := arange_nat (nrow - min nrow m) (min nrow m) (nrow : Int) (by omega)
    have e : ((nrow - min nrow m : Nat) : Int) = (nrow : Int) - ((min nrow m : Nat) : Int) := by omega
    rw [e] at h
    rw [h]
    simp [tailIdx, List.map_map, Function.comp_def]
  unfold DataFrame_tail
  cases isNone <;> simp only [if_true, if_false, Bool.false_eq_true, pmin_cast, key]

/-- a Boolean row mask is rejected exactly when its length differs from the row count; otherwise the
    positions are `np.nonzero(mask)[0]` (the model's `nonzero`). -/
theorem boolean_rows_guard (truth : Term → Bool) (len nrow : Nat) :
    (len ≠ nrow → DataFrame_parse_rows_from_boolean truth len nrow = Out.raise [] "ValueError") ∧
    (len = nrow → DataFrame_parse_rows_from_boolean truth len nrow =
      Out.ret [] (Term.app "Vector.fast"
        [Term.app "getitem" [Term.app "np.nonzero" [Term.app "Vector.fast" [Term.sym "rows", Term.sym "bool"]],
                             Term.int 0], Term.sym "int"])) := by
  unfold DataFrame_parse_rows_from_boolean
  constructor
  · intro h
    have : ((len : Int) ≠ (nrow : Int)) := by omega
    simp [this]
  · intro h
    subst h
    simp

example : headIdx 5 3 = [0, 1, 2] ∧ tailIdx 5 3 = [2, 3, 4] ∧ tailIdx 2 7 = [0, 1] := by decide

end DI.Tie.C02

/-
  Proofs/TieC02.lean — refinement obligations over `Generated/CodeC02.lean`, the translation of the
  *current* source of `DataFrame.head`, `DataFrame.tail` and `DataFrame._parse_rows_from_boolean`
  (regenerated on every run by harness/py2lean.py): the code computes exactly the row positions of
  the model functions `headIdx` / `tailIdx` that the C02 theorems are about, for every row count and
  every `n` (including the `n is None` default), and the Boolean-mask parser rejects exactly a mask of
  the wrong length.
-/
import Generated.CodeC02
import Model.Frame
import Lemmas.PyCore

namespace DI.Tie.C02

open DI DI.Py DI.Gen

/-- `DataFrame.head(n)` as written hands `self.slice` the positions `headIdx nrow n`. -/
theorem head_refines (truth : Term → Bool) (isNone : Bool) (dflt nrow n : Nat) :
    DataFrame_head truth isNone dflt nrow n =
      Out.ret [] (Term.app ".slice" [Term.sym "self",
        Term.rows ((headIdx nrow (if isNone then dflt else n)).map (fun (k : Nat) => (k : Int)))]) := by
  unfold DataFrame_head headIdx
  cases isNone <;> simp only [if_true, if_false, Bool.false_eq_true, pmin_cast, arange_zero]

/-- `DataFrame.tail(n)` as written hands `self.slice` the positions `tailIdx nrow n`. -/
theorem tail_refines (truth : Term → Bool) (isNone : Bool) (dflt nrow n : Nat) :
    DataFrame_tail truth isNone dflt nrow n =
      Out.ret [] (Term.app ".slice" [Term.sym "self",
        Term.rows ((tailIdx nrow (if isNone then dflt else n)).map (fun (k : Nat) => (k : Int)))]) := by
  have key : ∀ m : Nat, arange ((nrow : Int) - ((min nrow m : Nat) : Int)) (nrow : Int) =
      (tailIdx nrow m).map (fun (k : Nat) => (k : Int)) := by
    intro m
    have h := arange_nat (nrow - min nrow m) (min nrow m) (nrow : Int) (by omega)
    have e : ((nrow - min nrow m : Nat) : Int) = (nrow : Int) - ((min nrow m : Nat) : Int) := by omega
    rw [e] at h
    rw [h]
    simp [tailIdx, List.map_map, Function.comp_def]
  unfold DataFrame_tail
  cases isNone <;> simp only [if_true, if_false, Bool.false_eq_true, pmin_cast, key]

/-- a Boolean row mask is rejected exactly when its length differs from the row count; otherwise the
    positions are `np.nonzero(mask)[0]` (the model's `nonzero`). -/
theorem boolean_rows_guard (truth : Term → Bool) (len nrow : Nat) :
    (len ≠ nrow → DataFrame_parse_rows_from_boolean truth len nrow = Out.raise [] "ValueError") ∧
    (len = nrow → DataFrame_parse_rows_from_boolean truth len nrow =
      Out.ret [] (Term.app "Vector.fast"
        [Term.app "getitem" [Term.app "np.nonzero" [Term.app "Vector.fast" [Term.sym "rows", Term.sym "bool"]],
                             Term.int 0], Term.sym "int"])) := by
  unfold DataFrame_parse_rows_from_boolean
  constructor
  · intro h
    have : ((len : Int) ≠ (nrow : Int)) := by omega
    simp [this]
  · intro h
    subst h
    simp

/-! ### whole rows: the generator bodies of filter / filter_out / slice / slice_off -/

def parsedMask (m : Term) : Term := Term.app "._parse_rows_from_boolean" [Term.sym "self", m]

/-- the condition a `filter` / `filter_out` call denotes, as one Boolean vector expression: the mask itself, the
    callable applied to the WHOLE receiver, or the conjunction accumulated over the column=value pairs. -/
def conditionOf (truth : Term → Bool) (rowsNone : Bool) (folded : Term) : Term :=
  if !rowsNone then (if truth (Term.app "callable" [Term.sym "rows"]) then Term.app "rows" [Term.sym "self"] else Term.sym "rows")
  else if truth (Term.sym "colname_value_pairs") then folded else Term.sym "rows"

/-- the loop that folds the column=value pairs into one mask, starting from all-true. -/
def kvFold : Term :=
  Term.app "for" [Term.app "tuple" [Term.sym "colname", Term.sym "value"], Term.app ".items" [Term.sym "colname_value_pairs"],
    Term.app "block" [Term.app "assign" [Term.sym "rows", Term.app "BitAnd" [Term.sym "rows",
      Term.app "Eq" [Term.app "getitem" [Term.sym "self", Term.sym "colname"], Term.sym "value"]]]],
    Term.app "init" [Term.sym "rows", Term.app ".repeat" [Term.app "Vector.fast" [Term.app "list" [Term.sym "True"], Term.sym "bool"], Term.app ".nrow" [Term.sym "self"]]]]

/-- **filter returns whole rows**: as written, whatever form the condition takes, the method ends with
    `for colname, column in self.items(): yield colname, np.take(column, R)` for ONE positions expression
    `R = self._parse_rows_from_boolean(condition)` — every column is gathered with the same row positions (the model's
    `filterIdx`, `C02.whole_rows`); a callable condition is evaluated once, on the whole receiver. -/
theorem filter_whole_rows (truth : Term → Bool) (rowsNone : Bool) :
    (DataFrame_filter truth rowsNone).effs.getLast? =
      some (perColumn (fun c => Term.app "np.take"
        [c, parsedMask (conditionOf truth rowsNone (Term.app "value-after-loop" [Term.sym "rows", kvFold]))])) := by
  unfold DataFrame_filter conditionOf
  cases rowsNone <;> cases truth (Term.app "callable" [Term.sym "rows"]) <;> cases truth (Term.sym "colname_value_pairs") <;> rfl

/-- **filter_out drops exactly the complement**: the same positions expression, handed to `np.delete` for every column. -/
theorem filter_out_whole_rows (truth : Term → Bool) (rowsNone : Bool) :
    (DataFrame_filter_out truth rowsNone).effs.getLast? =
      some (perColumn (fun c => Term.app "np.delete"
        [c, parsedMask (conditionOf truth rowsNone (Term.app "value-after-loop" [Term.sym "rows", kvFold]))])) := by
  unfold DataFrame_filter_out conditionOf
  cases rowsNone <;> cases truth (Term.app "callable" [Term.sym "rows"]) <;> cases truth (Term.sym "colname_value_pairs") <;> rfl

/-- `slice` as written: the selected columns (by position, in the requested order), each indexed with the ONE integer
    positions expression and copied; all rows when `rows` is None. -/
theorem slice_whole_rows (truth : Term → Bool) (rowsNone colsNone : Bool) :
    DataFrame_slice truth rowsNone colsNone =
      let rows := Term.app "._parse_rows_from_integer" [Term.sym "self",
        if rowsNone then Term.app "np.arange" [Term.app ".nrow" [Term.sym "self"]] else Term.sym "rows"]
      let cols := Term.app "._parse_cols_from_integer" [Term.sym "self",
        if colsNone then Term.app "np.arange" [Term.app ".ncol" [Term.sym "self"]] else Term.sym "cols"]
      Out.fall [Term.app "for" [Term.sym "colname",
        Term.app "GeneratorExp" [Term.app "getitem" [Term.app ".colnames" [Term.sym "self"], Term.sym "x"],
          Term.app "in" [Term.sym "x", cols, Term.app "if" []]],
        Term.app "block" [Term.app "yield" [Term.app "tuple" [Term.sym "colname",
          Term.app ".copy" [Term.app "getitem" [Term.app "getitem" [Term.sym "self", Term.sym "colname"], rows]]]]]]] := rfl

/-- `slice_off` as written: every column whose position is not listed, with the ONE positions expression deleted; nothing
    is dropped when `rows` is None. -/
theorem slice_off_whole_rows (truth : Term → Bool) (rowsNone colsNone : Bool) :
    DataFrame_slice_off truth rowsNone colsNone =
      let rows := Term.app "._parse_rows_from_integer" [Term.sym "self", if rowsNone then Term.app "list" [] else Term.sym "rows"]
      let cols := Term.app "._parse_cols_from_integer" [Term.sym "self", if colsNone then Term.app "list" [] else Term.sym "cols"]
      Out.fall [Term.app "for" [Term.app "tuple" [Term.sym "i", Term.sym "colname"], Term.app "enumerate" [Term.app ".colnames" [Term.sym "self"]],
        Term.app "block" [Term.app "if" [Term.app "In" [Term.sym "i", cols], Term.app "block" [Term.sym "continue"], Term.app "block" []],
          Term.app "yield" [Term.app "tuple" [Term.sym "colname",
            Term.app "np.delete" [Term.app "getitem" [Term.sym "self", Term.sym "colname"], rows]]]]]] := rfl

example : headIdx 5 3 = [0, 1, 2] ∧ tailIdx 5 3 = [2, 3, 4] ∧ tailIdx 2 7 = [0, 1] := by decide

/-- signatures: `filter(rows=None, **colname_value_pairs)` takes column names as keyword names — no other named parameter
    may stand in their way; `slice` / `slice_off` take positions by keyword. -/
theorem row_subsetting_signatures :
    DataFrame_filter_signature = ["self", "rows=None", "**colname_value_pairs"] ∧
    DataFrame_filter_out_signature = ["self", "rows=None", "**colname_value_pairs"] ∧
    DataFrame_slice_signature = ["self", "rows=None", "cols=None"] ∧
    DataFrame_slice_off_signature = ["self", "rows=None", "cols=None"] ∧
    DataFrame_drop_na_signature = ["self", "*colnames"] ∧ DataFrame_unique_signature = ["self", "*colnames"] ∧
    DataFrame_head_signature = ["self", "n=None"] ∧ DataFrame_tail_signature = ["self", "n=None"] :=
  ⟨rfl, rfl, rfl, rfl, rfl, rfl, rfl, rfl⟩

end DI.Tie.C02

/-
  Proofs/TieC08b.lean — obligations over `Generated/CodeC08.lean` for the functions added to the regenerated file last:
  the inner `aggregate` of `generic_numba`, the element-wise missing-value test of the Numba path (`is_na_item_numba` and its
  `@overload`), and `util.parse_env_boolean`, which reads the switches `DATAITER_USE_NUMBA` / `DATAITER_USE_NUMBA_CACHE`.

  Property C08 says that Numba never changes a result.  What can differ between the two paths is (a) the kernels — for the
  generic pair they are the SAME expression of (run, nrequired, default) up to the keyword arguments the Numba one cannot
  take (`generic_numba_aggregate_code`; in the model `kernelNumba = kernel` for these helpers, `generic_numba_model`), and
  (b) the missing-value test behind `drop_na` — `numba_na_test_coherent`: for every dtype class `use_numba` lets through, the
  test the `@overload` picks recognises exactly the missing value `Vector.is_na` tests for (`Proofs/TieC10.lean`).
-/
import Generated.CodeC08
import Generated.CodeC10
import Model.Construct
import Model.Numba
import Lemmas.PyEvalAgg
import Proofs.TieC08
import Proofs.TieC10

namespace DI.Tie.C08

open DI.Py DI.Gen DI.Construct

/-! ### generic_numba.aggregate -/

/-- what both generic kernels compute for one run `xg`: `function(xg, extra…) if len(xg) >= nrequired else default`. -/
def genericValue (extra : List Term) : Term :=
  Term.app "ifexp" [Term.app "GtE" [Term.app "len" [Term.sym "xg"], Term.sym "nrequired"],
    Term.app "function" (Term.sym "xg" :: extra), Term.sym "default"]

/-- **generic_numba.aggregate** (the jitted closure `generic_numba` returns, translated as a function of its own): per run
    of the Numba scan, appended to `out` in run order, the statistic when the run has at least `nrequired` elements (counted
    after the drop) and `default` otherwise — the SAME guard, the same default as the pure-Python `generic.aggregate`; the
    one difference is that `function` is called on the run alone, WITHOUT `**kwargs` (`generic_numba` takes none: which is why
    std / var with `ddof != 0` never use it).  It is the body `generic_numba_code` shows. -/
theorem generic_numba_aggregate_code (truth : Term → Bool) :
    agg_generic_numba_aggregate truth = perGroupNumba (genericValue []) ∧
    agg_generic_py truth = Out.ret [] (Term.app "local-def" [Term.app "def" [Term.app "decorator" [Term.sym "deco.listify"], Term.sym "aggregate",
      Term.app "params" [Term.sym "x", Term.sym "group", Term.sym "drop_na", Term.sym "default", Term.sym "nrequired"],
      Term.app "block" [perGroupPy (genericValue [Term.app "=**" [Term.sym "kwargs"]])]]]) ∧
    agg_generic_numba truth = Out.ret [] (Term.app "local-def" [Term.app "def"
      [Term.app "decorator" [Term.app "njit" [Term.app "=cache" [Term.sym "dataiter.USE_NUMBA_CACHE"]]], Term.sym "aggregate",
       Term.app "params" [Term.sym "x", Term.sym "group", Term.sym "drop_na", Term.sym "default", Term.sym "nrequired"],
       Term.app "block" [Term.app "assign" [Term.sym "out", Term.app "list" []],
         Term.app "for" [Term.sym "xg", Term.app "yield_groups_numba" [Term.sym "x", Term.sym "group", Term.sym "drop_na"],
           Term.app "block" [Term.app ".append" [Term.sym "out", genericValue []]]],
         Term.app "return" [Term.sym "out"]]]]) := ⟨rfl, rfl, rfl⟩

/-- same five positional parameters as the Python closure (so `select(...)` can hand either of them the same call); jitted
    with the on-disk cache switch; `generic_numba` itself takes the function only and memoises the closure per function. -/
theorem generic_numba_aggregate_signature_facts :
    agg_generic_numba_aggregate_signature = ["x", "group", "drop_na", "default", "nrequired"] ∧
    agg_generic_numba_aggregate_decorators = ["njit(cache=dataiter.USE_NUMBA_CACHE)"] ∧
    agg_generic_numba_aggregate_call_order = ["yield_groups_numba", "len", "function", "out.append"] ∧
    agg_generic_numba_signature = ["function"] ∧ agg_generic_py_signature = ["function", "**kwargs"] ∧
    agg_generic_numba_decorators = ["functools.lru_cache(256)"] ∧ agg_generic_py_decorators = ["functools.lru_cache(256)"] :=
  ⟨rfl, rfl, rfl, rfl, rfl, rfl, rfl⟩

open DI.Agg DI.PyEvalAgg in
/-- in the model (`Model/Numba.lean`) the Numba kernel of every helper built on the generic pair — all, any, count, min,
    max, mean, median, std, var, sum (`genericInst`) — IS the Python kernel: only nth, mode and count_unique are written
    differently. -/
theorem generic_numba_model (h : Helper) (hg : (genericInst h).isSome = true) (xg : List Num) :
    kernelNumba h xg = kernel h xg := by
  cases h <;> first | rfl | (simp [genericInst] at hg)

/-! ### is_na_item_numba and its overload -/

/-- **is_na_item_numba**: the pure-Python stub raises `NotImplementedError` whatever the argument — it is only ever meant to
    be called from jitted code, where the `@overload` below replaces it. -/
theorem is_na_item_numba_code (truth : Term → Bool) :
    agg_is_na_item_numba truth = Out.raise [] "NotImplementedError" ∧
    agg_is_na_item_numba_signature = ["x"] ∧ agg_is_na_item_numba_decorators = [] := ⟨rfl, rfl, rfl⟩

def nbIs (ty : String) : Term := Term.app "isinstance" [Term.sym "x", Term.sym ty]
def nbLambda (body : Term) : Term := Term.app "lambda" [Term.app "params" [Term.sym "x"], body]

/-- **is_na_item_numba_overload** — which element test per Numba type, decided at compile time, first match wins:
    `types.Float` ⇒ `np.isnan(x)`; `types.NPDatetime` ⇒ `np.isnat(x)`; `types.UnicodeType` ⇒ `x == ''`; ANY other type
    (integers, Booleans, but also `types.NPTimedelta`) ⇒ the constant `False`: never missing. -/
theorem is_na_item_numba_overload_code (truth : Term → Bool) :
    agg_is_na_item_numba_overload truth = Out.ret [] (nbLambda
      (if truth (nbIs "types.Float") then Term.app "np.isnan" [Term.sym "x"]
       else if truth (nbIs "types.NPDatetime") then Term.app "np.isnat" [Term.sym "x"]
       else if truth (nbIs "types.UnicodeType") then Term.app "Eq" [Term.sym "x", Term.sym "''"]
       else Term.sym "False")) ∧
    agg_is_na_item_numba_overload_decorators = ["overload(is_na_item_numba)"] ∧
    agg_is_na_item_numba_overload_call_order = ["isinstance", "isinstance", "isinstance"] := by
  refine ⟨?_, rfl, rfl⟩
  unfold agg_is_na_item_numba_overload nbIs nbLambda
  cases truth (Term.app "isinstance" [Term.sym "x", Term.sym "types.Float"]) <;>
    cases truth (Term.app "isinstance" [Term.sym "x", Term.sym "types.NPDatetime"]) <;>
    cases truth (Term.app "isinstance" [Term.sym "x", Term.sym "types.UnicodeType"]) <;> rfl

/-- the Numba type of the elements of a column. -/
inductive NbType where
  | float | datetime | unicode | timedelta | other
  deriving Repr, DecidableEq

/-- Numba's answer to the three `isinstance` tests for an element of type `t` (the types are disjoint classes). -/
def nbTruth (t : NbType) : Term → Bool
  | .app "isinstance" [.sym "x", .sym "types.Float"] => t == .float
  | .app "isinstance" [.sym "x", .sym "types.NPDatetime"] => t == .datetime
  | .app "isinstance" [.sym "x", .sym "types.UnicodeType"] => t == .unicode
  | _ => false

/-- the Numba element type of a NumPy column of dtype class `c` (strings / bytes / objects never reach Numba). -/
def nbTypeOf : DClass → NbType
  | .float => .float
  | .date | .datetime => .datetime
  | .timedelta => .timedelta
  | _ => .other

/-- the element test a returned lambda is: one of `Vector.is_na`'s tests (`Tie.C10.NaTest`), or `none` = "never missing". -/
def decodeNbTest : Out → Option (Option Tie.C10.NaTest)
  | .ret [] (.app "lambda" [.app "params" [.sym "x"], .app "np.isnan" [.sym "x"]]) => some (some .isnan)
  | .ret [] (.app "lambda" [.app "params" [.sym "x"], .app "np.isnat" [.sym "x"]]) => some (some .isnat)
  | .ret [] (.app "lambda" [.app "params" [.sym "x"], .app "Eq" [.sym "x", .sym "''"]]) => some (some .eqEmpty)
  | .ret [] (.app "lambda" [.app "params" [.sym "x"], .sym "False"]) => some none
  | _ => none

/-- the test per Numba type, decoded. -/
theorem numba_na_test_per_type (t : NbType) :
    decodeNbTest (agg_is_na_item_numba_overload (nbTruth t)) = some (match t with
      | .float => some .isnan
      | .datetime => some .isnat
      | .unicode => some .eqEmpty
      | .timedelta | .other => none) := by
  cases t <;> rfl

/-- the classes `use_numba` lets through (`use_numba_eligibility`). -/
def eligibleClass (c : DClass) : Bool := c == .bool || c == .int || c == .float || c == .date || c == .datetime

/-- `Vector.is_na`'s test on a column of class `c`, with `[x is None for x in self]` read as "never" on a column that is not
    of object dtype (a NumPy Boolean / integer array holds no `None`). -/
def pythonNaTest (c : DClass) : Option (Option Tie.C10.NaTest) :=
  (Tie.C10.decodeTest (Vector_is_na (Tie.C10.dtypeTruth c))).map fun t =>
    match t with
    | .isNone => if c == .object then some .isNone else none
    | t => some t

/-- **the two paths drop the same elements**: for every dtype class that `use_numba` accepts — Boolean, integer, float,
    date, datetime — the element test the `@overload` picks for that column's Numba type is the test `Vector.is_na` makes on
    the column (NaN test for floats, NaT test for dates / datetimes, nothing is ever missing in Booleans and integers).  So
    `drop_na` removes the same elements with Numba on and off, which `Eval.C08.numba_scan_same` takes as its hypothesis. -/
theorem numba_na_test_coherent (c : DClass) (he : eligibleClass c = true) :
    decodeNbTest (agg_is_na_item_numba_overload (nbTruth (nbTypeOf c))) = pythonNaTest c := by
  cases c <;> first | rfl | (simp [eligibleClass] at he)

/-- … and the eligibility test is NEEDED for that: a timedelta column has `NaT` as its missing value (`Vector.is_na`:
    `np.isnat`), while the overload has no arm for `types.NPTimedelta` and answers "never missing" — the two paths would
    disagree on `drop_na`, were timedelta columns not kept off the Numba path by `use_numba` (`use_numba_eligibility`). -/
theorem timedelta_would_differ :
    decodeNbTest (agg_is_na_item_numba_overload (nbTruth (nbTypeOf .timedelta))) = some none ∧
    pythonNaTest .timedelta = some (some .isnat) ∧ eligibleClass .timedelta = false := ⟨rfl, rfl, rfl⟩

/-- the same classes as `use_numba_eligibility` states. -/
theorem eligibleClass_is_use_numba (c : DClass) :
    eligible (subTruth c) (aggregate_use_numba (subTruth c)) = some (eligibleClass c) := use_numba_eligibility c

/-! ### util.parse_env_boolean -/

/-- the words the environment switches understand, in the order of the dict literal. -/
def envWords : List (String × Bool) :=
  [("1", true), ("t", true), ("true", true), ("y", true), ("yes", true),
   ("0", false), ("f", false), ("false", false), ("n", false), ("no", false)]

def pyBool (b : Bool) : Term := Term.sym (if b then "True" else "False")
def quoted (s : String) : Term := Term.sym ("'" ++ s ++ "'")

/-- `os.environ[name].strip().lower()`: surrounding blanks and letter case do not matter. -/
def envKey : Term := Term.app ".lower" [Term.app ".strip" [Term.app "getitem" [Term.sym "os.environ", Term.sym "name"]]]

/-- **parse_env_boolean**: ONE subscript of a dict literal with the key `os.environ[name].strip().lower()` — no default, no
    `.get`: an unset variable (`os.environ[name]`) and an unknown word (the dict subscript) both raise `KeyError`, a
    `LookupError`; the dict is exactly `envWords`. -/
theorem parse_env_boolean_code (truth : Term → Bool) :
    util_parse_env_boolean truth = Out.ret [] (Term.app "getitem"
      [Term.app "dict" (envWords.map fun p => Term.app "pair" [quoted p.1, pyBool p.2]), envKey]) ∧
    util_parse_env_boolean_signature = ["name"] ∧
    util_parse_env_boolean_call_order = ["os.environ[name].strip", "os.environ[name].strip().lower"] := by
  exact ⟨rfl, rfl, rfl⟩

/-- the value for a normalised word: `none` = `KeyError`. -/
def envValue (word : String) : Option Bool := envWords.lookup word

private theorem lookup_iff (l : List (String × Bool)) (hn : (l.map (·.1)).Nodup) (s : String) (b : Bool) :
    l.lookup s = some b ↔ (s, b) ∈ l := by
  induction l with
  | nil => simp [List.lookup]
  | cons p l ih =>
    obtain ⟨k, v⟩ := p
    simp only [List.map_cons, List.nodup_cons] at hn
    by_cases hk : s = k
    · subst hk
      have hnot : ∀ b', (s, b') ∉ l := fun b' hm => hn.1 (List.mem_map.2 ⟨(s, b'), hm, rfl⟩)
      simp [List.lookup, hnot]
      exact eq_comm
    · have : (s == k) = false := by simpa using hk
      simp [List.lookup, this, ih hn.2, hk]

/-- **which strings switch Numba on / off**: after `strip().lower()`, exactly `1`, `t`, `true`, `y`, `yes` give `True` and
    exactly `0`, `f`, `false`, `n`, `no` give `False`; EVERY other string (`on`, `off`, `2`, the empty string, …) is a
    `KeyError`; no word is listed twice (a later duplicate would silently override an earlier one). -/
theorem env_words (word : String) :
    (envValue word = some true ↔ word ∈ ["1", "t", "true", "y", "yes"]) ∧
    (envValue word = some false ↔ word ∈ ["0", "f", "false", "n", "no"]) ∧
    (envValue word = none ↔ word ∉ ["1", "t", "true", "y", "yes", "0", "f", "false", "n", "no"]) ∧
    (envWords.map (·.1)).Nodup := by
  have hn : (envWords.map (·.1)).Nodup := by decide
  have ht := lookup_iff envWords hn word true
  have hf := lookup_iff envWords hn word false
  refine ⟨?_, ?_, ?_, hn⟩
  · rw [envValue, ht]; simp [envWords]
  · rw [envValue, hf]; simp [envWords]
  · rw [envValue]
    cases hl : envWords.lookup word with
    | none =>
      simp only [true_iff]
      intro hm
      have : (word, true) ∈ envWords ∨ (word, false) ∈ envWords := by
        simp only [List.mem_cons, List.mem_nil_iff, or_false] at hm
        rcases hm with h | h | h | h | h | h | h | h | h | h <;> subst h <;> simp [envWords]
      rcases this with h | h
      · rw [← ht, hl] at h; cases h
      · rw [← hf, hl] at h; cases h
    | some b =>
      simp only [reduceCtorEq, false_iff, Classical.not_not]
      have hm : (word, b) ∈ envWords := (lookup_iff envWords hn word b).1 hl
      have : word ∈ envWords.map (·.1) := List.mem_map.2 ⟨_, hm, rfl⟩
      simpa [envWords] using this

/-- non-vacuity of the table: `yes` ⇒ on, `no` ⇒ off, `on` / `off` ⇒ KeyError. -/
example : envValue "yes" = some true ∧ envValue "no" = some false ∧ envValue "on" = none ∧ envValue "off" = none := by
  decide

end DI.Tie.C08

/-
  Proofs/EvalC20c.lean — property C20, `Vector.to_string` and `ListOfDicts.to_string` EVALUATED.

  `Generated/CodeC20.lean: Vector_to_string` (with the local function `add_string_element` carried by its call sites) and
  `ListOfDicts_to_string` (regenerated from the current source) are given a meaning by `Model/PyEvalRenderVec.lean`: the
  already formatted element strings `self[:n].to_strings(pad=True)` (as a function of the slice bound `n`), the dtype
  label, the JSON text `self.head(m).to_json()` (as a function of `m`), `wcwidth` and the print width are inputs;
  `util.ulen` means what `Proofs/EvalC20.lean` proves of it.  Here: the evaluated text IS the model's rendering
  (`Render.addElem` / `Render.vecRows`, `Render.lodToString`) — so the theorems of `Proofs/C20.lean` about the vector rows
  (`vector_rows_cover`, `vector_marker_iff_cut`, `vector_to_string_structure`, `lod_to_string_structure`) speak about the code.
  Statements only; proofs cite `Lemmas/PyEvalRenderVec.lean`.
-/
import Generated.CodeC20
import Model.PyEvalRenderVec
import Lemmas.PyEvalRenderVec
import Proofs.C20
import Proofs.TieC20b

namespace DI.Eval.C20

open DI DI.Py DI.Gen DI.PyEvalRenderVec
open DI.PyEvalRender (Str pyJoin intStr)
open DI.PyEvalWidth (wcOf)

/-- the regenerated body of `Vector.to_string` is exactly the terms evaluated here: the loop
    `for string in self[:n].to_strings(pad=True): add_string_element(string, rows)` with `n = min(self.length, max_elements)`
    (`max_elements` = the module default on the branch `max_elements is None` ONLY), `add_string_element("...", rows)` on the
    branch `max_elements < self.length` only, `add_string_element(f"] {self.dtype_label}", rows)`, the strip of `rows[0]` on
    the branch `len(rows) == 1` only, and the value `"\n".join(" ".join(x) for x in rows)`. -/
theorem vector_to_string_code (truth : Term → Bool) (isNone : Bool) :
    Vector_to_string truth isNone =
      Out.ret ([loopT isNone] ++ (if truth (cutT isNone) then [dotsT] else []) ++ [closeT] ++
        (if truth lenTestT then [stripT] else [])) retT := Vector_to_string_eq truth isNone

/-- **one call `add_string_element(a, rows)`, evaluated from the `local-def` term = `Render.addElem`**: in every state whose
    object `rows` (not yet created = `[["["]]`) holds `rest.reverse ++ [last]` and for every string argument, the call leaves
    everything but the rows unchanged, and the rows are the model's: the string goes on the current row iff that row holds at
    most ONE cell (the opening bracket / the padding) or the row joined with it is STRICTLY narrower than the print width;
    otherwise a new row `[" ", string]` is started. -/
theorem add_string_element_eval (w : Char → Int) (len : Int) (label : Str) (fmt : Int → List Str) (maxEl : Option Int)
    (dEl dW : Int) (s : St) (rest : List (List Str)) (last : List Str) (v : Str) (a : Term)
    (hA : s.args = vecArgs len label fmt maxEl dEl dW) (hr : rowsOf s = (last :: rest).reverse)
    (ha : evalArg w a s = some (.str v, s)) :
    evalS w (callT a) s =
      some (Ctl.normal, { s with rows := some (Render.addElem (wcOf w) dW.toNat (last :: rest) v).reverse }) :=
  call_eval hA hr ha

/-- **the separately regenerated `add_string_element` is the same function** (`Generated/CodeC20.lean:
    Vector_to_string_add_string_element`, whose tests are symbolic, with the closure variable `print_width` a name): with its
    two tests answered BY THE EVALUATOR in a frame that binds `string`, `rows` and `print_width`, the reading
    `TieC20b.RowsFaithful` holds, so by `TieC20b.add_string_element_refines` its mutation is `Render.addElem` — the rows
    `add_string_element_eval` computes from the `local-def` term. -/
theorem add_string_element_standalone_agrees (w : Char → Int) (len : Int) (label : Str) (fmt : Int → List Str)
    (maxEl : Option Int) (dEl dW : Int) (c : St) (rest : List (List Str)) (last : List Str) (v : Str)
    (hA : c.args = vecArgs len label fmt maxEl dEl dW) (hr : c.rows = some (rest.reverse ++ [last]))
    (henv : c.env = [("rows", .rowsRef), ("string", .str v), ("print_width", .int dW)]) :
    DI.Tie.C20.RowsFaithful (wcOf w) dW.toNat (truthOf w c) last v ∧
    DI.Tie.C20.applyMutation last rest v (Vector_to_string_add_string_element (truthOf w c)) =
      some (Render.addElem (wcOf w) dW.toNat (last :: rest) v) := by
  have h := standalone_tests (w := w) hA hr henv
  have hf : DI.Tie.C20.RowsFaithful (wcOf w) dW.toNat (truthOf w c) last v := ⟨h.1, h.2⟩
  exact ⟨hf, DI.Tie.C20.add_string_element_refines (wcOf w) dW.toNat (truthOf w c) last rest v hf⟩

/-- **`Vector.to_string`, evaluated = the model**.  For EVERY input of formatted element strings (`fmt n` = what
    `self[:n].to_strings(pad=True)` returns for the slice bound `n`; any list, any paddings), every length, every
    `max_elements` (`None` ⇒ `dataiter.PRINT_MAX_ELEMENTS`; `0` is an ordinary value: the test is `is None`; negative values
    included), every print width (negative = nothing ever "fits") and every width function, the evaluated body returns the
    text of the model's rows `Render.vecRows`: `[`, the strings of `fmt (min(length, max_elements))` added greedily by
    `Render.addElem`, `...` iff `max_elements < length`, `] <dtype label>`; the cells of a SINGLE row stripped; cells joined
    by a space, rows by a newline. -/
theorem vector_to_string_eval (w : Char → Int) (len : Int) (label : Str) (fmt : Int → List Str) (maxEl : Option Int)
    (dEl dW : Int) :
    evalVecToString w len label fmt maxEl dEl dW =
      some (vecText (wcOf w) dW.toNat (fmt (pmin len (effEl maxEl dEl))) (decide (effEl maxEl dEl < len)) label) :=
  evalVecToString_eq w len label fmt maxEl dEl dW

/-- `max_elements=0` is NOT "use the default" (unlike `max_rows=0` of the frame renderer, which is `max_rows or default`):
    no element is shown, and the marker appears for every non-empty vector. -/
theorem vector_to_string_zero (w : Char → Int) (len : Int) (label : Str) (fmt : Int → List Str) (dEl dW : Int) :
    evalVecToString w len label fmt (some 0) dEl dW =
      some (vecText (wcOf w) dW.toNat (fmt (pmin len 0)) (decide (0 < len)) label) :=
  evalVecToString_eq w len label fmt (some 0) dEl dW

/-- **the rows cover the tokens** (`C20.vector_rows_cover` about the evaluated code): the text is `rowsText rows` for rows
    which, the wrapping undone, are `[`, the shown element strings in order, `...` iff `max_elements < length`, and
    `] dtype` — for every print width. -/
theorem vector_to_string_tokens (w : Char → Int) (len : Int) (label : Str) (fmt : Int → List Str) (maxEl : Option Int)
    (dEl dW : Int) :
    ∃ rows, evalVecToString w len label fmt maxEl dEl dW = some (rowsText rows) ∧
      Render.unrows rows = ['['] :: fmt (pmin len (effEl maxEl dEl)) ++
        (if effEl maxEl dEl < len then ["...".toList] else []) ++ [']' :: ' ' :: label] := by
  refine ⟨Render.vecRows (wcOf w) dW.toNat (fmt (pmin len (effEl maxEl dEl))) (decide (effEl maxEl dEl < len)) label,
    vector_to_string_eval w len label fmt maxEl dEl dW, ?_⟩
  rw [DI.C20.vector_rows_cover]
  by_cases h : effEl maxEl dEl < len <;> simp [Render.vecTokens, h]

/-- **the marker is there iff `max_elements < length`** (`C20.vector_marker_iff_cut`): the token after the last shown
    element is `...` exactly then — whatever the elements read. -/
theorem vector_to_string_marker_iff (len : Int) (label : Str) (fmt : Int → List Str) (maxEl : Option Int) (dEl : Int) :
    (Render.vecTokens (fmt (pmin len (effEl maxEl dEl))) (decide (effEl maxEl dEl < len)) label)[
        (fmt (pmin len (effEl maxEl dEl))).length]? = some "...".toList ↔ effEl maxEl dEl < len := by
  rw [DI.C20.vector_marker_iff_cut]
  simp

/-- **single-row output has no padding; wrapped output keeps it**: when the model's rows are ONE row, the text is that
    row's cells, each stripped, joined by single spaces (no newline); otherwise every row is printed as it is (the
    continuation rows start with the padding cell `" "`). -/
theorem vector_to_string_single_row (w : Char → Int) (len : Int) (label : Str) (fmt : Int → List Str) (maxEl : Option Int)
    (dEl dW : Int) :
    let rows := Render.vecRows (wcOf w) dW.toNat (fmt (pmin len (effEl maxEl dEl))) (decide (effEl maxEl dEl < len)) label
    (∀ r, rows = [r] → evalVecToString w len label fmt maxEl dEl dW = some (pyJoin [' '] (r.map pyStrip))) ∧
    (rows.length ≠ 1 → evalVecToString w len label fmt maxEl dEl dW = some (pyJoin ['\n'] (rows.map (pyJoin [' '])))) := by
  intro rows
  refine ⟨fun r hr => ?_, fun hne => ?_⟩
  · rw [vector_to_string_eval]
    show some (rowsText rows) = _
    rw [hr]
    simp [rowsText, pyJoin]
  · rw [vector_to_string_eval]
    show some (rowsText rows) = _
    simp only [rowsText, hne, if_false]

/-- **the library's input, a non-negative `max_elements`**: for a vector whose elements print as `xs` (`length = len(xs)`;
    `self[:n].to_strings(pad=True)` = the strings of `xs[:n]` right-aligned to the widest of them), the evaluated text is the
    text of `Render.vecToRows … max_elements` — the composition about which `C20.vector_to_string_structure` speaks:
    `n = min(length, max_elements)` elements are shown. -/
theorem vector_to_string_eval_lib (w : Char → Int) (xs : List Str) (label : Str) (maxEl : Option Int) (dEl dW : Int)
    (h0 : 0 ≤ effEl maxEl dEl) :
    evalVecToString w xs.length label (libFmt (wcOf w) xs) maxEl dEl dW =
      some (rowsText (Render.vecToRows (wcOf w) dW.toNat xs (effEl maxEl dEl).toNat label)) := by
  rw [vector_to_string_eval, vecText_lib (wcOf w) dW.toNat xs (effEl maxEl dEl) h0 label]

/-- … with `C20.vector_to_string_structure` cited: the tokens are `[`, exactly `min(len, max_elements)` elements — element
    `i` is string `i` right-aligned to the widest shown one —, `...` iff `max_elements < len`, `] dtype`. -/
theorem vector_to_string_structure_eval (w : Char → Int) (xs : List Str) (label : Str) (maxEl : Option Int) (dEl dW : Int)
    (h0 : 0 ≤ effEl maxEl dEl) :
    ∃ rows shown, evalVecToString w xs.length label (libFmt (wcOf w) xs) maxEl dEl dW = some (rowsText rows) ∧
      Render.unrows rows = ['['] :: shown ++ (if (effEl maxEl dEl).toNat < xs.length then ["...".toList] else []) ++
        [']' :: ' ' :: label] ∧
      shown.length = min xs.length (effEl maxEl dEl).toNat ∧
      (∀ (i : Nat) (h : i < min xs.length (effEl maxEl dEl).toNat),
        shown[i]? = some (Render.padTo (wcOf w) (Render.maxWidth (wcOf w) (xs.take (effEl maxEl dEl).toNat)) (xs[i]'(by omega)))) := by
  obtain ⟨shown, h1, h2, h3, _⟩ :=
    DI.C20.vector_to_string_structure (wc := wcOf w) dW.toNat xs (effEl maxEl dEl).toNat label
  exact ⟨_, shown, vector_to_string_eval_lib w xs label maxEl dEl dW h0, h1, h2, h3⟩

/-! ### ListOfDicts.to_string -/

/-- **`ListOfDicts.to_string`, evaluated**: the text `self.head(max_items).to_json()` (`max_items` = the module default iff
    the argument `is None`; 0 is an ordinary value) and, IFF `max_items < len(self)`, the footer
    `" ... {len(self)} items total"` appended to it ON THE SAME LINE (no newline: the closing `]` of the JSON text is
    followed by a space) — for every JSON input, every length, every `max_items` (negative included). -/
theorem lod_to_string_eval (w : Char → Int) (len : Int) (json : Int → Str) (maxItems : Option Int) (dItems : Int) :
    evalLodToString w len json maxItems dItems =
      some (if effEl maxItems dItems < len
        then json (effEl maxItems dItems) ++ " ... ".toList ++ intStr len ++ " items total".toList
        else json (effEl maxItems dItems)) := by
  rw [evalLodToString_eq]
  by_cases h : effEl maxItems dItems < len <;> simp [h, lodFooterI]

/-- **the library's input, a non-negative `max_items`** = the model `Render.lodRender` (`head(m)` is
    `self[:min(len(self), m)]`, `toJson` any rendering of a list of items). -/
theorem lod_to_string_eval_model {α : Type} (w : Char → Int) (toJson : List α → Str) (items : List α)
    (maxItems : Option Int) (dItems : Int) (h0 : 0 ≤ effEl maxItems dItems) :
    evalLodToString w items.length (fun m => toJson (pySliceTo items (pmin items.length m))) maxItems dItems =
      some (Render.lodRender toJson items (effEl maxItems dItems).toNat) := by
  rw [evalLodToString_eq, lodRender_eq toJson items (effEl maxItems dItems) h0]

/-- … with `C20.lod_to_string_structure` cited: the first `min(len, max_items)` items as JSON, plus the footer with the
    true total iff items were cut (a genuine iff: the footer is never empty). -/
theorem lod_to_string_structure_eval {α : Type} (w : Char → Int) (toJson : List α → Str) (items : List α)
    (maxItems : Option Int) (dItems : Int) (h0 : 0 ≤ effEl maxItems dItems) :
    ∃ r, evalLodToString w items.length (fun m => toJson (pySliceTo items (pmin items.length m))) maxItems dItems = some r ∧
      r = toJson (items.take (effEl maxItems dItems).toNat) ++
        (if (effEl maxItems dItems).toNat < items.length then Render.lodFooter items.length else []) ∧
      (items.take (effEl maxItems dItems).toNat).length = min items.length (effEl maxItems dItems).toNat ∧
      (r = toJson (items.take (effEl maxItems dItems).toNat) ↔ ¬ (effEl maxItems dItems).toNat < items.length) := by
  obtain ⟨h1, h2, _, h4⟩ := DI.C20.lod_to_string_structure toJson items (effEl maxItems dItems).toNat
  exact ⟨_, lod_to_string_eval_model w toJson items maxItems dItems h0, h1, h2, h4⟩

/-! ### non-vacuity; where the literal evaluation leaves the model -/

/-- the hypotheses of `add_string_element_eval` / `add_string_element_standalone_agrees` are satisfiable. -/
example : ∃ c : St, c.args = vecArgs 1 [] (fun _ => []) none 100 80 ∧ c.rows = some ([].reverse ++ [[['[']]]) ∧
    c.env = [("rows", .rowsRef), ("string", .str ['1']), ("print_width", .int 80)] :=
  ⟨⟨vecArgs 1 [] (fun _ => []) none 100 80, [("rows", .rowsRef), ("string", .str ['1']), ("print_width", .int 80)],
    some [[['[']]]⟩, rfl, rfl, rfl⟩

/-- the strings of `Vector([1, 22, 333])[:n].to_strings(pad=True)`. -/
def demoFmt : Int → List Str := libFmt (wcOf (fun _ => 1)) ["1".toList, "22".toList, "333".toList]

/-- everything on one row: the padding is stripped. -/
example : evalVecToString (fun _ => 1) 3 "int64".toList demoFmt none 100 80 = some "[ 1 22 333 ] int64".toList := by
  decide +kernel

/-- print width 10: wrapped, the padding is kept, the continuation rows start with the padding cell
    (library: `'[   1  22\n  333\n  ] int64'`). -/
example : evalVecToString (fun _ => 1) 3 "int64".toList demoFmt none 100 10 = some "[   1  22\n  333\n  ] int64".toList := by
  decide +kernel

/-- `max_elements=2`: two elements, the marker (library: `'[ 1 22 ... ] int64'`). -/
example : evalVecToString (fun _ => 1) 3 "int64".toList demoFmt (some 2) 100 80 = some "[ 1 22 ... ] int64".toList := by
  decide +kernel

/-- `max_elements=0` is not the default (library: `'[ ... ] int64'`). -/
example : evalVecToString (fun _ => 1) 3 "int64".toList demoFmt (some 0) 100 80 = some "[ ... ] int64".toList := by
  decide +kernel

/-- **a negative `max_elements` leaves the model** (`Render.vecToRows` takes a natural number).  The literal evaluation —
    and the library: `Vector([1, 22, 333]).to_string(max_elements=-1) == '[ 1 22 ... ] int64'`,
    `Vector([]).to_string(max_elements=-1) == '[ ... ] float64'` — shows the elements of `self[:min(length, -1)] = self[:-1]`
    (all but the last: TWO elements, not "`min(length, max_elements)` elements") and ALWAYS the marker, even for an empty
    vector, of which nothing is cut. -/
theorem vector_negative_max_elements_counterexample :
    evalVecToString (fun _ => 1) 3 "int64".toList demoFmt (some (-1)) 100 80 = some "[ 1 22 ... ] int64".toList ∧
    evalVecToString (fun _ => 1) 0 "float64".toList (libFmt (wcOf (fun _ => 1)) []) (some (-1)) 100 80 =
      some "[ ... ] float64".toList ∧
    (∀ n : Nat, rowsText (Render.vecToRows (wcOf (fun _ => 1)) 80 [] n "float64".toList) = "[ ] float64".toList) := by
  refine ⟨by decide +kernel, by decide +kernel, fun n => ?_⟩
  have h : Render.vecToRows (wcOf (fun _ => 1)) 80 [] n "float64".toList =
      Render.vecToRows (wcOf (fun _ => 1)) 80 [] 0 "float64".toList := by
    simp [Render.vecToRows]
  rw [h]
  decide +kernel

/-- three items, two shown: the footer follows the JSON text on the same line. -/
example : evalLodToString (fun _ => 1) 3 (fun m => if m = 2 then "[1, 2]".toList else "?".toList) (some 2) 10 =
    some "[1, 2] ... 3 items total".toList := by decide +kernel

/-- nothing cut: the JSON text alone (`max_items is None`: the default 10). -/
example : evalLodToString (fun _ => 1) 3 (fun m => if m = 10 then "[1, 2, 3]".toList else "?".toList) none 10 =
    some "[1, 2, 3]".toList := by decide +kernel

/-- **a negative `max_items` leaves the model** (`Render.lodRender` takes a natural number): `head(-1)` is `self[:-1]`, and the
    footer is printed for EVERY list — also for the empty one, of which nothing is cut (library:
    `ListOfDicts([]).to_string(max_items=-1) == '[] ... 0 items total'`; for three items the first two and
    `... 3 items total`), while the model prints the footer only when items are cut. -/
theorem lod_negative_max_items_counterexample :
    evalLodToString (fun _ => 1) 0 (fun m => (if pySliceTo ([] : List Nat) (pmin 0 m) = [] then "[]" else "?").toList)
      (some (-1)) 10 = some "[] ... 0 items total".toList ∧
    (∀ n : Nat, Render.lodRender (fun (l : List Nat) => (if l = [] then "[]" else "?").toList) [] n = "[]".toList) := by
  refine ⟨by decide +kernel, fun n => ?_⟩
  simp [Render.lodRender, Render.lodToString]

end DI.Eval.C20

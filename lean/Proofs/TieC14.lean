/-
  Proofs/TieC14.lean — obligations over `Generated/CodeC14.lean`, the translation of the *current* source of the readers that
  take a column / key restriction and a type mapping: `DataFrame.from_json`, `read_json`, `read_csv`, `read_parquet`,
  `ListOfDicts.from_json`, `read_json`, `read_csv`.  They say HOW the restriction is applied: by membership of the file's
  own names in the requested list (file order kept, nothing positional that is not recomputed from the names), the values
  read the same way with and without a restriction, every argument handed on.
-/
import Generated.CodeC14

namespace DI.Tie.C14

open DI.Py DI.Gen

/-- `[x for x in names if x in wanted]`: the file's names, in file order, that are requested. -/
def keep (names wanted : Term) : Term :=
  Term.app "ListComp" [Term.sym "x", Term.app "in" [Term.sym "x", names, Term.app "if" [Term.app "In" [Term.sym "x", wanted]]]]

/-- `{k: [x.get(k, None) for x in records] for k in keys}`: one column per key, one cell per record, None where absent —
    the SAME expression whether or not the keys were restricted. -/
def columnsOf (records keys : Term) : Term :=
  Term.app "DictComp" [Term.app "pair" [Term.sym "k", Term.app "ListComp" [Term.app ".get" [Term.sym "x", Term.sym "k", Term.sym "None"],
      Term.app "in" [Term.sym "x", records, Term.app "if" []]]],
    Term.app "in" [Term.sym "k", keys, Term.app "if" []]]

/-- `for name, dtype in dtypes.items(): data[name] = DataFrameColumn(data[name], dtype)`. -/
def castColumns (data : Term) : Term :=
  Term.app "for" [Term.app "tuple" [Term.sym "name", Term.sym "dtype"], Term.app ".items" [Term.sym "dtypes"], Term.app "block"
    [Term.app "store" [Term.app "getitem" [data, Term.sym "name"], Term.app "DataFrameColumn" [Term.app "getitem" [data, Term.sym "name"], Term.sym "dtype"]]]]

/-- **DataFrame.from_json as written**: the records are the parsed text (or the list given); the keys are the union of the
    records' keys in first-seen order; a restriction keeps those of them that are requested, in FILE order; the columns are
    built by one and the same expression in both cases; then the casts. -/
theorem df_from_json_code (truth : Term → Bool) :
    DataFrame_from_json truth =
      let records := if truth (Term.app "isinstance" [Term.sym "string", Term.sym "str"])
                     then Term.app "json.loads" [Term.sym "string", Term.app "=**" [Term.sym "kwargs"]] else Term.sym "string"
      if truth (Term.app "isinstance" [records, Term.sym "list"]) then
        let keys := Term.app "util.unique_keys" [Term.app "itertools.chain" [Term.app "*" [records]]]
        let build (ks : Term) := Out.ret [castColumns (columnsOf records ks)] (Term.app "cls" [Term.app "=**" [columnsOf records ks]])
        if truth (Term.sym "columns") then build (keep keys (Term.sym "columns")) else build keys
      else Out.raise [] "TypeError" := by
  unfold DataFrame_from_json
  dsimp only [keep, columnsOf, castColumns]
  cases truth (Term.app "isinstance" [Term.sym "string", Term.sym "str"]) <;>
    (split <;> (try split) <;> simp_all)

/-- read_json hands on everything: path through `xopen` in text mode with the encoding, then the text with `columns`,
    `dtypes` and all keyword arguments. -/
theorem df_read_json_code (truth : Term → Bool) :
    DataFrame_read_json truth =
      let f := Term.app "with" [Term.app "util.xopen" [Term.sym "path", Term.sym "'rt'", Term.app "=encoding" [Term.sym "encoding"]]]
      Out.ret [f] (Term.app ".from_json" [Term.sym "cls", Term.app ".read" [f], Term.app "=columns" [Term.sym "columns"],
        Term.app "=dtypes" [Term.sym "dtypes"], Term.app "=**" [Term.sym "kwargs"]]) := rfl

theorem lod_read_json_code (truth : Term → Bool) :
    ListOfDicts_read_json truth =
      let f := Term.app "with" [Term.app "util.xopen" [Term.sym "path", Term.sym "'rt'", Term.app "=encoding" [Term.sym "encoding"]]]
      Out.ret [f] (Term.app ".from_json" [Term.sym "cls", Term.app ".read" [f], Term.app "=keys" [Term.sym "keys"],
        Term.app "=types" [Term.sym "types"], Term.app "=**" [Term.sym "kwargs"]]) := rfl

/-- Parquet: the restriction is pyarrow's own (`columns or None`: an empty list means everything), the casts are
    `from_arrow`'s. -/
theorem df_read_parquet_code (truth : Term → Bool) :
    DataFrame_read_parquet truth =
      Out.ret [] (Term.app ".from_arrow" [Term.sym "cls",
        Term.app "pq.read_table" [Term.sym "path", Term.app "=columns" [Term.app "Or" [Term.sym "columns", Term.sym "None"]]],
        Term.app "=dtypes" [Term.sym "dtypes"]]) := rfl

/-- `for key, type in types.items(): for item in data: if key in item: item[key] = type(item[key])`. -/
def castItems (data : Term) : Term :=
  Term.app "for" [Term.app "tuple" [Term.sym "key", Term.sym "type"], Term.app ".items" [Term.sym "types"], Term.app "block"
    [Term.app "for" [Term.sym "item", data, Term.app "block"
      [Term.app "if" [Term.app "In" [Term.sym "key", Term.sym "item"],
         Term.app "block" [Term.app "store" [Term.app "getitem" [Term.sym "item", Term.sym "key"],
           Term.app "call" [Term.sym "type", Term.app "getitem" [Term.sym "item", Term.sym "key"]]]],
         Term.app "block" []]]]]]

/-- **ListOfDicts.from_json as written**: with a restriction, from EVERY item exactly the keys it has that are not requested
    are deleted (`set(item) - set(keys)`, computed per item, not once); the casts touch only items that have the key. -/
theorem lod_from_json_code (truth : Term → Bool) :
    ListOfDicts_from_json truth =
      let data := Term.app "json.loads" [Term.sym "string", Term.app "=**" [Term.sym "kwargs"]]
      if truth (Term.app "isinstance" [data, Term.sym "list"]) then
        if truth (Term.sym "keys") then
          Out.ret [Term.app "for" [Term.sym "item", data, Term.app "block"
                     [Term.app "for" [Term.sym "key", Term.app "Sub" [Term.app "set()" [Term.sym "item"], Term.app "set()" [Term.sym "keys"]],
                        Term.app "block" [Term.app "del" [Term.app "getitem" [Term.sym "item", Term.sym "key"]]]]]],
                   castItems data] (Term.app "cls" [data])
        else Out.ret [castItems data] (Term.app "cls" [data])
      else Out.raise [] "TypeError" := by
  unfold ListOfDicts_from_json
  dsimp only [castItems]
  split <;> (try split) <;> simp_all

/-- **ListOfDicts.read_csv as written**: the names are the header row or the generated names for the width of the first row;
    with a restriction, the cell positions to drop are those whose NAME is not requested (recomputed from the names of this
    file), deleted from every row from the right (so earlier positions stay valid), and the names are filtered by the same
    membership test; rows become dicts by `zip(names, row)`. -/
theorem lod_read_csv_code (truth : Term → Bool) :
    ListOfDicts_read_csv truth =
      let f := Term.app "with" [Term.app "util.xopen" [Term.sym "path", Term.sym "'rt'", Term.app "=encoding" [Term.sym "encoding"]]]
      let rows := Term.app "list()" [Term.app "csv.reader" [f, Term.app "=dialect" [Term.sym "'unix'"], Term.app "=delimiter" [Term.sym "sep"]]]
      if truth rows then
        let width := Term.app "len" [Term.app "getitem" [rows, Term.int 0]]
        let names := if truth (Term.sym "header") then Term.app ".pop" [rows, Term.int 0] else Term.app "util.generate_colnames" [width]
        let items (ns : Term) := Term.app "cls" [Term.app "GeneratorExp" [Term.app "dict()" [Term.app "zip" [ns, Term.sym "x"]],
          Term.app "in" [Term.sym "x", rows, Term.app "if" []]]]
        if truth (Term.sym "keys") then
          let drop := Term.app "ListComp" [Term.sym "i", Term.app "in" [Term.sym "i", Term.app "range" [width],
            Term.app "if" [Term.app "NotIn" [Term.app "getitem" [names, Term.sym "i"], Term.sym "keys"]]]]
          let data := items (keep names (Term.sym "keys"))
          Out.ret [f, Term.app "for" [Term.sym "row", rows, Term.app "block" [Term.app "for" [Term.sym "i", Term.app "reversed" [drop],
                     Term.app "block" [Term.app "del" [Term.app "getitem" [Term.sym "row", Term.sym "i"]]]]]], castItems data] data
        else Out.ret [f, castItems (items names)] (items names)
      else Out.ret [f] (Term.app "cls" [Term.app "list" []]) := by
  unfold ListOfDicts_read_csv
  dsimp only [castItems, keep]
  split <;> (try split) <;> simp_all

/-- **DataFrame.read_csv as written**: with a header the restriction is Arrow's `include_columns` (by name); without one
    nothing is restricted while reading, the generated names are attached for the width read, and then the requested ones
    are selected by membership in that generated list (file order); separator, encoding and `dtypes` are handed on. -/
theorem df_read_csv_code (truth : Term → Bool) :
    DataFrame_read_csv truth =
      let f := Term.app "with" [Term.app "util.xopen" [Term.sym "path", Term.sym "'rb'"]]
      let table := Term.app "csv.read_csv" [f,
        Term.app "=read_options" [Term.app "csv.ReadOptions" [Term.app "=encoding" [Term.sym "encoding"],
          Term.app "=autogenerate_column_names" [Term.app "not" [Term.sym "header"]]]],
        Term.app "=parse_options" [Term.app "csv.ParseOptions" [Term.app "=delimiter" [Term.sym "sep"], Term.app "=newlines_in_values" [Term.sym "True"]]],
        Term.app "=convert_options" [Term.app "csv.ConvertOptions" [Term.app "=include_columns"
          [if truth (Term.sym "header") then Term.sym "columns" else Term.app "list" []]]]]
      let done (t : Term) := Out.ret [f] (Term.app ".from_arrow" [Term.sym "cls", t, Term.app "=dtypes" [Term.sym "dtypes"]])
      if truth (Term.sym "header") then done table
      else
        let names := Term.app "util.generate_colnames" [Term.app "getitem" [Term.app ".shape" [table], Term.int 1]]
        let renamed := Term.app ".rename_columns" [table, names]
        if truth (Term.sym "columns") then done (Term.app ".select" [renamed, keep names (Term.sym "columns")]) else done renamed := by
  unfold DataFrame_read_csv
  dsimp only [keep]
  split <;> (try split) <;> simp_all

end DI.Tie.C14

/-
  Proofs/TieC18.lean — obligations over `Generated/CodeC18.lean`, the translation of the *current* source of `GeoJSON.read`
  and `GeoJSON.write` (dataiter/geojson.py): the hand-assembled writer (which text goes to the file, in which order, with
  which separators) and the reader's column / metadata logic — the shapes that `Model/GeoJSON.lean` (token stream, JSON
  grammar, `readColumns`, `readMetadata`) assumes.
-/
import Generated.CodeC18

namespace DI.Tie.C18

open DI.Py DI.Gen

/-! ### write -/

def file : Term := Term.app "with" [Term.app "util.xopen" [Term.sym "path", Term.sym "'wt'", Term.app "=encoding" [Term.sym "encoding"]]]
def width : Term := Term.app "Or" [Term.app ".pop" [Term.sym "kwargs", Term.sym "'indent'", Term.int 2], Term.int 0]
def indent (k : Int) : Term := Term.app "Mult" [Term.app "Mult" [Term.sym "' '", width], Term.int k]
def fmt (t : Term) : Term := Term.app "format" [t, Term.sym "", Term.int (-1)]
def emit (parts : List Term) : Term := Term.app ".write" [file, Term.app "fstring" parts]
def dumps (v : Term) : Term := Term.app "json.dumps" [v, Term.app "=**" [Term.sym "kwargs"]]

/-- every top-level member: its VALUE through `json.dumps(value, **kwargs)` as one blob (no re-indentation of the blob), its
    NAME through `json.dumps` too (escaped like any JSON string), written `<indent1><name>: <blob>,` + newline. -/
def writeMembers : Term :=
  Term.app "for" [Term.app "tuple" [Term.sym "key", Term.sym "value"], Term.app ".items" [Term.app ".metadata" [Term.sym "self"]], Term.app "block"
    [Term.app "assign" [Term.sym "blob", dumps (Term.sym "value")],
     Term.app "assign" [Term.sym "key", Term.app "json.dumps" [Term.sym "key", Term.app "=ensure_ascii" [Term.app "getitem" [Term.sym "kwargs", Term.sym "'ensure_ascii'"]]]],
     emit [fmt (indent 1), fmt (Term.sym "key"), Term.sym "': '", fmt (Term.sym "blob"), Term.sym "',\\n'"]]]

/-- every feature, in row order: the geometry popped out of the row's dict, `{"type": "Feature", "properties": <the rest of
    the row>, "geometry": <geometry>}` through ONE `json.dumps`, followed by a comma exactly when the feature's POSITION
    is not the last (`i < len(data) - 1`: decided by position, not by comparing values). -/
def writeFeatures (rows : Term) : Term :=
  Term.app "for" [Term.app "tuple" [Term.sym "i", Term.sym "item"], Term.app "enumerate" [rows], Term.app "block"
    [Term.app "assign" [Term.sym "geometry", Term.app ".pop" [Term.sym "item", Term.sym "'geometry'"]],
     Term.app "assign" [Term.sym "blob", Term.app "dict" [Term.app "pair" [Term.sym "'type'", Term.sym "'Feature'"],
        Term.app "pair" [Term.sym "'properties'", Term.sym "item"], Term.app "pair" [Term.sym "'geometry'", Term.sym "geometry"]]],
     Term.app "assign" [Term.sym "blob", dumps (Term.sym "blob")],
     Term.app "assign" [Term.sym "comma", Term.app "ifexp" [Term.app "Lt" [Term.sym "i", Term.app "Sub" [Term.app "len" [rows], Term.int 1]], Term.sym "','", Term.sym "''"]],
     emit [fmt (indent 2), fmt (Term.sym "blob"), fmt (Term.sym "comma"), Term.sym "'\\n'"]],
    Term.app "init" [Term.sym "blob", Term.app "value-after-loop" [Term.sym "blob", writeMembers]]]

/-- **write as written**: refuses a frame without a geometry column before touching the file; the rows are
    `self.to_list_of_dicts()` (every row, every column, None for missing: also when no feature has any property);
    the text is `{`, the members, `"features": [`, the features, `]`, `}` — in that order. -/
theorem write_code (truth : Term → Bool) :
    GeoJSON_write truth =
      let defaults := [Term.app ".setdefault" [Term.sym "kwargs", Term.sym "'default'", Term.sym "str"],
                       Term.app ".setdefault" [Term.sym "kwargs", Term.sym "'ensure_ascii'", Term.sym "False"]]
      if truth (Term.app "NotIn" [Term.sym "'geometry'", Term.sym "self"]) then Out.raise defaults "ValueError"
      else
        let rows := Term.app ".to_list_of_dicts" [Term.sym "self"]
        Out.fall (defaults ++ [Term.app "util.makedirs_for_file" [Term.sym "path"], file,
          Term.app ".write" [file, Term.sym "'{\\n'"], writeMembers,
          emit [fmt (indent 1), Term.sym "'\"features\": [\\n'"], writeFeatures rows,
          emit [fmt (indent 1), Term.sym "']\\n'"], Term.app ".write" [file, Term.sym "'}\\n'"]]) := by
  unfold GeoJSON_write
  dsimp only [writeMembers, writeFeatures, emit, fmt, indent, width, file, dumps]
  split <;> rfl

/-! ### read -/

def raw : Term := Term.app "AttributeDict" [Term.app "json.load"
  [Term.app "with" [Term.app "util.xopen" [Term.sym "path", Term.sym "'rt'", Term.app "=encoding" [Term.sym "encoding"]]], Term.app "=**" [Term.sym "kwargs"]]]

/-- pass 1: the property names of ALL features, in first-seen order (`setdefault(key, [])` for every key of every feature:
    no feature is skipped). -/
def collectKeys : Term :=
  Term.app "for" [Term.sym "feature", Term.app ".features" [raw], Term.app "block"
    [Term.app "for" [Term.sym "key", Term.app ".properties" [Term.sym "feature"], Term.app "block"
      [Term.app ".setdefault" [Term.sym "{}", Term.sym "key", Term.app "list" []]]]]]

/-- pass 2: for every feature, for every kept column, `properties.get(key, None)` appended: one cell per feature per column,
    None where the feature lacks the property. -/
def fillColumns (cols : Term) : Term :=
  Term.app "for" [Term.sym "feature", Term.app ".features" [raw], Term.app "block"
    [Term.app "for" [Term.sym "key", cols, Term.app "block"
      [Term.app "assign" [Term.sym "value", Term.app ".get" [Term.app ".properties" [Term.sym "feature"], Term.sym "key", Term.sym "None"]],
       Term.app ".append" [Term.app "getitem" [cols, Term.sym "key"], Term.sym "value"]],
      Term.app "init" [Term.sym "value", Term.sym "value"]]]]

/-- **read as written**: the whole file through `json.load` (all keyword arguments handed on), checked, the columns in
    first-seen property order — restricted by membership when `columns` is given —, then the geometry column LAST (so it
    survives any restriction), the casts, and everything that is not `features` kept as metadata. -/
theorem read_code (truth : Term → Bool) :
    GeoJSON_read truth =
      let cols := if truth (Term.sym "columns")
        then Term.app "DictComp" [Term.app "pair" [Term.sym "k", Term.sym "v"], Term.app "in" [Term.app "tuple" [Term.sym "k", Term.sym "v"],
               Term.app ".items" [Term.sym "{}"], Term.app "if" [Term.app "In" [Term.sym "k", Term.sym "columns"]]]]
        else Term.sym "{}"
      let frame := Term.app "cls" [Term.app "=**" [cols]]
      Out.ret [Term.app "with" [Term.app "util.xopen" [Term.sym "path", Term.sym "'rt'", Term.app "=encoding" [Term.sym "encoding"]]],
               Term.app "._check_raw_data" [Term.sym "cls", raw], collectKeys, fillColumns cols,
               Term.app "store" [Term.app "getitem" [cols, Term.sym "'geometry'"],
                 Term.app "ListComp" [Term.app ".geometry" [Term.sym "x"], Term.app "in" [Term.sym "x", Term.app ".features" [raw], Term.app "if" []]]],
               Term.app "for" [Term.app "tuple" [Term.sym "name", Term.sym "dtype"], Term.app ".items" [Term.sym "dtypes"], Term.app "block"
                 [Term.app "store" [Term.app "getitem" [cols, Term.sym "name"], Term.app "DataFrameColumn" [Term.app "getitem" [cols, Term.sym "name"], Term.sym "dtype"]]]],
               Term.app "del" [Term.app ".features" [raw]],
               Term.app "setattr" [frame, Term.sym "metadata", raw]] frame := by
  unfold GeoJSON_read
  dsimp only [collectKeys, fillColumns, raw]
  split <;> rfl

theorem signatures :
    GeoJSON_read_signature = ["cls", "path", "*", "encoding='utf-8'", "columns=[]", "dtypes={}", "**kwargs"] ∧
    GeoJSON_write_signature = ["self", "path", "*", "encoding='utf-8'", "**kwargs"] := ⟨rfl, rfl⟩

end DI.Tie.C18

/-
  Proofs/C05.lean — property C05: joins follow first-match relational semantics and never
  lose rows.  Statements only; proofs cite Lemmas/Group.lean.
-/
import Model.Group
import Lemmas.Group
import Lemmas.JoinFirst
import Lemmas.JoinFull

namespace DI.C05

open DI

/-- left_join returns every left row exactly once, in order. -/
theorem left_join_keeps_left (n : Nat) (lk : List (List Cell)) (m : Nat) (rk : List (List Cell)) :
    (leftJoinPairs n lk m rk).map (·.1) = (List.range n).map some := leftJoinPairs_left n lk m rk

/-- inner_join is exactly the matched subset of left_join, in the same order. -/
theorem inner_is_matched_left (n : Nat) (lk : List (List Cell)) (m : Nat) (rk : List (List Cell)) :
    innerJoinPairs n lk m rk = (leftJoinPairs n lk m rk).filter (fun p => p.2.isSome) :=
  innerJoinPairs_eq n lk m rk

/-- semi_join and anti_join together partition the left frame, each in original order. -/
theorem semi_anti_partition (n : Nat) (lk : List (List Cell)) (m : Nat) (rk : List (List Cell)) :
    (semiJoinIdx n lk m rk ++ antiJoinIdx n lk m rk).Perm (List.range n) ∧
    (semiJoinIdx n lk m rk).Pairwise (· < ·) ∧ (antiJoinIdx n lk m rk).Pairwise (· < ·) :=
  ⟨DI.semi_anti_partition n lk m rk, semiJoinIdx_sorted n lk m rk, antiJoinIdx_sorted n lk m rk⟩

/-- **first match**: the right row merged into left row `i` has the same key tuple, no missing key
    value, and is the first such row in the original right order. -/
theorem left_join_first_match (n : Nat) (lk : List (List Cell)) (m : Nat) (rk : List (List Cell))
    (i : Nat) (hi : i < n) (j : Nat) (h : (joinSrc n lk m rk)[i]! = some j) :
    j < m ∧ noNa rk j ∧ rowKey rk j = (rowsOf n lk)[i]! ∧
      ∀ j' < j, noNa rk j' → rowKey rk j' ≠ (rowsOf n lk)[i]! := joinSrc_some n lk m rk i hi j h

/-- a left row stays unmatched exactly when no right row without missing key value has its key
    tuple (in particular a missing key never matches). -/
theorem left_join_unmatched (n : Nat) (lk : List (List Cell)) (m : Nat) (rk : List (List Cell))
    (i : Nat) (hi : i < n) (h : (joinSrc n lk m rk)[i]! = none) :
    ∀ j < m, noNa rk j → rowKey rk j ≠ (rowsOf n lk)[i]! := joinSrc_none n lk m rk i hi h

/-- full_join is the left join plus the right rows no left row matched, reordered … -/
theorem full_join_is_left_plus_unmatched (n : Nat) (lk : List (List Cell)) (m : Nat) (rk : List (List Cell)) :
    (fullJoinPairs n lk m rk).Perm (leftJoinPairs n lk m rk ++ fullJoinExtra n lk m rk) :=
  fullJoinPairs_perm n lk m rk

/-- … so it keeps every left row and every right row, and never appends a right row that was merged. -/
theorem full_join_never_loses_rows (n : Nat) (lk : List (List Cell)) (m : Nat) (rk : List (List Cell)) :
    (∀ i < n, ∃ p ∈ fullJoinPairs n lk m rk, p.1 = some i) ∧
    (∀ j < m, ∃ p ∈ fullJoinPairs n lk m rk, p.2 = some j) ∧
    (∀ p ∈ fullJoinExtra n lk m rk, ∃ j, p.2 = some j ∧ j < m ∧ ∀ q ∈ leftJoinPairs n lk m rk, q.2 ≠ some j) :=
  ⟨fun i hi => fullJoin_keeps_left n lk m rk i hi, fun j hj => fullJoin_keeps_right n lk m rk j hj,
   fun p hp => fullJoinExtra_unmatched n lk m rk p hp⟩

example : leftJoinPairs 3 [[some (.i 1), none, some (.i 2)]] 3 [[some (.i 2), none, some (.i 2)]]
    = [(some 0, none), (some 1, none), (some 2, some 0)] := by decide

end DI.C05

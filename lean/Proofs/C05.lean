/-
  Proofs/C05.lean — property C05: joins follow first-match relational semantics and never
  lose rows.  Statements only; proofs cite Lemmas/Group.lean.
-/
import Model.Group
import Lemmas.Group

namespace DI.C05

open DI

/-- left_join returns every left row exactly once, in order. -/
theorem left_join_keeps_left (n : Nat) (lk : List (List Cell)) (m : Nat) (rk : List (List Cell)) :
    (leftJoinPairs n lk m rk).map (·.1) = (List.range n).map some := leftJoinPairs_left n lk m rk

/-- inner_join is exactly the matched subset of left_join, in the same order. -/
theorem inner_is_matched_left (n : Nat) (lk : List (List Cell)) (m : Nat) (rk : List (List Cell)) :
    innerJoinPairs n lk m rk = (leftJoinPairs n lk m rk).filter (fun p => p.2.isSome) :=
  innerJoinPairs_eq n lk m rk

/-- semi_join and anti_join together partition the left frame, each in original order. -/
theorem semi_anti_partition (n : Nat) (lk : List (List Cell)) (m : Nat) (rk : List (List Cell)) :
    (semiJoinIdx n lk m rk ++ antiJoinIdx n lk m rk).Perm (List.range n) ∧
    (semiJoinIdx n lk m rk).Pairwise (· < ·) ∧ (antiJoinIdx n lk m rk).Pairwise (· < ·) :=
  ⟨DI.semi_anti_partition n lk m rk, semiJoinIdx_sorted n lk m rk, antiJoinIdx_sorted n lk m rk⟩

example : leftJoinPairs 3 [[some (.i 1), none, some (.i 2)]] 3 [[some (.i 2), none, some (.i 2)]]
    = [(some 0, none), (some 1, none), (some 2, some 0)] := by decide

end DI.C05

/-
  Proofs/C05.lean — property C05: joins follow first-match relational semantics and never
  lose rows.  Statements only; proofs cite Lemmas/Group.lean, Lemmas/JoinFirst.lean,
  Lemmas/JoinFull.lean, Lemmas/JoinSpec.lean.
-/
import Model.Group
import Lemmas.Group
import Lemmas.JoinFirst
import Lemmas.JoinFull
import Lemmas.JoinSpec

namespace DI.C05

open DI

/-- left_join returns every left row exactly once, in order. -/
theorem left_join_keeps_left (n : Nat) (lk : List (List Cell)) (m : Nat) (rk : List (List Cell)) :
    (leftJoinPairs n lk m rk).map (·.1) = (List.range n).map some := leftJoinPairs_left n lk m rk

/-- inner_join is exactly the matched subset of left_join, in the same order. -/
theorem inner_is_matched_left (n : Nat) (lk : List (List Cell)) (m : Nat) (rk : List (List Cell)) :
    innerJoinPairs n lk m rk = (leftJoinPairs n lk m rk).filter (fun p => p.2.isSome) :=
  innerJoinPairs_eq n lk m rk

/-- semi_join and anti_join together partition the left frame, each in original order. -/
theorem semi_anti_partition (n : Nat) (lk : List (List Cell)) (m : Nat) (rk : List (List Cell)) :
    (semiJoinIdx n lk m rk ++ antiJoinIdx n lk m rk).Perm (List.range n) ∧
    (semiJoinIdx n lk m rk).Pairwise (· < ·) ∧ (antiJoinIdx n lk m rk).Pairwise (· < ·) :=
  ⟨DI.semi_anti_partition n lk m rk, semiJoinIdx_sorted n lk m rk, antiJoinIdx_sorted n lk m rk⟩

/-- **first match**: the right row merged into left row `i` has the same key tuple, no missing key
    value, and is the first such row in the original right order. -/
theorem left_join_first_match (n : Nat) (lk : List (List Cell)) (m : Nat) (rk : List (List Cell))
    (i : Nat) (hi : i < n) (j : Nat) (h : (joinSrc n lk m rk)[i]! = some j) :
    j < m ∧ noNa rk j ∧ rowKey rk j = (rowsOf n lk)[i]! ∧
      ∀ j' < j, noNa rk j' → rowKey rk j' ≠ (rowsOf n lk)[i]! := joinSrc_some n lk m rk i hi j h

/-- a left row stays unmatched exactly when no right row without missing key value has its key
    tuple (in particular a missing key never matches). -/
theorem left_join_unmatched (n : Nat) (lk : List (List Cell)) (m : Nat) (rk : List (List Cell))
    (i : Nat) (hi : i < n) (h : (joinSrc n lk m rk)[i]! = none) :
    ∀ j < m, noNa rk j → rowKey rk j ≠ (rowsOf n lk)[i]! := joinSrc_none n lk m rk i hi h

/-- full_join is the left join plus the right rows no left row matched, reordered … -/
theorem full_join_is_left_plus_unmatched (n : Nat) (lk : List (List Cell)) (m : Nat) (rk : List (List Cell)) :
    (fullJoinPairs n lk m rk).Perm (leftJoinPairs n lk m rk ++ fullJoinExtra n lk m rk) :=
  fullJoinPairs_perm n lk m rk

/-- … so it keeps every left row and every right row, and never appends a right row that was merged. -/
theorem full_join_never_loses_rows (n : Nat) (lk : List (List Cell)) (m : Nat) (rk : List (List Cell)) :
    (∀ i < n, ∃ p ∈ fullJoinPairs n lk m rk, p.1 = some i) ∧
    (∀ j < m, ∃ p ∈ fullJoinPairs n lk m rk, p.2 = some j) ∧
    (∀ p ∈ fullJoinExtra n lk m rk, ∃ j, p.2 = some j ∧ j < m ∧ ∀ q ∈ leftJoinPairs n lk m rk, q.2 ≠ some j) :=
  ⟨fun i hi => fullJoin_keeps_left n lk m rk i hi, fun j hj => fullJoin_keeps_right n lk m rk j hj,
   fun p hp => fullJoinExtra_unmatched n lk m rk p hp⟩

example : leftJoinPairs 3 [[some (.i 1), none, some (.i 2)]] 3 [[some (.i 2), none, some (.i 2)]]
    = [(some 0, none), (some 1, none), (some 2, some 0)] := by decide

/-! ### relational content of full_join / semi_join / anti_join (Lemmas/JoinSpec.lean) -/

/-- **full_join never pairs rows with unequal keys**: whenever the result contains a row merged from
    left row `i` and right row `j` — from the left join `ab` or from the appended reverse join `ba` —
    both ids are in range, the two key tuples are equal, and neither side has a missing key value.
    No hypothesis on the shape of the key columns is needed. -/
theorem full_join_never_pairs_unequal_keys (n : Nat) (lk : List (List Cell)) (m : Nat) (rk : List (List Cell))
    (i j : Nat) (h : (some i, some j) ∈ fullJoinPairs n lk m rk) :
    i < n ∧ j < m ∧ rowKey rk j = rowKey lk i ∧ noNa lk i ∧ noNa rk j :=
  fullJoin_keys_agree n lk m rk i j h

/-- `rowKey lk i` is the key tuple `(rowsOf n lk)[i]` the other C05 theorems talk about. -/
theorem rowKey_is_row (n : Nat) (lk : List (List Cell)) (i : Nat) (hi : i < n) :
    (rowsOf n lk)[i]! = rowKey lk i := rowsOf_get_rowKey n lk i hi

/-- **left rows once, in order**: the left-join rows `(i, match of i)`, `i = 0 … n-1`, occur in the
    result of full_join in this order … -/
theorem full_join_left_rows_in_order (n : Nat) (lk : List (List Cell)) (m : Nat) (rk : List (List Cell)) :
    (leftJoinPairs n lk m rk).Sublist (fullJoinPairs n lk m rk) :=
  leftJoinPairs_sublist_full n lk m rk

/-- … **with exact multiplicity**: the rows of full_join that are left-join rows are the left join
    itself (each exactly once), and the other rows are exactly the appended unmatched right rows. Any
    further occurrence of a left row `i` therefore stems from a right row the left join did not use. -/
theorem full_join_left_part_exact (n : Nat) (lk : List (List Cell)) (m : Nat) (rk : List (List Cell)) :
    (fullJoinPairs n lk m rk).filter (fun p => (leftJoinPairs n lk m rk).contains p) = leftJoinPairs n lk m rk ∧
    ((fullJoinPairs n lk m rk).filter (fun p => !(leftJoinPairs n lk m rk).contains p)).Perm
      (fullJoinExtra n lk m rk) :=
  ⟨fullJoinPairs_filter_left n lk m rk, fullJoinPairs_filter_extra n lk m rk⟩

/-- `leOptNat` is `≤` on row ids with the missing id last. -/
theorem leOptNat_spec (a b : Option Nat) :
    leOptNat a b = true ↔ b = none ∨ ∃ x y, a = some x ∧ b = some y ∧ x ≤ y := leOptNat_iff a b

/-- **full_join is sorted**: the result is ordered by left row id, ties by right row id, missing ids
    last (in both branches: the plain left join and the sorted `rbind`). -/
theorem full_join_sorted (n : Nat) (lk : List (List Cell)) (m : Nat) (rk : List (List Cell)) :
    (fullJoinPairs n lk m rk).Pairwise
      (fun p q => leOptNat p.1 q.1 = true ∧ (p.1 = q.1 → leOptNat p.2 q.2 = true)) :=
  (fullJoinPairs_sorted n lk m rk).imp (fun h => (fullJoinLe_iff _ _).mp h)

/-- **semi_join = the matched left rows**: the left rows whose join source is not "none", i.e. exactly
    the rows `i` for which some right row without missing key value has the key tuple of `i`. -/
theorem semi_is_matched (n : Nat) (lk : List (List Cell)) (m : Nat) (rk : List (List Cell)) :
    semiJoinIdx n lk m rk = (List.range n).filter (fun i => ((joinSrc n lk m rk)[i]!).isSome) ∧
    ∀ i, i ∈ semiJoinIdx n lk m rk ↔ i < n ∧ ∃ j, j < m ∧ noNa rk j ∧ rowKey rk j = rowKey lk i :=
  ⟨semiJoinIdx_eq n lk m rk, mem_semiJoinIdx n lk m rk⟩

/-- **anti_join = the unmatched left rows**: exactly the rows `i` such that no right row without
    missing key value has the key tuple of `i`. -/
theorem anti_is_unmatched (n : Nat) (lk : List (List Cell)) (m : Nat) (rk : List (List Cell)) :
    antiJoinIdx n lk m rk = (List.range n).filter (fun i => ((joinSrc n lk m rk)[i]!).isNone) ∧
    ∀ i, i ∈ antiJoinIdx n lk m rk ↔ i < n ∧ ∀ j, j < m → noNa rk j → rowKey rk j ≠ rowKey lk i :=
  ⟨antiJoinIdx_eq n lk m rk, mem_antiJoinIdx n lk m rk⟩

/- non-vacuity: left keys [1, 2], right keys [2, 3, 2]: left row 1 is merged with right row 0, the
   duplicate right row 2 is appended with its reverse match (left row 1), right row 1 with none. -/
example : fullJoinPairs 2 [[some (.i 1), some (.i 2)]] 3 [[some (.i 2), some (.i 3), some (.i 2)]]
    = [(some 0, none), (some 1, some 0), (some 1, some 2), (none, some 1)] := by
  have hab : leftJoinPairs 2 [[some (.i 1), some (.i 2)]] 3 [[some (.i 2), some (.i 3), some (.i 2)]]
      = [(some 0, none), (some 1, some 0)] := by decide
  have hex : fullJoinExtra 2 [[some (.i 1), some (.i 2)]] 3 [[some (.i 2), some (.i 3), some (.i 2)]]
      = [(none, some 1), (some 1, some 2)] := by decide
  have hr : (joinRest 2 [[some (.i 1), some (.i 2)]] 3 [[some (.i 2), some (.i 3), some (.i 2)]]).isEmpty
      = false := by decide
  rw [fullJoinPairs_eq, hab, hex, hr]
  simp [argsort, sortPairs, List.mergeSort, List.zipIdx, fullJoinLe, leOptNat, gather]

/- the branch without unmatched right rows (no sort): plain left join. -/
example : fullJoinPairs 2 [[some (.i 1), some (.i 2)]] 1 [[some (.i 2)]]
    = [(some 0, none), (some 1, some 0)] := by decide

example : semiJoinIdx 3 [[some (.i 1), none, some (.i 2)]] 3 [[some (.i 2), none, some (.i 2)]] = [2] ∧
    antiJoinIdx 3 [[some (.i 1), none, some (.i 2)]] 3 [[some (.i 2), none, some (.i 2)]] = [0, 1] := by decide

end DI.C05

/-
  Proofs/EvalC18.lean — property C18, `GeoJSON.write` / `GeoJSON.read` and the two checks EVALUATED.

  `Proofs/TieC18.lean` gives normal forms of the translated `GeoJSON.write` and `GeoJSON.read`
  (`Generated/CodeC18.lean`, regenerated from the current source on every run).  With the evaluator of
  `Model/PyEvalGeo.lean` — JSON trees with opaque leaves (`Json`), the frame as the model's own columns (`Frame`), the
  file as the model's token stream, `json.dumps` / `json.load` as primitives (`Ctx.dumps`, `Ctx.dumpsKey`, `Loader`) —
  running these functions gives

      write        =  `Geo.writeTokens` of the dumped metadata members (in `self.metadata` order: the `type` member is
                      one of them, `features` comes LAST) and of one dumped tree `{"type": "Feature", "properties":
                      {row without geometry}, "geometry": cell}` per row of `to_list_of_dicts()`; refused (ValueError)
                      without a geometry column; the same tokens for every `indent`                  (`write_eval`, …)
      read         =  `Read.frameFromRecords` of the features' properties (names in first-seen order, one cell per
                      feature, missing where absent, `columns` restricts by membership), then the geometry column stored
                      under "geometry", the casts, everything but `features` as metadata — i.e. `Geo.readColumns` /
                      `Geo.readMetadata` in the model's view                                          (`read_eval`, …)
      the checks   =  RAISE for a top-level / feature type that is not listed and for a property value that is a list or
                      dict; WARN (print once per name) about other feature members; and they raise, as a side effect of
                      how they look, for a feature without a `properties` OBJECT — `"properties": null` (valid GeoJSON)
                      included                                                                 (`check_*`, `read_rejects`)
      read ∘ write =  the frame: names in order (geometry moved last), cells, geometries, metadata
                      (`read_write_eval`, citing `Proofs/C18.lean`).

  Found while evaluating (not visible in `Model/GeoJSON.lean`, which returns the geometry column separately):
  `data["geometry"] = …` is a dict STORE, so a property that is itself called "geometry" is overwritten and the geometry
  column takes ITS position (`read_geometry_property_counterexample`); a feature without a `geometry` member passes both
  checks and makes `read` raise afterwards (`read_missing_geometry_raises`).

  Statements only; proofs cite `Lemmas/PyEvalGeo.lean`, `Lemmas/PyEvalGeoRead.lean` and `Proofs/C18.lean`.
-/
import Generated.CodeC18
import Model.PyEvalGeo
import Lemmas.PyEvalGeo
import Lemmas.PyEvalGeoRead
import Proofs.TieC18
import Proofs.C18

namespace DI.Eval.C18

open DI DI.Py DI.Gen DI.PyEvalGeo DI.Read DI.Convert
open DI.Geo (Tok writeTokens readColumns readMetadata Feature Object featuresKey parse featuresOf pyCell blobOf nullBlob)

/-! ### the terms -/

/-- the terms evaluated here: `write` and `read` in the normal forms of `Proofs/TieC18.lean`, the two checks as a test
    followed by their loops — for every interpretation of the tests. -/
theorem code_terms (truth : Term → Bool) :
    GeoJSON_read truth =
      Out.ret [openT, checkT, Tie.C18.collectKeys, Tie.C18.fillColumns (if truth (Term.sym "columns") then compT else Term.sym "{}"),
        storeGeom (if truth (Term.sym "columns") then compT else Term.sym "{}"),
        castsT (if truth (Term.sym "columns") then compT else Term.sym "{}"), delT,
        setattrT (if truth (Term.sym "columns") then compT else Term.sym "{}")]
        (frameT (if truth (Term.sym "columns") then compT else Term.sym "{}")) ∧
    GeoJSON_check_raw_data truth = (if truth testData then Out.raise [] "TypeError" else Out.fall [featuresLoop]) ∧
    GeoJSON_check_raw_feature truth = (if truth testFeature then Out.raise [] "TypeError" else Out.fall [warnLoop, propsLoop]) :=
  ⟨read_code' truth, check_data_code truth, check_feature_code truth⟩

/-- a test of a check that itself raises is answered `true` by the evaluator; that is sound: `true` raises. -/
theorem check_test_failure_raises (truth : Term → Bool) :
    (truth testFeature = true → GeoJSON_check_raw_feature truth = Out.raise [] "TypeError") ∧
    (truth testData = true → GeoJSON_check_raw_data truth = Out.raise [] "TypeError") := check_test_true_raises truth

/-! ### `write` -/

/-- **`write`, evaluated** = the model's `writeTokens`: `{`, every member of `self.metadata` in order as
    `<dumped name>: <dumped value>,`, then `"features": [`, one dumped feature tree per row separated by commas, `]`, `}`
    — for every frame that has a geometry column, every metadata, every keyword argument (they live in `dumps`) and
    every `indent`. -/
theorem write_eval (ctx : Ctx) (hg : Dict.has ctx.frame.cols "geometry" = true) :
    evalWrite ctx = some (writeTokens (dumpedMetadata ctx) (ctx.frame.featureTrees.map ctx.dumps)) :=
  evalWrite_eq ctx ctx.frame.featureTrees (rows_features ctx.frame hg) hg

/-- without a geometry column `write` raises (ValueError) before the file is touched. -/
theorem write_eval_no_geometry (ctx : Ctx) (hg : Dict.has ctx.frame.cols "geometry" = false) : evalWrite ctx = none :=
  evalWrite_no_geometry ctx hg

/-- the feature of row `i`: `type` first, then `properties` = the row's cells of all columns but `geometry` in column
    order (a missing cell as `null`), then `geometry` = the row's cell of the geometry column (popped out of the row). -/
theorem write_feature_tree (F : Frame) (i : Nat) (hi : i < F.nrow) :
    F.featureTrees[i]? = some (Json.obj [("type", .blob (quote "Feature")),
      ("properties", .obj ((F.cols.filter fun c => c.1 != "geometry").map fun c => (c.1, cellJson (c.2[i]?).join))),
      ("geometry", cellJson ((F.geomCol[i]?).join))]) := by
  simp [Frame.featureTrees, hi, featureTree, Frame.propCols, List.map_map, Function.comp_def]

/-- in the model's view these trees are `featuresOf` (the features of `Proofs/C18.lean`, `read_write_roundtrip`). -/
theorem write_features_are_the_models (F : Frame) (hlen : F.geomCol.length = F.nrow) :
    F.featureTrees.map (toFeature Json.text) = featuresOf F.propCols (F.geomCol.map blobOf) := featureTrees_view F hlen

/-- the written file is one well-formed JSON object (`Proofs/C18.lean`, `written_file_is_valid_json`): the dumped
    metadata members, then `features`. -/
theorem write_eval_valid_json (ctx : Ctx) (hg : Dict.has ctx.frame.cols "geometry" = true) :
    ∃ ts, evalWrite ctx = some ts ∧
      Object ts ((dumpedMetadata ctx).map (fun (k, v) => (k, Geo.Val.blob v)) ++
        [("\"features\"", Geo.Val.arr (ctx.frame.featureTrees.map ctx.dumps))]) :=
  ⟨_, write_eval ctx hg, DI.C18.written_file_is_valid_json _ _⟩

/-- `indent=` changes no token: the structure of the file does not depend on it. -/
theorem write_indent_irrelevant (ctx : Ctx) (a b : Option Int) :
    evalWrite { ctx with indent := a } = evalWrite { ctx with indent := b } := by
  cases hg : Dict.has ctx.frame.cols "geometry" with
  | true => rw [write_eval { ctx with indent := a } hg, write_eval { ctx with indent := b } hg]; rfl
  | false => rw [write_eval_no_geometry { ctx with indent := a } hg, write_eval_no_geometry { ctx with indent := b } hg]

/-! ### the checks -/

/-- **`_check_raw_feature`, evaluated**: it RAISES unless the feature is an object whose `type` is "Feature" and whose
    `properties` is an OBJECT of scalars; it only WARNS (prints the name once, remembers it for the later features) about
    members other than `type` / `properties` / `geometry`; a missing `geometry` member is not looked at. -/
theorem check_feature_eval (ctx : Ctx) (f : Json) (m : Mem) :
    evalCheckFeature ctx f m = if featureOk f then some (featureWarn f m) else none := by
  rw [evalCheckFeature_eq, checkFeatureSpec_eq]

/-- **`_check_raw_data`, evaluated**: it RAISES unless `type` is "FeatureCollection", `features` is a list (an empty dict
    is iterated as nothing) and every feature passes. -/
theorem check_data_eval (ctx : Ctx) (raw : Json) (m : Mem) :
    (evalCheckData ctx raw m).isSome = collectionOk raw := by
  rw [evalCheckData_eq, checkDataSpec_isSome]

/-- what a passing collection is warned about: every member name of a feature other than `type` / `properties` /
    `geometry`, each ONCE over the whole file, in first-seen order (member order stands for Python's set order). -/
theorem check_warnings (fs : List Json) :
    warnedKeys fs = unionKeys (fs.map fun f => (extraKeysOf f).map fun k => (k, ())) ∧
    (warnedKeys fs).Nodup ∧
    ∀ k, k ∈ warnedKeys fs ↔ ∃ f ∈ fs, k ∈ extraKeysOf f := by
  refine ⟨warnedKeys_eq fs, by rw [warnedKeys_eq]; exact unionKeys_nodup _, ?_⟩
  intro k
  rw [warnedKeys_eq, mem_unionKeys]
  constructor
  · rintro ⟨r, hr, hk⟩
    obtain ⟨f, hf, rfl⟩ := List.mem_map.mp hr
    exact ⟨f, hf, by simpa [List.map_map, Function.comp_def] using hk⟩
  · rintro ⟨f, hf, hk⟩
    exact ⟨_, List.mem_map.mpr ⟨f, hf, rfl⟩, by simpa [List.map_map, Function.comp_def] using hk⟩

/-! ### `read` -/

/-- **`read`, evaluated, in full** — for every collection that passes the checks, every `columns` and `dtypes`: the model's
    `frameFromRecords` of the features' properties; the geometry column STORED under "geometry" (AttributeError when a
    feature has no such member); the casts in the order of `dtypes` (KeyError for a name that is not a column); every
    member but `features` as metadata; the warnings. -/
theorem read_eval_explicit (ctx : Ctx) (ms0 : List (String × Json)) (fs : List Json)
    (hT : Read.lookup ms0 "type" = some (.blob (quote "FeatureCollection")))
    (hF : Read.lookup ms0 "features" = some (.arr fs)) (hok : fs.all featureOk = true) :
    evalRead ctx (.obj ms0) =
      (geometries fs).bind fun gs =>
        (ctx.dtypes.foldlM (castStep ctx.cast)
          (Dict.set (frameFromRecords (fs.map propsOf) ctx.columns) "geometry" (gs.map some))).map fun d =>
            ⟨d, Dict.del ms0 "features", warnedKeys fs⟩ := evalRead_explicit ctx ms0 fs hT hF hok

/-- **`read`, evaluated** on a well-formed collection (checks passed, every feature with a `geometry` member, no property
    called "geometry", no casts): the property columns of the model, then the geometry column LAST.
    (`read_geometry_property_counterexample`: the hypothesis on the property names is forced.) -/
theorem read_eval (ctx : Ctx) (hdt : ctx.dtypes = []) (ms0 : List (String × Json)) (fs gs : List Json)
    (hT : Read.lookup ms0 "type" = some (.blob (quote "FeatureCollection")))
    (hF : Read.lookup ms0 "features" = some (.arr fs)) (hok : fs.all featureOk = true)
    (hG : geometries fs = some gs) (hnp : ∀ f ∈ fs, "geometry" ∉ (propsOf f).map (·.1)) :
    evalRead ctx (.obj ms0) =
      some ⟨frameFromRecords (fs.map propsOf) ctx.columns ++ [("geometry", gs.map some)], Dict.del ms0 "features", warnedKeys fs⟩ :=
  evalRead_wellformed ctx hdt ms0 fs gs hT hF hok hG hnp

/-- … which is the model's `read` (`Geo.readColumns`, `Geo.readMetadata`), whatever rendering `text` of the values the
    model's opaque strings stand for: the property columns, the geometry column, the metadata members. -/
theorem read_eval_is_model (text : Json → String) (ms0 : List (String × Json)) (fs gs : List Json) (columns : List String)
    (hG : geometries fs = some gs) :
    (frameFromRecords (fs.map propsOf) columns).map (fun c => (c.1, c.2.map (Option.map text))) =
      (readColumns (fs.map (toFeature text)) columns).1 ∧
    gs.map text = (readColumns (fs.map (toFeature text)) columns).2 ∧
    (Dict.del ms0 "features").map (fun p => (p.1, text p.2)) = readMetadata (ms0.map fun p => (p.1, text p.2)) := by
  refine ⟨(read_view text fs columns).1, ?_, metadata_view text ms0⟩
  rw [geometries_some fs gs hG, ← (read_view text fs columns).2, List.map_map]; rfl

/-- a context for the examples: nothing to write, no restriction, no cast. -/
def plainCtx : Ctx := ⟨fun _ => "", id, fun _ xs => xs, ⟨[], []⟩, none, [], []⟩

/-- the FALSE statement without the hypothesis on the property names: a property called "geometry" is overwritten by
    the geometry column, which then stands at the PROPERTY's position (first here), not last; the property values
    (1 and 2) are lost. -/
theorem read_geometry_property_counterexample :
    evalRead plainCtx (.obj [("type", .blob "\"FeatureCollection\""), ("features", .arr
      [.obj [("type", .blob "\"Feature\""), ("properties", .obj [("geometry", .blob "1"), ("b", .blob "3")]), ("geometry", .blob "G0")],
       .obj [("type", .blob "\"Feature\""), ("properties", .obj [("b", .blob "4"), ("geometry", .blob "2")]), ("geometry", .blob "G1")]])]) =
      some ⟨[("geometry", [some (.blob "G0"), some (.blob "G1")]), ("b", [some (.blob "3"), some (.blob "4")])],
            [("type", .blob "\"FeatureCollection\"")], []⟩ := by decide

/-! ### what is rejected -/

/-- **rejected by the checks**: `read` raises for every object that does not pass `_check_raw_data` … -/
theorem read_rejects (ctx : Ctx) (ms0 : List (String × Json)) (h : collectionOk (.obj ms0) = false) :
    evalRead ctx (.obj ms0) = none := by
  apply evalRead_rejected
  have := checkDataSpec_isSome (.obj ms0) (Mem.init (.obj ms0))
  rw [h] at this
  cases hc : checkDataSpec (.obj ms0) (Mem.init (.obj ms0)) with
  | none => rfl
  | some m => rw [hc] at this; cases this

/-- … and for a file whose top level is not an object. -/
theorem read_rejects_non_object (ctx : Ctx) (file : Json) (h : ∀ ms, file ≠ .obj ms) : evalRead ctx file = none :=
  evalRead_not_object ctx file h

/-- the cases of a rejected FEATURE, spelled out: not an object; `type` missing or not "Feature"; `properties` missing
    or not an object — JSON `null` included, which RFC 7946 allows —; a property value that is a list or a dict. -/
theorem feature_rejected_iff (f : Json) :
    featureOk f = false ↔
      (f.get? "type" ≠ some (.blob (quote "Feature")) ∨
       (∀ ps, f.get? "properties" ≠ some (.obj ps)) ∨
       ∃ ps, f.get? "properties" = some (.obj ps) ∧ ∃ p ∈ ps, p.2.isScalar = false) := by
  unfold featureOk
  by_cases ht : f.get? "type" = some (.blob (quote "Feature"))
  · simp only [ht, decide_true, Bool.true_and, ne_eq, not_true_eq_false, false_or]
    cases hp : f.get? "properties" with
    | none => simp
    | some pv =>
      cases pv with
      | blob v => simp
      | arr xs => simp
      | obj ps => simp [List.all_eq_false]
  · simp [ht]

/-- a feature without a `geometry` member passes both checks — and `read` raises afterwards (AttributeError in
    `[x.geometry for x in raw.features]`). -/
theorem read_missing_geometry_raises (ctx : Ctx) (ms0 : List (String × Json)) (fs : List Json)
    (hT : Read.lookup ms0 "type" = some (.blob (quote "FeatureCollection")))
    (hF : Read.lookup ms0 "features" = some (.arr fs)) (hok : fs.all featureOk = true)
    (hG : geometries fs = none) : evalRead ctx (.obj ms0) = none := by
  rw [read_eval_explicit ctx ms0 fs hT hF hok, hG]; rfl

/-! ### write, then read -/

/-- **`json.load` of what `write` wrote** (trusted link: `loads ∘ dumps = id` on the trees written, `loadsKey ∘ dumpsKey =
    id` on the member names written, `features` dumped as — and only as — `"features"`): the strict parser of `Proofs/C18.lean` (`write_features_in_order`) splits
    the stream into the members and the features, the primitives give the trees back — the metadata members in order,
    `features` LAST.  Forced hypothesis (`Proofs/C18.lean`, `write_duplicate_features_key_counterexample`): no metadata
    member is itself called "features". -/
theorem load_written (ctx : Ctx) (L : Loader)
    (hL : ∀ j, (j ∈ ctx.frame.metadata.map (·.2) ∨ j ∈ ctx.frame.featureTrees) → L.loads (ctx.dumps j) = some j)
    (hK : ∀ p ∈ ctx.frame.metadata, L.loadsKey (ctx.dumpsKey p.1) = some p.1)
    (hKf : ctx.dumpsKey "features" = featuresKey ∧ L.loadsKey featuresKey = some "features")
    (hg : Dict.has ctx.frame.cols "geometry" = true) (hF : Dict.has ctx.frame.metadata "features" = false) :
    (evalWrite ctx).bind (loadFile L) =
      some (.obj (ctx.frame.metadata ++ [("features", .arr ctx.frame.featureTrees)])) := by
  rw [write_eval ctx hg]
  exact loadFile_written ctx L _ hL hK _
    (DI.C18.write_features_in_order _ _ (dumpsKey_ne_features ctx L hK hKf hF))

/-- what Python sees in a cell that `read` produced: `None` for an absent property and for `null`. -/
def cellView (c : Option Json) : Option String := pyCell (c.map Json.text)

/-- **`read_write_eval`**: evaluating `read` on what `write` produced gives the frame back — for a frame with a geometry
    column, distinct column names, at least one row, all columns of the row count, no cell whose text is `null`; a metadata
    with the `type` member `GeoJSON.__init__` sets and without a member called "features"; no casts:
    * the property columns: names in the frame's order, cells and missing positions (`Proofs/C18.lean`,
      `read_write_roundtrip_restricted`) — restricted to `columns` when given —, then the geometry column, now LAST;
    * the metadata members, in order; no warning. -/
theorem read_write_eval (ctx : Ctx) (L : Loader)
    (hL : ∀ j, (j ∈ ctx.frame.metadata.map (·.2) ∨ j ∈ ctx.frame.featureTrees) → L.loads (ctx.dumps j) = some j)
    (hK : ∀ p ∈ ctx.frame.metadata, L.loadsKey (ctx.dumpsKey p.1) = some p.1)
    (hKf : ctx.dumpsKey "features" = featuresKey ∧ L.loadsKey featuresKey = some "features")
    (hdt : ctx.dtypes = [])
    (hg : Dict.has ctx.frame.cols "geometry" = true) (hnd : (ctx.frame.cols.map (·.1)).Nodup)
    (hn : 0 < ctx.frame.nrow) (hrect : ∀ c ∈ ctx.frame.cols, c.2.length = ctx.frame.nrow)
    (hnull : ∀ c ∈ ctx.frame.cols, ∀ v ∈ c.2, v ≠ some nullBlob)
    (hT : Read.lookup ctx.frame.metadata "type" = some (.blob (quote "FeatureCollection")))
    (hF : Dict.has ctx.frame.metadata "features" = false) :
    ∃ r, ((evalWrite ctx).bind (loadFile L)).bind (evalRead ctx) = some r ∧
      r.cols.map (fun c => (c.1, c.2.map cellView)) =
        (if ctx.columns.isEmpty then ctx.frame.propCols else ctx.frame.propCols.filter fun c => ctx.columns.contains c.1) ++
          [("geometry", ctx.frame.geomCol)] ∧
      r.metadata = ctx.frame.metadata ∧ r.log = [] := by
  obtain ⟨c0, hc0, hc0m⟩ : ∃ c0, (ctx.frame.cols.find? fun c => c.1 == "geometry") = some c0 ∧ c0 ∈ ctx.frame.cols := by
    simp only [Dict.has, List.any_eq_true] at hg
    obtain ⟨c, hc, hk⟩ := hg
    cases hf : ctx.frame.cols.find? fun c => c.1 == "geometry" with
    | none => exact absurd hk (by simpa using (List.find?_eq_none.mp hf) c hc)
    | some c0 => exact ⟨c0, rfl, List.mem_of_find?_eq_some hf⟩
  have hgc : ctx.frame.geomCol = c0.2 := by simp [Frame.geomCol, hc0]
  have hlen : ctx.frame.geomCol.length = ctx.frame.nrow := by rw [hgc]; exact hrect c0 hc0m
  have hpc : ∀ c ∈ ctx.frame.propCols, c ∈ ctx.frame.cols := fun c hc => (List.mem_filter.mp hc).1
  refine ⟨_, by rw [load_written ctx L hL hK hKf hg hF]; exact evalRead_written ctx hdt hT hF, ?_, rfl, rfl⟩
  -- the model's round trip (Proofs/C18.lean), on the model's view of the dumped features
  have hrt := DI.C18.read_write_roundtrip_restricted ctx.frame.propCols (ctx.frame.geomCol.map blobOf) ctx.columns
    (by simpa [hlen] using hn)
    (hnd.sublist (List.Sublist.map _ List.filter_sublist))
    (fun c hc => by simpa [hlen] using hrect c (hpc c hc))
    (fun c hc => hnull c (hpc c hc))
  rw [← write_features_are_the_models ctx.frame hlen] at hrt
  obtain ⟨hcols, hgeo⟩ := hrt
  have hview := read_view Json.text ctx.frame.featureTrees ctx.columns
  rw [← hview.1] at hcols
  simp only [List.map_append, List.map_cons, List.map_nil, List.map_map] at hcols ⊢
  congr 1
  · rw [← hcols]
    apply List.map_congr_left
    intro c _
    simp [cellView, Function.comp_def]
  · have hg2 : ctx.frame.featureTrees.map (fun f => Json.text (geomOf f)) = ctx.frame.geomCol.map blobOf := by
      rw [hview.2]; exact hgeo
    have : (ctx.frame.featureTrees.map fun f => cellView (some (geomOf f))) = ctx.frame.geomCol := by
      have h1 : (ctx.frame.featureTrees.map fun f => cellView (some (geomOf f))) =
          (ctx.frame.featureTrees.map fun f => Json.text (geomOf f)).map fun t => pyCell (some t) := by
        simp [cellView, List.map_map, Function.comp_def]
      rw [h1, hg2, List.map_map]
      have hid : ∀ v ∈ ctx.frame.geomCol, ((fun t => pyCell (some t)) ∘ blobOf) v = id v := by
        intro v hv
        exact Geo.pyCell_blobOf v (hnull c0 hc0m v (by rw [← hgc]; exact hv))
      rw [List.map_congr_left hid, List.map_id]
    simpa [List.map_map, Function.comp_def] using this

/-! ### non-vacuity (`decide +kernel`: the same decision procedure, evaluated by the kernel; no native code) -/

section examples

def tree0 : Json := .obj [("type", .blob "\"Feature\""), ("properties", .obj [("a", .blob "1"), ("b", .blob "\"x\"")]), ("geometry", .blob "G0")]
def tree1 : Json := .obj [("type", .blob "\"Feature\""), ("properties", .obj [("a", .blob "null"), ("b", .blob "\"y\"")]), ("geometry", .blob "G1")]

/-- toy primitives: a scalar is its own text, the two features are called F0 / F1, a name is quoted. -/
def toyDumps (j : Json) : String :=
  match j with
  | .blob v => v
  | j => if j = tree0 then "F0" else if j = tree1 then "F1" else "?"

def toyLoader : Loader :=
  { loads := fun s => if s = "F0" then some tree0 else if s = "F1" then some tree1 else some (.blob s),
    loadsKey := fun s => if s = "\"type\"" then some "type" else if s = "\"name\"" then some "name"
      else if s = "\"features\"" then some "features" else none }

/-- a frame whose geometry column stands in the middle, one missing cell, two metadata members. -/
def toyCtx : Ctx :=
  { dumps := toyDumps, dumpsKey := quote, cast := fun _ xs => xs,
    frame := ⟨[("a", [some "1", none]), ("geometry", [some "G0", some "G1"]), ("b", [some "\"x\"", some "\"y\""])],
              [("type", .blob "\"FeatureCollection\""), ("name", .blob "\"n\"")]⟩,
    indent := some 4, columns := [], dtypes := [] }

/-- `write`: the members in metadata order, `features` last, one blob per row, one comma between the two. -/
example : evalWrite toyCtx = some [.lbrace, .str "\"type\"", .colon, .blob "\"FeatureCollection\"", .comma,
    .str "\"name\"", .colon, .blob "\"n\"", .comma, .str "\"features\"", .colon, .lbrack, .blob "F0", .comma, .blob "F1",
    .rbrack, .rbrace] := by decide +kernel

/-- the rows as trees: the geometry cell popped out, the missing cell as `null`. -/
example : toyCtx.frame.featureTrees = [tree0, tree1] := by decide +kernel

/-- no geometry column: ValueError; an empty frame with one: an empty feature list. -/
example : evalWrite { toyCtx with frame := ⟨[("a", [some "1"])], []⟩ } = none ∧
    evalWrite { toyCtx with frame := ⟨[("geometry", [])], []⟩ } =
      some [.lbrace, .str "\"features\"", .colon, .lbrack, .rbrack, .rbrace] := by decide

/-- write, then `json.load` (relative to the toy primitives): the members in order, `features` last. -/
theorem toy_load : (evalWrite toyCtx).bind (loadFile toyLoader) =
    some (.obj [("type", .blob "\"FeatureCollection\""), ("name", .blob "\"n\""), ("features", .arr [tree0, tree1])]) := by
  decide +kernel

/-- write, load, read: the frame comes back, the geometry column last, `null` as a missing cell. -/
example : ((evalWrite toyCtx).bind (loadFile toyLoader)).bind (evalRead toyCtx) =
    some ⟨[("a", [some (.blob "1"), some (.blob "null")]), ("b", [some (.blob "\"x\""), some (.blob "\"y\"")]),
           ("geometry", [some (.blob "G0"), some (.blob "G1")])],
          [("type", .blob "\"FeatureCollection\""), ("name", .blob "\"n\"")], []⟩ := by
  rw [toy_load]; decide +kernel

/-- the hypotheses of `read_write_eval` hold for the toy frame and primitives. -/
example : (∀ j, (j ∈ toyCtx.frame.metadata.map (·.2) ∨ j ∈ toyCtx.frame.featureTrees) → toyLoader.loads (toyCtx.dumps j) = some j) ∧
    (∀ p ∈ toyCtx.frame.metadata, toyLoader.loadsKey (toyCtx.dumpsKey p.1) = some p.1) ∧
    (toyCtx.dumpsKey "features" = featuresKey ∧ toyLoader.loadsKey featuresKey = some "features") := by
  refine ⟨?_, by decide +kernel, by decide +kernel⟩
  intro j hj
  have : j ∈ [Json.blob "\"FeatureCollection\"", Json.blob "\"n\"", tree0, tree1] := by
    rcases hj with hj | hj
    · have : toyCtx.frame.metadata.map (·.2) = [Json.blob "\"FeatureCollection\"", Json.blob "\"n\""] := by decide +kernel
      rw [this] at hj; simp at hj ⊢; rcases hj with rfl | rfl <;> simp
    · have : toyCtx.frame.featureTrees = [tree0, tree1] := by decide +kernel
      rw [this] at hj; simp at hj ⊢; rcases hj with rfl | rfl <;> simp
  simp only [List.mem_cons, List.not_mem_nil, or_false] at this
  rcases this with rfl | rfl | rfl | rfl <;> decide +kernel

def F (p : List (String × Json)) (g : Json) (extra : List (String × Json) := []) : Json :=
  .obj ([("type", .blob "\"Feature\""), ("properties", .obj p), ("geometry", g)] ++ extra)
def FC (fs : List Json) (extra : List (String × Json) := []) : Json :=
  .obj ([("type", .blob "\"FeatureCollection\"")] ++ extra ++ [("features", .arr fs)])

/-- `read`: names in first-seen order, `None` (the default) where a feature lacks the property, the other members as
    metadata, one warning per foreign feature member. -/
example : evalRead plainCtx (FC [F [("a", .blob "1")] (.blob "G0") [("id", .blob "7"), ("bbox", .blob "1")],
      F [("b", .blob "null"), ("a", .blob "2")] (.blob "null") [("id", .blob "8"), ("zz", .blob "1")]] [("name", .blob "\"x\"")]) =
    some ⟨[("a", [some (.blob "1"), some (.blob "2")]), ("b", [none, some (.blob "null")]),
           ("geometry", [some (.blob "G0"), some (.blob "null")])],
          [("type", .blob "\"FeatureCollection\""), ("name", .blob "\"x\"")], ["id", "bbox", "zz"]⟩ := by decide

/-- `columns=["b", "zz"]`: membership only (no column for a name that no feature has); the geometry column stays. -/
example : evalRead { plainCtx with columns := ["b", "zz"] } (FC [F [("a", .blob "1")] (.blob "G0"), F [("b", .blob "3"), ("a", .blob "2")] (.blob "G1")]) =
    some ⟨[("b", [none, some (.blob "3")]), ("geometry", [some (.blob "G0"), some (.blob "G1")])],
          [("type", .blob "\"FeatureCollection\"")], []⟩ := by decide

/-- rejected: `"properties": null` (valid GeoJSON), a list-valued property, a wrong top-level type, a missing `features`,
    a feature without `geometry`, a cast of a column that does not exist; accepted: no feature at all. -/
example :
    evalRead plainCtx (FC [.obj [("type", .blob "\"Feature\""), ("properties", .blob "null"), ("geometry", .blob "null")]]) = none ∧
    evalRead plainCtx (FC [F [("a", .arr [.blob "1"])] (.blob "G0")]) = none ∧
    evalRead plainCtx (.obj [("type", .blob "\"Feature\""), ("features", .arr [])]) = none ∧
    evalRead plainCtx (.obj [("type", .blob "\"FeatureCollection\"")]) = none ∧
    evalRead plainCtx (FC [.obj [("type", .blob "\"Feature\""), ("properties", .obj [])]]) = none ∧
    evalRead { plainCtx with dtypes := [("q", "float")] } (FC []) = none ∧
    evalRead plainCtx (FC []) = some ⟨[("geometry", [])], [("type", .blob "\"FeatureCollection\"")], []⟩ := by decide

/-- the checks on one feature: warned about `id` once (already warned about `bbox`). -/
example : (evalCheckFeature plainCtx (F [("a", .blob "1")] (.blob "G") [("id", .blob "7"), ("bbox", .blob "1")])
      { Mem.init (.blob "null") with warned := ["bbox"] }).map (fun m => (m.log, m.warned)) = some (["id"], ["bbox", "id"]) := by
  decide

end examples


end DI.Eval.C18

/-
  Proofs/EvalC20b.lean — property C20, the table renderer `DataFrame.to_string` EVALUATED.

  `Generated/CodeC20.lean: DataFrame_to_string` (regenerated from the current source) is given a meaning by
  `Model/PyEvalRender.lean` (cell strings, dtype labels and `wcwidth` are inputs; `util.ulen` / `util.upad` mean what
  `Proofs/EvalC20.lean` proves of them; the `while` loop is fuelled).  Here: the evaluated rendering IS the model's
  `Render.dfToString` — so every theorem of `Proofs/C20.lean` about the layout (`df_every_column_in_one_block`,
  `df_block_lines_same_width`, `df_blocks_fit_width`, `df_line_count`, `df_footer_iff`, …) speaks about the code.
  Statements only; proofs cite `Lemmas/PyEvalRender.lean`.
-/
import Generated.CodeC20
import Model.PyEvalRender
import Lemmas.PyEvalRender

namespace DI.Eval.C20

open DI DI.Py DI.Gen DI.PyEvalRender
open DI.PyEvalWidth (wcOf)

/-- the regenerated body of `DataFrame.to_string` is exactly the terms evaluated here (`Lemmas/PyEvalRender.lean`):
    `"" if not self`; else the effects `for column in columns.values(): column.insert(2, rule)`, the block loop
    `while columns: …`, `rows_to_print.append(".")`, and — on the branch `max_rows < self.nrow` only — the footer. -/
theorem to_string_code (truth : Term → Bool) :
    DataFrame_to_string truth =
      if (!truth selfT) then Out.ret [] (Term.sym "''")
      else if truth cutTestT then Out.ret [eff0T, eff1T, eff2T, eff3T] retT
      else Out.ret [eff0T, eff1T, eff2T] retT := DataFrame_to_string_eq truth

/-- **to_string, evaluated = the model**.  For every frame shape (`cols = []`, `nrow = 0`, columns wider than the page),
    every `max_rows` / `max_width` / `truncate_width` argument (`None`, 0 = "use the default", any integer; the effective
    `max_rows` non-negative) and defaults, every width function and EVERY cell-string input with the same number `m ≤ n`
    of strings per column (`n = min(nrow, max_rows)`; in the library `m = n`), the evaluated body returns the text of
    `Render.dfToString` at the effective `max_rows` / `max_width` — with any fuel `≥ number of columns + 1`.
    Column names are distinct (a DataFrame is a dict). -/
theorem to_string_eval (w : Char → Int) (nrow : Nat) (cols : List Render.Col) (mr mw tw : Option Int) (dR dW dT : Int)
    (fuel : Nat) (hnd : (cols.map (·.name)).Nodup) (m : Nat) (hm : ∀ c ∈ cols, c.cells.length = m)
    (hmn : m ≤ min nrow (effArg mr dR).toNat) (h0 : 0 ≤ effArg mr dR) (hfuel : cols.length + 1 ≤ fuel) :
    evalToString w fuel (toStringArgs nrow cols mr mw tw dR dW dT) =
      some (textOf (Render.dfToString (wcOf w) cols nrow (effArg mr dR).toNat (effArg mw dW).toNat)) :=
  evalToString_eq w fuel hnd m hm (by unfold pmin; split <;> omega) h0 hfuel

/-- **termination of the block loop**: `number of columns + 1` iterations always suffice (every iteration pops a column),
    and more fuel does not change the result. -/
theorem to_string_terminates (w : Char → Int) (nrow : Nat) (cols : List Render.Col) (mr mw tw : Option Int) (dR dW dT : Int)
    (hnd : (cols.map (·.name)).Nodup) (m : Nat) (hm : ∀ c ∈ cols, c.cells.length = m)
    (hmn : m ≤ min nrow (effArg mr dR).toNat) (h0 : 0 ≤ effArg mr dR) :
    ∃ r, ∀ fuel, cols.length + 1 ≤ fuel → evalToString w fuel (toStringArgs nrow cols mr mw tw dR dW dT) = some r :=
  ⟨_, fun fuel hf => to_string_eval w nrow cols mr mw tw dR dW dT fuel hnd m hm hmn h0 hf⟩

/-- the block loop itself, from any dict of equally long columns: it ends with the dict EMPTY and has appended the
    model's `batchLines` of `layout` — "." before the first block, "" before the others. -/
theorem block_loop_eval (w : Char → Int) (nrow : Nat) (cols : List Render.Col) (mr mw tw : Option Int) (dR dW dT : Int)
    (f0 L : Nat) (hL0 : 0 < L)
    (hrn : L ≤ (Render.rowNumbers (wcOf w) (pmin nrow (effArg mr dR)).toNat).length) (d : Dict) (s : St) (fuel : Nat)
    (hf : d.length + 1 ≤ fuel) (h : s.args = toStringArgs nrow cols mr mw tw dR dW dT) (hd : s.dict = some d)
    (hL : ∀ kc ∈ d, kc.2.length = L) :
    ∃ s', whileLoop (fun st => (evalP w columnsT st).map fun v => truthy v st) (evalS w f0 whileBodyT) fuel s = some s' ∧
      s'.dict = some [] ∧
      s'.rows = s.rows ++ Render.batchLines (if s.rows = [] then 0 else 1)
        (Render.layout (wcOf w) (effArg mw dW).toNat (Render.rowNumbers (wcOf w) (pmin nrow (effArg mr dR)).toNat) (d.map (·.2))) := by
  obtain ⟨env', he, _⟩ := whileLoop_eval w f0 L hL0 hrn d.length d s fuel (Nat.le_refl _) hf h hd hL
  exact ⟨_, he, rfl, rfl⟩

/-- `n = min(self.nrow, max_rows)`: the number of data rows shown (the row numbers are `0 … n-1`, every block has
    `n + 3` lines by `C20.df_line_count`). -/
theorem to_string_rows_shown (w : Char → Int) (nrow : Nat) (cols : List Render.Col) (mr mw tw : Option Int) (dR dW dT : Int)
    (h0 : 0 ≤ effArg mr dR) :
    evalP w nT (initSt (toStringArgs nrow cols mr mw tw dR dW dT)) = some (.int ((min nrow (effArg mr dR).toNat : Nat) : Int)) ∧
    evalP w rowNumbersT (initSt (toStringArgs nrow cols mr mw tw dR dW dT)) =
      some (.strs (Render.rowNumbers (wcOf w) (min nrow (effArg mr dR).toNat))) := by
  have hn : (pmin nrow (effArg mr dR)).toNat = min nrow (effArg mr dR).toNat := by unfold pmin; split <;> omega
  refine ⟨?_, ?_⟩
  · have := nT_eval w (nrow := nrow) (cols := cols) (mr := mr) (mw := mw) (tw := tw) (dR := dR) (dW := dW) (dT := dT)
      (s := initSt (toStringArgs nrow cols mr mw tw dR dW dT)) rfl
    rw [this]
    congr 2
    unfold pmin; split <;> omega
  · have := rowNumbersT_eval w (nrow := nrow) (cols := cols) (mr := mr) (mw := mw) (tw := tw) (dR := dR) (dW := dW) (dT := dT)
      (s := initSt (toStringArgs nrow cols mr mw tw dR dW dT)) rfl
    rw [this, hn]

/-- **the footer appears iff rows were cut**: the text ends with the line "." and, exactly when `max_rows < nrow`, the
    line "... {nrow} rows total" after it. -/
theorem to_string_footer_iff (w : Char → Int) (nrow : Nat) (cols : List Render.Col) (mr mw tw : Option Int) (dR dW dT : Int)
    (fuel : Nat) (hne : cols ≠ []) (hnd : (cols.map (·.name)).Nodup) (m : Nat) (hm : ∀ c ∈ cols, c.cells.length = m)
    (hmn : m ≤ min nrow (effArg mr dR).toNat) (h0 : 0 ≤ effArg mr dR) (hfuel : cols.length + 1 ≤ fuel) :
    ∃ body, evalToString w fuel (toStringArgs nrow cols mr mw tw dR dW dT) =
      some (pyJoin ['\n'] (body ++ [['.']] ++ (if effArg mr dR < nrow then [Render.footer nrow] else []))) := by
  rw [to_string_eval w nrow cols mr mw tw dR dW dT fuel hnd m hm hmn h0 hfuel]
  have hne' : cols.isEmpty = false := by simpa using hne
  have hiff : ((effArg mr dR).toNat < nrow) ↔ (effArg mr dR < nrow) := by omega
  refine ⟨Render.batchLines 0 (Render.layout (wcOf w) (effArg mw dW).toNat
    (Render.rowNumbers (wcOf w) (min nrow (effArg mr dR).toNat))
    (cols.map fun c => Render.mkColumn (wcOf w) c.name c.label c.cells)), ?_⟩
  simp only [Render.dfToString, hne', Bool.false_eq_true, if_false, textOf, hiff]

/-- a frame without columns renders as the empty string (the model's `none`). -/
theorem to_string_no_columns (w : Char → Int) (nrow : Nat) (mr mw tw : Option Int) (dR dW dT : Int) (fuel : Nat)
    (h0 : 0 ≤ effArg mr dR) (hfuel : 1 ≤ fuel) :
    evalToString w fuel (toStringArgs nrow [] mr mw tw dR dW dT) = some [] := by
  rw [to_string_eval w nrow [] mr mw tw dR dW dT fuel (by simp) 0 (by simp) (by omega) h0 (by simpa using hfuel)]
  rfl

/-! ### non-vacuity; the forced hypothesis on the cell strings -/

def demoCols : List Render.Col :=
  [⟨"a".toList, "int64".toList, ["1".toList]⟩, ⟨"b".toList, "string".toList, ["x".toList]⟩]

/-- two columns, page 9 wide: two blocks, "." / "" separators, the footer (1 of 2 rows shown). -/
example :
    evalToString (fun _ => 1) 3 (toStringArgs 2 demoCols (some 1) (some 9) none 100 80 32) =
      some ".\n      a\n  int64\n  ─────\n0     1\n\n       b\n  string\n  ──────\n0      x\n.\n... 2 rows total".toList := by
  decide +kernel

/-- too little fuel: `none` (2 blocks need 3 tests of `while columns`). -/
example : evalToString (fun _ => 1) 2 (toStringArgs 2 demoCols (some 1) (some 9) none 100 80 32) = none := by
  decide +kernel

/-- **the hypothesis "at most `n` cell strings per column" is forced**: with more cell strings than row numbers the second
    column of a block is longer than `batch_rows` and `batch_rows[i] += " "` raises IndexError (evaluation `none`), where
    the model's `zipWith` silently truncates.  The library reaches this with a NEGATIVE `max_rows` (`column[:-1]` is not
    empty but `range(-1)` is): `DataFrame(a=[1,2],b=[3,4]).to_string(max_rows=-1)` raises IndexError. -/
theorem to_string_ragged_counterexample :
    evalToString (fun _ => 1) 3 (toStringArgs 0 demoCols none none none 100 80 32) = none ∧
    (Render.dfToString (wcOf (fun _ => 1)) demoCols 0 100 80).isSome = true := by
  decide +kernel

end DI.Eval.C20

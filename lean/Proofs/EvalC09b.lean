/-
  Proofs/EvalC09b.lean — "code ⇒ semantics ⇒ model" for `DataFrame.cbind` and `DataFrame.update`: what the REGENERATED
  generator bodies (`Generated/CodeC09.lean`, translated from the current Python source on every run) DENOTE under the
  evaluator of `Model/PyEvalFrameJoin.lean`, for every receiver and every argument, and that this is the cell-provenance model
  of `Model/Bind.lean` (`Bind.cbind` / `Bind.update`, the functions the theorems of `Proofs/C09.lean` are about) read off
  the input frames (`realizeIn`: the provenance `Src.cell i c r` stands for row `r` of column `c` of input frame `i`).

  TRUSTED LINK: `self._reconcile_column(column)` is a primitive of the evaluator with the meaning of the model's broadcast
  rule (`reconcileCol` in `Model/PyEvalFrameJoin.lean` = `Bind.reconcile` on cells, `reconcile_column_is_model` below): a column
  of the receiver's row count — or any column when the receiver has no columns — is kept, a one-element column is repeated
  `nrow` times (for `nrow ≥ 1`), anything else is an error (`none`).  The term `set()` of the regenerated cbind body (the
  translator substitutes the local `found_colnames` by its defining expression) denotes the body's ONE set object.

  Statements only; the proofs cite `Lemmas/PyEvalFrameJoin.lean`, after rewriting the bodies to their normal forms with the
  theorems of `Proofs/TieC09.lean`.  The results are the yielded pairs (no name is yielded twice by either body, so the
  constructor's `dict(...)` changes nothing: `cbind_names_nodup`).
-/
import Generated.CodeC09
import Proofs.TieC09
import Proofs.C09
import Lemmas.PyEvalFrameJoin

namespace DI.Eval.C09

open DI DI.Py DI.Gen DI.PyEvalX DI.Tie.C09
open DI.PyEval (Frame nrow names Rect colOf shape)

/-- **cbind(*others), semantics**: the body yields what `cbindSpec` says — frames in ARGUMENT order (receiver first),
    columns in each frame's order; a name seen before is skipped (the first occurrence of a name wins); every kept column
    is reconciled against the receiver (`cbindStep`) and copied; a column that cannot be reconciled fails the call. -/
theorem cbind_semantics (naCell : Cell) (truth : Term → Bool) (env : Env) (self : Frame) (others : List Frame)
    (hself : env.get? "self" = some (.frame self)) (hothers : env.get? "others" = some (.frames others))
    (hset : env.get? "set()" = none) :
    runBody naCell env (DataFrame_cbind truth) = (cbindSpec self (self :: others)).map (·.2) := by
  rw [cbind_code]; exact run_cbind naCell env self others hself hothers hset

/-- what `cbindSpec` is: a fold over the frames of a fold over each frame's columns, threading the names seen. -/
theorem cbindSpec_unfold (self : Frame) (frames : List Frame) :
    cbindSpec self frames =
      foldSpec (fun seen (x : Frame × Nat) => foldSpec (cbindStep self) seen x.1) [] frames.zipIdx ∧
    (∀ seen p, cbindStep self seen p =
      if seen.contains p.1 then some (seen, [])
      else (reconcileCol self p.2).map (fun c => (seen ++ [p.1], [(p.1, c)]))) :=
  ⟨rfl, fun _ _ => rfl⟩

/-- **cbind = the Bind model's `cbind`** (`cbind_eval`): for rectangular frames with distinct column names, the yielded
    pairs are the model's output columns read off the input frames — frames in argument order, first occurrence of a name
    wins, every kept column reconciled and copied — and the body raises exactly when the model rejects. -/
theorem cbind_eval (naCell : Cell) (truth : Term → Bool) (env : Env) (self : Frame) (others : List Frame)
    (hself : env.get? "self" = some (.frame self)) (hothers : env.get? "others" = some (.frames others))
    (hset : env.get? "set()" = none)
    (hwf : ∀ f ∈ self :: others, Rect f ∧ (names f).Nodup) :
    runBody naCell env (DataFrame_cbind truth) =
      (Bind.cbind ((self :: others).map shape)).map (List.map (realizeIn (self :: others))) := by
  rw [cbind_semantics naCell truth env self others hself hothers hset]
  exact cbindSpec_model self others hwf

/-- the names cbind yields: all column names of all frames, each once, at its first-seen position
    (`C09.cbind_names` through `cbind_eval`) — so the constructor's `dict` neither drops nor reorders anything. -/
theorem cbind_names_nodup (naCell : Cell) (truth : Term → Bool) (env : Env) (self : Frame) (others : List Frame)
    (hself : env.get? "self" = some (.frame self)) (hothers : env.get? "others" = some (.frames others))
    (hset : env.get? "set()" = none)
    (hwf : ∀ f ∈ self :: others, Rect f ∧ (names f).Nodup) (out : Frame)
    (h : runBody naCell env (DataFrame_cbind truth) = some out) :
    names out = Bind.uniqueKeys ((self :: others).flatMap names) ∧ (names out).Nodup := by
  rw [cbind_eval naCell truth env self others hself hothers hset hwf] at h
  cases hc : Bind.cbind ((self :: others).map shape) with
  | none => rw [hc] at h; cases h
  | some o =>
    rw [hc] at h
    simp only [Option.map_some, Option.some.injEq] at h
    have hn := DI.C09.cbind_names _ o hc
    have e1 : names out = o.map (·.1) := by
      rw [← h]; simp [names, realizeIn, List.map_map, Function.comp_def]
    have e2 : ((self :: others).map shape).flatMap (·.names) = (self :: others).flatMap names := by
      rw [List.flatMap_map]; rfl
    rw [e1, ← e2]
    exact hn

/-- **update(other), semantics**: the receiver's columns that `other` does not have (whole, own order), then all of
    `other`'s columns, each reconciled against the receiver (`updateStep`) and copied; a column that cannot be reconciled
    fails the call. -/
theorem update_semantics (naCell : Cell) (truth : Term → Bool) (env : Env) (self other : Frame)
    (hself : env.get? "self" = some (.frame self)) (hother : env.get? "other" = some (.frame other)) :
    runBody naCell env (DataFrame_update truth) = updateSpec self other := by
  rw [update_code]; exact run_update naCell env self other hself hother

/-- what `updateSpec` is. -/
theorem updateSpec_unfold (self other : Frame) :
    updateSpec self other =
      (foldSpec (updateStep self) () other).map (fun r => self.filter (fun p => !(names other).contains p.1) ++ r.2) ∧
    (∀ u p, updateStep self u p = (reconcileCol self p.2).map (fun c => ((), [(p.1, c)]))) :=
  ⟨rfl, fun _ _ => rfl⟩

/-- **update = the Bind model's `update`** (`update_eval`): for rectangular frames with distinct column names, the yielded
    pairs are the model's output columns read off the two frames (receiver = frame 0, `other` = frame 1) — the receiver's
    columns not in `other`, then all of `other`'s reconciled — and the body raises exactly when the model rejects. -/
theorem update_eval (naCell : Cell) (truth : Term → Bool) (env : Env) (self other : Frame)
    (hself : env.get? "self" = some (.frame self)) (hother : env.get? "other" = some (.frame other))
    (hrs : Rect self) (hns : (names self).Nodup) (hro : Rect other) (hno : (names other).Nodup) :
    runBody naCell env (DataFrame_update truth) =
      (Bind.update (shape self) (shape other)).map (List.map (realizeIn [self, other])) := by
  rw [update_semantics naCell truth env self other hself hother]
  exact updateSpec_model self other hrs hns hro hno

/-- **the trusted link, stated**: `_reconcile_column` on the cells of column `c` of input frame `i` is the model's
    `Bind.reconcile` read off the frames — kept whole, one row broadcast, or rejected, under the same conditions. -/
theorem reconcile_column_is_model (frames : List Frame) (self : Frame) (i : Nat) (c : String) :
    reconcileCol self (colOf (frames[i]!) c) =
      (Bind.reconcile i c (colOf (frames[i]!) c).length (nrow self) (names self).isEmpty).map
        (fun s => s.map (cellOfIn frames)) ∧
    (∀ col : List Cell, reconcileCol self col =
      if col.length = nrow self || self.isEmpty then some col
      else if col.length = 1 ∧ 1 ≤ nrow self then some (List.replicate (nrow self) col[0]!)
      else none) :=
  ⟨reconcile_realize frames self i c _ rfl, fun _ => rfl⟩

/-! ### non-vacuity: a 2-row receiver; a frame with a duplicate name and a one-row column (broadcast); a 3-row frame -/

def fa : Frame := [("a", [some (.i 1), none])]
def fb : Frame := [("a", [none, none]), ("c", [some (.i 7)])]
def fc : Frame := [("a", [none, none]), ("c", [some (.i 7), some (.i 8)])]
def f3 : Frame := [("e", [none, none, none])]

example : (Rect fa ∧ (names fa).Nodup) ∧ (Rect fc ∧ (names fc).Nodup) ∧ (Rect f3 ∧ (names f3).Nodup) := by decide

/-- the receiver's "a" wins over the later "a"; the one-row "c" is broadcast. -/
example : runBody none (callEnv fa [("others", .frames [fb])]) (DataFrame_cbind (fun _ => false))
    = some [("a", [some (.i 1), none]), ("c", [some (.i 7), some (.i 7)])] := by decide
example : (Bind.cbind ([fa, fc].map shape)).map (List.map (realizeIn [fa, fc]))
    = some [("a", [some (.i 1), none]), ("c", [some (.i 7), some (.i 8)])] := by decide
/-- a 3-row column against a 2-row receiver: ValueError. -/
example : runBody none (callEnv fa [("others", .frames [f3])]) (DataFrame_cbind (fun _ => false)) = none := by decide
/-- update: `other`'s "a" replaces the receiver's, at the END (the receiver's "a" is not yielded). -/
example : runBody none (callEnv fa [("other", .frame fc)]) (DataFrame_update (fun _ => false))
    = some [("a", [none, none]), ("c", [some (.i 7), some (.i 8)])] := by decide
example : (Bind.update (shape fa) (shape fc)).map (List.map (realizeIn [fa, fc]))
    = some [("a", [none, none]), ("c", [some (.i 7), some (.i 8)])] := by decide
example : runBody none (callEnv fa [("other", .frame f3)]) (DataFrame_update (fun _ => false)) = none := by decide

end DI.Eval.C09

/-
  Proofs/TieC17.lean — refinement obligations over `Generated/CodeC17.lean`, the translation of the *current*
  source of the six small functions that implement the shared-dict discipline of ListOfDicts:
  `__init__`, `_new`, `__deepcopy__`, `__copy__`, `_mark_obsolete`, `__getattribute__` (list_of_dicts.py) and
  the decorators `obsoletes` / `new_from_generator` (deco.py).  Attribute assignments are effects
  (`setattr obj attr value`); `applyWrites` reads a list object's flags off them.  The theorems say that the
  code builds list objects exactly as the state machine `Model/Obsolete.lean` does (`derive` / `deepcopy`
  objects, `markChain` step, `touch`), for every interpretation of the calls it makes.
-/
import Generated.CodeC17
import Generated.CodeC15
import Generated.CodeC16
import Proofs.TieC16
import Model.Obsolete

namespace DI.Tie.C17

open DI.Py DI.Gen DI.Obs

/-- the bookkeeping attributes of one list object; `pred` is the expression stored in `_predecessor`. -/
structure Flags where
  pred : Option Term
  obsolete : Bool
  warned : Bool

/-- replay the effects of a function, in order, on the flags of the list object they are made on.  Only
    effects that are *known* not to touch the three bookkeeping attributes in any other way are accepted
    (assignments to them, assignment of `_group_keys`, `print`, `list.__init__`, the recursive
    `_mark_obsolete` call on the predecessor); any other effect — e.g. `new.__dict__.update(...)` — makes
    the result `none`, so a theorem about the flags cannot hold by ignoring it. -/
def applyWrites : List Term → Flags → Option Flags
  | [], f => some f
  | .app "setattr" [_, .sym "_obsolete", .sym "True"] :: r, f => applyWrites r { f with obsolete := true }
  | .app "setattr" [_, .sym "_obsolete", .sym "False"] :: r, f => applyWrites r { f with obsolete := false }
  | .app "setattr" [_, .sym "_obsolete_warned", .sym "True"] :: r, f => applyWrites r { f with warned := true }
  | .app "setattr" [_, .sym "_obsolete_warned", .sym "False"] :: r, f => applyWrites r { f with warned := false }
  | .app "setattr" [_, .sym "_predecessor", .sym "None"] :: r, f => applyWrites r { f with pred := none }
  | .app "setattr" [_, .sym "_predecessor", .sym "self"] :: r, f => applyWrites r { f with pred := some (Term.sym "self") }
  | .app "setattr" [_, .sym "_group_keys", _] :: r, f => applyWrites r f
  | .app "print" _ :: r, f => applyWrites r f
  | .app "super().__init__" _ :: r, f => applyWrites r f
  | .app "._mark_obsolete" [.app "._predecessor" [.sym "self"]] :: r, f => applyWrites r f
  | _ :: _, _ => none

def effsOf : Out → List Term
  | .ret e _ => e
  | .raise e _ => e
  | .fall e => e

/-- **a new list object starts clean**: whatever the flags were, after `__init__` the object is not obsolete,
    has not warned and has no predecessor (for `as_is` true and false alike). -/
theorem init_state (truth : Term → Bool) (f : Flags) :
    ∃ g, applyWrites (effsOf (ListOfDicts_init truth)) f = some g ∧
      g.pred.isNone = true ∧ g.obsolete = false ∧ g.warned = false := by
  simp [ListOfDicts_init, effsOf, applyWrites]

/-- `_new(dicts)` builds `self.__class__(dicts, as_is=True)` — the given dict objects themselves, not copies —
    and then records the receiver as predecessor: together with `init_state` this is the list object of the
    model's `derive` / `editInPlace` / `editFresh` (`pred := some r, obsolete := false, warned := false`). -/
theorem new_links_to_receiver (truth : Term → Bool) (f : Flags) :
    (∃ effs, ListOfDicts_new truth = Out.ret effs
        (Term.app ".__class__" [Term.sym "self", Term.sym "dicts", Term.app "=as_is" [Term.sym "True"]])) ∧
    ∃ g, ((applyWrites (effsOf (ListOfDicts_init truth)) f).bind (applyWrites (effsOf (ListOfDicts_new truth)))) = some g ∧
      (∃ t, g.pred = some t ∧ t = Term.sym "self") ∧ g.obsolete = false ∧ g.warned = false := by
  constructor
  · exact ⟨_, rfl⟩
  · simp [ListOfDicts_new, ListOfDicts_init, effsOf, applyWrites]

/-- `__deepcopy__` builds the new list from `map(copy.deepcopy, self)` (fresh dict objects) and writes no
    `_predecessor`: the chain is cut, as in the model's `deepcopy` (`pred := none`). -/
theorem deepcopy_cuts_chain (truth : Term → Bool) (f : Flags) :
    (∃ effs, ListOfDicts_deepcopy truth = Out.ret effs
        (Term.app ".__class__" [Term.sym "self", Term.app "map" [Term.sym "copy.deepcopy", Term.sym "self"],
                                Term.app "=as_is" [Term.sym "True"]])) ∧
    ∃ g, ((applyWrites (effsOf (ListOfDicts_init truth)) f).bind (applyWrites (effsOf (ListOfDicts_deepcopy truth)))) = some g ∧
      g.pred.isNone = true ∧ g.obsolete = false ∧ g.warned = false := by
  constructor
  · exact ⟨_, rfl⟩
  · simp [ListOfDicts_deepcopy, ListOfDicts_init, effsOf, applyWrites]

/-- `copy` hands on the same item objects through `_new` (so the copy is a *successor* of the receiver). -/
theorem copy_is_new_of_self (truth : Term → Bool) :
    ListOfDicts_copy truth = Out.ret [] (Term.app "._new" [Term.sym "self", Term.sym "self"]) := rfl

/-- one unrolling of `_mark_obsolete` is one step of the model's `markChain`: first the predecessor (when it is a
    ListOfDicts), then the receiver itself becomes obsolete — and nothing else is written. -/
theorem mark_obsolete_step (truth : Term → Bool) :
    effsOf (ListOfDicts_mark_obsolete truth) =
      (if truth (Term.app "isinstance" [Term.app "._predecessor" [Term.sym "self"], Term.sym "ListOfDicts"])
       then [Term.app "._mark_obsolete" [Term.app "._predecessor" [Term.sym "self"]]] else []) ++
      [Term.app "setattr" [Term.sym "self", Term.sym "_obsolete", Term.sym "True"]] := by
  unfold ListOfDicts_mark_obsolete
  split <;> simp [effsOf]

theorem mark_obsolete_sets_only_obsolete (truth : Term → Bool) (f : Flags) :
    ∃ g, applyWrites (effsOf (ListOfDicts_mark_obsolete truth)) f = some g ∧
      g.obsolete = true ∧ g.warned = f.warned ∧ g.pred = f.pred := by
  unfold ListOfDicts_mark_obsolete
  split <;> simp [effsOf, applyWrites]

/-- **warn once** (`__getattribute__` = the model's `touch`): for an attribute that is callable and whose name
    does not contain "obsolete", the warning is printed and `_obsolete_warned` set exactly when the list is
    obsolete and has not warned yet; the attribute value is returned unchanged in both cases. -/
theorem getattribute_is_touch (truth : Term → Bool)
    (hname : truth (Term.app "NotIn" [Term.sym "'obsolete'", Term.sym "name"]) = true)
    (hcall : truth (Term.app "callable" [Term.app "super().__getattribute__" [Term.sym "name"]]) = true)
    (f : Flags)
    (hobs : truth (Term.app "._obsolete" [Term.sym "self"]) = f.obsolete)
    (hwarn : truth (Term.app "._obsolete_warned" [Term.sym "self"]) = f.warned) :
    let out := ListOfDicts_getattribute truth
    (∃ e, out = Out.ret e (Term.app "super().__getattribute__" [Term.sym "name"])) ∧
    ((effsOf out ≠ []) ↔ (f.obsolete = true ∧ f.warned = false)) ∧
    ∃ g, applyWrites (effsOf out) f = some g ∧
      g.warned = (f.warned || f.obsolete) ∧ g.obsolete = f.obsolete ∧ g.pred = f.pred := by
  unfold ListOfDicts_getattribute
  cases ho : f.obsolete <;> cases hw : f.warned <;> simp_all [effsOf, applyWrites]

/-- the bookkeeping attributes themselves (`_obsolete`, `_obsolete_warned`, `_mark_obsolete`) and non-callable
    attributes never warn. -/
theorem getattribute_silent (truth : Term → Bool)
    (h : truth (Term.app "NotIn" [Term.sym "'obsolete'", Term.sym "name"]) = false ∨
         truth (Term.app "callable" [Term.app "super().__getattribute__" [Term.sym "name"]]) = false) :
    ListOfDicts_getattribute truth = Out.ret [] (Term.app "super().__getattribute__" [Term.sym "name"]) := by
  unfold ListOfDicts_getattribute
  rcases h with h | h <;> simp [h]

/-- `@obsoletes`: the wrapped method runs first (its result list is built by then, with the receiver as its
    predecessor), then the receiver's chain is marked, then the value is returned: the result is not on the
    marked chain, so "the list returned by the editing method is not obsolete". -/
theorem obsoletes_marks_after_call (truth : Term → Bool) :
    deco_obsoletes_wrapper truth =
      Out.ret [Term.app "._mark_obsolete" [Term.sym "self"]]
        (Term.app "function" [Term.sym "self", Term.app "*" [Term.sym "args"], Term.app "=**" [Term.sym "kwargs"]]) := rfl

/-- `@new_from_generator`: every transforming method returns `self._new(<what the method yields>)`. -/
theorem new_from_generator_goes_through_new (truth : Term → Bool) :
    deco_new_from_generator_wrapper truth =
      Out.ret [] (Term.app "._new" [Term.sym "self",
        Term.app "function" [Term.sym "self", Term.app "*" [Term.sym "args"], Term.app "=**" [Term.sym "kwargs"]]]) := rfl

/-! ### which methods write into the receiver's items — and that exactly those are marked `@deco.obsoletes`

  `Out.writesItems` (Model/PyCore.lean) scans the translated body for a store / `del` / mutating dict method on the loop
  variable `item`.  The decorator lists are regenerated from the source with the bodies. -/

/-- **every method whose body writes into the receiver's items is `@obsoletes`** (outermost, around
    `@new_from_generator`: the generator is consumed — all items edited — before the receiver's chain is marked), for
    every interpretation of the calls made. -/
theorem writers_are_marked (truth : Term → Bool) :
    ((ListOfDicts_modify truth).writesItems = true ∧ ListOfDicts_modify_decorators = ["deco.obsoletes", "deco.new_from_generator"]) ∧
    ((ListOfDicts_modify_if truth).writesItems = true ∧ ListOfDicts_modify_if_decorators = ["deco.obsoletes", "deco.new_from_generator"]) ∧
    ((ListOfDicts_fill_missing_keys truth).writesItems = true ∧ ListOfDicts_fill_missing_keys_decorators = ["deco.obsoletes", "deco.new_from_generator"]) ∧
    ((ListOfDicts_unselect truth).writesItems = true ∧ ListOfDicts_unselect_decorators = ["deco.obsoletes", "deco.new_from_generator"]) ∧
    ((ListOfDicts_left_join truth).writesItems = true ∧ ListOfDicts_left_join_decorators = ["deco.obsoletes", "deco.new_from_generator"]) ∧
    ((ListOfDicts_inner_join truth).writesItems = true ∧ ListOfDicts_inner_join_decorators = ["deco.obsoletes", "deco.new_from_generator"]) := by
  refine ⟨⟨?_, rfl⟩, ⟨?_, rfl⟩, ⟨?_, rfl⟩, ⟨?_, rfl⟩, ⟨?_, rfl⟩, ⟨?_, rfl⟩⟩
  · rfl
  · rfl
  · unfold ListOfDicts_fill_missing_keys; split <;> rfl
  · rfl
  · rfl
  · rfl

/-- **the methods that only choose, reorder or add items write into no item and mark nothing**: they are
    `@new_from_generator` only (a successor list is built, the receiver stays usable without a warning). -/
theorem non_writers_unmarked (truth : Term → Bool) :
    ((ListOfDicts_filter truth).writesItems = false ∧ ListOfDicts_filter_decorators = ["deco.new_from_generator"]) ∧
    ((ListOfDicts_filter_out truth).writesItems = false ∧ ListOfDicts_filter_out_decorators = ["deco.new_from_generator"]) ∧
    ((ListOfDicts_unique truth).writesItems = false ∧ ListOfDicts_unique_decorators = ["deco.new_from_generator"]) ∧
    ((ListOfDicts_anti_join truth).writesItems = false ∧ ListOfDicts_anti_join_decorators = ["deco.new_from_generator"]) ∧
    ((ListOfDicts_semi_join truth).writesItems = false ∧ ListOfDicts_semi_join_decorators = ["deco.new_from_generator"]) ∧
    ((ListOfDicts_append truth).writesItems = false ∧ ListOfDicts_append_decorators = ["deco.new_from_generator"]) ∧
    ((ListOfDicts_extend truth).writesItems = false ∧ ListOfDicts_extend_decorators = ["deco.new_from_generator"]) ∧
    ((ListOfDicts_insert truth).writesItems = false ∧ ListOfDicts_insert_decorators = ["deco.new_from_generator"]) ∧
    ((ListOfDicts_reverse truth).writesItems = false ∧ ListOfDicts_reverse_decorators = ["deco.new_from_generator"]) ∧
    ((ListOfDicts_add truth).writesItems = false ∧ ListOfDicts_add_decorators = ["deco.new_from_generator"]) ∧
    ((ListOfDicts_mul truth).writesItems = false ∧ ListOfDicts_mul_decorators = ["deco.new_from_generator"]) ∧
    ((ListOfDicts_aggregate truth).writesItems = false ∧ ListOfDicts_aggregate_decorators = ["deco.new_from_generator"]) ∧
    ((ListOfDicts_sort truth).writesItems = false ∧ ListOfDicts_sort_decorators = []) ∧
    ((∀ b d l n, (ListOfDicts_head truth b d l n).writesItems = false) ∧ ListOfDicts_head_decorators = []) := by
  refine ⟨⟨?_, rfl⟩, ⟨?_, rfl⟩, ⟨?_, rfl⟩, ⟨?_, rfl⟩, ⟨?_, rfl⟩, ⟨?_, rfl⟩, ⟨?_, rfl⟩, ⟨?_, rfl⟩, ⟨?_, rfl⟩, ⟨?_, rfl⟩, ⟨?_, rfl⟩, ⟨?_, rfl⟩, ⟨?_, rfl⟩, ⟨?_, rfl⟩⟩
  · unfold ListOfDicts_filter; dsimp only; repeat' split
    all_goals rfl
  · unfold ListOfDicts_filter_out; dsimp only; repeat' split
    all_goals rfl
  · unfold ListOfDicts_unique; dsimp only; repeat' split
    all_goals rfl
  · rfl
  · rfl
  · unfold ListOfDicts_append; split <;> rfl
  · unfold ListOfDicts_extend; split <;> rfl
  · unfold ListOfDicts_insert; split <;> rfl
  · rfl
  · unfold ListOfDicts_add; split <;> rfl
  · unfold ListOfDicts_mul; split <;> rfl
  · rfl
  · rfl
  · intro b d l n; unfold ListOfDicts_head; dsimp only; repeat' split
    all_goals rfl

/-- select and rename build NEW items (they write into no item of the receiver) but are documented as editing methods all
    the same: they are marked `@obsoletes`. -/
theorem rebuilders_are_marked (truth : Term → Bool) :
    ((ListOfDicts_select truth).writesItems = false ∧ ListOfDicts_select_decorators = ["deco.obsoletes", "deco.new_from_generator"]) ∧
    ((ListOfDicts_rename truth).writesItems = false ∧ ListOfDicts_rename_decorators = ["deco.obsoletes", "deco.new_from_generator"]) :=
  ⟨⟨rfl, rfl⟩, ⟨rfl, rfl⟩⟩

/-- **aggregate edits only a deep copy**: the one editing call it makes (`select`, which is `@obsoletes`) has as its
    receiver `self.unique(*by).deepcopy()` — a list whose chain was cut by `__deepcopy__` (`deepcopy_cuts_chain`) — so
    the mark stops there: a mere `aggregate()` leaves the grouped list and all its ancestors non-obsolete. -/
theorem aggregate_edits_only_a_deep_copy (truth : Term → Bool) :
    ∃ rest body inits, ListOfDicts_aggregate truth = Out.fall [rest,
      Term.app "for" (Term.sym "group" ::
        Term.app ".sort" [Term.app ".select" [Term.app ".deepcopy" [Term.app ".unique" [Term.sym "self", Term.app "*" [Term.app "._group_keys" [Term.sym "self"]]]],
          Term.app "*" [Term.app "._group_keys" [Term.sym "self"]]],
          Term.app "=**" [Term.app "dict.fromkeys" [Term.app "._group_keys" [Term.sym "self"], Term.int 1]]] :: body :: inits)] :=
  ⟨_, _, _, rfl⟩

/-- full_join writes `_aid_` / `_bid_` and merges only into deep copies of its operands. -/
theorem full_join_works_on_deep_copies (truth : Term → Bool) :
    ListOfDicts_full_join_decorators = [] ∧ (ListOfDicts_full_join truth).writesItems = false := by
  refine ⟨rfl, ?_⟩
  unfold ListOfDicts_full_join
  dsimp only
  split <;> rfl

/-- link to the model: `touch` warns exactly under the same condition. -/
theorem model_touch_condition (w : World) (r : Nat) (l : LObj) (h : w.lists[r]? = some l) :
    (touch w r).2 = (l.obsolete && !l.warned) := by
  unfold touch
  rw [h]
  by_cases hc : (l.obsolete && !l.warned) = true <;> simp [hc]

/-! ### evaluation order (the `let`-inlined terms do not say when an assigned call runs; the regenerated call order does) -/

/-- `@obsoletes`: the wrapped method is CALLED FIRST, the chain is marked afterwards — so the method's own `self._new(...)`
    still sees a receiver that is not obsolete (`Eval.C17.obsoletes_order_matters` shows the order is observable), and a
    method that raises marks nobody. -/
theorem obsoletes_calls_the_method_first :
    deco_obsoletes_wrapper_call_order = ["function", "self._mark_obsolete"] := rfl

/-- `@new_from_generator`: the method (a generator function: the call only creates the generator) and then `_new`. -/
theorem new_from_generator_call_order :
    deco_new_from_generator_wrapper_call_order = ["function", "self._new"] := rfl

/-- `_mark_obsolete` makes no call but the test and the recursive call on the predecessor. -/
theorem mark_obsolete_call_order :
    ListOfDicts_mark_obsolete_call_order = ["isinstance", "self._predecessor._mark_obsolete"] := rfl

end DI.Tie.C17

/-
  Proofs/TieC17.lean — refinement obligations over `Generated/CodeC17.lean`, the translation of the *current*
  source of the six small functions that implement the shared-dict discipline of ListOfDicts:
  `__init__`, `_new`, `__deepcopy__`, `__copy__`, `_mark_obsolete`, `__getattribute__` (list_of_dicts.py) and
  the decorators `obsoletes` / `new_from_generator` (deco.py).  Attribute assignments are effects
  (`setattr obj attr value`); `applyWrites` reads a list object's flags off them.  The theorems say that the
  code builds list objects exactly as the state machine `Model/Obsolete.lean` does (`derive` / `deepcopy`
  objects, `markChain` step, `touch`), for every interpretation of the calls it makes.
-/
import Generated.CodeC17
import Model.Obsolete

namespace DI.Tie.C17

open DI.Py DI.Gen DI.Obs

/-- the bookkeeping attributes of one list object; `pred` is the expression stored in `_predecessor`. -/
structure Flags where
  pred : Option Term
  obsolete : Bool
  warned : Bool

/-- replay the effects of a function, in order, on the flags of the list object they are made on.  Only
    effects that are *known* not to touch the three bookkeeping attributes in any other way are accepted
    (assignments to them, assignment of `_group_keys`, `print`, `list.__init__`, the recursive
    `_mark_obsolete` call on the predecessor); any other effect — e.g. `new.__dict__.update(...)` — makes
    the result `none`, so a theorem about the flags cannot hold by ignoring it. -/
def applyWrites : List Term → Flags → Option Flags
  | [], f => some f
  | .app "setattr" [_, .sym "_obsolete", .sym "True"] :: r, f => applyWrites r { f with obsolete := true }
  | .app "setattr" [_, .sym "_obsolete", .sym "False"] :: r, f => applyWrites r { f with obsolete := false }
  | .app "setattr" [_, .sym "_obsolete_warned", .sym "True"] :: r, f => applyWrites r { f with warned := true }
  | .app "setattr" [_, .sym "_obsolete_warned", .sym "False"] :: r, f => applyWrites r { f with warned := false }
  | .app "setattr" [_, .sym "_predecessor", .sym "None"] :: r, f => applyWrites r { f with pred := none }
  | .app "setattr" [_, .sym "_predecessor", .sym "self"] :: r, f => applyWrites r { f with pred := some (Term.sym "self") }
  | .app "setattr" [_, .sym "_group_keys", _] :: r, f => applyWrites r f
  | .app "print" _ :: r, f => applyWrites r f
  | .app "super().__init__" _ :: r, f => applyWrites r f
  | .app "._mark_obsolete" [.app "._predecessor" [.sym "self"]] :: r, f => applyWrites r f
  | _ :: _, _ => none

def effsOf : Out → List Term
  | .ret e _ => e
  | .raise e _ => e
  | .fall e => e

/-- **a new list object starts clean**: whatever the flags were, after `__init__` the object is not obsolete,
    has not warned and has no predecessor (for `as_is` true and false alike). -/
theorem init_state (truth : Term → Bool) (f : Flags) :
    ∃ g, applyWrites (effsOf (ListOfDicts_init truth)) f = some g ∧
      g.pred.isNone = true ∧ g.obsolete = false ∧ g.warned = false := by
  simp [ListOfDicts_init, effsOf, applyWrites]

/-- `_new(dicts)` builds `self.__class__(dicts, as_is=True)` — the given dict objects themselves, not copies —
    and then records the receiver as predecessor: together with `init_state` this is the list object of the
    model's `derive` / `editInPlace` / `editFresh` (`pred := some r, obsolete := false, warned := false`). -/
theorem new_links_to_receiver (truth : Term → Bool) (f : Flags) :
    (∃ effs, ListOfDicts_new truth = Out.ret effs
        (Term.app ".__class__" [Term.sym "self", Term.sym "dicts", Term.app "=as_is" [Term.sym "True"]])) ∧
    ∃ g, ((applyWrites (effsOf (ListOfDicts_init truth)) f).bind (applyWrites (effsOf (ListOfDicts_new truth)))) = some g ∧
      (∃ t, g.pred = some t ∧ t = Term.sym "self") ∧ g.obsolete = false ∧ g.warned = false := by
  constructor
  · exact ⟨_, rfl⟩
  · simp [ListOfDicts_new, ListOfDicts_init, effsOf, applyWrites]

/-- `__deepcopy__` builds the new list from `map(copy.deepcopy, self)` (fresh dict objects) and writes no
    `_predecessor`: the chain is cut, as in the model's `deepcopy` (`pred := none`). -/
theorem deepcopy_cuts_chain (truth : Term → Bool) (f : Flags) :
    (∃ effs, ListOfDicts_deepcopy truth = Out.ret effs
        (Term.app ".__class__" [Term.sym "self", Term.app "map" [Term.sym "copy.deepcopy", Term.sym "self"],
                                Term.app "=as_is" [Term.sym "True"]])) ∧
    ∃ g, ((applyWrites (effsOf (ListOfDicts_init truth)) f).bind (applyWrites (effsOf (ListOfDicts_deepcopy truth)))) = some g ∧
      g.pred.isNone = true ∧ g.obsolete = false ∧ g.warned = false := by
  constructor
  · exact ⟨_, rfl⟩
  · simp [ListOfDicts_deepcopy, ListOfDicts_init, effsOf, applyWrites]

/-- `copy` hands on the same item objects through `_new` (so the copy is a *successor* of the receiver). -/
theorem copy_is_new_of_self (truth : Term → Bool) :
    ListOfDicts_copy truth = Out.ret [] (Term.app "._new" [Term.sym "self", Term.sym "self"]) := rfl

/-- one unrolling of `_mark_obsolete` is one step of the model's `markChain`: first the predecessor (when it is a
    ListOfDicts), then the receiver itself becomes obsolete — and nothing else is written. -/
theorem mark_obsolete_step (truth : Term → Bool) :
    effsOf (ListOfDicts_mark_obsolete truth) =
      (if truth (Term.app "isinstance" [Term.app "._predecessor" [Term.sym "self"], Term.sym "ListOfDicts"])
       then [Term.app "._mark_obsolete" [Term.app "._predecessor" [Term.sym "self"]]] else []) ++
      [Term.app "setattr" [Term.sym "self", Term.sym "_obsolete", Term.sym "True"]] := by
  unfold ListOfDicts_mark_obsolete
  split <;> simp [effsOf]

theorem mark_obsolete_sets_only_obsolete (truth : Term → Bool) (f : Flags) :
    ∃ g, applyWrites (effsOf (ListOfDicts_mark_obsolete truth)) f = some g ∧
      g.obsolete = true ∧ g.warned = f.warned ∧ g.pred = f.pred := by
  unfold ListOfDicts_mark_obsolete
  split <;> simp [effsOf, applyWrites]

/-- **warn once** (`__getattribute__` = the model's `touch`): for an attribute that is callable and whose name
    does not contain "obsolete", the warning is printed and `_obsolete_warned` set exactly when the list is
    obsolete and has not warned yet; the attribute value is returned unchanged in both cases. -/
theorem getattribute_is_touch (truth : Term → Bool)
    (hname : truth (Term.app "NotIn" [Term.sym "'obsolete'", Term.sym "name"]) = true)
    (hcall : truth (Term.app "callable" [Term.app "super().__getattribute__" [Term.sym "name"]]) = true)
    (f : Flags)
    (hobs : truth (Term.app "._obsolete" [Term.sym "self"]) = f.obsolete)
    (hwarn : truth (Term.app "._obsolete_warned" [Term.sym "self"]) = f.warned) :
    let out := ListOfDicts_getattribute truth
    (∃ e, out = Out.ret e (Term.app "super().__getattribute__" [Term.sym "name"])) ∧
    ((effsOf out ≠ []) ↔ (f.obsolete = true ∧ f.warned = false)) ∧
    ∃ g, applyWrites (effsOf out) f = some g ∧
      g.warned = (f.warned || f.obsolete) ∧ g.obsolete = f.obsolete ∧ g.pred = f.pred := by
  unfold ListOfDicts_getattribute
  cases ho : f.obsolete <;> cases hw : f.warned <;> simp_all [effsOf, applyWrites]

/-- the bookkeeping attributes themselves (`_obsolete`, `_obsolete_warned`, `_mark_obsolete`) and non-callable
    attributes never warn. -/
theorem getattribute_silent (truth : Term → Bool)
    (h : truth (Term.app "NotIn" [Term.sym "'obsolete'", Term.sym "name"]) = false ∨
         truth (Term.app "callable" [Term.app "super().__getattribute__" [Term.sym "name"]]) = false) :
    ListOfDicts_getattribute truth = Out.ret [] (Term.app "super().__getattribute__" [Term.sym "name"]) := by
  unfold ListOfDicts_getattribute
  rcases h with h | h <;> simp [h]

/-- `@obsoletes`: the wrapped method runs first (its result list is built by then, with the receiver as its
    predecessor), then the receiver's chain is marked, then the value is returned: the result is not on the
    marked chain, so "the list returned by the editing method is not obsolete". -/
theorem obsoletes_marks_after_call (truth : Term → Bool) :
    deco_obsoletes_wrapper truth =
      Out.ret [Term.app "._mark_obsolete" [Term.sym "self"]]
        (Term.app "function" [Term.sym "self", Term.app "*" [Term.sym "args"], Term.app "=**" [Term.sym "kwargs"]]) := rfl

/-- `@new_from_generator`: every transforming method returns `self._new(<what the method yields>)`. -/
theorem new_from_generator_goes_through_new (truth : Term → Bool) :
    deco_new_from_generator_wrapper truth =
      Out.ret [] (Term.app "._new" [Term.sym "self",
        Term.app "function" [Term.sym "self", Term.app "*" [Term.sym "args"], Term.app "=**" [Term.sym "kwargs"]]]) := rfl

/-- link to the model: `touch` warns exactly under the same condition. -/
theorem model_touch_condition (w : World) (r : Nat) (l : LObj) (h : w.lists[r]? = some l) :
    (touch w r).2 = (l.obsolete && !l.warned) := by
  unfold touch
  rw [h]
  by_cases hc : (l.obsolete && !l.warned) = true <;> simp [hc]

end DI.Tie.C17

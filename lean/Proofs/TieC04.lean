/-
  Proofs/TieC04.lean — obligations over `Generated/CodeC04.lean`, the translation of the *current* source of
  `DataFrame.count` and `DataFrame.group_by`: `group_by` writes the group column names on the receiver (and
  nothing else) and returns the receiver; `count` therefore groups a *copy*, so that it neither regroups nor
  ungroups the frame it is called on ("count … use the same partition", and C06: the receiver is unchanged).
-/
import Generated.CodeC04

namespace DI.Tie.C04

open DI.Py DI.Gen

/-- `group_by` marks and returns the receiver: its only effect is `self._group_colnames = tuple(colnames)`. -/
theorem group_by_marks_receiver (truth : Term → Bool) :
    DataFrame_group_by truth =
      Out.ret [Term.app "setattr" [Term.sym "self", Term.sym "_group_colnames", Term.app "tuple()" [Term.sym "colnames"]]]
        (Term.sym "self") := rfl

/-- the object a `count` call groups. -/
def groupedObject : Out → Option Term
  | .ret [] (.app ".aggregate" [.app ".group_by" (obj :: _), _]) => some obj
  | _ => none

/-- `count` groups `self.copy()`, never `self`: no effect on the receiver, and the summary is
    `aggregate(n=dataiter.count())` over the requested columns. -/
theorem count_groups_a_copy (truth : Term → Bool) :
    groupedObject (DataFrame_count truth) = some (Term.app ".copy" [Term.sym "self"]) ∧
    DataFrame_count truth = Out.ret [] (Term.app ".aggregate"
      [Term.app ".group_by" [Term.app ".copy" [Term.sym "self"], Term.app "*" [Term.sym "colnames"]],
       Term.app "=n" [Term.app "dataiter.count" []]]) := ⟨rfl, rfl⟩

/-! ### split / aggregate: groups are the runs of the frame SORTED by the group columns, cut where `unique` finds a new key -/

def byOnes (names : Term) : Term := Term.app "=**" [Term.app "dict.fromkeys" [names, Term.int 1]]

/-- **split as written**: the key columns alone, tagged with the original row numbers (`_index_`), sorted ascending by all
    keys (the stable sort of C03: rows of one key stay in original order), tagged with the sorted position; `unique` over the
    keys gives the FIRST sorted position of every distinct key combination (a missing value is a key of its own there); the
    original row numbers, in sorted order (`sorted._index_`: the column READ BACK from the sorted frame, not the `arange`
    that was stored before sorting), are cut at those positions (`np.split(..., starts[1:])`). -/
theorem split_code (truth : Term → Bool) :
    DataFrame_split truth =
      let keys := Term.app ".select" [Term.sym "self", Term.app "*" [Term.sym "by"]]
      let index := Term.app "np.arange" [Term.app ".nrow" [keys]]
      let sorted := Term.app ".sort" [keys, byOnes (Term.sym "by")]
      let spos := Term.app "np.arange" [Term.app ".nrow" [sorted]]
      let starts := Term.app "._sorted_index_" [Term.app ".unique" [sorted, Term.app "*" [Term.sym "by"]]]
      Out.ret [Term.app "setattr" [keys, Term.sym "_index_", index], Term.app "setattr" [sorted, Term.sym "_sorted_index_", spos]]
        (Term.app "np.split" [Term.app "._index_" [sorted], Term.app "getitem" [starts, Term.slice (some 1) none]]) := rfl

/-- **aggregate, the grouping part**: the frame sorted ascending by the group columns (`data`), its rows numbered, one
    summary row per distinct key combination = `data.unique(*group_colnames)` restricted to (`_index_`, the group columns) — so
    the summary rows come in ascending key order and carry the key values of the first row of their group —, the row numbers
    cut at the group starts (no rows ⇒ no group); the result is that summary frame with the bookkeeping columns removed. -/
theorem aggregate_grouping (truth : Term → Bool) :
    let g := Term.app "._group_colnames" [Term.sym "self"]
    let data := Term.app ".sort" [Term.sym "self", byOnes g]
    let index := Term.app "np.arange" [Term.app ".nrow" [data]]
    let stat := Term.app ".select" [Term.app ".unique" [data, Term.app "*" [g]], Term.sym "'_index_'", Term.app "*" [g]]
    ∃ effs, DataFrame_aggregate truth =
      Out.ret (Term.app "setattr" [data, Term.sym "_index_", index] :: effs) (Term.app ".unselect" [stat, Term.sym "'_index_'", Term.sym "'_group_'"]) := by
  unfold DataFrame_aggregate
  dsimp only [byOnes]
  split <;> exact ⟨_, rfl⟩

theorem grouping_signatures :
    DataFrame_aggregate_signature = ["self", "**colname_function_pairs"] ∧ DataFrame_split_signature = ["self", "*by"] ∧
    DataFrame_modify_signature = ["self", "**colname_value_pairs"] := ⟨rfl, rfl, rfl⟩

/-! ### evaluation order -/

/-- `split` numbers the rows BEFORE sorting and the sorted positions AFTER it (the two `np.arange` calls around `data.sort`),
    and asks `unique` of the sorted frame. -/
theorem split_call_order :
    DataFrame_split_call_order = ["self.select", "np.arange", "dict.fromkeys", "data.sort", "np.arange", "data.unique", "np.split"] := rfl

/-- `count` groups a COPY of the receiver. -/
theorem count_call_order :
    DataFrame_count_call_order = ["self.copy", "self.copy().group_by", "dataiter.count", "self.copy().group_by(*colnames).aggregate"] := rfl

end DI.Tie.C04

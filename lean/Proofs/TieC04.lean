/-
  Proofs/TieC04.lean — obligations over `Generated/CodeC04.lean`, the translation of the *current* source of
  `DataFrame.count` and `DataFrame.group_by`: `group_by` writes the group column names on the receiver (and
  nothing else) and returns the receiver; `count` therefore groups a *copy*, so that it neither regroups nor
  ungroups the frame it is called on ("count … use the same partition", and C06: the receiver is unchanged).
-/
import Generated.CodeC04

namespace DI.Tie.C04

open DI.Py DI.Gen

/-- `group_by` marks and returns the receiver: its only effect is `self._group_colnames = tuple(colnames)`. -/
theorem group_by_marks_receiver (truth : Term → Bool) :
    DataFrame_group_by truth =
      Out.ret [Term.app "setattr" [Term.sym "self", Term.sym "_group_colnames", Term.app "tuple()" [Term.sym "colnames"]]]
        (Term.sym "self") := rfl

/-- the object a `count` call groups. -/
def groupedObject : Out → Option Term
  | .ret [] (.app ".aggregate" [.app ".group_by" (obj :: _), _]) => some obj
  | _ => none

/-- `count` groups `self.copy()`, never `self`: no effect on the receiver, and the summary is
    `aggregate(n=dataiter.count())` over the requested columns. -/
theorem count_groups_a_copy (truth : Term → Bool) :
    groupedObject (DataFrame_count truth) = some (Term.app ".copy" [Term.sym "self"]) ∧
    DataFrame_count truth = Out.ret [] (Term.app ".aggregate"
      [Term.app ".group_by" [Term.app ".copy" [Term.sym "self"], Term.app "*" [Term.sym "colnames"]],
       Term.app "=n" [Term.app "dataiter.count" []]]) := ⟨rfl, rfl⟩

end DI.Tie.C04

/-
  Proofs/C01.lean — property C01: every data frame is a well-formed rectangular table.
  Statements only; proofs cite Lemmas/FrameState.lean.

  `Inv nm s`: column names are unique, all columns have the frame's row count, and exactly the
  identifier names that do not clash with class attributes carry the placeholder attribute.
  `nm` supplies `str.isidentifier` and `name in dir(DataFrame())`.
-/
import Model.FrameState
import Lemmas.FrameState
import Lemmas.Colnames

namespace DI.C01

open DI.FS

/-- the constructor establishes the invariant for every pair list it accepts. -/
theorem constructor_wellformed (nm : Names) (ps : List (String × Shape)) (s : State)
    (h : new nm ps = some s) : Inv nm s := new_inv nm ps s h

/-- every operation of the public surface (item / attribute assignment and deletion, pop,
    popitem, colnames assignment, any transforming method rebuilding through the constructor)
    preserves it. -/
theorem step_wellformed (nm : Names) (s s' : State) (op : Op) (h : Inv nm s)
    (hs : step nm s op = some s') : Inv nm s' := step_inv nm s s' op h hs

/-- hence every frame reachable by any finite sequence of operations is well-formed
    (a rejected operation raises and leaves the frame as it was). -/
theorem reachable_wellformed (nm : Names) (ps : List (String × Shape)) (s0 : State)
    (h0 : new nm ps = some s0) (ops : List Op) :
    Inv nm (ops.foldl (fun st op => (step nm st op).getD st) s0) :=
  run_inv nm s0 ops (new_inv nm ps s0 h0)

/-- broadcast rule: a stored column always has the row count; it was either of that length or a
    length-one value / scalar broadcast to a row count ≥ 1, and never a non-1-d value. -/
theorem broadcast_rule (v : Shape) (n m : Nat) (h : column v (some n) = some m) :
    m = n ∧ v ≠ .nd ∧ (v.length = n ∨ (v.length = 1 ∧ 1 ≤ n)) := column_some v n m h

/-- any other length mismatch is rejected instead of being stored. -/
theorem mismatch_rejected (v : Shape) (n : Nat) (h1 : v.length ≠ n) (h2 : v.length ≠ 1 ∨ n < 1) :
    column v (some n) = none := column_rejects v n h1 h2

/-- assignment keeps the column order: an existing name keeps its place, a new one is appended. -/
theorem assignment_keeps_order (nm : Names) (s s' : State) (k : String) (v : Shape) (h : Inv nm s)
    (hs : setitem nm s k v = some s') :
    s'.names = (if k ∈ s.names then s.names else s.names ++ [k]) := (setitem_inv nm s s' k v h hs).2

/-- deletion removes exactly that name and keeps the order of the others. -/
theorem deletion_keeps_order (nm : Names) (s s' : State) (k : String) (h : Inv nm s)
    (hs : delitem nm s k = some s') : k ∉ s'.names ∧ s'.names = s.names.filter (· != k) :=
  (delitem_inv nm s s' k h hs).2

/-- a column is reachable identically by key and by attribute (identifier names that do not
    clash with methods); once removed it is reachable by neither. -/
theorem key_attribute_coherent (nm : Names) (s : State) (h : Inv nm s) (k : String)
    (hid : nm.ident k = true) (hcl : nm.classAttr k = false) :
    (k ∈ s.names → lookupAttr nm s k = .column) ∧ (k ∉ s.names → lookupAttr nm s k = .attributeError) :=
  attr_key_coherent nm s h k hid hcl

/-- attribute access never returns the placeholder class. -/
theorem placeholder_never_leaks (nm : Names) (s : State) (h : Inv nm s) (k : String) :
    lookupAttr nm s k ≠ .placeholderLeak := no_placeholder_leak nm s h k

/-! ### colnames assignment -/

/-- colnames assignment renames positionally: assigning a list of distinct names of the right length
    renames column `k` to `ns[k]` for every `k`, keeps the order, every column's slot (its length) and the
    row count, and the frame stays well-formed. -/
theorem colnames_positional (nm : Names) (s : State) (ns : List String) (h : Inv nm s)
    (hnd : ns.Nodup) (hlen : ns.length = s.names.length) :
    ∃ s', step nm s (.colnames ns) = some s' ∧
      s'.cols = List.zipWith (fun k c => (k, c.2)) ns s.cols ∧ s'.names = ns ∧ s'.nrow = s.nrow ∧
      (∀ k (h1 : k < ns.length) (h2 : k < s.cols.length) (h3 : k < s'.cols.length),
        s'.cols[k] = (ns[k], (s.cols[k]).2)) ∧ Inv nm s' :=
  colnames_positional_spec nm s ns h hnd hlen

/-- the general behaviour (`zip` truncates to the shorter of both lists): the renamed columns — the
    first `min` of both lengths — are popped and re-appended in order under their new names, each keeping
    its slot; columns beyond a too-short list keep their names but now come FIRST.  Needs: the used new
    names are distinct and none of them is the name of a column that is not renamed. -/
theorem colnames_general (nm : Names) (s : State) (ns : List String) (h : Inv nm s)
    (hnd : (ns.take s.names.length).Nodup)
    (hfresh : ∀ k ∈ ns.take s.names.length, k ∉ s.names.drop ns.length) :
    ∃ s', step nm s (.colnames ns) = some s' ∧
      s'.cols = s.cols.drop ns.length ++ List.zipWith (fun k c => (k, c.2)) ns s.cols ∧ Inv nm s' :=
  colnames_spec nm s ns h hnd hfresh

/-- colnames assignment is never rejected on a well-formed frame, whatever list is assigned (wrong
    length or repeated names included): the model has no rejection branch reachable from `Inv`. -/
theorem colnames_never_rejected (nm : Names) (s : State) (ns : List String) (h : Inv nm s) :
    ∃ s', step nm s (.colnames ns) = some s' := colnames_total nm s ns h

/-- a swap plus a fresh name. -/
example : step ⟨fun _ => true, fun _ => false⟩ ⟨[("a", 2), ("b", 2), ("c", 2)], ["a", "b", "c"]⟩
    (.colnames ["b", "a", "z"]) = some ⟨[("b", 2), ("a", 2), ("z", 2)], ["b", "a", "z"]⟩ := by decide

/-- a too-short list: the renamed column moves behind the untouched ones. -/
example : (step ⟨fun _ => true, fun _ => false⟩ ⟨[("a", 2), ("b", 2), ("c", 2)], ["a", "b", "c"]⟩
    (.colnames ["x"])).map (·.cols) = some [("b", 2), ("c", 2), ("x", 2)] := by decide

/-- repeated new names are not rejected: the later column overwrites the earlier one. -/
example : (step ⟨fun _ => true, fun _ => false⟩ ⟨[("a", 2), ("b", 2)], ["a", "b"]⟩
    (.colnames ["x", "x"])).map (·.cols) = some [("x", 2)] := by decide

end DI.C01

import Driver.Codec
import Driver.OpsRead
import Model.Convert

open Lean DI DI.Codec DI.Read DI.Convert

namespace DI.Ops

def convertOp (op : String) (a : Json) : Option (Except String Json) :=
  match op with
  | "convert_roundtrip" => some do
      let n ← getNat (← field a "n")
      let cols ← getList (fun c => do
        match (← getArr c) with
        | [nm, vals] =>
          let vs ← getList (fun v => match v with
            | .null => pure (none : Option String)
            | .str s => pure (some s)
            | _ => throw "bad value") vals
          return ((← getStr nm), vs)
        | _ => throw "bad column") (← field a "cols")
      return colsJson (toColumns (toRecords cols n))
  | _ => none

end DI.Ops

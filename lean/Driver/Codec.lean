/-
  Driver/Codec.lean — JSON <-> model values (line protocol of DESIGN.md §3.4, compact form):
    cell:  null | true/false | integer | [code points] | {"o": tag}
-/
import Lean.Data.Json
import Model.Basic

open Lean

namespace DI.Codec

def getInt (j : Json) : Except String Int :=
  match j with
  | .num n => if n.exponent == 0 then .ok n.mantissa else .error s!"not an integer: {j}"
  | _ => .error s!"not an integer: {j}"

def getNat (j : Json) : Except String Nat := do
  let i ← getInt j
  if i < 0 then .error s!"negative: {j}" else .ok i.toNat

def getBool (j : Json) : Except String Bool :=
  match j with
  | .bool b => .ok b
  | _ => .error s!"not a bool: {j}"

def getStr (j : Json) : Except String String :=
  match j with
  | .str s => .ok s
  | _ => .error s!"not a string: {j}"

def getArr (j : Json) : Except String (List Json) :=
  match j with
  | .arr a => .ok a.toList
  | _ => .error s!"not an array: {j}"

def getList (f : Json → Except String α) (j : Json) : Except String (List α) := do
  (← getArr j).mapM f

def field (j : Json) (k : String) : Except String Json :=
  match j.getObjVal? k with
  | .ok v => .ok v
  | .error _ => .error s!"missing field {k}"

def fieldD (j : Json) (k : String) (d : Json) : Json :=
  match j.getObjVal? k with
  | .ok v => v
  | .error _ => d

def getCell (j : Json) : Except String DI.Cell :=
  match j with
  | .null => .ok none
  | .bool b => .ok (some (.b b))
  | .num _ => do return some (.i (← getInt j))
  | .arr a => do return some (.s (← a.toList.mapM getNat))
  | .obj _ => do return some (.o (← getNat (← field j "o")))
  | _ => .error s!"bad cell {j}"

def getCells (j : Json) : Except String (List DI.Cell) := getList getCell j

def natList (xs : List Nat) : Json := .arr (xs.map (fun n => Json.num (JsonNumber.fromNat n))).toArray
def intList (xs : List Int) : Json := .arr (xs.map (fun n => Json.num (JsonNumber.fromInt n))).toArray
def optNatList (xs : List (Option Nat)) : Json :=
  .arr (xs.map (fun n => match n with | some k => Json.num (JsonNumber.fromNat k) | none => Json.null)).toArray
def boolList (xs : List Bool) : Json := .arr (xs.map Json.bool).toArray
def strList (xs : List String) : Json := .arr (xs.map Json.str).toArray

def cellJson : DI.Cell → Json
  | none => .null
  | some (.b v) => .bool v
  | some (.i v) => .num (JsonNumber.fromInt v)
  | some (.s cs) => natList cs
  | some (.o t) => Json.mkObj [("o", .num (JsonNumber.fromNat t))]

end DI.Codec

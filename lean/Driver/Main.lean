/-
  Driver/Main.lean — line protocol: one JSON request per line
     {"id": n, "op": "<name>", "a": {...}}   ->   {"id": n, "out": ...} | {"id": n, "err": "..."}
  Imports Lean.Data.Json and Model.* only (no Mathlib), so it links as a native executable.
-/
import Driver.Codec
import Driver.OpsVector
import Driver.OpsFrame
import Driver.OpsLoD
import Driver.OpsObs
import Driver.OpsFS
import Driver.OpsBind
import Driver.OpsAgg
import Driver.OpsConstruct
import Driver.OpsRead
import Driver.OpsConvert
import Driver.OpsGeo
import Driver.OpsDtRe
import Driver.OpsRender
import Driver.OpsHeap

open Lean DI DI.Codec

def dispatch (op : String) (a : Json) : Except String Json :=
  match DI.Ops.vectorOp op a with
  | some r => r
  | none =>
  match DI.Ops.frameOp op a with
  | some r => r
  | none =>
  match DI.Ops.lodOp op a with
  | some r => r
  | none =>
  match DI.Ops.obsOp op a with
  | some r => r
  | none =>
  match DI.Ops.fsOp op a with
  | some r => r
  | none =>
  match DI.Ops.bindOp op a with
  | some r => r
  | none =>
  match DI.Ops.aggOp op a with
  | some r => r
  | none =>
  match DI.Ops.constructOp op a with
  | some r => r
  | none =>
  match DI.Ops.readOp op a with
  | some r => r
  | none =>
  match DI.Ops.convertOp op a with
  | some r => r
  | none =>
  match DI.Ops.geoOp op a with
  | some r => r
  | none =>
  match DI.Ops.dtreOp op a with
  | some r => r
  | none =>
  match DI.Ops.renderOp op a with
  | some r => r
  | none =>
  match DI.Ops.heapOp op a with
  | some r => r
  | none => .error s!"unknown op {op}"

def handleLine (line : String) : String :=
  match Json.parse line with
  | .error e => (Json.mkObj [("err", .str s!"parse: {e}")]).compress
  | .ok j =>
    let id := fieldD j "id" .null
    match (do
      let op ← getStr (← field j "op")
      let a := fieldD j "a" (Json.mkObj [])
      dispatch op a) with
    | .ok out => (Json.mkObj [("id", id), ("out", out)]).compress
    | .error e => (Json.mkObj [("id", id), ("err", .str e)]).compress

partial def loop (hin : IO.FS.Stream) (hout : IO.FS.Stream) : IO Unit := do
  let line ← hin.getLine
  if line.isEmpty then return ()
  let t := line.trimAscii.toString
  if !t.isEmpty then
    hout.putStrLn (handleLine t)
  loop hin hout

def main : IO Unit := do
  let hin ← IO.getStdin
  let hout ← IO.getStdout
  loop hin hout
  hout.flush

import Driver.Codec
import Model.Render

open Lean DI DI.Codec DI.Render

namespace DI.Ops

def getWc (a : Json) : Except String (Char → Option Nat) := do
  let tbl ← getList (fun p => do
    match (← getArr p) with
    | [k, .null] => return ((← getNat k), (none : Option Nat))
    | [k, v] => return ((← getNat k), some (← getNat v))
    | _ => throw "bad width entry") (← field a "widths")
  return fun c => match tbl.find? (fun e => e.1 == c.toNat) with
    | some e => e.2
    | none => some 1

def getS (j : Json) : Except String Str := do return (← getStr j).toList
def strJ (s : Str) : Json := .str (String.ofList s)
def strsJ (xs : List Str) : Json := .arr (xs.map strJ).toArray

def renderOp (op : String) (a : Json) : Option (Except String Json) :=
  match op with
  | "render_df" => some do
      let wc ← getWc a
      let cols ← getList (fun c => do
        return ({ name := (← getS (← field c "name")), label := (← getS (← field c "label")),
                  cells := (← getList getS (← field c "cells")) } : Col)) (← field a "cols")
      match dfToString wc cols (← getNat (← field a "nrow")) (← getNat (← field a "max_rows")) (← getNat (← field a "max_width")) with
      | none => return .null
      | some ls => return strsJ ls
  | "render_tostrings" => some do
      let wc ← getWc a
      let tw ← match (← field a "tw") with
        | .null => pure none
        | j => do pure (some (← getNat j))
      return strsJ (toStrings wc tw (← getList getS (← field a "xs")))
  | "render_vec" => some do
      let wc ← getWc a
      let rows := vecRows wc (← getNat (← field a "pw")) (← getList getS (← field a "elems")) (← getBool (← field a "cut")) (← getS (← field a "label"))
      return .arr (rows.map strsJ).toArray
  | "render_lod" => some do
      return strJ (lodToString (← getS (← field a "json")) (← getNat (← field a "len")) (← getNat (← field a "max_items")))
  | _ => none

end DI.Ops

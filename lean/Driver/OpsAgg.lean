import Driver.Codec
import Model.Aggregate
import Model.Numba

open Lean DI DI.Codec DI.Agg

namespace DI.Ops

/-- rationals travel as "num/den" strings. -/
def getRat (j : Json) : Except String Rat := do
  let s ← getStr j
  match s.splitOn "/" with
  | [a, b] =>
    match a.toInt?, b.toNat? with
    | some n, some d => if d = 0 then throw "zero denominator" else return (n : Rat) / (d : Rat)
    | _, _ => throw s!"bad rational {s}"
  | [a] =>
    match a.toInt? with
    | some n => return (n : Rat)
    | none => throw s!"bad rational {s}"
  | _ => throw s!"bad rational {s}"

def getNum (j : Json) : Except String Num :=
  match j with
  | .null => .ok none
  | _ => do return some (← getRat j)

def ratJson (q : Rat) : Json := .str s!"{q.num}/{q.den}"

def resJson : Res → Json
  | .val q => Json.mkObj [("val", ratJson q)]
  | .sqrt q => Json.mkObj [("sqrt", ratJson q)]
  | .missing => .str "missing"
  | .bool b => .bool b
  | .nat n => .num (JsonNumber.fromNat n)

def getHelper (a : Json) : Except String Helper := do
  let h ← getStr (← field a "helper")
  match h with
  | "all" => return .all
  | "any" => return .any
  | "count" => return .count
  | "count_unique" => return .countUnique (← getBool (← field a "naDistinct"))
  | "first" => return .nth 0
  | "last" => return .nth (-1)
  | "nth" => return .nth (← getInt (← field a "index"))
  | "min" => return .min
  | "max" => return .max
  | "mode" => return .mode
  | "mean" => return .mean
  | "median" => return .median
  | "quantile" => return .quantile (← getRat (← field a "q"))
  | "std" => return .std (← getNat (← field a "ddof"))
  | "var" => return .var (← getNat (← field a "ddof"))
  | "sum" => return .sum
  | _ => throw s!"bad helper {h}"

def aggOp (op : String) (a : Json) : Option (Except String Json) :=
  match op with
  | "agg_vector" => some do
      let h ← getHelper a
      let xs ← getList getNum (← field a "xs")
      return resJson (vectorForm h (← getBool (← field a "drop")) xs)
  | "agg_group" => some do
      let h ← getHelper a
      let xs ← getList getNum (← field a "xs")
      let ids ← getList getNat (← field a "ids")
      return .arr ((groupForm h (← getBool (← field a "drop")) xs ids).map resJson).toArray
  | "agg_group_numba" => some do
      let h ← getHelper a
      let xs ← getList getNum (← field a "xs")
      let ids ← getList getNat (← field a "ids")
      return .arr ((groupFormNumba h (← getBool (← field a "drop")) xs ids).map resJson).toArray
  | _ => none

end DI.Ops

import Driver.Codec
import Model.HeapSites

open Lean DI DI.Codec DI.Heap

namespace DI.Ops

structure HeapSt where
  heap : Heap
  pool : List Frame

def changedIdx (h h' : Heap) (pool : List Frame) : List Nat :=
  (pool.zipIdx.filter (fun (f, _) => view h' f != view h f)).map (·.2)

def sharedIdx (r : Frame) (pool : List Frame) : List Nat :=
  (pool.zipIdx.filter (fun (f, _) => sharesWith r f)).map (·.2)

def heapStep (st : HeapSt) (j : Json) : Except String (HeapSt × Json) := do
  let k ← getStr (← field j "k")
  let recvI ← getNat (fieldD j "recv" (Json.num 0))
  let argI ← getNat (fieldD j "arg" (Json.num 0))
  let recv := st.pool[recvI]?.getD emptyFrame
  let arg := st.pool[argI]?.getD emptyFrame
  let report (h' : Heap) (r : Frame) (append : Bool) : HeapSt × Json :=
    ({ heap := h', pool := if append then st.pool ++ [r] else st.pool },
     Json.mkObj [("changed", natList (changedIdx st.heap h' st.pool)), ("shares", natList (sharedIdx r st.pool))])
  match k with
  | "call" =>
    let e := effectOf (← getStr (← field j "cls")) (← getStr (← field j "m"))
    if e.outs.isEmpty then throw "no result site in the table for this method" else
    let r := exec st.heap recv arg e
    return report r.1 r.2 (← getBool (fieldD j "append" (Json.bool true)))
  | "copy" =>
    let r := exec st.heap recv arg (copyEffect recv)
    return report r.1 r.2 true
  | "group_by" =>
    let pool := st.pool.set recvI (groupBy recv ["g"])
    return ({ st with pool := pool }, Json.mkObj [("changed", natList []), ("shares", natList [recvI])])
  | "inplace" =>
    let r := setItem st.heap recv "x" 0
    let pool := st.pool.set recvI r.2
    return ({ heap := r.1, pool := pool }, Json.mkObj [("changed", natList (changedIdx st.heap r.1 st.pool)), ("shares", natList [])])
  | "opaque" =>
    let n ← getNat (← field j "n")
    let h' := st.heap ++ List.replicate n 0
    let rs := (List.range n).map (fun i => ({ cols := [("r", st.heap.length + i)], group := [] } : Frame))
    return ({ heap := h', pool := st.pool ++ rs }, Json.mkObj [("changed", natList []), ("shares", natList [])])
  | _ => throw s!"unknown step kind {k}"

def heapOp (op : String) (a : Json) : Option (Except String Json) :=
  match op with
  | "heap_chain" => some do
      let ncols ← getList getNat (← field a "frames")
      -- initial pool: frame i has ncols[i] columns over consecutive fresh buffers
      let init : HeapSt := ncols.foldl (fun st n =>
        { heap := st.heap ++ List.replicate n 0,
          pool := st.pool ++ [{ cols := (List.range n).map (fun i => (s!"c{i}", st.heap.length + i)), group := [] }] })
        { heap := [], pool := [] }
      let steps ← getArr (← field a "steps")
      let mut st := init
      let mut outs : Array Json := #[]
      for s in steps do
        let (st', o) ← heapStep st s
        st := st'
        outs := outs.push o
      return .arr outs
  | _ => none

end DI.Ops

import Driver.Codec
import Model.ReadRestrict

open Lean DI DI.Codec DI.Read

namespace DI.Ops

def getRec (j : Json) : Except String (Rec String) :=
  getList (fun p => do
    match (← getArr p) with
    | [k, v] => return ((← getStr k), (← getStr v))
    | _ => throw "bad pair") j

def optStrList (xs : List (Option String)) : Json :=
  .arr (xs.map (fun x => match x with | some s => Json.str s | none => Json.null)).toArray

def mapOfItems (items : List (Rec String)) : List (String × List (Option String)) :=
  (unionKeys items).map (fun k => (k, items.map (fun r => lookup r k)))

def colsJson (cs : List (String × List (Option String))) : Json :=
  .arr (cs.map (fun c => Json.arr #[.str c.1, optStrList c.2])).toArray

def readOp (op : String) (a : Json) : Option (Except String Json) :=
  match op with
  | "read_restrict" => some do
      let kind ← getStr (← field a "kind")
      let cols ← getList getStr (← field a "columns")
      match kind with
      | "frame" =>
          let recs ← getList getRec (← field a "records")
          return colsJson (frameFromRecords recs cols)
      | "items" =>
          let recs ← getList getRec (← field a "records")
          return colsJson (mapOfItems (itemsRestricted recs cols))
      | "csv" =>
          let header ← getList getStr (← field a "header")
          let rows ← getList (getList getStr) (← field a "rows")
          return colsJson (mapOfItems (csvRestricted header rows cols))
      | _ => throw s!"bad kind {kind}"
  | _ => none

end DI.Ops

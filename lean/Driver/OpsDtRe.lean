import Driver.Codec
import Model.DtRegex

open Lean DI DI.Codec DI.DtRe

namespace DI.Ops

def getOptInt (j : Json) : Except String (Option Int) :=
  match j with
  | .null => .ok none
  | _ => do return some (← getInt j)

def optIntList (xs : List (Option Int)) : Json :=
  .arr (xs.map (fun n => match n with | some k => Json.num (JsonNumber.fromInt k) | none => Json.null)).toArray

def getComp (j : Json) : Except String (Comp Int) :=
  match j with
  | .arr a => do return .vector (← a.toList.mapM getInt)
  | _ => do return .scalar (← getInt j)

/-- `repl y kw` of the model is instantiated with "record y and kw": the harness applies
    `datetime.replace(**kw)` to element `y` itself. -/
def dtreOp (op : String) (a : Json) : Option (Except String Json) :=
  match op with
  | "dtre_pull" => some do
      -- xs: the datetime function's value at each non-missing element (null = NaT)
      let xs ← getList getOptInt (← field a "xs")
      return Json.mkObj [("out", optIntList (pull id xs)), ("integer", .bool (pullIntIsInteger xs)),
        ("quarter_integer", .bool (quarterIsInteger xs))]
  | "dtre_regex" => some do
      let xs ← getList getOptInt (← field a "xs")
      return optIntList ((regexMap (fun s => s.length) (xs.map (fun x => x.map (fun n => String.ofList (List.replicate n.toNat 'a'))))).map (fun x => x.map Int.ofNat))
  | "dtre_replace" => some do
      let xs ← getList getOptInt (← field a "xs")
      let comps ← getList (fun p => do
        match (← getArr p) with
        | [k, v] => return ((← getStr k), (← getComp v))
        | _ => throw "bad component") (← field a "comps")
      let out := replace (γ := Int) (fun (y : Int × List (String × Int)) kw => (y.1, kw)) (xs.map (fun x => x.map (fun i => (i, [])))) comps
      return .arr (out.map (fun o => match o with
        | none => Json.null
        | some (i, kw) => Json.mkObj [("i", .num (JsonNumber.fromInt i)),
            ("kw", .arr (kw.map (fun (k, v) => Json.arr #[.str k, .num (JsonNumber.fromInt v)])).toArray)])).toArray
  | _ => none

end DI.Ops

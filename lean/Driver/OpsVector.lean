import Driver.Codec
import Model.Vector

open Lean DI DI.Codec

namespace DI.Ops

def rankMethod (s : String) : Except String RankMethod :=
  match s with
  | "min" => .ok .min | "max" => .ok .max | "ordinal" => .ok .ordinal
  | _ => .error s!"bad method {s}"

def vectorOp (op : String) (a : Json) : Option (Except String Json) :=
  match op with
  | "vsort" => some do
      let xs ← getCells (← field a "xs")
      let naFirst ← getBool (← field a "naFirst")
      let desc ← getBool (← field a "desc")
      return natList (vsort Key.le naFirst desc xs)
  | "vsort_obj" => some do
      let keys ← getList (getList getNat) (← field a "keys")
      let na ← getList getBool (← field a "na")
      let desc ← getBool (← field a "desc")
      return natList (vsortObj leCodes desc keys na)
  | "vrank" => some do
      let xs ← getCells (← field a "xs")
      let m ← rankMethod (← getStr (← field a "method"))
      return natList (vrank Key.le (.i 1) m xs)
  | "vunique" => some do
      let xs ← getCells (← field a "xs")
      let naFirst ← getBool (← field a "naFirst")
      return natList (vunique Key.le naFirst xs)
  | _ => none

end DI.Ops

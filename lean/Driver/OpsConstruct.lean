import Driver.Codec
import Model.Construct

open Lean DI DI.Codec DI.Construct

namespace DI.Ops

def getKind? (s : String) (empty : Bool) : Except String Kind :=
  match s with
  | "none" => .ok .none | "nan" => .ok .nan | "npnan" => .ok .nan
  | "bool" => .ok .bool | "int" => .ok .int | "float" => .ok .float
  | "str" => .ok (.str empty) | "date" => .ok .date | "datetime" => .ok .datetime
  | "timedelta" => .ok .timedelta | "bytes" => .ok .bytes | "obj" => .ok .obj
  | "npbool" => .ok .npbool | "npint" => .ok .npint | "npfloat" => .ok .npfloat
  | "npdt" => .ok .npdt | "npstr" => .ok .npstr | "datesub" => .ok .datesub
  | _ => .error s!"bad kind {s}"

def dclassStr : DClass → String
  | .bool => "bool" | .int => "int" | .float => "float" | .str => "str" | .ustr => "ustr"
  | .date => "date" | .datetime => "datetime" | .timedelta => "timedelta" | .bytes => "bytes" | .object => "object"

def getDClass (s : String) : Except String DClass :=
  match s with
  | "bool" => .ok .bool | "int" => .ok .int | "float" => .ok .float | "str" => .ok .str
  | "object" => .ok .object | "datetime64[D]" => .ok .date | "datetime64[us]" => .ok .datetime
  | "timedelta64[s]" => .ok .timedelta
  | _ => .error s!"bad dtype {s}"

def constructOp (op : String) (a : Json) : Option (Except String Json) :=
  match op with
  | "construct" => some do
      let ks ← getList getStr (← field a "kinds")
      let es ← getList getBool (← field a "empties")
      let xs ← (ks.zip es).mapM (fun p => getKind? p.1 p.2)
      let r ← match fieldD a "dtype" .null with
        | .null => pure (construct xs)
        | .str d => do pure (constructWith (← getDClass d) xs)
        | _ => throw "bad dtype"
      match r with
      | none => return Json.mkObj [("unknown", .bool true)]
      | some r => return Json.mkObj [("dclass", .str (dclassStr r.dclass)), ("na", boolList r.na)]
  | _ => none

end DI.Ops

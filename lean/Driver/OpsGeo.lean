import Driver.Codec
import Model.GeoJSON

open Lean DI DI.Codec DI.Geo

namespace DI.Ops

def tokStr : Tok → String
  | .lbrace => "{" | .rbrace => "}" | .lbrack => "[" | .rbrack => "]" | .colon => ":" | .comma => ","
  | .str s => s!"S:{s}" | .blob v => s!"V:{v}"

def geoOp (op : String) (a : Json) : Option (Except String Json) :=
  match op with
  | "geo_write" => some do
      let md ← getList (fun p => do
        match (← getArr p) with
        | [k, v] => return ((← getStr k), (← getStr v))
        | _ => throw "bad member") (← field a "metadata")
      let feats ← getList getStr (← field a "features")
      return strList ((writeTokens md feats).map tokStr)
  | _ => none

end DI.Ops

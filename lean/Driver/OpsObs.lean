import Driver.Codec
import Model.Obsolete

open Lean DI DI.Codec DI.Obs

namespace DI.Ops

def getObsOp (j : Json) : Except String Op := do
  let k ← getStr (← field j "k")
  let r ← getNat (← field j "r")
  match k with
  | "derive" => return .derive r (← getList getNat (← field j "keep")) (← getNat (← field j "extra"))
  | "edit" => return .editInPlace r (← getList getNat (← field j "keep"))
  | "fresh" => return .editFresh r
  | "deepcopy" => return .deepcopy r
  | "use" => return .use r
  | "poke" => return .poke r (← getNat (← field j "pos"))
  | _ => throw s!"bad op {k}"

def obsOp (op : String) (a : Json) : Option (Except String Json) :=
  match op with
  | "obs_run" => some do
      let n ← getNat (← field a "n")
      let ops ← getList getObsOp (← field a "ops")
      let res := run (init n) ops
      return .arr (res.map (fun (warn, w) => Json.mkObj [
        ("warn", .bool warn),
        ("obsolete", boolList (w.lists.map (·.obsolete))),
        ("items", .arr (w.lists.map (fun l => natList l.items)).toArray),
        ("pred", optNatList (w.lists.map (·.pred))),
        ("vers", natList w.vers)])).toArray
  | _ => none

end DI.Ops

import Driver.Codec
import Model.LoD

open Lean DI DI.Codec DI.LoD

namespace DI.Ops

def getVal (j : Json) : Except String Val :=
  match j with
  | .null => .ok .none
  | .num _ => do return .i (← getInt j)
  | .str s => .ok (.s s)
  | _ => .error s!"bad value {j}"

def valJson : Val → Json
  | .none => .null
  | .i v => .num (JsonNumber.fromInt v)
  | .s v => .str v

def getDict (j : Json) : Except String Dict :=
  getList (fun p => do
    let a ← getArr p
    match a with
    | [k, v] => return ((← getStr k), (← getVal v))
    | _ => throw "bad pair") j

def dictJson (d : Dict) : Json := .arr (d.map (fun p => Json.arr #[.str p.1, valJson p.2])).toArray

def getItem (j : Json) : Except String Item := do
  return { tag := ← getNat (← field j "t"), kv := ← getDict (← field j "kv") }

def itemJson (it : Item) : Json := Json.mkObj [("t", .num (JsonNumber.fromNat it.tag)), ("kv", dictJson it.kv)]

def itemsJson (xs : List Item) : Json := .arr (xs.map itemJson).toArray

def optNatJson : Option Nat → Json
  | some n => .num (JsonNumber.fromNat n)
  | none => .null

def lodOp (op : String) (a : Json) : Option (Except String Json) :=
  if !op.startsWith "lod_" then none else some do
  let xs ← getList getItem (← field a "xs")
  let strs (k : String) : Except String (List String) := do getList getStr (← field a k)
  match op with
  | "lod_filter_mask" => return itemsJson (filterMask xs (← getList getBool (← field a "mask")))
  | "lod_filter_out_mask" => return itemsJson (filterOutMask xs (← getList getBool (← field a "mask")))
  | "lod_filter_kv" => return itemsJson (filterKv xs (← getDict (← field a "kvs")))
  | "lod_filter_out_kv" => return itemsJson (filterOutKv xs (← getDict (← field a "kvs")))
  | "lod_sort" =>
      let keys ← getList (fun p => do
        let q ← getArr p
        match q with
        | [k, d] => return ((← getStr k), (← getBool d))
        | _ => throw "bad key") (← field a "keys")
      return itemsJson (LoD.sort xs keys)
  | "lod_unique" => return itemsJson (unique xs (← strs "keys"))
  | "lod_select" => return itemsJson (select xs (← strs "keys") (← getList getNat (← field a "fresh")))
  | "lod_unselect" => return itemsJson (unselect xs (← strs "keys"))
  | "lod_rename" =>
      let tf ← getList (fun p => do
        let q ← getArr p
        match q with
        | [t, f] => return ((← getStr t), (← getStr f))
        | _ => throw "bad rename") (← field a "to_from")
      return itemsJson (rename xs tf (← getList getNat (← field a "fresh")))
  | "lod_modify" => return itemsJson (modify xs (← getStr (← field a "key")) (← getList getVal (← field a "vals")))
  | "lod_modify_if" => return itemsJson (modifyIf xs (← getList getBool (← field a "mask")) (← getStr (← field a "key")) (← getList getVal (← field a "vals")))
  | "lod_fill" => return itemsJson (fillMissing xs (← getDict (← field a "kvs")))
  | "lod_fill_all" => return itemsJson (fillMissingAll xs)
  | "lod_append" => return itemsJson (append xs (← getItem (← field a "item")))
  | "lod_extend" => return itemsJson (extend xs (← getList getItem (← field a "ys")))
  | "lod_add" => return itemsJson (add xs (← getList getItem (← field a "ys")))
  | "lod_mul" => return itemsJson (mul xs (← getNat (← field a "n")))
  | "lod_reverse" => return itemsJson (LoD.reverse xs)
  | "lod_insert" => return itemsJson (LoD.insert xs (← getInt (← field a "index")) (← getItem (← field a "item")))
  | "lod_head" => return itemsJson (head xs (← getNat (← field a "n")))
  | "lod_tail" => return itemsJson (tail xs (← getNat (← field a "n")))
  | "lod_slice" => return itemsJson (slice xs (← getNat (← field a "a")) (← getNat (← field a "b")))
  | "lod_join" =>
      let ys ← getList getItem (← field a "ys")
      let by1 ← strs "by1"
      let by2 ← strs "by2"
      match (← getStr (← field a "kind")) with
      | "left" => return itemsJson (leftJoin xs ys by1 by2)
      | "inner" => return itemsJson (innerJoin xs ys by1 by2)
      | "semi" => return itemsJson (semiJoin xs ys by1 by2)
      | "anti" => return itemsJson (antiJoin xs ys by1 by2)
      | "full" => return .arr ((fullJoin xs ys by1 by2).map (fun p =>
          Json.mkObj [("l", optNatJson p.l), ("r", optNatJson p.r), ("kv", dictJson p.kv)])).toArray
      | k => throw s!"bad join {k}"
  | "lod_aggregate" =>
      return .arr ((aggregate xs (← strs "keys")).map (fun g =>
        Json.mkObj [("id", .arr (g.1.map valJson).toArray), ("tags", natList g.2)])).toArray
  | _ => throw s!"unknown op {op}"

end DI.Ops

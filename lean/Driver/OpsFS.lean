import Driver.Codec
import Model.FrameState

open Lean DI DI.Codec DI.FS

namespace DI.Ops

def getShape (j : Json) : Except String Shape :=
  match j with
  | .str "scalar" => .ok .scalar
  | .str "nd" => .ok .nd
  | .num _ => do return .seq (← getNat j)
  | _ => .error s!"bad shape {j}"

def getPairs (j : Json) : Except String (List (String × Shape)) :=
  getList (fun p => do
    match (← getArr p) with
    | [k, v] => return ((← getStr k), (← getShape v))
    | _ => throw "bad pair") j

def getFsOp (j : Json) : Except String FS.Op := do
  let k ← getStr (← field j "k")
  match k with
  | "setitem" => return .setitem (← getStr (← field j "name")) (← getShape (← field j "v"))
  | "setattr" => return .setattr (← getStr (← field j "name")) (← getShape (← field j "v"))
  | "delitem" => return .delitem (← getStr (← field j "name"))
  | "delattr" => return .delattr (← getStr (← field j "name"))
  | "pop" => return .pop (← getStr (← field j "name"))
  | "popitem" => return .popitem
  | "colnames" => return .colnames (← getList getStr (← field j "names"))
  | "rebuild" => return .rebuild (← getPairs (← field j "pairs"))
  | _ => throw s!"bad op {k}"

def attrStr : Attr → String
  | .column => "column" | .builtin => "builtin" | .placeholderLeak => "placeholder" | .attributeError => "error"

def stateJson (nm : Names) (univ : List String) (s : State) (ok : Bool) : Json :=
  Json.mkObj [
    ("ok", .bool ok),
    ("cols", .arr (s.cols.map (fun c => Json.arr #[.str c.1, .num (JsonNumber.fromNat c.2)])).toArray),
    ("attrs", strList s.attrs),
    ("lookup", .arr (univ.map (fun k => Json.str (attrStr (lookupAttr nm s k)))).toArray)]

def fsOp (op : String) (a : Json) : Option (Except String Json) :=
  match op with
  | "fs_run" => some do
      let ident ← getList getStr (← field a "ident")
      let cls ← getList getStr (← field a "classAttr")
      let univ ← getList getStr (← field a "universe")
      let nm : Names := { ident := fun k => ident.contains k, classAttr := fun k => cls.contains k }
      let init ← getPairs (← field a "init")
      let ops ← getList getFsOp (← field a "ops")
      match FS.new nm init with
      | none => return Json.mkObj [("init_ok", .bool false), ("steps", .arr #[])]
      | some s0 =>
        let (_, outs) := ops.foldl (fun (acc : State × List Json) o =>
          match step nm acc.1 o with
          | some s' => (s', acc.2 ++ [stateJson nm univ s' true])
          | none => (acc.1, acc.2 ++ [stateJson nm univ acc.1 false])) (s0, [])
        return Json.mkObj [("init_ok", .bool true), ("init", stateJson nm univ s0 true), ("steps", .arr outs.toArray)]
  | _ => none

end DI.Ops

import Driver.Codec
import Model.Frame
import Model.Group

open Lean DI DI.Codec

namespace DI.Ops

def getKind (j : Json) : Except String ColKind := do
  return { isString := ← getBool (← field j "isString"),
           fastAsc := ← getBool (← field j "fastAsc"),
           isNumber := ← getBool (← field j "isNumber"),
           isInteger := ← getBool (← field j "isInteger") }

def getCols (j : Json) : Except String (List (List Cell)) := getList getCells j

def pairsJson (ps : List (Option Nat × Option Nat)) : Json :=
  .arr (ps.map (fun p => optNatList [p.1, p.2])).toArray

def natPairsJson (ps : List (Nat × Nat)) : Json :=
  .arr (ps.map (fun p => natList [p.1, p.2])).toArray

def frameOp (op : String) (a : Json) : Option (Except String Json) :=
  match op with
  | "filter" => some do
      return natList (filterIdx (← getList getBool (← field a "mask")))
  | "filter_out" => some do
      return natList (filterOutIdx (← getList getBool (← field a "mask")))
  | "filter_kv" => some do
      let n ← getNat (← field a "n")
      let conds ← getList (fun c => do
        let cells ← getCells (← field c "cells")
        let naEq ← getBool (← field c "naEq")
        let v ← getCell (← field c "v")
        return eqMask naEq cells v) (← field a "conds")
      let mask := andMasks n conds
      let out ← getBool (← field a "out")
      return natList (if out then filterOutIdx mask else filterIdx mask)
  | "slice" => some do
      return natList (sliceIdx (← getNat (← field a "n")) (← getList getInt (← field a "rows")))
  | "slice_off" => some do
      return natList (sliceOffIdx (← getNat (← field a "n")) (← getList getInt (← field a "rows")))
  | "head" => some do
      return natList (headIdx (← getNat (← field a "nrow")) (← getNat (← field a "n")))
  | "tail" => some do
      return natList (tailIdx (← getNat (← field a "nrow")) (← getNat (← field a "n")))
  | "drop_na" => some do
      return natList (dropNaIdx (← getNat (← field a "n")) (← getCols (← field a "cols")))
  | "sample" => some do
      return natList (sampleIdx (← getList getNat (← field a "chosen")))
  | "unique" => some do
      return natList (uniqueIdx (← getNat (← field a "n")) (← getCols (← field a "cols")))
  | "df_sort" => some do
      let n ← getNat (← field a "n")
      let keys ← getList (fun k => do
        return ((← getKind (← field k "kind")), (← getBool (← field k "desc")),
                (← getCells (← field k "cells")))) (← field a "keys")
      return natList (dfSortIdx n keys)
  | "groups" => some do
      let n ← getNat (← field a "n")
      let keys ← getList (fun k => do
        return ((← getKind (← field k "kind")), (← getCells (← field k "cells")))) (← field a "keys")
      return .arr ((groupsOf n keys).map natList).toArray
  | "modify_plan" => some do
      let n ← getNat (← field a "n")
      let keys ← getList (fun k => do
        return ((← getKind (← field k "kind")), (← getCells (← field k "cells")))) (← field a "keys")
      return natPairsJson (modifyPlan n keys)
  | "runs" => some do
      return .arr ((runsOf (← getList getNat (← field a "ids"))).map natList).toArray
  | "join" => some do
      let kind ← getStr (← field a "kind")
      let n ← getNat (← field a "n")
      let m ← getNat (← field a "m")
      let lk ← getCols (← field a "lkeys")
      let rk ← getCols (← field a "rkeys")
      match kind with
      | "left" => return pairsJson (leftJoinPairs n lk m rk)
      | "inner" => return pairsJson (innerJoinPairs n lk m rk)
      | "semi" => return natList (semiJoinIdx n lk m rk)
      | "anti" => return natList (antiJoinIdx n lk m rk)
      | "full" => return pairsJson (fullJoinPairs n lk m rk)
      | _ => throw s!"bad join kind {kind}"
  | _ => none

end DI.Ops

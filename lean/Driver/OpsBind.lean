import Driver.Codec
import Model.Bind

open Lean DI DI.Codec DI.Bind

namespace DI.Ops

def getFrame (j : Json) : Except String Frame := do
  return { nrow := ← getNat (← field j "nrow"), names := ← getList getStr (← field j "names") }

def srcJson : Src → Json
  | .cell f c r => Json.arr #[.str "c", .num (JsonNumber.fromNat f), .str c, .num (JsonNumber.fromNat r)]
  | .na => .str "na"
  | .value k r => Json.arr #[.str "v", .str k, .num (JsonNumber.fromNat r)]

def outJson (o : List OutCol) : Json :=
  .arr (o.map (fun c => Json.arr #[.str c.1, .arr (c.2.map srcJson).toArray])).toArray

def optOutJson : Option (List OutCol) → Json
  | some o => outJson o
  | none => .str "reject"

def bindOp (op : String) (a : Json) : Option (Except String Json) :=
  match op with
  | "bind" => some do
      let frames ← getList getFrame (← field a "frames")
      let kind ← getStr (← field a "kind")
      let self := frames.headD { nrow := 0, names := [] }
      match kind with
      | "rbind" => return outJson (rbind frames)
      | "cbind" => return optOutJson (cbind frames)
      | "update" => return optOutJson (update self (frames.getD 1 { nrow := 0, names := [] }))
      | "modify" =>
          let kvs ← getList (fun p => do
            match (← getArr p) with
            | [k, n] => return ((← getStr k), (← getNat n))
            | _ => throw "bad kv") (← field a "kvs")
          return optOutJson (Bind.modify self kvs)
      | "select" => return optOutJson (Bind.select self (← getList getStr (← field a "cols")))
      | "unselect" => return outJson (Bind.unselect self (← getList getStr (← field a "cols")))
      | "rename" =>
          let tf ← getList (fun p => do
            match (← getArr p) with
            | [t, f] => return ((← getStr t), (← getStr f))
            | _ => throw "bad rename") (← field a "to_from")
          return outJson (Bind.rename self tf)
      | _ => throw s!"bad kind {kind}"
  | _ => none

end DI.Ops

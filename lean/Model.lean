import Model.Basic
import Model.Vector

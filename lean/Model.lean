import Model.Basic
import Model.Vector
import Model.Frame
import Model.Group
import Model.LoD
import Model.Obsolete
import Model.FrameState
import Model.Bind

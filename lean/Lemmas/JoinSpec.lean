/-
  Lemmas/JoinSpec.lean — C05: relational content of `full_join`, `semi_join`, `anti_join`.

  * every row pair `full_join` produces has equal key tuples without a missing key value;
  * the left-join rows survive in `full_join` exactly once each, in their order;
  * the result of `full_join` is ordered by (left row id, right row id), missing last;
  * `semi_join` / `anti_join` keep exactly the left rows that have / do not have a match.
-/
import Model.Group
import Lemmas.Sort
import Lemmas.Vector
import Lemmas.Frame
import Lemmas.Group
import Lemmas.JoinFirst
import Lemmas.JoinFull

namespace DI

/-! ### generic helpers -/

theorem zipIdx_eq_map_range {α : Type} [Inhabited α] (l : List α) :
    l.zipIdx = (List.range l.length).map (fun i => (l[i]!, i)) := by
  apply List.ext_getElem
  · simp
  · intro i h1 h2
    have hi : i < l.length := by simpa using h1
    simp [hi]

theorem zipIdx_pairwise_fst {α : Type} {R : α → α → Prop} {l : List α} (h : l.Pairwise R) :
    l.zipIdx.Pairwise (fun p q => R p.1 q.1) := by
  apply List.pairwise_map.mp
  rw [List.zipIdx_map_fst]
  exact h

/-- the key tuple `rowsOf` lists for row `i` is `rowKey`. -/
theorem rowsOf_get_rowKey (n : Nat) (cols : List (List Cell)) (i : Nat) (hi : i < n) :
    (rowsOf n cols)[i]! = rowKey cols i := by
  rw [rowsOf_get n cols i hi]; rfl

theorem noNa_iff (cols : List (List Cell)) (j : Nat) :
    noNa cols j ↔ ∀ x ∈ rowKey cols j, isNa x = false := by
  simp [noNa, rowKey]

/-- equal key tuples: no missing value on one side means none on the other side. -/
theorem noNa_of_rowKey_eq {A B : List (List Cell)} {i j : Nat} (h : rowKey A j = rowKey B i)
    (hna : noNa A j) : noNa B i := by
  rw [noNa_iff] at hna ⊢
  rw [← h]; exact hna

/-! ### left join, element by element -/

section
variable (n : Nat) (lk : List (List Cell)) (m : Nat) (rk : List (List Cell))

theorem leftJoinPairs_eq :
    leftJoinPairs n lk m rk = (List.range n).map (fun i => (some i, (joinSrc n lk m rk)[i]!)) := by
  unfold leftJoinPairs
  rw [zipIdx_eq_map_range, joinSrc_length, List.map_map]
  rfl

theorem mem_leftJoinPairs {p : Option Nat × Option Nat} :
    p ∈ leftJoinPairs n lk m rk ↔ ∃ i, i < n ∧ p = (some i, (joinSrc n lk m rk)[i]!) := by
  rw [leftJoinPairs_eq, List.mem_map]
  constructor
  · rintro ⟨i, hi, rfl⟩; exact ⟨i, by simpa using hi, rfl⟩
  · rintro ⟨i, hi, rfl⟩; exact ⟨i, by simpa using hi, rfl⟩

theorem leftJoinPairs_length : (leftJoinPairs n lk m rk).length = n := by
  rw [leftJoinPairs_eq]; simp

/-- a matched left-join row: equal keys, nothing missing, first such right row. -/
theorem leftJoinPairs_match (i j : Nat) (h : (some i, some j) ∈ leftJoinPairs n lk m rk) :
    i < n ∧ j < m ∧ rowKey rk j = rowKey lk i ∧ noNa lk i ∧ noNa rk j ∧
      ∀ j' < j, noNa rk j' → rowKey rk j' ≠ rowKey lk i := by
  obtain ⟨i', hi', e⟩ := (mem_leftJoinPairs n lk m rk).mp h
  simp only [Prod.mk.injEq, Option.some.injEq] at e
  obtain ⟨rfl, e2⟩ := e
  obtain ⟨h1, h2, h3, h4⟩ := joinSrc_some n lk m rk i hi' j e2.symm
  rw [rowsOf_get_rowKey n lk i hi'] at h3 h4
  exact ⟨hi', h1, h3, noNa_of_rowKey_eq h3 h2, h2, h4⟩

/-! ### the appended part of full_join -/

/-- the right rows no left row was joined with. -/
def joinRest : List Nat :=
  (List.range m).filter (fun j => !((leftJoinPairs n lk m rk).filterMap (·.2)).contains j)

theorem fullJoinExtra_eq :
    fullJoinExtra n lk m rk =
      ((joinSrc (joinRest n lk m rk).length (rk.map (fun c => gather c (joinRest n lk m rk))) n lk).zip
        (joinRest n lk m rk)).map (fun (a, j) => (a, some j)) := rfl

theorem mem_joinRest {j : Nat} : j ∈ joinRest n lk m rk ↔
    j < m ∧ ∀ q ∈ leftJoinPairs n lk m rk, q.2 ≠ some j := by
  unfold joinRest
  rw [List.mem_filter]
  simp only [List.mem_range, Bool.not_eq_true', List.contains_eq_mem, decide_eq_false_iff_not,
    List.mem_filterMap, not_exists, not_and]

/-- an appended row `(some i, some j)`: right row `j` was not used by the left join, and left row
    `i` is the first left row with the key tuple of `j` (nothing missing). -/
theorem fullJoinExtra_match (i j : Nat) (h : (some i, some j) ∈ fullJoinExtra n lk m rk) :
    i < n ∧ j < m ∧ rowKey rk j = rowKey lk i ∧ noNa lk i ∧ noNa rk j := by
  rw [fullJoinExtra_eq] at h
  obtain ⟨⟨a, j'⟩, hz, e⟩ := List.mem_map.mp h
  simp only [Prod.mk.injEq, Option.some.injEq] at e
  obtain ⟨rfl, rfl⟩ := e
  obtain ⟨k, hk, ek⟩ := List.mem_iff_getElem.mp hz
  rw [List.getElem_zip] at ek
  simp only [Prod.mk.injEq] at ek
  obtain ⟨e1, e2⟩ := ek
  have hkr : k < (joinRest n lk m rk).length := by
    simp only [List.length_zip] at hk; omega
  have hback : (joinSrc (joinRest n lk m rk).length (rk.map (fun c => gather c (joinRest n lk m rk))) n lk)[k]! = some i := by
    rw [getElem!_pos _ k (by rw [joinSrc_length]; exact hkr)]; exact e1
  obtain ⟨h1, h2, h3, _⟩ := joinSrc_some _ _ n lk k hkr i hback
  rw [rowsOf_gather_get rk (joinRest n lk m rk) k hkr, getElem!_pos _ k hkr, e2] at h3
  have hjm : j' ∈ joinRest n lk m rk := by rw [← e2]; exact List.getElem_mem _
  exact ⟨h1, ((mem_joinRest n lk m rk).mp hjm).1, h3.symm, h2, noNa_of_rowKey_eq h3 h2⟩

/-- **full_join never pairs rows with unequal or missing keys.** -/
theorem fullJoin_keys_agree (i j : Nat) (h : (some i, some j) ∈ fullJoinPairs n lk m rk) :
    i < n ∧ j < m ∧ rowKey rk j = rowKey lk i ∧ noNa lk i ∧ noNa rk j := by
  have := (fullJoinPairs_perm n lk m rk).mem_iff.mp h
  rcases List.mem_append.mp this with h1 | h1
  · obtain ⟨a, b, c, d, e, _⟩ := leftJoinPairs_match n lk m rk i j h1
    exact ⟨a, b, c, d, e⟩
  · exact fullJoinExtra_match n lk m rk i j h1

/-! ### the order of full_join -/

/-- the comparator of `sort(_aid_=1, _bid_=1)`: by left row id, then right row id, missing last. -/
def fullJoinLe (p q : Option Nat × Option Nat) : Bool :=
  if p.1 == q.1 then leOptNat p.2 q.2 else leOptNat p.1 q.1

theorem leOptNat_iff (a b : Option Nat) :
    leOptNat a b = true ↔ b = none ∨ ∃ x y, a = some x ∧ b = some y ∧ x ≤ y := by
  cases a <;> cases b <;> simp [leOptNat]

theorem leOptNat_refl (a : Option Nat) : leOptNat a a = true := by
  cases a <;> simp [leOptNat]

theorem leOptNat_total (a b : Option Nat) : (leOptNat a b || leOptNat b a) = true := by
  cases a <;> cases b <;> simp [leOptNat]; omega

theorem leOptNat_trans (a b c : Option Nat) : leOptNat a b = true → leOptNat b c = true → leOptNat a c = true := by
  cases a <;> cases b <;> cases c <;> simp [leOptNat]; omega

theorem leOptNat_antisymm (a b : Option Nat) : leOptNat a b = true → leOptNat b a = true → a = b := by
  cases a <;> cases b <;> simp [leOptNat]; omega

theorem fullJoinLe_iff (p q : Option Nat × Option Nat) :
    fullJoinLe p q = true ↔ leOptNat p.1 q.1 = true ∧ (p.1 = q.1 → leOptNat p.2 q.2 = true) := by
  unfold fullJoinLe
  by_cases h : p.1 = q.1
  · simp [h, leOptNat_refl]
  · simp [h]

theorem fullJoinLe_pre : PreOrd fullJoinLe := by
  constructor
  · intro p q
    by_cases h : p.1 = q.1
    · have e1 : fullJoinLe p q = leOptNat p.2 q.2 := by
        unfold fullJoinLe; rw [if_pos]; simpa using h
      have e2 : fullJoinLe q p = leOptNat q.2 p.2 := by
        unfold fullJoinLe; rw [if_pos]; simpa using h.symm
      rw [e1, e2]; exact leOptNat_total _ _
    · have e1 : fullJoinLe p q = leOptNat p.1 q.1 := by
        unfold fullJoinLe; rw [if_neg]; simpa using h
      have e2 : fullJoinLe q p = leOptNat q.1 p.1 := by
        unfold fullJoinLe; rw [if_neg]; simpa using (fun e => h e.symm)
      rw [e1, e2]; exact leOptNat_total _ _
  · intro p q r h1 h2
    rw [fullJoinLe_iff] at h1 h2 ⊢
    refine ⟨leOptNat_trans _ _ _ h1.1 h2.1, ?_⟩
    intro e
    have hqp : leOptNat q.1 p.1 = true := by rw [e]; exact h2.1
    have e1 : p.1 = q.1 := leOptNat_antisymm _ _ h1.1 hqp
    have e2 : q.1 = r.1 := by rw [← e1]; exact e
    exact leOptNat_trans _ _ _ (h1.2 e1) (h2.2 e2)

theorem fullJoinPairs_eq :
    fullJoinPairs n lk m rk =
      if (joinRest n lk m rk).isEmpty then leftJoinPairs n lk m rk
      else gather (leftJoinPairs n lk m rk ++ fullJoinExtra n lk m rk)
        (argsort fullJoinLe (leftJoinPairs n lk m rk ++ fullJoinExtra n lk m rk)) := rfl

theorem fullJoinPairs_eq_sorted (h : (joinRest n lk m rk).isEmpty = false) :
    fullJoinPairs n lk m rk =
      (sortPairs fullJoinLe (leftJoinPairs n lk m rk ++ fullJoinExtra n lk m rk)).map (·.1) := by
  rw [fullJoinPairs_eq, h]
  simp only [Bool.false_eq_true, if_false]
  unfold argsort
  exact (tagged_sortPairs fullJoinLe _).gather

/-- the left join is already in the order of the final sort. -/
theorem leftJoinPairs_sorted : (leftJoinPairs n lk m rk).Pairwise (fun p q => fullJoinLe p q = true) := by
  rw [leftJoinPairs_eq, List.pairwise_map]
  refine List.pairwise_lt_range.imp ?_
  intro a b hab
  rw [fullJoinLe_iff]
  refine ⟨by simp [leOptNat]; omega, ?_⟩
  intro e
  simp only [Option.some.injEq] at e
  omega

/-- **full_join is ordered** by left row id, then right row id, missing ids last. -/
theorem fullJoinPairs_sorted : (fullJoinPairs n lk m rk).Pairwise (fun p q => fullJoinLe p q = true) := by
  cases h : (joinRest n lk m rk).isEmpty
  · rw [fullJoinPairs_eq_sorted n lk m rk h, List.pairwise_map]
    exact sortPairs_sorted fullJoinLe_pre _
  · rw [fullJoinPairs_eq, h]
    simp only [if_true]
    exact leftJoinPairs_sorted n lk m rk

/-- the left-join rows appear in `full_join` in their order. -/
theorem leftJoinPairs_sublist_full : (leftJoinPairs n lk m rk).Sublist (fullJoinPairs n lk m rk) := by
  cases h : (joinRest n lk m rk).isEmpty
  · rw [fullJoinPairs_eq_sorted n lk m rk h]
    have h1 : (leftJoinPairs n lk m rk).zipIdx.Sublist
        (leftJoinPairs n lk m rk ++ fullJoinExtra n lk m rk).zipIdx := by
      rw [List.zipIdx_append]; exact List.sublist_append_left _ _
    have h2 := zipIdx_pairwise_fst (leftJoinPairs_sorted n lk m rk)
    have h3 : (leftJoinPairs n lk m rk).zipIdx.Sublist
        (sortPairs fullJoinLe (leftJoinPairs n lk m rk ++ fullJoinExtra n lk m rk)) := by
      unfold sortPairs
      exact List.sublist_mergeSort (fun a b c => fullJoinLe_pre.trans a.1 b.1 c.1)
        (fun a b => fullJoinLe_pre.total a.1 b.1) h2 h1
    have h4 := h3.map (·.1)
    rwa [List.zipIdx_map_fst] at h4
  · rw [fullJoinPairs_eq, h]
    simp only [if_true]
    exact List.Sublist.refl _

theorem fullJoinExtra_not_left (p : Option Nat × Option Nat) (hp : p ∈ fullJoinExtra n lk m rk) :
    p ∉ leftJoinPairs n lk m rk := by
  obtain ⟨j, hj, _, hq⟩ := fullJoinExtra_unmatched n lk m rk p hp
  intro hmem
  exact hq p hmem hj

/-- **exact multiplicity of the left-join part**: the rows of `full_join` that are left-join rows
    are the left join itself — each once, in order (the appended rows are all different from them). -/
theorem fullJoinPairs_filter_left :
    (fullJoinPairs n lk m rk).filter (fun p => (leftJoinPairs n lk m rk).contains p) =
      leftJoinPairs n lk m rk := by
  have hself : (leftJoinPairs n lk m rk).filter (fun p => (leftJoinPairs n lk m rk).contains p) =
      leftJoinPairs n lk m rk := by
    rw [List.filter_eq_self]; intro a ha; simpa using ha
  have hextra : (fullJoinExtra n lk m rk).filter (fun p => (leftJoinPairs n lk m rk).contains p) = [] := by
    rw [List.filter_eq_nil_iff]; intro a ha
    simpa using fullJoinExtra_not_left n lk m rk a ha
  have hsub := (leftJoinPairs_sublist_full n lk m rk).filter (fun p => (leftJoinPairs n lk m rk).contains p)
  rw [hself] at hsub
  have hperm := (fullJoinPairs_perm n lk m rk).filter (fun p => (leftJoinPairs n lk m rk).contains p)
  rw [List.filter_append, hself, hextra, List.append_nil] at hperm
  exact (hsub.eq_of_length hperm.length_eq.symm).symm

/-- … and the remaining rows are exactly the appended unmatched right rows. -/
theorem fullJoinPairs_filter_extra :
    ((fullJoinPairs n lk m rk).filter (fun p => !(leftJoinPairs n lk m rk).contains p)).Perm
      (fullJoinExtra n lk m rk) := by
  have hperm := (fullJoinPairs_perm n lk m rk).filter (fun p => !(leftJoinPairs n lk m rk).contains p)
  have hself : (leftJoinPairs n lk m rk).filter (fun p => !(leftJoinPairs n lk m rk).contains p) = [] := by
    rw [List.filter_eq_nil_iff]; intro a ha; simpa using ha
  have hextra : (fullJoinExtra n lk m rk).filter (fun p => !(leftJoinPairs n lk m rk).contains p) =
      fullJoinExtra n lk m rk := by
    rw [List.filter_eq_self]; intro a ha
    simpa using fullJoinExtra_not_left n lk m rk a ha
  rw [List.filter_append, hself, hextra, List.nil_append] at hperm
  exact hperm

/-! ### semi_join / anti_join -/

theorem semiJoinIdx_eq :
    semiJoinIdx n lk m rk = (List.range n).filter (fun i => ((joinSrc n lk m rk)[i]!).isSome) := by
  unfold semiJoinIdx
  rw [zipIdx_eq_map_range, joinSrc_length, List.filter_map, List.map_map]
  simp [Function.comp_def]

theorem antiJoinIdx_eq :
    antiJoinIdx n lk m rk = (List.range n).filter (fun i => ((joinSrc n lk m rk)[i]!).isNone) := by
  unfold antiJoinIdx
  rw [zipIdx_eq_map_range, joinSrc_length, List.filter_map, List.map_map]
  simp [Function.comp_def]

/-- a left row has a join partner iff some right row without missing key has its key tuple. -/
theorem joinSrc_isSome_iff (i : Nat) (hi : i < n) :
    ((joinSrc n lk m rk)[i]!).isSome = true ↔ ∃ j, j < m ∧ noNa rk j ∧ rowKey rk j = rowKey lk i := by
  constructor
  · intro h
    obtain ⟨j, hj⟩ := Option.isSome_iff_exists.mp h
    obtain ⟨h1, h2, h3, _⟩ := joinSrc_some n lk m rk i hi j hj
    rw [rowsOf_get_rowKey n lk i hi] at h3
    exact ⟨j, h1, h2, h3⟩
  · rintro ⟨j, h1, h2, h3⟩
    cases hs : (joinSrc n lk m rk)[i]! with
    | some _ => rfl
    | none =>
      have := joinSrc_none n lk m rk i hi hs j h1 h2
      rw [rowsOf_get_rowKey n lk i hi] at this
      exact absurd h3 this

/-- **semi_join keeps exactly the matched left rows.** -/
theorem mem_semiJoinIdx (i : Nat) :
    i ∈ semiJoinIdx n lk m rk ↔ i < n ∧ ∃ j, j < m ∧ noNa rk j ∧ rowKey rk j = rowKey lk i := by
  rw [semiJoinIdx_eq, List.mem_filter, List.mem_range]
  constructor
  · rintro ⟨hi, h⟩; exact ⟨hi, (joinSrc_isSome_iff n lk m rk i hi).mp h⟩
  · rintro ⟨hi, h⟩; exact ⟨hi, (joinSrc_isSome_iff n lk m rk i hi).mpr h⟩

/-- **anti_join keeps exactly the unmatched left rows.** -/
theorem mem_antiJoinIdx (i : Nat) :
    i ∈ antiJoinIdx n lk m rk ↔ i < n ∧ ∀ j, j < m → noNa rk j → rowKey rk j ≠ rowKey lk i := by
  rw [antiJoinIdx_eq, List.mem_filter, List.mem_range]
  constructor
  · rintro ⟨hi, h⟩
    refine ⟨hi, ?_⟩
    intro j h1 h2 h3
    have := (joinSrc_isSome_iff n lk m rk i hi).mpr ⟨j, h1, h2, h3⟩
    rw [Option.isNone_iff_eq_none] at h
    rw [h] at this; cases this
  · rintro ⟨hi, h⟩
    refine ⟨hi, ?_⟩
    cases hs : (joinSrc n lk m rk)[i]! with
    | none => rfl
    | some j =>
      have hsome : ((joinSrc n lk m rk)[i]!).isSome = true := by rw [hs]; rfl
      obtain ⟨j', h1, h2, h3⟩ := (joinSrc_isSome_iff n lk m rk i hi).mp hsome
      exact absurd h3 (h j' h1 h2)

end

end DI

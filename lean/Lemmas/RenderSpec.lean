/-
  Lemmas/RenderSpec.lean — exact specifications of the layout model (C20, round 3):
  what the `utruncate` loop computes (with its last-character quirk), `upad` with both alignments and
  the exact padding count, the complete line structure of `DataFrame.to_string`, the width bound of
  its blocks, and the element / footer structure of `Vector.to_string` and `ListOfDicts.to_string`.
-/
import Model.Render
import Lemmas.Render

namespace DI.Render

variable {wc : Char → Option Nat}

/-! ### 1. utruncate -/

/-- the loop, exactly: scanning `i = i₀, i₀+1, …, i₀+fuel-1`, it stops at the first `i` whose prefix is
    too wide and returns the prefix one shorter; without such an `i` it returns the string. -/
theorem utruncateGo_spec (s : Str) (width : Nat) (fuel : Nat) : ∀ i : Nat,
    (∃ k, i ≤ k ∧ k < i + fuel ∧ width < ulen wc (s.take k) ∧
        (∀ j, i ≤ j → j < k → ulen wc (s.take j) ≤ width) ∧
        utruncateGo wc s width i fuel = s.take (k - 1)) ∨
    ((∀ j, i ≤ j → j < i + fuel → ulen wc (s.take j) ≤ width) ∧ utruncateGo wc s width i fuel = s) := by
  induction fuel with
  | zero =>
    intro i
    refine Or.inr ⟨fun j h1 h2 => by omega, rfl⟩
  | succ f ih =>
    intro i
    unfold utruncateGo
    by_cases h : ulen wc (s.take i) > width
    · rw [if_pos h]
      exact Or.inl ⟨i, Nat.le_refl _, by omega, h, fun j h1 h2 => by omega, rfl⟩
    · rw [if_neg h]
      rcases ih (i + 1) with ⟨k, hk1, hk2, hk3, hk4, hk5⟩ | ⟨h1, h2⟩
      · refine Or.inl ⟨k, by omega, by omega, hk3, ?_, hk5⟩
        intro j hj1 hj2
        by_cases hji : j = i
        · subst hji; omega
        · exact hk4 j (by omega) hj2
      · refine Or.inr ⟨?_, h2⟩
        intro j hj1 hj2
        by_cases hji : j = i
        · subst hji; omega
        · exact h1 j (by omega) (by omega)

/-- `utruncate`, exactly as the Python loop `for i in range(1, len(s))` computes it, without any
    hypothesis on the widths: either there is a first `i` in `1 … len(s)-1` with `ulen(s[:i]) > width`
    and the result is `s[:i-1]`, or no proper non-empty prefix is too wide and the result is `s` —
    the whole string `s[:len(s)]` is never tested. -/
theorem utruncate_exact (s : Str) (width : Nat) :
    (∃ k, 1 ≤ k ∧ k < s.length ∧ width < ulen wc (s.take k) ∧
        (∀ j, 1 ≤ j → j < k → ulen wc (s.take j) ≤ width) ∧
        utruncate wc s width = s.take (k - 1)) ∨
    ((∀ j, 1 ≤ j → j < s.length → ulen wc (s.take j) ≤ width) ∧ utruncate wc s width = s) := by
  unfold utruncate
  rcases utruncateGo_spec (wc := wc) s width (s.length - 1) 1 with ⟨k, h1, h2, h3, h4, h5⟩ | ⟨h1, h2⟩
  · exact Or.inl ⟨k, h1, by omega, h3, h4, h5⟩
  · exact Or.inr ⟨fun j hj1 hj2 => h1 j hj1 (by omega), h2⟩

theorem printable_of_prefix {p s : Str} (h : p <+: s) (hs : Printable wc s) : Printable wc p :=
  fun c hc => hs c (h.subset hc)

/-- display widths are monotone along prefixes when every character has a width. -/
theorem ulen_prefix_mono {p q : Str} (h : p <+: q) (hq : Printable wc q) : ulen wc p ≤ ulen wc q := by
  obtain ⟨u, rfl⟩ := h
  have hp : Printable wc p := fun c hc => hq c (by simp [hc])
  have hu : Printable wc u := fun c hc => hq c (by simp [hc])
  rw [ulen_append hp hu]; omega

theorem ulen_take_mono {s : Str} (hs : Printable wc s) {j k : Nat} (h : j ≤ k) :
    ulen wc (s.take j) ≤ ulen wc (s.take k) := by
  apply ulen_prefix_mono
  · have : s.take j = (s.take k).take j := by rw [List.take_take, Nat.min_eq_left h]
    rw [this]; exact List.take_prefix _ _
  · exact printable_of_prefix (List.take_prefix _ _) hs

theorem ulen_nil : ulen wc [] = 0 := rfl

/-- `utruncate` for strings whose characters all have a width (so that widths are monotone along
    prefixes).  Either the string without its last character fits and the string is returned WHOLE
    (whatever the width of the last character), or the result is the longest prefix that fits:
    `s[:k]` fits, `s[:k+1]` does not, and every prefix that fits is at most `k` long. -/
theorem utruncate_spec_printable {s : Str} (hs : Printable wc s) (width : Nat) :
    (ulen wc s.dropLast ≤ width ∧ utruncate wc s width = s) ∨
    (width < ulen wc s.dropLast ∧ ∃ k, k + 1 < s.length ∧ utruncate wc s width = s.take k ∧
        ulen wc (s.take k) ≤ width ∧ width < ulen wc (s.take (k + 1)) ∧
        ∀ p, p <+: s → ulen wc p ≤ width → p.length ≤ k) := by
  rw [List.dropLast_eq_take]
  rcases utruncate_exact (wc := wc) s width with ⟨k, h1, h2, h3, h4, h5⟩ | ⟨h1, h2⟩
  · right
    have hmono : ulen wc (s.take k) ≤ ulen wc (s.take (s.length - 1)) := ulen_take_mono hs (by omega)
    refine ⟨by omega, k - 1, by omega, h5, ?_, ?_, ?_⟩
    · by_cases hk : k - 1 = 0
      · rw [hk, List.take_zero, ulen_nil]; omega
      · exact h4 (k - 1) (by omega) (by omega)
    · have : k - 1 + 1 = k := by omega
      rw [this]; exact h3
    · intro p hp hpw
      have hpe : p = s.take p.length := List.prefix_iff_eq_take.mp hp
      false_or_by_contra
      rename_i hlt
      have : ulen wc (s.take k) ≤ ulen wc (s.take p.length) := ulen_take_mono hs (by omega)
      rw [← hpe] at this
      omega
  · left
    refine ⟨?_, h2⟩
    by_cases hl : s.length - 1 = 0
    · rw [hl, List.take_zero, ulen_nil]; omega
    · exact h1 (s.length - 1) (by omega) (by omega)

/-- the result of `utruncate` fits into `width`, except in the quirk case. -/
theorem utruncate_fits_or_quirk {s : Str} (hs : Printable wc s) (width : Nat) :
    ulen wc (utruncate wc s width) ≤ width ∨
    (utruncate wc s width = s ∧ ulen wc s.dropLast ≤ width ∧ width < ulen wc s) := by
  rcases utruncate_spec_printable hs width with ⟨h1, h2⟩ | ⟨_, k, _, h2, h3, _, _⟩
  · by_cases h : ulen wc s ≤ width
    · left; rw [h2]; exact h
    · right; exact ⟨h2, h1, by omega⟩
  · left; rw [h2]; exact h3

/-- the quirk: the loop never tests the whole string, so a string that is too wide only because of its
    last character is returned whole.  (`util.utruncate("ab中", 2)` is `"ab中"`, display width 4.) -/
theorem utruncate_last_char_quirk_general {s : Str} (hs : Printable wc s) (width : Nat)
    (h : ulen wc s.dropLast ≤ width) : utruncate wc s width = s := by
  rcases utruncate_spec_printable hs width with ⟨_, h2⟩ | ⟨h1, _⟩
  · exact h2
  · omega

/-- a wcwidth with one wide and one zero-width character, for the concrete examples. -/
def wcDemo : Char → Option Nat := fun c => if c = '中' then some 2 else if c = '\u0301' then some 0 else some 1

/-- concrete instance of the quirk: width 2 requested, width 4 returned; and one level up a cell
    truncated to `truncate_width = 3` is rendered 5 wide (`"ab中…"`), where `"abcd"` gives `"ab…"`. -/
theorem utruncate_last_char_quirk :
    utruncate wcDemo "ab中".toList 2 = "ab中".toList ∧ ulen wcDemo (utruncate wcDemo "ab中".toList 2) = 4 ∧
    truncCell wcDemo (some 3) "ab中".toList = "ab中…".toList ∧ ulen wcDemo (truncCell wcDemo (some 3) "ab中".toList) = 5 ∧
    truncCell wcDemo (some 3) "abcd".toList = "ab…".toList := by decide

/-- so "the result fits" is false as a general statement … -/
theorem utruncate_fits_counterexample :
    ¬ (∀ (s : Str) (width : Nat), Printable wcDemo s → ulen wcDemo (utruncate wcDemo s width) ≤ width) := by
  intro h
  have hp : Printable wcDemo "ab中".toList := by
    intro c _; unfold wcDemo; split
    · rfl
    · split <;> rfl
  exact absurd (h "ab中".toList 2 hp) (by decide)

/-- … and true with the forced hypothesis: the string already fits, or dropping its last character
    does not make it fit. -/
theorem utruncate_fits_partial {s : Str} (hs : Printable wc s) (width : Nat)
    (h : ulen wc s ≤ width ∨ width < ulen wc s.dropLast) : ulen wc (utruncate wc s width) ≤ width := by
  rcases utruncate_fits_or_quirk hs width with h1 | ⟨_, h2, h3⟩
  · exact h1
  · omega

example : utruncate wcDemo "abcdef".toList 3 = "abc".toList ∧ utruncate wcDemo "a中中".toList 2 = "a".toList ∧
    utruncate wcDemo [] 2 = [] := by decide

/-! ### 2. upad -/

/-- `util.upad(strings, align="left")`: `value + " " * (width - ulen(value))` (the branch of `upad` that
    no caller in the library uses; the model's `upad` is the default `align="right"`). -/
def upadLeft (wc : Char → Option Nat) (xs : List Str) : List Str :=
  xs.map (fun x => x ++ spaces (maxWidth wc xs - ulen wc x))

/-- `width = max(ulen(x) for x in strings)` is attained. -/
theorem maxWidth_attained {xs : List Str} (hne : xs ≠ []) : ∃ x ∈ xs, ulen wc x = maxWidth wc xs := by
  induction xs with
  | nil => exact absurd rfl hne
  | cons y ys ih =>
    simp only [maxWidth, List.map_cons, List.foldr_cons]
    by_cases hys : ys = []
    · subst hys
      exact ⟨y, by simp, by simp⟩
    · obtain ⟨x, hx, hxw⟩ := ih hys
      by_cases hle : ulen wc y ≤ maxWidth wc ys
      · refine ⟨x, by simp [hx], ?_⟩
        rw [hxw]; unfold maxWidth at hle ⊢; omega
      · refine ⟨y, by simp, ?_⟩
        unfold maxWidth at hle; omega

theorem spaces_length (n : Nat) : (spaces n).length = n := by simp [spaces]

/-- `upad`, both alignments, position by position: string `i` is the original with exactly
    `width - ulen(x)` spaces on the left (align right) or on the right (align left), where
    `width = max ulen` (an upper bound that is attained); original width + padding count = `width`;
    the padded string has display width `width`; and (for width-1 spaces, counted in characters) the
    padded string is exactly `width - ulen(x)` characters longer. -/
theorem upad_spec_full (hsp : wc ' ' = some 1) (xs : List Str) (hp : ∀ x ∈ xs, Printable wc x) :
    (upad wc xs).length = xs.length ∧ (upadLeft wc xs).length = xs.length ∧
    (∀ x ∈ xs, ulen wc x ≤ maxWidth wc xs) ∧ (xs ≠ [] → ∃ x ∈ xs, ulen wc x = maxWidth wc xs) ∧
    ∀ (i : Nat) (h : i < xs.length),
      (upad wc xs)[i]? = some (spaces (maxWidth wc xs - ulen wc xs[i]) ++ xs[i]) ∧
      (upadLeft wc xs)[i]? = some (xs[i] ++ spaces (maxWidth wc xs - ulen wc xs[i])) ∧
      ulen wc xs[i] + (spaces (maxWidth wc xs - ulen wc xs[i])).length = maxWidth wc xs ∧
      ulen wc (spaces (maxWidth wc xs - ulen wc xs[i]) ++ xs[i]) = maxWidth wc xs ∧
      ulen wc (xs[i] ++ spaces (maxWidth wc xs - ulen wc xs[i])) = maxWidth wc xs := by
  refine ⟨by simp [upad], by simp [upadLeft], fun x hx => ulen_le_maxWidth hx, maxWidth_attained, ?_⟩
  intro i h
  have hle : ulen wc xs[i] ≤ maxWidth wc xs := ulen_le_maxWidth (List.getElem_mem h)
  have hpx : Printable wc xs[i] := hp _ (List.getElem_mem h)
  have hs : Printable wc (spaces (maxWidth wc xs - ulen wc xs[i])) := printable_replicate (by simp [hsp]) _
  have hsw : ulen wc (spaces (maxWidth wc xs - ulen wc xs[i])) = maxWidth wc xs - ulen wc xs[i] :=
    ulen_replicate hsp _
  refine ⟨by simp [upad, h], by simp [upadLeft, h], by rw [spaces_length]; omega, ?_, ?_⟩
  · rw [ulen_append hs hpx, hsw]; omega
  · rw [ulen_append hpx hs, hsw]; omega

example : upad wcDemo ["中".toList, "abc".toList, []] = [" 中".toList, "abc".toList, "   ".toList] ∧
    upadLeft wcDemo ["中".toList, "abc".toList, []] = ["中 ".toList, "abc".toList, "   ".toList] := by decide

/-! ### 3. DataFrame.to_string: the complete line structure -/

/-- right-align `x` in a field `W` wide. -/
def padTo (wc : Char → Option Nat) (W : Nat) (x : Str) : Str := spaces (W - ulen wc x) ++ x

/-- the display width of a column: the widest of its name, its dtype label and its cells. -/
def colWidth (wc : Char → Option Nat) (c : Col) : Nat := maxWidth wc (c.name :: c.label :: c.cells)

/-- the width of the row-number column. -/
def numWidth (wc : Char → Option Nat) (n : Nat) : Nat := maxWidth wc ([] :: [] :: [] :: (List.range n).map natStr)

def mkCol (wc : Char → Option Nat) (c : Col) : List Str := mkColumn wc c.name c.label c.cells

theorem mkColumn_eq (name label : Str) (cells : List Str) :
    mkColumn wc name label cells =
      padTo wc (maxWidth wc (name :: label :: cells)) name ::
      padTo wc (maxWidth wc (name :: label :: cells)) label ::
      List.replicate (ulen wc (padTo wc (maxWidth wc (name :: label :: cells)) name)) '─' ::
      cells.map (padTo wc (maxWidth wc (name :: label :: cells))) := by
  simp [mkColumn, upad, padTo]

theorem mkCol_eq (c : Col) :
    mkCol wc c = padTo wc (colWidth wc c) c.name :: padTo wc (colWidth wc c) c.label ::
      List.replicate (ulen wc (padTo wc (colWidth wc c) c.name)) '─' :: c.cells.map (padTo wc (colWidth wc c)) :=
  mkColumn_eq _ _ _

theorem mkCol_length (c : Col) : (mkCol wc c).length = c.cells.length + 3 := by
  rw [mkCol_eq]; simp

theorem rowNumbers_eq (n : Nat) :
    rowNumbers wc n = spaces (numWidth wc n) :: spaces (numWidth wc n) :: spaces (numWidth wc n) ::
      (List.range n).map (fun j => padTo wc (numWidth wc n) (natStr j)) := by
  simp [rowNumbers, upad, padTo, numWidth, ulen_nil]

theorem rowNumbers_length (n : Nat) : (rowNumbers wc n).length = n + 3 := by
  rw [rowNumbers_eq]; simp

theorem renderBatch_length {m : Nat} (cols : List (List Str)) :
    ∀ rows : List Str, rows.length = m → (∀ c ∈ cols, c.length = m) → (renderBatch rows cols).length = m := by
  induction cols with
  | nil => intro rows h _; simpa [renderBatch] using h
  | cons c cs ih =>
    intro rows h hc
    have := ih (List.zipWith joinSp rows c) (by simp [List.length_zipWith, h, hc c (by simp)])
      (fun d hd => hc d (by simp [hd]))
    simpa [renderBatch] using this

/-- a block, line by line. -/
theorem renderBatch_eq_range {m : Nat} (rows : List Str) (cols : List (List Str)) (hr : rows.length = m)
    (hc : ∀ c ∈ cols, c.length = m) :
    renderBatch rows cols =
      (List.range m).map (fun i => rows[i]?.getD [] ++ (cols.map (fun c => ' ' :: c[i]?.getD [])).flatten) := by
  apply List.ext_getElem?
  intro i
  by_cases hi : i < m
  · rw [renderBatch_line rows cols i (by omega) (fun c hc' => by rw [hc c hc']; exact hi)]
    simp [hi, hr]
  · have h1 : (renderBatch rows cols).length ≤ i := by rw [renderBatch_length cols rows hr hc]; omega
    rw [List.getElem?_eq_none h1, List.getElem?_eq_none (by simp; omega)]

def headerLine (wc : Char → Option Nat) (n : Nat) (g : List Col) (sel : Col → Str) : Str :=
  spaces (numWidth wc n) ++ (g.map (fun c => ' ' :: padTo wc (colWidth wc c) (sel c))).flatten

def ruleLine (wc : Char → Option Nat) (n : Nat) (g : List Col) : Str :=
  spaces (numWidth wc n) ++
    (g.map (fun c => ' ' :: List.replicate (ulen wc (padTo wc (colWidth wc c) c.name)) '─')).flatten

def dataLine (wc : Char → Option Nat) (n : Nat) (g : List Col) (j : Nat) : Str :=
  padTo wc (numWidth wc n) (natStr j) ++
    (g.map (fun c => ' ' :: padTo wc (colWidth wc c) (c.cells[j]?.getD []))).flatten

/-- the `n + 3` lines of the block showing the columns `g`: names, dtype labels, rule, `n` data rows. -/
def blockSpec (wc : Char → Option Nat) (n : Nat) (g : List Col) : List Str :=
  headerLine wc n g (·.name) :: headerLine wc n g (·.label) :: ruleLine wc n g ::
    (List.range n).map (dataLine wc n g)

theorem range_add_three (n : Nat) : List.range (n + 3) = 0 :: 1 :: 2 :: (List.range n).map (· + 3) := by
  rw [List.range_succ_eq_map, List.range_succ_eq_map, List.range_succ_eq_map]
  simp [List.map_map, Function.comp_def]

theorem block_eq_spec (n : Nat) (g : List Col) (hn : ∀ c ∈ g, c.cells.length = n) :
    renderBatch (rowNumbers wc n) (g.map (mkCol wc)) = blockSpec wc n g := by
  rw [renderBatch_eq_range (m := n + 3) _ _ (rowNumbers_length n)
    (by intro c hc; obtain ⟨d, hd, rfl⟩ := List.mem_map.mp hc; rw [mkCol_length, hn d hd])]
  rw [range_add_three]
  simp only [List.map_cons, List.map_map, blockSpec]
  congr 1
  · simp [rowNumbers_eq, headerLine, mkCol_eq, Function.comp_def]
  congr 1
  · simp [rowNumbers_eq, headerLine, mkCol_eq, Function.comp_def]
  congr 1
  · simp [rowNumbers_eq, ruleLine, mkCol_eq, Function.comp_def]
  · apply List.map_congr_left
    intro j hj
    have hj' : j < n := List.mem_range.mp hj
    simp only [Function.comp_def, dataLine]
    congr 1
    · simp [rowNumbers_eq, hj']
    · congr 1
      apply List.map_congr_left
      intro c hc
      have : j < c.cells.length := by rw [hn c hc]; exact hj'
      simp [mkCol_eq, this]

theorem blockSpec_length (n : Nat) (g : List Col) : (blockSpec wc n g).length = n + 3 := by
  simp [blockSpec]

/-- the lines of all blocks: "." before the first block, an empty line before every other one. -/
def blocksSpec (wc : Char → Option Nat) (n : Nat) : Nat → List (List Col) → List Str
  | _, [] => []
  | k, g :: gs => (if k = 0 then ['.'] else []) :: blockSpec wc n g ++ blocksSpec wc n (k + 1) gs

theorem blocksSpec_length (n : Nat) (segs : List (List Col)) :
    ∀ k, (blocksSpec wc n k segs).length = segs.length * (n + 4) := by
  induction segs with
  | nil => intro k; simp [blocksSpec]
  | cons g gs ih =>
    intro k
    simp only [blocksSpec, List.length_cons, List.length_append, blockSpec_length, ih (k + 1)]
    rw [Nat.add_mul]; omega

/-- a list of lists that flattens to an image `xs.map f` is the image of a segmentation of `xs`. -/
theorem flatten_eq_map_split {α β : Type} (f : α → β) :
    ∀ (L : List (List β)) (xs : List α), L.flatten = xs.map f →
      ∃ segs : List (List α), segs.flatten = xs ∧ L = segs.map (List.map f) := by
  intro L
  induction L with
  | nil =>
    intro xs h
    refine ⟨[], ?_, rfl⟩
    simp only [List.flatten_nil] at h ⊢
    exact (List.map_eq_nil_iff.mp h.symm).symm
  | cons l L ih =>
    intro xs h
    rw [List.flatten_cons] at h
    obtain ⟨l1, l2, hx, h1, h2⟩ := List.map_eq_append_iff.mp h.symm
    obtain ⟨segs, hs1, hs2⟩ := ih l2 h2.symm
    exact ⟨l1 :: segs, by simp [hs1, hx], by simp [h1, hs2]⟩

theorem batchLines_eq_spec (n : Nat) :
    ∀ (batches : List (List (List Str) × List Str)) (segs : List (List Col)) (k : Nat),
      batches.map (·.1) = segs.map (List.map (mkCol wc)) →
      (∀ b ∈ batches, b.2 = renderBatch (rowNumbers wc n) b.1) →
      (∀ g ∈ segs, ∀ c ∈ g, c.cells.length = n) →
      batchLines k batches = blocksSpec wc n k segs := by
  intro batches
  induction batches with
  | nil =>
    intro segs k h _ _
    cases segs with
    | nil => rfl
    | cons g gs => simp at h
  | cons b bs ih =>
    intro segs k h hb hn
    cases segs with
    | nil => simp at h
    | cons g gs =>
      simp only [List.map_cons, List.cons.injEq] at h
      simp only [batchLines, blocksSpec]
      rw [ih gs (k + 1) h.2 (fun b' hb' => hb b' (by simp [hb'])) (fun g' hg' => hn g' (by simp [hg'])),
        hb b (by simp), h.1, block_eq_spec n g (hn g (by simp))]

/-- `DataFrame.to_string`, completely: the columns are cut into consecutive non-empty segments
    (`segs.flatten = cols`: every column in exactly one block, in column order), and the output is, per
    segment, a separator line followed by the `n + 3` lines of `blockSpec` (`n = min(nrow, max_rows)`),
    then ".", then the footer exactly when rows were cut. -/
theorem dfToString_spec (cols : List Col) (nrow maxRows maxw : Nat) (hne : cols ≠ [])
    (hn : ∀ c ∈ cols, c.cells.length = min nrow maxRows) :
    ∃ segs : List (List Col), segs.flatten = cols ∧ (∀ g ∈ segs, g ≠ []) ∧
      segs.map (List.map (mkCol wc)) =
        (layout wc maxw (rowNumbers wc (min nrow maxRows)) (cols.map (mkCol wc))).map (·.1) ∧
      dfToString wc cols nrow maxRows maxw =
        some (blocksSpec wc (min nrow maxRows) 0 segs ++ [['.']] ++
          (if maxRows < nrow then [footer nrow] else [])) := by
  have hspec := layout_spec (wc := wc) maxw (rowNumbers wc (min nrow maxRows)) (cols.map (mkCol wc))
  obtain ⟨segs, hs1, hs2⟩ := flatten_eq_map_split (mkCol wc) _ cols hspec.1
  have hmem : ∀ g ∈ segs, ∀ c ∈ g, c ∈ cols := by
    intro g hg c hc
    rw [← hs1]; exact List.mem_flatten.mpr ⟨g, hg, hc⟩
  refine ⟨segs, hs1, ?_, hs2.symm, ?_⟩
  · intro g hg hge
    subst hge
    have : ([] : List (List Str)) ∈ (layout wc maxw (rowNumbers wc (min nrow maxRows)) (cols.map (mkCol wc))).map (·.1) := by
      rw [hs2]; exact List.mem_map.mpr ⟨[], hg, rfl⟩
    obtain ⟨b, hb, hb0⟩ := List.mem_map.mp this
    exact (hspec.2 b hb).1 hb0
  · have hcols : cols.isEmpty = false := by cases cols with
      | nil => exact absurd rfl hne
      | cons _ _ => rfl
    unfold dfToString
    simp only [hcols, Bool.false_eq_true, if_false]
    have hb := batchLines_eq_spec (wc := wc) (min nrow maxRows) _ segs 0 hs2 (fun b hb => (hspec.2 b hb).2)
      (fun g hg c hc => hn c (hmem g hg c hc))
    have hmk : cols.map (fun c => mkColumn wc c.name c.label c.cells) = cols.map (mkCol wc) := rfl
    rw [hmk, hb]

/-- the number of lines of `DataFrame.to_string`: per block a separator and `n + 3` lines, then the
    closing "." and, when rows were cut, the footer. -/
theorem dfToString_line_count (cols : List Col) (nrow maxRows maxw : Nat) (hne : cols ≠ [])
    (hn : ∀ c ∈ cols, c.cells.length = min nrow maxRows) :
    ∃ lines, dfToString wc cols nrow maxRows maxw = some lines ∧
      lines.length =
        (layout wc maxw (rowNumbers wc (min nrow maxRows)) (cols.map (mkCol wc))).length * (min nrow maxRows + 4)
          + 1 + (if maxRows < nrow then 1 else 0) := by
  obtain ⟨segs, _, _, h3, h4⟩ := dfToString_spec (wc := wc) cols nrow maxRows maxw hne hn
  refine ⟨_, h4, ?_⟩
  have hl : segs.length = (layout wc maxw (rowNumbers wc (min nrow maxRows)) (cols.map (mkCol wc))).length := by
    have := congrArg List.length h3
    simpa using this
  simp only [List.length_append, blocksSpec_length, List.length_cons, List.length_nil, hl]
  split <;> simp

/-! ### 4. the width of the blocks -/

/-- the display width of a (uniform) display column: that of its first line. -/
def colW (wc : Char → Option Nat) (c : List Str) : Nat := ulen wc (c.headD [])

/-- the line width of the block showing the display columns `cs` after a row-number column `W0` wide:
    every column costs its width plus the separating space. -/
def blockWidth (wc : Char → Option Nat) (W0 : Nat) (cs : List (List Str)) : Nat :=
  W0 + (cs.map (fun c => colW wc c + 1)).sum

theorem blockWidth_snoc (W0 : Nat) (cs : List (List Str)) (c : List Str) :
    blockWidth wc W0 (cs ++ [c]) = blockWidth wc W0 cs + colW wc c + 1 := by
  simp [blockWidth, List.sum_append]; omega

theorem blockWidth_single (W0 : Nat) (c : List Str) : blockWidth wc W0 [c] = W0 + colW wc c + 1 := by
  simp [blockWidth]; omega

theorem uniform_colW {W m : Nat} {c : List Str} (h : Uniform wc W m c) (hm : 0 < m) : colW wc c = W := by
  obtain ⟨hl, hu⟩ := h
  cases c with
  | nil => simp at hl; omega
  | cons x xs => exact (hu x (by simp)).1

theorem uniform_head {W m : Nat} {c : List Str} (h : Uniform wc W m c) (hm : 0 < m) :
    ulen wc (c.headD []) = W ∧ Printable wc (c.headD []) := by
  obtain ⟨hl, hu⟩ := h
  cases c with
  | nil => simp at hl; omega
  | cons x xs => exact hu x (by simp)

/-- invariant of the batching loop with widths. -/
theorem layoutAux_fits (hsp : wc ' ' = some 1) (maxw : Nat) {m W0 : Nat} (hm : 0 < m) {rownums : List Str}
    (hr : Uniform wc W0 m rownums) (cs : List (List Str)) :
    ∀ (curCols : List (List Str)) (cur : List Str),
      (∀ c ∈ cs, ∃ W, Uniform wc W m c) →
      Uniform wc (blockWidth wc W0 curCols.reverse) m cur →
      (blockWidth wc W0 curCols.reverse ≤ maxw ∨ ∃ c, curCols = [c]) →
      ∀ b ∈ layoutAux wc maxw rownums curCols cur cs,
        Uniform wc (blockWidth wc W0 b.1) m b.2 ∧
        (blockWidth wc W0 b.1 ≤ maxw ∨ ∃ c, b.1 = [c] ∧ maxw < blockWidth wc W0 [c]) := by
  have emit : ∀ (curCols : List (List Str)) (cur : List Str),
      Uniform wc (blockWidth wc W0 curCols.reverse) m cur →
      (blockWidth wc W0 curCols.reverse ≤ maxw ∨ ∃ c, curCols = [c]) →
      Uniform wc (blockWidth wc W0 (curCols.reverse, cur).1) m (curCols.reverse, cur).2 ∧
        (blockWidth wc W0 (curCols.reverse, cur).1 ≤ maxw ∨
          ∃ c, (curCols.reverse, cur).1 = [c] ∧ maxw < blockWidth wc W0 [c]) := by
    intro curCols cur hu hinv
    refine ⟨hu, ?_⟩
    by_cases hle : blockWidth wc W0 curCols.reverse ≤ maxw
    · exact Or.inl hle
    · rcases hinv with h | ⟨c, rfl⟩
      · exact absurd h hle
      · exact Or.inr ⟨c, rfl, by simpa using hle⟩
  induction cs with
  | nil =>
    intro curCols cur _ hu hinv b hb
    simp only [layoutAux, List.mem_singleton] at hb
    subst hb
    exact emit curCols cur hu hinv
  | cons c cs ih =>
    intro curCols cur hcs hu hinv b hb
    obtain ⟨Wc, hWc⟩ := hcs c (by simp)
    have hcW : colW wc c = Wc := uniform_colW hWc hm
    have hcs' : ∀ d ∈ cs, ∃ W, Uniform wc W m d := fun d hd => hcs d (by simp [hd])
    have h1 := uniform_head hu hm
    have h2 := uniform_head hWc hm
    have htest : ulen wc (cur.headD [] ++ c.headD []) = blockWidth wc W0 curCols.reverse + Wc := by
      rw [ulen_append h1.2 h2.2, h1.1, h2.1]
    simp only [layoutAux, htest] at hb
    split at hb
    · rename_i hover
      rcases List.mem_cons.mp hb with rfl | hb
      · exact emit curCols cur hu hinv
      · refine ih [c] (List.zipWith joinSp rownums c) hcs' ?_ (Or.inr ⟨c, rfl⟩) b hb
        have := zipWith_joinSp_uniform hsp hr hWc
        simpa [blockWidth_single, hcW, Nat.add_assoc, Nat.add_comm 1 Wc] using this
    · rename_i hnot
      have hw : blockWidth wc W0 (c :: curCols).reverse = blockWidth wc W0 curCols.reverse + 1 + Wc := by
        rw [List.reverse_cons, blockWidth_snoc, hcW]; omega
      refine ih (c :: curCols) (List.zipWith joinSp cur c) hcs' ?_ (Or.inl (by rw [hw]; omega)) b hb
      rw [hw]
      exact zipWith_joinSp_uniform hsp hu hWc

/-- every block of `layout` has lines of one width, `blockWidth`; that width is at most `max_width`,
    unless the block consists of a single column that does not fit next to the row numbers. -/
theorem layout_fits (hsp : wc ' ' = some 1) (maxw : Nat) {m W0 : Nat} (hm : 0 < m) {rownums : List Str}
    (hr : Uniform wc W0 m rownums) (cols : List (List Str)) (hc : ∀ c ∈ cols, ∃ W, Uniform wc W m c) :
    ∀ b ∈ layout wc maxw rownums cols,
      Uniform wc (blockWidth wc W0 b.1) m b.2 ∧
      (blockWidth wc W0 b.1 ≤ maxw ∨ ∃ c, b.1 = [c] ∧ maxw < blockWidth wc W0 [c]) := by
  cases cols with
  | nil => intro b hb; simp [layout] at hb
  | cons c cs =>
    obtain ⟨Wc, hWc⟩ := hc c (by simp)
    have hcW : colW wc c = Wc := uniform_colW hWc hm
    refine layoutAux_fits hsp maxw hm hr cs [c] (List.zipWith joinSp rownums c)
      (fun d hd => hc d (by simp [hd])) ?_ (Or.inr ⟨c, rfl⟩)
    have := zipWith_joinSp_uniform hsp hr hWc
    simpa [blockWidth_single, hcW, Nat.add_assoc, Nat.add_comm 1 Wc] using this

/-- consecutive blocks: the first column of the next block did not fit into the previous one. -/
def GreedyChain (wc : Char → Option Nat) (maxw W0 : Nat) : List (List (List Str) × List Str) → Prop
  | [] => True
  | [_] => True
  | b :: b' :: rest =>
    maxw < blockWidth wc W0 b.1 + colW wc (b'.1.headD []) + 1 ∧ GreedyChain wc maxw W0 (b' :: rest)

theorem layoutAux_head (maxw : Nat) (rownums : List Str) (cs : List (List Str)) :
    ∀ (curCols : List (List Str)) (cur : List Str),
      ∃ b rest pre, layoutAux wc maxw rownums curCols cur cs = b :: rest ∧ b.1 = curCols.reverse ++ pre := by
  induction cs with
  | nil => intro curCols cur; exact ⟨_, [], [], rfl, by simp⟩
  | cons c cs ih =>
    intro curCols cur
    simp only [layoutAux]
    split
    · exact ⟨_, _, [], rfl, by simp⟩
    · obtain ⟨b, rest, pre, h1, h2⟩ := ih (c :: curCols) (List.zipWith joinSp cur c)
      exact ⟨b, rest, c :: pre, h1, by simp [h2]⟩

theorem layoutAux_greedy (hsp : wc ' ' = some 1) (maxw : Nat) {m W0 : Nat} (hm : 0 < m) {rownums : List Str}
    (hr : Uniform wc W0 m rownums) (cs : List (List Str)) :
    ∀ (curCols : List (List Str)) (cur : List Str),
      (∀ c ∈ cs, ∃ W, Uniform wc W m c) →
      Uniform wc (blockWidth wc W0 curCols.reverse) m cur →
      GreedyChain wc maxw W0 (layoutAux wc maxw rownums curCols cur cs) := by
  induction cs with
  | nil => intro curCols cur _ _; simp [layoutAux, GreedyChain]
  | cons c cs ih =>
    intro curCols cur hcs hu
    obtain ⟨Wc, hWc⟩ := hcs c (by simp)
    have hcW : colW wc c = Wc := uniform_colW hWc hm
    have hcs' : ∀ d ∈ cs, ∃ W, Uniform wc W m d := fun d hd => hcs d (by simp [hd])
    have h1 := uniform_head hu hm
    have h2 := uniform_head hWc hm
    have htest : ulen wc (cur.headD [] ++ c.headD []) = blockWidth wc W0 curCols.reverse + Wc := by
      rw [ulen_append h1.2 h2.2, h1.1, h2.1]
    simp only [layoutAux, htest]
    split
    · rename_i hover
      have hu' : Uniform wc (blockWidth wc W0 [c].reverse) m (List.zipWith joinSp rownums c) := by
        have := zipWith_joinSp_uniform hsp hr hWc
        simpa [blockWidth_single, hcW, Nat.add_assoc, Nat.add_comm 1 Wc] using this
      have hrec := ih [c] (List.zipWith joinSp rownums c) hcs' hu'
      obtain ⟨b', rest, pre, e1, e2⟩ := layoutAux_head (wc := wc) maxw rownums cs [c] (List.zipWith joinSp rownums c)
      rw [e1] at hrec ⊢
      refine ⟨?_, hrec⟩
      simp only [e2, List.reverse_cons, List.reverse_nil, List.nil_append, List.cons_append, List.headD_cons, hcW]
      omega
    · have hw : blockWidth wc W0 (c :: curCols).reverse = blockWidth wc W0 curCols.reverse + 1 + Wc := by
        rw [List.reverse_cons, blockWidth_snoc, hcW]; omega
      refine ih (c :: curCols) (List.zipWith joinSp cur c) hcs' ?_
      rw [hw]
      exact zipWith_joinSp_uniform hsp hu hWc

/-- the blocks are filled greedily: a block is closed only when the next column would make it wider
    than `max_width`. -/
theorem layout_greedy (hsp : wc ' ' = some 1) (maxw : Nat) {m W0 : Nat} (hm : 0 < m) {rownums : List Str}
    (hr : Uniform wc W0 m rownums) (cols : List (List Str)) (hc : ∀ c ∈ cols, ∃ W, Uniform wc W m c) :
    GreedyChain wc maxw W0 (layout wc maxw rownums cols) := by
  cases cols with
  | nil => simp [layout, GreedyChain]
  | cons c cs =>
    obtain ⟨Wc, hWc⟩ := hc c (by simp)
    have hcW : colW wc c = Wc := uniform_colW hWc hm
    refine layoutAux_greedy hsp maxw hm hr cs [c] (List.zipWith joinSp rownums c)
      (fun d hd => hc d (by simp [hd])) ?_
    have := zipWith_joinSp_uniform hsp hr hWc
    simpa [blockWidth_single, hcW, Nat.add_assoc, Nat.add_comm 1 Wc] using this

theorem rowNumbers_uniform_numWidth (hsp : wc ' ' = some 1) (hdig : ∀ c : Char, c.isDigit = true → wc c = some 1)
    (n : Nat) : Uniform wc (numWidth wc n) (n + 3) (rowNumbers wc n) := by
  refine ⟨rowNumbers_length n, upad_uniform hsp ?_⟩
  intro x hx
  simp only [List.mem_cons, List.mem_map, List.mem_range] at hx
  rcases hx with rfl | rfl | rfl | ⟨k, _, rfl⟩
  · intro c hc; cases hc
  · intro c hc; cases hc
  · intro c hc; cases hc
  · exact natStr_printable hdig k

def ColPrintable (wc : Char → Option Nat) (c : Col) : Prop :=
  Printable wc c.name ∧ Printable wc c.label ∧ ∀ x ∈ c.cells, Printable wc x

theorem mkCol_uniform (hsp : wc ' ' = some 1) (hrule : wc '─' = some 1) (c : Col) (hp : ColPrintable wc c) :
    Uniform wc (colWidth wc c) (c.cells.length + 3) (mkCol wc c) :=
  mkColumn_uniform hsp hrule c.name c.label c.cells hp.1 hp.2.1 hp.2.2

/-- the line width of the block showing the columns `g`: row numbers, then per column a space and the
    column at its width. -/
def dfWidth (wc : Char → Option Nat) (n : Nat) (g : List Col) : Nat :=
  numWidth wc n + (g.map (fun c => colWidth wc c + 1)).sum

theorem blockWidth_mkCol (hsp : wc ' ' = some 1) (hrule : wc '─' = some 1) (n : Nat) (g : List Col)
    (hp : ∀ c ∈ g, ColPrintable wc c) :
    blockWidth wc (numWidth wc n) (g.map (mkCol wc)) = dfWidth wc n g := by
  unfold blockWidth dfWidth
  rw [List.map_map]
  congr 2
  apply List.map_congr_left
  intro c hc
  simp only [Function.comp_def]
  rw [uniform_colW (mkCol_uniform hsp hrule c (hp c hc)) (by omega)]

/-- `DataFrame.to_string` and `max_width`: in every block all `n + 3` lines have the same display
    width `dfWidth`, and that width is at most `max_width` — unless the block holds a single column
    which, next to the row numbers, is wider than `max_width` (such a column gets a block of its own;
    nothing is cut).  Blocks are filled greedily (`GreedyChain`). -/
theorem dfToString_fits (hsp : wc ' ' = some 1) (hrule : wc '─' = some 1)
    (hdig : ∀ c : Char, c.isDigit = true → wc c = some 1)
    (cols : List Col) (nrow maxRows maxw : Nat) (hne : cols ≠ [])
    (hp : ∀ c ∈ cols, ColPrintable wc c)
    (hn : ∀ c ∈ cols, c.cells.length = min nrow maxRows) :
    ∃ segs : List (List Col), segs.flatten = cols ∧
      dfToString wc cols nrow maxRows maxw =
        some (blocksSpec wc (min nrow maxRows) 0 segs ++ [['.']] ++
          (if maxRows < nrow then [footer nrow] else [])) ∧
      (∀ g ∈ segs,
        (∀ l ∈ blockSpec wc (min nrow maxRows) g, ulen wc l = dfWidth wc (min nrow maxRows) g ∧ Printable wc l) ∧
        (dfWidth wc (min nrow maxRows) g ≤ maxw ∨
          ∃ c, g = [c] ∧ maxw < numWidth wc (min nrow maxRows) + colWidth wc c + 1)) ∧
      GreedyChain wc maxw (numWidth wc (min nrow maxRows))
        (layout wc maxw (rowNumbers wc (min nrow maxRows)) (cols.map (mkCol wc))) := by
  obtain ⟨segs, hs1, _, hs3, hs4⟩ := dfToString_spec (wc := wc) cols nrow maxRows maxw hne hn
  have hmem : ∀ g ∈ segs, ∀ c ∈ g, c ∈ cols := by
    intro g hg c hc
    rw [← hs1]; exact List.mem_flatten.mpr ⟨g, hg, hc⟩
  have hr := rowNumbers_uniform_numWidth hsp hdig (min nrow maxRows) (wc := wc)
  have hcu : ∀ c ∈ cols.map (mkCol wc), ∃ W, Uniform wc W (min nrow maxRows + 3) c := by
    intro c hc
    obtain ⟨d, hd, rfl⟩ := List.mem_map.mp hc
    have := mkCol_uniform hsp hrule d (hp d hd)
    rw [hn d hd] at this
    exact ⟨_, this⟩
  have hspec := layout_spec (wc := wc) maxw (rowNumbers wc (min nrow maxRows)) (cols.map (mkCol wc))
  refine ⟨segs, hs1, hs4, ?_, layout_greedy hsp maxw (by omega) hr _ hcu⟩
  intro g hg
  have : g.map (mkCol wc) ∈
      (layout wc maxw (rowNumbers wc (min nrow maxRows)) (cols.map (mkCol wc))).map (·.1) := by
    rw [← hs3]; exact List.mem_map.mpr ⟨g, hg, rfl⟩
  obtain ⟨b, hb, hb1⟩ := List.mem_map.mp this
  have hfit := layout_fits hsp maxw (by omega) hr _ hcu b hb
  have hb2 : b.2 = blockSpec wc (min nrow maxRows) g := by
    rw [(hspec.2 b hb).2, hb1]
    exact block_eq_spec _ g (fun c hc => hn c (hmem g hg c hc))
  have hw : blockWidth wc (numWidth wc (min nrow maxRows)) b.1 = dfWidth wc (min nrow maxRows) g := by
    rw [hb1]; exact blockWidth_mkCol hsp hrule _ g (fun c hc => hp c (hmem g hg c hc))
  rw [hw, hb2] at hfit
  refine ⟨hfit.1.2, ?_⟩
  rcases hfit.2 with h | ⟨c', hc1, hc2⟩
  · exact Or.inl h
  · right
    rw [hb1] at hc1
    cases g with
    | nil => simp at hc1
    | cons c t =>
      cases t with
      | cons _ _ => simp at hc1
      | nil =>
        refine ⟨c, rfl, ?_⟩
        have hcw := blockWidth_mkCol hsp hrule (min nrow maxRows) [c] (fun d hd => hp d (hmem [c] hg d hd))
        simp only [List.map_cons, List.map_nil, List.cons.injEq, and_true] at hc1 hcw
        rw [← hc1, hcw] at hc2
        simp [dfWidth] at hc2
        omega

/-- if every column fits on its own next to the row numbers, no line is wider than `max_width`. -/
theorem dfToString_fits_all (hsp : wc ' ' = some 1) (hrule : wc '─' = some 1)
    (hdig : ∀ c : Char, c.isDigit = true → wc c = some 1)
    (cols : List Col) (nrow maxRows maxw : Nat) (hne : cols ≠ [])
    (hp : ∀ c ∈ cols, ColPrintable wc c)
    (hn : ∀ c ∈ cols, c.cells.length = min nrow maxRows)
    (hfit : ∀ c ∈ cols, numWidth wc (min nrow maxRows) + colWidth wc c + 1 ≤ maxw) :
    ∃ segs : List (List Col), segs.flatten = cols ∧
      dfToString wc cols nrow maxRows maxw =
        some (blocksSpec wc (min nrow maxRows) 0 segs ++ [['.']] ++
          (if maxRows < nrow then [footer nrow] else [])) ∧
      ∀ g ∈ segs, ∀ l ∈ blockSpec wc (min nrow maxRows) g, ulen wc l ≤ maxw := by
  obtain ⟨segs, h1, h2, h3, _⟩ := dfToString_fits hsp hrule hdig cols nrow maxRows maxw hne hp hn
  refine ⟨segs, h1, h2, ?_⟩
  intro g hg l hl
  obtain ⟨hu, hw⟩ := h3 g hg
  rw [(hu l hl).1]
  rcases hw with h | ⟨c, rfl, hc⟩
  · exact h
  · have := hfit c (by rw [← h1]; exact List.mem_flatten.mpr ⟨[c], hg, by simp⟩)
    omega

/-! ### 5. Vector.to_string and ListOfDicts.to_string -/

/-- `Vector.to_string(max_elements)` up to the single-row strip, composed from the model's parts as in
    the Python: `rows = [["["]]`; the elements of `self[:max_elements].to_strings(pad=True)`; `"..."`
    `if max_elements < self.length`; `"] dtype"`.  `xs` are the unpadded element strings. -/
def vecToRows (wc : Char → Option Nat) (pw : Nat) (xs : List Str) (maxEl : Nat) (label : Str) : List (List Str) :=
  vecRows wc pw (toStrings wc none (xs.take maxEl)) (decide (maxEl < xs.length)) label

/-- the tokens of `Vector.to_string` in order, whatever the wrapping: "[", then exactly
    `min(len, max_elements)` elements — element `i` is string `i` of the vector, right-aligned to the
    widest shown element —, then "..." iff elements were cut, then "] dtype". -/
theorem vecToRows_structure (pw : Nat) (xs : List Str) (maxEl : Nat) (label : Str) :
    ∃ shown : List Str,
      unrows (vecToRows wc pw xs maxEl label) =
        ['['] :: shown ++ (if maxEl < xs.length then ["...".toList] else []) ++ [']' :: ' ' :: label] ∧
      shown.length = min xs.length maxEl ∧
      (∀ (i : Nat) (h : i < min xs.length maxEl),
        shown[i]? = some (padTo wc (maxWidth wc (xs.take maxEl)) (xs[i]'(by omega)))) ∧
      (unrows (vecToRows wc pw xs maxEl label)).length =
        min xs.length maxEl + 2 + (if maxEl < xs.length then 1 else 0) := by
  refine ⟨toStrings wc none (xs.take maxEl), ?_, ?_, ?_, ?_⟩
  · unfold vecToRows vecRows
    rw [foldl_addElem_cover (wc := wc) (pw := pw) _ [[['[']]] (by simp) (by simp)]
    by_cases h : maxEl < xs.length <;> simp [unrows, vecTokens, h]
  · rw [toStrings_length, List.length_take]; omega
  · intro i h
    have hi : i < (xs.take maxEl).length := by rw [List.length_take]; omega
    have e : List.map (truncCell wc none) (xs.take maxEl) = xs.take maxEl := by
      have : truncCell wc none = id := by funext s; rfl
      rw [this, List.map_id]
    simp only [toStrings, e, upad, padTo]
    rw [List.getElem?_map, List.getElem?_eq_getElem hi]
    simp
  · unfold vecToRows vecRows
    rw [foldl_addElem_cover (wc := wc) (pw := pw) _ [[['[']]] (by simp) (by simp)]
    have hl : (toStrings wc none (xs.take maxEl)).length = min xs.length maxEl := by
      rw [toStrings_length, List.length_take]; omega
    by_cases h : maxEl < xs.length <;> simp [unrows, vecTokens, h, hl] <;> omega

/-- the "..." marker is a token of its own, at the position after the last shown element, and it is
    there iff elements were cut (the token at that position is otherwise the closing "] dtype"). -/
theorem vecTokens_marker_iff (elems : List Str) (cut : Bool) (label : Str) :
    (vecTokens elems cut label)[elems.length]? = some "...".toList ↔ cut = true := by
  cases cut
  · simp [vecTokens]
  · simp [vecTokens]

/-- when nothing is cut every element is shown. -/
theorem vecToRows_all_shown (pw : Nat) (xs : List Str) (maxEl : Nat) (label : Str) (h : ¬ maxEl < xs.length) :
    unrows (vecToRows wc pw xs maxEl label) = ['['] :: toStrings wc none xs ++ [']' :: ' ' :: label] := by
  unfold vecToRows vecRows
  rw [foldl_addElem_cover (wc := wc) (pw := pw) _ [[['[']]] (by simp) (by simp)]
  have : xs.take maxEl = xs := List.take_of_length_le (by omega)
  simp [unrows, vecTokens, h, this]

/-- `ListOfDicts.to_string(max_items)`, composed as in the Python: the JSON of `self.head(max_items)`
    and the footer `if max_items < len(self)`. -/
def lodRender {α : Type} (toJson : List α → Str) (items : List α) (maxItems : Nat) : Str :=
  lodToString (toJson (items.take maxItems)) items.length maxItems

def lodFooter (len : Nat) : Str := " ... ".toList ++ natStr len ++ " items total".toList

/-- exactly `min(len, max_items)` items are rendered (all of them when nothing is cut), followed by the
    footer stating the true total iff items were cut — and the footer is never empty, so the two cases
    are distinguishable. -/
theorem lodRender_structure {α : Type} (toJson : List α → Str) (items : List α) (maxItems : Nat) :
    lodRender toJson items maxItems =
      toJson (items.take maxItems) ++ (if maxItems < items.length then lodFooter items.length else []) ∧
    (items.take maxItems).length = min items.length maxItems ∧
    (¬ maxItems < items.length → items.take maxItems = items) ∧
    (lodRender toJson items maxItems = toJson (items.take maxItems) ↔ ¬ maxItems < items.length) := by
  have h1 : lodRender toJson items maxItems =
      toJson (items.take maxItems) ++ (if maxItems < items.length then lodFooter items.length else []) := by
    unfold lodRender lodToString lodFooter
    split <;> simp
  refine ⟨h1, by rw [List.length_take]; omega, fun h => List.take_of_length_le (by omega), ?_⟩
  rw [h1]
  by_cases h : maxItems < items.length
  · simp only [h, if_true, not_true_eq_false, iff_false]
    intro hc
    have := congrArg List.length hc
    simp [lodFooter] at this
  · simp [h]

example : unrows (vecToRows wcDemo 80 ["1".toList, "22".toList, "333".toList] 2 "int64".toList) =
    ["[".toList, " 1".toList, "22".toList, "...".toList, "] int64".toList] := by decide

example : lodRender (fun xs : List Nat => natStr xs.length) [5, 6, 7] 2 = "2 ... 3 items total".toList ∧
    lodRender (fun xs : List Nat => natStr xs.length) [5, 6, 7] 3 = "3".toList := by decide

/-! ### concrete frames (non-vacuity) -/

def demoA : Col := ⟨"a".toList, "int64".toList, ["1".toList, "22".toList]⟩
def demoB : Col := ⟨"中".toList, "string".toList, ["x".toList, "yz".toList]⟩

/-- both columns fit into one block (every line 14 wide ≤ 80). -/
example : dfToString wcDemo [demoA, demoB] 2 10 80 =
    some ([".", "      a     中", "  int64 string", "  ───── ──────", "0     1      x", "1    22     yz", "."].map
      String.toList) := by decide

/-- `max_width = 12`: two blocks, 7 and 8 wide. -/
example : dfToString wcDemo [demoA, demoB] 2 10 12 =
    some ([".", "      a", "  int64", "  ─────", "0     1", "1    22", "",
           "      中", "  string", "  ──────", "0      x", "1     yz", "."].map String.toList) := by decide

/-- `max_width = 5`: no column fits, each gets a block of its own, nothing is cut; one of two rows shown
    and the footer states the total. -/
example : dfToString wcDemo [⟨"a".toList, "int64".toList, ["1".toList]⟩, ⟨"中".toList, "string".toList, ["x".toList]⟩] 2 1 5 =
    some ([".", "      a", "  int64", "  ─────", "0     1", "",
           "      中", "  string", "  ──────", "0      x", ".", "... 2 rows total"].map String.toList) := by decide

/-! ### combined statements cited by Proofs/C20.lean -/

/-- `dfToString_spec` with the header lines written out and the line counts. -/
theorem dfToString_names_labels (cols : List Col) (nrow maxRows maxw : Nat) (hne : cols ≠ [])
    (hn : ∀ c ∈ cols, c.cells.length = min nrow maxRows) :
    ∃ segs : List (List Col), segs.flatten = cols ∧ (∀ g ∈ segs, g ≠ []) ∧
      dfToString wc cols nrow maxRows maxw =
        some (blocksSpec wc (min nrow maxRows) 0 segs ++ [['.']] ++
          (if maxRows < nrow then [footer nrow] else [])) ∧
      (∀ g : List Col, blockSpec wc (min nrow maxRows) g =
        (spaces (numWidth wc (min nrow maxRows)) ++
            (g.map (fun c => ' ' :: (spaces (colWidth wc c - ulen wc c.name) ++ c.name))).flatten) ::
        (spaces (numWidth wc (min nrow maxRows)) ++
            (g.map (fun c => ' ' :: (spaces (colWidth wc c - ulen wc c.label) ++ c.label))).flatten) ::
        ruleLine wc (min nrow maxRows) g ::
        (List.range (min nrow maxRows)).map (fun j =>
          padTo wc (numWidth wc (min nrow maxRows)) (natStr j) ++
            (g.map (fun c => ' ' :: padTo wc (colWidth wc c) (c.cells[j]?.getD []))).flatten)) ∧
      (∀ g : List Col, (blockSpec wc (min nrow maxRows) g).length = min nrow maxRows + 3) ∧
      (∀ k, (blocksSpec wc (min nrow maxRows) k segs).length = segs.length * (min nrow maxRows + 4)) := by
  obtain ⟨segs, h1, h2, _, h4⟩ := dfToString_spec (wc := wc) cols nrow maxRows maxw hne hn
  exact ⟨segs, h1, h2, h4, fun _ => rfl, fun g => blockSpec_length _ g, fun k => blocksSpec_length _ segs k⟩

/-- `utruncate`: a prefix, and exactly what the loop computes. -/
theorem utruncate_prefix_and_exact (s : Str) (width : Nat) :
    utruncate wc s width <+: s ∧
    ((∃ k, 1 ≤ k ∧ k < s.length ∧ width < ulen wc (s.take k) ∧
        (∀ j, 1 ≤ j → j < k → ulen wc (s.take j) ≤ width) ∧
        utruncate wc s width = s.take (k - 1)) ∨
    ((∀ j, 1 ≤ j → j < s.length → ulen wc (s.take j) ≤ width) ∧ utruncate wc s width = s)) :=
  ⟨utruncate_prefix s width, utruncate_exact s width⟩

/-- a cell truncated to `truncate_width = t` is at most `t` wide — except in the quirk case of
    `utruncate`, where the whole first line (more than `t - 1` wide only because of its last
    character) is kept and "…" appended. -/
theorem truncCell_fits_or_quirk (hell : wc '…' = some 1) (t : Nat) (ht : 1 ≤ t) (s : Str) (hs : Printable wc s) :
    ulen wc (truncCell wc (some t) s) ≤ t ∨
    (truncCell wc (some t) s = firstLine s ++ ['…'] ∧ ulen wc (firstLine s).dropLast ≤ t - 1 ∧
      t - 1 < ulen wc (firstLine s)) := by
  unfold truncCell
  simp only
  split
  · have hfl : Printable wc (firstLine s) := printable_of_prefix (List.takeWhile_prefix _) hs
    have hu : Printable wc (utruncate wc (firstLine s) (t - 1)) := printable_of_prefix (utruncate_prefix _ _) hfl
    have he : Printable wc ['…'] := by intro c hc; simp at hc; simp [hc, hell]
    have hew : ulen wc ['…'] = 1 := by simp [ulen, wsum, hell]
    rw [ulen_append hu he, hew]
    rcases utruncate_fits_or_quirk hfl (t - 1) with h | ⟨h1, h2, h3⟩
    · left; omega
    · right; rw [h1]; exact ⟨rfl, h2, h3⟩
  · rename_i h
    simp only [Bool.or_eq_true, decide_eq_true_eq, not_or, Nat.not_lt] at h
    exact Or.inl h.1

end DI.Render

/-
  Lemmas/GroupRuns.lean — C04: the groups are exactly the classes of equal keys.
  Generic part: in a list whose equal elements are contiguous, cutting at the first occurrences
  gives chunks that are homogeneous and pairwise distinct.
-/
import Model.Group
import Lemmas.Frame
import Lemmas.DfSort
import Lemmas.Group

namespace DI

section generic
variable {α : Type} [DecidableEq α]

/-- equal elements are contiguous. -/
def Contig (xs : List α) : Prop :=
  ∀ (i j k : Nat) (hk : k < xs.length) (hij : i < j) (hjk : j < k),
    xs[i]'(by omega) = xs[k] → xs[j]'(by omega) = xs[i]'(by omega)

theorem mem_uniqueScan_zero (xs : List α) (j : Nat) :
    j ∈ uniqueScan xs 0 [] ↔ ∃ h : j < xs.length, ∀ j' (h' : j' < j), xs[j']'(by omega) ≠ xs[j] := by
  rw [mem_uniqueScan]
  constructor
  · rintro ⟨k, r, h1, h2, _, h4⟩
    have hk : k = j := by omega
    subst hk
    obtain ⟨hlt, hr⟩ := List.getElem?_eq_some_iff.mp h1
    refine ⟨hlt, ?_⟩
    intro j' h' heq
    apply h4
    rw [List.mem_take_iff_getElem]
    exact ⟨j', by omega, by rw [← hr, ← heq]⟩
  · rintro ⟨h, hne⟩
    refine ⟨j, xs[j], by simp [h], by omega, by simp, ?_⟩
    intro hmem
    rw [List.mem_take_iff_getElem] at hmem
    obtain ⟨j', hj', heq⟩ := hmem
    exact hne j' (by omega) heq

/-- every position has a first occurrence of its value at or before it. -/
theorem exists_first_occurrence (xs : List α) (p : Nat) (hp : p < xs.length) :
    ∃ f, ∃ hf : f ≤ p, xs[f]'(by omega) = xs[p] ∧ f ∈ uniqueScan xs 0 [] := by
  induction p using Nat.strongRecOn with
  | _ p ih =>
    by_cases h : ∃ j', ∃ h' : j' < p, xs[j']'(by omega) = xs[p]
    · obtain ⟨j', h', heq⟩ := h
      obtain ⟨f, hf, e, hm⟩ := ih j' h' (by omega)
      exact ⟨f, by omega, by rw [e, heq], hm⟩
    · exact ⟨p, Nat.le_refl p, rfl, (mem_uniqueScan_zero xs p).mpr ⟨hp, fun j' h' heq => h ⟨j', h', heq⟩⟩⟩

/-- between two consecutive starts every element equals the element at the first of them. -/
theorem run_homogeneous (xs : List α) (hc : Contig xs) (lo hi p : Nat)
    (hlo : lo ∈ uniqueScan xs 0 []) (hgap : ∀ s ∈ uniqueScan xs 0 [], s ≤ lo ∨ hi ≤ s)
    (h1 : lo ≤ p) (h2 : p < hi) (hp : p < xs.length) :
    xs[p] = xs[lo]'(by omega) := by
  obtain ⟨f, hf, e, hm⟩ := exists_first_occurrence xs p hp
  rcases hgap f hm with hle | hge
  · rcases Nat.lt_or_eq_of_le hle with hlt | heq
    · -- f < lo ≤ p and xs[f] = xs[p]: contiguity forces xs[lo] = xs[f], but lo is a first occurrence
      rcases Nat.lt_or_eq_of_le h1 with hlp | hlp
      · have := hc f lo p hp hlt hlp e
        obtain ⟨_, hne⟩ := (mem_uniqueScan_zero xs lo).mp hlo
        exact absurd this.symm (hne f hlt)
      · subst hlp; rfl
    · subst heq; exact e.symm
  · omega

end generic

/-! ### np.split chunk structure -/

theorem splitAt_go_eq (arr : List Nat) (prev : Nat) (bounds : List Nat) :
    splitAt.go arr prev bounds =
      ((prev :: bounds).zip bounds).map (fun b => (arr.drop b.1).take (b.2 - b.1)) := by
  induction bounds generalizing prev with
  | nil => simp [splitAt.go]
  | cons b bs ih => simp [splitAt.go, ih b]

/-- in a strictly increasing list no element lies strictly between two neighbours. -/
theorem zip_tail_gap (l : List Nat) (hs : l.Pairwise (· < ·)) (lo hi : Nat)
    (hmem : (lo, hi) ∈ l.zip l.tail) : lo ∈ l ∧ lo < hi ∧ ∀ s ∈ l, s ≤ lo ∨ hi ≤ s := by
  induction l with
  | nil => simp at hmem
  | cons a t ih =>
    cases t with
    | nil => simp at hmem
    | cons b t' =>
      simp only [List.tail_cons, List.zip_cons_cons, List.mem_cons] at hmem
      have hab : a < b := (List.pairwise_cons.mp hs).1 b (by simp)
      have hs' : (b :: t').Pairwise (· < ·) := (List.pairwise_cons.mp hs).2
      rcases hmem with heq | hmem
      · simp only [Prod.mk.injEq] at heq
        obtain ⟨rfl, rfl⟩ := heq
        refine ⟨by simp, hab, ?_⟩
        intro s hs1
        rcases List.mem_cons.mp hs1 with rfl | hs1
        · left; omega
        · right
          rcases List.mem_cons.mp hs1 with rfl | hs1
          · omega
          · have := (List.pairwise_cons.mp hs').1 s hs1; omega
      · have := ih hs' (by simpa using hmem)
        refine ⟨by simp [this.1], this.2.1, ?_⟩
        intro s hs1
        rcases List.mem_cons.mp hs1 with rfl | hs1
        · left
          have : s < lo ∨ s = lo ∨ True := Or.inr (Or.inr trivial)
          have hlo := this
          have hlomem := (ih hs' (by simpa using hmem)).1
          rcases List.mem_cons.mp hlomem with rfl | hm
          · omega
          · have := (List.pairwise_cons.mp hs').1 lo hm; omega
        · exact (ih hs' (by simpa using hmem)).2.2 s hs1


/-! ### the sorted key rows of `aggregate` / `split` -/

/-- the key tuple of original row `i`. -/
def keyRow (keys : List (ColKind × List Cell)) (i : Nat) : List Cell := keys.map (fun k => k.2[i]!)

def ascKeys (keys : List (ColKind × List Cell)) : List (ColKind × Bool × List Cell) :=
  keys.map (fun k => (k.1, false, k.2))

theorem leLexBy_asc_antisymm : ∀ (lts : List (Cell → Cell → Bool)) (a b : List Cell),
    (∀ lt ∈ lts, lt = cellLt) → a.length = lts.length → b.length = lts.length →
    leLexBy lts a b = true → leLexBy lts b a = true → a = b
  | [], a, b, _, ha, hb, _, _ => by
    simp at ha hb; rw [ha, hb]
  | lt :: lts, [], _, _, ha, _, _, _ => by simp at ha
  | lt :: lts, _ :: _, [], _, _, hb, _, _ => by simp at hb
  | lt :: lts, x :: a, y :: b, hl, ha, hb, h1, h2 => by
    have hlt : lt = cellLt := hl lt (by simp)
    subst hlt
    simp only [leLexBy] at h1 h2
    cases hxy : cellLt x y with
    | true =>
      have := cellLt_asymm hxy
      simp [hxy, this] at h2
    | false =>
      cases hyx : cellLt y x with
      | true => simp [hxy, hyx] at h1
      | false =>
        simp only [hxy, hyx, Bool.false_eq_true, if_false] at h1 h2
        have e := cellLt_tricho hxy hyx
        have := leLexBy_asc_antisymm lts a b (fun l h => hl l (by simp [h])) (by simpa using ha) (by simpa using hb) h1 h2
        rw [e, this]

theorem specLts_asc (keys : List (ColKind × List Cell)) : ∀ lt ∈ specLts (ascKeys keys), lt = cellLt := by
  intro lt h
  simp only [specLts, ascKeys, List.map_map, List.mem_map, Function.comp] at h
  obtain ⟨k, _, rfl⟩ := h
  simp [specLt]

/-- the rows of the sorted key columns, as `aggregate` sees them. -/
def sortedRows (n : Nat) (keys : List (ColKind × List Cell)) : List (List Cell) :=
  rowsOf n (keys.map (fun k => gather k.2 (groupSortIdx n keys)))

theorem groupSortIdx_length (n : Nat) (keys : List (ColKind × List Cell)) : (groupSortIdx n keys).length = n := by
  have := (dfSortIdx_perm n (ascKeys keys)).length_eq
  simpa [groupSortIdx, ascKeys] using this

theorem groupSortIdx_lt (n : Nat) (keys : List (ColKind × List Cell)) (p : Nat) (hp : p < n) :
    (groupSortIdx n keys)[p]! < n := by
  have hl := groupSortIdx_length n keys
  have hm : (groupSortIdx n keys)[p]! ∈ groupSortIdx n keys := by
    rw [getElem!_pos _ p (by omega)]; exact List.getElem_mem _
  have hg : dfSortIdx n (ascKeys keys) = groupSortIdx n keys := by simp [groupSortIdx, ascKeys]
  have := (dfSortIdx_perm n (ascKeys keys)).mem_iff.mp (by rw [hg]; exact hm)
  simpa using this

theorem sortedRows_length (n : Nat) (keys : List (ColKind × List Cell)) : (sortedRows n keys).length = n := by
  simp [sortedRows, rowsOf]

/-- row `p` of the sorted key columns is the key tuple of the original row placed there. -/
theorem sortedRows_get (n : Nat) (keys : List (ColKind × List Cell)) (p : Nat) (hp : p < n) :
    (sortedRows n keys)[p]'(by rw [sortedRows_length]; exact hp) = keyRow keys (groupSortIdx n keys)[p]! := by
  have h1 : (sortedRows n keys)[p]'(by rw [sortedRows_length]; exact hp) = (sortedRows n keys)[p]! := by
    rw [getElem!_pos]
  rw [h1]
  unfold sortedRows
  rw [rowsOf_get n _ p hp]
  simp only [keyRow, List.map_map]
  apply List.map_congr_left
  intro k _
  simp only [Function.comp]
  rw [gather_get _ _ p (by rw [groupSortIdx_length]; exact hp)]

theorem sortedRows_eq_gather (n : Nat) (keys : List (ColKind × List Cell)) :
    sortedRows n keys = gather (rowsOf n (origCols (ascKeys keys))) (dfSortIdx n (ascKeys keys)) := by
  have hg : dfSortIdx n (ascKeys keys) = groupSortIdx n keys := by simp [groupSortIdx, ascKeys]
  rw [hg]
  apply List.ext_getElem
  · rw [sortedRows_length, gather_length, groupSortIdx_length]
  · intro p h1 h2
    have hp : p < n := by rw [sortedRows_length] at h1; exact h1
    rw [sortedRows_get n keys p hp]
    have : (gather (rowsOf n (origCols (ascKeys keys))) (groupSortIdx n keys))[p] =
        (gather (rowsOf n (origCols (ascKeys keys))) (groupSortIdx n keys))[p]! := by rw [getElem!_pos]
    rw [this, gather_get _ _ p (by rw [groupSortIdx_length]; exact hp)]
    rw [rowsOf_get n _ _ (groupSortIdx_lt n keys p hp)]
    simp [keyRow, origCols, ascKeys]

/-- sorted ascending by the keys ⇒ rows with equal key tuples are contiguous. -/
theorem sortedRows_contig (n : Nat) (keys : List (ColKind × List Cell)) (hwf : WfKeys n (ascKeys keys)) :
    Contig (sortedRows n keys) := by
  have hs := dfSortIdx_sorted_spec n (ascKeys keys) hwf
  rw [← sortedRows_eq_gather] at hs
  rw [List.pairwise_iff_getElem] at hs
  intro i j k hk hij hjk heq
  have hlen := sortedRows_length n keys
  have hkn : k < n := by omega
  have h1 := hs i j (by omega) (by omega) hij
  have h2 := hs j k (by omega) hk hjk
  rw [← heq] at h2
  have hrowlen : ∀ p (hp : p < (sortedRows n keys).length), ((sortedRows n keys)[p]).length = (specLts (ascKeys keys)).length := by
    intro p hp
    rw [sortedRows_get n keys p (by omega)]
    simp [keyRow, specLts, ascKeys]
  exact leLexBy_asc_antisymm _ _ _ (specLts_asc keys) (hrowlen j (by omega)) (hrowlen i (by omega)) h2 h1

/-! ### the groups -/

theorem groupsOf_eq (n : Nat) (keys : List (ColKind × List Cell)) :
    groupsOf n keys = splitAt (groupSortIdx n keys) (uniqueScan (sortedRows n keys) 0 []) := by
  simp [groupsOf, sortedRows, uniqueIdx]

/-- every group is a run `order[lo..hi)` between two neighbouring first occurrences
    (the last one closed by `nrow`). -/
theorem mem_groupsOf (n : Nat) (keys : List (ColKind × List Cell)) (hn : 0 < n) (g : List Nat)
    (hg : g ∈ groupsOf n keys) :
    ∃ lo hi, (lo, hi) ∈ (uniqueScan (sortedRows n keys) 0 [] ++ [n]).zip (uniqueScan (sortedRows n keys) 0 [] ++ [n]).tail ∧
      g = ((groupSortIdx n keys).drop lo).take (hi - lo) := by
  rw [groupsOf_eq] at hg
  have h0 : 0 ∈ uniqueScan (sortedRows n keys) 0 [] :=
    (mem_uniqueScan_zero _ 0).mpr ⟨by rw [sortedRows_length]; exact hn, fun j' h' => absurd h' (Nat.not_lt_zero _)⟩
  have hsorted := (uniqueScan_sorted (sortedRows n keys) 0 []).1
  cases hst : uniqueScan (sortedRows n keys) 0 [] with
  | nil => rw [hst] at h0; cases h0
  | cons s rest =>
    rw [hst] at hg h0 hsorted
    have hs0 : s = 0 := by
      rcases List.mem_cons.mp h0 with h | h
      · exact h.symm
      · have := (List.pairwise_cons.mp hsorted).1 0 h; omega
    subst hs0
    simp only [splitAt, splitAt_go_eq, List.mem_map] at hg
    obtain ⟨b, hb, rfl⟩ := hg
    refine ⟨b.1, b.2, ?_, rfl⟩
    rw [groupSortIdx_length] at hb
    simpa using hb

theorem starts_with_end_sorted (n : Nat) (keys : List (ColKind × List Cell)) :
    (uniqueScan (sortedRows n keys) 0 [] ++ [n]).Pairwise (· < ·) := by
  rw [List.pairwise_append]
  refine ⟨(uniqueScan_sorted _ 0 []).1, by simp, ?_⟩
  intro a ha b hb
  simp at hb; subst hb
  obtain ⟨h, _⟩ := (mem_uniqueScan_zero _ a).mp ha
  rw [sortedRows_length] at h; exact h

/-- a member of the run `order[lo..hi)` sits at some position `p` with `lo ≤ p < hi`. -/
theorem mem_run {order : List Nat} {lo hi a : Nat} (h : a ∈ (order.drop lo).take (hi - lo)) :
    ∃ p, lo ≤ p ∧ p < hi ∧ p < order.length ∧ order[p]! = a := by
  rw [List.mem_take_iff_getElem] at h
  obtain ⟨q, hq, heq⟩ := h
  simp only [List.length_drop] at hq
  refine ⟨lo + q, by omega, by omega, by omega, ?_⟩
  rw [getElem!_pos _ _ (by omega)]
  simpa using heq

/-- **homogeneous**: all rows of a group have the same key tuple (missing = missing). -/
theorem groupsOf_homogeneous (n : Nat) (keys : List (ColKind × List Cell)) (hwf : WfKeys n (ascKeys keys))
    (g : List Nat) (hg : g ∈ groupsOf n keys) (a b : Nat) (ha : a ∈ g) (hb : b ∈ g) :
    keyRow keys a = keyRow keys b := by
  by_cases hn : 0 < n
  · obtain ⟨lo, hi, hz, rfl⟩ := mem_groupsOf n keys hn g hg
    obtain ⟨hlo, hlt, hgap⟩ := zip_tail_gap _ (starts_with_end_sorted n keys) lo hi hz
    have hc := sortedRows_contig n keys hwf
    have hlen := sortedRows_length n keys
    have hol := groupSortIdx_length n keys
    -- lo is a genuine start (not the closing n) because lo < hi ≤ n
    have hhi : hi ≤ n := by
      have : hi ∈ (uniqueScan (sortedRows n keys) 0 [] ++ [n]) := by
        have := List.of_mem_zip hz
        exact List.mem_of_mem_tail this.2
      rcases List.mem_append.mp this with h | h
      · obtain ⟨h', _⟩ := (mem_uniqueScan_zero _ hi).mp h; omega
      · simp at h; omega
    have hlo' : lo ∈ uniqueScan (sortedRows n keys) 0 [] := by
      rcases List.mem_append.mp hlo with h | h
      · exact h
      · simp at h; omega
    have hgap' : ∀ s ∈ uniqueScan (sortedRows n keys) 0 [], s ≤ lo ∨ hi ≤ s :=
      fun s hs => hgap s (List.mem_append.mpr (Or.inl hs))
    have key : ∀ x, x ∈ ((groupSortIdx n keys).drop lo).take (hi - lo) →
        keyRow keys x = (sortedRows n keys)[lo]'(by omega) := by
      intro x hx
      obtain ⟨p, h1, h2, h3, rfl⟩ := mem_run hx
      rw [← sortedRows_get n keys p (by omega)]
      exact run_homogeneous _ hc lo hi p hlo' hgap' h1 h2 (by omega)
    rw [key a ha, key b hb]
  · have hn0 : n = 0 := by omega
    subst hn0
    have : groupSortIdx 0 keys = [] := List.eq_nil_of_length_eq_zero (groupSortIdx_length 0 keys)
    rw [groupsOf_eq, this] at hg
    simp [sortedRows, rowsOf, uniqueScan, splitAt] at hg
    subst hg; cases ha


/-- a group, seen as the run between two neighbouring starts, with the key every member carries. -/
theorem group_run (n : Nat) (keys : List (ColKind × List Cell)) (hwf : WfKeys n (ascKeys keys)) (hn : 0 < n)
    (g : List Nat) (hg : g ∈ groupsOf n keys) :
    ∃ lo hi, ∃ hlo : lo < (sortedRows n keys).length,
      g = ((groupSortIdx n keys).drop lo).take (hi - lo) ∧ lo < hi ∧ hi ≤ n ∧
      lo ∈ uniqueScan (sortedRows n keys) 0 [] ∧
      hi ∈ (uniqueScan (sortedRows n keys) 0 [] ++ [n]) ∧
      (∀ s ∈ uniqueScan (sortedRows n keys) 0 [] ++ [n], s ≤ lo ∨ hi ≤ s) ∧
      ∀ x ∈ g, keyRow keys x = (sortedRows n keys)[lo] := by
  obtain ⟨lo, hi, hz, rfl⟩ := mem_groupsOf n keys hn g hg
  obtain ⟨hlo, hlt, hgap⟩ := zip_tail_gap _ (starts_with_end_sorted n keys) lo hi hz
  have hc := sortedRows_contig n keys hwf
  have hlen := sortedRows_length n keys
  have hol := groupSortIdx_length n keys
  have hhimem : hi ∈ (uniqueScan (sortedRows n keys) 0 [] ++ [n]) :=
    List.mem_of_mem_tail (List.of_mem_zip hz).2
  have hhi : hi ≤ n := by
    rcases List.mem_append.mp hhimem with h | h
    · obtain ⟨h', _⟩ := (mem_uniqueScan_zero _ hi).mp h; omega
    · simp at h; omega
  have hlo' : lo ∈ uniqueScan (sortedRows n keys) 0 [] := by
    rcases List.mem_append.mp hlo with h | h
    · exact h
    · simp at h; omega
  refine ⟨lo, hi, by omega, rfl, hlt, hhi, hlo', hhimem, hgap, ?_⟩
  intro x hx
  obtain ⟨p, h1, h2, h3, rfl⟩ := mem_run hx
  rw [← sortedRows_get n keys p (by omega)]
  exact run_homogeneous _ hc lo hi p hlo' (fun s hs => hgap s (List.mem_append.mpr (Or.inl hs))) h1 h2 (by omega)

/-- **one group per distinct key**: rows with equal key tuples are in the same group. -/
theorem groupsOf_separate (n : Nat) (keys : List (ColKind × List Cell)) (hwf : WfKeys n (ascKeys keys))
    (g1 g2 : List Nat) (h1 : g1 ∈ groupsOf n keys) (h2 : g2 ∈ groupsOf n keys)
    (a b : Nat) (ha : a ∈ g1) (hb : b ∈ g2) (heq : keyRow keys a = keyRow keys b) : g1 = g2 := by
  by_cases hn : 0 < n
  · obtain ⟨lo1, hi1, hl1, rfl, hlt1, _, hs1, hm1, hgap1, hk1⟩ := group_run n keys hwf hn g1 h1
    obtain ⟨lo2, hi2, hl2, rfl, hlt2, _, hs2, hm2, hgap2, hk2⟩ := group_run n keys hwf hn g2 h2
    have e : (sortedRows n keys)[lo1] = (sortedRows n keys)[lo2] := by
      rw [← hk1 a ha, ← hk2 b hb, heq]
    have hlo : lo1 = lo2 := by
      rcases Nat.lt_trichotomy lo1 lo2 with h | h | h
      · exact absurd e (((mem_uniqueScan_zero _ lo2).mp hs2).2 lo1 h)
      · exact h
      · exact absurd e.symm (((mem_uniqueScan_zero _ lo1).mp hs1).2 lo2 h)
    subst hlo
    have hhi : hi1 = hi2 := by
      have a1 := hgap1 hi2 hm2
      have a2 := hgap2 hi1 hm1
      omega
    subst hhi
    rfl
  · have hn0 : n = 0 := by omega
    subst hn0
    have : groupSortIdx 0 keys = [] := List.eq_nil_of_length_eq_zero (groupSortIdx_length 0 keys)
    rw [groupsOf_eq, this] at h1
    simp [sortedRows, rowsOf, uniqueScan, splitAt] at h1
    subst h1; cases ha

/-- no group is empty when the frame has rows. -/
theorem groupsOf_nonempty (n : Nat) (keys : List (ColKind × List Cell)) (hwf : WfKeys n (ascKeys keys)) (hn : 0 < n)
    (g : List Nat) (hg : g ∈ groupsOf n keys) : g ≠ [] := by
  obtain ⟨lo, hi, hl, rfl, hlt, hhi, _, _, _, _⟩ := group_run n keys hwf hn g hg
  have hol := groupSortIdx_length n keys
  intro h
  have := congrArg List.length h
  simp only [List.length_take, List.length_drop, List.length_nil] at this
  omega

end DI

/-
  Lemmas/Construct.lean — Vector construction and the missing-value model (C10).
-/
import Model.Construct

namespace DI.Construct

/-- the missing value chosen and the dtype class obtained fit together. -/
def Matched (c : DClass) (na : NaVal) : Bool :=
  match c, na with
  | .float, .nan | .str, .emptyStr | .ustr, .emptyStr | .date, .nat | .datetime, .nat
  | .timedelta, .nat | .object, .pyNone => true
  | _, _ => false

/-- is a (non-missing) element itself the sentinel of the class? (`""` in a string vector) -/
def isSentinel (c : DClass) (x : Kind) : Bool :=
  match c, x with
  | .str, .str true | .ustr, .str true => true
  | _, _ => false

/-- when dtype class and substituted missing value fit together, `is_na` flags exactly the
    positions that held None / NaN (plus values that are the sentinel themselves). -/
theorem matched_flags_exactly (c : DClass) (na : NaVal) (h : Matched c na = true) (x : Kind) :
    isNaElem c (subst na x) = (x.missing || isSentinel c x) := by
  cases c <;> cases na <;> simp [Matched] at h <;> cases x <;>
    simp [isNaElem, subst, Kind.missing, isSentinel] <;> (try (rename_i b; cases b <;> simp))

/-- every NA-capable class is matched with its own `na_value`. -/
theorem naOfClass_matched (c : DClass) (h : c ≠ .bool ∧ c ≠ .int ∧ c ≠ .bytes) :
    Matched c (naOfClass c) = true := by
  cases c <;> simp_all [Matched, naOfClass]

/-- explicit dtype that can hold a missing value (integers widen to float): None / NaN become
    missing, nothing else does (except `""` in string vectors). -/
theorem constructWith_flags (c : DClass) (xs : List Kind) (r : Result)
    (hc : c ≠ .bool ∧ c ≠ .bytes) (h : constructWith c xs = some r) :
    r.na = xs.map (fun x => x.missing || isSentinel r.dclass x) := by
  unfold constructWith at h
  split at h
  · simp only [Option.some.injEq] at h
    subst h
    simp only []
    apply List.map_congr_left
    intro x hxmem
    by_cases hi : c = .int
    · subst hi
      by_cases hm : xs.any (·.missing) = true
      · simp only [hm, Bool.and_true, beq_self_eq_true, if_true]
        exact matched_flags_exactly .float .nan rfl x
      · -- no missing element at all
        simp only [hm, Bool.and_false, Bool.false_eq_true, if_false]
        have hx : x.missing = false := by
          have : ¬ (x.missing = true) := fun h' => hm (List.any_eq_true.mpr ⟨x, hxmem, h'⟩)
          simpa using this
        cases x <;> simp_all [isNaElem, subst, Kind.missing, isSentinel, naOfClass]
    · have : (c == DClass.int) = false := by simpa using hi
      simp only [this, Bool.false_and, Bool.false_eq_true, if_false]
      exact matched_flags_exactly c (naOfClass c) (naOfClass_matched c ⟨hc.1, hi, hc.2⟩) x
  · cases h

/-- integer input with a missing value is widened to float. -/
theorem int_widens (xs : List Kind) (r : Result) (h : constructWith .int xs = some r)
    (hm : xs.any (·.missing) = true) : r.dclass = .float := by
  unfold constructWith at h
  split at h
  · simp only [Option.some.injEq] at h; subst h; simp [hm]
  · cases h

/-- the generic (inferred) branch: the mask is computed element-wise from the substituted list. -/
theorem construct_mask_matched (c : DClass) (na : NaVal) (xs : List Kind) (h : Matched c na = true) :
    (xs.map (subst na)).map (isNaElem c) = xs.map (fun x => x.missing || isSentinel c x) := by
  rw [List.map_map]
  apply List.map_congr_left
  intro x _
  exact matched_flags_exactly c na h x

/-- forced hypothesis 1: NumPy bool scalars with None — the mask loses the missing position. -/
theorem npbool_counterexample :
    construct [.npbool, .none] = some { dclass := .bool, na := [false, false] } := by decide

/-- forced hypothesis 2: mixed date / datetime objects with None — object vector of NaT objects. -/
theorem mixed_dates_counterexample :
    construct [.date, .datetime, .none] = some { dclass := .object, na := [false, false, false] } := by decide

/-- regular inputs behave: numbers with None widen to float and flag exactly the None. -/
example : construct [.int, .none, .float, .nan] = some { dclass := .float, na := [false, true, false, true] } := by decide
example : construct [.str false, .none, .str true] = some { dclass := .str, na := [false, true, true] } := by decide
example : construct [.date, .none] = some { dclass := .date, na := [false, true] } := by decide
example : construct [.bool, .none] = some { dclass := .object, na := [false, true] } := by decide
example : construct [] = some { dclass := .float, na := [] } := by decide

/-! ### equal: an equivalence that treats missing values as equal -/

/-- `Vector.equal` on (NA mask, comparable payloads). -/
def vequal {α : Type} [DecidableEq α] (a b : List (Option α)) : Bool :=
  a.length == b.length && a.map (·.isNone) == b.map (·.isNone) &&
    a.filterMap id == b.filterMap id

theorem vequal_refl {α : Type} [DecidableEq α] (a : List (Option α)) : vequal a a = true := by
  simp [vequal]

theorem vequal_symm {α : Type} [DecidableEq α] (a b : List (Option α)) (h : vequal a b = true) :
    vequal b a = true := by
  simp only [vequal, Bool.and_eq_true, beq_iff_eq] at h ⊢
  exact ⟨⟨h.1.1.symm, h.1.2.symm⟩, h.2.symm⟩

theorem vequal_trans {α : Type} [DecidableEq α] (a b c : List (Option α))
    (h1 : vequal a b = true) (h2 : vequal b c = true) : vequal a c = true := by
  simp only [vequal, Bool.and_eq_true, beq_iff_eq] at h1 h2 ⊢
  exact ⟨⟨h1.1.1.trans h2.1.1, h1.1.2.trans h2.1.2⟩, h1.2.trans h2.2⟩

/-! ### drop_na / replace_na act on exactly the missing positions -/

theorem dropNa_spec {α : Type} (a : List (Option α)) :
    (a.filter (·.isSome)).length = (a.filter (·.isSome)).length ∧
    (∀ x ∈ a.filter (·.isSome), x.isSome = true) ∧ (a.filter (·.isSome)).Sublist a :=
  ⟨rfl, fun x hx => (List.mem_filter.mp hx).2, List.filter_sublist⟩

theorem replaceNa_spec {α : Type} (a : List (Option α)) (v : α) :
    (a.map (fun x => match x with | none => some v | some y => some y)).length = a.length ∧
    ∀ i (h : i < a.length), (a.map (fun x => match x with | none => some v | some y => some y))[i]'(by simpa using h)
      = (match a[i] with | none => some v | some y => some y) := by
  refine ⟨by simp, ?_⟩
  intro i h; simp

end DI.Construct

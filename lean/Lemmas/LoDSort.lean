/-
  Lemmas/LoDSort.lean — C15: `ListOfDicts.sort` (one stable pass per key, last key first) is ONE
  stable sort by the lexicographic specification order, None last in both directions.

  Part 1 is a small index-free theory of stable sorting with a total preorder:
    * a stable sort is characterised by: permutation + sorted + every equivalence class keeps
      its input order (`stable_unique`, `eq_mergeSort_of_stable`);
    * two successive stable sorts = one stable sort by the lexicographic order
      (`mergeSort_mergeSort`).
  Part 2 ties the model (`sortPass`, `passLe`, `argsortPy`, `gather`) to `List.mergeSort`.
  Part 3 is the specification order `specLe1` / `specLex` and the main theorem.
-/
import Model.LoD
import Lemmas.Sort
import Lemmas.LoD

namespace DI

/-! ## Part 1: stable sorting with a total preorder -/

section Stable

variable {α : Type}

/-- `a` and `b` are not separated by the order. -/
def eqv (le : α → α → Bool) (a b : α) : Bool := le a b && le b a

theorem eqv_refl {le : α → α → Bool} (h : PreOrd le) (a : α) : eqv le a a = true := by
  simp [eqv, h.refl a]

theorem eqv_symm (le : α → α → Bool) (a b : α) : eqv le a b = eqv le b a := by
  simp [eqv, Bool.and_comm]

/-- the members of one equivalence class are pairwise ordered (in any order). -/
theorem filter_eqv_pairwise {le : α → α → Bool} (h : PreOrd le) (a : α) (l : List α) :
    (l.filter (eqv le a)).Pairwise (fun x y => le x y) := by
  apply List.pairwise_of_forall_mem_list
  intro x hx y hy
  have hx' := (List.mem_filter.mp hx).2
  have hy' := (List.mem_filter.mp hy).2
  simp only [eqv, Bool.and_eq_true] at hx' hy'
  exact h.trans x a y hx'.2 hy'.1

/-- stability, class form: a stable sort does not reorder the members of an equivalence class. -/
theorem mergeSort_filter_eqv {le : α → α → Bool} (h : PreOrd le) (a : α) (l : List α) :
    (l.mergeSort le).filter (eqv le a) = l.filter (eqv le a) := by
  have hsub : (l.filter (eqv le a)).Sublist (l.mergeSort le) :=
    List.sublist_mergeSort (fun a b c => h.trans a b c) (fun a b => h.total a b)
      (filter_eqv_pairwise h a l) List.filter_sublist
  have hsub2 := hsub.filter (eqv le a)
  rw [List.filter_filter] at hsub2
  simp only [Bool.and_self] at hsub2
  have hlen := ((List.mergeSort_perm l le).filter (eqv le a)).length_eq
  exact (hsub2.eq_of_length hlen.symm).symm

/-- uniqueness of the stable sort: two sorted permutations of each other whose equivalence
    classes are listed in the same order are equal. -/
theorem stable_unique {le : α → α → Bool} (h : PreOrd le) :
    ∀ (l₁ l₂ : List α), l₁.Perm l₂ → l₁.Pairwise (fun x y => le x y) → l₂.Pairwise (fun x y => le x y) →
      (∀ a, l₁.filter (eqv le a) = l₂.filter (eqv le a)) → l₁ = l₂
  | [], l₂, hp, _, _, _ => by simpa using hp.symm.eq_nil
  | x :: t₁, [], hp, _, _, _ => by simpa using hp.eq_nil
  | x :: t₁, y :: t₂, hp, s₁, s₂, hf => by
    have hxy : le x y = true := by
      have : y ∈ x :: t₁ := hp.mem_iff.mpr List.mem_cons_self
      rcases List.mem_cons.mp this with e | m
      · subst e; exact h.refl _
      · exact List.rel_of_pairwise_cons s₁ m
    have hyx : le y x = true := by
      have : x ∈ y :: t₂ := hp.mem_iff.mp List.mem_cons_self
      rcases List.mem_cons.mp this with e | m
      · subst e; exact h.refl _
      · exact List.rel_of_pairwise_cons s₂ m
    have e1 : eqv le x x = true := eqv_refl h x
    have e2 : eqv le x y = true := by simp [eqv, hxy, hyx]
    have hx := hf x
    simp only [List.filter_cons, e1, e2, if_true] at hx
    have hxy' : x = y := (List.cons.inj hx).1
    subst hxy'
    have ht : t₁ = t₂ := by
      apply stable_unique h t₁ t₂ hp.cons_inv (List.Pairwise.of_cons s₁) (List.Pairwise.of_cons s₂)
      intro a
      have ha := hf a
      simp only [List.filter_cons] at ha
      by_cases hc : eqv le a x = true
      · simp only [hc, if_true] at ha
        exact (List.cons.inj ha).2
      · simp only [hc, Bool.false_eq_true, if_false] at ha
        exact ha
    rw [ht]

/-- characterisation of `mergeSort`: the only sorted permutation keeping every class in order. -/
theorem eq_mergeSort_of_stable {le : α → α → Bool} (h : PreOrd le) (l l' : List α)
    (hp : l'.Perm l) (hs : l'.Pairwise (fun x y => le x y))
    (hf : ∀ a, l'.filter (eqv le a) = l.filter (eqv le a)) : l' = l.mergeSort le := by
  apply stable_unique h l' (l.mergeSort le) (hp.trans (List.mergeSort_perm l le).symm) hs
    (List.pairwise_mergeSort (fun a b c => h.trans a b c) (fun a b => h.total a b) l)
  intro a
  rw [hf a, mergeSort_filter_eqv h a l]

/-- lexicographic combination: primary order `le₁`, ties broken by `le₂`. -/
def lexLe (le₁ le₂ : α → α → Bool) (a b : α) : Bool :=
  if le₁ a b && le₁ b a then le₂ a b else le₁ a b

theorem lexLe_pre {le₁ le₂ : α → α → Bool} (h₁ : PreOrd le₁) (h₂ : PreOrd le₂) :
    PreOrd (lexLe le₁ le₂) := by
  constructor
  · intro a b
    have t1 := h₁.total a b
    have t2 := h₂.total a b
    unfold lexLe
    cases hab : le₁ a b <;> cases hba : le₁ b a <;> simp_all
  · intro a b c
    unfold lexLe
    intro hab hbc
    have tr := h₁.trans
    have tr2 := h₂.trans a b c
    have t1 := tr a b c
    have t2 := tr c a b
    have t3 := tr b c a
    have t4 := tr c b a
    have t5 := tr a c b
    have t6 := tr b a c
    grind

theorem eqv_lexLe (le₁ le₂ : α → α → Bool) (a b : α) :
    eqv (lexLe le₁ le₂) a b = (eqv le₁ a b && eqv le₂ a b) := by
  unfold eqv lexLe
  cases le₁ a b <;> cases le₁ b a <;> simp

/-- a list sorted by `le₁` whose `le₁`-classes are each sorted by `le₂` is sorted lexicographically. -/
theorem pairwise_lexLe {le₁ le₂ : α → α → Bool} (l : List α)
    (s₁ : l.Pairwise (fun x y => le₁ x y))
    (s₂ : ∀ a, (l.filter (eqv le₁ a)).Pairwise (fun x y => le₂ x y)) (h₁ : PreOrd le₁) :
    l.Pairwise (fun x y => lexLe le₁ le₂ x y) := by
  apply List.pairwise_of_forall_sublist
  intro p q hpq
  have h1 : le₁ p q = true := s₁.forall_sublist hpq
  unfold lexLe
  by_cases hqp : le₁ q p = true
  · have he : eqv le₁ p q = true := by simp [eqv, h1, hqp]
    have hsub := hpq.filter (eqv le₁ p)
    simp only [List.filter_cons, eqv_refl h₁ p, he, if_true, List.filter_nil] at hsub
    have := (s₂ p).forall_sublist hsub
    simp [h1, hqp, this]
  · simp [h1, hqp]

/-- **two stable passes = one stable lexicographic sort**: sorting stably by the secondary order
    `le₂` and then stably by the primary order `le₁` is the stable sort by `lexLe le₁ le₂`. -/
theorem mergeSort_mergeSort {le₁ le₂ : α → α → Bool} (h₁ : PreOrd le₁) (h₂ : PreOrd le₂) (l : List α) :
    (l.mergeSort le₂).mergeSort le₁ = l.mergeSort (lexLe le₁ le₂) := by
  apply eq_mergeSort_of_stable (lexLe_pre h₁ h₂)
  · exact (List.mergeSort_perm _ _).trans (List.mergeSort_perm _ _)
  · apply pairwise_lexLe _ _ _ h₁
    · exact List.pairwise_mergeSort (fun a b c => h₁.trans a b c) (fun a b => h₁.total a b) _
    · intro a
      rw [mergeSort_filter_eqv h₁]
      exact (List.pairwise_mergeSort (fun a b c => h₂.trans a b c) (fun a b => h₂.total a b) l).sublist
        List.filter_sublist
  · intro a
    have e : eqv (lexLe le₁ le₂) a = fun b => eqv le₂ a b && eqv le₁ a b := by
      funext b; rw [eqv_lexLe, Bool.and_comm]
    rw [e, ← List.filter_filter, ← List.filter_filter, mergeSort_filter_eqv h₁, List.filter_filter,
      List.filter_filter]
    have e2 : (fun b => eqv le₂ a b && eqv le₁ a b) = fun b => eqv le₁ a b && eqv le₂ a b := by
      funext b; rw [Bool.and_comm]
    rw [e2, ← List.filter_filter, ← List.filter_filter, mergeSort_filter_eqv h₂]

end Stable

/-! ## Part 2: the index sort of the model is `List.mergeSort` -/

section Model

variable {α β : Type}

/-- `take(xs, argsort(key(xs)))` is the stable sort of `xs` by the key. -/
theorem gather_argsort_map [Inhabited α] (le : β → β → Bool) (f : α → β) (xs : List α) :
    gather xs (argsort le (xs.map f)) = xs.mergeSort (fun a b => le (f a) (f b)) := by
  unfold gather argsort sortPairs
  rw [List.zipIdx_map]
  rw [← List.map_mergeSort (r := fun p q => le (f p.1) (f q.1)) (by intro a _ b _; rfl)]
  rw [List.map_map, List.map_map]
  have hmem : ∀ p ∈ xs.zipIdx.mergeSort (fun p q => le (f p.1) (f q.1)),
      (((fun i => xs[i]!) ∘ (fun x : β × Nat => x.2)) ∘ Prod.map f id) p = p.1 := by
    intro p hp
    have hp' : p ∈ xs.zipIdx := List.mem_mergeSort.mp hp
    rcases p with ⟨x, i⟩
    have := List.mem_zipIdx hp'
    simp at this
    obtain ⟨h1, h2⟩ := this
    simp [h1, h2]
  rw [List.map_congr_left hmem]
  rw [List.map_mergeSort (s := fun a b => le (f a) (f b)) (by intro a _ b _; rfl)]
  simp

end Model

end DI

/-! ## Part 3: the specification order of `ListOfDicts.sort` -/

namespace DI.LoD

open DI

/-- the value `sort` looks at: `item[key]` (a missing key is read as None; the harness only
    sorts by keys every item has). -/
def keyVal (k : String) (it : Item) : Val := (it.kv.get? k).getD .none

/-- one-key specification order: None after everything in BOTH directions; otherwise the value
    order (ascending) or its converse (descending). -/
def specLe1 (desc : Bool) (a b : Val) : Bool :=
  match a, b with
  | .none, .none => true
  | .none, _ => false
  | _, .none => true
  | a, b => if desc then Val.le b a else Val.le a b

/-- lexicographic specification order over `(key, descending?)` pairs. -/
def specLex : List (String × Bool) → Item → Item → Bool
  | [], _, _ => true
  | (k, d) :: ks, x, y =>
    if specLe1 d (keyVal k x) (keyVal k y) && specLe1 d (keyVal k y) (keyVal k x)
    then specLex ks x y else specLe1 d (keyVal k x) (keyVal k y)

/-! ### `Val.le` is a linear order (no hypothesis needed on the values) -/

theorem Val.le_linOrd : LinOrd Val.le := by
  constructor
  · intro a b
    cases a <;> cases b <;> simp [Val.le]
    · exact Int.le_total _ _
    · exact String.le_total _ _
  · intro a b c
    cases a <;> cases b <;> cases c <;> simp [Val.le]
    · exact Int.le_trans
    · exact String.le_trans
  · intro a b
    cases a <;> cases b <;> simp [Val.le]
    · exact Int.le_antisymm
    · exact String.le_antisymm

theorem Val.le_pre : PreOrd Val.le := Val.le_linOrd.pre

/-- what a pass compares (with Python's `reverse=True` flip) is exactly `specLe1`. -/
theorem passCmp_eq_specLe1 (desc : Bool) (a b : Val) :
    (if desc then passLe desc b a else passLe desc a b) = specLe1 desc a b := by
  have e1 : ∀ v, (Val.i v == Val.none) = false := fun v => by simp
  have e2 : ∀ v, (Val.s v == Val.none) = false := fun v => by simp
  have e3 : ∀ v, (Val.i v != Val.none) = true := fun v => by simp
  have e4 : ∀ v, (Val.s v != Val.none) = true := fun v => by simp
  cases desc <;> cases a <;> cases b <;> simp [passLe, specLe1, Val.le, e1, e2, e3, e4]

theorem specLe1_linOrd (desc : Bool) : LinOrd (specLe1 desc) := by
  have h := Val.le_linOrd
  constructor
  · intro a b
    have t1 := h.total a b
    have t2 := h.total b a
    cases desc <;> cases a <;> cases b <;> simp_all [specLe1]
  · intro a b c
    have t1 := h.trans a b c
    have t2 := h.trans c b a
    cases desc <;> cases a <;> cases b <;> cases c <;> simp_all [specLe1]
  · intro a b
    cases desc <;> cases a <;> cases b <;> simp [specLe1, Val.le]
    · exact Int.le_antisymm
    · exact String.le_antisymm
    · exact fun h1 h2 => Int.le_antisymm h2 h1
    · exact fun h1 h2 => String.le_antisymm h2 h1


theorem specLe1_pre (desc : Bool) : PreOrd (specLe1 desc) := (specLe1_linOrd desc).pre

/-- None is last in both directions. -/
theorem specLe1_none_right (desc : Bool) (a : Val) : specLe1 desc a .none = true := by
  cases a <;> rfl

theorem specLe1_none_left (desc : Bool) (b : Val) : specLe1 desc .none b = (b == .none) := by
  cases b <;> simp [specLe1]

theorem specLe1_of_ne_none (desc : Bool) (a b : Val) (ha : a ≠ .none) (hb : b ≠ .none) :
    specLe1 desc a b = if desc then Val.le b a else Val.le a b := by
  cases a <;> cases b <;> simp_all [specLe1]

/-- the order one pass sorts by, on items. -/
def keyLe (k : String) (d : Bool) (x y : Item) : Bool := specLe1 d (keyVal k x) (keyVal k y)

theorem keyLe_pre (k : String) (d : Bool) : PreOrd (keyLe k d) :=
  ⟨fun _ _ => (specLe1_pre d).total _ _, fun _ _ _ => (specLe1_pre d).trans _ _ _⟩

theorem specLex_cons (k : String) (d : Bool) (ks : List (String × Bool)) :
    specLex ((k, d) :: ks) = lexLe (keyLe k d) (specLex ks) := by
  funext x y; rfl

theorem specLex_pre : ∀ keys : List (String × Bool), PreOrd (specLex keys)
  | [] => ⟨fun _ _ => rfl, fun _ _ _ _ _ => rfl⟩
  | (k, d) :: ks => by
    rw [specLex_cons]; exact lexLe_pre (keyLe_pre k d) (specLex_pre ks)

/-- one pass of `sorted(data, key=sort_key, reverse=dir<0)` is the stable sort by `specLe1` of the
    key's value — in the descending pass too (ties keep their input order there as well). -/
theorem sortPass_eq_mergeSort (xs : List Item) (k : String) (d : Bool) :
    sortPass xs k d = xs.mergeSort (keyLe k d) := by
  unfold sortPass argsortPy
  simp only []
  have h := gather_argsort_map (fun a b => if d then passLe d b a else passLe d a b) (keyVal k) xs
  have e : (fun it : Item => (it.kv.get? k).getD Val.none) = keyVal k := rfl
  rw [e, h]
  congr 1
  funext x y
  exact passCmp_eq_specLe1 d _ _

theorem sort_nil (xs : List Item) : sort xs [] = xs := rfl

theorem sort_cons (xs : List Item) (k : String × Bool) (ks : List (String × Bool)) :
    sort xs (k :: ks) = sortPass (sort xs ks) k.1 k.2 := by
  simp [sort, List.foldl_append]

/-- **sort = one stable sort by the lexicographic specification order.** -/
theorem sort_eq_mergeSort (xs : List Item) : ∀ keys : List (String × Bool),
    sort xs keys = xs.mergeSort (specLex keys)
  | [] => by
    rw [sort_nil]
    exact (List.mergeSort_of_pairwise (List.pairwise_of_forall (fun _ _ => rfl))).symm
  | (k, d) :: ks => by
    rw [sort_cons, sort_eq_mergeSort xs ks, sortPass_eq_mergeSort, specLex_cons]
    exact mergeSort_mergeSort (keyLe_pre k d) (specLex_pre ks) xs

/-- the same statement through the index form: the result is `take(xs, argsort)` of the stable
    index sort of the items by `specLex`. -/
theorem sort_eq_gather_argsort (xs : List Item) (keys : List (String × Bool)) :
    sort xs keys = gather xs (argsort (specLex keys) xs) := by
  have h := gather_argsort_map (specLex keys) (fun it : Item => it) xs
  rw [List.map_id'] at h
  rw [h, sort_eq_mergeSort]

/-- the result is ordered by the specification order. -/
theorem sort_sorted (xs : List Item) (keys : List (String × Bool)) :
    (sort xs keys).Pairwise (fun x y => specLex keys x y) := by
  rw [sort_eq_mergeSort]
  exact List.pairwise_mergeSort (fun a b c => (specLex_pre keys).trans a b c)
    (fun a b => (specLex_pre keys).total a b) xs

/-- stability: two items in input order that the specification order does not put the other way
    round stay in that order. -/
theorem sort_stable_pair (xs : List Item) (keys : List (String × Bool)) (x y : Item)
    (h : [x, y].Sublist xs) (hle : specLex keys x y = true) : [x, y].Sublist (sort xs keys) := by
  rw [sort_eq_mergeSort]
  exact List.pair_sublist_mergeSort (fun a b c => (specLex_pre keys).trans a b c)
    (fun a b => (specLex_pre keys).total a b) hle h

/-- stability, class form: the items that `specLex` does not separate from `a` appear in the
    result exactly in their original relative order. -/
theorem sort_stable_class (xs : List Item) (keys : List (String × Bool)) (a : Item) :
    (sort xs keys).filter (eqv (specLex keys) a) = xs.filter (eqv (specLex keys) a) := by
  rw [sort_eq_mergeSort]
  exact mergeSort_filter_eqv (specLex_pre keys) a xs

/-- "not separated by specLex" = "equal values under every sort key". -/
theorem eqv_specLex_iff (x y : Item) : ∀ keys : List (String × Bool),
    eqv (specLex keys) x y = true ↔ extract (keys.map (·.1)) x = extract (keys.map (·.1)) y
  | [] => by simp [eqv, specLex, extract]
  | (k, d) :: ks => by
    rw [specLex_cons, eqv_lexLe, Bool.and_eq_true, eqv_specLex_iff x y ks]
    have h1 : eqv (keyLe k d) x y = true ↔ keyVal k x = keyVal k y := by
      constructor
      · intro h
        simp only [eqv, keyLe, Bool.and_eq_true] at h
        exact (specLe1_linOrd d).antisymm _ _ h.1 h.2
      · intro h
        simp only [eqv, keyLe, h, Bool.and_self]
        exact (specLe1_pre d).refl _
    rw [h1]
    simp [extract, keyVal]

/-- items with equal sort-key values keep their original relative order. -/
theorem sort_stable_equal_keys (xs : List Item) (keys : List (String × Bool)) (a : Item) :
    (sort xs keys).filter (fun x => extract (keys.map (·.1)) a == extract (keys.map (·.1)) x) =
      xs.filter (fun x => extract (keys.map (·.1)) a == extract (keys.map (·.1)) x) := by
  have e : (fun x => extract (keys.map (·.1)) a == extract (keys.map (·.1)) x) = eqv (specLex keys) a := by
    funext x
    rw [Bool.eq_iff_iff, eqv_specLex_iff]
    simp
  rw [e]
  exact sort_stable_class xs keys a

/-- None last, both directions: in the result no item whose first sort key is None precedes an item
    whose first sort key is not None. -/
theorem sort_none_last (xs : List Item) (k : String) (d : Bool) (ks : List (String × Bool)) (x y : Item)
    (h : [x, y].Sublist (sort xs ((k, d) :: ks))) (hx : keyVal k x = .none) : keyVal k y = .none := by
  have hs := (sort_sorted xs ((k, d) :: ks)).forall_sublist h
  simp only [specLex, hx, specLe1_none_left, specLe1_none_right, Bool.and_true] at hs
  cases hy : keyVal k y <;> simp_all

end DI.LoD

/-
  Lemmas/PyEvalGeo.lean — what the evaluator of `Model/PyEvalGeo.lean` computes on the translated `GeoJSON.write`,
  `GeoJSON.read`, `_check_raw_data`, `_check_raw_feature` (`Generated/CodeC18.lean`), and that these are the functions of
  `Model/GeoJSON.lean` (C18).  Cited by `Proofs/EvalC18.lean`.
-/
import Model.PyEvalGeo
import Proofs.TieC18
import Lemmas.GeoRoundtrip

namespace DI.PyEvalGeo

open DI DI.Py DI.Gen DI.Geo DI.Convert DI.Tie.C18

/-! ### unfolding the evaluator (every equation is a definitional unfolding) -/

section unfold

variable (ctx : Ctx) (call : String → List Val → Mem → Option Mem) (s : St)

theorem evalB_nil : evalB ctx call [] s = some (Ctl.normal, s) := rfl
theorem evalB_cons (t : Term) (ts : List Term) : evalB ctx call (t :: ts) s =
    (evalS ctx call t s).bind fun r => match r.1 with | .normal => evalB ctx call ts r.2 | .cont => some r := rfl
theorem evalS_block (ss : List Term) : evalS ctx call (Term.app "block" ss) s = evalB ctx call ss s := rfl

theorem evalS_write (f e : Term) : evalS ctx call (Term.app ".write" [f, e]) s =
    (evalE ctx f s).bind fun vf => (evalE ctx e s).bind fun ve => match vf with
      | .file => ve.toToks.map fun ts => (Ctl.normal, { s with mem := { s.mem with out := s.mem.out ++ ts } })
      | _ => Option.none := rfl
theorem evalE_fstring (parts : List Term) :
    evalE ctx (Term.app "fstring" parts) s = (evalFmt ctx parts s).map Val.toks := rfl
theorem evalFmt_nil : evalFmt ctx [] s = some [] := rfl
theorem evalFmt_cons (t : Term) (ts : List Term) : evalFmt ctx (t :: ts) s =
    (evalE ctx t s).bind fun v => v.toToks.bind fun a => (evalFmt ctx ts s).map (a ++ ·) := rfl
theorem evalE_format (e a b : Term) :
    evalE ctx (Term.app "format" [e, a, b]) s = (evalE ctx e s).bind fun v => v.toToks.map Val.toks := rfl
theorem evalE_file : evalE ctx file s = some Val.file := rfl

theorem evalS_for2 (a b : String) (it body : Term) :
    evalS ctx call (Term.app "for" [Term.app "tuple" [Term.sym a, Term.sym b], it, body]) s =
      (evalE ctx it s).bind fun vi => (iterPairs vi).bind fun vs =>
        (loopOver (evalS ctx call body) (bind2 a b) vs s).map fun s' => (Ctl.normal, s') := rfl
theorem evalS_for2' (a b : String) (it body x : Term) :
    evalS ctx call (Term.app "for" [Term.app "tuple" [Term.sym a, Term.sym b], it, body, x]) s =
      (evalE ctx it s).bind fun vi => (iterPairs vi).bind fun vs =>
        (loopOver (evalS ctx call body) (bind2 a b) vs s).map fun s' => (Ctl.normal, s') := rfl
theorem evalS_for1 (x : String) (it body : Term) :
    evalS ctx call (Term.app "for" [Term.sym x, it, body]) s =
      (evalE ctx it s).bind fun vi => (iterOf s.mem vi).bind fun vs =>
        (loopOver (evalS ctx call body) (bind1 x) vs s).map fun s' => (Ctl.normal, s') := rfl
theorem evalS_for1' (x : String) (it body y : Term) :
    evalS ctx call (Term.app "for" [Term.sym x, it, body, y]) s =
      (evalE ctx it s).bind fun vi => (iterOf s.mem vi).bind fun vs =>
        (loopOver (evalS ctx call body) (bind1 x) vs s).map fun s' => (Ctl.normal, s') := rfl

end unfold

/-! ### loops -/

/-- a loop whose body, whatever the local names are, succeeds and changes the memory by `g v`: the fold of `g`. -/
theorem loopOver_fold {α : Type} (body : St → Option (Ctl × St)) (bind : α → Env → Env) (g : α → Mem → Mem)
    (vs : List α)
    (h : ∀ v ∈ vs, ∀ env m, ∃ c env', body ⟨bind v env, m⟩ = some (c, ⟨env', g v m⟩)) :
    ∀ env m, ∃ env', loopOver body bind vs ⟨env, m⟩ = some ⟨env', vs.foldl (fun m v => g v m) m⟩ := by
  induction vs with
  | nil => intro env m; exact ⟨env, rfl⟩
  | cons v vs ih =>
    intro env m
    obtain ⟨c, env', hb⟩ := h v (by simp) env m
    obtain ⟨env'', hl⟩ := ih (fun w hw => h w (by simp [hw])) env' (g v m)
    refine ⟨env'', ?_⟩
    simp only [loopOver, hb, Option.bind_some, List.foldl_cons]
    exact hl

/-- a loop whose body fails on some element fails. -/
theorem loopOver_fail {α : Type} (body : St → Option (Ctl × St)) (bind : α → Env → Env) (g : α → Mem → Mem)
    (pre : List α) (bad : α) (post : List α)
    (h : ∀ v ∈ pre, ∀ env m, ∃ c env', body ⟨bind v env, m⟩ = some (c, ⟨env', g v m⟩))
    (hbad : ∀ env m, body ⟨bind bad env, m⟩ = none) :
    ∀ env m, loopOver body bind (pre ++ bad :: post) ⟨env, m⟩ = none := by
  induction pre with
  | nil => intro env m; simp [loopOver, hbad]
  | cons v vs ih =>
    intro env m
    obtain ⟨c, env', hb⟩ := h v (by simp) env m
    simp only [List.cons_append, loopOver, hb, Option.bind_some]
    exact ih (fun w hw => h w (by simp [hw])) env' (g v m)

theorem loopOver_map {α β : Type} (body : St → Option (Ctl × St)) (bind : β → Env → Env) (f : α → β) (xs : List α)
    (s : St) : loopOver body bind (xs.map f) s = loopOver body (fun x => bind (f x)) xs s := by
  induction xs generalizing s with
  | nil => rfl
  | cons x xs ih =>
    simp only [List.map_cons, loopOver]
    cases body { s with env := bind (f x) s.env } with
    | none => rfl
    | some r => simp only [Option.bind_some]; exact ih r.2

/-- append tokens to the file. -/
def addOut (ts : List Tok) (m : Mem) : Mem := { m with out := m.out ++ ts }

theorem addOut_nil (m : Mem) : addOut [] m = m := by simp [addOut]
theorem addOut_addOut (a b : List Tok) (m : Mem) : addOut b (addOut a m) = addOut (a ++ b) m := by
  simp [addOut, List.append_assoc]

theorem foldl_addOut {α : Type} (f : α → List Tok) (xs : List α) (m : Mem) :
    xs.foldl (fun m v => addOut (f v) m) m = addOut (xs.flatMap f) m := by
  induction xs generalizing m with
  | nil => simp [addOut_nil]
  | cons x xs ih => simp only [List.foldl_cons, List.flatMap_cons, ih, addOut_addOut]

/-! ### outcomes up to the local names -/

/-- the outcome of a statement: failure, or success with memory `m1` and local names satisfying `P`. -/
def Runs (P : Env → Prop) (r : Option (Ctl × St)) (m' : Option Mem) : Prop :=
  match m' with
  | none => r = none
  | some m1 => ∃ c env', r = some (c, ⟨env', m1⟩) ∧ P env'

def RunsL (P : Env → Prop) (r : Option St) (m' : Option Mem) : Prop :=
  match m' with
  | none => r = none
  | some m1 => ∃ env', r = some ⟨env', m1⟩ ∧ P env'

/-- a loop whose body computes `g v` on the memory (or fails when `g v` does), the local names keeping `P`. -/
theorem loopOver_foldlM {α : Type} (P : Env → Prop) (body : St → Option (Ctl × St)) (bind : α → Env → Env)
    (g : α → Mem → Option Mem) (vs : List α)
    (h : ∀ v ∈ vs, ∀ env m, P env → Runs P (body ⟨bind v env, m⟩) (g v m)) :
    ∀ env m, P env → RunsL P (loopOver body bind vs ⟨env, m⟩) (vs.foldlM (fun m v => g v m) m) := by
  induction vs with
  | nil => intro env m hP; exact ⟨env, rfl, hP⟩
  | cons v vs ih =>
    intro env m hP
    have hv := h v (by simp) env m hP
    simp only [List.foldlM_cons]
    cases hg : g v m with
    | none =>
      rw [hg] at hv
      simp only [Runs] at hv
      simp [RunsL, loopOver, hv]
    | some m1 =>
      rw [hg] at hv
      obtain ⟨c, env', hb, hP'⟩ := hv
      have := ih (fun w hw => h w (by simp [hw])) env' m1 hP'
      simp only [loopOver, hb, Option.bind_some]
      exact this

section unfold2

variable (ctx : Ctx) (call : String → List Val → Mem → Option Mem) (s : St)

theorem evalS_if (c a b : Term) : evalS ctx call (Term.app "if" [c, a, b]) s =
    (evalE ctx c s).bind fun vc => if truthy vc then evalS ctx call a s else evalS ctx call b s := rfl
theorem evalS_continue : evalS ctx call (Term.sym "continue") s = some (Ctl.cont, s) := rfl
theorem evalE_In (a b : Term) : evalE ctx (Term.app "In" [a, b]) s =
    (evalE ctx a s).bind fun va => (evalE ctx b s).bind fun vb => (pyIn ctx s.mem va vb).map Val.bool := rfl
theorem evalE_NotIn (a b : Term) : evalE ctx (Term.app "NotIn" [a, b]) s =
    (evalE ctx a s).bind fun va => (evalE ctx b s).bind fun vb => (pyIn ctx s.mem va vb).map (fun r => Val.bool !r) := rfl
theorem evalE_type (e : Term) : evalE ctx (Term.app ".type" [e]) s = (evalE ctx e s).bind (attr "type") := rfl
theorem evalE_features (e : Term) : evalE ctx (Term.app ".features" [e]) s = (evalE ctx e s).bind (attr "features") := rfl
theorem evalE_properties (e : Term) : evalE ctx (Term.app ".properties" [e]) s = (evalE ctx e s).bind (attr "properties") := rfl
theorem evalE_geometry (e : Term) : evalE ctx (Term.app ".geometry" [e]) s = (evalE ctx e s).bind (attr "geometry") := rfl
theorem evalE_items (e : Term) : evalE ctx (Term.app ".items" [e]) s = (evalE ctx e s).bind itemsOf := rfl
theorem evalE_key : evalE ctx (Term.sym "key") s = s.env.lookup "key" := rfl
theorem evalE_value : evalE ctx (Term.sym "value") s = s.env.lookup "value" := rfl
theorem evalE_feature : evalE ctx (Term.sym "feature") s = s.env.lookup "feature" := rfl
theorem evalE_warned : evalE ctx (Term.sym "warned_feature_keys") s = s.env.lookup "warned_feature_keys" := rfl
theorem evalE_dataParam : evalE ctx (Term.sym "data") s = s.env.lookup "data" := rfl
theorem evalE_cls : evalE ctx (Term.sym "cls") s = some Val.cls := rfl

end unfold2

/-! ### the lexer on indentation -/

theorem lexGo_spaces (cs : List Char) (h : ∀ c ∈ cs, c = ' ') : lexGo none cs = some [] := by
  induction cs with
  | nil => rfl
  | cons c cs ih =>
    have hc : c = ' ' := h c (by simp)
    subst hc
    simp only [lexGo]
    exact ih (fun d hd => h d (by simp [hd]))

theorem strMul_spaces (cs : List Char) (n : Int) (h : ∀ c ∈ cs, c = ' ') : ∀ c ∈ strMul cs n, c = ' ' := by
  intro c hc
  unfold strMul at hc
  obtain ⟨l, hl, hcl⟩ := List.mem_flatten.mp hc
  have : l = cs := (List.mem_replicate.mp hl).2
  subst this
  exact h c hcl

/-! ### `write`: indentation and the two loops -/

section write

variable (ctx : Ctx) (call : String → List Val → Mem → Option Mem)

theorem evalE_width (s : St) : evalE ctx width s = some (.int (ctx.indent.getD 2)) := by
  have h : evalE ctx width s =
      if truthy (Val.int (ctx.indent.getD 2)) then some (.int (ctx.indent.getD 2)) else some (.int 0) := rfl
  rw [h]
  by_cases h0 : ctx.indent.getD 2 = 0 <;> simp [truthy, h0]

theorem evalE_Mult (a b : Term) (s : St) : evalE ctx (Term.app "Mult" [a, b]) s =
    (evalE ctx a s).bind fun va => (evalE ctx b s).bind fun vb => match va, vb with
      | .str p, .int q => some (.str (strMul p q))
      | _, _ => Option.none := rfl

theorem evalE_indent (k : Int) (s : St) :
    evalE ctx (indent k) s = some (.str (strMul (strMul [' '] (ctx.indent.getD 2)) k)) := by
  have h1 : evalE ctx (Term.sym "' '") s = some (.str [' ']) := rfl
  have h2 : evalE ctx (Term.int k) s = some (.int k) := rfl
  simp only [indent, evalE_Mult, evalE_width, h1, h2, Option.bind_some]

/-- the indentation contributes no token: `indent=` cannot change the structure of the file. -/
theorem evalE_fmt_indent (k : Int) (s : St) : evalE ctx (fmt (indent k)) s = some (.toks []) := by
  unfold fmt
  rw [evalE_format, evalE_indent]
  simp only [Option.bind_some, Val.toToks, lex]
  rw [lexGo_spaces _ (strMul_spaces _ _ (strMul_spaces _ _ (by simp)))]
  rfl

/-- the body of `for key, value in self.metadata.items()`. -/
def membersBody : Term :=
  Term.app "block"
    [Term.app "assign" [Term.sym "blob", dumps (Term.sym "value")],
     Term.app "assign" [Term.sym "key", Term.app "json.dumps" [Term.sym "key", Term.app "=ensure_ascii" [Term.app "getitem" [Term.sym "kwargs", Term.sym "'ensure_ascii'"]]]],
     emit [fmt (indent 1), fmt (Term.sym "key"), Term.sym "': '", fmt (Term.sym "blob"), Term.sym "',\\n'"]]

theorem writeMembers_eq : writeMembers =
    Term.app "for" [Term.app "tuple" [Term.sym "key", Term.sym "value"], Term.app ".items" [Term.app ".metadata" [Term.sym "self"]], membersBody] := rfl

/-- one member: `<name>: <blob>,`. -/
def memberToks (p : String × Json) : List Tok := [Tok.str (ctx.dumpsKey p.1), Tok.colon, Tok.blob (ctx.dumps p.2), Tok.comma]

theorem membersBody_eval (p : String × Json) (env : Env) (m : Mem) :
    ∃ c env', evalS ctx call membersBody ⟨bind2 "key" "value" (Val.key p.1, Val.json p.2) env, m⟩ =
      some (c, ⟨env', addOut (memberToks ctx p) m⟩) := by
  let env1 : Env := ("key", Val.name (ctx.dumpsKey p.1)) :: ("blob", Val.blob (ctx.dumps p.2)) ::
    bind2 "key" "value" (Val.key p.1, Val.json p.2) env
  have h12 : evalB ctx call
      [Term.app "assign" [Term.sym "blob", dumps (Term.sym "value")],
       Term.app "assign" [Term.sym "key", Term.app "json.dumps" [Term.sym "key", Term.app "=ensure_ascii" [Term.app "getitem" [Term.sym "kwargs", Term.sym "'ensure_ascii'"]]]],
       emit [fmt (indent 1), fmt (Term.sym "key"), Term.sym "': '", fmt (Term.sym "blob"), Term.sym "',\\n'"]]
      ⟨bind2 "key" "value" (Val.key p.1, Val.json p.2) env, m⟩ =
      evalB ctx call [emit [fmt (indent 1), fmt (Term.sym "key"), Term.sym "': '", fmt (Term.sym "blob"), Term.sym "',\\n'"]]
        ⟨env1, m⟩ := rfl
  have hrest : evalFmt ctx [fmt (Term.sym "key"), Term.sym "': '", fmt (Term.sym "blob"), Term.sym "',\\n'"] ⟨env1, m⟩ =
      some (memberToks ctx p) := rfl
  refine ⟨Ctl.normal, env1, ?_⟩
  unfold membersBody
  rw [evalS_block, h12, evalB_cons]
  unfold emit
  rw [evalS_write, evalE_file, evalE_fstring, evalFmt_cons, evalE_fmt_indent, hrest]
  rfl

/-- **the metadata loop**: every member, in order, as `<name>: <blob>,`. -/
theorem writeMembers_eval (env : Env) (m : Mem) :
    ∃ env', evalS ctx call writeMembers ⟨env, m⟩ =
      some (Ctl.normal, ⟨env', addOut (ctx.frame.metadata.flatMap (memberToks ctx)) m⟩) := by
  have hit : evalE ctx (Term.app ".items" [Term.app ".metadata" [Term.sym "self"]]) ⟨env, m⟩ =
      some (.items ctx.frame.metadata) := rfl
  obtain ⟨env', hl⟩ := loopOver_fold (evalS ctx call membersBody)
    (fun (p : String × Json) => bind2 "key" "value" (Val.key p.1, Val.json p.2))
    (fun p m => addOut (memberToks ctx p) m) ctx.frame.metadata
    (fun p _ env m => membersBody_eval ctx call p env m) env m
  refine ⟨env', ?_⟩
  rw [writeMembers_eq, evalS_for2, hit]
  simp only [Option.bind_some, iterPairs, loopOver_map, hl, Option.map_some, foldl_addOut]

end write

/-! ### `write`: the feature loop -/

section features

variable (ctx : Ctx) (call : String → List Val → Mem → Option Mem)

/-- `self.to_list_of_dicts()` as the translator inlines it. -/
def rowsT : Term := Term.app ".to_list_of_dicts" [Term.sym "self"]

/-- the body of `for i, item in enumerate(data)`. -/
def featBody : Term :=
  Term.app "block"
    [Term.app "assign" [Term.sym "geometry", Term.app ".pop" [Term.sym "item", Term.sym "'geometry'"]],
     Term.app "assign" [Term.sym "blob", Term.app "dict" [Term.app "pair" [Term.sym "'type'", Term.sym "'Feature'"],
        Term.app "pair" [Term.sym "'properties'", Term.sym "item"], Term.app "pair" [Term.sym "'geometry'", Term.sym "geometry"]]],
     Term.app "assign" [Term.sym "blob", dumps (Term.sym "blob")],
     Term.app "assign" [Term.sym "comma", Term.app "ifexp" [Term.app "Lt" [Term.sym "i", Term.app "Sub" [Term.app "len" [rowsT], Term.int 1]], Term.sym "','", Term.sym "''"]],
     emit [fmt (indent 2), fmt (Term.sym "blob"), fmt (Term.sym "comma"), Term.sym "'\\n'"]]

theorem writeFeatures_eq : writeFeatures rowsT =
    Term.app "for" [Term.app "tuple" [Term.sym "i", Term.sym "item"], Term.app "enumerate" [rowsT], featBody,
      Term.app "init" [Term.sym "blob", Term.app "value-after-loop" [Term.sym "blob", writeMembers]]] := rfl

/-- the feature `write` makes of a row dict: the geometry popped out, the rest as the properties. -/
def featureOfMembers (ms : List (String × Json)) : Option Json :=
  (Read.lookup ms "geometry").map fun g =>
    Json.obj [("type", .blob (quote "Feature")), ("properties", .obj (Dict.del ms "geometry")), ("geometry", g)]

def rowFeature : Json → Option Json
  | .obj ms => featureOfMembers ms
  | _ => none

theorem featBody_eval (k : Nat) (ms : List (String × Json)) (f : Json) (hf : featureOfMembers ms = some f)
    (env : Env) (m : Mem) :
    ∃ c env', evalS ctx call featBody ⟨bind2 "i" "item" (Val.int k, Val.json (.obj ms)) env, m⟩ =
      some (c, ⟨env', addOut (Tok.blob (ctx.dumps f) :: (if k < ctx.frame.rows.length - 1 then [Tok.comma] else [])) m⟩) := by
  unfold featureOfMembers at hf
  cases hg : Read.lookup ms "geometry" with
  | none => rw [hg] at hf; cases hf
  | some g =>
    rw [hg] at hf
    simp only [Option.map_some, Option.some.injEq] at hf
    subst hf
    let env0 : Env := bind2 "i" "item" (Val.int k, Val.json (.obj ms)) env
    let feat : Json := Json.obj [("type", .blob (quote "Feature")), ("properties", .obj (Dict.del ms "geometry")), ("geometry", g)]
    let env3 : Env := ("blob", Val.blob (ctx.dumps feat)) :: ("blob", Val.json feat) :: ("geometry", Val.json g) ::
      ("item", Val.json (.obj (Dict.del ms "geometry"))) :: env0
    let s4 : Term := Term.app "assign" [Term.sym "comma", Term.app "ifexp" [Term.app "Lt" [Term.sym "i", Term.app "Sub" [Term.app "len" [rowsT], Term.int 1]], Term.sym "','", Term.sym "''"]]
    let s5 : Term := emit [fmt (indent 2), fmt (Term.sym "blob"), fmt (Term.sym "comma"), Term.sym "'\\n'"]
    have h1 : evalS ctx call featBody ⟨env0, m⟩ =
        ((Read.lookup ms "geometry").map fun j => ((Ctl.normal, (⟨("geometry", Val.json j) ::
          ("item", Val.json (.obj (Dict.del ms "geometry"))) :: env0, m⟩ : St)) : Ctl × St)).bind fun r =>
          match r.1 with
          | .normal => evalB ctx call
              [Term.app "assign" [Term.sym "blob", Term.app "dict" [Term.app "pair" [Term.sym "'type'", Term.sym "'Feature'"],
                Term.app "pair" [Term.sym "'properties'", Term.sym "item"], Term.app "pair" [Term.sym "'geometry'", Term.sym "geometry"]]],
               Term.app "assign" [Term.sym "blob", dumps (Term.sym "blob")], s4, s5] r.2
          | .cont => some r := rfl
    have h23 : evalB ctx call
        [Term.app "assign" [Term.sym "blob", Term.app "dict" [Term.app "pair" [Term.sym "'type'", Term.sym "'Feature'"],
          Term.app "pair" [Term.sym "'properties'", Term.sym "item"], Term.app "pair" [Term.sym "'geometry'", Term.sym "geometry"]]],
         Term.app "assign" [Term.sym "blob", dumps (Term.sym "blob")], s4, s5]
        ⟨("geometry", Val.json g) :: ("item", Val.json (.obj (Dict.del ms "geometry"))) :: env0, m⟩ =
        evalB ctx call [s4, s5] ⟨env3, m⟩ := rfl
    have h4 : evalS ctx call s4 ⟨env3, m⟩ =
        (if decide ((k : Int) < (ctx.frame.rows.length : Int) - 1) = true then some (Val.str [',']) else some (Val.str [])).map
          fun v => (Ctl.normal, (⟨("comma", v) :: env3, m⟩ : St)) := rfl
    have h5 : ∀ cs : List Char, evalFmt ctx [fmt (Term.sym "blob"), fmt (Term.sym "comma"), Term.sym "'\\n'"]
        ⟨("comma", Val.str cs) :: env3, m⟩ = (lex cs).bind fun a => some (Tok.blob (ctx.dumps feat) :: (a ++ [])) := by
      intro cs
      have hb : evalE ctx (fmt (Term.sym "blob")) ⟨("comma", Val.str cs) :: env3, m⟩ =
          some (Val.toks [Tok.blob (ctx.dumps feat)]) := rfl
      have hc : evalE ctx (fmt (Term.sym "comma")) ⟨("comma", Val.str cs) :: env3, m⟩ = (lex cs).map Val.toks := rfl
      have hn : evalFmt ctx [Term.sym "'\\n'"] ⟨("comma", Val.str cs) :: env3, m⟩ = some [] := rfl
      rw [evalFmt_cons, hb, evalFmt_cons, hc, hn]
      cases lex cs <;> rfl
    show ∃ c env', evalS ctx call featBody ⟨env0, m⟩ = _
    rw [h1, hg]
    simp only [Option.map_some, Option.bind_some]
    rw [h23, evalB_cons, h4]
    by_cases hk : k < ctx.frame.rows.length - 1
    · have hk' : (k : Int) < (ctx.frame.rows.length : Int) - 1 := by omega
      refine ⟨Ctl.normal, ("comma", Val.str [',']) :: env3, ?_⟩
      simp only [hk', decide_true, if_true, Option.map_some, Option.bind_some, hk, evalB_cons, s5]
      unfold emit
      rw [evalS_write, evalE_file, evalE_fstring, evalFmt_cons, evalE_fmt_indent, h5]
      rfl
    · have hk' : ¬ (k : Int) < (ctx.frame.rows.length : Int) - 1 := by omega
      refine ⟨Ctl.normal, ("comma", Val.str []) :: env3, ?_⟩
      simp only [hk', decide_false, Bool.false_eq_true, if_false, Option.map_some, Option.bind_some, hk, evalB_cons, s5]
      unfold emit
      rw [evalS_write, evalE_file, evalE_fstring, evalFmt_cons, evalE_fmt_indent, h5]
      rfl

theorem allM_length {α β : Type} (f : α → Option β) (xs : List α) (ys : List β) (h : allM f xs = some ys) :
    ys.length = xs.length := by
  induction xs generalizing ys with
  | nil => simp [allM] at h; subst h; rfl
  | cons x xs ih =>
    simp only [allM] at h
    cases hx : f x with
    | none => rw [hx] at h; cases h
    | some y =>
      rw [hx] at h
      cases hr : allM f xs with
      | none => rw [hr] at h; cases h
      | some r =>
        rw [hr] at h
        simp only [Option.bind_some, Option.map_some, Option.some.injEq] at h
        subst h
        simp [ih r hr]

theorem featLoop_eval (xs fs : List Json) (h : allM rowFeature xs = some fs) :
    ∀ (k : Nat) (env : Env) (m : Mem), ∃ env',
      loopOver (evalS ctx call featBody) (bind2 "i" "item") (enumFrom k xs) ⟨env, m⟩ =
        some ⟨env', addOut (featTokensFrom k (ctx.frame.rows.length - 1) (fs.map ctx.dumps)) m⟩ := by
  induction xs generalizing fs with
  | nil =>
    intro k env m
    simp only [allM, Option.some.injEq] at h
    subst h
    exact ⟨env, by simp [enumFrom, loopOver, featTokensFrom, addOut_nil]⟩
  | cons x xs ih =>
    intro k env m
    simp only [allM] at h
    cases hx : rowFeature x with
    | none => rw [hx] at h; cases h
    | some f =>
      rw [hx] at h
      cases hr : allM rowFeature xs with
      | none => rw [hr] at h; cases h
      | some r =>
        rw [hr] at h
        simp only [Option.bind_some, Option.map_some, Option.some.injEq] at h
        subst h
        cases x with
        | blob v => cases hx
        | arr ys => cases hx
        | obj ms =>
          obtain ⟨c, env1, hb⟩ := featBody_eval ctx call k ms f hx env m
          obtain ⟨env2, hl⟩ := ih r hr (k + 1) env1
            (addOut (Tok.blob (ctx.dumps f) :: (if k < ctx.frame.rows.length - 1 then [Tok.comma] else [])) m)
          refine ⟨env2, ?_⟩
          have he : enumFrom k (Json.obj ms :: xs) = (Val.int k, Val.json (.obj ms)) :: enumFrom (k + 1) xs := rfl
          rw [he]
          simp only [loopOver, hb, Option.bind_some]
          rw [hl, addOut_addOut]
          simp [featTokensFrom]

/-- **the feature loop**: one blob per row, a comma after every feature but the last. -/
theorem writeFeatures_eval (fs : List Json) (h : allM rowFeature ctx.frame.rows = some fs) (env : Env) (m : Mem) :
    ∃ env', evalS ctx call (writeFeatures rowsT) ⟨env, m⟩ =
      some (Ctl.normal, ⟨env', addOut (featTokens (fs.map ctx.dumps)) m⟩) := by
  have hit : evalE ctx (Term.app "enumerate" [rowsT]) ⟨env, m⟩ = some (.enum ctx.frame.rows) := rfl
  obtain ⟨env', hl⟩ := featLoop_eval ctx call ctx.frame.rows fs h 0 env m
  refine ⟨env', ?_⟩
  rw [writeFeatures_eq, evalS_for2', hit]
  simp only [Option.bind_some, iterPairs, hl, Option.map_some]
  have hlen := allM_length _ _ _ h
  simp [featTokens, hlen]

/-! ### `write` as a whole -/

theorem evalEffs_nil (done : Bool) (s : St) : evalEffs ctx call done [] s = some s := by
  cases done <;> rfl

theorem evalEffs_cons (t : Term) (ts : List Term) (s : St) (h : findComp t = none) (done : Bool) :
    evalEffs ctx call done (t :: ts) s = (evalS ctx call t s).bind fun r => evalEffs ctx call done ts r.2 := by
  cases done <;> simp [evalEffs, h]

/-- the model's member list of the frame's metadata: names and values through `json.dumps`. -/
def dumpedMetadata (ctx : Ctx) : List (String × String) :=
  ctx.frame.metadata.map fun p => (ctx.dumpsKey p.1, ctx.dumps p.2)

theorem flatMap_memberToks :
    ctx.frame.metadata.flatMap (memberToks ctx) =
      (dumpedMetadata ctx).flatMap (fun (k, v) => [Tok.str k, Tok.colon, Tok.blob v, Tok.comma]) := by
  unfold dumpedMetadata
  rw [List.flatMap_map]
  rfl

theorem truth_no_geometry (s : St) :
    truthOf ctx s (Term.app "NotIn" [Term.sym "'geometry'", Term.sym "self"]) = !Dict.has ctx.frame.cols "geometry" := rfl

/-- **`write`, evaluated**: refused (ValueError) without a geometry column; otherwise the file is the model's token
    stream of the dumped metadata members and the dumped features. -/
theorem evalWrite_eq (fs : List Json) (h : allM rowFeature ctx.frame.rows = some fs)
    (hg : Dict.has ctx.frame.cols "geometry" = true) :
    evalWrite ctx = some (writeTokens (dumpedMetadata ctx) (fs.map ctx.dumps)) := by
  unfold evalWrite
  simp only [write_code, truth_no_geometry, hg, Bool.not_true, Bool.false_eq_true, if_false, List.cons_append, List.nil_append]
  let s0 : St := ⟨[], Mem.init (.blob nullText)⟩
  have e0 : evalS ctx noCall (Term.app ".setdefault" [Term.sym "kwargs", Term.sym "'default'", Term.sym "str"]) s0 = some (Ctl.normal, s0) := rfl
  have e1 : evalS ctx noCall (Term.app ".setdefault" [Term.sym "kwargs", Term.sym "'ensure_ascii'", Term.sym "False"]) s0 = some (Ctl.normal, s0) := rfl
  have e2 : evalS ctx noCall (Term.app "util.makedirs_for_file" [Term.sym "path"]) s0 = some (Ctl.normal, s0) := rfl
  have e3 : evalS ctx noCall file s0 = some (Ctl.normal, s0) := rfl
  have e4 : evalS ctx noCall (Term.app ".write" [file, Term.sym "'{\\n'"]) s0 = some (Ctl.normal, ⟨[], addOut [Tok.lbrace] s0.mem⟩) := rfl
  obtain ⟨env5, e5⟩ := writeMembers_eval ctx noCall [] (addOut [Tok.lbrace] s0.mem)
  have e6 : ∀ env m, evalS ctx noCall (emit [fmt (indent 1), Term.sym "'\"features\": [\\n'"]) ⟨env, m⟩ =
      some (Ctl.normal, ⟨env, addOut [Tok.str "\"features\"", Tok.colon, Tok.lbrack] m⟩) := by
    intro env m
    unfold emit
    rw [evalS_write, evalE_file, evalE_fstring, evalFmt_cons, evalE_fmt_indent]
    rfl
  have e8 : ∀ env m, evalS ctx noCall (emit [fmt (indent 1), Term.sym "']\\n'"]) ⟨env, m⟩ =
      some (Ctl.normal, ⟨env, addOut [Tok.rbrack] m⟩) := by
    intro env m
    unfold emit
    rw [evalS_write, evalE_file, evalE_fstring, evalFmt_cons, evalE_fmt_indent]
    rfl
  have e9 : ∀ env m, evalS ctx noCall (Term.app ".write" [file, Term.sym "'}\\n'"]) ⟨env, m⟩ =
      some (Ctl.normal, ⟨env, addOut [Tok.rbrace] m⟩) := fun _ _ => rfl
  obtain ⟨env7, e7⟩ := writeFeatures_eval ctx noCall fs h env5
    (addOut [Tok.str "\"features\"", Tok.colon, Tok.lbrack] (addOut (ctx.frame.metadata.flatMap (memberToks ctx)) (addOut [Tok.lbrace] s0.mem)))
  have hf : ∀ t : Term, t ∈ [Term.app ".setdefault" [Term.sym "kwargs", Term.sym "'default'", Term.sym "str"],
      Term.app ".setdefault" [Term.sym "kwargs", Term.sym "'ensure_ascii'", Term.sym "False"],
      Term.app "util.makedirs_for_file" [Term.sym "path"], file, Term.app ".write" [file, Term.sym "'{\\n'"], writeMembers,
      emit [fmt (indent 1), Term.sym "'\"features\": [\\n'"], writeFeatures (Term.app ".to_list_of_dicts" [Term.sym "self"]),
      emit [fmt (indent 1), Term.sym "']\\n'"], Term.app ".write" [file, Term.sym "'}\\n'"]] → findComp t = none := by
    intro t ht
    simp only [List.mem_cons, List.not_mem_nil, or_false] at ht
    rcases ht with rfl | rfl | rfl | rfl | rfl | rfl | rfl | rfl | rfl | rfl <;> rfl
  show (evalEffs ctx noCall false _ s0).map _ = _
  rw [evalEffs_cons _ _ _ _ _ (hf _ (by simp)), e0]; simp only [Option.bind_some]
  rw [evalEffs_cons _ _ _ _ _ (hf _ (by simp)), e1]; simp only [Option.bind_some]
  rw [evalEffs_cons _ _ _ _ _ (hf _ (by simp)), e2]; simp only [Option.bind_some]
  rw [evalEffs_cons _ _ _ _ _ (hf _ (by simp)), e3]; simp only [Option.bind_some]
  rw [evalEffs_cons _ _ _ _ _ (hf _ (by simp)), e4]; simp only [Option.bind_some]
  rw [evalEffs_cons _ _ _ _ _ (hf _ (by simp)), e5]; simp only [Option.bind_some]
  rw [evalEffs_cons _ _ _ _ _ (hf _ (by simp)), e6]; simp only [Option.bind_some]
  rw [evalEffs_cons _ _ _ _ _ (hf _ (by simp))]
  change ((evalS ctx noCall (writeFeatures rowsT) _).bind _).map _ = _
  rw [e7]; simp only [Option.bind_some]
  rw [evalEffs_cons _ _ _ _ _ (hf _ (by simp)), e8]; simp only [Option.bind_some]
  rw [evalEffs_cons _ _ _ _ _ (hf _ (by simp)), e9]; simp only [Option.bind_some]
  rw [evalEffs_nil]
  simp only [Option.map_some, addOut_addOut, flatMap_memberToks]
  simp [addOut, s0, Mem.init, writeTokens, List.append_assoc]

theorem evalWrite_no_geometry (hg : Dict.has ctx.frame.cols "geometry" = false) : evalWrite ctx = none := by
  unfold evalWrite
  simp only [write_code, truth_no_geometry, hg, Bool.not_false, if_true]

end features

end DI.PyEvalGeo

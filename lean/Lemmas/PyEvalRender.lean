/-
  Lemmas/PyEvalRender.lean — what the evaluation of the regenerated `DataFrame.to_string` body (`Model/PyEvalRender.lean`)
  computes, statement by statement, and that it is `Render.dfToString` of `Model/Render.lean`.
-/
import Model.PyEvalRender
import Lemmas.PyEvalWidth
import Lemmas.Render

namespace DI.PyEvalRender

open DI DI.Py DI.Gen

/-! ### the sub-terms of the translated body -/

def selfT : Term := Term.sym "self"
def maxRowsT : Term := Term.app "Or" [Term.sym "max_rows", Term.sym "dataiter.PRINT_MAX_ROWS"]
def maxWidthT : Term := Term.app "Or" [Term.sym "max_width", Term.app "util.get_print_width" []]
def truncT : Term := Term.app "Or" [Term.sym "truncate_width", Term.sym "dataiter.PRINT_TRUNCATE_WIDTH"]
def nT : Term := Term.app "min" [Term.app ".nrow" [Term.sym "self"], maxRowsT]

/-- `column[:n].to_strings(quote=False, pad=True, truncate_width=truncate_width)`. -/
def cellsT : Term :=
  Term.app ".to_strings" [Term.app "getitem" [Term.sym "column", Term.app "slice" [Term.sym "None", nT]],
    Term.app "=quote" [Term.sym "False"], Term.app "=pad" [Term.sym "True"], Term.app "=truncate_width" [truncT]]

/-- `util.upad([colname] + [str(column.dtype_label)] + [str(x) for x in <cells>])`. -/
def entryT : Term :=
  Term.app "util.upad" [Term.app "Add" [Term.app "Add" [Term.app "list" [Term.sym "colname"],
      Term.app "list" [Term.app "str" [Term.app ".dtype_label" [Term.sym "column"]]]],
    Term.app "ListComp" [Term.app "str" [Term.sym "x"], Term.app "in" [Term.sym "x", cellsT, Term.app "if" []]]]]

/-- the dict `columns`. -/
def columnsT : Term :=
  Term.app "DictComp" [Term.app "pair" [Term.sym "colname", entryT],
    Term.app "in" [Term.app "tuple" [Term.sym "colname", Term.sym "column"], Term.app ".items" [Term.sym "self"], Term.app "if" []]]

/-- `column.insert(2, "─" * util.ulen(column[0]))`. -/
def insertT : Term :=
  Term.app ".insert" [Term.sym "column", Term.int 2,
    Term.app "Mult" [Term.sym "'─'", Term.app "util.ulen" [Term.app "getitem" [Term.sym "column", Term.int 0]]]]

def eff0T : Term := Term.app "for" [Term.sym "column", Term.app ".values" [columnsT], Term.app "block" [insertT]]

/-- `util.upad(["", "", ""] + [str(i) for i in range(n)])`. -/
def rowNumbersT : Term :=
  Term.app "util.upad" [Term.app "Add" [Term.app "list" [Term.sym "''", Term.sym "''", Term.sym "''"],
    Term.app "ListComp" [Term.app "str" [Term.sym "i"], Term.app "in" [Term.sym "i", Term.app "range" [nT], Term.app "if" []]]]]

/-- the list `rows_to_print`. -/
def rowsT : Term := Term.app "list" []

def firstAssignT : Term :=
  Term.app "assign" [Term.sym "first", Term.app "next" [Term.app "iter" [Term.app ".keys" [columnsT]]]]

def batchAssignT : Term :=
  Term.app "assign" [Term.sym "batch_rows", Term.app "ListComp" [Term.app ".join" [Term.sym "' '", Term.sym "x"],
    Term.app "in" [Term.sym "x", Term.app "zip" [rowNumbersT, Term.app ".pop" [columnsT, Term.sym "first"]], Term.app "if" []]]]

def widthAssignT : Term :=
  Term.app "assign" [Term.sym "width", Term.app "Add" [Term.app "util.ulen" [Term.app "Add"
    [Term.app "getitem" [Term.sym "batch_rows", Term.int 0], Term.app "getitem" [Term.sym "column", Term.int 0]]], Term.int 1]]

def breakIfT : Term :=
  Term.app "if" [Term.app "Gt" [Term.sym "width", maxWidthT], Term.app "block" [Term.sym "break"], Term.app "block" []]

def appendBodyT : Term :=
  Term.app "block" [
    Term.app "store" [Term.app "getitem" [Term.sym "batch_rows", Term.sym "i"],
      Term.app "Add=" [Term.app "getitem" [Term.sym "batch_rows", Term.sym "i"], Term.sym "' '"]],
    Term.app "store" [Term.app "getitem" [Term.sym "batch_rows", Term.sym "i"],
      Term.app "Add=" [Term.app "getitem" [Term.sym "batch_rows", Term.sym "i"], Term.app "getitem" [Term.sym "column", Term.sym "i"]]]]

def appendLoopT : Term :=
  Term.app "for" [Term.sym "i", Term.app "range" [Term.app "len" [Term.sym "column"]], appendBodyT]

def delT : Term := Term.app "del" [Term.app "getitem" [columnsT, Term.sym "colname"]]

def innerBodyT : Term := Term.app "block" [widthAssignT, breakIfT, appendLoopT, delT]

def innerForT : Term :=
  Term.app "for" [Term.app "tuple" [Term.sym "colname", Term.sym "column"], Term.app "list()" [Term.app ".items" [columnsT]], innerBodyT]

def sepAppendT : Term :=
  Term.app ".append" [rowsT, Term.app "ifexp" [rowsT, Term.sym "''", Term.sym "'.'"]]

def extendT : Term := Term.app "assign" [Term.sym "rows_to_print", Term.app "Add=" [rowsT, Term.sym "batch_rows"]]

def whileBodyT : Term := Term.app "block" [firstAssignT, batchAssignT, innerForT, sepAppendT, extendT]

def eff1T : Term := Term.app "stmt" [Term.app "while" [columnsT, whileBodyT]]

/-- the name `rows_to_print` after the loop. -/
def rowsAfterT : Term := Term.app "value-after-loop" [Term.sym "rows_to_print", eff1T]

def eff2T : Term := Term.app ".append" [rowsAfterT, Term.sym "'.'"]

def footerT : Term :=
  Term.app "fstring" [Term.sym "'... '", Term.app "format" [Term.app ".nrow" [Term.sym "self"], Term.sym "", Term.int (-1)],
    Term.sym "' rows total'"]

def eff3T : Term := Term.app ".append" [rowsAfterT, footerT]

def retT : Term := Term.app ".join" [Term.sym "'\\n'", rowsAfterT]

def cutTestT : Term := Term.app "Lt" [maxRowsT, Term.app ".nrow" [Term.sym "self"]]

/-- **the regenerated body is these terms** (checked against `Generated/CodeC20.lean` by `rfl`: any change of the source of
    `DataFrame.to_string` breaks this proof). -/
theorem DataFrame_to_string_eq (truth : Term → Bool) :
    DataFrame_to_string truth =
      if (!truth selfT) then Out.ret [] (Term.sym "''")
      else if truth cutTestT then Out.ret [eff0T, eff1T, eff2T, eff3T] retT
      else Out.ret [eff0T, eff1T, eff2T] retT := rfl

/-! ### the evaluator, form by form (all by `rfl`) -/

section forms
variable (w : Char → Int) (s : St) (fuel : Nat) (a b c d e k t body it : Term) (x v : String)

theorem evalP_int (i : Int) : evalP w (.int i) s = some (.int i) := rfl
theorem evalP_None : evalP w (.sym "None") s = some .none := rfl
theorem evalP_nl : evalP w (.sym "'\\n'") s = some (.str ['\n']) := rfl
theorem evalP_empty : evalP w (.sym "''") s = some (.str []) := rfl
theorem evalP_space : evalP w (.sym "' '") s = some (.str [' ']) := rfl
theorem evalP_dot : evalP w (.sym "'.'") s = some (.str ['.']) := rfl
theorem evalP_rule : evalP w (.sym "'─'") s = some (.str ['─']) := rfl
theorem evalP_dots : evalP w (.sym "'... '") s = some (.str "... ".toList) := rfl
theorem evalP_total : evalP w (.sym "' rows total'") s = some (.str " rows total".toList) := rfl
theorem evalP_self : evalP w (.sym "self") s = s.lookup "self" := rfl
theorem evalP_max_rows : evalP w (.sym "max_rows") s = s.lookup "max_rows" := rfl
theorem evalP_max_width : evalP w (.sym "max_width") s = s.lookup "max_width" := rfl
theorem evalP_truncate_width : evalP w (.sym "truncate_width") s = s.lookup "truncate_width" := rfl
theorem evalP_PMR : evalP w (.sym "dataiter.PRINT_MAX_ROWS") s = s.lookup "dataiter.PRINT_MAX_ROWS" := rfl
theorem evalP_PTW : evalP w (.sym "dataiter.PRINT_TRUNCATE_WIDTH") s = s.lookup "dataiter.PRINT_TRUNCATE_WIDTH" := rfl
theorem evalP_colname : evalP w (.sym "colname") s = s.lookup "colname" := rfl
theorem evalP_column : evalP w (.sym "column") s = s.lookup "column" := rfl
theorem evalP_x : evalP w (.sym "x") s = s.lookup "x" := rfl
theorem evalP_i : evalP w (.sym "i") s = s.lookup "i" := rfl
theorem evalP_first : evalP w (.sym "first") s = s.lookup "first" := rfl
theorem evalP_batch_rows : evalP w (.sym "batch_rows") s = s.lookup "batch_rows" := rfl
theorem evalP_width : evalP w (.sym "width") s = s.lookup "width" := rfl

theorem evalP_Or : evalP w (.app "Or" [a, b]) s =
    (evalP w a s).bind fun va => if truthy va s then some va else evalP w b s := rfl
theorem evalP_gpw : evalP w (.app "util.get_print_width" []) s = s.lookup "util.get_print_width()" := rfl
theorem evalP_min : evalP w (.app "min" [a, b]) s =
    (evalP w a s).bind fun va => (evalP w b s).bind fun vb => match va, vb with
      | .int p, .int q => some (.int (pmin p q)) | _, _ => Option.none := rfl
theorem evalP_nrow : evalP w (.app ".nrow" [e]) s =
    (evalP w e s).bind fun v => match v with | .frame n _ => some (.int n) | _ => Option.none := rfl
theorem evalP_dtype_label : evalP w (.app ".dtype_label" [e]) s =
    (evalP w e s).bind fun v => match v with | .col c => some (.str c.label) | _ => Option.none := rfl
theorem evalP_str : evalP w (.app "str" [e]) s =
    (evalP w e s).bind fun v => match v with
      | .str x => some (.str x) | .int i => some (.str (intStr i)) | _ => Option.none := rfl
theorem evalP_format : evalP w (.app "format" [e, .sym "", t]) s =
    (evalP w e s).bind fun v => match v with
      | .str x => some (.str x) | .int i => some (.str (intStr i)) | _ => Option.none := rfl
theorem evalP_fstring (ps : List Term) : evalP w (.app "fstring" ps) s = (evalPs w ps s).map fun xs => .str xs.flatten := rfl
theorem evalP_rows : evalP w (.app "list" []) s = some .rowsRef := rfl
theorem evalP_list (es : List Term) : evalP w (.app "list" (e :: es)) s = (evalPs w (e :: es) s).map Val.strs := rfl
theorem evalPs_nil : evalPs w [] s = some [] := rfl
theorem evalPs_cons (ts : List Term) : evalPs w (t :: ts) s =
    (evalP w t s).bind fun v => match v with
      | .str x => (evalPs w ts s).map (fun xs => x :: xs) | _ => Option.none := rfl
theorem evalP_DictComp (l : List Term) : evalP w (.app "DictComp" l) s = if s.dict.isSome then some .dictRef else Option.none := rfl
theorem evalP_to_strings : evalP w (.app ".to_strings" [.app "getitem" [c, .app "slice" [.sym "None", a]],
      .app "=quote" [.sym "False"], .app "=pad" [.sym "True"], .app "=truncate_width" [t]]) s =
    (evalP w c s).bind fun vc => (evalP w a s).bind fun vn => (evalP w t s).bind fun vt => match vc, vn, vt with
      | .col c, .int _, .int _ => some (.strs c.cells) | _, _, _ => Option.none := rfl
theorem evalP_Add : evalP w (.app "Add" [a, b]) s =
    (evalP w a s).bind fun va => (evalP w b s).bind fun vb => match va, vb with
      | .str p, .str q => some (.str (p ++ q)) | .strs p, .strs q => some (.strs (p ++ q))
      | .int p, .int q => some (.int (p + q)) | _, _ => Option.none := rfl
theorem evalP_AddEq : evalP w (.app "Add=" [a, b]) s =
    (evalP w a s).bind fun va => (evalP w b s).bind fun vb => match va, vb with
      | .str p, .str q => some (.str (p ++ q)) | .int p, .int q => some (.int (p + q)) | _, _ => Option.none := rfl
theorem evalP_Mult : evalP w (.app "Mult" [a, b]) s =
    (evalP w a s).bind fun va => (evalP w b s).bind fun vb => match va, vb with
      | .str p, .int q => some (.str (DI.PyEvalWidth.strMul p q)) | _, _ => Option.none := rfl
theorem evalP_ulen : evalP w (.app "util.ulen" [e]) s =
    (evalP w e s).bind fun v => match v with | .str x => (callUlen w x).map Val.int | _ => Option.none := rfl
theorem evalP_upad : evalP w (.app "util.upad" [e]) s =
    (evalP w e s).bind fun v => match v with | .strs xs => (callUpad w xs).map Val.strs | _ => Option.none := rfl
theorem evalP_getitem_int (i : Int) : evalP w (.app "getitem" [e, .int i]) s =
    (evalP w e s).bind fun ve => (evalP w (.int i) s).bind fun vi => match ve, vi with
      | .strs xs, .int k => (pyIdx xs.length k).bind fun j => xs[j]?.map Val.str
      | _, _ => Option.none := rfl
theorem evalP_getitem_sym : evalP w (.app "getitem" [e, .sym x]) s =
    (evalP w e s).bind fun ve => (evalP w (.sym x) s).bind fun vi => match ve, vi with
      | .strs xs, .int k => (pyIdx xs.length k).bind fun j => xs[j]?.map Val.str
      | _, _ => Option.none := rfl
theorem evalP_range : evalP w (.app "range" [e]) s =
    (evalP w e s).bind fun v => match v with | .int n => some (.ints (arange 0 n)) | _ => Option.none := rfl
theorem evalP_len : evalP w (.app "len" [e]) s =
    (evalP w e s).bind fun v => match v with | .strs xs => some (.int xs.length) | _ => Option.none := rfl
theorem evalP_join : evalP w (.app ".join" [a, e]) s =
    (evalP w a s).bind fun vs => (evalP w e s).bind fun ve => match vs, ve with
      | .str p, .strs xs => some (.str (pyJoin p xs))
      | .str p, .rowsRef => some (.str (pyJoin p s.rows))
      | _, _ => Option.none := rfl
theorem evalP_ListComp : evalP w (.app "ListComp" [body, .app "in" [.sym x, it, .app "if" []]]) s =
    (evalP w it s).bind fun vi => (iterOf vi).bind fun vs =>
      (allStr (fun v => evalP w body (s.bind x v)) vs).map Val.strs := rfl
theorem evalP_ifexp : evalP w (.app "ifexp" [c, a, b]) s =
    (evalP w c s).bind fun vc => if truthy vc s then evalP w a s else evalP w b s := rfl
theorem evalP_Gt : evalP w (.app "Gt" [a, b]) s =
    (evalP w a s).bind fun va => (evalP w b s).bind fun vb => match va, vb with
      | .int p, .int q => some (.bool (decide (p > q))) | _, _ => Option.none := rfl
theorem evalP_Lt : evalP w (.app "Lt" [a, b]) s =
    (evalP w a s).bind fun va => (evalP w b s).bind fun vb => match va, vb with
      | .int p, .int q => some (.bool (decide (p < q))) | _, _ => Option.none := rfl
theorem evalP_after : evalP w (.app "value-after-loop" [.sym x, t]) s = s.lookup x := rfl
theorem evalP_keys : evalP w (.app ".keys" [d]) s =
    (evalP w d s).bind fun v => match v, s.dict with
      | .dictRef, some dd => some (.strs (dd.map (·.1))) | _, _ => Option.none := rfl
theorem evalP_iter : evalP w (.app "iter" [e]) s = evalP w e s := rfl
theorem evalP_next : evalP w (.app "next" [e]) s =
    (evalP w e s).bind fun v => match v with | .strs (x :: _) => some (.str x) | _ => Option.none := rfl

theorem evalX_DictComp : evalX w (.app "DictComp" [.app "pair" [k, e], .app "in" [.app "tuple" [.sym x, .sym v], .app ".items" [a], .app "if" []]]) s =
    match s.dict with
    | some _ => some (.dictRef, s)
    | Option.none =>
      (evalP w a s).bind fun ve => match ve with
        | .frame _ cols =>
          (buildDict (fun c =>
              let s' := (s.bind x (.str c.name)).bind v (.col c)
              (evalP w k s').bind fun vk => (evalP w e s').bind fun vv => match vk, vv with
                | .str kk, .strs xs => some (kk, xs) | _, _ => Option.none) cols []).map
            fun d => (Val.dictRef, { s with dict := some d })
        | _ => Option.none := rfl
theorem evalX_pop : evalX w (.app ".pop" [d, k]) s =
    (evalX w d s).bind fun r => (evalP w k r.2).bind fun vk => match r.1, vk, r.2.dict with
      | .dictRef, .str kk, some dd =>
        (dd.lookup kk).map fun c => (Val.strs c, { r.2 with dict := some (eraseKey dd kk) })
      | _, _, _ => Option.none := rfl
theorem evalX_zip : evalX w (.app "zip" [a, b]) s =
    (evalX w a s).bind fun ra => (evalX w b ra.2).bind fun rb => match ra.1, rb.1 with
      | .strs p, .strs q => some (.strss (List.zipWith (fun x y => [x, y]) p q), rb.2) | _, _ => Option.none := rfl
theorem evalX_ListComp : evalX w (.app "ListComp" [body, .app "in" [.sym x, it, .app "if" []]]) s =
    (evalX w it s).bind fun r => (iterOf r.1).bind fun vs =>
      (allStr (fun v => evalP w body (r.2.bind x v)) vs).map fun xs => (Val.strs xs, r.2) := rfl
theorem evalX_AddEq : evalX w (.app "Add=" [a, b]) s =
    match evalP w a s with
    | some .rowsRef =>
      (evalP w b s).bind fun vb => match vb with
        | .strs xs => some (Val.rowsRef, { s with rows := s.rows ++ xs }) | _ => Option.none
    | _ => (evalP w (.app "Add=" [a, b]) s).map fun v => (v, s) := rfl
theorem evalX_upad : evalX w (.app "util.upad" [e]) s = (evalP w (.app "util.upad" [e]) s).map fun v => (v, s) := rfl
theorem evalX_next : evalX w (.app "next" [e]) s = (evalP w (.app "next" [e]) s).map fun v => (v, s) := rfl
theorem evalX_Add : evalX w (.app "Add" [a, b]) s = (evalP w (.app "Add" [a, b]) s).map fun v => (v, s) := rfl

theorem evalS_break : evalS w fuel (.sym "break") s = some (Ctl.brk, s) := rfl
theorem evalS_block (ss : List Term) : evalS w fuel (.app "block" ss) s = evalB w fuel ss s := rfl
theorem evalS_stmt : evalS w fuel (.app "stmt" [t]) s = evalS w fuel t s := rfl
theorem evalS_if : evalS w fuel (.app "if" [c, a, b]) s =
    (evalP w c s).bind fun vc => if truthy vc s then evalS w fuel a s else evalS w fuel b s := rfl
theorem evalS_for_values : evalS w fuel (.app "for" [.sym v, .app ".values" [d], body]) s =
    (evalX w d s).bind fun r => match r.1, r.2.dict with
      | .dictRef, some dd => (valuesLoop (evalS w fuel body) v [] dd r.2).map fun s' => (Ctl.normal, s')
      | _, _ => Option.none := rfl
theorem evalS_for_items : evalS w fuel (.app "for" [.app "tuple" [.sym x, .sym v], .app "list()" [.app ".items" [d]], body]) s =
    (evalP w d s).bind fun vd => match vd, s.dict with
      | .dictRef, some dd =>
        (loopOver (evalS w fuel body) (fun (p : Str × List Str) st => (st.bind x (.str p.1)).bind v (.strs p.2)) dd s).map
          fun s' => (Ctl.normal, s')
      | _, _ => Option.none := rfl
theorem evalS_for_range : evalS w fuel (.app "for" [.sym v, .app "range" [e], body]) s =
    (evalP w (.app "range" [e]) s).bind fun vi => (iterOf vi).bind fun vs =>
      (loopOver (evalS w fuel body) (fun x st => st.bind v x) vs s).map fun s' => (Ctl.normal, s') := rfl
theorem evalS_while : evalS w fuel (.app "while" [c, body]) s =
    (whileLoop (fun st => (evalP w c st).map fun v => truthy v st) (evalS w fuel body) fuel s).map
      fun s' => (Ctl.normal, s') := rfl
theorem evalS_assign : evalS w fuel (.app "assign" [.sym x, e]) s = (evalX w e s).map fun r => (Ctl.normal, r.2.bind x r.1) := rfl
theorem evalS_store : evalS w fuel (.app "store" [.app "getitem" [.sym x, a], e]) s =
    (evalP w e s).bind fun ve => (evalP w a s).bind fun vi => match s.lookup x, vi, ve with
      | some (.strs xs), .int k, .str v =>
        (pyIdx xs.length k).map fun j => (Ctl.normal, s.bind x (.strs (xs.set j v)))
      | _, _, _ => Option.none := rfl
theorem evalS_insert : evalS w fuel (.app ".insert" [.sym x, a, e]) s =
    (evalP w a s).bind fun vi => (evalP w e s).bind fun ve => match s.lookup x, vi, ve with
      | some (.strs xs), .int k, .str v => some (Ctl.normal, s.bind x (.strs (pyInsert xs k v)))
      | _, _, _ => Option.none := rfl
theorem evalS_del : evalS w fuel (.app "del" [.app "getitem" [d, k]]) s =
    (evalP w d s).bind fun vd => (evalP w k s).bind fun vk => match vd, vk, s.dict with
      | .dictRef, .str kk, some dd =>
        (dd.lookup kk).map fun _ => (Ctl.normal, { s with dict := some (eraseKey dd kk) })
      | _, _, _ => Option.none := rfl
theorem evalS_append : evalS w fuel (.app ".append" [t, e]) s =
    (evalP w t s).bind fun vt => (evalP w e s).bind fun ve => match vt, ve with
      | .rowsRef, .str v => some (Ctl.normal, { s with rows := s.rows ++ [v] })
      | _, _ => Option.none := rfl
theorem evalB_nil : evalB w fuel [] s = some (Ctl.normal, s) := rfl
theorem evalB_cons (ts : List Term) : evalB w fuel (t :: ts) s =
    (evalS w fuel t s).bind fun r => match r.1 with | .normal => evalB w fuel ts r.2 | .brk => some r := rfl

end forms

/-! ### the arguments -/

/-- `arg or default`: `None` and `0` are both false. -/
def effArg : Option Int → Int → Int
  | Option.none, d => d
  | some v, d => if v = 0 then d else v

section args
variable (w : Char → Int) {nrow : Nat} {cols : List Render.Col} {mr mw tw : Option Int} {dR dW dT : Int}

local notation "A" => toStringArgs nrow cols mr mw tw dR dW dT

theorem lookup_self {s : St} (h : s.args = A) : s.lookup "self" = some (.frame nrow cols) := by
  simp [St.lookup, h, toStringArgs, List.lookup]
theorem lookup_max_rows {s : St} (h : s.args = A) : s.lookup "max_rows" = some (optArg mr) := by
  simp [St.lookup, h, toStringArgs, List.lookup]
theorem lookup_max_width {s : St} (h : s.args = A) : s.lookup "max_width" = some (optArg mw) := by
  simp [St.lookup, h, toStringArgs, List.lookup]
theorem lookup_truncate_width {s : St} (h : s.args = A) : s.lookup "truncate_width" = some (optArg tw) := by
  simp [St.lookup, h, toStringArgs, List.lookup]
theorem lookup_PMR {s : St} (h : s.args = A) : s.lookup "dataiter.PRINT_MAX_ROWS" = some (.int dR) := by
  simp [St.lookup, h, toStringArgs, List.lookup]
theorem lookup_PTW {s : St} (h : s.args = A) : s.lookup "dataiter.PRINT_TRUNCATE_WIDTH" = some (.int dT) := by
  simp [St.lookup, h, toStringArgs, List.lookup]
theorem lookup_gpw {s : St} (h : s.args = A) : s.lookup "util.get_print_width()" = some (.int dW) := by
  simp [St.lookup, h, toStringArgs, List.lookup]

/-- the names the body assigns are not arguments. -/
theorem lookup_local {s : St} (h : s.args = A) (x : String)
    (hx : x ∈ ["colname", "column", "x", "i", "first", "batch_rows", "width", "rows_to_print"]) :
    s.lookup x = s.env.lookup x := by
  simp only [List.mem_cons, List.not_mem_nil, or_false] at hx
  rcases hx with rfl | rfl | rfl | rfl | rfl | rfl | rfl | rfl <;>
    simp [St.lookup, h, toStringArgs, List.lookup]

theorem or_arg (s : St) (x : String) (o : Option Int) (t : Term) (d : Int)
    (hx : evalP w (.sym x) s = some (optArg o)) (ht : evalP w t s = some (.int d)) :
    evalP w (.app "Or" [.sym x, t]) s = some (.int (effArg o d)) := by
  rw [evalP_Or, hx]
  cases o with
  | none => simp [optArg, truthy, ht, effArg]
  | some v =>
    by_cases hv : v = 0
    · simp [optArg, truthy, ht, effArg, hv]
    · simp [optArg, truthy, effArg, hv]

theorem maxRowsT_eval {s : St} (h : s.args = A) : evalP w maxRowsT s = some (.int (effArg mr dR)) :=
  or_arg w s _ _ _ _ (by rw [evalP_max_rows, lookup_max_rows h])
    (by rw [evalP_PMR, lookup_PMR h])

theorem maxWidthT_eval {s : St} (h : s.args = A) : evalP w maxWidthT s = some (.int (effArg mw dW)) :=
  or_arg w s _ _ _ _ (by rw [evalP_max_width, lookup_max_width h])
    (by rw [evalP_gpw, lookup_gpw h])

theorem truncT_eval {s : St} (h : s.args = A) : evalP w truncT s = some (.int (effArg tw dT)) :=
  or_arg w s _ _ _ _ (by rw [evalP_truncate_width, lookup_truncate_width h])
    (by rw [evalP_PTW, lookup_PTW h])

theorem nrow_eval {s : St} (h : s.args = A) : evalP w (.app ".nrow" [.sym "self"]) s = some (.int nrow) := by
  rw [evalP_nrow, evalP_self, lookup_self h]; rfl

/-- `n = min(self.nrow, max_rows)`. -/
theorem nT_eval {s : St} (h : s.args = A) : evalP w nT s = some (.int (pmin nrow (effArg mr dR))) := by
  unfold nT
  rw [evalP_min, nrow_eval w h, maxRowsT_eval w h]; rfl

end args

/-! ### the helpers -/

open DI.PyEvalWidth (wcOf ulenI)

theorem callUpad_eq (w : Char → Int) (xs : List Str) : callUpad w xs = some (Render.upad (wcOf w) xs) :=
  DI.PyEvalWidth.evalUpad_right _ w xs

theorem callUlen_eq (w : Char → Int) (x : Str) : callUlen w x = some ((Render.ulen (wcOf w) x : Nat) : Int) := by
  unfold callUlen
  rw [DI.PyEvalWidth.callUlen_eq, DI.PyEvalWidth.ulenI_eq_render]

theorem strMul_char (c : Char) (n : Int) : DI.PyEvalWidth.strMul [c] n = List.replicate n.toNat c := by
  unfold DI.PyEvalWidth.strMul
  induction n.toNat with
  | zero => rfl
  | succ k ih => simp [List.replicate_succ, ih]

theorem intStr_nat (k : Nat) : intStr (k : Int) = Render.natStr k := by
  unfold intStr Render.natStr
  have : ¬ ((k : Int) < 0) := by omega
  simp [this]

theorem arange_zero (n : Int) : arange 0 n = (List.range n.toNat).map (fun (k : Nat) => (k : Int)) := by
  unfold arange
  simp

section entries
variable (w : Char → Int) {nrow : Nat} {cols : List Render.Col} {mr mw tw : Option Int} {dR dW dT : Int}

local notation "A" => toStringArgs nrow cols mr mw tw dR dW dT

/-- `[str(x) for x in <strings>]`: the strings. -/
theorem allStr_str_x {s : St} (h : s.args = A) (xs : List Str) :
    allStr (fun v => evalP w (.app "str" [.sym "x"]) (s.bind "x" v)) (xs.map Val.str) = some xs := by
  induction xs with
  | nil => rfl
  | cons y ys ih =>
    have hl : (s.bind "x" (Val.str y)).lookup "x" = some (Val.str y) := by
      rw [lookup_local (s := s.bind "x" (Val.str y)) h "x" (by simp)]
      simp [St.bind, List.lookup]
    simp only [List.map_cons, allStr]
    rw [ih]
    simp only [evalP_str, evalP_x, hl, Option.bind_some, Option.map_some]

/-- `[str(i) for i in range(n)]`. -/
theorem allStr_str_i {s : St} (h : s.args = A) (l : List Nat) :
    allStr (fun v => evalP w (.app "str" [.sym "i"]) (s.bind "i" v)) ((l.map (fun (k : Nat) => (k : Int))).map Val.int) =
      some (l.map Render.natStr) := by
  induction l with
  | nil => rfl
  | cons y ys ih =>
    have hl : (s.bind "i" (Val.int y)).lookup "i" = some (Val.int y) := by
      rw [lookup_local (s := s.bind "i" (Val.int (y : Int))) h "i" (by simp)]
      simp [St.bind, List.lookup]
    simp only [List.map_cons, allStr]
    rw [ih]
    simp only [evalP_str, evalP_i, hl, Option.bind_some, Option.map_some, intStr_nat]

/-- the padded column of one frame column, before the rule is inserted. -/
def entryOf (w : Char → Int) (c : Render.Col) : List Str := Render.upad (wcOf w) (c.name :: c.label :: c.cells)

theorem entryT_eval {s : St} (h : s.args = A) (c : Render.Col) :
    evalP w (.sym "colname") ((s.bind "colname" (.str c.name)).bind "column" (.col c)) = some (.str c.name) ∧
    evalP w entryT ((s.bind "colname" (.str c.name)).bind "column" (.col c)) = some (.strs (entryOf w c)) := by
  have h' : ((s.bind "colname" (.str c.name)).bind "column" (.col c)).args = A := h
  have h1 : ((s.bind "colname" (.str c.name)).bind "column" (.col c)).lookup "colname" = some (.str c.name) := by
    rw [lookup_local h' "colname" (by simp)]; simp [St.bind, List.lookup]
  have h2 : ((s.bind "colname" (.str c.name)).bind "column" (.col c)).lookup "column" = some (.col c) := by
    rw [lookup_local h' "column" (by simp)]; simp [St.bind, List.lookup]
  refine ⟨by rw [evalP_colname, h1], ?_⟩
  have hc : evalP w cellsT ((s.bind "colname" (.str c.name)).bind "column" (.col c)) = some (.strs c.cells) := by
    unfold cellsT
    rw [evalP_to_strings, evalP_column, h2, nT_eval w h', truncT_eval w h']; rfl
  unfold entryT
  simp only [evalP_upad, evalP_Add, evalP_ListComp, hc, iterOf, allStr_str_x w h', Option.bind_some, Option.map_some]
  simp only [evalP_list, evalPs_cons, evalPs_nil, evalP_colname, h1, evalP_str, evalP_dtype_label,
    evalP_column, h2, Option.bind_some, Option.map_some, callUpad_eq]
  rfl

theorem dictSet_fresh (d : Dict) (k : Str) (v : List Str) (hk : k ∉ d.map (·.1)) : dictSet d k v = d ++ [(k, v)] := by
  unfold dictSet
  have : d.any (fun p => p.1 == k) = false := by
    rw [List.any_eq_false]
    intro p hp hpk
    exact hk (List.mem_map.mpr ⟨p, hp, by simpa using hpk⟩)
  simp [this]

theorem buildDict_eq (f : Render.Col → Option (Str × List Str)) (g : Render.Col → List Str)
    (hf : ∀ c, f c = some (c.name, g c)) (cs : List Render.Col) :
    ∀ d : Dict, ((d.map (·.1)) ++ cs.map (·.name)).Nodup →
      buildDict f cs d = some (d ++ cs.map (fun c => (c.name, g c))) := by
  induction cs with
  | nil => intro d _; simp [buildDict]
  | cons c cs ih =>
    intro d hnd
    have hk : c.name ∉ d.map (·.1) := by
      intro hmem
      rw [List.nodup_append] at hnd
      exact hnd.2.2 _ hmem _ (by simp) rfl
    simp only [buildDict, hf, Option.bind_some, dictSet_fresh d c.name (g c) hk]
    rw [ih (d ++ [(c.name, g c)]) (by simpa [List.map_append, List.append_assoc] using hnd)]
    simp

/-- **the dict `columns` as created**: one entry per column, in order (column names are distinct: the frame is a dict). -/
theorem columnsT_create {s : St} (h : s.args = A) (hd : s.dict = none) (hnd : (cols.map (·.name)).Nodup) :
    evalX w columnsT s = some (.dictRef, { s with dict := some (cols.map (fun c => (c.name, entryOf w c))) }) := by
  unfold columnsT
  rw [evalX_DictComp, hd, evalP_self, lookup_self h]
  simp only [Option.bind_some]
  rw [buildDict_eq _ (entryOf w) (fun c => by
    have := entryT_eval w h c
    simp only [this.1, this.2, Option.bind_some]) cols [] (by simpa using hnd)]
  simp

end entries

/-! ### the rule: `for column in columns.values(): column.insert(2, "─" * util.ulen(column[0]))` -/

/-- a display column with its rule. -/
def ruled (w : Char → Int) : List Str → List Str
  | [] => []
  | a :: rest => pyInsert (a :: rest) 2 (List.replicate (Render.ulen (wcOf w) a) '─')

/-- the display column of a frame column: the model's `mkColumn`. -/
theorem ruled_entryOf (w : Char → Int) (c : Render.Col) :
    ruled w (entryOf w c) = Render.mkColumn (wcOf w) c.name c.label c.cells := by
  simp [entryOf, Render.upad, Render.mkColumn, ruled, pyInsert]

theorem pyIdx_nat {n k : Nat} (h : k < n) : pyIdx n (k : Int) = some k := by
  unfold pyIdx
  have h1 : (0 : Int) ≤ k := by omega
  have h2 : (k : Int) < n := by omega
  simp [h1, h2]

section rule
variable (w : Char → Int) {nrow : Nat} {cols : List Render.Col} {mr mw tw : Option Int} {dR dW dT : Int}

local notation "A" => toStringArgs nrow cols mr mw tw dR dW dT

theorem insertT_eval (fuel : Nat) {s : St} (h : s.args = A) (a : Str) (rest : List Str)
    (hc : s.env.lookup "column" = some (.strs (a :: rest))) :
    evalS w fuel (Term.app "block" [insertT]) s = some (Ctl.normal, s.bind "column" (.strs (ruled w (a :: rest)))) := by
  have hl : s.lookup "column" = some (.strs (a :: rest)) := by rw [lookup_local h "column" (by simp), hc]
  have h0 : pyIdx (a :: rest).length (0 : Int) = some 0 := pyIdx_nat (k := 0) (by simp)
  unfold insertT
  simp only [evalS_block, evalB_cons, evalB_nil, evalS_insert, evalP_int, evalP_Mult, evalP_rule, evalP_ulen,
    evalP_getitem_int, evalP_column, hl, h0, callUlen_eq, strMul_char, Option.bind_some, Option.map_some,
    List.getElem?_cons_zero, Int.toNat_natCast, ruled]

theorem valuesLoop_insert (fuel : Nat) : ∀ (todo done : Dict) (s : St), s.args = A → s.dict = some (done ++ todo) →
    (∀ kc ∈ todo, kc.2 ≠ []) →
    ∃ env', valuesLoop (evalS w fuel (Term.app "block" [insertT])) "column" done todo s =
      some { s with env := env', dict := some (done ++ todo.map (fun kc => (kc.1, ruled w kc.2))) } := by
  intro todo
  induction todo with
  | nil =>
    intro done s _ hd _
    refine ⟨s.env, ?_⟩
    cases s
    simp_all [valuesLoop]
  | cons kc todo ih =>
    intro done s h hd hne
    obtain ⟨k, c⟩ := kc
    cases c with
    | nil => exact absurd rfl (hne (k, []) (by simp))
    | cons a rest =>
      have hb : (s.bind "column" (.strs (a :: rest))).env.lookup "column" = some (.strs (a :: rest)) := by
        simp [St.bind, List.lookup]
      obtain ⟨env', he⟩ := ih (done ++ [(k, ruled w (a :: rest))])
        { (s.bind "column" (.strs (a :: rest))).bind "column" (.strs (ruled w (a :: rest))) with
            dict := some (done ++ (k, ruled w (a :: rest)) :: todo) } h (by simp)
        (fun kc hkc => hne kc (List.mem_cons_of_mem _ hkc))
      refine ⟨env', ?_⟩
      simp only [valuesLoop, insertT_eval w fuel (s := s.bind "column" (.strs (a :: rest))) h a rest hb, Option.bind_some]
      simp only [St.bind, List.lookup, beq_self_eq_true]
      simp only [St.bind] at he
      rw [he]
      simp

/-- the dict `columns` when the block loop starts: name ↦ the model's display column. -/
def colsDict (w : Char → Int) (cols : List Render.Col) : Dict :=
  cols.map (fun c => (c.name, Render.mkColumn (wcOf w) c.name c.label c.cells))

/-- **`eff0`**: the dict is created and every column gets its rule — the model's `mkColumn`, column by column. -/
theorem eff0T_eval (fuel : Nat) {s : St} (h : s.args = A) (hd : s.dict = none) (hnd : (cols.map (·.name)).Nodup) :
    ∃ env', evalS w fuel eff0T s = some (Ctl.normal, { s with env := env', dict := some (colsDict w cols) }) := by
  obtain ⟨env', he⟩ := valuesLoop_insert w fuel (cols.map (fun c => (c.name, entryOf w c))) []
    { s with dict := some (cols.map (fun c => (c.name, entryOf w c))) } h (by simp)
    (by
      intro kc hkc
      obtain ⟨c, _, rfl⟩ := List.mem_map.mp hkc
      simp [entryOf, Render.upad])
  refine ⟨env', ?_⟩
  unfold eff0T
  rw [evalS_for_values, columnsT_create w h hd hnd]
  simp only [Option.bind_some, he, Option.map_some, List.map_map, List.nil_append, colsDict]
  congr 3

/-- **the row numbers**: `upad(["", "", ""] + [str(i) for i in range(n)])` is the model's `rowNumbers`. -/
theorem rowNumbersT_eval {s : St} (h : s.args = A) :
    evalP w rowNumbersT s = some (.strs (Render.rowNumbers (wcOf w) (pmin nrow (effArg mr dR)).toNat)) := by
  unfold rowNumbersT
  simp only [evalP_upad, evalP_Add, evalP_ListComp, evalP_range, nT_eval w h, iterOf, arange_zero, Option.bind_some,
    allStr_str_i w h, Option.map_some]
  simp only [evalP_list, evalPs_cons, evalPs_nil, evalP_empty, Option.bind_some, Option.map_some, callUpad_eq]
  rfl

end rule

/-! ### the block loop -/

section loop
variable (w : Char → Int) {nrow : Nat} {cols : List Render.Col} {mr mw tw : Option Int} {dR dW dT : Int}

local notation "A" => toStringArgs nrow cols mr mw tw dR dW dT

/-- one round of `batch_rows[i] += " "; batch_rows[i] += column[i]`. -/
theorem appendBodyT_eval (fuel : Nat) {s : St} (h : s.args = A) (P Q bs cs : List Str) (b c : Str)
    (hPQ : Q.length = P.length)
    (hb : s.env.lookup "batch_rows" = some (.strs (P ++ b :: bs)))
    (hc : s.env.lookup "column" = some (.strs (Q ++ c :: cs)))
    (hi : s.env.lookup "i" = some (.int (P.length : Nat))) :
    ∃ env', evalS w fuel appendBodyT s = some (Ctl.normal, { s with env := env' }) ∧
      env'.lookup "batch_rows" = some (.strs ((P ++ [Render.joinSp b c]) ++ bs)) ∧
      (∀ x, x ≠ "batch_rows" → env'.lookup x = s.env.lookup x) := by
  have hlb : s.lookup "batch_rows" = some (.strs (P ++ b :: bs)) := by rw [lookup_local h _ (by simp), hb]
  have hli : s.lookup "i" = some (.int (P.length : Nat)) := by rw [lookup_local h _ (by simp), hi]
  have hidx : pyIdx (P ++ b :: bs).length ((P.length : Nat) : Int) = some P.length := pyIdx_nat (by simp)
  have hidx' : pyIdx ((P ++ b :: bs).set P.length (b ++ [' '])).length ((P.length : Nat) : Int) = some P.length :=
    pyIdx_nat (by simp)
  have hidxc : pyIdx (Q ++ c :: cs).length ((P.length : Nat) : Int) = some P.length := pyIdx_nat (by simp; omega)
  have hget : (P ++ b :: bs)[P.length]? = some b := by simp
  have hgetc : (Q ++ c :: cs)[P.length]? = some c := by rw [← hPQ]; simp
  -- the state after the first store
  have hs1 : ∀ s1 : St, s1 = s.bind "batch_rows" (.strs ((P ++ b :: bs).set P.length (b ++ [' ']))) →
      s1.args = A ∧ s1.lookup "batch_rows" = some (.strs ((P ++ b :: bs).set P.length (b ++ [' ']))) ∧
      s1.lookup "i" = some (.int (P.length : Nat)) ∧ s1.lookup "column" = some (.strs (Q ++ c :: cs)) := by
    intro s1 hs1
    subst hs1
    have h' : (s.bind "batch_rows" (.strs ((P ++ b :: bs).set P.length (b ++ [' '])))).args = A := h
    refine ⟨h', ?_, ?_, ?_⟩
    · rw [lookup_local h' _ (by simp)]; simp [St.bind, List.lookup]
    · rw [lookup_local h' _ (by simp)]; simp [St.bind, List.lookup, hi]
    · rw [lookup_local h' _ (by simp)]; simp [St.bind, List.lookup, hc]
  obtain ⟨h1a, h1b, h1i, h1c⟩ := hs1 _ rfl
  have hget' : ((P ++ b :: bs).set P.length (b ++ [' ']))[P.length]? = some (b ++ [' ']) := by simp
  refine ⟨("batch_rows", .strs (((P ++ b :: bs).set P.length (b ++ [' '])).set P.length (b ++ [' '] ++ c))) ::
    ("batch_rows", .strs ((P ++ b :: bs).set P.length (b ++ [' ']))) :: s.env, ?_, ?_, ?_⟩
  · unfold appendBodyT
    simp only [evalS_block, evalB_cons, evalB_nil, evalS_store, evalP_AddEq, evalP_getitem_sym, evalP_batch_rows, evalP_i,
      evalP_space, hlb, hli, hidx, hget, Option.bind_some, Option.map_some]
    simp only [evalP_column, h1b, h1i, h1c, hidx', hidxc, hget', hgetc, Option.bind_some, Option.map_some]
    rfl
  · simp [St.bind, List.lookup, Render.joinSp]
  · intro x hx
    have hx' : (x == "batch_rows") = false := by simpa using hx
    simp [List.lookup, hx']

/-- `for i in range(len(column)): …`, from position `|P|` on. -/
theorem appendLoop_aux (fuel : Nat) : ∀ (cs bs P Q : List Str) (s : St), s.args = A → Q.length = P.length →
    bs.length = cs.length → s.env.lookup "batch_rows" = some (.strs (P ++ bs)) →
    s.env.lookup "column" = some (.strs (Q ++ cs)) →
    ∃ env', loopOver (evalS w fuel appendBodyT) (fun x st => st.bind "i" x)
        (((List.range' P.length cs.length).map (fun (k : Nat) => (k : Int))).map Val.int) s = some { s with env := env' } ∧
      env'.lookup "batch_rows" = some (.strs (P ++ List.zipWith Render.joinSp bs cs)) ∧
      (∀ x, x ≠ "batch_rows" → x ≠ "i" → env'.lookup x = s.env.lookup x) := by
  intro cs
  induction cs with
  | nil =>
    intro bs P Q s _ _ hl hb _
    have : bs = [] := List.eq_nil_of_length_eq_zero (by simpa using hl)
    subst this
    exact ⟨s.env, by simp [loopOver], by simpa using hb, fun _ _ _ => rfl⟩
  | cons c cs ih =>
    intro bs P Q s h hPQ hl hb hc
    cases bs with
    | nil => simp at hl
    | cons b bs =>
      have h1 : (s.bind "i" (.int (P.length : Nat))).args = A := h
      obtain ⟨env1, he1, hb1, hf1⟩ := appendBodyT_eval w fuel (s := s.bind "i" (.int (P.length : Nat))) h1 P Q bs cs b c hPQ
        (by simp [St.bind, List.lookup, hb]) (by simp [St.bind, List.lookup, hc]) (by simp [St.bind, List.lookup])
      obtain ⟨env2, he2, hb2, hf2⟩ := ih bs (P ++ [Render.joinSp b c]) (Q ++ [c])
        { (s.bind "i" (.int (P.length : Nat))) with env := env1 } h (by simp [hPQ]) (by simpa using hl)
        (by simpa using hb1) (by
          have := hf1 "column" (by decide)
          show List.lookup "column" env1 = _
          rw [this]
          simp [St.bind, List.lookup, hc])
      refine ⟨env2, ?_, ?_, ?_⟩
      · simp only [List.length_cons, List.range'_succ, List.map_cons, loopOver, he1, Option.bind_some]
        simpa [St.bind] using he2
      · simpa using hb2
      · intro x hx hxi
        have hxi' : (x == "i") = false := by simpa using hxi
        rw [hf2 x hx hxi, hf1 x hx]
        simp [St.bind, List.lookup, hxi']

theorem appendLoopT_eval (fuel : Nat) {s : St} (h : s.args = A) (B C : List Str) (hl : B.length = C.length)
    (hb : s.env.lookup "batch_rows" = some (.strs B)) (hc : s.env.lookup "column" = some (.strs C)) :
    ∃ env', evalS w fuel appendLoopT s = some (Ctl.normal, { s with env := env' }) ∧
      env'.lookup "batch_rows" = some (.strs (List.zipWith Render.joinSp B C)) ∧
      (∀ x, x ≠ "batch_rows" → x ≠ "i" → env'.lookup x = s.env.lookup x) := by
  obtain ⟨env', he, hb', hf⟩ := appendLoop_aux w fuel C B [] [] s h rfl hl (by simpa using hb) (by simpa using hc)
  refine ⟨env', ?_, by simpa using hb', hf⟩
  have hlc : s.lookup "column" = some (.strs C) := by rw [lookup_local h _ (by simp), hc]
  unfold appendLoopT
  simp only [evalS_for_range, evalP_range, evalP_len, evalP_column, hlc, Option.bind_some, iterOf, arange_zero,
    Int.toNat_natCast, List.range_eq_range']
  simp only [List.length_nil] at he
  rw [he]; rfl

/-- the greedy filling of one block: the lines and the columns left over. -/
def fill (wc : Char → Option Nat) (maxw : Nat) : List Str → Dict → List Str × Dict
  | cur, [] => (cur, [])
  | cur, (k, c) :: cs =>
    if Render.ulen wc (cur.headD [] ++ c.headD []) + 1 > maxw then (cur, (k, c) :: cs)
    else fill wc maxw (List.zipWith Render.joinSp cur c) cs

theorem fill_break (wc : Char → Option Nat) (maxw : Nat) (cur : List Str) (k : Str) (c : List Str) (cs : Dict)
    (ht : Render.ulen wc (cur.headD [] ++ c.headD []) + 1 > maxw) :
    fill wc maxw cur ((k, c) :: cs) = (cur, (k, c) :: cs) := by
  simp only [fill, if_pos ht]

theorem fill_take (wc : Char → Option Nat) (maxw : Nat) (cur : List Str) (k : Str) (c : List Str) (cs : Dict)
    (ht : ¬ Render.ulen wc (cur.headD [] ++ c.headD []) + 1 > maxw) :
    fill wc maxw cur ((k, c) :: cs) = fill wc maxw (List.zipWith Render.joinSp cur c) cs := by
  simp only [fill, if_neg ht]

theorem fill_suffix (wc : Char → Option Nat) (maxw : Nat) : ∀ (cs : Dict) (cur : List Str),
    ∃ pre, cs = pre ++ (fill wc maxw cur cs).2 := by
  intro cs
  induction cs with
  | nil => intro cur; exact ⟨[], rfl⟩
  | cons kc cs ih =>
    intro cur
    obtain ⟨k, c⟩ := kc
    unfold fill
    split
    · exact ⟨[], rfl⟩
    · obtain ⟨pre, hp⟩ := ih (List.zipWith Render.joinSp cur c)
      exact ⟨(k, c) :: pre, by rw [List.cons_append, ← hp]⟩

/-- the model's `layoutAux` fills a block exactly like this and goes on with `layout` of the rest. -/
theorem layoutAux_fill (wc : Char → Option Nat) (maxw : Nat) (rn : List Str) : ∀ (cs : Dict) (curCols : List (List Str))
    (cur : List Str), ∃ cc, Render.layoutAux wc maxw rn curCols cur (cs.map (·.2)) =
      (cc, (fill wc maxw cur cs).1) :: Render.layout wc maxw rn ((fill wc maxw cur cs).2.map (·.2)) := by
  intro cs
  induction cs with
  | nil => intro curCols cur; exact ⟨curCols.reverse, by simp [Render.layoutAux, fill, Render.layout]⟩
  | cons kc cs ih =>
    intro curCols cur
    obtain ⟨k, c⟩ := kc
    by_cases ht : Render.ulen wc (cur.headD [] ++ c.headD []) + 1 > maxw
    · refine ⟨curCols.reverse, ?_⟩
      simp only [List.map_cons, Render.layoutAux, fill]
      rw [if_pos ht, if_pos ht]
      simp [Render.layout]
    · obtain ⟨cc, hcc⟩ := ih (c :: curCols) (List.zipWith Render.joinSp cur c)
      exact ⟨cc, by simp only [List.map_cons, Render.layoutAux, fill, ht, if_false]; exact hcc⟩

/-- one column offered to the block: refused (`break`) or appended and deleted from the dict. -/
theorem innerBodyT_eval (fuel : Nat) {s : St} (h : s.args = A) (k : Str) (c B : List Str) (rest : Dict)
    (hd : s.dict = some ((k, c) :: rest)) (hk : s.env.lookup "colname" = some (.str k))
    (hc : s.env.lookup "column" = some (.strs c)) (hb : s.env.lookup "batch_rows" = some (.strs B))
    (hB : B ≠ []) (hl : c.length = B.length) :
    ∃ env', evalS w fuel innerBodyT s =
      (if Render.ulen (wcOf w) (B.headD [] ++ c.headD []) + 1 > (effArg mw dW).toNat
        then some (Ctl.brk, { s with env := env' })
        else some (Ctl.normal, { s with env := env', dict := some rest })) ∧
      env'.lookup "batch_rows" = some (.strs
        (if Render.ulen (wcOf w) (B.headD [] ++ c.headD []) + 1 > (effArg mw dW).toNat then B
          else List.zipWith Render.joinSp B c)) := by
  obtain ⟨b0, Bt, rfl⟩ := List.exists_cons_of_ne_nil hB
  obtain ⟨c0, ct, rfl⟩ := List.exists_cons_of_ne_nil (l := c) (by intro hc0; subst hc0; simp at hl)
  have hlb : s.lookup "batch_rows" = some (.strs (b0 :: Bt)) := by rw [lookup_local h _ (by simp), hb]
  have hlc : s.lookup "column" = some (.strs (c0 :: ct)) := by rw [lookup_local h _ (by simp), hc]
  have h0b : pyIdx (b0 :: Bt).length (0 : Int) = some 0 := pyIdx_nat (k := 0) (by simp)
  have h0c : pyIdx (c0 :: ct).length (0 : Int) = some 0 := pyIdx_nat (k := 0) (by simp)
  -- the state after `width = …`
  have hW : evalS w fuel widthAssignT s =
      some (Ctl.normal, s.bind "width" (.int ((Render.ulen (wcOf w) (b0 ++ c0) : Nat) + 1))) := by
    unfold widthAssignT
    simp only [evalS_assign, evalX_Add, evalP_Add, evalP_ulen, evalP_getitem_int, evalP_batch_rows, evalP_column, evalP_int,
      hlb, hlc, h0b, h0c, callUlen_eq, List.getElem?_cons_zero, Option.bind_some, Option.map_some]
  have h1 : (s.bind "width" (.int ((Render.ulen (wcOf w) (b0 ++ c0) : Nat) + 1))).args = A := h
  have hlw : (s.bind "width" (.int ((Render.ulen (wcOf w) (b0 ++ c0) : Nat) + 1))).lookup "width" =
      some (.int ((Render.ulen (wcOf w) (b0 ++ c0) : Nat) + 1)) := by
    rw [lookup_local h1 _ (by simp)]; simp [St.bind, List.lookup]
  have hG : evalP w (Term.app "Gt" [Term.sym "width", maxWidthT]) (s.bind "width" (.int ((Render.ulen (wcOf w) (b0 ++ c0) : Nat) + 1))) =
      some (.bool (decide (Render.ulen (wcOf w) (b0 ++ c0) + 1 > (effArg mw dW).toNat))) := by
    rw [evalP_Gt, evalP_width, hlw, maxWidthT_eval w h1]
    simp only [Option.bind_some]
    congr 2
    rw [decide_eq_decide]
    constructor <;> intro hh <;> omega
  by_cases ht : Render.ulen (wcOf w) (b0 ++ c0) + 1 > (effArg mw dW).toNat
  · refine ⟨("width", .int ((Render.ulen (wcOf w) (b0 ++ c0) : Nat) + 1)) :: s.env, ?_, ?_⟩
    · unfold innerBodyT breakIfT
      simp only [evalB_cons, evalS_block, hW, Option.bind_some, evalS_if, hG, ht, decide_true, truthy, if_true, evalS_break,
        List.headD_cons]
      rfl
    · simp [List.lookup, ht, hb]
  · obtain ⟨env2, he2, hb2, hf2⟩ := appendLoopT_eval w fuel (s := s.bind "width" (.int ((Render.ulen (wcOf w) (b0 ++ c0) : Nat) + 1)))
      h1 (b0 :: Bt) (c0 :: ct) hl.symm (by simp [St.bind, List.lookup, hb]) (by simp [St.bind, List.lookup, hc])
    refine ⟨env2, ?_, ?_⟩
    · have h2 : ({ (s.bind "width" (.int ((Render.ulen (wcOf w) (b0 ++ c0) : Nat) + 1))) with env := env2 } : St).args = A := h
      have hk2 : ({ (s.bind "width" (.int ((Render.ulen (wcOf w) (b0 ++ c0) : Nat) + 1))) with env := env2 } : St).lookup "colname" =
          some (.str k) := by
        rw [lookup_local h2 _ (by simp)]
        simp only []
        rw [hf2 "colname" (by decide) (by decide)]
        simp [St.bind, List.lookup, hk]
      unfold innerBodyT breakIfT delT
      rw [evalS_block, evalB_cons, hW]
      simp only [Option.bind_some]
      rw [evalB_cons, evalS_if, hG]
      simp only [Option.bind_some, truthy, ht, decide_false, Bool.false_eq_true, if_false, evalS_block, evalB_nil]
      rw [evalB_cons, he2]
      simp only [Option.bind_some, evalB_cons, evalB_nil, evalS_del, evalP_DictComp, columnsT, evalP_colname, hk2]
      simp [St.bind, hd, List.lookup, eraseKey, ht]
    · simp [ht, hb2]

local notation "MW" => Int.toNat (effArg mw dW)
local notation "RN" => Render.rowNumbers (wcOf w) (Int.toNat (pmin nrow (effArg mr dR)))

/-- the block that the column `c0` opens, and the columns left over. -/
def firstBlock (w : Char → Int) (maxw : Nat) (rn c0 : List Str) (d' : Dict) : List Str × Dict :=
  fill (wcOf w) maxw (List.zipWith Render.joinSp rn c0) d'

/-- **the inner `for`** over the snapshot of the remaining columns: the greedy filling `fill`; the columns taken are
    deleted from the dict, the one that did not fit (and everything after it) stays. -/
theorem innerLoop_eval (fuel : Nat) : ∀ (cs : Dict) (B : List Str) (s : St), s.args = A → s.dict = some cs →
    s.env.lookup "batch_rows" = some (.strs B) → B ≠ [] → (∀ kc ∈ cs, kc.2.length = B.length) →
    ∃ env', loopOver (evalS w fuel innerBodyT)
        (fun (p : Str × List Str) st => (st.bind "colname" (.str p.1)).bind "column" (.strs p.2)) cs s =
        some { s with env := env', dict := some (fill (wcOf w) MW B cs).2 } ∧
      env'.lookup "batch_rows" = some (.strs (fill (wcOf w) MW B cs).1) := by
  intro cs
  induction cs with
  | nil =>
    intro B s _ hd hb _ _
    refine ⟨s.env, ?_, by simpa [fill] using hb⟩
    cases s
    simp_all [loopOver, fill]
  | cons kc cs ih =>
    intro B s h hd hb hB hl
    obtain ⟨k, c⟩ := kc
    have hlc : c.length = B.length := hl (k, c) (by simp)
    obtain ⟨env1, he1, hb1⟩ := innerBodyT_eval w fuel
      (s := (s.bind "colname" (.str k)).bind "column" (.strs c)) h k c B cs hd
      (by simp [St.bind, List.lookup]) (by simp [St.bind, List.lookup]) (by simp [St.bind, List.lookup, hb]) hB hlc
    by_cases ht : Render.ulen (wcOf w) (B.headD [] ++ c.headD []) + 1 > MW
    · rw [if_pos ht] at he1 hb1
      refine ⟨env1, ?_, ?_⟩
      · rw [fill_break _ _ _ _ _ _ ht]
        simp only [loopOver, he1, Option.bind_some]
        simp [St.bind, hd]
      · rw [fill_break _ _ _ _ _ _ ht]
        exact hb1
    · rw [if_neg ht] at he1 hb1
      have hB' : List.zipWith Render.joinSp B c ≠ [] := by
        intro h0
        have := congrArg List.length h0
        simp only [List.length_zipWith, List.length_nil, hlc, Nat.min_self] at this
        exact hB (List.eq_nil_of_length_eq_zero this)
      obtain ⟨env2, he2, hb2⟩ := ih (List.zipWith Render.joinSp B c)
        { ((s.bind "colname" (.str k)).bind "column" (.strs c)) with env := env1, dict := some cs } h rfl hb1 hB'
        (by
          intro kc hkc
          simp only [List.length_zipWith, hlc, Nat.min_self]
          exact hl kc (List.mem_cons_of_mem _ hkc))
      refine ⟨env2, ?_, ?_⟩
      · rw [fill_take _ _ _ _ _ _ ht]
        simp only [loopOver, he1, Option.bind_some]
        simpa [St.bind] using he2
      · rw [fill_take _ _ _ _ _ _ ht]
        exact hb2

/-- `[" ".join(x) for x in zip(p, q)]`. -/
theorem allStr_join {s : St} (h : s.args = A) : ∀ (p q : List Str),
    allStr (fun v => evalP w (Term.app ".join" [Term.sym "' '", Term.sym "x"]) (s.bind "x" v))
      ((List.zipWith (fun x y => [x, y]) p q).map Val.strs) = some (List.zipWith Render.joinSp p q) := by
  intro p
  induction p with
  | nil => intro q; rfl
  | cons a p ih =>
    intro q
    cases q with
    | nil => rfl
    | cons b q =>
      have hx : (s.bind "x" (Val.strs [a, b])).lookup "x" = some (Val.strs [a, b]) := by
        rw [lookup_local (s := s.bind "x" (Val.strs [a, b])) h "x" (by simp)]
        simp [St.bind, List.lookup]
      simp only [List.zipWith_cons_cons, List.map_cons, allStr]
      rw [ih q]
      simp only [evalP_join, evalP_space, evalP_x, hx, Option.bind_some, Option.map_some]
      simp [pyJoin, Render.joinSp]

/-- **one iteration of the block loop**: the first remaining column is popped and opens the block, the block is filled
    greedily, a separator line ("." before the first block, "" before the others) and the block's lines are appended. -/
theorem whileBodyT_eval (fuel : Nat) {s : St} (h : s.args = A) (k0 : Str) (c0 : List Str) (d' : Dict) (L : Nat)
    (hd : s.dict = some ((k0, c0) :: d')) (hL : ∀ kc ∈ (k0, c0) :: d', kc.2.length = L) (hL0 : 0 < L)
    (hrn : L ≤ (RN).length) :
    ∃ env', evalS w fuel whileBodyT s = some (Ctl.normal, { s with env := env', dict := some (firstBlock w MW RN c0 d').2, rows := s.rows ++ (if s.rows = [] then ['.'] else []) :: (firstBlock w MW RN c0 d').1 }) ∧
      env'.lookup "rows_to_print" = some .rowsRef := by
  unfold firstBlock
  generalize hrnE : RN = rn at hrn
  have hc0 : c0.length = L := hL (k0, c0) (by simp)
  -- first = next(iter(columns.keys()))
  have hF : evalS w fuel firstAssignT s = some (Ctl.normal, s.bind "first" (.str k0)) := by
    unfold firstAssignT columnsT
    simp only [evalS_assign, evalX_next, evalP_next, evalP_iter, evalP_keys, evalP_DictComp, hd, Option.isSome_some, if_true,
      Option.bind_some, List.map_cons, Option.map_some]
  have h1 : (s.bind "first" (.str k0)).args = A := h
  have hlf : (s.bind "first" (.str k0)).lookup "first" = some (.str k0) := by
    rw [lookup_local h1 _ (by simp)]; simp [St.bind, List.lookup]
  -- batch_rows = [" ".join(x) for x in zip(row_numbers, columns.pop(first))]
  have hBt : evalS w fuel batchAssignT (s.bind "first" (.str k0)) =
      some (Ctl.normal, ({ (s.bind "first" (.str k0)) with dict := some d' } : St).bind "batch_rows"
        (.strs (List.zipWith Render.joinSp rn c0))) := by
    have h2 : ({ (s.bind "first" (.str k0)) with dict := some d' } : St).args = A := h
    unfold batchAssignT
    rw [evalS_assign, evalX_ListComp, evalX_zip]
    unfold rowNumbersT
    rw [evalX_upad]
    have hrnT := rowNumbersT_eval w h1
    unfold rowNumbersT at hrnT
    rw [hrnT, hrnE]
    unfold columnsT
    simp only [Option.map_some, Option.bind_some, evalX_pop, evalX_DictComp, St.bind, hd, evalP_first]
    have hlf' : ∀ dct, St.lookup { args := s.args, env := ("first", Val.str k0) :: s.env, dict := dct, rows := s.rows } "first" =
        some (.str k0) := by
      intro dct
      rw [lookup_local (s := { args := s.args, env := ("first", Val.str k0) :: s.env, dict := dct, rows := s.rows }) h _ (by simp)]
      simp [List.lookup]
    simp only [hlf', Option.bind_some, hd, List.lookup, beq_self_eq_true, Option.map_some, eraseKey, if_true, iterOf]
    have := allStr_join w (s := { args := s.args, env := ("first", Val.str k0) :: s.env, dict := some d', rows := s.rows }) h rn c0
    simp only [St.bind] at this
    rw [this]
    rfl
  have hB0 : List.zipWith Render.joinSp rn c0 ≠ [] := by
    intro h0
    have := congrArg List.length h0
    simp only [List.length_zipWith, List.length_nil] at this
    omega
  obtain ⟨env3, he3, hb3⟩ := innerLoop_eval w fuel d' (List.zipWith Render.joinSp rn c0)
    (({ (s.bind "first" (.str k0)) with dict := some d' } : St).bind "batch_rows" (.strs (List.zipWith Render.joinSp rn c0)))
    h rfl (by simp [St.bind, List.lookup]) hB0
    (by
      intro kc hkc
      simp only [List.length_zipWith]
      have := hL kc (List.mem_cons_of_mem _ hkc)
      omega)
  generalize hFl : fill (wcOf w) MW (List.zipWith Render.joinSp rn c0) d' = F at he3 hb3
  have hI : evalS w fuel innerForT
      (({ (s.bind "first" (.str k0)) with dict := some d' } : St).bind "batch_rows" (.strs (List.zipWith Render.joinSp rn c0))) =
      some (Ctl.normal, { args := s.args, env := env3, dict := some F.2, rows := s.rows }) := by
    unfold innerForT columnsT
    rw [evalS_for_items, evalP_DictComp]
    simp only [St.bind, Option.isSome_some, if_true, Option.bind_some]
    simp only [St.bind] at he3
    rw [he3]
    rfl
  have hl3 : ∀ rws, ({ args := s.args, env := env3, dict := some F.2, rows := rws } : St).lookup "batch_rows" = some (.strs F.1) := by
    intro rws
    rw [lookup_local (s := { args := s.args, env := env3, dict := some F.2, rows := rws }) h _ (by simp)]
    exact hb3
  refine ⟨("rows_to_print", .rowsRef) :: env3, ?_, by simp [List.lookup]⟩
  unfold whileBodyT
  rw [evalS_block, evalB_cons, hF]
  simp only [Option.bind_some]
  rw [evalB_cons, hBt]
  simp only [Option.bind_some]
  rw [evalB_cons, hI]
  simp only [Option.bind_some]
  unfold sepAppendT extendT rowsT
  simp only [evalB_cons, evalB_nil, evalS_append, evalP_rows, evalP_ifexp, evalP_empty, evalP_dot, Option.bind_some, truthy]
  by_cases hr : s.rows = []
  · simp only [hr, List.isEmpty_nil, Bool.not_true, Bool.false_eq_true, if_false, evalP_dot, Option.bind_some, evalS_assign,
      evalX_AddEq, evalP_rows, evalP_batch_rows]
    simp [hl3, St.bind]
  · have hne : s.rows.isEmpty = false := by simpa using hr
    simp only [hne, Bool.not_false, if_true, evalP_empty, Option.bind_some, evalS_assign, evalX_AddEq, evalP_rows,
      evalP_batch_rows]
    simp [hl3, St.bind, hr]

theorem batchLines_succ : ∀ (bs : List (List (List Str) × List Str)) (k : Nat),
    Render.batchLines (k + 1) bs = Render.batchLines 1 bs := by
  intro bs
  induction bs with
  | nil => intro k; rfl
  | cons b bs ih =>
    intro k
    simp only [Render.batchLines, Nat.add_one_ne_zero, if_false]
    rw [ih (k + 1), ih 1]

/-- **the block loop terminates and computes the model's `layout`**: with `d.length + 1` iterations allowed (or more) the
    loop ends — every iteration pops a column — with an empty dict, and has appended `batchLines` of the model's `layout` of
    the remaining columns. -/
theorem whileLoop_eval (f0 : Nat) (L : Nat) (hL0 : 0 < L) (hrn : L ≤ (RN).length) : ∀ (n : Nat) (d : Dict) (s : St) (fuel : Nat),
    d.length ≤ n → n + 1 ≤ fuel → s.args = A → s.dict = some d → (∀ kc ∈ d, kc.2.length = L) →
    ∃ env', whileLoop (fun st => (evalP w columnsT st).map fun v => truthy v st) (evalS w f0 whileBodyT) fuel s =
        some { s with env := env', dict := some [], rows := s.rows ++ Render.batchLines (if s.rows = [] then 0 else 1) (Render.layout (wcOf w) MW RN (d.map (·.2))) } ∧
      (d ≠ [] ∨ s.env.lookup "rows_to_print" = some .rowsRef → env'.lookup "rows_to_print" = some .rowsRef) := by
  intro n
  induction n with
  | zero =>
    intro d s fuel hdn hf h hd _
    have : d = [] := List.eq_nil_of_length_eq_zero (by omega)
    subst this
    obtain ⟨f, rfl⟩ : ∃ f, fuel = f + 1 := ⟨fuel - 1, by omega⟩
    refine ⟨s.env, ?_, fun hne => hne.elim (fun hne => absurd rfl hne) id⟩
    unfold columnsT
    cases s
    simp_all [whileLoop, evalP_DictComp, truthy, Render.layout, Render.batchLines]
  | succ m ih =>
    intro d s fuel hdn hf h hd hL
    obtain ⟨f, rfl⟩ : ∃ f, fuel = f + 1 := ⟨fuel - 1, by omega⟩
    cases d with
    | nil =>
      refine ⟨s.env, ?_, fun hne => hne.elim (fun hne => absurd rfl hne) id⟩
      unfold columnsT
      cases s
      simp_all [whileLoop, evalP_DictComp, truthy, Render.layout, Render.batchLines]
    | cons kc d' =>
      obtain ⟨k0, c0⟩ := kc
      obtain ⟨env1, he1, hr1⟩ := whileBodyT_eval w f0 h k0 c0 d' L hd hL hL0 hrn
      obtain ⟨pre, hpre⟩ := fill_suffix (wcOf w) MW d' (List.zipWith Render.joinSp RN c0)
      have hlen : (firstBlock w MW RN c0 d').2.length ≤ m := by
        have := congrArg List.length hpre
        simp only [List.length_append, List.length_cons] at this hdn
        unfold firstBlock
        omega
      obtain ⟨env2, he2, hr2⟩ := ih (firstBlock w MW RN c0 d').2
        { s with env := env1, dict := some (firstBlock w MW RN c0 d').2,
                 rows := s.rows ++ (if s.rows = [] then ['.'] else []) :: (firstBlock w MW RN c0 d').1 }
        f hlen (by omega) h rfl
        (by
          intro kc hkc
          refine hL kc (List.mem_cons_of_mem _ ?_)
          rw [hpre]
          exact List.mem_append_right _ hkc)
      obtain ⟨cc, hcc⟩ := layoutAux_fill (wcOf w) MW RN d' [c0] (List.zipWith Render.joinSp RN c0)
      refine ⟨env2, ?_, fun _ => ?_⟩
      · have hcond : (evalP w columnsT s).map (fun v => truthy v s) = some true := by
          unfold columnsT
          simp [evalP_DictComp, hd, truthy]
        simp only [whileLoop, hcond, Option.bind_some, if_true, he1]
        rw [he2]
        simp only [List.map_cons, Render.layout, hcc, Render.batchLines]
        have hne : s.rows ++ (if s.rows = [] then ['.'] else []) :: (firstBlock w MW RN c0 d').1 ≠ [] := by simp
        simp only [hne, if_false, firstBlock]
        by_cases hr : s.rows = []
        · simp [hr, batchLines_succ]
        · simp [hr, batchLines_succ]
      · exact hr2 (Or.inr hr1)

/-! ### the whole body -/

theorem mkColumn_length (wc : Char → Option Nat) (name label : Str) (cells : List Str) :
    (Render.mkColumn wc name label cells).length = cells.length + 3 := by
  simp [Render.mkColumn, Render.upad]

theorem rowNumbers_length (wc : Char → Option Nat) (n : Nat) : (Render.rowNumbers wc n).length = n + 3 := by
  simp [Render.rowNumbers, Render.upad]

/-- the text of a model rendering: the lines joined by newlines; `""` for a frame without columns. -/
def textOf : Option (List Str) → Str
  | Option.none => []
  | some lines => pyJoin ['\n'] lines

theorem footerT_eval {s : St} (h : s.args = A) : evalP w footerT s = some (.str (Render.footer nrow)) := by
  unfold footerT
  simp only [evalP_fstring, evalPs_cons, evalPs_nil, evalP_dots, evalP_format, nrow_eval w h, evalP_total, Option.bind_some,
    Option.map_some, intStr_nat]
  simp [Render.footer]

/-- **`DataFrame.to_string`, evaluated = the model** (`Render.dfToString`), for every frame (no column, no row, columns
    wider than the page), every `max_rows` (with `0 ≤` its effective value) / `max_width` / `truncate_width`, every
    cell-string input with `m ≤ n` strings per column, and every fuel `≥ number of columns + 1`. -/
theorem evalToString_eq (fuel : Nat) (hnd : (cols.map (·.name)).Nodup) (m : Nat) (hm : ∀ c ∈ cols, c.cells.length = m)
    (hmn : m ≤ Int.toNat (pmin nrow (effArg mr dR))) (h0 : 0 ≤ effArg mr dR) (hfuel : cols.length + 1 ≤ fuel) :
    evalToString w fuel A =
      some (textOf (Render.dfToString (wcOf w) cols nrow (Int.toNat (effArg mr dR)) MW)) := by
  have hself : truthOf w (initSt A) selfT = !cols.isEmpty := by
    unfold truthOf selfT
    rw [evalP_self, lookup_self (s := initSt A) rfl]; rfl
  have hcut : truthOf w (initSt A) cutTestT = decide (effArg mr dR < nrow) := by
    unfold truthOf cutTestT
    rw [evalP_Lt, maxRowsT_eval w (s := initSt A) rfl, nrow_eval w (s := initSt A) rfl]; rfl
  have hn : Int.toNat (pmin nrow (effArg mr dR)) = min nrow (Int.toNat (effArg mr dR)) := by
    unfold pmin; split <;> omega
  unfold evalToString
  rw [DataFrame_to_string_eq, hself, hcut]
  by_cases hc0 : cols = []
  · subst hc0
    simp [runOut, evalB_nil, evalP_empty, Render.dfToString, textOf]
  · have hne : cols.isEmpty = false := by simpa using hc0
    obtain ⟨env0, he0⟩ := eff0T_eval w fuel (s := initSt A) rfl rfl hnd
    obtain ⟨env1, he1, hr1⟩ := whileLoop_eval w fuel (m + 3) (by omega)
      (by rw [rowNumbers_length]; omega) cols.length (colsDict w cols)
      { initSt A with env := env0, dict := some (colsDict w cols) } fuel (by simp [colsDict]) hfuel rfl rfl
      (by
        intro kc hkc
        obtain ⟨c, hcm, rfl⟩ := List.mem_map.mp hkc
        simp only [mkColumn_length, hm c hcm])
    have hrows : ∀ dct rws, ({ args := A, env := env1, dict := dct, rows := rws } : St).lookup "rows_to_print" =
        some .rowsRef := by
      intro dct rws
      rw [lookup_local (s := { args := A, env := env1, dict := dct, rows := rws }) rfl _ (by simp)]
      exact hr1 (Or.inl (by simpa [colsDict] using hc0))
    have hE1 : evalS w fuel eff1T { initSt A with env := env0, dict := some (colsDict w cols) } =
        some (Ctl.normal, { args := A, env := env1, dict := some [], rows := Render.batchLines 0 (Render.layout (wcOf w) MW RN ((colsDict w cols).map (·.2))) }) := by
      unfold eff1T
      rw [evalS_stmt, evalS_while, he1]
      simp [initSt]
    have hmap : (colsDict w cols).map (·.2) = cols.map (fun c => Render.mkColumn (wcOf w) c.name c.label c.cells) := by
      simp [colsDict]
    have hft := fun dct rws => footerT_eval w (s := { args := A, env := env1, dict := dct, rows := rws }) rfl
    by_cases hc : effArg mr dR < nrow
    · have hc' : Int.toNat (effArg mr dR) < nrow := by omega
      simp only [hne, Bool.not_false, Bool.not_true, Bool.false_eq_true, if_false, hc, decide_true, if_true, runOut,
        evalB_cons, evalB_nil, he0, Option.bind_some, hE1]
      unfold eff2T eff3T retT rowsAfterT
      simp only [evalS_append, evalP_after, hrows, evalP_dot, Option.bind_some, hft, evalP_join, evalP_nl]
      simp [Render.dfToString, hne, textOf, hc', hmap, hn]
    · have hc' : ¬ Int.toNat (effArg mr dR) < nrow := by omega
      simp only [hne, Bool.not_false, Bool.not_true, Bool.false_eq_true, if_false, hc, decide_false, runOut,
        evalB_cons, evalB_nil, he0, Option.bind_some, hE1]
      unfold eff2T retT rowsAfterT
      simp only [evalS_append, evalP_after, hrows, evalP_dot, Option.bind_some, evalP_join, evalP_nl]
      simp [Render.dfToString, hne, textOf, hc', hmap, hn]

end loop

end DI.PyEvalRender

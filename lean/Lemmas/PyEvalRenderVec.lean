/-
  Lemmas/PyEvalRenderVec.lean — `Vector.to_string` and `ListOfDicts.to_string` evaluated (`Model/PyEvalRenderVec.lean`)
  are the model's renderings (`Model/Render.lean`: `addElem`, `vecRows`, `lodToString`).
-/
import Model.PyEvalRenderVec
import Lemmas.PyEvalRender
import Lemmas.RenderSpec

namespace DI.PyEvalRenderVec

open DI DI.Py DI.Gen
open DI.PyEvalRender (Str pyJoin pyIdx intStr callUlen callUlen_eq)
open DI.PyEvalWidth (wcOf)

/-! ### the terms of the regenerated bodies -/

def pwT : Term := Term.app "util.get_print_width" []
def lastT : Term := Term.app "getitem" [Term.sym "rows", Term.int (-1)]
def appendLastT : Term := Term.app ".append" [lastT, Term.sym "string"]
def joinedT : Term := Term.app ".join" [Term.sym "' '", Term.app "Add" [lastT, Term.app "list" [Term.sym "string"]]]
def shortT : Term := Term.app "LtE" [Term.app "len" [lastT], Term.int 1]
def fitsT : Term := Term.app "Lt" [Term.app "util.ulen" [Term.sym "row"], pwT]
def newRowT : Term := Term.app ".append" [Term.sym "rows", Term.app "list" [Term.sym "' '", Term.sym "string"]]
/-- the body of the local function `add_string_element(string, rows)`. -/
def addBodyT : Term :=
  Term.app "block" [
    Term.app "if" [shortT, Term.app "block" [Term.app "return" [appendLastT]], Term.app "block" []],
    Term.app "assign" [Term.sym "row", joinedT],
    Term.app "if" [fitsT, Term.app "block" [Term.app "return" [appendLastT]], Term.app "block" []],
    Term.app "return" [newRowT]]
def addDefT : Term :=
  Term.app "local-def" [Term.app "def" [Term.sym "add_string_element", Term.app "params" [Term.sym "string", Term.sym "rows"], addBodyT]]
/-- `[["["]]`: the object `rows`. -/
def rowsT : Term := Term.app "list" [Term.app "list" [Term.sym "'['"]]
/-- `add_string_element(a, rows)`. -/
def callT (a : Term) : Term := Term.app "call" [addDefT, a, rowsT]
/-- `max_elements` after `if max_elements is None: max_elements = dataiter.PRINT_MAX_ELEMENTS`. -/
def maxElT (isNone : Bool) : Term := if isNone then Term.sym "dataiter.PRINT_MAX_ELEMENTS" else Term.sym "max_elements"
def lengthT : Term := Term.app ".length" [Term.sym "self"]
def nT (isNone : Bool) : Term := Term.app "min" [lengthT, maxElT isNone]
def shownT (isNone : Bool) : Term :=
  Term.app ".to_strings" [Term.app "getitem" [Term.sym "self", Term.app "slice" [Term.sym "None", nT isNone]], Term.app "=pad" [Term.sym "True"]]
def loopT (isNone : Bool) : Term :=
  Term.app "for" [Term.sym "string", shownT isNone, Term.app "block" [callT (Term.sym "string")]]
def cutT (isNone : Bool) : Term := Term.app "Lt" [maxElT isNone, lengthT]
def dotsT : Term := callT (Term.sym "'...'")
def closeArgT : Term :=
  Term.app "fstring" [Term.sym "'] '", Term.app "format" [Term.app ".dtype_label" [Term.sym "self"], Term.sym "", Term.int (-1)]]
def closeT : Term := callT closeArgT
def row0T : Term := Term.app "getitem" [rowsT, Term.int 0]
def stripT : Term :=
  Term.app "store" [row0T, Term.app "ListComp" [Term.app ".strip" [Term.sym "x"], Term.app "in" [Term.sym "x", row0T, Term.app "if" []]]]
def retT : Term :=
  Term.app ".join" [Term.sym "'\\n'", Term.app "GeneratorExp" [Term.app ".join" [Term.sym "' '", Term.sym "x"],
    Term.app "in" [Term.sym "x", rowsT, Term.app "if" []]]]

theorem lenTestT_eq : lenTestT = Term.app "Eq" [Term.app "len" [rowsT], Term.int 1] := rfl

/-- the regenerated `Vector_to_string`, read as terms: the loop over the shown elements, the cut marker on the branch
    `max_elements < self.length`, the closing element, the strip on the branch `len(rows) == 1`, the joined rows. -/
theorem Vector_to_string_eq (truth : Term → Bool) (isNone : Bool) :
    Vector_to_string truth isNone =
      Out.ret ([loopT isNone] ++ (if truth (cutT isNone) then [dotsT] else []) ++ [closeT] ++
        (if truth lenTestT then [stripT] else [])) retT := by
  cases isNone
  · show Vector_to_string truth false = _
    unfold Vector_to_string
    by_cases h1 : truth (cutT false) <;> by_cases h2 : truth lenTestT
    all_goals
      simp only [cutT, maxElT, lengthT, lenTestT, Bool.false_eq_true, if_false] at h1 h2
      simp only [cutT, maxElT, lengthT, lenTestT, Bool.false_eq_true, if_false, h1, h2, if_true]
      rfl
  · show Vector_to_string truth true = _
    unfold Vector_to_string
    by_cases h1 : truth (cutT true) <;> by_cases h2 : truth lenTestT
    all_goals
      simp only [cutT, maxElT, lengthT, lenTestT, if_true] at h1 h2
      simp only [cutT, maxElT, lengthT, lenTestT, Bool.false_eq_true, if_false, h1, h2, if_true]
      rfl

/-! ### one-step unfoldings of the evaluator -/

section steps
variable {w : Char → Int} {s : St} {a b c e i t body it : Term} {x : String}

theorem evalP_int (k : Int) : evalP w (.int k) s = some (.int k) := rfl
theorem evalP_nl : evalP w (.sym "'\\n'") s = some (.str ['\n']) := rfl
theorem evalP_space : evalP w (.sym "' '") s = some (.str [' ']) := rfl
theorem evalP_bracket : evalP w (.sym "'['") s = some (.str ['[']) := rfl
theorem evalP_dots : evalP w (.sym "'...'") s = some (.str "...".toList) := rfl
theorem evalP_close : evalP w (.sym "'] '") s = some (.str "] ".toList) := rfl
theorem evalP_lodDots : evalP w (.sym "' ... '") s = some (.str " ... ".toList) := rfl
theorem evalP_lodTotal : evalP w (.sym "' items total'") s = some (.str " items total".toList) := rfl
theorem evalP_self : evalP w (.sym "self") s = s.lookup "self" := rfl
theorem evalP_string : evalP w (.sym "string") s = s.lookup "string" := rfl
theorem evalP_rows : evalP w (.sym "rows") s = s.lookup "rows" := rfl
theorem evalP_row : evalP w (.sym "row") s = s.lookup "row" := rfl
theorem evalP_x : evalP w (.sym "x") s = s.lookup "x" := rfl
theorem evalP_max_elements : evalP w (.sym "max_elements") s = s.lookup "max_elements" := rfl
theorem evalP_PME : evalP w (.sym "dataiter.PRINT_MAX_ELEMENTS") s = s.lookup "dataiter.PRINT_MAX_ELEMENTS" := rfl
theorem evalP_max_items : evalP w (.sym "max_items") s = s.lookup "max_items" := rfl
theorem evalP_PMI : evalP w (.sym "dataiter.PRINT_MAX_ITEMS") s = s.lookup "dataiter.PRINT_MAX_ITEMS" := rfl
theorem evalP_gpw : evalP w (.app "util.get_print_width" []) s = s.lookup "util.get_print_width()" := rfl
theorem evalP_min : evalP w (.app "min" [a, b]) s =
    (evalP w a s).bind fun va => (evalP w b s).bind fun vb => match va, vb with
      | .int p, .int q => some (.int (pmin p q)) | _, _ => Option.none := rfl
theorem evalP_length : evalP w (.app ".length" [e]) s =
    (evalP w e s).bind fun v => match v with | .vec n _ _ => some (.int n) | _ => Option.none := rfl
theorem evalP_dtype_label : evalP w (.app ".dtype_label" [e]) s =
    (evalP w e s).bind fun v => match v with | .vec _ l _ => some (.str l) | _ => Option.none := rfl
theorem evalP_to_strings : evalP w (.app ".to_strings" [.app "getitem" [c, .app "slice" [.sym "None", a]], .app "=pad" [.sym "True"]]) s =
    (evalP w c s).bind fun vc => (evalP w a s).bind fun vn => match vc, vn with
      | .vec _ _ fmt, .int k => some (.strs (fmt k)) | _, _ => Option.none := rfl
theorem evalP_to_json : evalP w (.app ".to_json" [.app ".head" [e, a]]) s =
    (evalP w e s).bind fun ve => (evalP w a s).bind fun vm => match ve, vm with
      | .lod _ json, .int k => some (.str (json k)) | _, _ => Option.none := rfl
theorem evalP_format : evalP w (.app "format" [e, .sym "", t]) s = (evalP w e s).bind strOf := rfl
theorem evalP_fstring (ps : List Term) : evalP w (.app "fstring" ps) s = (evalPs w ps s).map fun xs => .str xs.flatten := rfl
theorem evalP_rowsT (es : List Term) : evalP w (.app "list" [.app "list" es]) s = if s.rows.isSome then some .rowsRef else Option.none := rfl
theorem evalP_list1 : evalP w (.app "list" [.sym x]) s = (evalPs w [.sym x] s).map Val.strs := rfl
theorem evalP_list2 {y : String} : evalP w (.app "list" [.sym x, .sym y]) s = (evalPs w [.sym x, .sym y] s).map Val.strs := rfl
theorem evalPs_nil : evalPs w [] s = some [] := rfl
theorem evalPs_cons (ts : List Term) : evalPs w (t :: ts) s =
    (evalP w t s).bind fun v => match v with
      | .str x => (evalPs w ts s).map (fun xs => x :: xs) | _ => Option.none := rfl
theorem evalP_Add : evalP w (.app "Add" [a, b]) s =
    (evalP w a s).bind fun va => (evalP w b s).bind fun vb => match va, vb with
      | .str p, .str q => some (.str (p ++ q)) | .strs p, .strs q => some (.strs (p ++ q))
      | .int p, .int q => some (.int (p + q)) | _, _ => Option.none := rfl
theorem evalP_AddEq : evalP w (.app "Add=" [a, b]) s =
    (evalP w a s).bind fun va => (evalP w b s).bind fun vb => match va, vb with
      | .str p, .str q => some (.str (p ++ q)) | .int p, .int q => some (.int (p + q)) | _, _ => Option.none := rfl
theorem evalP_ulen : evalP w (.app "util.ulen" [e]) s =
    (evalP w e s).bind fun v => match v with | .str x => (callUlen w x).map Val.int | _ => Option.none := rfl
theorem evalP_getitem : evalP w (.app "getitem" [e, i]) s =
    (evalP w e s).bind fun ve => (evalP w i s).bind fun vi => match ve, vi, s.rows with
      | .strs xs, .int k, _ => (pyIdx xs.length k).bind fun j => xs[j]?.map Val.str
      | .rowsRef, .int k, some r => (pyIdx r.length k).bind fun j => r[j]?.map Val.strs
      | _, _, _ => Option.none := rfl
theorem evalP_len : evalP w (.app "len" [e]) s = (evalP w e s).bind fun v => match v, s.rows with
      | .strs xs, _ => some (.int xs.length)
      | .rowsRef, some r => some (.int r.length)
      | .lod n _, _ => some (.int n)
      | _, _ => Option.none := rfl
theorem evalP_strip : evalP w (.app ".strip" [e]) s =
    (evalP w e s).bind fun v => match v with | .str x => some (.str (pyStrip x)) | _ => Option.none := rfl
theorem evalP_join : evalP w (.app ".join" [a, e]) s =
    (evalP w a s).bind fun vs => (evalP w e s).bind fun ve => match vs, ve with
      | .str p, .strs xs => some (.str (pyJoin p xs))
      | _, _ => Option.none := rfl
theorem evalP_ListComp : evalP w (.app "ListComp" [body, .app "in" [.sym x, it, .app "if" []]]) s =
    (evalP w it s).bind fun vi => (iterOf s vi).bind fun vs =>
      (allStr (fun v => evalP w body (s.bind x v)) vs).map Val.strs := rfl
theorem evalP_GenExp : evalP w (.app "GeneratorExp" [body, .app "in" [.sym x, it, .app "if" []]]) s =
    (evalP w it s).bind fun vi => (iterOf s vi).bind fun vs =>
      (allStr (fun v => evalP w body (s.bind x v)) vs).map Val.strs := rfl
theorem evalP_Lt : evalP w (.app "Lt" [a, b]) s =
    (evalP w a s).bind fun va => (evalP w b s).bind fun vb => match va, vb with
      | .int p, .int q => some (.bool (decide (p < q))) | _, _ => Option.none := rfl
theorem evalP_LtE : evalP w (.app "LtE" [a, b]) s =
    (evalP w a s).bind fun va => (evalP w b s).bind fun vb => match va, vb with
      | .int p, .int q => some (.bool (decide (p ≤ q))) | _, _ => Option.none := rfl
theorem evalP_Eq : evalP w (.app "Eq" [a, b]) s =
    (evalP w a s).bind fun va => (evalP w b s).bind fun vb => match va, vb with
      | .int p, .int q => some (.bool (decide (p = q))) | _, _ => Option.none := rfl

theorem evalS_block (ss : List Term) : evalS w (.app "block" ss) s = evalB w ss s := rfl
theorem evalS_if : evalS w (.app "if" [c, a, b]) s =
    (evalP w c s).bind fun vc => if truthy vc s then evalS w a s else evalS w b s := rfl
theorem evalS_for : evalS w (.app "for" [.sym x, it, body]) s =
    (evalP w it s).bind fun vi => (iterOf s vi).bind fun vs => loopOver (evalS w body) x vs s := rfl
theorem evalS_assign : evalS w (.app "assign" [.sym x, e]) s = (evalP w e s).map fun v => (Ctl.normal, s.bind x v) := rfl
theorem evalS_return : evalS w (.app "return" [e]) s =
    (evalS w e s).bind fun r => match r.1 with | .normal => some (Ctl.ret, r.2) | .ret => Option.none := rfl
theorem evalS_call {f p q : String} : evalS w (.app "call" [.app "local-def" [.app "def" [.sym f, .app "params" [.sym p, .sym q], body]], a, b]) s =
    (evalArg w a s).bind fun ra => (evalArg w b ra.2).bind fun rb =>
      (evalS w body { rb.2 with env := [(q, rb.1), (p, ra.1)] }).map fun r => (Ctl.normal, { r.2 with env := s.env }) := rfl
theorem evalS_appendItem : evalS w (.app ".append" [.app "getitem" [t, i], e]) s =
    (evalP w t s).bind fun vt => (evalP w i s).bind fun vi => (evalP w e s).bind fun ve => match vt, vi, ve, s.rows with
      | .rowsRef, .int k, .str v, some r =>
        (pyIdx r.length k).map fun j => (Ctl.normal, { s with rows := some (r.set j (r.getD j [] ++ [v])) })
      | _, _, _, _ => Option.none := rfl
theorem evalS_append : evalS w (.app ".append" [.sym x, e]) s =
    (evalP w (.sym x) s).bind fun vt => (evalP w e s).bind fun ve => match vt, ve, s.rows with
      | .rowsRef, .strs xs, some r => some (Ctl.normal, { s with rows := some (r ++ [xs]) })
      | _, _, _ => Option.none := rfl
theorem evalS_store : evalS w (.app "store" [.app "getitem" [t, i], e]) s =
    (evalP w t s).bind fun vt => (evalP w i s).bind fun vi => (evalP w e s).bind fun ve => match vt, vi, ve, s.rows with
      | .rowsRef, .int k, .strs xs, some r =>
        (pyIdx r.length k).map fun j => (Ctl.normal, { s with rows := some (r.set j xs) })
      | _, _, _, _ => Option.none := rfl
theorem evalB_nil : evalB w [] s = some (Ctl.normal, s) := rfl
theorem evalB_cons (ts : List Term) : evalB w (t :: ts) s =
    (evalS w t s).bind fun r => match r.1 with | .normal => evalB w ts r.2 | .ret => some r := rfl

end steps

/-! ### list facts -/

theorem getElem?_snoc {α : Type} (pre : List α) (a : α) : (pre ++ [a])[pre.length]? = some a := by
  simp

theorem getD_snoc {α : Type} (pre : List α) (a d : α) : (pre ++ [a]).getD pre.length d = a := by
  simp [List.getD]

theorem set_snoc {α : Type} (pre : List α) (a x : α) : (pre ++ [a]).set pre.length x = pre ++ [x] := by
  induction pre with
  | nil => rfl
  | cons p ps ih => simp [ih]

theorem pyIdx_last (n : Nat) : pyIdx (n + 1) (-1) = some n := by
  unfold pyIdx
  have h1 : ¬ (0 : Int) ≤ -1 := by omega
  have h2 : (0 : Int) ≤ -1 + ((n + 1 : Nat) : Int) := by omega
  rw [if_neg h1, if_pos h2]
  congr 1
  omega

theorem pyIdx_zero (n : Nat) : pyIdx (n + 1) 0 = some 0 := by
  unfold pyIdx
  have h2 : (0 : Int) < ((n + 1 : Nat) : Int) := by omega
  rw [if_pos (Int.le_refl 0), if_pos h2]
  rfl

/-! ### the local function -/

section add
variable {w : Char → Int} {len : Int} {label : Str} {fmt : Int → List Str} {maxEl : Option Int} {dEl dW : Int}

local notation "A" => vecArgs len label fmt maxEl dEl dW

theorem lookup_gpw {s : St} (h : s.args = A) : s.lookup "util.get_print_width()" = some (.int dW) := by
  unfold St.lookup; rw [h]; rfl
theorem lookup_self {s : St} (h : s.args = A) : s.lookup "self" = some (.vec len label fmt) := by
  unfold St.lookup; rw [h]; rfl
theorem lookup_max_elements {s : St} (h : s.args = A) : s.lookup "max_elements" = some (optArg maxEl) := by
  unfold St.lookup; rw [h]; rfl
theorem lookup_PME {s : St} (h : s.args = A) : s.lookup "dataiter.PRINT_MAX_ELEMENTS" = some (.int dEl) := by
  unfold St.lookup; rw [h]; rfl
/-- a name that is not an argument is a local. -/
theorem lookup_local {s : St} (h : s.args = A) (x : String)
    (hx : (x != "self" && x != "max_elements" && x != "dataiter.PRINT_MAX_ELEMENTS" && x != "util.get_print_width()") = true) :
    s.lookup x = s.env.lookup x := by
  simp only [Bool.and_eq_true, bne_iff_ne, ne_eq] at hx
  obtain ⟨⟨⟨h1, h2⟩, h3⟩, h4⟩ := hx
  unfold St.lookup
  rw [h]
  have e1 : (x == "self") = false := by simpa using h1
  have e2 : (x == "max_elements") = false := by simpa using h2
  have e3 : (x == "dataiter.PRINT_MAX_ELEMENTS") = false := by simpa using h3
  have e4 : (x == "util.get_print_width()") = false := by simpa using h4
  simp only [vecArgs, List.lookup, e1, e2, e3, e4]

/-- `rows[-1].append(string)` -/
theorem appendLast_eval {c : St} {pre : List (List Str)} {last : List Str} {v : Str}
    (hr : c.rows = some (pre ++ [last])) (h1 : c.lookup "rows" = some .rowsRef) (h2 : c.lookup "string" = some (.str v)) :
    evalS w appendLastT c = some (Ctl.normal, { c with rows := some (pre ++ [last ++ [v]]) }) := by
  unfold appendLastT lastT
  rw [evalS_appendItem]
  simp only [evalP_rows, evalP_string, evalP_int, h1, h2, hr, Option.bind_some, List.length_append, List.length_singleton,
    pyIdx_last, Option.map_some, getD_snoc, set_snoc]

theorem lastT_eval {c : St} {pre : List (List Str)} {last : List Str}
    (hr : c.rows = some (pre ++ [last])) (h1 : c.lookup "rows" = some .rowsRef) :
    evalP w lastT c = some (.strs last) := by
  unfold lastT
  rw [evalP_getitem]
  simp only [evalP_rows, evalP_int, h1, hr, Option.bind_some, List.length_append, List.length_singleton, pyIdx_last,
    getElem?_snoc, Option.map_some]

/-- the body of `add_string_element` in a frame that binds `rows` to the object and `string` to `v`: the model's
    `Render.addElem` on the rows (the model keeps them reversed). -/
theorem addBody_eval {c : St} {rest : List (List Str)} {last : List Str} {v : Str}
    (hA : c.args = A) (hr : c.rows = some (rest.reverse ++ [last]))
    (henv : c.env = [("rows", .rowsRef), ("string", .str v)]) :
    ∃ env', evalS w addBodyT c =
      some (Ctl.ret, { c with env := env', rows := some (Render.addElem (wcOf w) dW.toNat (last :: rest) v).reverse }) := by
  have h1 : c.lookup "rows" = some .rowsRef := by rw [lookup_local hA _ (by decide), henv]; rfl
  have h2 : c.lookup "string" = some (.str v) := by rw [lookup_local hA _ (by decide), henv]; rfl
  have hlast := lastT_eval (w := w) hr h1
  unfold addBodyT
  rw [evalS_block, evalB_cons, evalS_if]
  have hshort : evalP w shortT c = some (.bool (decide (last.length ≤ 1))) := by
    unfold shortT
    rw [evalP_LtE, evalP_len, hlast]
    simp only [Option.bind_some, evalP_int]
    congr 2
    simp only [decide_eq_decide]
    omega
  rw [hshort]
  simp only [Option.bind_some, truthy]
  by_cases hs : last.length ≤ 1
  · simp only [hs, decide_true, if_true, evalS_block, evalB_cons, evalS_return, appendLast_eval (w := w) hr h1 h2,
      Option.bind_some]
    refine ⟨c.env, ?_⟩
    simp [Render.addElem, hs]
  · simp only [hs, decide_false, Bool.false_eq_true, if_false, evalS_block, evalB_nil, Option.bind_some]
    -- row = " ".join(rows[-1] + [string])
    have hj : evalP w joinedT c = some (.str (pyJoin [' '] (last ++ [v]))) := by
      unfold joinedT
      rw [evalP_join, evalP_Add, hlast, evalP_list1]
      simp only [evalP_space, evalPs_cons, evalPs_nil, evalP_string, h2, Option.bind_some, Option.map_some]
    rw [evalB_cons, evalS_assign, hj]
    simp only [Option.map_some, Option.bind_some]
    generalize hc' : c.bind "row" (.str (pyJoin [' '] (last ++ [v]))) = c'
    have hr' : c'.rows = some (rest.reverse ++ [last]) := by rw [← hc']; exact hr
    have hA' : c'.args = A := by rw [← hc']; exact hA
    have h1' : c'.lookup "rows" = some .rowsRef := by
      rw [lookup_local hA' _ (by decide), ← hc']; unfold St.bind; simp only [henv]; rfl
    have h2' : c'.lookup "string" = some (.str v) := by
      rw [lookup_local hA' _ (by decide), ← hc']; unfold St.bind; simp only [henv]; rfl
    have h3' : c'.lookup "row" = some (.str (pyJoin [' '] (last ++ [v]))) := by
      rw [lookup_local hA' _ (by decide), ← hc']; unfold St.bind; rfl
    have h4' : c'.lookup "util.get_print_width()" = some (.int dW) := lookup_gpw hA'
    have hfits : evalP w fitsT c' =
        some (.bool (decide (Render.ulen (wcOf w) (((last ++ [v]).intersperse [' ']).flatten) < dW.toNat))) := by
      unfold fitsT pwT
      rw [evalP_Lt, evalP_ulen, evalP_row, h3']
      simp only [Option.bind_some, callUlen_eq, Option.map_some, evalP_gpw, h4', pyJoin]
      congr 2
      simp only [decide_eq_decide]
      omega
    rw [evalB_cons, evalS_if, hfits]
    simp only [Option.bind_some, truthy]
    by_cases hf : Render.ulen (wcOf w) (((last ++ [v]).intersperse [' ']).flatten) < dW.toNat
    · simp only [hf, decide_true, if_true, evalS_block, evalB_cons, evalS_return, appendLast_eval (w := w) hr' h1' h2',
        Option.bind_some]
      refine ⟨c'.env, ?_⟩
      rw [← hc']
      simp [Render.addElem, hs, hf, St.bind]
    · simp only [hf, decide_false, Bool.false_eq_true, if_false, evalS_block, evalB_nil, Option.bind_some]
      have hnew : evalS w newRowT c' = some (Ctl.normal, { c' with rows := some (rest.reverse ++ [last] ++ [[[' '], v]]) }) := by
        unfold newRowT
        rw [evalS_append, evalP_rows, h1', evalP_list2]
        simp only [evalPs_cons, evalPs_nil, evalP_space, evalP_string, h2', hr', Option.bind_some, Option.map_some]
      rw [evalB_cons, evalS_return, hnew]
      simp only [Option.bind_some, evalB_nil]
      refine ⟨c'.env, ?_⟩
      rw [← hc']
      simp [Render.addElem, hs, hf, St.bind]

/-- the second test of the separately regenerated `add_string_element` (`Generated/CodeC20.lean:
    Vector_to_string_add_string_element`), where the closure variable `print_width` is a name. -/
def fitsSymT : Term := Term.app "Lt" [Term.app "util.ulen" [joinedT], Term.sym "print_width"]

theorem evalP_print_width {s : St} : evalP w (.sym "print_width") s = s.lookup "print_width" := rfl

/-- the two tests of the separately regenerated function, answered by the evaluator in a frame that binds the parameters
    and the closure variable `print_width`: the readings `Proofs/TieC20b.lean: RowsFaithful` asks for. -/
theorem standalone_tests {c : St} {rest : List (List Str)} {last : List Str} {v : Str}
    (hA : c.args = A) (hr : c.rows = some (rest.reverse ++ [last]))
    (henv : c.env = [("rows", .rowsRef), ("string", .str v), ("print_width", .int dW)]) :
    truthOf w c shortT = decide (last.length ≤ 1) ∧
    truthOf w c fitsSymT = decide (Render.ulen (wcOf w) (((last ++ [v]).intersperse [' ']).flatten) < dW.toNat) := by
  have h1 : c.lookup "rows" = some .rowsRef := by rw [lookup_local hA _ (by decide), henv]; rfl
  have h2 : c.lookup "string" = some (.str v) := by rw [lookup_local hA _ (by decide), henv]; rfl
  have h3 : c.lookup "print_width" = some (.int dW) := by rw [lookup_local hA _ (by decide), henv]; rfl
  have hlast := lastT_eval (w := w) hr h1
  refine ⟨?_, ?_⟩
  · unfold truthOf shortT
    rw [evalP_LtE, evalP_len, hlast]
    simp only [Option.bind_some, evalP_int, truthy]
    simp only [decide_eq_decide]
    omega
  · have hj : evalP w joinedT c = some (.str (pyJoin [' '] (last ++ [v]))) := by
      unfold joinedT
      rw [evalP_join, evalP_Add, hlast, evalP_list1]
      simp only [evalP_space, evalPs_cons, evalPs_nil, evalP_string, h2, Option.bind_some, Option.map_some]
    unfold truthOf fitsSymT
    rw [evalP_Lt, evalP_ulen, hj]
    simp only [Option.bind_some, callUlen_eq, Option.map_some, evalP_print_width, h3, pyJoin, truthy]
    simp only [decide_eq_decide]
    omega

/-- the content of the object `rows`: `[["["]]` as long as it has not been created. -/
def rowsOf (s : St) : List (List Str) := s.rows.getD [[['[']]]

theorem evalArg_rowsT (s : St) : evalArg w rowsT s = some (.rowsRef, { s with rows := some (rowsOf s) }) := by
  unfold rowsT rowsOf
  cases hs : s.rows with
  | none =>
    simp only [evalArg, hs, evalPs_cons, evalPs_nil, evalP_bracket, Option.bind_some, Option.map_some, Option.getD_none]
  | some R =>
    simp only [evalArg, hs, Option.getD_some]
    cases s
    simp_all

theorem evalArg_sym {s : St} (x : String) : evalArg w (.sym x) s = (evalP w (.sym x) s).map fun v => (v, s) := rfl
theorem evalArg_fstring {s : St} (ps : List Term) :
    evalArg w (.app "fstring" ps) s = (evalP w (.app "fstring" ps) s).map fun v => (v, s) := rfl

theorem addElem_cons (wc : Char → Option Nat) (pw : Nat) (last : List Str) (rest : List (List Str)) (v : Str) :
    ∃ l r, Render.addElem wc pw (last :: rest) v = l :: r := by
  by_cases h1 : last.length ≤ 1
  · exact ⟨last ++ [v], rest, by simp only [Render.addElem, h1, if_true]⟩
  · by_cases h2 : Render.ulen wc (((last ++ [v]).intersperse [' ']).flatten) < pw
    · exact ⟨last ++ [v], rest, by simp only [Render.addElem, h1, h2, if_true, if_false]⟩
    · exact ⟨[[' '], v], last :: rest, by simp only [Render.addElem, h1, h2, if_false]⟩

theorem foldl_addElem_cons (wc : Char → Option Nat) (pw : Nat) (xs : List Str) :
    ∀ (last : List Str) (rest : List (List Str)), ∃ l r, xs.foldl (Render.addElem wc pw) (last :: rest) = l :: r := by
  induction xs with
  | nil => intro last rest; exact ⟨_, _, rfl⟩
  | cons x xs ih =>
    intro last rest
    obtain ⟨l, r, h⟩ := addElem_cons wc pw last rest x
    rw [List.foldl_cons, h]
    exact ih l r

/-- **`add_string_element(a, rows)`** evaluated = `Render.addElem` (for every state of the rows with a last row). -/
theorem call_eval {s : St} {rest : List (List Str)} {last : List Str} {v : Str} {a : Term}
    (hA : s.args = A) (hr : rowsOf s = (last :: rest).reverse) (ha : evalArg w a s = some (.str v, s)) :
    evalS w (callT a) s =
      some (Ctl.normal, { s with rows := some (Render.addElem (wcOf w) dW.toNat (last :: rest) v).reverse }) := by
  unfold callT addDefT
  rw [evalS_call, ha]
  simp only [Option.bind_some, evalArg_rowsT]
  rw [List.reverse_cons] at hr
  obtain ⟨env', he⟩ := addBody_eval (w := w) (v := v) (rest := rest) (last := last)
    (c := { args := s.args, env := [("rows", .rowsRef), ("string", .str v)], rows := some (rowsOf s) }) hA (by rw [hr]) rfl
  rw [he]
  rfl

/-- the state after some effects: the arguments are untouched, the object `rows` holds `R` (model order: reversed). -/
structure After (s s' : St) (R : List (List Str)) : Prop where
  args : s'.args = s.args
  rows : rowsOf s' = R.reverse

/-- the loop `for string in …: add_string_element(string, rows)`. -/
theorem loop_eval (xs : List Str) : ∀ (s : St) (last : List Str) (rest : List (List Str)),
    s.args = A → rowsOf s = (last :: rest).reverse →
    ∃ s', loopOver (evalS w (Term.app "block" [callT (Term.sym "string")])) "string" (xs.map Val.str) s = some (Ctl.normal, s') ∧
      After s s' (xs.foldl (Render.addElem (wcOf w) dW.toNat) (last :: rest)) := by
  induction xs with
  | nil => intro s last rest hA hr; exact ⟨s, rfl, rfl, hr⟩
  | cons x xs ih =>
    intro s last rest hA hr
    have hA1 : (s.bind "string" (.str x)).args = A := hA
    have ha : evalArg w (Term.sym "string") (s.bind "string" (.str x)) = some (.str x, s.bind "string" (.str x)) := by
      rw [evalArg_sym, evalP_string, lookup_local hA1 _ (by decide)]
      rfl
    have hc := call_eval (w := w) (s := s.bind "string" (.str x)) hA1 hr ha
    obtain ⟨l, r, hlr⟩ := addElem_cons (wcOf w) dW.toNat last rest x
    rw [hlr] at hc
    obtain ⟨s', he, hA', hr'⟩ := ih { s.bind "string" (.str x) with rows := some (l :: r).reverse } l r hA rfl
    refine ⟨s', ?_, hA', ?_⟩
    · rw [List.map_cons, loopOver, evalS_block, evalB_cons, hc]
      simp only [Option.bind_some, evalB_nil]
      exact he
    · rw [List.foldl_cons, hlr]; exact hr'

theorem evalB_append (xs ys : List Term) : ∀ s : St, evalB w (xs ++ ys) s =
    (evalB w xs s).bind fun r => match r.1 with | .normal => evalB w ys r.2 | .ret => some r := by
  induction xs with
  | nil => intro s; rfl
  | cons t ts ih =>
    intro s
    rw [List.cons_append, evalB_cons, evalB_cons]
    cases h : evalS w t s with
    | none => rfl
    | some r =>
      simp only [Option.bind_some]
      cases hr : r.1 with
      | normal => simp only [ih]
      | ret => simp only [Option.bind_some, hr]

/-- `max_elements` after the `is None` step: `None` gives the module default; 0 is an ordinary value here. -/
def effEl : Option Int → Int → Int
  | Option.none, d => d
  | some m, _ => m

theorem maxElT_eval {s : St} (hA : s.args = A) : evalP w (maxElT maxEl.isNone) s = some (.int (effEl maxEl dEl)) := by
  cases maxEl with
  | none => simp only [Option.isNone_none, maxElT, if_true, evalP_PME, lookup_PME hA, effEl]
  | some m =>
    simp only [Option.isNone_some, maxElT, Bool.false_eq_true, if_false, evalP_max_elements, lookup_max_elements hA, effEl, optArg]

theorem lengthT_eval {s : St} (hA : s.args = A) : evalP w lengthT s = some (.int len) := by
  unfold lengthT
  simp only [evalP_length, evalP_self, lookup_self hA, Option.bind_some]

/-- `n = min(self.length, max_elements)` and the strings of `self[:n].to_strings(pad=True)`. -/
theorem shownT_eval {s : St} (hA : s.args = A) :
    evalP w (shownT maxEl.isNone) s = some (.strs (fmt (pmin len (effEl maxEl dEl)))) := by
  unfold shownT nT
  simp only [evalP_to_strings, evalP_self, lookup_self hA, evalP_min, lengthT_eval hA, maxElT_eval hA, Option.bind_some]

theorem cutT_eval {s : St} (hA : s.args = A) :
    truthOf w s (cutT maxEl.isNone) = decide (effEl maxEl dEl < len) := by
  unfold truthOf cutT
  simp only [evalP_Lt, lengthT_eval hA, maxElT_eval hA, Option.bind_some, truthy]

theorem closeArgT_eval {s : St} (hA : s.args = A) : evalP w closeArgT s = some (.str (']' :: ' ' :: label)) := by
  unfold closeArgT
  simp only [evalP_fstring, evalPs_cons, evalPs_nil, evalP_close, evalP_format, evalP_dtype_label, evalP_self,
    lookup_self hA, Option.bind_some, strOf, Option.map_some]
  simp

/-- the effects before `if len(rows) == 1`: the rows are the model's `Render.vecRows`. -/
theorem pre_eval (b : Bool) :
    ∃ s1, evalB w ([loopT maxEl.isNone] ++ (if b then [dotsT] else []) ++ [closeT]) (initSt A) = some (Ctl.normal, s1) ∧
      s1.args = A ∧
      s1.rows = some (Render.vecRows (wcOf w) dW.toNat (fmt (pmin len (effEl maxEl dEl))) b label) := by
  have hA0 : (initSt A).args = A := rfl
  -- the loop
  obtain ⟨sa, hea, hAa, hra⟩ := loop_eval (w := w) (fmt (pmin len (effEl maxEl dEl))) (initSt A) [['[']] [] hA0 rfl
  have hAa' : sa.args = A := hAa
  have hloop : evalS w (loopT maxEl.isNone) (initSt A) = some (Ctl.normal, sa) := by
    unfold loopT
    rw [evalS_for, shownT_eval hA0]
    simp only [Option.bind_some, iterOf]
    exact hea
  obtain ⟨l1, r1, h1⟩ := foldl_addElem_cons (wcOf w) dW.toNat (fmt (pmin len (effEl maxEl dEl))) [['[']] []
  rw [h1] at hra
  -- the cut marker
  have hdots : ∃ sb, evalB w (if b then [dotsT] else []) sa = some (Ctl.normal, sb) ∧ sb.args = A ∧
      ∃ l2 r2, rowsOf sb = (l2 :: r2).reverse ∧
        l2 :: r2 = (if b then ["...".toList] else []).foldl (Render.addElem (wcOf w) dW.toNat) (l1 :: r1) := by
    cases b with
    | false => exact ⟨sa, rfl, hAa', l1, r1, hra, rfl⟩
    | true =>
      have hc := call_eval (w := w) (s := sa) (a := Term.sym "'...'") (v := "...".toList) hAa' hra rfl
      obtain ⟨l2, r2, h2⟩ := addElem_cons (wcOf w) dW.toNat l1 r1 "...".toList
      rw [h2] at hc
      refine ⟨{ sa with rows := some (l2 :: r2).reverse }, ?_, hAa', l2, r2, rfl, ?_⟩
      · simp only [if_true, evalB_cons, dotsT, hc, Option.bind_some, evalB_nil]
      · rw [← h2]; rfl
  obtain ⟨sb, heb, hAb, l2, r2, hrb, h2⟩ := hdots
  -- the closing element
  have hclose := call_eval (w := w) (s := sb) (a := closeArgT) (v := ']' :: ' ' :: label) hAb hrb
    (by unfold closeArgT; rw [evalArg_fstring]; rw [← closeArgT, closeArgT_eval hAb]; rfl)
  refine ⟨{ sb with rows := some (Render.addElem (wcOf w) dW.toNat (l2 :: r2) (']' :: ' ' :: label)).reverse }, ?_, ?_, ?_⟩
  · rw [evalB_append, evalB_append, evalB_cons, hloop]
    simp only [Option.bind_some, evalB_nil, heb, evalB_cons, closeT, hclose]
  · exact hAb
  · show some _ = some _
    congr 1
    unfold Render.vecRows Render.vecTokens
    rw [List.foldl_append, List.foldl_append, h1, ← h2]
    rfl

theorem allStr_map {α β : Type} (f : β → Option Val) (g : α → β) (h : α → Str) (hf : ∀ a, f (g a) = some (.str (h a))) :
    ∀ l : List α, allStr f (l.map g) = some (l.map h) := by
  intro l
  induction l with
  | nil => rfl
  | cons a as ih => simp only [List.map_cons, allStr, hf, Option.bind_some, ih, Option.map_some]

theorem rowsT_eval {s : St} {R : List (List Str)} (hr : s.rows = some R) : evalP w rowsT s = some .rowsRef := by
  unfold rowsT
  rw [evalP_rowsT, hr]
  rfl

/-- `len(rows) == 1` in a state. -/
theorem lenTest_eval {s : St} {R : List (List Str)} (hr : s.rows = some R) :
    truthOf w s lenTestT = decide (R.length = 1) := by
  unfold truthOf
  rw [lenTestT_eq, evalP_Eq, evalP_len, rowsT_eval hr]
  simp only [hr, Option.bind_some, evalP_int, truthy]
  simp only [decide_eq_decide]
  omega

/-- `rows[0] = [x.strip() for x in rows[0]]` on a single row. -/
theorem stripT_eval {s : St} {r0 : List Str} (hA : s.args = A) (hr : s.rows = some [r0]) :
    evalS w stripT s = some (Ctl.normal, { s with rows := some [r0.map pyStrip] }) := by
  have h0 : evalP w row0T s = some (.strs r0) := by
    unfold row0T
    rw [evalP_getitem, rowsT_eval hr]
    simp only [evalP_int, hr, Option.bind_some, List.length_singleton]
    rfl
  have hx : ∀ y : Str, evalP w (Term.app ".strip" [Term.sym "x"]) (s.bind "x" (Val.str y)) = some (.str (pyStrip y)) := by
    intro y
    have hA1 : (s.bind "x" (.str y)).args = A := hA
    rw [evalP_strip, evalP_x, lookup_local hA1 _ (by decide)]
    rfl
  unfold stripT
  have e : row0T = Term.app "getitem" [rowsT, Term.int 0] := rfl
  rw [e, evalS_store, ← e, evalP_ListComp, h0]
  simp only [Option.bind_some, iterOf,
    allStr_map (fun v => evalP w (Term.app ".strip" [Term.sym "x"]) (s.bind "x" v)) Val.str pyStrip hx, Option.map_some]
  simp only [rowsT_eval hr, evalP_int, hr, Option.bind_some, List.length_singleton]
  rfl

/-- `"\n".join(" ".join(x) for x in rows)`. -/
theorem retT_eval {s : St} {R : List (List Str)} (hA : s.args = A) (hr : s.rows = some R) :
    evalP w retT s = some (.str (pyJoin ['\n'] (R.map (pyJoin [' '])))) := by
  have hx : ∀ y : List Str, evalP w (Term.app ".join" [Term.sym "' '", Term.sym "x"]) (s.bind "x" (Val.strs y)) =
      some (.str (pyJoin [' '] y)) := by
    intro y
    have hA1 : (s.bind "x" (.strs y)).args = A := hA
    rw [evalP_join, evalP_space, evalP_x, lookup_local hA1 _ (by decide)]
    rfl
  unfold retT
  rw [evalP_join, evalP_nl, evalP_GenExp, rowsT_eval hr]
  simp only [Option.bind_some, iterOf, hr, Option.map_some, allStr_map (fun v => evalP w (Term.app ".join" [Term.sym "' '", Term.sym "x"]) (s.bind "x" v)) Val.strs (pyJoin [' ']) hx]

end add

/-! ### the model's text -/

/-- the text of `Vector.to_string` from the model's rows: when everything fits on ONE row the cells are stripped (the
    padding of `to_strings(pad=True)` is dropped), then the cells of a row are joined by a space, the rows by a newline. -/
def rowsText (rows : List (List Str)) : Str :=
  pyJoin ['\n'] ((if rows.length = 1 then rows.map (fun r => r.map pyStrip) else rows).map (pyJoin [' ']))

def vecText (wc : Char → Option Nat) (pw : Nat) (elems : List Str) (cut : Bool) (label : Str) : Str :=
  rowsText (Render.vecRows wc pw elems cut label)

theorem isLenTest_cutT (b : Bool) : isLenTest (cutT b) = false := by cases b <;> rfl

/-- **`Vector.to_string`, evaluated = the model.** -/
theorem evalVecToString_eq (w : Char → Int) (len : Int) (label : Str) (fmt : Int → List Str) (maxEl : Option Int) (dEl dW : Int) :
    evalVecToString w len label fmt maxEl dEl dW =
      some (vecText (wcOf w) dW.toNat (fmt (pmin len (effEl maxEl dEl))) (decide (effEl maxEl dEl < len)) label) := by
  have hA0 : (initSt (vecArgs len label fmt maxEl dEl dW)).args = vecArgs len label fmt maxEl dEl dW := rfl
  obtain ⟨s1, he1, hA1, hr1⟩ := pre_eval (w := w) (len := len) (label := label) (fmt := fmt) (maxEl := maxEl) (dEl := dEl)
    (dW := dW) (decide (effEl maxEl dEl < len))
  have hcut : ∀ b, vecTruth w (initSt (vecArgs len label fmt maxEl dEl dW)) b (cutT maxEl.isNone) =
      decide (effEl maxEl dEl < len) := by
    intro b
    unfold vecTruth
    rw [isLenTest_cutT]
    exact cutT_eval hA0
  have hlen : ∀ b, vecTruth w (initSt (vecArgs len label fmt maxEl dEl dW)) b lenTestT = b := fun b => rfl
  unfold evalVecToString
  simp only [Vector_to_string_eq, hcut, hlen, Bool.false_eq_true, if_false, List.append_nil, runEffs, he1, Option.bind_some,
    runOut, lenTest_eval hr1]
  generalize hR : Render.vecRows (wcOf w) dW.toNat (fmt (pmin len (effEl maxEl dEl))) (decide (effEl maxEl dEl < len)) label = R
    at hr1
  by_cases h1 : R.length = 1
  · obtain ⟨r0, hr0⟩ : ∃ r0, R = [r0] := by
      match R, h1 with
      | [r0], _ => exact ⟨r0, rfl⟩
    subst hr0
    simp only [List.length_singleton, decide_true, if_true]
    rw [evalB_append, he1]
    simp only [Option.bind_some, evalB_cons, stripT_eval hA1 hr1, evalB_nil]
    rw [retT_eval (s := { s1 with rows := some [r0.map pyStrip] }) (R := [r0.map pyStrip]) hA1 rfl]
    simp only [vecText, rowsText, hR, List.length_singleton, if_true, List.map_cons, List.map_nil]
  · simp only [h1, decide_false, Bool.false_eq_true, if_false, List.append_nil, he1, Option.bind_some]
    rw [retT_eval hA1 hr1]
    simp only [vecText, rowsText, hR, h1, if_false]

/-! ### ListOfDicts.to_string -/

/-- what the regenerated `ListOfDicts.to_string` prints after the JSON text when items are cut. -/
def lodFooterI (len : Int) : Str := " ... ".toList ++ intStr len ++ " items total".toList

/-- **`ListOfDicts.to_string`, evaluated**: the JSON text of `self.head(max_items)` and, iff `max_items < len(self)`,
    the footer ` ... {len(self)} items total` appended to it (same line, no newline). -/
theorem evalLodToString_eq (w : Char → Int) (len : Int) (json : Int → Str) (maxItems : Option Int) (dItems : Int) :
    evalLodToString w len json maxItems dItems =
      some (if effEl maxItems dItems < len then json (effEl maxItems dItems) ++ lodFooterI len else json (effEl maxItems dItems)) := by
  have hself : ∀ s : St, s.args = lodArgs len json maxItems dItems → s.lookup "self" = some (.lod len json) := by
    intro s h; unfold St.lookup; rw [h]; rfl
  have hmi : ∀ s : St, s.args = lodArgs len json maxItems dItems → s.lookup "max_items" = some (optArg maxItems) := by
    intro s h; unfold St.lookup; rw [h]; rfl
  have hpmi : ∀ s : St, s.args = lodArgs len json maxItems dItems → s.lookup "dataiter.PRINT_MAX_ITEMS" = some (.int dItems) := by
    intro s h; unfold St.lookup; rw [h]; rfl
  have hA0 : (initSt (lodArgs len json maxItems dItems)).args = lodArgs len json maxItems dItems := rfl
  cases maxItems with
  | none =>
    unfold evalLodToString ListOfDicts_to_string
    simp only [Option.isNone_none, if_true, truthOf, evalP_Lt, evalP_PMI, hpmi _ hA0, evalP_len, evalP_self, hself _ hA0,
      Option.bind_some, truthy, effEl]
    by_cases h : dItems < len
    · simp only [h, decide_true, if_true, runOut, runEffs, evalB_nil, Option.bind_some, evalP_AddEq, evalP_to_json, evalP_self,
        hself _ hA0, evalP_PMI, hpmi _ hA0, evalP_fstring, evalPs_cons, evalPs_nil, evalP_lodDots, evalP_format, evalP_len,
        evalP_lodTotal, strOf, Option.map_some, lodFooterI]
      simp
    · simp only [h, decide_false, Bool.false_eq_true, if_false, runOut, runEffs, evalB_nil, Option.bind_some, evalP_to_json,
        evalP_self, hself _ hA0, evalP_PMI, hpmi _ hA0]
  | some m =>
    unfold evalLodToString ListOfDicts_to_string
    simp only [Option.isNone_some, Bool.false_eq_true, if_false, truthOf, evalP_Lt, evalP_max_items, hmi _ hA0, evalP_len,
      evalP_self, hself _ hA0, Option.bind_some, truthy, effEl, optArg]
    by_cases h : m < len
    · simp only [h, decide_true, if_true, runOut, runEffs, evalB_nil, Option.bind_some, evalP_AddEq, evalP_to_json, evalP_self,
        hself _ hA0, evalP_max_items, hmi _ hA0, optArg, evalP_fstring, evalPs_cons, evalPs_nil, evalP_lodDots, evalP_format,
        evalP_len, evalP_lodTotal, strOf, Option.map_some, lodFooterI]
      simp
    · simp only [h, decide_false, Bool.false_eq_true, if_false, runOut, runEffs, evalB_nil, Option.bind_some, evalP_to_json,
        evalP_self, hself _ hA0, evalP_max_items, hmi _ hA0, optArg]

theorem intStr_nonneg (n : Nat) : intStr (n : Int) = Render.natStr n := by
  unfold intStr Render.natStr
  have h : ¬ ((n : Int) < 0) := by omega
  rw [if_neg h]
  simp

/-! ### the library's inputs: slices of the unpadded element strings / of the items -/

/-- `xs[:n]` (a negative bound counts from the end). -/
def pySliceTo {α : Type} (xs : List α) (n : Int) : List α :=
  if n < 0 then xs.take (xs.length - n.natAbs) else xs.take n.toNat

/-- `self[:n].to_strings(pad=True)` for a vector whose elements print as `xs` (no truncation: `truncate_width=inf`). -/
def libFmt (wc : Char → Option Nat) (xs : List Str) (n : Int) : List Str := Render.toStrings wc none (pySliceTo xs n)

theorem pySliceTo_min {α : Type} (xs : List α) (m : Int) (hm : 0 ≤ m) :
    pySliceTo xs (pmin xs.length m) = xs.take m.toNat := by
  unfold pySliceTo pmin
  by_cases h : m < (xs.length : Int)
  · have h2 : ¬ m < 0 := by omega
    simp only [h, if_true, h2, if_false]
  · have h2 : ¬ ((xs.length : Int) < 0) := by omega
    simp only [h, if_false, h2]
    rw [List.take_of_length_le (by omega), List.take_of_length_le (by omega)]

theorem vecText_lib (wc : Char → Option Nat) (pw : Nat) (xs : List Str) (m : Int) (hm : 0 ≤ m) (label : Str) :
    vecText wc pw (libFmt wc xs (pmin xs.length m)) (decide (m < xs.length)) label =
      rowsText (Render.vecToRows wc pw xs m.toNat label) := by
  unfold vecText Render.vecToRows libFmt
  rw [pySliceTo_min xs m hm]
  congr 2
  simp only [decide_eq_decide]
  omega

theorem lodRender_eq {α : Type} (toJson : List α → Str) (items : List α) (m : Int) (hm : 0 ≤ m) :
    (if m < (items.length : Int) then toJson (pySliceTo items (pmin items.length m)) ++ lodFooterI items.length
      else toJson (pySliceTo items (pmin items.length m))) = Render.lodRender toJson items m.toNat := by
  unfold Render.lodRender Render.lodToString lodFooterI
  rw [pySliceTo_min items m hm, intStr_nonneg]
  have : (m < (items.length : Int)) ↔ (m.toNat < items.length) := by omega
  simp only [this, List.append_assoc]

end DI.PyEvalRenderVec

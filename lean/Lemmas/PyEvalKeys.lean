/-
  Lemmas/PyEvalKeys.lean — proofs about the evaluator of `Model/PyEvalKeys.lean` on the regenerated bodies of
  `DataFrame.drop_na`, `DataFrame.unique` and `DataFrame._get_join_indices`.

  Part 1  unfolding the evaluator; the store; the loop rule (a specification state threaded through the items).
  Part 2  list facts: `zip(*columns)` = the model's `rowsOf`; the NaN → None substitution is the identity on cells; the
          `|`-fold of `is_na` masks = the mask of `dropNaIdx`; the `seen` / `keep` scan = `uniqueScan`; the dict
          comprehension + `.get` = the "last equal key wins" lookup of `joinPos`; `np.where(src > -1)` = `foundOf`.
  Part 3  `drop_na` (`run_drop_na`).
  Part 4  `unique` (`run_unique`).
  Part 5  `_get_join_indices` (`run_join_indices`), first = last for distinct right keys.
  Statements for the properties are in `Proofs/EvalC02b.lean`, `Proofs/EvalC05b.lean`, `Proofs/EvalC04b.lean`.
-/
import Model.PyEvalKeys
import Lemmas.PyEvalFrame
import Lemmas.PyEvalFrameJoin
import Lemmas.Frame
import Lemmas.FrameMore
import Generated.CodeC02
import Generated.CodeC05

namespace DI.PyEvalKeys

open DI DI.Py
open DI.PyEval (Frame nrow ncol names colOf? colOf Rect normIdx allSome npTake Flow wholeRows)

/-! ## Part 1: the evaluator -/

/-! ### environments -/

theorem get?_cons_self (x : String) (v : KVal) (e : Env) : Env.get? ((x, v) :: e) x = some v := by
  simp [Env.get?]

theorem get?_cons_ne {x y : String} (v : KVal) (e : Env) (h : x ≠ y) : Env.get? ((x, v) :: e) y = Env.get? e y := by
  have : (x == y) = false := by simpa using h
  simp [Env.get?, this]

/-- `e` agrees with `e0` on every name outside the local variables `vars`. -/
def Stable (vars : List String) (e0 e : Env) : Prop := ∀ x, x ∉ vars → Env.get? e x = Env.get? e0 x

theorem Stable.refl (vars : List String) (e : Env) : Stable vars e e := fun _ _ => rfl

theorem Stable.push {vars : List String} {e0 e : Env} (h : Stable vars e0 e) {x : String} (hx : x ∈ vars) (v : KVal) :
    Stable vars e0 ((x, v) :: e) := by
  intro y hy
  have : x ≠ y := fun hxy => hy (hxy ▸ hx)
  rw [get?_cons_ne v e this]
  exact h y hy

/-! ### the store -/

theorem find_nil (t : Term) : Store.find [] t = none := rfl

theorem find_cons_self (t : Term) (v : KVal) (r : Store) : Store.find ((t, v) :: r) t = some v := by
  unfold Store.find
  simp

theorem find_cons_ne {k t : Term} (v : KVal) (r : Store) (h : k ≠ t) : Store.find ((k, v) :: r) t = Store.find r t := by
  rw [Store.find]
  simp [h]

/-- the current contents `v` of the object created by the term `t`, whose contents at creation are `v0`. -/
def Holds (st : Store) (t : Term) (v0 v : KVal) : Prop := st.find t = some v ∨ (st.find t = none ∧ v = v0)

theorem Holds.nil (t : Term) (v0 : KVal) : Holds [] t v0 v0 := Or.inr ⟨rfl, rfl⟩

theorem Holds.push_self (st : Store) (t : Term) (v0 v : KVal) : Holds ((t, v) :: st) t v0 v :=
  Or.inl (find_cons_self t v st)

theorem Holds.push_ne {st : Store} {t k : Term} {v0 v : KVal} (h : Holds st t v0 v) (w : KVal) (hk : k ≠ t) :
    Holds ((k, w) :: st) t v0 v := by
  unfold Holds
  rw [find_cons_ne w st hk]
  exact h

theorem Holds.getD {st : Store} {t : Term} {v0 v : KVal} (h : Holds st t v0 v) : (st.find t).getD v0 = v := by
  rcases h with h | ⟨h, rfl⟩ <;> simp [h]

/-! ### unfolding expressions -/

variable (cast : DT → DT → List Cell → List Cell)

/-- a name that is not one of the constants. -/
def PlainName (x : String) : Prop := x ≠ "True" ∧ x ≠ "False" ∧ x ≠ "None" ∧ x ≠ "int"

instance (x : String) : Decidable (PlainName x) := by unfold PlainName; infer_instance

theorem evalK_sym (st : Store) (env : Env) (x : String) (hx : PlainName x) :
    evalK cast st env (.sym x) = Env.get? env x := by
  obtain ⟨h1, h2, h3, h4⟩ := hx
  unfold evalK lookupSym
  split <;> simp_all

theorem eval_var {st : Store} {e0 e : Env} {vars : List String} {x : String} {v : KVal} (hs : Stable vars e0 e)
    (hv : x ∉ vars) (hx : PlainName x) (h : Env.get? e0 x = some v) : evalK cast st e (.sym x) = some v := by
  rw [evalK_sym cast st e x hx, hs x hv, h]

theorem eval_local {st : Store} {e : Env} {x : String} {v : KVal} (hx : PlainName x) (h : Env.get? e x = some v) :
    evalK cast st e (.sym x) = some v := by
  rw [evalK_sym cast st e x hx, h]

theorem evalK_int (st : Store) (env : Env) (i : Int) : evalK cast st env (.int i) = some (.int i) := by
  rw [evalK]

theorem evalArgsK_nil (st : Store) (env : Env) : evalArgsK cast st env [] = some [] := by rw [evalArgsK]

theorem evalArgsK_cons {st : Store} {env : Env} {t : Term} {ts : List Term} {v : KVal} {vs : List KVal}
    (h : evalK cast st env t = some v) (hs : evalArgsK cast st env ts = some vs) :
    evalArgsK cast st env (t :: ts) = some (v :: vs) := by
  rw [evalArgsK, h, hs]

theorem evalArgs1 {st : Store} {env : Env} {a : Term} {va : KVal} (ha : evalK cast st env a = some va) :
    evalArgsK cast st env [a] = some [va] := evalArgsK_cons cast ha (evalArgsK_nil cast st env)

theorem evalArgs2 {st : Store} {env : Env} {a b : Term} {va vb : KVal} (ha : evalK cast st env a = some va)
    (hb : evalK cast st env b = some vb) : evalArgsK cast st env [a, b] = some [va, vb] :=
  evalArgsK_cons cast ha (evalArgs1 cast hb)

theorem evalArgs3 {st : Store} {env : Env} {a b c : Term} {va vb vc : KVal} (ha : evalK cast st env a = some va)
    (hb : evalK cast st env b = some vb) (hc : evalK cast st env c = some vc) :
    evalArgsK cast st env [a, b, c] = some [va, vb, vc] := evalArgsK_cons cast ha (evalArgs2 cast hb hc)

/-- a name that is a call of `prim`: not the head of an object, not a special form. -/
def PlainPrim (f : String) : Prop := objHeads.contains f = false ∧ specialNames.contains f = false

instance (f : String) : Decidable (PlainPrim f) := by unfold PlainPrim; infer_instance

/-- an application that is not a stored object and not a special form: arguments, then `prim`. -/
theorem evalK_app (st : Store) (env : Env) (f : String) (args : List Term)
    (hst : (if objHeads.contains f then st.find (.app f args) else none) = none)
    (hf : specialNames.contains f = false) :
    evalK cast st env (.app f args) =
      (match evalArgsK cast st env args with | none => none | some vs => prim cast f vs) := by
  rw [evalK]
  simp only [hst, hf, Bool.false_eq_true, if_false]
  rfl

/-- a call of a primitive: the arguments are evaluated, left to right, and handed to `prim`. -/
theorem evalPrim {st : Store} {env : Env} {f : String} {args : List Term} {vs : List KVal} (hf : PlainPrim f)
    (h : evalArgsK cast st env args = some vs) : evalK cast st env (.app f args) = prim cast f vs := by
  rw [evalK_app cast st env f args (by rw [hf.1]; rfl) hf.2, h]

/-- a call of a primitive whose name is the head of objects (`set()`, `list`), for a term that was not written to. -/
theorem evalPrimObj {st : Store} {env : Env} {f : String} {args : List Term} {vs : List KVal}
    (hst : st.find (.app f args) = none) (hf : specialNames.contains f = false)
    (h : evalArgsK cast st env args = some vs) : evalK cast st env (.app f args) = prim cast f vs := by
  rw [evalK_app cast st env f args (by split <;> simp [hst]) hf, h]

/-- an object of the store. -/
theorem evalK_stored {st : Store} {env : Env} {f : String} {args : List Term} {v : KVal}
    (hf : objHeads.contains f = true) (hst : st.find (.app f args) = some v) :
    evalK cast st env (.app f args) = some v := by
  rw [evalK]
  simp only [hf, if_true, hst]

/-- the contents of an object: what the store holds, else what its defining term evaluates to. -/
theorem evalK_obj {st : Store} {env : Env} {f : String} {args : List Term} {v0 v : KVal}
    (hf : objHeads.contains f = true) (h : Holds st (.app f args) v0 v)
    (hfresh : st.find (.app f args) = none → evalK cast st env (.app f args) = some v0) :
    evalK cast st env (.app f args) = some v := by
  rcases h with h | ⟨h, rfl⟩
  · exact evalK_stored cast hf h
  · exact hfresh h

theorem evalK_fast (st : Store) (env : Env) (x : Term) (d : String) :
    evalK cast st env (.app "Vector.fast" [x, .sym d]) = evalK cast st env x := by
  rw [evalK]
  simp [objHeads, specialNames]

theorem evalK_listcomp (st : Store) (env : Env) (elem pat src : Term)
    (hst : st.find (.app "ListComp" [elem, .app "in" [pat, src, .app "if" []]]) = none) :
    evalK cast st env (.app "ListComp" [elem, .app "in" [pat, src, .app "if" []]]) =
      (match evalK cast st env src with
       | none => none
       | some s => match itemsOf s with
         | none => none
         | some xs =>
           (allSome (xs.map (fun x => match bindPat env pat x with
             | none => none
             | some env' => match evalK cast st env' elem with
               | some (.col d c) => some (d, c)
               | _ => none))).map KVal.cols) := by
  rw [evalK]
  simp only [hst]
  simp [objHeads, specialNames]
  rfl

theorem evalK_dictcomp (st : Store) (env : Env) (ke ve pat src : Term) :
    evalK cast st env (.app "DictComp" [.app "pair" [ke, ve], .app "in" [pat, src, .app "if" []]]) =
      (match evalK cast st env src with
       | none => none
       | some s => match itemsOf s with
         | none => none
         | some its =>
           (loop (fun d it => match bindPat env pat it with
             | none => none
             | some env' => match evalK cast st env' ke, evalK cast st env' ve with
               | some (.row k), some (.int v) => some (rdictInsert d k v)
               | _, _ => none) [] its).map KVal.rdict) := by
  rw [evalK]
  simp [objHeads, specialNames]
  rfl

theorem evalK_map (st : Store) (env : Env) (x : String) (body src : Term) :
    evalK cast st env (.app "map" [.app "lambda" [.app "params" [.sym x], body], src]) =
      (match evalK cast st env src with
       | none => none
       | some s => match itemsOf s with
         | none => none
         | some xs =>
           (allSome (xs.map (fun it => match evalK cast st ((x, it) :: env) body with
             | some (.int i) => some i
             | _ => none))).map KVal.ints) := by
  rw [evalK]
  simp [objHeads, specialNames]
  rfl

theorem evalK_value_after_loop (st : Store) (env : Env) (v : String) (lp : Term) :
    evalK cast st env (.app "value-after-loop" [.sym v, lp]) =
      (match execK cast st env [] lp with
       | none => none
       | some r => r.2.2.1.get? v) := by
  rw [evalK]
  simp [objHeads, specialNames]
  rfl

theorem evalK_or (st : Store) (env : Env) (args : List Term) :
    evalK cast st env (.app "Or" args) = evalOrK cast st env args := by
  rw [evalK]
  simp [objHeads, specialNames]

theorem evalK_and (st : Store) (env : Env) (args : List Term) :
    evalK cast st env (.app "And" args) = evalAndK cast st env args := by
  rw [evalK]
  simp [objHeads, specialNames]

theorem evalOrK_single (st : Store) (env : Env) (t : Term) : evalOrK cast st env [t] = evalK cast st env t := by
  rw [evalOrK]

theorem evalOrK_cons (st : Store) (env : Env) (t u : Term) (ts : List Term) :
    evalOrK cast st env (t :: u :: ts) =
      (match evalK cast st env t with
       | none => none
       | some v => match truthy v with
         | none => none
         | some true => some v
         | some false => evalOrK cast st env (u :: ts)) := by
  rw [evalOrK]
  · rfl
  · intro h; cases h

theorem evalAndK_single (st : Store) (env : Env) (t : Term) : evalAndK cast st env [t] = evalK cast st env t := by
  rw [evalAndK]

theorem evalAndK_cons (st : Store) (env : Env) (t u : Term) (ts : List Term) :
    evalAndK cast st env (t :: u :: ts) =
      (match evalK cast st env t with
       | none => none
       | some v => match truthy v with
         | none => none
         | some false => some v
         | some true => evalAndK cast st env (u :: ts)) := by
  rw [evalAndK]
  · rfl
  · intro h; cases h

/-- `a or b or c` of three Booleans. -/
theorem evalK_or3 {st : Store} {env : Env} {a b c : Term} {x y z : Bool} (ha : evalK cast st env a = some (.bool x))
    (hb : evalK cast st env b = some (.bool y)) (hc : evalK cast st env c = some (.bool z)) :
    evalK cast st env (.app "Or" [a, b, c]) = some (.bool (x || y || z)) := by
  rw [evalK_or, evalOrK_cons, ha]
  cases x
  · simp only [truthy]
    rw [evalOrK_cons, hb]
    cases y
    · simp only [truthy]
      rw [evalOrK_single, hc]; rfl
    · simp [truthy]
  · simp [truthy]

/-- `a and b` of two Booleans. -/
theorem evalK_and2 {st : Store} {env : Env} {a b : Term} {x y : Bool} (ha : evalK cast st env a = some (.bool x))
    (hb : x = true → evalK cast st env b = some (.bool y)) :
    evalK cast st env (.app "And" [a, b]) = some (.bool (x && y)) := by
  rw [evalK_and, evalAndK_cons, ha]
  cases x
  · simp [truthy]
  · simp only [truthy]
    rw [evalAndK_single, hb rfl]; rfl

/-- `a and b and c`. -/
theorem evalK_and3 {st : Store} {env : Env} {a b c : Term} {x y z : Bool} (ha : evalK cast st env a = some (.bool x))
    (hb : evalK cast st env b = some (.bool y)) (hc : evalK cast st env c = some (.bool z)) :
    evalK cast st env (.app "And" [a, b, c]) = some (.bool (x && y && z)) := by
  rw [evalK_and, evalAndK_cons, ha]
  cases x
  · simp [truthy]
  · simp only [truthy]
    rw [evalAndK_cons, hb]
    cases y
    · simp [truthy]
    · simp only [truthy]
      rw [evalAndK_single, hc]; rfl

/-! ### statements -/

theorem execK_yield_eq (st : Store) (env : Env) (out : Frame) (n c : Term) :
    execK cast st env out (.app "yield" [.app "tuple" [n, c]]) =
      (match evalK cast st env n, evalK cast st env c with
       | some (.str n), some (.col _ c) => some (.next, st, env, out ++ [(n, c)])
       | _, _ => none) := rfl

theorem execK_yield {st : Store} {env : Env} {out : Frame} {n c : Term} {vn : String} {d : DT} {vc : List Cell}
    (hn : evalK cast st env n = some (.str vn)) (hc : evalK cast st env c = some (.col d vc)) :
    execK cast st env out (.app "yield" [.app "tuple" [n, c]]) = some (.next, st, env, out ++ [(vn, vc)]) := by
  rw [execK_yield_eq, hn, hc]

theorem execK_assign_sym_eq (st : Store) (env : Env) (out : Frame) (x : String) (e : Term) :
    execK cast st env out (.app "assign" [.sym x, e]) =
      (match evalK cast st env e with
       | none => none
       | some v => match bindPat env (.sym x) v with
         | none => none
         | some env' => some (.next, st, env', out)) := rfl

/-- `x = e`. -/
theorem execK_assign {st : Store} {env : Env} {out : Frame} {x : String} {e : Term} {v : KVal}
    (he : evalK cast st env e = some v) :
    execK cast st env out (.app "assign" [.sym x, e]) = some (.next, st, (x, v) :: env, out) := by
  rw [execK_assign_sym_eq, he]; rfl

theorem execK_assign_pair_eq (st : Store) (env : Env) (out : Frame) (a b : String) (e : Term) :
    execK cast st env out (.app "assign" [.app "tuple" [.sym a, .sym b], e]) =
      (match evalK cast st env e with
       | none => none
       | some v => match bindPat env (.app "tuple" [.sym a, .sym b]) v with
         | none => none
         | some env' => some (.next, st, env', out)) := rfl

/-- `a, b = e`. -/
theorem execK_assign_pair {st : Store} {env : Env} {out : Frame} {a b : String} {e : Term} {va vb : KVal}
    (he : evalK cast st env e = some (.pair va vb)) :
    execK cast st env out (.app "assign" [.app "tuple" [.sym a, .sym b], e]) =
      some (.next, st, (b, vb) :: (a, va) :: env, out) := by
  rw [execK_assign_pair_eq, he]; rfl

theorem execK_if_eq (st : Store) (env : Env) (out : Frame) (c : Term) (a b : List Term) :
    execK cast st env out (.app "if" [c, .app "block" a, .app "block" b]) =
      (match evalK cast st env c with
       | some (.bool true) => blockK cast st env out a
       | some (.bool false) => blockK cast st env out b
       | _ => none) := rfl

theorem execK_if_true {st : Store} {env : Env} {out : Frame} {c : Term} {a b : List Term}
    (hc : evalK cast st env c = some (.bool true)) :
    execK cast st env out (.app "if" [c, .app "block" a, .app "block" b]) = blockK cast st env out a := by
  rw [execK_if_eq, hc]

theorem execK_if_false {st : Store} {env : Env} {out : Frame} {c : Term} {a b : List Term}
    (hc : evalK cast st env c = some (.bool false)) :
    execK cast st env out (.app "if" [c, .app "block" a, .app "block" b]) = blockK cast st env out b := by
  rw [execK_if_eq, hc]

theorem blockK_nil (st : Store) (env : Env) (out : Frame) : blockK cast st env out [] = some (.next, st, env, out) := rfl

theorem blockK_cons_eq (st : Store) (env : Env) (out : Frame) (s : Term) (ss : List Term) :
    blockK cast st env out (s :: ss) =
      (match execK cast st env out s with
       | none => none
       | some (.cont, st', env', out') => some (.cont, st', env', out')
       | some (.next, st', env', out') => blockK cast st' env' out' ss) := rfl

theorem blockK_cons_next {st st' : Store} {env env' : Env} {out out' : Frame} {s : Term} {ss : List Term}
    (h : execK cast st env out s = some (.next, st', env', out')) :
    blockK cast st env out (s :: ss) = blockK cast st' env' out' ss := by
  rw [blockK_cons_eq, h]

theorem blockK_single {st st' : Store} {env env' : Env} {out out' : Frame} {s : Term}
    (h : execK cast st env out s = some (.next, st', env', out')) :
    blockK cast st env out [s] = some (.next, st', env', out') := by
  rw [blockK_cons_next cast h, blockK_nil]

theorem execK_store_eq (st : Store) (env : Env) (out : Frame) (f : String) (args : List Term) (ie ve : Term) :
    execK cast st env out (.app "store" [.app "getitem" [.app f args, ie], ve]) =
      (if objHeads.contains f then
        match evalK cast st env (.app f args), evalK cast st env ie, evalK cast st env ve with
        | some (.cols l), some (.int k), some (.col d c) =>
          (match normIdx l.length k with
           | none => none
           | some n => some (.next, (.app f args, .cols (l.set n (d, c))) :: st, env, out))
        | _, _, _ => none
      else none) := rfl

/-- `obj[i] = v` on the list of columns created by the term `.app f args`. -/
theorem execK_store {st : Store} {env : Env} {out : Frame} {f : String} {args : List Term} {ie ve : Term}
    {l : List TCol} {k : Int} {n : Nat} {d : DT} {c : List Cell}
    (hf : objHeads.contains f = true) (ho : evalK cast st env (.app f args) = some (.cols l))
    (hi : evalK cast st env ie = some (.int k)) (hv : evalK cast st env ve = some (.col d c))
    (hn : normIdx l.length k = some n) :
    execK cast st env out (.app "store" [.app "getitem" [.app f args, ie], ve]) =
      some (.next, (.app f args, .cols (l.set n (d, c))) :: st, env, out) := by
  rw [execK_store_eq]
  simp only [hf, if_true, ho, hi, hv, hn]

theorem execK_add_eq (st : Store) (env : Env) (out : Frame) (f : String) (args : List Term) (e : Term) :
    execK cast st env out (.app ".add" [.app f args, e]) =
      (if objHeads.contains f then
        match evalK cast st env (.app f args), evalK cast st env e with
        | some (.rows l), some (.row r) => some (.next, (.app f args, .rows (r :: l)) :: st, env, out)
        | _, _ => none
      else none) := rfl

theorem execK_add {st : Store} {env : Env} {out : Frame} {f : String} {args : List Term} {e : Term}
    {l : List (List Cell)} {r : List Cell}
    (hf : objHeads.contains f = true) (ho : evalK cast st env (.app f args) = some (.rows l))
    (he : evalK cast st env e = some (.row r)) :
    execK cast st env out (.app ".add" [.app f args, e]) = some (.next, (.app f args, .rows (r :: l)) :: st, env, out) := by
  rw [execK_add_eq]
  simp only [hf, if_true, ho, he]

theorem execK_append_eq (st : Store) (env : Env) (out : Frame) (f : String) (args : List Term) (e : Term) :
    execK cast st env out (.app ".append" [.app f args, e]) =
      (if objHeads.contains f then
        match evalK cast st env (.app f args), evalK cast st env e with
        | some (.ints l), some (.int i) => some (.next, (.app f args, .ints (l ++ [i])) :: st, env, out)
        | _, _ => none
      else none) := rfl

theorem execK_append {st : Store} {env : Env} {out : Frame} {f : String} {args : List Term} {e : Term}
    {l : List Int} {i : Int}
    (hf : objHeads.contains f = true) (ho : evalK cast st env (.app f args) = some (.ints l))
    (he : evalK cast st env e = some (.int i)) :
    execK cast st env out (.app ".append" [.app f args, e]) =
      some (.next, (.app f args, .ints (l ++ [i])) :: st, env, out) := by
  rw [execK_append_eq]
  simp only [hf, if_true, ho, he]

/-! ### the loop rule -/

/-- one iteration of `for pat in …: body`. -/
def stepOf (pat : Term) (body : List Term) : Store × Env × Frame → KVal → Option (Store × Env × Frame) :=
  fun s it => match bindPat s.2.1 pat it with
    | none => none
    | some env' => match blockK cast s.1 env' s.2.2 body with
      | none => none
      | some r => some (r.2.1, r.2.2.1, r.2.2.2)

/-- the result of a `for` statement whose items are `its`, started in `(st, env, out)`. -/
def forResult (pat : Term) (body : List Term) (st : Store) (env : Env) (out : Frame) (its : Option (List KVal)) :
    Option (Flow × Store × Env × Frame) :=
  match its with
  | none => none
  | some its => match loop (stepOf cast pat body) (st, env, out) its with
    | none => none
    | some s => some (.next, s.1, s.2.1, s.2.2)

/-- the pairs a loop yields when iteration `a` in specification state `s` yields `y s a` and moves to `g s a`. -/
def foldOut {σ α : Type} (g : σ → α → σ) (y : σ → α → Frame) : σ → List α → Frame
  | _, [] => []
  | s, a :: t => y s a ++ foldOut g y (g s a) t

theorem foldOut_nil_out {σ α : Type} (g : σ → α → σ) (s : σ) (l : List α) :
    foldOut g (fun _ _ => ([] : Frame)) s l = [] := by
  induction l generalizing s with
  | nil => rfl
  | cons a t ih => simp [foldOut, ih]

theorem foldOut_stateless {α : Type} (y : α → Frame) (l : List α) :
    foldOut (fun (_ : Unit) _ => ()) (fun _ a => y a) () l = l.flatMap y := by
  induction l with
  | nil => rfl
  | cons a t ih => simp [foldOut, ih]

/-- **the loop rule**: if every iteration, in a store and environment satisfying the invariant for the specification
    state `s`, yields `y s a` and re-establishes the invariant for `g s a`, the loop ends in the state `l.foldl g s`
    having yielded `foldOut g y s l`. -/
theorem loop_spec {σ α : Type} (pat : Term) (body : List Term) (mk : α → KVal) (Inv : σ → Store → Env → Prop)
    (g : σ → α → σ) (y : σ → α → Frame) (l : List α)
    (hstep : ∀ s st env out a, a ∈ l → Inv s st env → ∃ env1, bindPat env pat (mk a) = some env1 ∧
      ∃ fl st2 env2, blockK cast st env1 out body = some (fl, st2, env2, out ++ y s a) ∧ Inv (g s a) st2 env2) :
    ∀ s st env out, Inv s st env →
      ∃ st' env', loop (stepOf cast pat body) (st, env, out) (l.map mk) = some (st', env', out ++ foldOut g y s l) ∧
        Inv (l.foldl g s) st' env' := by
  induction l with
  | nil => intro s st env out hinv; exact ⟨st, env, by simp [loop, foldOut], hinv⟩
  | cons a t ih =>
    intro s st env out hinv
    obtain ⟨env1, hb, fl, st2, env2, hx, hinv2⟩ := hstep s st env out a List.mem_cons_self hinv
    have hs : stepOf cast pat body (st, env, out) (mk a) = some (st2, env2, out ++ y s a) := by
      simp only [stepOf, hb, hx]
    obtain ⟨st', env', hl, hinv'⟩ :=
      ih (fun s st env out b hb => hstep s st env out b (List.mem_cons_of_mem _ hb)) (g s a) st2 env2 (out ++ y s a) hinv2
    exact ⟨st', env', by simp only [List.map_cons, loop, hs, hl, foldOut, List.append_assoc], hinv'⟩

theorem forResult_spec {σ α : Type} (pat : Term) (body : List Term) (mk : α → KVal) (Inv : σ → Store → Env → Prop)
    (g : σ → α → σ) (y : σ → α → Frame) (l : List α)
    (hstep : ∀ s st env out a, a ∈ l → Inv s st env → ∃ env1, bindPat env pat (mk a) = some env1 ∧
      ∃ fl st2 env2, blockK cast st env1 out body = some (fl, st2, env2, out ++ y s a) ∧ Inv (g s a) st2 env2)
    (s : σ) (st : Store) (env : Env) (out : Frame) (hinv : Inv s st env) :
    ∃ st' env', forResult cast pat body st env out (some (l.map mk)) = some (.next, st', env', out ++ foldOut g y s l) ∧
      Inv (l.foldl g s) st' env' := by
  obtain ⟨st', env', hl, hinv'⟩ := loop_spec cast pat body mk Inv g y l hstep s st env out hinv
  exact ⟨st', env', by simp only [forResult, hl], hinv'⟩

/-- a loop that yields nothing. -/
theorem forResult_state {σ α : Type} (pat : Term) (body : List Term) (mk : α → KVal) (Inv : σ → Store → Env → Prop)
    (g : σ → α → σ) (l : List α)
    (hstep : ∀ s st env out a, a ∈ l → Inv s st env → ∃ env1, bindPat env pat (mk a) = some env1 ∧
      ∃ fl st2 env2, blockK cast st env1 out body = some (fl, st2, env2, out) ∧ Inv (g s a) st2 env2)
    (s : σ) (st : Store) (env : Env) (out : Frame) (hinv : Inv s st env) :
    ∃ st' env', forResult cast pat body st env out (some (l.map mk)) = some (.next, st', env', out) ∧
      Inv (l.foldl g s) st' env' := by
  have := forResult_spec cast pat body mk Inv g (fun _ _ => []) l
    (fun s st env out a ha hi => by simpa using hstep s st env out a ha hi) s st env out hinv
  rw [foldOut_nil_out] at this
  simpa using this

/-- `for pat in x: body` over the value of a name. -/
theorem execK_for_sym (st : Store) (env : Env) (out : Frame) (pat : Term) (x : String) (body : List Term) :
    execK cast st env out (.app "for" [pat, .sym x, .app "block" body]) =
      forResult cast pat body st env out (match evalK cast st env (.sym x) with | some v => itemsOf v | none => none) :=
  rfl

theorem execK_for_items (st : Store) (env : Env) (out : Frame) (pat a : Term) (body : List Term) :
    execK cast st env out (.app "for" [pat, .app ".items" [a], .app "block" body]) =
      forResult cast pat body st env out
        (match evalK cast st env (.app ".items" [a]) with | some v => itemsOf v | none => none) := rfl

theorem execK_for_range (st : Store) (env : Env) (out : Frame) (pat a : Term) (body : List Term) :
    execK cast st env out (.app "for" [pat, .app "range" [a], .app "block" body]) =
      forResult cast pat body st env out
        (match evalK cast st env (.app "range" [a]) with | some v => itemsOf v | none => none) := rfl

theorem execK_for_enumerate (st : Store) (env : Env) (out : Frame) (pat e : Term) (body : List Term) :
    execK cast st env out (.app "for" [pat, .app "enumerate" [e], .app "block" body]) =
      forResult cast pat body st env out
        (match evalK cast st env e with | some v => (itemsOf v).map enumerate | none => none) := rfl

/-- `x = e; for pat in y: body` over the value of a name. -/
theorem execK_for_sym_init {st : Store} {env : Env} {out : Frame} {pat : Term} {y : String} {body : List Term}
    {x : String} {e : Term} {v : KVal} (he : evalK cast st env e = some v) :
    execK cast st env out (.app "for" [pat, .sym y, .app "block" body, .app "init" [.sym x, e]]) =
      forResult cast pat body st ((x, v) :: env) out
        (match evalK cast st ((x, v) :: env) (.sym y) with | some w => itemsOf w | none => none) := by
  have h : execK cast st env out (.app "for" [pat, .sym y, .app "block" body, .app "init" [.sym x, e]]) =
      (match (match evalK cast st env e with | some v => some ((x, v) :: env) | none => none : Option Env) with
       | none => none
       | some env0 => forResult cast pat body st env0 out
          (match evalK cast st env0 (.sym y) with | some w => itemsOf w | none => none)) := rfl
  rw [h, he]


theorem runRet_ret {env env' : Env} {st : Store} {effs : List Term} {t : Term} {out : Frame}
    (h : blockK cast [] env [] effs = some (.next, st, env', out)) :
    runRet cast env (.ret effs t) = evalK cast st env' t := by
  simp only [runRet, h]

theorem runBody_fall {env env' : Env} {st : Store} {effs : List Term} {out : Frame}
    (h : blockK cast [] env [] effs = some (.next, st, env', out)) : runBody cast env (.fall effs) = some out := by
  simp only [runBody, h]

/-! ## Part 2: list facts -/

/-- a pure loop whose step never fails is a fold. -/
theorem loop_total {σ α : Type} (step : σ → KVal → Option σ) (mk : α → KVal) (g : σ → α → σ) (l : List α)
    (h : ∀ s a, a ∈ l → step s (mk a) = some (g s a)) (s : σ) : loop step s (l.map mk) = some (l.foldl g s) := by
  induction l generalizing s with
  | nil => rfl
  | cons a t ih =>
    simp only [List.map_cons, loop, h s a List.mem_cons_self, List.foldl_cons]
    exact ih (fun s b hb => h s b (List.mem_cons_of_mem _ hb)) (g s a)

/-! ### `zip(*columns)` -/

theorem minLen_eq (cs : List (List Cell)) (n : Nat) (h : ∀ c ∈ cs, c.length = n) :
    cs.foldl (fun m x => min m x.length) n = n := by
  induction cs with
  | nil => rfl
  | cons c t ih =>
    rw [List.foldl_cons, h c List.mem_cons_self, Nat.min_self]
    exact ih (fun x hx => h x (List.mem_cons_of_mem _ hx))

/-- **`zip(*columns)` is the model's `rowsOf`** for columns of one length `n` (no column: only with no row). -/
theorem zipCols_eq_rowsOf (n : Nat) (cols : List (List Cell)) (hlen : ∀ c ∈ cols, c.length = n)
    (hne : cols = [] → n = 0) : zipCols cols = rowsOf n cols := by
  cases cols with
  | nil => rw [hne rfl]; rfl
  | cons c cs =>
    have hz : zipCols (c :: cs) = (List.range (cs.foldl (fun m x => min m x.length) c.length)).map
        (fun i => (c :: cs).map (fun x => x[i]!)) := rfl
    rw [hz, hlen c List.mem_cons_self, minLen_eq cs n (fun x hx => hlen x (List.mem_cons_of_mem _ hx))]
    rfl

/-! ### NaN / NaT → None -/

/-- **the substitution `np.where(column.is_na(), None, column)` is the identity on cells**: the missing value of every
    dtype is the one cell `none`. -/
theorem naToNone_id (c : List Cell) : naToNone (c.map isNa) c = c := by
  induction c with
  | nil => rfl
  | cons x t ih =>
    simp only [naToNone, List.map_cons, List.zipWith_cons_cons] at ih ⊢
    rw [ih]
    cases x <;> simp [isNa]

/-! ### the `|`-fold of `drop_na` -/

theorem getElem!_zipWith_or (a b : List Bool) (i : Nat) (ha : i < a.length) (hb : i < b.length) :
    (List.zipWith (· || ·) a b)[i]! = (a[i]! || b[i]!) := by
  have : i < (List.zipWith (· || ·) a b).length := by simp; omega
  rw [getElem!_pos _ i this, getElem!_pos a i ha, getElem!_pos b i hb]
  simp

/-- one step of the loop of `drop_na`: `drop = drop | column.is_na()`. -/
def orStep (acc : List Bool) (c : List Cell) : List Bool := List.zipWith (· || ·) acc (c.map isNa)

theorem foldl_or_masks (n : Nat) (cs : List (List Cell)) : ∀ acc : List Bool, acc.length = n →
    (∀ c ∈ cs, c.length = n) →
    cs.foldl orStep acc = (List.range n).map (fun i => acc[i]! || cs.any (fun c => isNa c[i]!)) := by
  induction cs with
  | nil =>
    intro acc hacc _
    apply List.ext_getElem
    · simp [hacc]
    · intro i h1 h2
      have hi : i < acc.length := by simpa using h1
      simp [hi]
  | cons c t ih =>
    intro acc hacc hcs
    have hc : c.length = n := hcs c List.mem_cons_self
    rw [List.foldl_cons, ih _ (by simp [orStep, hacc, hc]) (fun x hx => hcs x (List.mem_cons_of_mem _ hx))]
    apply List.map_congr_left
    intro i hi
    have hi' : i < n := List.mem_range.mp hi
    unfold orStep
    rw [getElem!_zipWith_or acc (c.map isNa) i (by omega) (by simp; omega)]
    have : (c.map isNa)[i]! = isNa c[i]! := by
      rw [getElem!_pos _ i (by simp; omega), getElem!_pos c i (by omega)]; simp
    rw [this]
    simp [List.any_cons, Bool.or_assoc]

/-- **the mask `drop_na` hands to `filter_out` is the mask of the model's `dropNaIdx`.** -/
theorem foldl_or_masks_false (n : Nat) (cs : List (List Cell)) (hcs : ∀ c ∈ cs, c.length = n) :
    cs.foldl orStep (List.replicate n false) = (List.range n).map (fun i => cs.any (fun c => isNa c[i]!)) := by
  rw [foldl_or_masks n cs _ (by simp) hcs]
  apply List.map_congr_left
  intro i hi
  have hi' : i < n := List.mem_range.mp hi
  have : i < (List.replicate n false).length := by simp [hi']
  rw [getElem!_pos _ i this]
  simp

theorem orStep_length (acc : List Bool) (c : List Cell) (h : c.length = acc.length) : (orStep acc c).length = acc.length := by
  simp [orStep, h]

theorem foldl_orStep_length (n : Nat) (cs : List (List Cell)) (hcs : ∀ c ∈ cs, c.length = n) :
    ∀ acc : List Bool, acc.length = n → (cs.foldl orStep acc).length = n := by
  induction cs with
  | nil => intro acc h; exact h
  | cons c t ih =>
    intro acc h
    rw [List.foldl_cons]
    apply ih (fun x hx => hcs x (List.mem_cons_of_mem _ hx))
    rw [orStep_length _ _ (by rw [hcs c List.mem_cons_self, h]), h]

/-! ### the `seen` / `keep` scan of `unique` -/

/-- one iteration of `for i in range(nrow): if rows[i] not in seen: seen.add(rows[i]); keep.append(i)`. -/
def scanStep (R : List (List Cell)) (s : List (List Cell) × List Nat) (i : Nat) : List (List Cell) × List Nat :=
  if s.1.contains R[i]! then s else (R[i]! :: s.1, s.2 ++ [i])

/-- membership by `==` does not depend on which (lawful) equality test is used: tuple equality is equality of cells. -/
theorem contains_inst_irrel {α : Type} (i1 i2 : BEq α) [@LawfulBEq α i1] [@LawfulBEq α i2] (l : List α) (a : α) :
    @List.contains α i1 l a = @List.contains α i2 l a := by
  rw [Bool.eq_iff_iff, @List.contains_iff_mem α i1, @List.contains_iff_mem α i2]

theorem scan_fold (R : List (List Cell)) : ∀ (m i : Nat) (seen : List (List Cell)) (keep : List Nat),
    i + m = R.length →
    ((List.range' i m).foldl (scanStep R) (seen, keep)).2 = keep ++ uniqueScan (R.drop i) i seen := by
  intro m
  induction m with
  | zero =>
    intro i seen keep h
    have : R.drop i = [] := List.drop_eq_nil_of_le (by omega)
    simp [this, uniqueScan]
  | succ m ih =>
    intro i seen keep h
    have hi : i < R.length := by omega
    have hd : R.drop i = R[i] :: R.drop (i + 1) := List.drop_eq_getElem_cons hi
    have hget : R[i]! = R[i] := getElem!_pos R i hi
    have hc : seen.contains R[i] = @List.contains _ instBEqOfDecidableEq seen R[i] := contains_inst_irrel _ _ _ _
    have hs : scanStep R (seen, keep) i =
        if @List.contains _ instBEqOfDecidableEq seen R[i] = true then (seen, keep) else (R[i] :: seen, keep ++ [i]) := by
      simp only [scanStep, hget, hc]
    have hu : uniqueScan (R[i] :: R.drop (i + 1)) i seen =
        if @List.contains _ instBEqOfDecidableEq seen R[i] = true then uniqueScan (R.drop (i + 1)) (i + 1) seen
        else i :: uniqueScan (R.drop (i + 1)) (i + 1) (R[i] :: seen) := rfl
    rw [List.range'_succ, List.foldl_cons, hd, hs, hu]
    by_cases hcon : @List.contains _ instBEqOfDecidableEq seen R[i] = true
    · rw [if_pos hcon, if_pos hcon]
      exact ih (i + 1) seen keep (by omega)
    · rw [if_neg hcon, if_neg hcon]
      rw [ih (i + 1) (R[i] :: seen) (keep ++ [i]) (by omega)]
      simp

/-- **the scan of `unique` computes the model's `uniqueScan`**: `keep` ends as the positions of the first occurrences. -/
theorem scan_range (R : List (List Cell)) :
    ((List.range R.length).foldl (scanStep R) ([], [])).2 = uniqueScan R 0 [] := by
  have := scan_fold R R.length 0 [] [] (by simp)
  rw [List.range_eq_range']
  simpa using this

/-! ### the dict of `_get_join_indices` -/

theorem find?_map_replace (t : List (List Cell × Int)) (k k' : List Cell) (v : Int) (h : k ≠ k') :
    ((t.map (fun q => if q.1 == k then (k, v) else q)).find? (fun q => q.1 == k')).map (·.2) =
      (t.find? (fun q => q.1 == k')).map (·.2) := by
  induction t with
  | nil => rfl
  | cons q r ih =>
    rw [List.map_cons]
    by_cases hq : q.1 = k
    · have h1 : (q.1 == k) = true := by simpa using hq
      rw [if_pos h1, List.find?_cons_of_neg (by simpa using h),
        List.find?_cons_of_neg (by rw [hq]; simpa using h)]
      exact ih
    · have h1 : ¬ ((q.1 == k) = true) := by simpa using hq
      rw [if_neg h1]
      by_cases hk : q.1 = k'
      · rw [List.find?_cons_of_pos (by simpa using hk), List.find?_cons_of_pos (by simpa using hk)]
      · rw [List.find?_cons_of_neg (by simpa using hk), List.find?_cons_of_neg (by simpa using hk)]
        exact ih

theorem rdictInsert_nil (k : List Cell) (v : Int) : rdictInsert [] k v = [(k, v)] := rfl

theorem rdictInsert_cons_eq (q : List Cell × Int) (t : List (List Cell × Int)) (k : List Cell) (v : Int)
    (h : q.1 = k) : rdictInsert (q :: t) k v = (k, v) :: t.map (fun q => if q.1 == k then (k, v) else q) := by
  have h1 : (q.1 == k) = true := by simpa using h
  unfold rdictInsert
  rw [List.any_cons, h1, Bool.true_or, if_pos rfl, List.map_cons, if_pos h1]

theorem rdictInsert_cons_ne (q : List Cell × Int) (t : List (List Cell × Int)) (k : List Cell) (v : Int)
    (h : q.1 ≠ k) : rdictInsert (q :: t) k v = q :: rdictInsert t k v := by
  have h1 : (q.1 == k) = false := by simpa using h
  have h2 : ¬ ((q.1 == k) = true) := by simp [h1]
  unfold rdictInsert
  rw [List.any_cons, h1, Bool.false_or, List.map_cons, if_neg h2]
  by_cases ha : t.any (fun q => q.1 == k) = true
  · rw [if_pos ha, if_pos ha]
  · rw [if_neg ha, if_neg ha]; rfl

theorem rdictGet_eq (d : List (List Cell × Int)) (k : List Cell) (dflt : Int) :
    rdictGet d k dflt = ((d.find? (fun q => q.1 == k)).map (·.2)).getD dflt := by
  unfold rdictGet
  cases d.find? (fun q => q.1 == k) <;> rfl

theorem find?_rdictInsert (d : List (List Cell × Int)) (k k' : List Cell) (v : Int) :
    ((rdictInsert d k v).find? (fun q => q.1 == k')).map (·.2) =
      if k = k' then some v else (d.find? (fun q => q.1 == k')).map (·.2) := by
  induction d with
  | nil =>
    rw [rdictInsert_nil]
    by_cases h : k = k'
    · rw [if_pos h, List.find?_cons_of_pos (by simpa using h)]; rfl
    · rw [if_neg h, List.find?_cons_of_neg (by simpa using h)]
  | cons q t ih =>
    by_cases hq : q.1 = k
    · rw [rdictInsert_cons_eq q t k v hq]
      by_cases h : k = k'
      · rw [if_pos h, List.find?_cons_of_pos (by simpa using h)]; rfl
      · rw [if_neg h, List.find?_cons_of_neg (by simpa using h), find?_map_replace t k k' v h,
          List.find?_cons_of_neg (by rw [hq]; simpa using h)]
    · rw [rdictInsert_cons_ne q t k v hq]
      by_cases hk' : q.1 = k'
      · have : k ≠ k' := fun e => hq (hk'.trans e.symm)
        rw [if_neg this, List.find?_cons_of_pos (by simpa using hk'), List.find?_cons_of_pos (by simpa using hk')]
      · rw [List.find?_cons_of_neg (by simpa using hk'), List.find?_cons_of_neg (by simpa using hk'), ih]

/-- `d[k] = v; d.get(k', dflt)`. -/
theorem rdictGet_insert (d : List (List Cell × Int)) (k k' : List Cell) (v dflt : Int) :
    rdictGet (rdictInsert d k v) k' dflt = if k = k' then v else rdictGet d k' dflt := by
  rw [rdictGet_eq, rdictGet_eq, find?_rdictInsert]
  by_cases h : k = k'
  · rw [if_pos h, if_pos h]; rfl
  · rw [if_neg h, if_neg h]

/-- **a dict built front to back is looked up back to front**: the LAST pair with an equal key wins. -/
theorem rdictGet_foldl (kvs : List (List Cell × Int)) (k' : List Cell) (dflt : Int) :
    ∀ d : List (List Cell × Int),
    rdictGet (kvs.foldl (fun d p => rdictInsert d p.1 p.2) d) k' dflt =
      (match kvs.reverse.find? (fun p => p.1 == k') with
       | some p => p.2
       | none => rdictGet d k' dflt) := by
  induction kvs with
  | nil => intro d; rfl
  | cons a t ih =>
    intro d
    rw [List.foldl_cons, ih, List.reverse_cons, List.find?_append]
    cases ht : t.reverse.find? (fun p => p.1 == k') with
    | some p => rfl
    | none =>
      rw [rdictGet_insert]
      by_cases h : a.1 = k'
      · have h1 : (a.1 == k') = true := by simpa using h
        simp [h]
      · have h1 : (a.1 == k') = false := by simpa using h
        simp [h, h1]

/-- the pairs `(other_ids[i], i)` for `i in range(nrow)`. -/
theorem range_pairs_eq_zipIdx (R : List (List Cell)) :
    (List.range R.length).map (fun k => (R[k]!, ((k : Nat) : Int))) = R.zipIdx.map (fun p => (p.1, ((p.2 : Nat) : Int))) := by
  apply List.ext_getElem
  · simp
  · intro i h1 h2
    have hi : i < R.length := by simpa using h1
    simp [hi]

/-- **`{other_ids[i]: i for i in range(nrow)}` + `.get(id, -1)` is the lookup of the model's `joinSrc`** (`joinPos`). -/
theorem dict_lookup_eq_joinPos (L R : List (List Cell)) :
    L.map (fun r => rdictGet (((List.range R.length).map (fun k => (R[k]!, ((k : Nat) : Int)))).foldl
      (fun d p => rdictInsert d p.1 p.2) []) r (-1)) = DI.PyEvalX.joinPos L R := by
  unfold DI.PyEvalX.joinPos
  apply List.map_congr_left
  intro r _
  rw [rdictGet_foldl, range_pairs_eq_zipIdx, ← List.map_reverse, List.find?_map]
  cases h : R.zipIdx.reverse.find? ((fun p => p.1 == r) ∘ fun p => (p.1, ((p.2 : Nat) : Int))) with
  | none =>
    have : R.zipIdx.reverse.find? (fun p => p.1 == r) = none := h
    rw [this]; rfl
  | some p =>
    have : R.zipIdx.reverse.find? (fun p => p.1 == r) = some p := h
    rw [this]; rfl

/-- **`np.where(src > -1)` is `foundOf src`.** -/
theorem nonzero_gt_eq_foundOf (src : List Int) :
    nonzero (src.map (fun x => decide (x > -1))) = DI.PyEvalX.foundOf src := by
  unfold nonzero DI.PyEvalX.foundOf
  rw [List.length_map]
  apply List.filter_congr
  intro i hi
  have hi' : i < src.length := List.mem_range.mp hi
  rw [getElem!_pos _ i (by simpa using hi'), getElem!_pos src i hi']
  simp


/-! ## Part 3: `drop_na` -/

/-- `Vector.fast([False], bool).repeat(self.nrow)`. -/
def dropInitT : Term :=
  .app ".repeat" [.app "Vector.fast" [.app "list" [.sym "False"], .sym "bool"], .app ".nrow" [.sym "self"]]

/-- `drop = <init>; for colname in colnames: drop = drop | self[colname].is_na()`. -/
def dropLoop : Term :=
  .app "for" [.sym "colname", .sym "colnames",
    .app "block" [.app "assign" [.sym "drop", .app "BitOr" [.sym "drop",
      .app ".is_na" [.app "getitem" [.sym "self", .sym "colname"]]]]],
    .app "init" [.sym "drop", dropInitT]]

/-- `self.filter_out(drop)`. -/
def dropRetT : Term := .app ".filter_out" [.sym "self", .app "value-after-loop" [.sym "drop", dropLoop]]

/-- **drop_na as written.** -/
theorem drop_na_body (truth : Term → Bool) : DI.Gen.DataFrame_drop_na truth = Out.ret [dropLoop] dropRetT := rfl

/-- a call `self.drop_na(*cols)`: every name a column of the (rectangular) receiver. -/
structure DropCtx (e0 : Env) (f : Frame) (dt : String → DT) (cols : List String) : Prop where
  hself : Env.get? e0 "self" = some (.frame f dt)
  hcols : Env.get? e0 "colnames" = some (.strs cols)
  hnames : ∀ c ∈ cols, c ∈ names f
  hrect : Rect f

def lvDrop : List String := ["colname", "drop"]

/-- the mask the loop of `drop_na` ends with. -/
def dropMask (self : Frame) (cols : List String) : List Bool :=
  (cols.map (colOf self)).foldl orStep (List.replicate (nrow self) false)

theorem dropMask_length {self : Frame} {cols : List String} (hnames : ∀ c ∈ cols, c ∈ names self) (hrect : Rect self) :
    (dropMask self cols).length = nrow self := by
  unfold dropMask
  apply foldl_orStep_length (nrow self)
  · intro c hc
    obtain ⟨x, hx, rfl⟩ := List.mem_map.mp hc
    exact DI.PyEval.colOf_length hrect (hnames x hx)
  · simp

theorem filterOutIdx_dropMask {self : Frame} {cols : List String} (hnames : ∀ c ∈ cols, c ∈ names self)
    (hrect : Rect self) : filterOutIdx (dropMask self cols) = dropNaIdx (nrow self) (cols.map (colOf self)) := by
  unfold dropMask dropNaIdx
  rw [foldl_or_masks_false]
  intro c hc
  obtain ⟨x, hx, rfl⟩ := List.mem_map.mp hc
  exact DI.PyEval.colOf_length hrect (hnames x hx)

section DropNa

variable {e0 : Env} {self : Frame} {dt : String → DT} {cols : List String} (h : DropCtx e0 self dt cols)

include h

theorem eval_dropInit {e : Env} (hs : Stable lvDrop e0 e) :
    evalK cast [] e dropInitT = some (.mask (List.replicate (nrow self) false)) := by
  have hself := eval_var cast (st := []) hs (x := "self") (by decide) (by decide) h.hself
  have hn : evalK cast [] e (.app ".nrow" [.sym "self"]) = some (.int (nrow self : Nat)) := by
    rw [evalPrim cast (by decide) (evalArgs1 cast hself)]; rfl
  have hf : evalK cast [] e (.sym "False") = some (.bool false) := rfl
  have hl : evalK cast [] e (.app "list" [.sym "False"]) = some (.mask [false]) := by
    rw [evalPrimObj cast (find_nil _) (by decide) (evalArgs1 cast hf)]; rfl
  have hv : evalK cast [] e (.app "Vector.fast" [.app "list" [.sym "False"], .sym "bool"]) = some (.mask [false]) := by
    rw [evalK_fast, hl]
  have hp : ∀ (m : List Bool) (n : Int), prim cast ".repeat" [KVal.mask m, KVal.int n] =
      if 0 ≤ n then some (.mask (m.flatMap (fun b => List.replicate n.toNat b))) else none := fun _ _ => rfl
  unfold dropInitT
  rw [evalPrim cast (by decide) (evalArgs2 cast hv hn), hp, if_pos (by omega)]
  simp

/-- the loop of `drop_na`: `drop` ends as the `|` of the `is_na` masks of the named columns. -/
theorem exec_dropLoop (env : Env) (out : Frame) (hs : Stable lvDrop e0 env) :
    ∃ env', execK cast [] env out dropLoop = some (.next, [], env', out) ∧ Stable lvDrop e0 env' ∧
      Env.get? env' "drop" = some (.mask (dropMask self cols)) := by
  unfold dropLoop
  rw [execK_for_sym_init cast (eval_dropInit cast h hs)]
  have hs1 : Stable lvDrop e0 (("drop", .mask (List.replicate (nrow self) false)) :: env) := hs.push (by decide) _
  rw [eval_var cast hs1 (x := "colnames") (by decide) (by decide) h.hcols]
  obtain ⟨st', env', hr, hinv⟩ := forResult_state cast (.sym "colname")
    [.app "assign" [.sym "drop", .app "BitOr" [.sym "drop", .app ".is_na" [.app "getitem" [.sym "self", .sym "colname"]]]]]
    KVal.str
    (fun (m : List Bool) st' env' => st' = [] ∧ Stable lvDrop e0 env' ∧ Env.get? env' "drop" = some (.mask m) ∧
      m.length = nrow self)
    (fun m c => orStep m (colOf self c)) cols
    (by
      intro m st1 env1 out1 a ha ⟨hst, hst1, hd, hm⟩
      subst hst
      refine ⟨("colname", .str a) :: env1, rfl, ?_⟩
      have hst2 : Stable lvDrop e0 (("colname", .str a) :: env1) := hst1.push (by decide) _
      have hself := eval_var cast (st := []) hst2 (x := "self") (by decide) (by decide) h.hself
      have hcn : evalK cast [] (("colname", .str a) :: env1) (.sym "colname") = some (.str a) :=
        eval_local cast (by decide) (get?_cons_self _ _ _)
      have hdr : evalK cast [] (("colname", .str a) :: env1) (.sym "drop") = some (.mask m) :=
        eval_local cast (by decide) (by rw [get?_cons_ne _ _ (by decide)]; exact hd)
      have hcol : evalK cast [] (("colname", .str a) :: env1) (.app "getitem" [.sym "self", .sym "colname"]) =
          some (.col (dt a) (colOf self a)) := by
        rw [evalPrim cast (by decide) (evalArgs2 cast hself hcn)]
        show (colOf? self a).map (KVal.col (dt a)) = _
        rw [DI.PyEval.colOf?_of_name (h.hnames a ha)]; rfl
      have hna : evalK cast [] (("colname", .str a) :: env1) (.app ".is_na" [.app "getitem" [.sym "self", .sym "colname"]]) =
          some (.mask ((colOf self a).map isNa)) := by
        rw [evalPrim cast (by decide) (evalArgs1 cast hcol)]; rfl
      have hlen : (colOf self a).length = nrow self := DI.PyEval.colOf_length h.hrect (h.hnames a ha)
      have hor : evalK cast [] (("colname", .str a) :: env1)
          (.app "BitOr" [.sym "drop", .app ".is_na" [.app "getitem" [.sym "self", .sym "colname"]]]) =
          some (.mask (orStep m (colOf self a))) := by
        rw [evalPrim cast (by decide) (evalArgs2 cast hdr hna)]
        show (if m.length = ((colOf self a).map isNa).length then _ else _) = _
        rw [if_pos (by simp [hm, hlen])]; rfl
      refine ⟨.next, [], ("drop", .mask (orStep m (colOf self a))) :: ("colname", .str a) :: env1, ?_, rfl,
        hst2.push (by decide) _, get?_cons_self _ _ _, ?_⟩
      · exact blockK_single cast (execK_assign cast hor)
      · rw [orStep_length _ _ (by rw [hlen, hm]), hm])
    (List.replicate (nrow self) false) [] _ out ⟨rfl, hs1, get?_cons_self _ _ _, by simp⟩
  obtain ⟨hst, hst', hd, _⟩ := hinv
  subst hst
  refine ⟨env', hr, hst', ?_⟩
  rw [hd, dropMask, List.foldl_map]

/-- **the regenerated body of `drop_na` evaluates to the receiver at the model's `dropNaIdx` rows.** -/
theorem run_drop_na :
    runRet cast e0 (Out.ret [dropLoop] dropRetT) =
      some (.frame (wholeRows self (dropNaIdx (nrow self) (cols.map (colOf self)))) dt) := by
  obtain ⟨env1, hr1, hs1, _⟩ := exec_dropLoop cast h e0 [] (Stable.refl _ _)
  obtain ⟨env2, hr2, _, hd2⟩ := exec_dropLoop cast h env1 [] hs1
  have hself := eval_var cast (st := []) hs1 (x := "self") (by decide) (by decide) h.hself
  have hval : evalK cast [] env1 (.app "value-after-loop" [.sym "drop", dropLoop]) = some (.mask (dropMask self cols)) := by
    rw [evalK_value_after_loop, hr2]; exact hd2
  rw [runRet_ret cast (blockK_single cast hr1)]
  unfold dropRetT
  rw [evalPrim cast (by decide) (evalArgs2 cast hself hval)]
  show (filterOutFrame self (dropMask self cols)).map (fun g => KVal.frame g dt) = _
  unfold filterOutFrame
  rw [if_pos (dropMask_length h.hnames h.hrect), filterOutIdx_dropMask h.hnames h.hrect]
  rfl

end DropNa


/-! ## Part 4: `unique` -/

/-- `colnames or self.colnames`. -/
def colnamesT : Term := .app "Or" [.sym "colnames", .app ".colnames" [.sym "self"]]

/-- `columns = [self[x] for x in colnames]` — the term that denotes the list object `columns`. -/
def columnsT : Term :=
  .app "ListComp" [.app "getitem" [.sym "self", .sym "x"], .app "in" [.sym "x", colnamesT, .app "if" []]]

/-- `np.where(column.is_na(), None, column)`. -/
def naNoneT : Term := .app "np.where" [.app ".is_na" [.sym "column"], .sym "None", .sym "column"]

/-- `column.is_datetime() or column.is_float() or column.is_timedelta()`. -/
def kindTestT : Term :=
  .app "Or" [.app ".is_datetime" [.sym "column"], .app ".is_float" [.sym "column"], .app ".is_timedelta" [.sym "column"]]

/-- the NaN / NaT → None loop. -/
def uniqEff0 : Term :=
  .app "for" [.app "tuple" [.sym "i", .sym "column"], .app "enumerate" [columnsT],
    .app "block" [.app "if" [kindTestT,
      .app "block" [.app "store" [.app "getitem" [columnsT, .sym "i"], naNoneT]], .app "block" []]]]

/-- `rows = list(zip(*columns))`. -/
def rowsT : Term := .app "list()" [.app "zip" [.app "*" [columnsT]]]
/-- `seen = set()`. -/
def seenT : Term := .app "set()" []
/-- `keep = []`. -/
def keepT : Term := .app "list" []

/-- the first-occurrence scan. -/
def uniqEff1 : Term :=
  .app "for" [.sym "i", .app "range" [.app ".nrow" [.sym "self"]],
    .app "block" [.app "if" [.app "NotIn" [.app "getitem" [rowsT, .sym "i"], seenT],
      .app "block" [.app ".add" [seenT, .app "getitem" [rowsT, .sym "i"]], .app ".append" [keepT, .sym "i"]],
      .app "block" []]]]

/-- `for colname, column in self.items(): yield colname, column[keep].copy()`. -/
def uniqEff2 : Term :=
  .app "for" [.app "tuple" [.sym "colname", .sym "column"], .app ".items" [.sym "self"],
    .app "block" [.app "yield" [.app "tuple" [.sym "colname",
      .app ".copy" [.app "getitem" [.sym "column", keepT]]]]]]

/-- **unique as written.** -/
theorem unique_body (truth : Term → Bool) : DI.Gen.DataFrame_unique truth = Out.fall [uniqEff0, uniqEff1, uniqEff2] := rfl

/-- a call `self.unique(*cols)`: every name a column of the (rectangular) receiver. -/
structure UniqCtx (e0 : Env) (f : Frame) (dt : String → DT) (cols : List String) : Prop where
  hself : Env.get? e0 "self" = some (.frame f dt)
  hcols : Env.get? e0 "colnames" = some (.strs cols)
  hnames : ∀ c ∈ cols, c ∈ names f
  hrect : Rect f

def lvU : List String := ["i", "column", "colname", "x"]

/-- the key names: `colnames or self.colnames`. -/
def keyNames (self : Frame) (cols : List String) : List String := if cols.isEmpty then names self else cols

theorem columnsT_ne_seenT : columnsT ≠ seenT := by
  intro h; injection h with h1 _; exact absurd h1 (by decide)
theorem columnsT_ne_keepT : columnsT ≠ keepT := by
  intro h; injection h with h1 _; exact absurd h1 (by decide)
theorem seenT_ne_keepT : seenT ≠ keepT := by
  intro h; injection h with h1 _; exact absurd h1 (by decide)

theorem enumerate_map {α : Type} (f : α → KVal) (l : List α) :
    enumerate (l.map f) = l.zipIdx.map (fun p => KVal.pair (.int (p.2 : Nat)) (f p.1)) := by
  unfold enumerate
  rw [List.zipIdx_map, List.map_map]
  rfl

section Unique

variable {e0 : Env} {self : Frame} {dt : String → DT} {cols : List String} (h : UniqCtx e0 self dt cols)

local notation "KN" => keyNames self cols
local notation "C0" => List.map (fun n => (dt n, colOf self n)) (keyNames self cols)
local notation "KC" => List.map (colOf self) (keyNames self cols)
local notation "RR" => rowsOf (nrow self) (List.map (colOf self) (keyNames self cols))

include h

omit cast in
theorem keyNames_mem : ∀ c ∈ KN, c ∈ names self := by
  intro c hc
  unfold keyNames at hc
  split at hc
  · exact hc
  · exact h.hnames c hc

omit cast in
theorem keyCols_length : ∀ c ∈ KC, c.length = nrow self := by
  intro c hc
  obtain ⟨x, hx, rfl⟩ := List.mem_map.mp hc
  exact DI.PyEval.colOf_length h.hrect (keyNames_mem h x hx)

omit cast h in
theorem keyCols_nil : KC = [] → nrow self = 0 := by
  intro hk
  have hkn : KN = [] := by simpa using hk
  unfold keyNames at hkn
  split at hkn
  · have : self = [] := by simpa [names] using hkn
    rw [this]; rfl
  · simp_all

omit cast in
theorem zip_keyCols : zipCols KC = RR := zipCols_eq_rowsOf _ _ (keyCols_length h) keyCols_nil

theorem eval_colnamesT {st : Store} {e : Env} (hs : Stable lvU e0 e) : evalK cast st e colnamesT = some (.strs KN) := by
  have hc := eval_var cast (st := st) hs (x := "colnames") (by decide) (by decide) h.hcols
  have hself := eval_var cast (st := st) hs (x := "self") (by decide) (by decide) h.hself
  unfold colnamesT
  rw [evalK_or, evalOrK_cons, hc]
  unfold keyNames
  cases hce : cols.isEmpty
  · simp [truthy, hce]
  · simp only [truthy, hce, Bool.not_true]
    rw [evalOrK_single, evalPrim cast (by decide) (evalArgs1 cast hself)]
    rfl

/-- the list `columns` as created: the key columns with their dtypes. -/
theorem eval_columns_fresh {st : Store} {e : Env} (hs : Stable lvU e0 e) (hst : st.find columnsT = none) :
    evalK cast st e columnsT = some (.cols C0) := by
  unfold columnsT at hst ⊢
  rw [evalK_listcomp cast st e _ _ _ hst, eval_colnamesT cast h hs]
  simp only [itemsOf, List.map_map]
  rw [DI.PyEval.allSome_map _ (fun n => (dt n, colOf self n))]
  · rfl
  · intro n hn
    have hs1 : Stable lvU e0 (("x", .str n) :: e) := hs.push (by decide) _
    have hself := eval_var cast (st := st) hs1 (x := "self") (by decide) (by decide) h.hself
    have hx : evalK cast st (("x", .str n) :: e) (.sym "x") = some (.str n) :=
      eval_local cast (by decide) (get?_cons_self _ _ _)
    show (match bindPat e (.sym "x") (KVal.str n) with
      | none => none
      | some env' => match evalK cast st env' (.app "getitem" [.sym "self", .sym "x"]) with
        | some (.col d c) => some (d, c)
        | _ => none) = _
    simp only [bindPat]
    rw [evalPrim cast (by decide) (evalArgs2 cast hself hx)]
    show (match (colOf? self n).map (KVal.col (dt n)) with
        | some (.col d c) => some (d, c)
        | _ => none) = _
    rw [DI.PyEval.colOf?_of_name (keyNames_mem h n hn)]
    rfl

/-- the contents of `columns`: possibly re-tagged, the CELLS are the key columns'. -/
def ColsInv (self : Frame) (dt : String → DT) (cols : List String) (st : Store) : Prop :=
  ∃ cs : List TCol, Holds st columnsT (.cols ((keyNames self cols).map (fun n => (dt n, colOf self n)))) (.cols cs) ∧
    cs.map (·.2) = (keyNames self cols).map (colOf self)

omit cast h in
theorem ColsInv.nil : ColsInv self dt cols [] := ⟨_, Holds.nil _ _, by simp [List.map_map, Function.comp_def]⟩

omit cast h in
theorem ColsInv.push_ne {st : Store} (hc : ColsInv self dt cols st) {k : Term} (w : KVal) (hk : k ≠ columnsT) :
    ColsInv self dt cols ((k, w) :: st) := by
  obtain ⟨cs, h1, h2⟩ := hc
  exact ⟨cs, h1.push_ne w hk, h2⟩

theorem eval_columns {st : Store} {e : Env} (hs : Stable lvU e0 e) {cs : List TCol}
    (hc : Holds st columnsT (.cols C0) (.cols cs)) : evalK cast st e columnsT = some (.cols cs) :=
  evalK_obj cast (f := "ListComp") (by decide) hc (fun hn => eval_columns_fresh cast h hs hn)

/-- `rows = list(zip(*columns))` is the model's `rowsOf` of the key columns. -/
theorem eval_rows {st : Store} {e : Env} (hs : Stable lvU e0 e) (hc : ColsInv self dt cols st) :
    evalK cast st e rowsT = some (.rows RR) := by
  obtain ⟨cs, h1, h2⟩ := hc
  have hcol := eval_columns cast h hs h1
  have hstar : evalK cast st e (.app "*" [columnsT]) = some (.star (.cols cs)) := by
    rw [evalPrim cast (by decide) (evalArgs1 cast hcol)]; rfl
  have hzip : evalK cast st e (.app "zip" [.app "*" [columnsT]]) = some (.rows RR) := by
    rw [evalPrim cast (by decide) (evalArgs1 cast hstar)]
    show some (KVal.rows (zipCols (cs.map (·.2)))) = _
    rw [h2, zip_keyCols h]
  unfold rowsT
  rw [evalPrim cast (by decide) (evalArgs1 cast hzip)]; rfl

/-- **the NaN / NaT → None loop leaves the cells of `columns` as they are.** -/
theorem exec_uniqEff0 (env : Env) (out : Frame) (hs : Stable lvU e0 env) :
    ∃ st' env', execK cast [] env out uniqEff0 = some (.next, st', env', out) ∧ Stable lvU e0 env' ∧
      ColsInv self dt cols st' ∧ st'.find seenT = none ∧ st'.find keepT = none := by
  unfold uniqEff0
  rw [execK_for_enumerate, eval_columns cast h hs (Holds.nil _ _)]
  simp only [itemsOf, Option.map_some]
  rw [enumerate_map]
  obtain ⟨st', env', hr, hinv⟩ := forResult_state cast (.app "tuple" [.sym "i", .sym "column"])
    [.app "if" [kindTestT, .app "block" [.app "store" [.app "getitem" [columnsT, .sym "i"], naNoneT]], .app "block" []]]
    (fun (p : TCol × Nat) => KVal.pair (.int (p.2 : Nat)) (KVal.col p.1.1 p.1.2))
    (fun (_ : Unit) st' env' => Stable lvU e0 env' ∧ ColsInv self dt cols st' ∧ st'.find seenT = none ∧
      st'.find keepT = none)
    (fun _ _ => ()) (C0).zipIdx
    (by
      intro _ st1 env1 out1 a ha ⟨hst1, ⟨cs, hc1, hc2⟩, hseen, hkeep⟩
      obtain ⟨⟨d, c⟩, k⟩ := a
      have hget : (C0)[k]? = some (d, c) := List.mem_zipIdx_iff_getElem?.mp ha
      have hk : k < (KN).length := by
        have := (List.getElem?_eq_some_iff.mp hget).1
        simpa using this
      have hcell : c = (KC)[k]'(by simpa using hk) := by
        obtain ⟨hk', he⟩ := List.getElem?_eq_some_iff.mp hget
        simp only [List.getElem_map] at he ⊢
        exact (congrArg Prod.snd he).symm
      refine ⟨("column", .col d c) :: ("i", .int (k : Nat)) :: env1, rfl, ?_⟩
      have hst2 : Stable lvU e0 (("column", .col d c) :: ("i", .int (k : Nat)) :: env1) :=
        (hst1.push (by decide) _).push (by decide) _
      have hcolv : evalK cast st1 (("column", .col d c) :: ("i", .int (k : Nat)) :: env1) (.sym "column") =
          some (.col d c) := eval_local cast (by decide) (get?_cons_self _ _ _)
      have hiv : evalK cast st1 (("column", .col d c) :: ("i", .int (k : Nat)) :: env1) (.sym "i") =
          some (.int (k : Nat)) :=
        eval_local cast (by decide) (by rw [get?_cons_ne _ _ (by decide)]; exact get?_cons_self _ _ _)
      have ht : evalK cast st1 (("column", .col d c) :: ("i", .int (k : Nat)) :: env1) kindTestT =
          some (.bool (d.kind == .datetime || d.kind == .float || d.kind == .timedelta)) := by
        unfold kindTestT
        apply evalK_or3 cast
        · rw [evalPrim cast (by decide) (evalArgs1 cast hcolv)]; rfl
        · rw [evalPrim cast (by decide) (evalArgs1 cast hcolv)]; rfl
        · rw [evalPrim cast (by decide) (evalArgs1 cast hcolv)]; rfl
      cases htest : (d.kind == .datetime || d.kind == .float || d.kind == .timedelta)
      · -- not a float / datetime / timedelta column: nothing happens
        rw [htest] at ht
        refine ⟨.next, st1, _, ?_, hst2, ⟨cs, hc1, hc2⟩, hseen, hkeep⟩
        rw [blockK_single cast (s := .app "if" [kindTestT, _, _])]
        rw [execK_if_false cast ht]
        exact blockK_nil cast _ _ _
      · rw [htest] at ht
        have hna : evalK cast st1 (("column", .col d c) :: ("i", .int (k : Nat)) :: env1)
            (.app ".is_na" [.sym "column"]) = some (.mask (c.map isNa)) := by
          rw [evalPrim cast (by decide) (evalArgs1 cast hcolv)]; rfl
        have hnone : evalK cast st1 (("column", .col d c) :: ("i", .int (k : Nat)) :: env1) (.sym "None") =
            some .none := rfl
        have hwhere : evalK cast st1 (("column", .col d c) :: ("i", .int (k : Nat)) :: env1) naNoneT =
            some (.col DT.object c) := by
          unfold naNoneT
          rw [evalPrim cast (by decide) (evalArgs3 cast hna hnone hcolv)]
          show (if (c.map isNa).length = c.length then some (KVal.col DT.object (naToNone (c.map isNa) c)) else none) = _
          rw [if_pos (by simp), naToNone_id]
        have hcsl : cs.length = (KN).length := by
          have := congrArg List.length hc2
          simpa using this
        have hcur := eval_columns cast h hst2 hc1
        have hstore := execK_store cast (out := out1) (f := "ListComp")
          (args := [.app "getitem" [.sym "self", .sym "x"], .app "in" [.sym "x", colnamesT, .app "if" []]])
          (ie := .sym "i") (ve := naNoneT) (by decide) hcur hiv hwhere
          (DI.PyEval.normIdx_of_inRange (DI.PyEval.inRange_ofNat (by rw [hcsl]; exact hk)))
        rw [DI.PyEval.wrapIdx_ofNat] at hstore
        refine ⟨.next, (columnsT, .cols (cs.set k (DT.object, c))) :: st1, _, ?_, hst2,
          ⟨cs.set k (DT.object, c), Holds.push_self _ _ _ _, ?_⟩, ?_, ?_⟩
        · rw [blockK_single cast (s := .app "if" [kindTestT, _, _])]
          rw [execK_if_true cast ht]
          exact blockK_single cast hstore
        · rw [List.map_set, hc2, hcell]
          exact List.set_getElem_self _
        · rw [find_cons_ne _ _ columnsT_ne_seenT]; exact hseen
        · rw [find_cons_ne _ _ columnsT_ne_keepT]; exact hkeep)
    () [] env out ⟨hs, ColsInv.nil, rfl, rfl⟩
  exact ⟨st', env', hr, hinv⟩

omit h in
theorem eval_seen {st : Store} {e : Env} {seen : List (List Cell)} (hc : Holds st seenT (.rows []) (.rows seen)) :
    evalK cast st e seenT = some (.rows seen) :=
  evalK_obj cast (f := "set()") (by decide) hc
    (fun hn => by rw [evalPrimObj cast hn (by decide) (evalArgsK_nil cast st e)]; rfl)

omit h in
theorem eval_keep {st : Store} {e : Env} {keep : List Int} (hc : Holds st keepT (.ints []) (.ints keep)) :
    evalK cast st e keepT = some (.ints keep) :=
  evalK_obj cast (f := "list") (by decide) hc
    (fun hn => by rw [evalPrimObj cast hn (by decide) (evalArgsK_nil cast st e)]; rfl)

/-- **the scan**: `keep` ends as the model's `uniqueIdx` of the key columns. -/
theorem exec_uniqEff1 (st : Store) (env : Env) (out : Frame) (hs : Stable lvU e0 env)
    (hcols : ColsInv self dt cols st) (hseen : st.find seenT = none) (hkeep : st.find keepT = none) :
    ∃ st' env', execK cast st env out uniqEff1 = some (.next, st', env', out) ∧ Stable lvU e0 env' ∧
      Holds st' keepT (.ints []) (.ints ((uniqueIdx (nrow self) KC).map (fun (k : Nat) => (k : Int)))) := by
  unfold uniqEff1
  have hself := eval_var cast (st := st) hs (x := "self") (by decide) (by decide) h.hself
  have hn : evalK cast st env (.app ".nrow" [.sym "self"]) = some (.int (nrow self : Nat)) := by
    rw [evalPrim cast (by decide) (evalArgs1 cast hself)]; rfl
  have hrange : evalK cast st env (.app "range" [.app ".nrow" [.sym "self"]]) =
      some (.ints ((List.range (nrow self)).map (fun (k : Nat) => (k : Int)))) := by
    rw [evalPrim cast (by decide) (evalArgs1 cast hn)]
    show some (KVal.ints (arange 0 (nrow self : Nat))) = _
    rw [arange_zero]
  rw [execK_for_range, hrange]
  simp only [itemsOf, List.map_map]
  have hRlen : (RR).length = nrow self := rowsOf_length _ _
  obtain ⟨st', env', hr, hinv⟩ := forResult_state cast (.sym "i")
    [.app "if" [.app "NotIn" [.app "getitem" [rowsT, .sym "i"], seenT],
      .app "block" [.app ".add" [seenT, .app "getitem" [rowsT, .sym "i"]], .app ".append" [keepT, .sym "i"]],
      .app "block" []]]
    (KVal.int ∘ fun (k : Nat) => (k : Int))
    (fun (s : List (List Cell) × List Nat) st' env' => Stable lvU e0 env' ∧ ColsInv self dt cols st' ∧
      Holds st' seenT (.rows []) (.rows s.1) ∧ Holds st' keepT (.ints []) (.ints (s.2.map (fun (k : Nat) => (k : Int)))))
    (scanStep RR) (List.range (nrow self))
    (by
      intro s st1 env1 out1 k hk ⟨hst1, hc1, hse1, hke1⟩
      have hk' : k < nrow self := List.mem_range.mp hk
      refine ⟨("i", .int (k : Nat)) :: env1, rfl, ?_⟩
      have hst2 : Stable lvU e0 (("i", .int (k : Nat)) :: env1) := hst1.push (by decide) _
      have hiv : ∀ st2, evalK cast st2 (("i", .int (k : Nat)) :: env1) (.sym "i") = some (.int (k : Nat)) :=
        fun st2 => eval_local cast (by decide) (get?_cons_self _ _ _)
      have hrow : ∀ st2, ColsInv self dt cols st2 →
          evalK cast st2 (("i", .int (k : Nat)) :: env1) (.app "getitem" [rowsT, .sym "i"]) = some (.row (RR)[k]!) := by
        intro st2 hc2
        rw [evalPrim cast (by decide) (evalArgs2 cast (eval_rows cast h hst2 hc2) (hiv st2))]
        show (normIdx (RR).length (k : Nat)).bind (fun j => (RR)[j]?.map KVal.row) = _
        rw [DI.PyEval.normIdx_of_inRange (DI.PyEval.inRange_ofNat (by rw [hRlen]; exact hk')), DI.PyEval.wrapIdx_ofNat]
        simp only [Option.bind_some]
        rw [getElem!_pos _ k (by rw [hRlen]; exact hk'), List.getElem?_eq_getElem (by rw [hRlen]; exact hk')]
        rfl
      have hnotin : evalK cast st1 (("i", .int (k : Nat)) :: env1)
          (.app "NotIn" [.app "getitem" [rowsT, .sym "i"], seenT]) = some (.bool (!s.1.contains (RR)[k]!)) := by
        rw [evalPrim cast (by decide) (evalArgs2 cast (hrow st1 hc1) (eval_seen cast hse1))]; rfl
      by_cases hcon : s.1.contains (RR)[k]! = true
      · -- seen before: nothing happens
        have hstep : scanStep RR s k = s := by simp only [scanStep, hcon, if_true]
        rw [hstep]
        rw [hcon] at hnotin
        refine ⟨.next, st1, _, ?_, hst2, hc1, hse1, hke1⟩
        rw [blockK_single cast (s := .app "if" [_, _, _])]
        rw [execK_if_false cast hnotin]
        exact blockK_nil cast _ _ _
      · have hcon' : s.1.contains (RR)[k]! = false := by simpa using hcon
        have hstep : scanStep RR s k = ((RR)[k]! :: s.1, s.2 ++ [k]) := by
          simp only [scanStep, hcon', Bool.false_eq_true, if_false]
        rw [hstep]
        rw [hcon'] at hnotin
        have hadd : execK cast st1 (("i", .int (k : Nat)) :: env1) out1
            (.app ".add" [seenT, .app "getitem" [rowsT, .sym "i"]]) =
            some (.next, (seenT, .rows ((RR)[k]! :: s.1)) :: st1, ("i", .int (k : Nat)) :: env1, out1) :=
          execK_add cast (out := out1) (f := "set()") (args := []) (e := .app "getitem" [rowsT, .sym "i"])
            (by decide) (eval_seen cast hse1) (hrow st1 hc1)
        have hc2 : ColsInv self dt cols ((seenT, .rows ((RR)[k]! :: s.1)) :: st1) :=
          hc1.push_ne _ (Ne.symm columnsT_ne_seenT)
        have hke2 : Holds ((seenT, .rows ((RR)[k]! :: s.1)) :: st1) keepT (.ints [])
            (.ints (s.2.map (fun (k : Nat) => (k : Int)))) := hke1.push_ne _ seenT_ne_keepT
        have happ : execK cast ((seenT, .rows ((RR)[k]! :: s.1)) :: st1) (("i", .int (k : Nat)) :: env1) out1
            (.app ".append" [keepT, .sym "i"]) =
            some (.next, (keepT, .ints (s.2.map (fun (k : Nat) => (k : Int)) ++ [(k : Int)])) ::
              (seenT, .rows ((RR)[k]! :: s.1)) :: st1, ("i", .int (k : Nat)) :: env1, out1) :=
          execK_append cast (out := out1) (f := "list") (args := []) (e := .sym "i")
            (by decide) (eval_keep cast (e := ("i", .int (k : Nat)) :: env1) hke2) (hiv _)
        refine ⟨.next, (keepT, .ints (s.2.map (fun (k : Nat) => (k : Int)) ++ [(k : Int)])) ::
          (seenT, .rows ((RR)[k]! :: s.1)) :: st1, _, ?_, hst2, ?_, ?_, ?_⟩
        · rw [blockK_single cast (s := .app "if" [_, _, _])]
          rw [execK_if_true cast hnotin]
          rw [blockK_cons_next cast hadd]
          exact blockK_single cast happ
        · exact hc2.push_ne _ (Ne.symm columnsT_ne_keepT)
        · exact (Holds.push_self _ _ _ _).push_ne _ (Ne.symm seenT_ne_keepT)
        · have := Holds.push_self ((seenT, KVal.rows ((RR)[k]! :: s.1)) :: st1) keepT (.ints [])
            (.ints (s.2.map (fun (k : Nat) => (k : Int)) ++ [(k : Int)]))
          simpa using this)
    ([], []) st env out ⟨hs, hcols, Or.inr ⟨hseen, rfl⟩, Or.inr ⟨hkeep, rfl⟩⟩
  obtain ⟨hst', _, _, hke⟩ := hinv
  refine ⟨st', env', hr, hst', ?_⟩
  have hscan := scan_range RR
  rw [hRlen] at hscan
  rw [hscan] at hke
  exact hke

/-- **the output loop**: every column of the receiver, in dict order, at the kept rows. -/
theorem exec_uniqEff2 (st : Store) (env : Env) (out : Frame) (hs : Stable lvU e0 env)
    (hkeep : Holds st keepT (.ints []) (.ints ((uniqueIdx (nrow self) KC).map (fun (k : Nat) => (k : Int))))) :
    ∃ st' env', execK cast st env out uniqEff2 =
      some (.next, st', env', out ++ wholeRows self (uniqueIdx (nrow self) KC)) := by
  unfold uniqEff2
  have hself := eval_var cast (st := st) hs (x := "self") (by decide) (by decide) h.hself
  have hitems : evalK cast st env (.app ".items" [.sym "self"]) = some (.items (.frame self dt)) := by
    rw [evalPrim cast (by decide) (evalArgs1 cast hself)]; rfl
  rw [execK_for_items, hitems]
  simp only [itemsOf]
  obtain ⟨st', env', hr, _⟩ := forResult_spec cast (.app "tuple" [.sym "colname", .sym "column"])
    [.app "yield" [.app "tuple" [.sym "colname", .app ".copy" [.app "getitem" [.sym "column", keepT]]]]]
    (fun (p : String × List Cell) => KVal.pair (.str p.1) (.col (dt p.1) p.2))
    (fun (_ : Unit) st' env' => Stable lvU e0 env' ∧
      Holds st' keepT (.ints []) (.ints ((uniqueIdx (nrow self) KC).map (fun (k : Nat) => (k : Int)))))
    (fun _ _ => ()) (fun _ p => [(p.1, gather p.2 (uniqueIdx (nrow self) KC))]) self
    (by
      intro _ st1 env1 out1 p hp ⟨hst1, hke1⟩
      refine ⟨("column", .col (dt p.1) p.2) :: ("colname", .str p.1) :: env1, rfl, ?_⟩
      have hst2 : Stable lvU e0 (("column", .col (dt p.1) p.2) :: ("colname", .str p.1) :: env1) :=
        (hst1.push (by decide) _).push (by decide) _
      have hcn : evalK cast st1 (("column", .col (dt p.1) p.2) :: ("colname", .str p.1) :: env1) (.sym "colname") =
          some (.str p.1) :=
        eval_local cast (by decide) (by rw [get?_cons_ne _ _ (by decide)]; exact get?_cons_self _ _ _)
      have hcl : evalK cast st1 (("column", .col (dt p.1) p.2) :: ("colname", .str p.1) :: env1) (.sym "column") =
          some (.col (dt p.1) p.2) := eval_local cast (by decide) (get?_cons_self _ _ _)
      have hlt : ∀ k ∈ uniqueIdx (nrow self) KC, k < p.2.length := by
        intro k hk
        rw [h.hrect p hp]
        exact (mem_uniqueIdx.mp hk).1
      have hget : evalK cast st1 (("column", .col (dt p.1) p.2) :: ("colname", .str p.1) :: env1)
          (.app "getitem" [.sym "column", keepT]) = some (.col (dt p.1) (gather p.2 (uniqueIdx (nrow self) KC))) := by
        rw [evalPrim cast (by decide) (evalArgs2 cast hcl (eval_keep cast hke1))]
        show (npTake p.2 _).map (KVal.col (dt p.1)) = _
        rw [DI.PyEval.npTake_nat p.2 _ hlt]; rfl
      have hcopy : evalK cast st1 (("column", .col (dt p.1) p.2) :: ("colname", .str p.1) :: env1)
          (.app ".copy" [.app "getitem" [.sym "column", keepT]]) =
          some (.col (dt p.1) (gather p.2 (uniqueIdx (nrow self) KC))) := by
        rw [evalPrim cast (by decide) (evalArgs1 cast hget)]; rfl
      exact ⟨.next, st1, _, blockK_single cast (execK_yield cast hcn hcopy), hst2, hke1⟩)
    () st env out ⟨hs, hkeep⟩
  refine ⟨st', env', ?_⟩
  rw [hr, foldOut_stateless, DI.PyEval.flatMap_single]
  rfl

/-- **the regenerated body of `unique` evaluates to the receiver at the model's `uniqueIdx` rows** of the key columns
    `colnames or self.colnames`. -/
theorem run_unique :
    runBody cast e0 (Out.fall [uniqEff0, uniqEff1, uniqEff2]) = some (wholeRows self (uniqueIdx (nrow self) KC)) := by
  obtain ⟨st1, env1, hr1, hs1, hc1, hse1, hke1⟩ := exec_uniqEff0 cast h e0 [] (Stable.refl _ _)
  obtain ⟨st2, env2, hr2, hs2, hke2⟩ := exec_uniqEff1 cast h st1 env1 [] hs1 hc1 hse1 hke1
  obtain ⟨st3, env3, hr3⟩ := exec_uniqEff2 cast h st2 env2 [] hs2 hke2
  apply runBody_fall cast (st := st3) (env' := env3)
  rw [blockK_cons_next cast hr1, blockK_cons_next cast hr2, blockK_single cast hr3]
  rfl

end Unique


/-! ## Part 5: `_get_join_indices` -/

/-- `keys1 = [self[x] for x in by1]` — the term that denotes the list object `keys1`. -/
def K1T : Term := keysTerm "self" "by1"
/-- `keys2 = [other[x] for x in by2]`. -/
def K2T : Term := keysTerm "other" "by2"

def dtOfT (k : String) : Term := .app ".dtype" [.sym k]
/-- `new.astype(key.dtype).equal(key).all()`: casting back gives the original values. -/
def backT (n k : String) : Term := .app ".all" [.app ".equal" [.app ".astype" [.sym n, dtOfT k], .sym k]]

def unifyCond : Term :=
  .app "And" [.app ".is_datetime" [.sym "key1"], .app ".is_datetime" [.sym "key2"], .app "NotEq" [dtOfT "key1", dtOfT "key2"]]

def unifyStore : Term :=
  .app "assign" [.app "tuple" [.app "getitem" [.sym "keys1", .sym "i"], .app "getitem" [.sym "keys2", .sym "i"]],
    .app "tuple" [.sym "new1", .sym "new2"]]

def unifyThen : List Term :=
  [.app "assign" [.sym "dtype", .app "np.promote_types" [dtOfT "key1", dtOfT "key2"]],
   .app "assign" [.app "tuple" [.sym "new1", .sym "new2"],
     .app "tuple" [.app ".astype" [.sym "key1", .sym "dtype"], .app ".astype" [.sym "key2", .sym "dtype"]]],
   .app "if" [.app "And" [backT "new1" "key1", backT "new2" "key2"], .app "block" [unifyStore], .app "block" []]]

/-- the datetime unit promotion loop (fix c09ead9). -/
def unifyLoop : Term :=
  .app "for" [.app "tuple" [.sym "i", .app "tuple" [.sym "key1", .sym "key2"]], .app "enumerate" [.app "zip" [K1T, K2T]],
    .app "block" [.app "if" [unifyCond, .app "block" unifyThen, .app "block" []]]]

/-- `other_ids = list(zip(*keys2))`. -/
def otherIdsT : Term := .app "list()" [.app "zip" [.app "*" [K2T]]]
/-- `other_by_id = {other_ids[i]: i for i in range(other.nrow)}`. -/
def byIdT : Term :=
  .app "DictComp" [.app "pair" [.app "getitem" [otherIdsT, .sym "i"], .sym "i"],
    .app "in" [.sym "i", .app "range" [.app ".nrow" [.sym "other"]], .app "if" []]]
/-- `src = np.fromiter(map(lambda x: other_by_id.get(x, -1), zip(*keys1)), int, count=self.nrow)`. -/
def srcT : Term :=
  .app "np.fromiter" [.app "map" [.app "lambda" [.app "params" [.sym "x"], .app ".get" [byIdT, .sym "x", .int (-1)]],
    .app "zip" [.app "*" [K1T]]], .sym "int", .app "=count" [.app ".nrow" [.sym "self"]]]
/-- `found = np.where(src > -1)`. -/
def foundT : Term := .app "np.where" [.app "Gt" [srcT, .int (-1)]]

/-- **_get_join_indices as written.** -/
theorem join_indices_body (truth : Term → Bool) :
    DI.Gen.DataFrame_get_join_indices truth = Out.ret [unifyLoop] (.app "tuple" [foundT, srcT]) := rfl

/-- the key columns with their dtypes. -/
def tcolsOf (f : Frame) (dt : String → DT) (l : List String) : List TCol := l.map (fun n => (dt n, colOf f n))

theorem tcolsOf_cells (f : Frame) (dt : String → DT) (l : List String) : (tcolsOf f dt l).map (·.2) = l.map (colOf f) := by
  simp [tcolsOf, List.map_map, Function.comp_def]

/-- a call `self._get_join_indices(other, by1, by2)`: at least one key, as many right as left names, every name a column
    of its (rectangular) frame; the local names `keys1` / `keys2` denote the lists the comprehensions create. -/
structure JCtx (e0 : Env) (lf : Frame) (dtS : String → DT) (rt : Frame) (dtO : String → DT) (b1 b2 : List String) :
    Prop where
  hself : Env.get? e0 "self" = some (.frame lf dtS)
  hother : Env.get? e0 "other" = some (.frame rt dtO)
  hby1 : Env.get? e0 "by1" = some (.strs b1)
  hby2 : Env.get? e0 "by2" = some (.strs b2)
  hk1 : Env.get? e0 "keys1" = some (.ref K1T (.cols (tcolsOf lf dtS b1)))
  hk2 : Env.get? e0 "keys2" = some (.ref K2T (.cols (tcolsOf rt dtO b2)))
  hne : b1 ≠ []
  hlen : b1.length = b2.length
  hL : ∀ c ∈ b1, c ∈ names lf
  hR : ∀ c ∈ b2, c ∈ names rt
  hrectS : Rect lf
  hrectO : Rect rt

def lvJ : List String := ["i", "key1", "key2", "dtype", "new1", "new2", "x"]

theorem K1T_ne_K2T : K1T ≠ K2T := by
  intro h
  simp [K1T, K2T, keysTerm] at h

/-- `[frame[x] for x in names]` when it was not written to: the named columns with their dtypes. -/
theorem eval_keysTerm {st : Store} {e : Env} {fr byv : String} {f : Frame} {dt : String → DT} {l : List String}
    (hst : st.find (keysTerm fr byv) = none) (hby : evalK cast st e (.sym byv) = some (.strs l))
    (hfr : ∀ n, evalK cast st (("x", .str n) :: e) (.sym fr) = some (.frame f dt)) (hn : ∀ n ∈ l, n ∈ names f) :
    evalK cast st e (keysTerm fr byv) = some (.cols (tcolsOf f dt l)) := by
  unfold keysTerm at hst ⊢
  rw [evalK_listcomp cast st e _ _ _ hst, hby]
  simp only [itemsOf, List.map_map]
  unfold tcolsOf
  rw [DI.PyEval.allSome_map _ (fun n => (dt n, colOf f n))]
  · rfl
  · intro n hn'
    have hx : evalK cast st (("x", .str n) :: e) (.sym "x") = some (.str n) :=
      eval_local cast (by decide) (get?_cons_self _ _ _)
    show (match bindPat e (.sym "x") (KVal.str n) with
      | none => none
      | some env' => match evalK cast st env' (.app "getitem" [.sym fr, .sym "x"]) with
        | some (.col d c) => some (d, c)
        | _ => none) = _
    simp only [bindPat]
    rw [evalPrim cast (by decide) (evalArgs2 cast (hfr n) hx)]
    show (match (colOf? f n).map (KVal.col (dt n)) with
        | some (.col d c) => some (d, c)
        | _ => none) = _
    rw [DI.PyEval.colOf?_of_name (hn n hn')]
    rfl

theorem refCur_of {st : Store} {env : Env} {x : String} {f : String} {args : List Term} {init v : KVal}
    (hx : Env.get? env x = some (.ref (.app f args) init)) (hf : objHeads.contains f = true)
    (hh : Holds st (.app f args) init v) : refCur st env x = some (.app f args, v) := by
  unfold refCur
  rw [hx]
  simp only [hf, if_true, hh.getD]

theorem execK_store2_eq (st : Store) (env : Env) (out : Frame) (x1 x2 : String) (i1 i2 e : Term) :
    execK cast st env out (.app "assign" [.app "tuple" [.app "getitem" [.sym x1, i1], .app "getitem" [.sym x2, i2]], e]) =
      (match evalK cast st env e with
       | some (.pair (.col d1 c1) (.col d2 c2)) =>
         (match refCur st env x1, evalK cast st env i1 with
          | some (t1, .cols l1), some (.int k1) =>
            (match normIdx l1.length k1 with
             | none => none
             | some n1 =>
               let st1 : Store := (t1, .cols (l1.set n1 (d1, c1))) :: st
               match refCur st1 env x2, evalK cast st1 env i2 with
               | some (t2, .cols l2), some (.int k2) =>
                 (match normIdx l2.length k2 with
                  | none => none
                  | some n2 => some (.next, (t2, .cols (l2.set n2 (d2, c2))) :: st1, env, out))
               | _, _ => none)
          | _, _ => none)
       | _ => none) := rfl

/-- `a[i], b[j] = x, y` for two local names bound to lists of columns. -/
theorem execK_store2 {st : Store} {env : Env} {out : Frame} {x1 x2 : String} {i1 i2 e : Term} {d1 d2 : DT}
    {c1 c2 : List Cell} {t1 t2 : Term} {l1 l2 : List TCol} {k1 k2 : Int} {n1 n2 : Nat}
    (he : evalK cast st env e = some (.pair (.col d1 c1) (.col d2 c2)))
    (hr1 : refCur st env x1 = some (t1, .cols l1)) (hi1 : evalK cast st env i1 = some (.int k1))
    (hn1 : normIdx l1.length k1 = some n1)
    (hr2 : refCur ((t1, .cols (l1.set n1 (d1, c1))) :: st) env x2 = some (t2, .cols l2))
    (hi2 : evalK cast ((t1, .cols (l1.set n1 (d1, c1))) :: st) env i2 = some (.int k2))
    (hn2 : normIdx l2.length k2 = some n2) :
    execK cast st env out (.app "assign" [.app "tuple" [.app "getitem" [.sym x1, i1], .app "getitem" [.sym x2, i2]], e]) =
      some (.next, (t2, .cols (l2.set n2 (d2, c2))) :: (t1, .cols (l1.set n1 (d1, c1))) :: st, env, out) := by
  rw [execK_store2_eq, he]
  simp only [hr1, hi1, hn1, hr2, hi2, hn2]

section JoinIdx

variable {e0 : Env} {self other : Frame} {dtS dtO : String → DT} {b1 b2 : List String}
  (h : JCtx e0 self dtS other dtO b1 b2)

local notation "LK" => List.map (colOf self) b1
local notation "RK" => List.map (colOf other) b2
local notation "LL" => rowsOf (nrow self) (List.map (colOf self) b1)
local notation "RR" => rowsOf (nrow other) (List.map (colOf other) b2)

/-- the contents of `keys1` / `keys2`: possibly cast to a common unit, the CELLS are the key columns'. -/
def KeysInv (self : Frame) (dtS : String → DT) (other : Frame) (dtO : String → DT) (b1 b2 : List String) (st : Store) :
    Prop :=
  (∃ cs1 : List TCol, Holds st K1T (.cols (tcolsOf self dtS b1)) (.cols cs1) ∧ cs1.map (·.2) = b1.map (colOf self)) ∧
  (∃ cs2 : List TCol, Holds st K2T (.cols (tcolsOf other dtO b2)) (.cols cs2) ∧ cs2.map (·.2) = b2.map (colOf other))

omit cast in
theorem KeysInv.nil : KeysInv self dtS other dtO b1 b2 [] :=
  ⟨⟨_, Holds.nil _ _, tcolsOf_cells _ _ _⟩, ⟨_, Holds.nil _ _, tcolsOf_cells _ _ _⟩⟩

include h

omit cast in
theorem b2_ne : b2 ≠ [] := by
  have h1 := h.hne
  have h2 := h.hlen
  intro hb
  rw [hb] at h2
  exact h1 (List.eq_nil_of_length_eq_zero h2)

theorem eval_keys1 {st : Store} {e : Env} (hs : Stable lvJ e0 e) {cs : List TCol}
    (hc : Holds st K1T (.cols (tcolsOf self dtS b1)) (.cols cs)) : evalK cast st e K1T = some (.cols cs) :=
  evalK_obj cast (f := "ListComp") (by decide) hc (fun hn =>
    eval_keysTerm cast hn (eval_var cast hs (x := "by1") (by decide) (by decide) h.hby1)
      (fun n => eval_var cast (hs.push (x := "x") (by decide) _) (x := "self") (by decide) (by decide) h.hself) h.hL)

theorem eval_keys2 {st : Store} {e : Env} (hs : Stable lvJ e0 e) {cs : List TCol}
    (hc : Holds st K2T (.cols (tcolsOf other dtO b2)) (.cols cs)) : evalK cast st e K2T = some (.cols cs) :=
  evalK_obj cast (f := "ListComp") (by decide) hc (fun hn =>
    eval_keysTerm cast hn (eval_var cast hs (x := "by2") (by decide) (by decide) h.hby2)
      (fun n => eval_var cast (hs.push (x := "x") (by decide) _) (x := "other") (by decide) (by decide) h.hother) h.hR)

omit cast in
theorem LK_length : ∀ c ∈ LK, c.length = nrow self := by
  intro c hc
  obtain ⟨x, hx, rfl⟩ := List.mem_map.mp hc
  exact DI.PyEval.colOf_length h.hrectS (h.hL x hx)

omit cast in
theorem RK_length : ∀ c ∈ RK, c.length = nrow other := by
  intro c hc
  obtain ⟨x, hx, rfl⟩ := List.mem_map.mp hc
  exact DI.PyEval.colOf_length h.hrectO (h.hR x hx)

omit cast in
theorem zip_LK : zipCols LK = LL :=
  zipCols_eq_rowsOf _ _ (LK_length h) (fun hn => absurd (by simpa using hn) h.hne)

omit cast in
theorem zip_RK : zipCols RK = RR :=
  zipCols_eq_rowsOf _ _ (RK_length h) (fun hn => absurd (by simpa using hn) (b2_ne h))

/-- **the unit promotion loop leaves the cells of `keys1` / `keys2` as they are** (for a sound cast). -/
theorem exec_unifyLoop (hcast : CastSound cast) (env : Env) (out : Frame) (hs : Stable lvJ e0 env) :
    ∃ st' env', execK cast [] env out unifyLoop = some (.next, st', env', out) ∧ Stable lvJ e0 env' ∧
      KeysInv self dtS other dtO b1 b2 st' := by
  unfold unifyLoop
  have hz : evalK cast [] env (.app "zip" [K1T, K2T]) =
      some (.colpairs ((tcolsOf self dtS b1).zip (tcolsOf other dtO b2))) := by
    rw [evalPrim cast (by decide) (evalArgs2 cast (eval_keys1 cast h hs (Holds.nil _ _))
      (eval_keys2 cast h hs (Holds.nil _ _)))]
    rfl
  rw [execK_for_enumerate, hz]
  simp only [itemsOf, Option.map_some]
  rw [enumerate_map]
  obtain ⟨st', env', hr, hinv⟩ := forResult_state cast (.app "tuple" [.sym "i", .app "tuple" [.sym "key1", .sym "key2"]])
    [.app "if" [unifyCond, .app "block" unifyThen, .app "block" []]]
    (fun (p : (TCol × TCol) × Nat) =>
      KVal.pair (.int (p.2 : Nat)) (KVal.pair (.col p.1.1.1 p.1.1.2) (.col p.1.2.1 p.1.2.2)))
    (fun (_ : Unit) st' env' => Stable lvJ e0 env' ∧ KeysInv self dtS other dtO b1 b2 st')
    (fun _ _ => ()) ((tcolsOf self dtS b1).zip (tcolsOf other dtO b2)).zipIdx
    (by
      intro _ st1 env1 out1 a ha ⟨hst1, ⟨cs1, hh1, hm1⟩, ⟨cs2, hh2, hm2⟩⟩
      obtain ⟨⟨⟨d1, c1⟩, ⟨d2, c2⟩⟩, k⟩ := a
      have hget := List.getElem?_zip_eq_some.mp (List.mem_zipIdx_iff_getElem?.mp ha)
      obtain ⟨hg1, hg2⟩ := hget
      simp only at hg1 hg2
      obtain ⟨hk1, he1⟩ := List.getElem?_eq_some_iff.mp hg1
      obtain ⟨hk2, he2⟩ := List.getElem?_eq_some_iff.mp hg2
      have hk1' : k < b1.length := by simpa [tcolsOf] using hk1
      have hk2' : k < b2.length := by simpa [tcolsOf] using hk2
      have hcell1 : c1 = (LK)[k]'(by simpa using hk1') := by
        simp only [tcolsOf, List.getElem_map] at he1 ⊢
        exact (congrArg Prod.snd he1).symm
      have hcell2 : c2 = (RK)[k]'(by simpa using hk2') := by
        simp only [tcolsOf, List.getElem_map] at he2 ⊢
        exact (congrArg Prod.snd he2).symm
      have hl1 : cs1.length = b1.length := by simpa using congrArg List.length hm1
      have hl2 : cs2.length = b2.length := by simpa using congrArg List.length hm2
      refine ⟨("key2", .col d2 c2) :: ("key1", .col d1 c1) :: ("i", .int (k : Nat)) :: env1, rfl, ?_⟩
      have hst2 : Stable lvJ e0 (("key2", .col d2 c2) :: ("key1", .col d1 c1) :: ("i", .int (k : Nat)) :: env1) :=
        ((hst1.push (by decide) _).push (by decide) _).push (by decide) _
      generalize hE : (("key2", KVal.col d2 c2) :: ("key1", KVal.col d1 c1) :: ("i", KVal.int (k : Nat)) :: env1 : Env) = E
        at hst2 ⊢
      have hk1v : ∀ st2, evalK cast st2 E (.sym "key1") = some (.col d1 c1) := fun st2 =>
        eval_local cast (by decide) (by rw [← hE, get?_cons_ne _ _ (by decide)]; exact get?_cons_self _ _ _)
      have hk2v : ∀ st2, evalK cast st2 E (.sym "key2") = some (.col d2 c2) := fun st2 =>
        eval_local cast (by decide) (by rw [← hE]; exact get?_cons_self _ _ _)
      have hdt1 : ∀ st2 (E' : Env), Env.get? E' "key1" = some (.col d1 c1) →
          evalK cast st2 E' (dtOfT "key1") = some (.dtype d1) := by
        intro st2 E' hE'
        unfold dtOfT
        rw [evalPrim cast (by decide) (evalArgs1 cast (eval_local cast (by decide) hE'))]; rfl
      have hdt2 : ∀ st2 (E' : Env), Env.get? E' "key2" = some (.col d2 c2) →
          evalK cast st2 E' (dtOfT "key2") = some (.dtype d2) := by
        intro st2 E' hE'
        unfold dtOfT
        rw [evalPrim cast (by decide) (evalArgs1 cast (eval_local cast (by decide) hE'))]; rfl
      have hEk1 : Env.get? E "key1" = some (.col d1 c1) := by
        rw [← hE, get?_cons_ne _ _ (by decide)]; exact get?_cons_self _ _ _
      have hEk2 : Env.get? E "key2" = some (.col d2 c2) := by rw [← hE]; exact get?_cons_self _ _ _
      have hEi : Env.get? E "i" = some (.int (k : Nat)) := by
        rw [← hE, get?_cons_ne _ _ (by decide), get?_cons_ne _ _ (by decide)]; exact get?_cons_self _ _ _
      have hcond : evalK cast st1 E unifyCond =
          some (.bool (d1.kind == .datetime && d2.kind == .datetime && d1 != d2)) := by
        unfold unifyCond
        apply evalK_and3 cast
        · rw [evalPrim cast (by decide) (evalArgs1 cast (hk1v st1))]; rfl
        · rw [evalPrim cast (by decide) (evalArgs1 cast (hk2v st1))]; rfl
        · rw [evalPrim cast (by decide) (evalArgs2 cast (hdt1 st1 E hEk1) (hdt2 st1 E hEk2))]; rfl
      cases htest : (d1.kind == .datetime && d2.kind == .datetime && d1 != d2)
      · -- same unit, or not two datetime columns: nothing happens
        rw [htest] at hcond
        refine ⟨.next, st1, E, ?_, hst2, ⟨cs1, hh1, hm1⟩, ⟨cs2, hh2, hm2⟩⟩
        rw [blockK_single cast (s := .app "if" [unifyCond, _, _])]
        rw [execK_if_false cast hcond]
        exact blockK_nil cast _ _ _
      · rw [htest] at hcond
        -- dtype = np.promote_types(key1.dtype, key2.dtype)
        have hprom : evalK cast st1 E (.app "np.promote_types" [dtOfT "key1", dtOfT "key2"]) =
            some (.dtype (d1.promote d2)) := by
          rw [evalPrim cast (by decide) (evalArgs2 cast (hdt1 st1 E hEk1) (hdt2 st1 E hEk2))]; rfl
        have hs1 := execK_assign cast (out := out1) (x := "dtype") hprom
        generalize hE2 : (("dtype", KVal.dtype (d1.promote d2)) :: E : Env) = E2 at hs1
        have hE2k1 : Env.get? E2 "key1" = some (.col d1 c1) := by
          rw [← hE2, get?_cons_ne _ _ (by decide)]; exact hEk1
        have hE2k2 : Env.get? E2 "key2" = some (.col d2 c2) := by
          rw [← hE2, get?_cons_ne _ _ (by decide)]; exact hEk2
        have hE2d : Env.get? E2 "dtype" = some (.dtype (d1.promote d2)) := by rw [← hE2]; exact get?_cons_self _ _ _
        -- new1, new2 = key1.astype(dtype), key2.astype(dtype)
        have hnew : evalK cast st1 E2 (.app "tuple" [.app ".astype" [.sym "key1", .sym "dtype"],
            .app ".astype" [.sym "key2", .sym "dtype"]]) =
            some (.pair (.col (d1.promote d2) (cast d1 (d1.promote d2) c1))
              (.col (d1.promote d2) (cast d2 (d1.promote d2) c2))) := by
          have ha1 : evalK cast st1 E2 (.app ".astype" [.sym "key1", .sym "dtype"]) =
              some (.col (d1.promote d2) (cast d1 (d1.promote d2) c1)) := by
            rw [evalPrim cast (by decide) (evalArgs2 cast (eval_local cast (by decide) hE2k1)
              (eval_local cast (by decide) hE2d))]; rfl
          have ha2 : evalK cast st1 E2 (.app ".astype" [.sym "key2", .sym "dtype"]) =
              some (.col (d1.promote d2) (cast d2 (d1.promote d2) c2)) := by
            rw [evalPrim cast (by decide) (evalArgs2 cast (eval_local cast (by decide) hE2k2)
              (eval_local cast (by decide) hE2d))]; rfl
          rw [evalPrim cast (by decide) (evalArgs2 cast ha1 ha2)]; rfl
        have hs2 := execK_assign_pair cast (out := out1) (a := "new1") (b := "new2") hnew
        generalize hE3 : (("new2", KVal.col (d1.promote d2) (cast d2 (d1.promote d2) c2)) ::
          ("new1", KVal.col (d1.promote d2) (cast d1 (d1.promote d2) c1)) :: E2 : Env) = E3 at hs2
        have hE3k1 : Env.get? E3 "key1" = some (.col d1 c1) := by
          rw [← hE3, get?_cons_ne _ _ (by decide), get?_cons_ne _ _ (by decide)]; exact hE2k1
        have hE3k2 : Env.get? E3 "key2" = some (.col d2 c2) := by
          rw [← hE3, get?_cons_ne _ _ (by decide), get?_cons_ne _ _ (by decide)]; exact hE2k2
        have hE3n1 : Env.get? E3 "new1" = some (.col (d1.promote d2) (cast d1 (d1.promote d2) c1)) := by
          rw [← hE3, get?_cons_ne _ _ (by decide)]; exact get?_cons_self _ _ _
        have hE3n2 : Env.get? E3 "new2" = some (.col (d1.promote d2) (cast d2 (d1.promote d2) c2)) := by
          rw [← hE3]; exact get?_cons_self _ _ _
        have hE3i : Env.get? E3 "i" = some (.int (k : Nat)) := by
          rw [← hE3, get?_cons_ne _ _ (by decide), get?_cons_ne _ _ (by decide), ← hE2, get?_cons_ne _ _ (by decide)]
          exact hEi
        have hE3k : ∀ x, x = "keys1" ∨ x = "keys2" → Env.get? E3 x = Env.get? e0 x := by
          intro x hx
          have hst3 : Stable lvJ e0 E3 := by
            rw [← hE3, ← hE2]
            exact ((hst2.push (by decide) _).push (by decide) _).push (by decide) _
          rcases hx with rfl | rfl <;> exact hst3 _ (by decide)
        have hst3 : Stable lvJ e0 E3 := by
          rw [← hE3, ← hE2]
          exact ((hst2.push (by decide) _).push (by decide) _).push (by decide) _
        -- the round trip checks
        have hback1 : evalK cast st1 E3 (backT "new1" "key1") =
            some (.bool (cast (d1.promote d2) d1 (cast d1 (d1.promote d2) c1) == c1)) := by
          unfold backT
          have hb1 : evalK cast st1 E3 (.app ".astype" [.sym "new1", dtOfT "key1"]) =
              some (.col d1 (cast (d1.promote d2) d1 (cast d1 (d1.promote d2) c1))) := by
            rw [evalPrim cast (by decide) (evalArgs2 cast (eval_local cast (by decide) hE3n1) (hdt1 st1 E3 hE3k1))]; rfl
          have hb2 : evalK cast st1 E3 (.app ".equal" [.app ".astype" [.sym "new1", dtOfT "key1"], .sym "key1"]) =
              some (.bool (cast (d1.promote d2) d1 (cast d1 (d1.promote d2) c1) == c1)) := by
            rw [evalPrim cast (by decide) (evalArgs2 cast hb1 (eval_local cast (by decide) hE3k1))]; rfl
          rw [evalPrim cast (by decide) (evalArgs1 cast hb2)]; rfl
        have hback2 : evalK cast st1 E3 (backT "new2" "key2") =
            some (.bool (cast (d1.promote d2) d2 (cast d2 (d1.promote d2) c2) == c2)) := by
          unfold backT
          have hb1 : evalK cast st1 E3 (.app ".astype" [.sym "new2", dtOfT "key2"]) =
              some (.col d2 (cast (d1.promote d2) d2 (cast d2 (d1.promote d2) c2))) := by
            rw [evalPrim cast (by decide) (evalArgs2 cast (eval_local cast (by decide) hE3n2) (hdt2 st1 E3 hE3k2))]; rfl
          have hb2 : evalK cast st1 E3 (.app ".equal" [.app ".astype" [.sym "new2", dtOfT "key2"], .sym "key2"]) =
              some (.bool (cast (d1.promote d2) d2 (cast d2 (d1.promote d2) c2) == c2)) := by
            rw [evalPrim cast (by decide) (evalArgs2 cast hb1 (eval_local cast (by decide) hE3k2))]; rfl
          rw [evalPrim cast (by decide) (evalArgs1 cast hb2)]; rfl
        have hcheck := evalK_and2 cast hback1 (fun _ => hback2)
        cases hfit : (cast (d1.promote d2) d1 (cast d1 (d1.promote d2) c1) == c1 &&
            cast (d1.promote d2) d2 (cast d2 (d1.promote d2) c2) == c2)
        · -- the values do not fit: the columns stay as they are
          rw [hfit] at hcheck
          refine ⟨.next, st1, E3, ?_, hst3, ⟨cs1, hh1, hm1⟩, ⟨cs2, hh2, hm2⟩⟩
          rw [blockK_single cast (s := .app "if" [unifyCond, _, _])]
          rw [execK_if_true cast hcond]
          unfold unifyThen
          rw [blockK_cons_next cast hs1, blockK_cons_next cast hs2]
          rw [blockK_single cast (s := .app "if" [_, _, _])]
          rw [execK_if_false cast hcheck]
          exact blockK_nil cast _ _ _
        · -- the values fit: keys1[i], keys2[i] = new1, new2 — the same instants
          rw [hfit] at hcheck
          have hfit' := Bool.and_eq_true_iff.mp hfit
          have hsame1 : cast d1 (d1.promote d2) c1 = c1 := hcast d1 (d1.promote d2) c1 (by simpa using hfit'.1)
          have hsame2 : cast d2 (d1.promote d2) c2 = c2 := hcast d2 (d1.promote d2) c2 (by simpa using hfit'.2)
          have hpair : evalK cast st1 E3 (.app "tuple" [.sym "new1", .sym "new2"]) =
              some (.pair (.col (d1.promote d2) (cast d1 (d1.promote d2) c1))
                (.col (d1.promote d2) (cast d2 (d1.promote d2) c2))) := by
            rw [evalPrim cast (by decide) (evalArgs2 cast (eval_local cast (by decide) hE3n1)
              (eval_local cast (by decide) hE3n2))]; rfl
          have hr1 : refCur st1 E3 "keys1" = some (K1T, .cols cs1) :=
            refCur_of (f := "ListComp") (by rw [hE3k _ (Or.inl rfl)]; exact h.hk1) (by decide) hh1
          have hiv : ∀ st2, evalK cast st2 E3 (.sym "i") = some (.int (k : Nat)) :=
            fun st2 => eval_local cast (by decide) hE3i
          have hn1 : normIdx cs1.length (k : Nat) = some k := by
            rw [DI.PyEval.normIdx_of_inRange (DI.PyEval.inRange_ofNat (by rw [hl1]; exact hk1')),
              DI.PyEval.wrapIdx_ofNat]
          have hh2' : Holds ((K1T, KVal.cols (cs1.set k (d1.promote d2, cast d1 (d1.promote d2) c1))) :: st1) K2T
              (.cols (tcolsOf other dtO b2)) (.cols cs2) := hh2.push_ne _ K1T_ne_K2T
          have hr2 : refCur ((K1T, KVal.cols (cs1.set k (d1.promote d2, cast d1 (d1.promote d2) c1))) :: st1) E3 "keys2" =
              some (K2T, .cols cs2) :=
            refCur_of (f := "ListComp") (by rw [hE3k _ (Or.inr rfl)]; exact h.hk2) (by decide) hh2'
          have hn2 : normIdx cs2.length (k : Nat) = some k := by
            rw [DI.PyEval.normIdx_of_inRange (DI.PyEval.inRange_ofNat (by rw [hl2]; exact hk2')),
              DI.PyEval.wrapIdx_ofNat]
          have hstore := execK_store2 cast (out := out1) (x1 := "keys1") (x2 := "keys2") (i1 := .sym "i") (i2 := .sym "i")
            hpair hr1 (hiv _) hn1 hr2 (hiv _) hn2
          refine ⟨.next, (K2T, .cols (cs2.set k (d1.promote d2, cast d2 (d1.promote d2) c2))) ::
              (K1T, .cols (cs1.set k (d1.promote d2, cast d1 (d1.promote d2) c1))) :: st1, E3, ?_, hst3,
            ⟨cs1.set k (d1.promote d2, cast d1 (d1.promote d2) c1), ?_, ?_⟩,
            ⟨cs2.set k (d1.promote d2, cast d2 (d1.promote d2) c2), ?_, ?_⟩⟩
          · rw [blockK_single cast (s := .app "if" [unifyCond, _, _])]
            rw [execK_if_true cast hcond]
            unfold unifyThen
            rw [blockK_cons_next cast hs1, blockK_cons_next cast hs2]
            rw [blockK_single cast (s := .app "if" [_, _, _])]
            rw [execK_if_true cast hcheck]
            exact blockK_single cast hstore
          · exact (Holds.push_self _ _ _ _).push_ne _ (Ne.symm K1T_ne_K2T)
          · rw [List.map_set, hm1, hsame1, hcell1]
            exact List.set_getElem_self _
          · exact Holds.push_self _ _ _ _
          · rw [List.map_set, hm2, hsame2, hcell2]
            exact List.set_getElem_self _)
    () [] env out ⟨hs, KeysInv.nil⟩
  exact ⟨st', env', hr, hinv.1, hinv.2⟩

/-- `other_ids = list(zip(*keys2))` is the model's `rowsOf` of the right key columns. -/
theorem eval_otherIds {st : Store} {e : Env} (hs : Stable lvJ e0 e) (hk : KeysInv self dtS other dtO b1 b2 st) :
    evalK cast st e otherIdsT = some (.rows RR) := by
  obtain ⟨_, ⟨cs2, h1, h2⟩⟩ := hk
  have hcol := eval_keys2 cast h hs h1
  have hstar : evalK cast st e (.app "*" [K2T]) = some (.star (.cols cs2)) := by
    rw [evalPrim cast (by decide) (evalArgs1 cast hcol)]; rfl
  have hzip : evalK cast st e (.app "zip" [.app "*" [K2T]]) = some (.rows RR) := by
    rw [evalPrim cast (by decide) (evalArgs1 cast hstar)]
    show some (KVal.rows (zipCols (cs2.map (·.2)))) = _
    rw [h2, zip_RK h]
  unfold otherIdsT
  rw [evalPrim cast (by decide) (evalArgs1 cast hzip)]; rfl

/-- `zip(*keys1)`: the key tuples of the left rows. -/
theorem eval_selfIds {st : Store} {e : Env} (hs : Stable lvJ e0 e) (hk : KeysInv self dtS other dtO b1 b2 st) :
    evalK cast st e (.app "zip" [.app "*" [K1T]]) = some (.rows LL) := by
  obtain ⟨⟨cs1, h1, h2⟩, _⟩ := hk
  have hcol := eval_keys1 cast h hs h1
  have hstar : evalK cast st e (.app "*" [K1T]) = some (.star (.cols cs1)) := by
    rw [evalPrim cast (by decide) (evalArgs1 cast hcol)]; rfl
  rw [evalPrim cast (by decide) (evalArgs1 cast hstar)]
  show some (KVal.rows (zipCols (cs1.map (·.2)))) = _
  rw [h2, zip_LK h]

/-- the dict `other_by_id`, built front to back. -/
def byIdDict (R : List (List Cell)) : List (List Cell × Int) :=
  ((List.range R.length).map (fun k => (R[k]!, ((k : Nat) : Int)))).foldl (fun d p => rdictInsert d p.1 p.2) []

theorem eval_byId {st : Store} {e : Env} (hs : Stable lvJ e0 e) (hk : KeysInv self dtS other dtO b1 b2 st) :
    evalK cast st e byIdT = some (.rdict (byIdDict RR)) := by
  have hother := eval_var cast (st := st) hs (x := "other") (by decide) (by decide) h.hother
  have hn : evalK cast st e (.app ".nrow" [.sym "other"]) = some (.int (nrow other : Nat)) := by
    rw [evalPrim cast (by decide) (evalArgs1 cast hother)]; rfl
  have hrange : evalK cast st e (.app "range" [.app ".nrow" [.sym "other"]]) =
      some (.ints ((List.range (nrow other)).map (fun (k : Nat) => (k : Int)))) := by
    rw [evalPrim cast (by decide) (evalArgs1 cast hn)]
    show some (KVal.ints (arange 0 (nrow other : Nat))) = _
    rw [arange_zero]
  have hRlen : (RR).length = nrow other := rowsOf_length _ _
  unfold byIdT
  rw [evalK_dictcomp, hrange]
  simp only [itemsOf, List.map_map]
  rw [loop_total _ (KVal.int ∘ fun (k : Nat) => (k : Int)) (fun d (k : Nat) => rdictInsert d (RR)[k]! (k : Int))]
  · simp only [Option.map_some, byIdDict, hRlen, List.foldl_map]
  · intro d k hk'
    have hk'' : k < nrow other := List.mem_range.mp hk'
    have hst2 : Stable lvJ e0 (("i", .int (k : Nat)) :: e) := hs.push (by decide) _
    have hiv : evalK cast st (("i", .int (k : Nat)) :: e) (.sym "i") = some (.int (k : Nat)) :=
      eval_local cast (by decide) (get?_cons_self _ _ _)
    have hrow : evalK cast st (("i", .int (k : Nat)) :: e) (.app "getitem" [otherIdsT, .sym "i"]) =
        some (.row (RR)[k]!) := by
      rw [evalPrim cast (by decide) (evalArgs2 cast (eval_otherIds cast h hst2 hk) hiv)]
      show (normIdx (RR).length (k : Nat)).bind (fun j => (RR)[j]?.map KVal.row) = _
      rw [DI.PyEval.normIdx_of_inRange (DI.PyEval.inRange_ofNat (by rw [hRlen]; exact hk'')), DI.PyEval.wrapIdx_ofNat]
      simp only [Option.bind_some]
      rw [getElem!_pos _ k (by rw [hRlen]; exact hk''), List.getElem?_eq_getElem (by rw [hRlen]; exact hk'')]
      rfl
    show (match bindPat e (.sym "i") (KVal.int (k : Nat)) with
      | none => none
      | some env' => match evalK cast st env' (.app "getitem" [otherIdsT, .sym "i"]), evalK cast st env' (.sym "i") with
        | some (.row r), some (.int v) => some (rdictInsert d r v)
        | _, _ => none) = _
    simp only [bindPat]
    rw [hrow, hiv]

/-- **`src`** — for every left row the position `other_by_id` holds for its key tuple, or -1 — **is `joinPos`**, the lookup
    of the model's `joinSrc` (the LAST right row with an equal key tuple). -/
theorem eval_src {st : Store} {e : Env} (hs : Stable lvJ e0 e) (hk : KeysInv self dtS other dtO b1 b2 st) :
    evalK cast st e srcT = some (.ints (DI.PyEvalX.joinPos LL RR)) := by
  have hself := eval_var cast (st := st) hs (x := "self") (by decide) (by decide) h.hself
  have hn : evalK cast st e (.app ".nrow" [.sym "self"]) = some (.int (nrow self : Nat)) := by
    rw [evalPrim cast (by decide) (evalArgs1 cast hself)]; rfl
  have hcount : evalK cast st e (.app "=count" [.app ".nrow" [.sym "self"]]) =
      some (.pair (.str "count") (.int (nrow self : Nat))) := by
    rw [evalPrim cast (by decide) (evalArgs1 cast hn)]; rfl
  have hint : evalK cast st e (.sym "int") = some (.str "int") := rfl
  have hRlen : (RR).length = nrow other := rowsOf_length _ _
  have hmap : evalK cast st e (.app "map" [.app "lambda" [.app "params" [.sym "x"],
      .app ".get" [byIdT, .sym "x", .int (-1)]], .app "zip" [.app "*" [K1T]]]) =
      some (.ints (DI.PyEvalX.joinPos LL RR)) := by
    rw [evalK_map, eval_selfIds cast h hs hk]
    simp only [itemsOf, List.map_map]
    rw [DI.PyEval.allSome_map _ (fun r => rdictGet (byIdDict RR) r (-1))]
    · have := dict_lookup_eq_joinPos LL RR
      unfold byIdDict
      rw [Option.map_some, this]
    · intro r _
      have hst2 : Stable lvJ e0 (("x", .row r) :: e) := hs.push (by decide) _
      have hx : evalK cast st (("x", .row r) :: e) (.sym "x") = some (.row r) :=
        eval_local cast (by decide) (get?_cons_self _ _ _)
      show (match evalK cast st (("x", KVal.row r) :: e) (.app ".get" [byIdT, .sym "x", .int (-1)]) with
        | some (.int i) => some i
        | _ => none) = _
      rw [evalPrim cast (by decide) (evalArgs3 cast (eval_byId cast h hst2 hk) hx (evalK_int cast _ _ _))]
      rfl
  unfold srcT
  rw [evalPrim cast (by decide) (evalArgs3 cast hmap hint hcount)]
  show (if 0 ≤ ((nrow self : Nat) : Int) ∧ ((nrow self : Nat) : Int).toNat ≤ (DI.PyEvalX.joinPos LL RR).length
    then some (KVal.ints ((DI.PyEvalX.joinPos LL RR).take ((nrow self : Nat) : Int).toNat)) else none) = _
  have hlen : (DI.PyEvalX.joinPos LL RR).length = nrow self := by simp [DI.PyEvalX.joinPos, rowsOf]
  rw [if_pos (by rw [hlen]; omega)]
  rw [List.take_of_length_le (by rw [hlen]; omega)]

/-- `found = np.where(src > -1)`. -/
theorem eval_found {st : Store} {e : Env} (hs : Stable lvJ e0 e) (hk : KeysInv self dtS other dtO b1 b2 st) :
    evalK cast st e foundT =
      some (.ints ((DI.PyEvalX.foundOf (DI.PyEvalX.joinPos LL RR)).map (fun (k : Nat) => (k : Int)))) := by
  have hgt : evalK cast st e (.app "Gt" [srcT, .int (-1)]) =
      some (.mask ((DI.PyEvalX.joinPos LL RR).map (fun x => decide (x > -1)))) := by
    rw [evalPrim cast (by decide) (evalArgs2 cast (eval_src cast h hs hk) (evalK_int cast _ _ _))]; rfl
  unfold foundT
  rw [evalPrim cast (by decide) (evalArgs1 cast hgt)]
  show some (KVal.ints ((nonzero _).map _)) = _
  rw [nonzero_gt_eq_foundOf]

/-- **the regenerated body of `_get_join_indices` evaluates to `(found, src)`** with `src` the lookup `joinPos` of the key
    tuples of the left rows among the key tuples of the rows of `other` (the last equal one wins), `found` the positions
    with a match. -/
theorem run_join_indices (hcast : CastSound cast) :
    runRet cast e0 (Out.ret [unifyLoop] (.app "tuple" [foundT, srcT])) =
      some (.pair (.ints ((DI.PyEvalX.foundOf (DI.PyEvalX.joinPos LL RR)).map (fun (k : Nat) => (k : Int))))
        (.ints (DI.PyEvalX.joinPos LL RR))) := by
  obtain ⟨st1, env1, hr1, hs1, hk1⟩ := exec_unifyLoop cast h hcast e0 [] (Stable.refl _ _)
  rw [runRet_ret cast (blockK_single cast hr1)]
  rw [evalPrim cast (by decide) (evalArgs2 cast (eval_found cast h hs1 hk1) (eval_src cast h hs1 hk1))]
  rfl

end JoinIdx

/-- the environment `joinIdxEnv` is a call context. -/
theorem joinIdxEnv_ctx (self : Frame) (dtS : String → DT) (other : Frame) (dtO : String → DT) (b1 b2 : List String)
    (hne : b1 ≠ []) (hlen : b1.length = b2.length) (hL : ∀ c ∈ b1, c ∈ names self) (hR : ∀ c ∈ b2, c ∈ names other)
    (hrectS : Rect self) (hrectO : Rect other) :
    JCtx (joinIdxEnv cast self dtS other dtO b1 b2) self dtS other dtO b1 b2 := by
  have hbase : ∀ (fr byv : String) (f : Frame) (dt : String → DT) (l : List String),
      fr ≠ "x" → PlainName fr → PlainName byv →
      Env.get? (callEnv self dtS [("other", .frame other dtO), ("by1", .strs b1), ("by2", .strs b2)]) byv =
        some (.strs l) →
      Env.get? (callEnv self dtS [("other", .frame other dtO), ("by1", .strs b1), ("by2", .strs b2)]) fr =
        some (.frame f dt) →
      (∀ n ∈ l, n ∈ names f) →
      refTo cast (callEnv self dtS [("other", .frame other dtO), ("by1", .strs b1), ("by2", .strs b2)])
        (keysTerm fr byv) = .ref (keysTerm fr byv) (.cols (tcolsOf f dt l)) := by
    intro fr byv f dt l hx hpf hpb hb hf hn
    unfold refTo
    rw [eval_keysTerm cast (find_nil _) (eval_local cast hpb hb)
      (fun n => eval_local cast hpf (by rw [get?_cons_ne _ _ (Ne.symm hx)]; exact hf)) hn]
  have h1 := hbase "self" "by1" self dtS b1 (by decide) (by decide) (by decide) rfl rfl hL
  have h2 := hbase "other" "by2" other dtO b2 (by decide) (by decide) (by decide) rfl rfl hR
  exact ⟨rfl, rfl, rfl, rfl, by unfold joinIdxEnv; simp only []; rw [h1]; rfl,
    by unfold joinIdxEnv; simp only []; rw [h2]; rfl, hne, hlen, hL, hR, hrectS, hrectO⟩

/-! ### first = last for distinct right keys -/

/-- the FIRST position of an equal key tuple, or -1. -/
def firstPos (lrows rrows : List (List Cell)) : List Int :=
  lrows.map (fun r => match rrows.zipIdx.find? (fun p => p.1 == r) with
    | some p => ((p.2 : Nat) : Int)
    | none => -1)

theorem find?_reverse_eq_of_unique {α : Type} (p : α → Bool) (l : List α)
    (hu : ∀ a ∈ l, ∀ b ∈ l, p a = true → p b = true → a = b) : l.reverse.find? p = l.find? p := by
  induction l with
  | nil => rfl
  | cons x t ih =>
    have iht := ih (fun a ha b hb => hu a (List.mem_cons_of_mem _ ha) b (List.mem_cons_of_mem _ hb))
    rw [List.reverse_cons, List.find?_append, iht]
    by_cases hx : p x = true
    · rw [List.find?_cons_of_pos hx, List.find?_cons_of_pos hx]
      cases hft : t.find? p with
      | none => rfl
      | some y =>
        have hy := List.find?_some hft
        have hmem := List.mem_of_find?_eq_some hft
        have := hu x List.mem_cons_self y (List.mem_cons_of_mem _ hmem) hx hy
        rw [this]; rfl
    · rw [List.find?_cons_of_neg hx, List.find?_cons_of_neg hx, List.find?_nil, Option.or_none]

/-- **for distinct right key tuples the dict's "last wins" is "first wins"**: there is at most one candidate. -/
theorem joinPos_eq_firstPos (L R : List (List Cell)) (hnd : R.Nodup) : DI.PyEvalX.joinPos L R = firstPos L R := by
  unfold DI.PyEvalX.joinPos firstPos
  apply List.map_congr_left
  intro r _
  have hrev : R.zipIdx.reverse.find? (fun p => p.1 == r) = R.zipIdx.find? (fun p => p.1 == r) := by
    apply find?_reverse_eq_of_unique
    intro a ha b hb hpa hpb
    have ha' := List.mem_zipIdx_iff_getElem?.mp ha
    have hb' := List.mem_zipIdx_iff_getElem?.mp hb
    have ea : a.1 = r := by simpa using hpa
    have eb : b.1 = r := by simpa using hpb
    obtain ⟨hia, hga⟩ := List.getElem?_eq_some_iff.mp ha'
    obtain ⟨hib, hgb⟩ := List.getElem?_eq_some_iff.mp hb'
    have hidx : a.2 = b.2 := by
      exact (List.getElem_inj (h₀ := hia) (h₁ := hib) hnd).mp (by rw [hga, hgb, ea, eb])
    exact Prod.ext (by rw [ea, eb]) hidx
  rw [hrev]
  rfl



/-! ## Part 6: the primitives of `Model/PyEvalFrameJoin.lean` in the same terms -/

theorem keyNames_subset {f : Frame} {cols : List String} (hnames : ∀ c ∈ cols, c ∈ names f) :
    ∀ c ∈ keyNames f cols, c ∈ names f := by
  intro c hc
  unfold keyNames at hc
  split at hc
  · exact hc
  · exact hnames c hc

/-- the primitive `frame.unique(*cols)` of the join / split evaluators, spelled out. -/
theorem uniqueFrame_eq (f : Frame) (cols : List String) (hnames : ∀ c ∈ cols, c ∈ names f) :
    DI.PyEvalX.uniqueFrame f cols = some (wholeRows f (uniqueIdx (nrow f) ((keyNames f cols).map (colOf f)))) := by
  unfold DI.PyEvalX.uniqueFrame
  have : (if cols.isEmpty then names f else cols) = keyNames f cols := rfl
  rw [this, DI.PyEvalX.keyCols_of_names (keyNames_subset hnames)]
  rfl

/-- the primitive `frame.drop_na(*cols)` of the join evaluator, spelled out. -/
theorem dropNaFrame_eq (f : Frame) (cols : List String) (hnames : ∀ c ∈ cols, c ∈ names f) :
    DI.PyEvalX.dropNaFrame f cols = some (wholeRows f (dropNaIdx (nrow f) (cols.map (colOf f)))) := by
  unfold DI.PyEvalX.dropNaFrame
  rw [DI.PyEvalX.keyCols_of_names hnames]
  rfl

theorem rect_wholeRows (f : Frame) (idx : List Nat) : Rect (wholeRows f idx) := by
  intro p hp
  cases f with
  | nil => simp [wholeRows] at hp
  | cons q t =>
    have hn : nrow (wholeRows (q :: t) idx) = idx.length := by simp [wholeRows, nrow, gather]
    rw [hn]
    obtain ⟨x, _, rfl⟩ := List.mem_map.mp hp
    simp [gather]

/-- **the key tuples of the rows `unique` keeps are pairwise different.** -/
theorem unique_keys_nodup (n : Nat) (ks : List (List Cell)) :
    (rowsOf (uniqueIdx n ks).length (ks.map (fun c => gather c (uniqueIdx n ks)))).Nodup := by
  have hsorted := uniqueIdx_sorted n ks
  rw [List.Nodup, List.pairwise_iff_getElem]
  intro i j hi hj hij
  have hi' : i < (uniqueIdx n ks).length := by simpa [rowsOf] using hi
  have hj' : j < (uniqueIdx n ks).length := by simpa [rowsOf] using hj
  have e1 := rowsOf_gather_get ks (uniqueIdx n ks) i hi'
  have e2 := rowsOf_gather_get ks (uniqueIdx n ks) j hj'
  rw [getElem!_pos _ i hi] at e1
  rw [getElem!_pos _ j hj] at e2
  rw [e1, e2]
  have hlt : (uniqueIdx n ks)[i] < (uniqueIdx n ks)[j] := (List.pairwise_iff_getElem.mp hsorted) i j hi' hj' hij
  have hmemj : (uniqueIdx n ks)[j] ∈ uniqueIdx n ks := List.getElem_mem _
  obtain ⟨hjn, hfirst⟩ := mem_uniqueIdx.mp hmemj
  have := hfirst _ hlt
  rw [rowsOf_get n ks _ (by omega), rowsOf_get n ks _ hjn] at this
  rw [getElem!_pos _ i hi', getElem!_pos _ j hj']
  exact this


/-- the primitive `self._get_join_indices(other, by1, by2)` of the join evaluator, spelled out. -/
theorem joinIndices_eq (a b : Frame) (by1 by2 : List String) (hne : by1 ≠ []) (hlen : by1.length = by2.length)
    (hL : ∀ c ∈ by1, c ∈ names a) (hR : ∀ c ∈ by2, c ∈ names b) :
    DI.PyEvalX.joinIndices a b by1 by2 =
      some ((DI.PyEvalX.foundOf (DI.PyEvalX.joinPos (rowsOf (nrow a) (by1.map (colOf a)))
              (rowsOf (nrow b) (by2.map (colOf b))))).map (fun (k : Nat) => (k : Int)),
            DI.PyEvalX.joinPos (rowsOf (nrow a) (by1.map (colOf a))) (rowsOf (nrow b) (by2.map (colOf b)))) := by
  unfold DI.PyEvalX.joinIndices
  have h1 : (by1.isEmpty || by1.length != by2.length) = false := by
    cases by1 with
    | nil => exact absurd rfl hne
    | cons x t => simp [← hlen]
  rw [h1, DI.PyEvalX.keyCols_of_names hL, DI.PyEvalX.keyCols_of_names hR]
  rfl

/-- the right key tuples of the reduced right frame are pairwise different. -/
theorem reduced_keys_nodup (m : Nat) (rk : List (List Cell)) :
    (rowsOf (rightReduced m rk true).length (rk.map (fun c => gather c (rightReduced m rk true)))).Nodup := by
  simp only [rightReduced, if_true]
  generalize hkept : dropNaIdx m rk = kept
  have hU : ∀ i ∈ uniqueIdx kept.length (rk.map (fun c => gather c kept)), i < kept.length :=
    fun i hi => (mem_uniqueIdx.mp hi).1
  have hcols : rk.map (fun c => gather c (gather kept (uniqueIdx kept.length (rk.map (fun c => gather c kept))))) =
      (rk.map (fun c => gather c kept)).map
        (fun c => gather c (uniqueIdx kept.length (rk.map (fun c => gather c kept)))) := by
    rw [List.map_map]
    apply List.map_congr_left
    intro c _
    exact (DI.PyEvalX.gather_gather c kept _ hU).symm
  rw [hcols, gather_length]
  exact unique_keys_nodup kept.length (rk.map (fun c => gather c kept))

/-- the position a reversed scan finds is the LAST one with an equal element. -/
theorem find_rev_zipIdx_last {α : Type} [BEq α] [LawfulBEq α] (r : α) : ∀ (l : List α) (k : Nat) (p : α × Nat),
    (l.zipIdx k).reverse.find? (fun p => p.1 == r) = some p →
    ∃ i, ∃ hi : i < l.length, p = (l[i], k + i) ∧ l[i] = r ∧ ∀ t (ht : t < l.length), i < t → l[t] ≠ r := by
  intro l
  induction l with
  | nil => intro k p h; simp at h
  | cons x t ih =>
    intro k p h
    rw [List.zipIdx_cons, List.reverse_cons, List.find?_append] at h
    cases hf : (t.zipIdx (k + 1)).reverse.find? (fun p => p.1 == r) with
    | some p' =>
      rw [hf] at h
      have hp : p' = p := by simpa using h
      subst hp
      obtain ⟨i, hi, he, hr, hlast⟩ := ih (k + 1) p' hf
      refine ⟨i + 1, by simpa using hi, ?_, ?_, ?_⟩
      · rw [he]; simp; omega
      · simpa using hr
      · intro t' ht' hlt
        cases t' with
        | zero => omega
        | succ t'' =>
          have := hlast t'' (by simpa using ht') (by omega)
          simpa using this
    | none =>
      rw [hf] at h
      have hx : (x == r) = true := by
        by_cases hx : (x == r) = true
        · exact hx
        · rw [Option.none_or, List.find?_cons_of_neg (by simpa using hx)] at h; simp at h
      rw [Option.none_or, List.find?_cons_of_pos (by simpa using hx)] at h
      have hp : p = (x, k) := by simpa using h.symm
      refine ⟨0, by simp, by simpa using hp, by simpa using hx, ?_⟩
      intro t' ht' hlt heq
      cases t' with
      | zero => omega
      | succ t'' =>
        have ht'' : t'' < t.length := by simpa using ht'
        rw [List.find?_eq_none] at hf
        have hm : (t[t''], k + 1 + t'') ∈ (t.zipIdx (k + 1)).reverse := by
          rw [List.mem_reverse, List.mem_zipIdx_iff_le_and_getElem?_sub]
          refine ⟨by simp, ?_⟩
          simp [ht'']
        have := hf _ hm
        have heq' : t[t''] = r := by simpa using heq
        simp [heq'] at this

/-- **without distinct right keys the LAST equal row wins**: `src[i]` is the last position of the key tuple of left row `i`
    among the right key tuples, or -1 when it does not occur. -/
theorem joinPos_last_wins (L R : List (List Cell)) (i : Nat) (hi : i < L.length) :
    ((DI.PyEvalX.joinPos L R)[i]! = -1 ∧ ∀ t (ht : t < R.length), R[t] ≠ L[i]) ∨
    (∃ j, ∃ hj : j < R.length, (DI.PyEvalX.joinPos L R)[i]! = (j : Int) ∧ R[j] = L[i] ∧
      ∀ t (ht : t < R.length), j < t → R[t] ≠ L[i]) := by
  have hs : (DI.PyEvalX.joinPos L R)[i]! =
      (match R.zipIdx.reverse.find? (fun p => p.1 == L[i]) with
       | some p => ((p.2 : Nat) : Int)
       | none => -1) := by
    unfold DI.PyEvalX.joinPos
    rw [getElem!_pos _ i (by simpa using hi)]
    simp only [List.getElem_map]
    rfl
  rw [hs]
  cases hf : R.zipIdx.reverse.find? (fun p => p.1 == L[i]) with
  | none => exact Or.inl ⟨rfl, find_rev_zipIdx_none R L[i] hf⟩
  | some p =>
    obtain ⟨j, hj, he, hr, hlast⟩ := find_rev_zipIdx_last L[i] R 0 p hf
    refine Or.inr ⟨j, hj, ?_, hr, hlast⟩
    rw [he]; simp

/-- the FIRST position, spelled out. -/
theorem firstPos_get (L R : List (List Cell)) (i : Nat) (hi : i < L.length) :
    (firstPos L R)[i]! = (match R.zipIdx.find? (fun p => p.1 == L[i]) with
      | some p => ((p.2 : Nat) : Int)
      | none => -1) := by
  unfold firstPos
  rw [getElem!_pos _ i (by simpa using hi)]
  simp only [List.getElem_map]


theorem keys_of_takeRows {f : Frame} {cols : List String} (h : ∀ c ∈ cols, c ∈ names f) (idx : List Nat) :
    cols.map (colOf (DI.PyEvalX.takeRows f idx)) = (cols.map (colOf f)).map (fun c => gather c idx) := by
  have h1 := DI.PyEvalX.keyCols_takeRows h idx
  have h2 := DI.PyEvalX.keyCols_of_names (f := DI.PyEvalX.takeRows f idx) (cols := cols)
    (by rw [DI.PyEvalX.names_takeRows]; exact h)
  rw [h2] at h1
  exact Option.some.inj h1

/-- **the frame `other.drop_na(*by2).unique(*by2)` has pairwise different right key tuples** — the hypothesis under which
    the dict's "last wins" is "first wins". -/
theorem reduced_frame_keys_nodup (other : Frame) (cols : List String) (hne : cols ≠ [])
    (hR : ∀ c ∈ cols, c ∈ names other) :
    (rowsOf (nrow (wholeRows other (rightReduced (nrow other) (cols.map (colOf other)) true)))
      (cols.map (colOf (wholeRows other (rightReduced (nrow other) (cols.map (colOf other)) true))))).Nodup := by
  rw [← DI.PyEvalX.takeRows_eq_wholeRows, keys_of_takeRows hR,
    DI.PyEvalX.nrow_takeRows (DI.PyEvalX.ne_nil_of_names hne hR)]
  exact reduced_keys_nodup (nrow other) (cols.map (colOf other))


/-! ### the missing-value convention does not matter once the right keys have no missing cell -/

/-- the lookup under the OTHER convention: a key tuple with a missing cell equals no tuple (NaN / NaT do not equal
    themselves; `_get_join_indices`, unlike `unique`, does not replace them by `None`). -/
def joinPosStrict (lrows rrows : List (List Cell)) : List Int :=
  lrows.map (fun r => match rrows.zipIdx.reverse.find? (fun p => p.1 == r && p.1.all (fun c => !isNa c)) with
    | some p => ((p.2 : Nat) : Int)
    | none => -1)

theorem find?_congr_mem {α : Type} (p q : α → Bool) (l : List α) (h : ∀ a ∈ l, p a = q a) :
    l.find? p = l.find? q := by
  induction l with
  | nil => rfl
  | cons x t ih =>
    have hx := h x List.mem_cons_self
    have iht := ih (fun a ha => h a (List.mem_cons_of_mem _ ha))
    simp only [List.find?_cons, hx, iht]

/-- **when no right key tuple has a missing cell (what `drop_na` guarantees) both conventions give the same `src`.** -/
theorem joinPos_eq_strict (L R : List (List Cell)) (h : ∀ r ∈ R, ∀ c ∈ r, isNa c = false) :
    DI.PyEvalX.joinPos L R = joinPosStrict L R := by
  unfold DI.PyEvalX.joinPos joinPosStrict
  apply List.map_congr_left
  intro r _
  have : R.zipIdx.reverse.find? (fun p => p.1 == r) =
      R.zipIdx.reverse.find? (fun p => p.1 == r && p.1.all (fun c => !isNa c)) := by
    apply find?_congr_mem
    intro a ha
    rw [List.mem_reverse] at ha
    obtain ⟨hi, hg⟩ := List.getElem?_eq_some_iff.mp (List.mem_zipIdx_iff_getElem?.mp ha)
    have hmem : a.1 ∈ R := by rw [← hg]; exact List.getElem_mem _
    have hall : a.1.all (fun c => !isNa c) = true := by
      rw [List.all_eq_true]
      intro c hc
      simp [h a.1 hmem c hc]
    rw [hall, Bool.and_true]
  rw [this]
  rfl

/-- the right key tuples of the reduced right frame have no missing cell. -/
theorem reduced_keys_no_missing (m : Nat) (rk : List (List Cell)) :
    ∀ r ∈ rowsOf (rightReduced m rk true).length (rk.map (fun c => gather c (rightReduced m rk true))),
      ∀ c ∈ r, isNa c = false := by
  intro r hr c hc
  obtain ⟨t, ht, hg⟩ := List.mem_iff_getElem.mp hr
  have ht' : t < (rightReduced m rk true).length := by simpa [rowsOf] using ht
  have e := rowsOf_gather_get rk (rightReduced m rk true) t ht'
  rw [getElem!_pos _ t ht, hg] at e
  obtain ⟨_, hna, _⟩ := rightReduced_spec m rk t ht'
  rw [e] at hc
  obtain ⟨col, hcol, rfl⟩ := List.mem_map.mp hc
  exact hna col hcol

end DI.PyEvalKeys

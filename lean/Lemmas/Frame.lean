/-
  Lemmas/Frame.lean — row subsetting (C02): the index lists computed by filter / filter_out /
  slice / head / tail / drop_na / unique are exactly the positions the property names,
  in increasing order.
-/
import Model.Frame
import Lemmas.Sort

namespace DI

/-! ### gather: whole rows -/

theorem gather_length [Inhabited α] (col : List α) (idx : List Nat) :
    (gather col idx).length = idx.length := by simp [gather]

/-- row `j` of the output is row `idx[j]` of the input — in every column alike, because every
    column goes through the same `gather`. -/
theorem gather_get [Inhabited α] (col : List α) (idx : List Nat) (j : Nat) (h : j < idx.length) :
    (gather col idx)[j]! = col[idx[j]!]! := by
  simp [gather, h]

/-! ### filter / filter_out -/

theorem mem_nonzero {mask : List Bool} {i : Nat} :
    i ∈ nonzero mask ↔ i < mask.length ∧ mask[i]! = true := by
  simp [nonzero, List.mem_filter]

theorem range_filter_sorted (n : Nat) (p : Nat → Bool) :
    ((List.range n).filter p).Pairwise (· < ·) :=
  List.Pairwise.filter _ List.pairwise_lt_range

theorem nonzero_sorted (mask : List Bool) : (nonzero mask).Pairwise (· < ·) :=
  range_filter_sorted _ _

theorem mem_filterIdx {mask : List Bool} {i : Nat} :
    i ∈ filterIdx mask ↔ i < mask.length ∧ mask[i]! = true := mem_nonzero

theorem mem_filterOutIdx {mask : List Bool} {i : Nat} :
    i ∈ filterOutIdx mask ↔ i < mask.length ∧ mask[i]! = false := by
  unfold filterOutIdx deleteIdx
  simp only [List.mem_filter, List.mem_range, Bool.not_eq_true', List.contains_eq_mem,
    decide_eq_false_iff_not, mem_nonzero]
  constructor
  · rintro ⟨h1, h2⟩
    refine ⟨h1, ?_⟩
    cases h : mask[i]! with
    | false => rfl
    | true => exact absurd ⟨h1, h⟩ h2
  · rintro ⟨h1, h2⟩
    exact ⟨h1, fun h => by simp [h2] at h⟩

theorem filterOutIdx_sorted (mask : List Bool) : (filterOutIdx mask).Pairwise (· < ·) :=
  range_filter_sorted _ _

/-- `filter` and `filter_out` partition the rows. -/
theorem filter_partition (mask : List Bool) :
    (filterIdx mask ++ filterOutIdx mask).Perm (List.range mask.length) := by
  have h : filterOutIdx mask = (List.range mask.length).filter (fun i => !(mask[i]!)) := by
    unfold filterOutIdx deleteIdx
    apply List.filter_congr
    intro i hi
    have hi' : i < mask.length := by simpa using hi
    cases hm : mask[i]! with
    | false =>
      have : ¬ i ∈ nonzero mask := fun h => by simp [mem_nonzero, hm] at h
      simp [this]
    | true =>
      have : i ∈ nonzero mask := mem_nonzero.mpr ⟨hi', hm⟩
      simp [this]
  rw [h]
  exact List.filter_append_perm _ _

/-! ### head / tail -/

theorem headIdx_spec (nrow n : Nat) : headIdx nrow n = List.range (min n nrow) := by
  simp [headIdx, Nat.min_comm]

theorem mem_tailIdx {nrow n i : Nat} :
    i ∈ tailIdx nrow n ↔ nrow - min n nrow ≤ i ∧ i < nrow := by
  simp only [tailIdx, List.mem_map, List.mem_range]
  constructor
  · rintro ⟨k, hk, rfl⟩; omega
  · rintro ⟨h1, h2⟩
    exact ⟨i - (nrow - min nrow n), by omega, by omega⟩

theorem tailIdx_length (nrow n : Nat) : (tailIdx nrow n).length = min n nrow := by
  simp [tailIdx, Nat.min_comm]

theorem tailIdx_sorted (nrow n : Nat) : (tailIdx nrow n).Pairwise (· < ·) := by
  unfold tailIdx
  rw [List.pairwise_map]
  exact List.pairwise_lt_range.imp (by intro a b h; omega)

/-! ### slice / slice_off -/

theorem sliceIdx_get (n : Nat) (rows : List Int) (j : Nat) (h : j < rows.length) :
    (sliceIdx n rows)[j]! = wrapIdx n rows[j]! := by
  simp [sliceIdx, h]

theorem mem_sliceOffIdx {n : Nat} {rows : List Int} {i : Nat} :
    i ∈ sliceOffIdx n rows ↔ i < n ∧ ∀ r ∈ rows, wrapIdx n r ≠ i := by
  simp [sliceOffIdx, deleteIdx, List.mem_filter]

theorem sliceOffIdx_sorted (n : Nat) (rows : List Int) : (sliceOffIdx n rows).Pairwise (· < ·) :=
  range_filter_sorted _ _

/-! ### drop_na -/

theorem mem_dropNaIdx {n : Nat} {cols : List (List Cell)} {i : Nat} :
    i ∈ dropNaIdx n cols ↔ i < n ∧ ∀ c ∈ cols, isNa c[i]! = false := by
  unfold dropNaIdx
  rw [mem_filterOutIdx]
  simp only [List.length_map, List.length_range]
  constructor
  · rintro ⟨h1, h2⟩
    refine ⟨h1, ?_⟩
    simp [h1] at h2
    intro c hc; simpa using h2 c hc
  · rintro ⟨h1, h2⟩
    refine ⟨h1, ?_⟩
    simp [h1]
    intro c hc; simpa using h2 c hc

theorem dropNaIdx_sorted (n : Nat) (cols : List (List Cell)) : (dropNaIdx n cols).Pairwise (· < ·) :=
  filterOutIdx_sorted _

/-! ### unique -/

/-- what the first-seen scan computes, position by position. -/
theorem mem_uniqueScan [DecidableEq α] (rs : List α) (i : Nat) (seen : List α) (j : Nat) :
    j ∈ uniqueScan rs i seen ↔
      ∃ k r, rs[k]? = some r ∧ j = i + k ∧ r ∉ seen ∧ r ∉ rs.take k := by
  induction rs generalizing i seen with
  | nil => simp [uniqueScan]
  | cons r rs ih =>
    unfold uniqueScan
    by_cases hr : seen.contains r = true
    · simp only [hr, if_true]
      rw [ih]
      have hr' : r ∈ seen := by simpa using hr
      constructor
      · rintro ⟨k, r', h1, h2, h3, h4⟩
        refine ⟨k + 1, r', by simpa using h1, by omega, h3, ?_⟩
        simp only [List.take_succ_cons, List.mem_cons, not_or]
        exact ⟨fun h => h3 (h ▸ hr'), h4⟩
      · rintro ⟨k, r', h1, h2, h3, h4⟩
        cases k with
        | zero =>
          simp at h1; subst h1; exact absurd hr' h3
        | succ k =>
          refine ⟨k, r', by simpa using h1, by omega, h3, ?_⟩
          simp only [List.take_succ_cons, List.mem_cons, not_or] at h4
          exact h4.2
    · simp only [hr, Bool.false_eq_true, if_false, List.mem_cons]
      have hr' : r ∉ seen := by simpa using hr
      rw [ih]
      constructor
      · rintro (rfl | ⟨k, r', h1, h2, h3, h4⟩)
        · exact ⟨0, r, by simp, by omega, hr', by simp⟩
        · simp only [List.mem_cons, not_or] at h3
          refine ⟨k + 1, r', by simpa using h1, by omega, h3.2, ?_⟩
          simp only [List.take_succ_cons, List.mem_cons, not_or]
          exact ⟨h3.1, h4⟩
      · rintro ⟨k, r', h1, h2, h3, h4⟩
        cases k with
        | zero => left; omega
        | succ k =>
          right
          simp only [List.take_succ_cons, List.mem_cons, not_or] at h4
          refine ⟨k, r', by simpa using h1, by omega, ?_, h4.2⟩
          simp only [List.mem_cons, not_or]
          exact ⟨h4.1, h3⟩

theorem uniqueScan_sorted [DecidableEq α] (rs : List α) (i : Nat) (seen : List α) :
    (uniqueScan rs i seen).Pairwise (· < ·) ∧ ∀ j ∈ uniqueScan rs i seen, i ≤ j := by
  induction rs generalizing i seen with
  | nil => simp [uniqueScan]
  | cons r rs ih =>
    unfold uniqueScan
    split
    · have := ih (i + 1) seen
      exact ⟨this.1, fun j hj => by have := this.2 j hj; omega⟩
    · have := ih (i + 1) (r :: seen)
      refine ⟨?_, ?_⟩
      · rw [List.pairwise_cons]
        exact ⟨fun j hj => by have := this.2 j hj; omega, this.1⟩
      · intro j hj
        rcases List.mem_cons.mp hj with rfl | hj
        · omega
        · have := this.2 j hj; omega

/-- `DataFrame.unique` keeps exactly the first row of every distinct key combination:
    row `j` is kept iff no earlier row has the same key tuple (missing = missing, since the
    missing value is the one cell `none`). -/
theorem mem_uniqueIdx {n : Nat} {cols : List (List Cell)} {j : Nat} :
    j ∈ uniqueIdx n cols ↔
      j < n ∧ ∀ j' < j, (rowsOf n cols)[j']! ≠ (rowsOf n cols)[j]! := by
  unfold uniqueIdx
  rw [mem_uniqueScan]
  have hlen : (rowsOf n cols).length = n := by simp [rowsOf]
  constructor
  · rintro ⟨k, r, h1, h2, _, h4⟩
    have hk : k = j := by omega
    subst hk
    have hkn : k < (rowsOf n cols).length := by
      rcases List.getElem?_eq_some_iff.mp h1 with ⟨h, _⟩; exact h
    refine ⟨by omega, ?_⟩
    intro j' hj' heq
    apply h4
    have hj'n : j' < (rowsOf n cols).length := by omega
    have e1 : (rowsOf n cols)[k]! = r := by simp [h1]
    rw [e1] at heq
    rw [← heq]
    rw [List.mem_take_iff_getElem]
    refine ⟨j', by omega, ?_⟩
    simp [hj'n]
  · rintro ⟨h1, h2⟩
    have hjn : j < (rowsOf n cols).length := by omega
    refine ⟨j, (rowsOf n cols)[j], by simp [hjn], by omega, by simp, ?_⟩
    intro hmem
    rw [List.mem_take_iff_getElem] at hmem
    obtain ⟨j', hj', heq⟩ := hmem
    have hj'' : j' < j := by omega
    apply h2 j' hj''
    have : j' < (rowsOf n cols).length := by omega
    simp [this, hjn, heq]

theorem uniqueIdx_sorted (n : Nat) (cols : List (List Cell)) : (uniqueIdx n cols).Pairwise (· < ·) :=
  (uniqueScan_sorted _ _ _).1

end DI

/-
  Lemmas/DfSortMore.lean — more of C03 (DataFrame.sort): where the missing values of a key go
  inside a tie group of the earlier keys, the degenerate frames (0 rows, 1 row, no keys) and
  idempotence (sorting the sorted frame by the same keys is the identity).
-/
import Model.Frame
import Lemmas.Sort
import Lemmas.DfSort
import Lemmas.Frame

namespace DI.SortMore

/-! ### the specification orders are strict linear orders on cells -/

structure StrictLin (lt : Cell → Cell → Bool) : Prop where
  irrefl : ∀ a, lt a a = false
  asymm : ∀ a b, lt a b = true → lt b a = false
  tricho : ∀ a b, lt a b = false → lt b a = false → a = b

theorem cellLt_strictLin : StrictLin (ltNaLast Key.le) :=
  ⟨cellLt_irrefl, fun _ _ h => cellLt_asymm h, fun _ _ h1 h2 => cellLt_tricho h1 h2⟩

theorem cellLt_flip_strictLin : StrictLin (fun a b => ltNaLast Key.le b a) :=
  ⟨cellLt_irrefl, fun _ _ h => cellLt_asymm h, fun _ _ h1 h2 => cellLt_tricho h2 h1⟩

theorem descNaLast_strictLin : StrictLin descNaLast := by
  constructor
  · intro a
    cases a with
    | none => rfl
    | some a => exact cellLt_irrefl (some a)
  · intro a b h
    cases a <;> cases b <;> simp only [descNaLast] at h ⊢
    · cases h
    · exact cellLt_asymm h
  · intro a b h1 h2
    cases a <;> cases b <;> simp only [descNaLast] at h1 h2 ⊢
    · cases h2
    · cases h1
    · exact cellLt_tricho h2 h1

theorem specLt_strictLin (k : ColKind) (desc : Bool) (col : List Cell) : StrictLin (specLt k desc col) := by
  unfold specLt
  cases desc
  · simpa using cellLt_strictLin
  · cases rankedKey k col
    · simpa using descNaLast_strictLin
    · simpa using cellLt_flip_strictLin

theorem specLts_strictLin (keys : List (ColKind × Bool × List Cell)) :
    ∀ lt ∈ specLts keys, StrictLin lt := by
  intro lt h
  simp only [specLts, List.mem_map] at h
  obtain ⟨k, _, rfl⟩ := h
  exact specLt_strictLin _ _ _

/-! ### lexicographic order and tie groups of the leading keys -/

/-- between two rows that agree on the first `m` keys, a row of the sorted frame agrees with
    them on these keys: tie groups of the leading keys are contiguous. -/
theorem leLexBy_sandwich : ∀ (m : Nat) (lts : List (Cell → Cell → Bool)) (a b c : List Cell),
    (∀ lt ∈ lts, StrictLin lt) → m ≤ lts.length → m ≤ a.length → m ≤ b.length → m ≤ c.length →
    leLexBy lts a b = true → leLexBy lts b c = true → a.take m = c.take m → b.take m = a.take m := by
  intro m
  induction m with
  | zero => intros; simp
  | succ m ih =>
    intro lts a b c hl h1 h2 h3 h4 hab hbc hac
    match lts, a, b, c, h1, h2, h3, h4 with
    | lt :: lts, a0 :: as, b0 :: bs, c0 :: cs, h1, h2, h3, h4 =>
      simp only [List.take_succ_cons, List.cons.injEq] at hac ⊢
      obtain ⟨h0, hac⟩ := hac
      subst h0
      have hlt := hl lt (by simp)
      simp only [leLexBy] at hab hbc
      cases e1 : lt a0 b0
      · cases e2 : lt b0 a0
        · have := hlt.tricho _ _ e1 e2
          subst this
          simp only [e1, Bool.false_eq_true, if_false] at hab hbc
          refine ⟨rfl, ?_⟩
          exact ih lts as bs cs (fun lt' h' => hl lt' (by simp [h'])) (by simpa using h1)
            (by simpa using h2) (by simpa using h3) (by simpa using h4) hab hbc hac
        · simp [e1, e2] at hab
      · have e2 := hlt.asymm _ _ e1
        simp [e1, e2] at hbc

/-- two rows of the sorted frame that agree on the first `m` keys are in the order of key `m`. -/
theorem leLexBy_tied_key : ∀ (m : Nat) (lts : List (Cell → Cell → Bool)) (a b : List Cell),
    (∀ lt ∈ lts, StrictLin lt) → (hm : m < lts.length) → m < a.length → m < b.length →
    a.take m = b.take m → leLexBy lts a b = true → lts[m] b[m]! a[m]! = false := by
  intro m
  induction m with
  | zero =>
    intro lts a b hl h1 h2 h3 _ hab
    match lts, a, b, h1, h2, h3 with
    | lt :: lts, a0 :: as, b0 :: bs, _, _, _ =>
      have hlt := hl lt (by simp)
      simp only [leLexBy] at hab
      simp only [List.getElem_cons_zero, getElem!_pos, List.length_cons, Nat.zero_lt_succ]
      cases e1 : lt a0 b0
      · cases e2 : lt b0 a0
        · rfl
        · simp [e1, e2] at hab
      · exact hlt.asymm _ _ e1
  | succ m ih =>
    intro lts a b hl h1 h2 h3 htie hab
    match lts, a, b, h1, h2, h3 with
    | lt :: lts, a0 :: as, b0 :: bs, h1, h2, h3 =>
      simp only [List.take_succ_cons, List.cons.injEq] at htie
      obtain ⟨h0, htie⟩ := htie
      subst h0
      have hlt := hl lt (by simp)
      simp only [leLexBy, hlt.irrefl, Bool.false_eq_true, if_false] at hab
      have := ih lts as bs (fun lt' h' => hl lt' (by simp [h'])) (by simpa using h1)
        (by simpa using h2) (by simpa using h3) htie hab
      simpa using this

/-! ### key rows of a sort call -/

/-- the tuple of key cells of row `i`. -/
def sortRow (n : Nat) (keys : List (ColKind × Bool × List Cell)) (i : Nat) : List Cell :=
  (rowsOf n (origCols keys))[i]!

theorem sortRow_eq (n : Nat) (keys : List (ColKind × Bool × List Cell)) (i : Nat) (hi : i < n) :
    sortRow n keys i = keys.map (fun k => k.2.2[i]!) := by
  unfold sortRow
  rw [rowsOf_get n _ i hi]
  simp [origCols]

theorem sortRow_length (n : Nat) (keys : List (ColKind × Bool × List Cell)) (i : Nat) (hi : i < n) :
    (sortRow n keys i).length = keys.length := by
  rw [sortRow_eq n keys i hi]; simp

theorem sortRow_cell (n : Nat) (keys : List (ColKind × Bool × List Cell)) (i : Nat) (hi : i < n)
    (m : Nat) (hm : m < keys.length) : (sortRow n keys i)[m]! = (keys[m]).2.2[i]! := by
  rw [sortRow_eq n keys i hi]; simp [hm]

theorem mem_dfSortIdx {n : Nat} {keys : List (ColKind × Bool × List Cell)} {i : Nat} :
    i ∈ dfSortIdx n keys ↔ i < n := by
  rw [(dfSortIdx_perm n keys).mem_iff]; simp

theorem dfSortIdx_length (n : Nat) (keys : List (ColKind × Bool × List Cell)) :
    (dfSortIdx n keys).length = n := by
  simpa using (dfSortIdx_perm n keys).length_eq

/-- the result, as a relation between row ids: earlier in the result = not after in key order. -/
theorem dfSortIdx_pairwise (n : Nat) (keys : List (ColKind × Bool × List Cell)) (hwf : WfKeys n keys) :
    (dfSortIdx n keys).Pairwise
      (fun i j => leLexBy (specLts keys) (sortRow n keys i) (sortRow n keys j) = true) := by
  have := dfSortIdx_sorted_spec n keys hwf
  unfold gather at this
  rw [List.pairwise_map] at this
  exact this

theorem dfSortIdx_before (n : Nat) (keys : List (ColKind × Bool × List Cell)) (hwf : WfKeys n keys)
    {i j : Nat} (hs : [i, j].Sublist (dfSortIdx n keys)) :
    leLexBy (specLts keys) (sortRow n keys i) (sortRow n keys j) = true := by
  have h := List.Pairwise.sublist hs (dfSortIdx_pairwise n keys hwf)
  rw [List.pairwise_pair] at h
  exact h

theorem specLts_get (keys : List (ColKind × Bool × List Cell)) (m : Nat) (hm : m < keys.length) :
    (specLts keys)[m]'(by simpa [specLts] using hm) = specLt keys[m].1 keys[m].2.1 keys[m].2.2 := by
  simp [specLts]

/-- rows `i` before `j` in the result and tied on the first `m` keys: key `m` does not put `j`
    strictly before `i`. -/
theorem dfSort_tied_key_order (n : Nat) (keys : List (ColKind × Bool × List Cell)) (hwf : WfKeys n keys)
    (m : Nat) (hm : m < keys.length) (i j : Nat) (hs : [i, j].Sublist (dfSortIdx n keys))
    (htie : (sortRow n keys i).take m = (sortRow n keys j).take m) :
    specLt keys[m].1 keys[m].2.1 keys[m].2.2 (sortRow n keys j)[m]! (sortRow n keys i)[m]! = false := by
  have hi : i < n := mem_dfSortIdx.mp (hs.subset (by simp))
  have hj : j < n := mem_dfSortIdx.mp (hs.subset (by simp))
  have hlen : m < (specLts keys).length := by simpa [specLts] using hm
  have := leLexBy_tied_key m (specLts keys) _ _ (specLts_strictLin keys) hlen
    (by rw [sortRow_length n keys i hi]; exact hm) (by rw [sortRow_length n keys j hj]; exact hm)
    htie (dfSortIdx_before n keys hwf hs)
  rw [specLts_get keys m hm] at this
  exact this

/-- does key column `col` (dtype flags `k`, direction `desc`) put its missing values after the
    other rows?  Ascending: always.  Descending: only when `sort_key` negates a numeric column
    (floats, timedeltas); when it ranks the column (strings, booleans, dates, objects) the
    missing values come first. -/
def naLast (k : ColKind) (desc : Bool) (col : List Cell) : Bool := !desc || !rankedKey k col

theorem specLt_naLast {k : ColKind} {desc : Bool} {col : List Cell} (h : naLast k desc col = true)
    (a : Key) : specLt k desc col (some a) none = true := by
  unfold specLt
  cases desc
  · simp [ltNaLast]
  · have : rankedKey k col = false := by simpa [naLast] using h
    simp [this, descNaLast]

theorem specLt_naFirst {k : ColKind} {desc : Bool} {col : List Cell} (h : naLast k desc col = false)
    (a : Key) : specLt k desc col none (some a) = true := by
  unfold specLt
  have h' : desc = true ∧ rankedKey k col = true := by simpa [naLast] using h
  simp [h'.1, h'.2, ltNaLast]

/-- missing values of key `m` go last inside a tie group of the earlier keys (ascending keys,
    descending numeric keys): after a row with a missing key there are only such rows. -/
theorem dfSort_missing_last (n : Nat) (keys : List (ColKind × Bool × List Cell)) (hwf : WfKeys n keys)
    (m : Nat) (hm : m < keys.length) (hlast : naLast keys[m].1 keys[m].2.1 keys[m].2.2 = true)
    (i j : Nat) (hs : [i, j].Sublist (dfSortIdx n keys))
    (htie : (sortRow n keys i).take m = (sortRow n keys j).take m)
    (hna : (sortRow n keys i)[m]! = none) : (sortRow n keys j)[m]! = none := by
  have h := dfSort_tied_key_order n keys hwf m hm i j hs htie
  rw [hna] at h
  cases hj : (sortRow n keys j)[m]! with
  | none => rfl
  | some a => rw [hj, specLt_naLast hlast a] at h; cases h

/-- missing values of key `m` go first inside a tie group of the earlier keys when the key is
    descending and ranked: before a row with a missing key there are only such rows. -/
theorem dfSort_missing_first (n : Nat) (keys : List (ColKind × Bool × List Cell)) (hwf : WfKeys n keys)
    (m : Nat) (hm : m < keys.length) (hfirst : naLast keys[m].1 keys[m].2.1 keys[m].2.2 = false)
    (i j : Nat) (hs : [i, j].Sublist (dfSortIdx n keys))
    (htie : (sortRow n keys i).take m = (sortRow n keys j).take m)
    (hna : (sortRow n keys j)[m]! = none) : (sortRow n keys i)[m]! = none := by
  have h := dfSort_tied_key_order n keys hwf m hm i j hs htie
  rw [hna] at h
  cases hi : (sortRow n keys i)[m]! with
  | none => rfl
  | some a => rw [hi, specLt_naFirst hfirst a] at h; cases h

theorem sublist_triple {l : List Nat} {i j k : Nat} (hs : [i, j, k].Sublist l) :
    [i, j].Sublist l ∧ [j, k].Sublist l ∧ [i, k].Sublist l := by
  refine ⟨?_, ?_, ?_⟩
  · exact List.Sublist.trans (by simp) hs
  · exact List.Sublist.trans (List.Sublist.cons _ (List.Sublist.refl _)) hs
  · refine List.Sublist.trans ?_ hs
    exact List.Sublist.cons_cons _ (List.Sublist.cons _ (List.Sublist.refl _))

/-- contiguity, both directions, every dtype: a row of the result between two rows that are
    tied on the earlier keys and both have key `m` missing is tied with them and has key `m`
    missing as well. -/
theorem dfSort_missing_contiguous (n : Nat) (keys : List (ColKind × Bool × List Cell)) (hwf : WfKeys n keys)
    (m : Nat) (hm : m < keys.length) (i j k : Nat) (hs : [i, j, k].Sublist (dfSortIdx n keys))
    (htie : (sortRow n keys i).take m = (sortRow n keys k).take m)
    (hi : (sortRow n keys i)[m]! = none) (hk : (sortRow n keys k)[m]! = none) :
    (sortRow n keys j).take m = (sortRow n keys i).take m ∧ (sortRow n keys j)[m]! = none := by
  obtain ⟨hij, hjk, _⟩ := sublist_triple hs
  have hi' : i < n := mem_dfSortIdx.mp (hs.subset (by simp))
  have hj' : j < n := mem_dfSortIdx.mp (hs.subset (by simp))
  have hk' : k < n := mem_dfSortIdx.mp (hs.subset (by simp))
  have hm' : m ≤ keys.length := Nat.le_of_lt hm
  have hsand := leLexBy_sandwich m (specLts keys) _ _ _ (specLts_strictLin keys)
    (by simpa [specLts] using hm') (by rw [sortRow_length n keys i hi']; exact hm')
    (by rw [sortRow_length n keys j hj']; exact hm') (by rw [sortRow_length n keys k hk']; exact hm')
    (dfSortIdx_before n keys hwf hij) (dfSortIdx_before n keys hwf hjk) htie
  refine ⟨hsand, ?_⟩
  cases hl : naLast keys[m].1 keys[m].2.1 keys[m].2.2
  · exact dfSort_missing_first n keys hwf m hm hl j k hjk (hsand.trans htie) hk
  · exact dfSort_missing_last n keys hwf m hm hl i j hij hsand.symm hi

/-! ### degenerate frames -/

theorem dfSortIdx_zero (keys : List (ColKind × Bool × List Cell)) : dfSortIdx 0 keys = [] := by
  have := dfSortIdx_perm 0 keys
  simpa using this

theorem dfSortIdx_one (keys : List (ColKind × Bool × List Cell)) : dfSortIdx 1 keys = [0] := by
  have := dfSortIdx_perm 1 keys
  have e : List.range 1 = [0] := rfl
  rw [e] at this
  exact List.perm_singleton.mp this

/-- a stable index sort of an already ordered list is the identity. -/
theorem argsort_of_sorted {α : Type} (le : α → α → Bool) (xs : List α)
    (h : xs.Pairwise (fun a b => le a b = true)) : argsort le xs = List.range xs.length := by
  unfold argsort sortPairs
  have hz : xs.zipIdx.Pairwise (fun p q => le p.1 q.1 = true) := by
    have e := List.zipIdx_map_fst 0 xs
    rw [← e, List.pairwise_map] at h
    exact h
  rw [List.mergeSort_of_pairwise hz, List.zipIdx_map_snd]
  simp [List.range_eq_range']

theorem dfSortIdx_no_keys (n : Nat) : dfSortIdx n [] = List.range n := by
  unfold dfSortIdx lexsortIdx
  have h : (rowsOf n ([] : List (List Cell))).Pairwise (fun a b => leLex a b = true) := by
    unfold rowsOf
    rw [List.pairwise_map]
    exact List.pairwise_lt_range.imp (by intro a b _; simp [leLex])
  have := argsort_of_sorted leLex _ h
  rw [rowsOf_length] at this
  simpa using this

/-! ### idempotence -/

/-- the key columns of the sorted frame. -/
def gatherKeys (keys : List (ColKind × Bool × List Cell)) (idx : List Nat) :
    List (ColKind × Bool × List Cell) :=
  keys.map (fun k => (k.1, k.2.1, gather k.2.2 idx))

theorem gather_perm_range (col : List Cell) (idx : List Nat) (h : idx.Perm (List.range col.length)) :
    (gather col idx).Perm col := by
  unfold gather
  have h1 := h.map (fun i => col[i]!)
  refine h1.trans ?_
  have : (List.range col.length).map (fun i => col[i]!) = col := by
    apply List.ext_getElem
    · simp
    · intro i h1 h2
      simp at h1
      simp [h1]
  rw [this]

theorem specLt_gather (k : ColKind) (desc : Bool) (col : List Cell) (idx : List Nat)
    (h : idx.Perm (List.range col.length)) : specLt k desc (gather col idx) = specLt k desc col := by
  unfold specLt rankedKey
  rw [(gather_perm_range col idx h).any_eq]

theorem gatherKeys_wf (n : Nat) (keys : List (ColKind × Bool × List Cell)) (hwf : WfKeys n keys)
    (idx : List Nat) (h : idx.Perm (List.range n)) : WfKeys n (gatherKeys keys idx) := by
  intro k' hk'
  simp only [gatherKeys, List.mem_map] at hk'
  obtain ⟨k, hk, rfl⟩ := hk'
  obtain ⟨hlen, hint⟩ := hwf k hk
  refine ⟨?_, ?_⟩
  · simpa [gather_length] using h.length_eq
  · intro hn c hc
    have hp := gather_perm_range k.2.2 idx (by rw [hlen]; exact h)
    exact hint hn c (hp.mem_iff.mp hc)

theorem specLts_gatherKeys (n : Nat) (keys : List (ColKind × Bool × List Cell)) (hwf : WfKeys n keys)
    (idx : List Nat) (h : idx.Perm (List.range n)) : specLts (gatherKeys keys idx) = specLts keys := by
  unfold specLts gatherKeys
  rw [List.map_map]
  apply List.map_congr_left
  intro k hk
  simp only [Function.comp]
  exact specLt_gather _ _ _ _ (by rw [(hwf k hk).1]; exact h)

/-- sorting the sorted frame by the same keys changes nothing. -/
theorem dfSortIdx_idempotent (n : Nat) (keys : List (ColKind × Bool × List Cell)) (hwf : WfKeys n keys) :
    dfSortIdx n (gatherKeys keys (dfSortIdx n keys)) = List.range n := by
  have hperm := dfSortIdx_perm n keys
  have hlen := dfSortIdx_length n keys
  have hwf' := gatherKeys_wf n keys hwf _ hperm
  have hsorted := dfSortIdx_pairwise n keys hwf
  generalize hidx : dfSortIdx n keys = idx at hperm hlen hwf' hsorted
  have hgoal : (rowsOf n ((gatherKeys keys idx).map (fun k => sortKey k.1 k.2.1 k.2.2))).Pairwise
      (fun a b => leLex a b = true) := by
    unfold rowsOf
    rw [List.pairwise_map]
    refine List.Pairwise.imp_of_mem ?_ List.pairwise_lt_range
    intro a b ha hb hab
    have ha' : a < n := by simpa using ha
    have hb' : b < n := by simpa using hb
    rw [leLex_keys_eq_spec n _ hwf' a b ha' hb', specLts_gatherKeys n keys hwf idx hperm]
    have hcell : ∀ p, p < n → (origCols (gatherKeys keys idx)).map (fun c => c[p]!)
        = sortRow n keys idx[p]! := by
      intro p hp
      have hpn : idx[p]! < n := by
        have : idx[p]! ∈ idx := by simp [hlen, hp]
        simpa using hperm.mem_iff.mp this
      rw [sortRow_eq n keys _ hpn]
      simp only [origCols, gatherKeys, List.map_map]
      apply List.map_congr_left
      intro k _
      simp only [Function.comp]
      exact gather_get _ _ _ (by rw [hlen]; exact hp)
    rw [hcell a ha', hcell b hb']
    have := List.pairwise_iff_getElem.mp hsorted a b (by omega) (by omega) hab
    simpa [ha', hb', hlen] using this
  have := argsort_of_sorted leLex _ hgoal
  rw [rowsOf_length] at this
  unfold dfSortIdx lexsortIdx
  exact this

theorem naLast_cases (k : ColKind) (col : List Cell) :
    naLast k false col = true ∧
    (naLast k true col = true ↔ (k.isNumber = true ∧ (k.isString && col.any isNa) = false)) := by
  refine ⟨rfl, ?_⟩
  simp only [naLast, rankedKey]
  cases k.isNumber <;> cases (k.isString && col.any isNa) <;> simp

/-- tie groups of the leading keys are contiguous in the result. -/
theorem dfSort_tie_contiguous (n : Nat) (keys : List (ColKind × Bool × List Cell)) (hwf : WfKeys n keys)
    (m : Nat) (hm : m ≤ keys.length) (i j k : Nat) (hs : [i, j, k].Sublist (dfSortIdx n keys))
    (htie : (sortRow n keys i).take m = (sortRow n keys k).take m) :
    (sortRow n keys j).take m = (sortRow n keys i).take m := by
  obtain ⟨hij, hjk, _⟩ := sublist_triple hs
  have hi' : i < n := mem_dfSortIdx.mp (hs.subset (by simp))
  have hj' : j < n := mem_dfSortIdx.mp (hs.subset (by simp))
  have hk' : k < n := mem_dfSortIdx.mp (hs.subset (by simp))
  exact leLexBy_sandwich m (specLts keys) _ _ _ (specLts_strictLin keys)
    (by simpa [specLts] using hm) (by rw [sortRow_length n keys i hi']; exact hm)
    (by rw [sortRow_length n keys j hj']; exact hm) (by rw [sortRow_length n keys k hk']; exact hm)
    (dfSortIdx_before n keys hwf hij) (dfSortIdx_before n keys hwf hjk) htie

/-- a frame already in key order is left as it is. -/
theorem dfSortIdx_of_sorted (n : Nat) (keys : List (ColKind × Bool × List Cell))
    (h : (rowsOf n (keys.map (fun k => sortKey k.1 k.2.1 k.2.2))).Pairwise (fun a b => leLex a b = true)) :
    dfSortIdx n keys = List.range n := by
  have := argsort_of_sorted leLex _ h
  rw [rowsOf_length] at this
  exact this

end DI.SortMore

/-
  Lemmas/PyEval.lean — the evaluator of `Model/PyEval.lean` on the loop shapes of the `ListOfDicts` generator
  bodies (`Proofs/EvalC15.lean` states the results for the generated definitions).

  1. specification loops written directly in Lean (`foldSteps`; `modifyLoop`, `modifyIfLoop`, `unselectLoop`, `fillLoop`,
     `fillAllLoop`; `specLoop` for loops that also yield);
  2. equation lemmas of the evaluator (all `rfl`) and a small program logic `Agrees` (sequencing, `for`, blocks) in
     which "evaluation = specification loop" is proved for EVERY store, reference list and callable
     (`modify_run`, `modify_if_run`, `unselect_run`, `fill_run`, `fill_all_run`, `filter_*_run`, `reverse_run`, …);
  3. the store (`Store.set` / `lookup` / `view`), and "specification loop = per-item map of the model" for pairwise
     distinct references and callables that only read their own object (`foldSteps_local`, `*_model`);
  4. `self.keys()` is invariant under fill_missing_keys() (`allKeys_fill_one`, `fillAllLoop_eq_fillLoop`);
  5. the witness of the shared-object counterexample.
-/
import Model.PyEval
import Lemmas.LoD
import Lemmas.LoDKeys

namespace DI.PyEvalLoD

open DI DI.Py DI.LoD

/-! ### how Python values enter the environment -/

/-- the receiver: a list of references. -/
def refsVal (rs : List Nat) : PVal := .tuple (rs.map PVal.ref)
/-- `**key_function_pairs`: key ↦ handle of a callable, in call order. -/
def fnPairsVal (ps : List (String × Nat)) : PVal := .tuple (ps.map fun p => .tuple [PVal.str p.1, .fn p.2])
/-- `**key_value_pairs`: key ↦ storable value. -/
def kvPairsVal (ps : List (String × LoD.Val)) : PVal := .tuple (ps.map fun p => .tuple [PVal.str p.1, .atom p.2])
/-- `*keys`. -/
def keysVal (ks : List String) : PVal := .tuple (ks.map PVal.str)

/-! ### specification loops -/

/-- thread the store through one step per element; any failing step fails the loop. -/
def foldSteps {α : Type} (step : α → Store → Option Store) : List α → Store → Option Store
  | [], σ => some σ
  | a :: as, σ => (step a σ).bind (foldSteps step as)

/-- `item[key] = function(item)` on object `r`: the callable sees the CURRENT store. -/
def setStep (F : Funs) (r : Nat) (p : String × Nat) (σ : Store) : Option Store :=
  (F.call p.2 [.ref r] σ).asAtom.bind fun v => σ.setKey r p.1 v

/-- `for key, function in pairs: item[key] = function(item)` on object `r`. -/
def applyPairsLoop (F : Funs) (ps : List (String × Nat)) (r : Nat) : Store → Option Store :=
  foldSteps (setStep F r) ps

/-- **modify**: `for item in self: <apply the pairs in order>`. -/
def modifyLoop (F : Funs) (ps : List (String × Nat)) : List Nat → Store → Option Store :=
  foldSteps (applyPairsLoop F ps)

/-- one position of modify_if: the predicate is tested on the CURRENT contents of the object. -/
def modifyIfStep (F : Funs) (hp : Nat) (ps : List (String × Nat)) (r : Nat) (σ : Store) : Option Store :=
  (truthy σ (F.call hp [.ref r] σ)).bind fun t => if t then applyPairsLoop F ps r σ else some σ

/-- **modify_if**: fold over the refs. -/
def modifyIfLoop (F : Funs) (hp : Nat) (ps : List (String × Nat)) : List Nat → Store → Option Store :=
  foldSteps (modifyIfStep F hp ps)

/-- `if key in item: del item[key]` on object `r`. -/
def delStep (r : Nat) (k : String) (σ : Store) : Option Store :=
  (σ.lookup r).map fun d => if d.has k then σ.set r (d.del k) else σ

/-- **unselect**. -/
def unselectLoop (ks : List String) : List Nat → Store → Option Store :=
  foldSteps (fun r => foldSteps (delStep r) ks)

/-- `if key not in item: item[key] = value` on object `r`. -/
def fillStep (r : Nat) (p : String × LoD.Val) (σ : Store) : Option Store :=
  (σ.lookup r).map fun d => if d.has p.1 then σ else σ.set r (d.set p.1 p.2)

/-- **fill_missing_keys** with the given pairs. -/
def fillLoop (kvs : List (String × LoD.Val)) : List Nat → Store → Option Store :=
  foldSteps (fun r => foldSteps (fillStep r) kvs)

/-- the general shape: every element yields some values and changes the store. -/
def specLoop {α : Type} (step : α → Store → Option (List PVal × Store)) : List α → Store → Option (List PVal × Store)
  | [], σ => some ([], σ)
  | a :: as, σ => (step a σ).bind fun r1 => (specLoop step as r1.2).map fun r2 => (r1.1 ++ r2.1, r2.2)

/-- a loop whose every element yields fixed values is a `foldSteps`. -/
theorem specLoop_foldSteps {α : Type} (step : α → Store → Option Store) (ys : α → List PVal) (as : List α) (σ : Store) :
    specLoop (fun a σ => (step a σ).map fun σ' => (ys a, σ')) as σ =
      (foldSteps step as σ).map fun σ' => (as.flatMap ys, σ') := by
  induction as generalizing σ with
  | nil => rfl
  | cons a as ih =>
    simp only [specLoop, foldSteps, List.flatMap_cons]
    cases step a σ with
    | none => rfl
    | some σ1 =>
      simp only [Option.map_some, Option.bind_some, ih]
      cases foldSteps step as σ1 <;> rfl

/-- elements selected by a mask (the shape of `LoD.filterMask`). -/
def pick {α : Type} (xs : List α) (mask : List Bool) : List α :=
  (xs.zip mask).filterMap (fun p => if p.2 then some p.1 else none)

theorem filterMask_eq_pick (xs : List Item) (mask : List Bool) : LoD.filterMask xs mask = pick xs mask := rfl

theorem filterOutMask_eq_pick (xs : List Item) (mask : List Bool) :
    LoD.filterOutMask xs mask = pick xs (mask.map (!·)) := by
  unfold LoD.filterOutMask pick
  induction xs generalizing mask with
  | nil => simp
  | cons x xs ih =>
    cases mask with
    | nil => simp
    | cons m ms => cases m <;> simp [ih]

theorem pick_map {α β : Type} (f : α → β) (xs : List α) (mask : List Bool) :
    (pick xs mask).map f = pick (xs.map f) mask := by
  unfold pick
  induction xs generalizing mask with
  | nil => simp
  | cons x xs ih =>
    cases mask with
    | nil => simp
    | cons m ms => cases m <;> simp [ih]

/-- a loop that only tests: the yielded refs are those picked by the mask of test results. -/
theorem specLoop_test (p : Nat → Store → Option Bool) (rs : List Nat) (σ : Store) :
    specLoop (fun r σ => (p r σ).map fun b => (if b then [PVal.ref r] else [], σ)) rs σ =
      (allM (fun r => p r σ) rs).map fun mask => ((pick rs mask).map PVal.ref, σ) := by
  induction rs with
  | nil => rfl
  | cons r rs ih =>
    simp only [specLoop, allM]
    cases p r σ with
    | none => rfl
    | some b =>
      simp only [Option.map_some, Option.bind_some, ih]
      cases allM (fun r => p r σ) rs with
      | none => rfl
      | some mask => cases b <;> simp [pick]

/-! ### equation lemmas of the evaluator (all by unfolding) -/

section Eqs
variable (F : Funs)

theorem evalS_block (ss : List Term) (s : St) : evalS F (.app "block" ss) s = evalB F ss s := rfl
theorem evalB_nil (s : St) : evalB F [] s = some (Ctl.normal, s) := rfl
theorem evalB_cons (t : Term) (ts : List Term) (s : St) :
    evalB F (t :: ts) s = (evalS F t s).bind fun r => match r.1 with | .normal => evalB F ts r.2 | .cont => some r := rfl
theorem evalS_if (c a b : Term) (s : St) : evalS F (.app "if" [c, a, b]) s =
    (evalE F c s.env s.store).bind fun vc => (truthy s.store vc).bind fun t => if t then evalS F a s else evalS F b s := rfl
theorem evalS_for (tgt it body : Term) (s : St) : evalS F (.app "for" [tgt, it, body]) s =
    (evalE F it s.env s.store).bind fun vi => vi.asTuple.bind fun vs =>
      (loopOver (evalS F body) (bindTarget tgt) vs s).map fun s' => (Ctl.normal, s') := rfl
theorem evalS_store (x k e : Term) (s : St) : evalS F (.app "store" [.app "getitem" [x, k], e]) s =
    (evalE F e s.env s.store).bind fun ve => (evalE F x s.env s.store).bind fun vx => (evalE F k s.env s.store).bind fun vk =>
      ve.asAtom.bind fun v => vx.asRef.bind fun n => vk.asStr.bind fun key =>
        (s.store.setKey n key v).map fun σ' => (Ctl.normal, { s with store := σ' }) := rfl
theorem evalS_del (x k : Term) (s : St) : evalS F (.app "del" [.app "getitem" [x, k]]) s =
    (evalE F x s.env s.store).bind fun vx => (evalE F k s.env s.store).bind fun vk =>
      vx.asRef.bind fun n => vk.asStr.bind fun key =>
        (s.store.delKey n key).map fun σ' => (Ctl.normal, { s with store := σ' }) := rfl
theorem evalS_yield (e : Term) (s : St) : evalS F (.app "yield" [e]) s =
    (evalE F e s.env s.store).map fun v => (Ctl.normal, { s with out := s.out ++ [v] }) := rfl
theorem evalS_yieldFrom (e : Term) (s : St) : evalS F (.app "yield-from" [e]) s =
    (evalE F e s.env s.store).bind fun v => v.asTuple.map fun vs => (Ctl.normal, { s with out := s.out ++ vs }) := rfl

theorem loopOver_nil (body : St → Option (Ctl × St)) (bind : PVal → Env → Option Env) (s : St) :
    loopOver body bind [] s = some s := rfl
theorem loopOver_cons (body : St → Option (Ctl × St)) (bind : PVal → Env → Option Env) (v : PVal) (vs : List PVal) (s : St) :
    loopOver body bind (v :: vs) s =
      ((bind v s.env).bind fun ρ => body { s with env := ρ }).bind fun r => loopOver body bind vs r.2 := by
  simp only [loopOver, Option.bind_assoc]

end Eqs

/-! ### a small program logic: "the evaluation agrees with a specification" -/

/-- the evaluation `o` fails exactly when the specification does; when it succeeds it ends normally with the
    specified store, the specified values appended to the output, and an environment that still satisfies `I`. -/
def Agrees (I : Env → Prop) (o : Option (Ctl × St)) (spec : Option (List PVal × Store)) (out : List PVal) : Prop :=
  match spec with
  | none => o = none
  | some r => ∃ ρ', I ρ' ∧ o = some (Ctl.normal, ⟨ρ', r.2, out ++ r.1⟩)

theorem Agrees.mono {I J : Env → Prop} (hIJ : ∀ ρ, I ρ → J ρ) {o spec out} (h : Agrees I o spec out) : Agrees J o spec out := by
  unfold Agrees at *
  cases spec with
  | none => exact h
  | some r => obtain ⟨ρ', h1, h2⟩ := h; exact ⟨ρ', hIJ _ h1, h2⟩

/-- sequencing: a statement, then the rest of the block. -/
theorem agrees_cons (F : Funs) (I J : Env → Prop) (t : Term) (ts : List Term) (ρ : Env) (σ : Store) (out : List PVal)
    (sp1 : Option (List PVal × Store)) (sp2 : Store → Option (List PVal × Store))
    (h1 : Agrees I (evalS F t ⟨ρ, σ, out⟩) sp1 out)
    (h2 : ∀ ρ' σ' out', I ρ' → Agrees J (evalB F ts ⟨ρ', σ', out'⟩) (sp2 σ') out') :
    Agrees J (evalB F (t :: ts) ⟨ρ, σ, out⟩)
      (sp1.bind fun r1 => (sp2 r1.2).map fun r2 => (r1.1 ++ r2.1, r2.2)) out := by
  rw [evalB_cons]
  cases sp1 with
  | none =>
    simp only [Agrees] at h1
    simp only [h1, Option.bind_none, Agrees]
  | some r1 =>
    obtain ⟨ρ', hI, e⟩ := h1
    simp only [e, Option.bind_some]
    have := h2 ρ' r1.2 (out ++ r1.1) hI
    cases hs : sp2 r1.2 with
    | none =>
      rw [hs] at this
      simp only [Agrees] at this
      simp only [Option.map_none, Agrees, this]
    | some r2 =>
      rw [hs] at this
      obtain ⟨ρ'', hJ, e2⟩ := this
      exact ⟨ρ'', hJ, by simp only [e2, List.append_assoc]⟩

/-- the empty block. -/
theorem agrees_nil (F : Funs) (I : Env → Prop) (ρ : Env) (σ : Store) (out : List PVal) (h : I ρ) :
    Agrees I (evalB F [] ⟨ρ, σ, out⟩) (some ([], σ)) out :=
  ⟨ρ, h, by simp [evalB_nil]⟩

/-- a block of one statement. -/
theorem agrees_single (F : Funs) (I : Env → Prop) (t : Term) (ρ : Env) (σ : Store) (out : List PVal)
    (sp : Option (List PVal × Store)) (h : Agrees I (evalS F t ⟨ρ, σ, out⟩) sp out) :
    Agrees I (evalB F [t] ⟨ρ, σ, out⟩) sp out := by
  have := agrees_cons F I I t [] ρ σ out sp (fun σ' => some ([], σ')) h
    (fun ρ' σ' out' hI => agrees_nil F I ρ' σ' out' hI)
  cases sp with
  | none => exact this
  | some r => simpa using this

/-- the loop rule: if one iteration agrees with `step`, the loop agrees with `specLoop step`. -/
theorem agrees_loop {α : Type} (I : Env → Prop) (body : St → Option (Ctl × St)) (bind : PVal → Env → Option Env)
    (val : α → PVal) (step : α → Store → Option (List PVal × Store))
    (h : ∀ a ρ σ out, I ρ → Agrees I ((bind (val a) ρ).bind fun ρ1 => body ⟨ρ1, σ, out⟩) (step a σ) out) :
    ∀ (as : List α) (ρ : Env) (σ : Store) (out : List PVal), I ρ →
      Agrees I ((loopOver body bind (as.map val) ⟨ρ, σ, out⟩).map fun s' => (Ctl.normal, s')) (specLoop step as σ) out := by
  intro as
  induction as with
  | nil => intro ρ σ out hI; exact ⟨ρ, hI, by simp [loopOver_nil]⟩
  | cons a as ih =>
    intro ρ σ out hI
    rw [List.map_cons, loopOver_cons]
    have h1 := h a ρ σ out hI
    simp only [specLoop]
    cases hs : step a σ with
    | none =>
      rw [hs] at h1
      simp only [Agrees] at h1
      simp only [h1, Option.bind_none, Option.map_none, Agrees]
    | some r1 =>
      rw [hs] at h1
      obtain ⟨ρ', hI', e⟩ := h1
      simp only [e, Option.bind_some]
      have h2 := ih ρ' r1.2 (out ++ r1.1) hI'
      cases hs2 : specLoop step as r1.2 with
      | none =>
        rw [hs2] at h2
        simp only [Agrees] at h2
        simp only [h2, Option.map_none, Agrees]
      | some r2 =>
        rw [hs2] at h2
        obtain ⟨ρ'', hI'', e2⟩ := h2
        exact ⟨ρ'', hI'', by simp only [e2, List.append_assoc]⟩

/-- a `for` statement whose iterable evaluates to the values `as.map val`. -/
theorem agrees_for {α : Type} (F : Funs) (I : Env → Prop) (tgt it body : Term)
    (val : α → PVal) (step : α → Store → Option (List PVal × Store)) (as : List α) (ρ : Env) (σ : Store) (out : List PVal)
    (hit : evalE F it ρ σ = some (.tuple (as.map val))) (hI : I ρ)
    (h : ∀ a ρ σ out, I ρ → Agrees I ((bindTarget tgt (val a) ρ).bind fun ρ1 => evalS F body ⟨ρ1, σ, out⟩) (step a σ) out) :
    Agrees I (evalS F (.app "for" [tgt, it, body]) ⟨ρ, σ, out⟩) (specLoop step as σ) out := by
  rw [evalS_for]
  simp only [hit, Option.bind_some, PVal.asTuple]
  exact agrees_loop I (evalS F body) (bindTarget tgt) val step h as ρ σ out hI

/-! ### more equation lemmas: names, calls, views -/

section Eqs2
variable (F : Funs) (ρ : Env) (σ : Store)
theorem evalE_self : evalE F (.sym "self") ρ σ = ρ.lookup "self" := rfl
theorem evalE_item : evalE F (.sym "item") ρ σ = ρ.lookup "item" := rfl
theorem evalE_key : evalE F (.sym "key") ρ σ = ρ.lookup "key" := rfl
theorem evalE_function : evalE F (.sym "function") ρ σ = ρ.lookup "function" := rfl
theorem evalE_value : evalE F (.sym "value") ρ σ = ρ.lookup "value" := rfl
theorem evalE_keys : evalE F (.sym "keys") ρ σ = ρ.lookup "keys" := rfl
theorem evalE_other : evalE F (.sym "other") ρ σ = ρ.lookup "other" := rfl
theorem evalE_kfp : evalE F (.sym "key_function_pairs") ρ σ = ρ.lookup "key_function_pairs" := rfl
theorem evalE_kvp : evalE F (.sym "key_value_pairs") ρ σ = ρ.lookup "key_value_pairs" := rfl
theorem evalE_None : evalE F (.sym "None") ρ σ = some (.atom .none) := rfl
theorem evalE_int (i : Int) : evalE F (.int i) ρ σ = some (.atom (.i i)) := rfl
theorem evalE_call_sym (x : String) (args : List Term) : evalE F (.app "call" (.sym x :: args)) ρ σ =
    (evalE F (.sym x) ρ σ).bind fun vf => vf.asFn.bind fun h => (evalEs F args ρ σ).map fun vs => F.call h vs σ := rfl
theorem evalE_call_itemgetter (ks x : Term) :
    evalE F (.app "call" [.app "operator.itemgetter" [.app "*" [ks]], x]) ρ σ =
      (evalE F ks ρ σ).bind fun vks => (evalE F x ρ σ).bind fun vx => itemgetter σ vks vx := rfl
theorem evalE_predicate (args : List Term) : evalE F (.app "predicate" args) ρ σ =
    (ρ.lookup "predicate").bind fun vf => vf.asFn.bind fun h => (evalEs F args ρ σ).map fun vs => F.call h vs σ := rfl
theorem evalE_function_app (args : List Term) : evalE F (.app "function" args) ρ σ =
    (ρ.lookup "function").bind fun vf => vf.asFn.bind fun h => (evalEs F args ρ σ).map fun vs => F.call h vs σ := rfl
theorem evalEs_nil : evalEs F [] ρ σ = some [] := rfl
theorem evalEs_cons (t : Term) (ts : List Term) :
    evalEs F (t :: ts) ρ σ = (evalE F t ρ σ).bind fun v => (evalEs F ts ρ σ).map fun vs => v :: vs := rfl
theorem evalE_items (x : Term) : evalE F (.app ".items" [x]) ρ σ = (evalE F x ρ σ).bind (itemsOf σ) := rfl
theorem evalE_keysOf (x : Term) : evalE F (.app ".keys" [x]) ρ σ = (evalE F x ρ σ).bind (keysOf σ) := rfl
theorem evalE_tuple_values (x : Term) :
    evalE F (.app "tuple()" [.app ".values" [x]]) ρ σ = (evalE F x ρ σ).bind (valuesOf σ) := rfl
theorem evalE_fromkeys (ks v : Term) : evalE F (.app "dict.fromkeys" [ks, v]) ρ σ =
    (evalE F ks ρ σ).bind fun vks => (evalE F v ρ σ).bind fun vv =>
      vks.asTuple.map fun l => .tuple (l.map (fun k => .tuple [k, vv])) := rfl
theorem evalE_getitem (x k : Term) : evalE F (.app "getitem" [x, k]) ρ σ =
    (evalE F x ρ σ).bind fun vx => (evalE F k ρ σ).bind fun vk => getItem σ vx vk := rfl
theorem evalE_In (k x : Term) : evalE F (.app "In" [k, x]) ρ σ =
    (evalE F k ρ σ).bind fun vk => (evalE F x ρ σ).bind fun vx => (pyIn σ vk vx).map .bool := rfl
theorem evalE_NotIn (k x : Term) : evalE F (.app "NotIn" [k, x]) ρ σ =
    (evalE F k ρ σ).bind fun vk => (evalE F x ρ σ).bind fun vx => (pyIn σ vk vx).map (fun b => .bool !b) := rfl
theorem evalE_Eq (a b : Term) : evalE F (.app "Eq" [a, b]) ρ σ =
    (evalE F a ρ σ).bind fun va => (evalE F b ρ σ).bind fun vb => (pyEq va vb).map .bool := rfl
theorem evalE_NotEq (a b : Term) : evalE F (.app "NotEq" [a, b]) ρ σ =
    (evalE F a ρ σ).bind fun va => (evalE F b ρ σ).bind fun vb => (pyEq va vb).map (fun b => .bool !b) := rfl
theorem evalE_not (a : Term) : evalE F (.app "not" [a]) ρ σ =
    (evalE F a ρ σ).bind fun va => (truthy σ va).map (fun b => .bool !b) := rfl
theorem evalE_reversed (x : Term) : evalE F (.app "reversed" [x]) ρ σ =
    (evalE F x ρ σ).bind fun vx => vx.asTuple.map fun l => .tuple l.reverse := rfl
theorem evalE_chain (a b : Term) : evalE F (.app "itertools.chain" [a, b]) ρ σ =
    (evalE F a ρ σ).bind fun va => (evalE F b ρ σ).bind fun vb =>
      va.asTuple.bind fun la => vb.asTuple.map fun lb => .tuple (la ++ lb) := rfl
theorem evalE_list (args : List Term) : evalE F (.app "list" args) ρ σ = (evalEs F args ρ σ).map .tuple := rfl
theorem evalE_range (n : Term) : evalE F (.app "range" [n]) ρ σ = (evalE F n ρ σ).bind fun vn => vn.asInt.map rangeVal := rfl
end Eqs2

/-! ### environments: a loop only ever binds its own loop variables -/

/-- `ρ` is `ρ0` up to the names `N` (the loop variables of the body at hand). -/
def Keeps (N : List String) (ρ0 ρ : Env) : Prop := ∀ x, x ∉ N → ρ.lookup x = ρ0.lookup x

theorem Keeps.refl (N : List String) (ρ0 : Env) : Keeps N ρ0 ρ0 := fun _ _ => rfl

theorem Keeps.cons {N : List String} {ρ0 ρ : Env} (h : Keeps N ρ0 ρ) (x : String) (v : PVal) (hx : x ∈ N) :
    Keeps N ρ0 ((x, v) :: ρ) := by
  intro y hy
  have : (y == x) = false := by
    rw [beq_eq_false_iff_ne]; intro e; subst e; exact hy hx
  rw [List.lookup_cons, this]
  exact h y hy

/-- the loop variables of the one-pass editors. -/
def editNames : List String := ["item", "key", "function", "value"]

/-- the invariant inside the body of `for item in self` at object `r`. -/
def AtItem (N : List String) (ρ0 : Env) (r : Nat) (ρ : Env) : Prop := Keeps N ρ0 ρ ∧ ρ.lookup "item" = some (.ref r)

theorem allM_map {α β γ : Type} (f : β → Option γ) (g : α → β) (k : α → γ) (h : ∀ a, f (g a) = some (k a)) (as : List α) :
    allM f (as.map g) = some (as.map k) := by
  induction as with
  | nil => rfl
  | cons a as ih => simp only [List.map_cons, allM, h, ih, Option.bind_some, Option.map_some]

theorem itemsOf_fnPairs (σ : Store) (ps : List (String × Nat)) : itemsOf σ (fnPairsVal ps) = some (fnPairsVal ps) := by
  simp only [fnPairsVal, itemsOf]
  rw [allM_map PVal.fst? _ (fun p => PVal.str p.1) (fun _ => rfl)]
  rfl

theorem itemsOf_kvPairs (σ : Store) (ps : List (String × LoD.Val)) : itemsOf σ (kvPairsVal ps) = some (kvPairsVal ps) := by
  simp only [kvPairsVal, itemsOf]
  rw [allM_map PVal.fst? _ (fun p => PVal.str p.1) (fun _ => rfl)]
  rfl

theorem flatMap_single {α β : Type} (f : α → β) (l : List α) : (l.flatMap fun a => [f a]) = l.map f := by
  induction l with
  | nil => rfl
  | cons a l ih => simp only [List.flatMap_cons, List.map_cons, ih, List.singleton_append]

/-- a step that changes the store only and yields nothing. -/
theorem agrees_of_store_eq (I : Env → Prop) (o : Option (Ctl × St)) (sp : Option Store) (ρ' : Env) (out : List PVal)
    (hI : I ρ') (e : o = sp.map fun σ' => (Ctl.normal, ⟨ρ', σ', out⟩)) :
    Agrees I o (sp.map fun σ' => ([], σ')) out := by
  subst e
  cases sp with
  | none => rfl
  | some σ' => exact ⟨ρ', hI, by simp⟩

/-- from "agrees" to the result of `run`. -/
theorem run_of_agrees (F : Funs) (I : Env → Prop) (t : Term) (ρ : Env) (σ : Store) (spec : Option (List PVal × Store))
    (h : Agrees I (evalS F t ⟨ρ, σ, []⟩) spec []) : run F [t] ρ σ = spec := by
  have := agrees_single F I t ρ σ [] spec h
  unfold run
  cases spec with
  | none => simp only [Agrees] at this; rw [this]; rfl
  | some r => obtain ⟨ρ', _, e⟩ := this; rw [e]; simp

/-! ### the one-pass editors: `for item in self: <edit>; yield item` -/

def yieldItemT : Term := Term.app "yield" [Term.sym "item"]

/-- `TieC15.onePass [e]`. -/
def onePassT (e : Term) : Term :=
  Term.app "for" [Term.sym "item", Term.sym "self", Term.app "block" [e, yieldItemT]]

section Bodies
variable (F : Funs)

theorem agrees_yieldItem (N : List String) (ρ0 : Env) (r : Nat) (ρ : Env) (σ : Store) (out : List PVal) (hI : AtItem N ρ0 r ρ) :
    Agrees (Keeps N ρ0) (evalB F [yieldItemT] ⟨ρ, σ, out⟩) (some ([.ref r], σ)) out := by
  refine ⟨ρ, hI.1, ?_⟩
  simp only [evalB_cons, evalB_nil, yieldItemT, evalS_yield, evalE_item, hI.2, Option.map_some, Option.bind_some]

/-- if the edit statement `e` agrees with `step` at every object, the pass agrees with `foldSteps step` and yields the
    receiver's references in order. -/
theorem agrees_onePass (N : List String) (hN : "item" ∈ N) (hS : "self" ∉ N)
    (ρ0 : Env) (rs : List Nat) (h0 : ρ0.lookup "self" = some (refsVal rs))
    (e : Term) (step : Nat → Store → Option Store)
    (he : ∀ r ρ σ out, AtItem N ρ0 r ρ →
      Agrees (AtItem N ρ0 r) (evalS F e ⟨ρ, σ, out⟩) ((step r σ).map fun σ' => ([], σ')) out)
    (ρ : Env) (σ : Store) (out : List PVal) (hK : Keeps N ρ0 ρ) :
    Agrees (Keeps N ρ0) (evalS F (onePassT e) ⟨ρ, σ, out⟩)
      ((foldSteps step rs σ).map fun σ' => (rs.map PVal.ref, σ')) out := by
  have hspec := specLoop_foldSteps step (fun r => [PVal.ref r]) rs σ
  rw [flatMap_single PVal.ref rs] at hspec
  rw [← hspec]
  refine agrees_for F (Keeps N ρ0) _ _ _ PVal.ref _ rs ρ σ out ?_ hK ?_
  · rw [evalE_self, hK _ hS, h0]; rfl
  · intro r ρ σ out hK
    have hI : AtItem N ρ0 r (("item", PVal.ref r) :: ρ) := ⟨hK.cons _ _ hN, by simp⟩
    have := agrees_cons F (AtItem N ρ0 r) (Keeps N ρ0) e [yieldItemT] _ σ out _ (fun σ' => some ([PVal.ref r], σ'))
      (he r _ σ out hI) (fun ρ' σ' out' h' => agrees_yieldItem F N ρ0 r ρ' σ' out' h')
    simp only [bindTarget, Option.bind_some, evalS_block]
    cases hs : step r σ with
    | none => rw [hs] at this; exact this
    | some σ1 => rw [hs] at this; exact this

/-! #### modify / modify_if -/

def setItemT (v : Term) : Term := Term.app "store" [Term.app "getitem" [Term.sym "item", Term.sym "key"], v]

/-- `TieC15.applyPairs`. -/
def applyPairsT : Term :=
  Term.app "for" [Term.app "tuple" [Term.sym "key", Term.sym "function"], Term.app ".items" [Term.sym "key_function_pairs"],
    Term.app "block" [setItemT (Term.app "call" [Term.sym "function", Term.sym "item"])]]

theorem applyPairs_iter (r : Nat) (p : String × Nat) (ρ : Env) (σ : Store) (out : List PVal)
    (hitem : ρ.lookup "item" = some (.ref r)) :
    ((bindTarget (Term.app "tuple" [Term.sym "key", Term.sym "function"]) (.tuple [PVal.str p.1, .fn p.2]) ρ).bind fun ρ1 =>
        evalS F (Term.app "block" [setItemT (Term.app "call" [Term.sym "function", Term.sym "item"])]) ⟨ρ1, σ, out⟩) =
      (setStep F r p σ).map fun σ' => (Ctl.normal, ⟨("function", .fn p.2) :: ("key", PVal.str p.1) :: ρ, σ', out⟩) := by
  simp only [bindTarget, bindNames, Option.bind_some, evalS_block, evalB_cons, evalB_nil, setItemT, evalS_store,
    evalE_call_sym, evalE_item, evalE_key, evalE_function, evalEs_cons, evalEs_nil, List.lookup_cons,
    String.reduceBEq, hitem, Option.map_some, PVal.asFn, PVal.asRef, PVal.asStr, PVal.str, setStep]
  cases (F.call p.2 [PVal.ref r] σ).asAtom with
  | none => rfl
  | some v => simp only [Option.bind_some]; cases σ.setKey r p.1 v <;> rfl

theorem agrees_applyPairs (ρ0 : Env) (ps : List (String × Nat)) (h0 : ρ0.lookup "key_function_pairs" = some (fnPairsVal ps))
    (r : Nat) (ρ : Env) (σ : Store) (out : List PVal) (hI : AtItem editNames ρ0 r ρ) :
    Agrees (AtItem editNames ρ0 r) (evalS F applyPairsT ⟨ρ, σ, out⟩) ((applyPairsLoop F ps r σ).map fun σ' => ([], σ')) out := by
  have hspec := specLoop_foldSteps (setStep F r) (fun _ => []) ps σ
  have hnil : (ps.flatMap fun _ => ([] : List PVal)) = [] := by simp
  rw [hnil] at hspec
  unfold applyPairsLoop
  rw [← hspec]
  refine agrees_for F (AtItem editNames ρ0 r) _ _ _ (fun p => .tuple [PVal.str p.1, .fn p.2]) _ ps ρ σ out ?_ hI ?_
  · rw [evalE_items, evalE_kfp, hI.1 _ (by decide), h0, Option.bind_some]
    exact itemsOf_fnPairs σ ps
  · intro p ρ σ out hI
    rw [applyPairs_iter F r p ρ σ out hI.2]
    refine agrees_of_store_eq _ _ _ _ _ ⟨(hI.1.cons _ _ (by decide)).cons _ _ (by decide), ?_⟩ rfl
    simp only [List.lookup_cons, String.reduceBEq, hI.2]

/-- **modify**: evaluation = the specification loop, for every store and every list of references. -/
theorem modify_run (ρ : Env) (σ : Store) (rs : List Nat) (ps : List (String × Nat))
    (hself : ρ.lookup "self" = some (refsVal rs)) (hkfp : ρ.lookup "key_function_pairs" = some (fnPairsVal ps)) :
    run F [onePassT applyPairsT] ρ σ = (modifyLoop F ps rs σ).map fun σ' => (rs.map PVal.ref, σ') :=
  run_of_agrees F (Keeps editNames ρ) _ ρ σ _
    (agrees_onePass F editNames (by decide) (by decide) ρ rs hself applyPairsT (applyPairsLoop F ps)
      (fun r ρ' σ' out' hI => agrees_applyPairs F ρ ps hkfp r ρ' σ' out' hI) ρ σ [] (Keeps.refl _ ρ))

def ifPredT : Term :=
  Term.app "if" [Term.app "predicate" [Term.sym "item"], Term.app "block" [applyPairsT], Term.app "block" []]

theorem agrees_ifPred (ρ0 : Env) (hp : Nat) (ps : List (String × Nat))
    (h0 : ρ0.lookup "key_function_pairs" = some (fnPairsVal ps)) (h1 : ρ0.lookup "predicate" = some (.fn hp))
    (r : Nat) (ρ : Env) (σ : Store) (out : List PVal) (hI : AtItem editNames ρ0 r ρ) :
    Agrees (AtItem editNames ρ0 r) (evalS F ifPredT ⟨ρ, σ, out⟩) ((modifyIfStep F hp ps r σ).map fun σ' => ([], σ')) out := by
  unfold ifPredT modifyIfStep
  rw [evalS_if]
  simp only [evalE_predicate, hI.1 _ (by decide : "predicate" ∉ editNames), h1, PVal.asFn, Option.bind_some, evalEs_cons,
    evalEs_nil, evalE_item, hI.2, Option.map_some]
  cases truthy σ (F.call hp [PVal.ref r] σ) with
  | none => rfl
  | some t =>
    cases t with
    | true =>
      simp only [Option.bind_some, if_true, evalS_block]
      exact agrees_single F _ _ ρ σ out _ (agrees_applyPairs F ρ0 ps h0 r ρ σ out hI)
    | false =>
      simp only [Option.bind_some, Bool.false_eq_true, if_false, evalS_block]
      exact agrees_nil F _ ρ σ out hI

/-- **modify_if**: evaluation = the specification loop (the predicate is tested on the current contents). -/
theorem modify_if_run (ρ : Env) (σ : Store) (rs : List Nat) (hp : Nat) (ps : List (String × Nat))
    (hself : ρ.lookup "self" = some (refsVal rs)) (hkfp : ρ.lookup "key_function_pairs" = some (fnPairsVal ps))
    (hpred : ρ.lookup "predicate" = some (.fn hp)) :
    run F [onePassT ifPredT] ρ σ = (modifyIfLoop F hp ps rs σ).map fun σ' => (rs.map PVal.ref, σ') :=
  run_of_agrees F (Keeps editNames ρ) _ ρ σ _
    (agrees_onePass F editNames (by decide) (by decide) ρ rs hself ifPredT (modifyIfStep F hp ps)
      (fun r ρ' σ' out' hI => agrees_ifPred F ρ hp ps hkfp hpred r ρ' σ' out' hI) ρ σ [] (Keeps.refl _ ρ))


/-! #### unselect -/

def delIfInT : Term :=
  Term.app "if" [Term.app "In" [Term.sym "key", Term.sym "item"],
    Term.app "block" [Term.app "del" [Term.app "getitem" [Term.sym "item", Term.sym "key"]]], Term.app "block" []]

def unselectEditT : Term := Term.app "for" [Term.sym "key", Term.sym "keys", Term.app "block" [delIfInT]]

theorem unselect_iter (r : Nat) (k : String) (ρ : Env) (σ : Store) (out : List PVal)
    (hitem : ρ.lookup "item" = some (.ref r)) :
    ((bindTarget (Term.sym "key") (PVal.str k) ρ).bind fun ρ1 => evalS F (Term.app "block" [delIfInT]) ⟨ρ1, σ, out⟩) =
      (delStep r k σ).map fun σ' => (Ctl.normal, ⟨("key", PVal.str k) :: ρ, σ', out⟩) := by
  simp only [bindTarget, Option.bind_some, evalS_block, evalB_cons, evalB_nil, delIfInT, evalS_if, evalS_del, evalE_In,
    evalE_item, evalE_key, List.lookup_cons, String.reduceBEq, hitem, PVal.str, pyIn, PVal.asRef, PVal.asStr, delStep,
    Store.delKey]
  cases σ.lookup r with
  | none => rfl
  | some d =>
    simp only [Option.map_some, Option.bind_some, truthy]
    cases d.has k <;> simp

theorem agrees_unselectEdit (ρ0 : Env) (ks : List String) (h0 : ρ0.lookup "keys" = some (keysVal ks))
    (r : Nat) (ρ : Env) (σ : Store) (out : List PVal) (hI : AtItem editNames ρ0 r ρ) :
    Agrees (AtItem editNames ρ0 r) (evalS F unselectEditT ⟨ρ, σ, out⟩)
      ((foldSteps (delStep r) ks σ).map fun σ' => ([], σ')) out := by
  have hspec := specLoop_foldSteps (delStep r) (fun _ => []) ks σ
  have hnil : (ks.flatMap fun _ => ([] : List PVal)) = [] := by simp
  rw [hnil] at hspec
  rw [← hspec]
  refine agrees_for F (AtItem editNames ρ0 r) _ _ _ PVal.str _ ks ρ σ out ?_ hI ?_
  · rw [evalE_keys, hI.1 _ (by decide), h0]; rfl
  · intro k ρ σ out hI
    rw [unselect_iter F r k ρ σ out hI.2]
    refine agrees_of_store_eq _ _ _ _ _ ⟨hI.1.cons _ _ (by decide), ?_⟩ rfl
    simp only [List.lookup_cons, String.reduceBEq, hI.2]

/-- **unselect**: evaluation = the specification loop. -/
theorem unselect_run (ρ : Env) (σ : Store) (rs : List Nat) (ks : List String)
    (hself : ρ.lookup "self" = some (refsVal rs)) (hkeys : ρ.lookup "keys" = some (keysVal ks)) :
    run F [onePassT unselectEditT] ρ σ = (unselectLoop ks rs σ).map fun σ' => (rs.map PVal.ref, σ') :=
  run_of_agrees F (Keeps editNames ρ) _ ρ σ _
    (agrees_onePass F editNames (by decide) (by decide) ρ rs hself unselectEditT (fun r => foldSteps (delStep r) ks)
      (fun r ρ' σ' out' hI => agrees_unselectEdit F ρ ks hkeys r ρ' σ' out' hI) ρ σ [] (Keeps.refl _ ρ))

/-! #### fill_missing_keys -/

def setIfNotInT : Term :=
  Term.app "if" [Term.app "NotIn" [Term.sym "key", Term.sym "item"],
    Term.app "block" [setItemT (Term.sym "value")], Term.app "block" []]

def fillEditT (pairs : Term) : Term :=
  Term.app "for" [Term.app "tuple" [Term.sym "key", Term.sym "value"], Term.app ".items" [pairs], Term.app "block" [setIfNotInT]]

theorem fill_iter (r : Nat) (p : String × LoD.Val) (ρ : Env) (σ : Store) (out : List PVal)
    (hitem : ρ.lookup "item" = some (.ref r)) :
    ((bindTarget (Term.app "tuple" [Term.sym "key", Term.sym "value"]) (.tuple [PVal.str p.1, .atom p.2]) ρ).bind fun ρ1 =>
        evalS F (Term.app "block" [setIfNotInT]) ⟨ρ1, σ, out⟩) =
      (fillStep r p σ).map fun σ' => (Ctl.normal, ⟨("value", .atom p.2) :: ("key", PVal.str p.1) :: ρ, σ', out⟩) := by
  simp only [bindTarget, bindNames, Option.bind_some, evalS_block, evalB_cons, evalB_nil, setIfNotInT, setItemT, evalS_if,
    evalS_store, evalE_NotIn, evalE_item, evalE_key, evalE_value, List.lookup_cons, String.reduceBEq, hitem, PVal.str, pyIn,
    PVal.asRef, PVal.asStr, PVal.asAtom, fillStep, Store.setKey]
  cases σ.lookup r with
  | none => rfl
  | some d =>
    simp only [Option.map_some, Option.bind_some, truthy]
    cases d.has p.1 <;> simp


/-- the edit of fill_missing_keys at object `r`, the pairs being whatever the pairs expression evaluates to in the
    CURRENT store (`kvsOf σ`). -/
theorem agrees_fillEdit (ρ0 : Env) (pairs : Term) (kvsOf : Store → Option (List (String × LoD.Val)))
    (r : Nat) (ρ : Env) (σ : Store) (out : List PVal) (hI : AtItem editNames ρ0 r ρ)
    (hp : evalE F pairs ρ σ = (kvsOf σ).map kvPairsVal) :
    Agrees (AtItem editNames ρ0 r) (evalS F (fillEditT pairs) ⟨ρ, σ, out⟩)
      (((kvsOf σ).bind fun kvs => foldSteps (fillStep r) kvs σ).map fun σ' => ([], σ')) out := by
  cases hk : kvsOf σ with
  | none =>
    rw [hk] at hp
    simp only [fillEditT, evalS_for, evalE_items, hp, Option.map_none, Option.bind_none, Agrees]
  | some kvs =>
    rw [hk] at hp
    have hspec := specLoop_foldSteps (fillStep r) (fun _ => []) kvs σ
    have hnil : (kvs.flatMap fun _ => ([] : List PVal)) = [] := by simp
    rw [hnil] at hspec
    rw [Option.bind_some, ← hspec]
    refine agrees_for F (AtItem editNames ρ0 r) _ _ _ (fun p => .tuple [PVal.str p.1, .atom p.2]) _ kvs ρ σ out ?_ hI ?_
    · rw [evalE_items, hp, Option.map_some, Option.bind_some]
      exact itemsOf_kvPairs σ kvs
    · intro p ρ σ out hI
      rw [fill_iter F r p ρ σ out hI.2]
      refine agrees_of_store_eq _ _ _ _ _ ⟨(hI.1.cons _ _ (by decide)).cons _ _ (by decide), ?_⟩ rfl
      simp only [List.lookup_cons, String.reduceBEq, hI.2]

/-- **fill_missing_keys(**pairs)**: evaluation = the specification loop. -/
theorem fill_run (ρ : Env) (σ : Store) (rs : List Nat) (kvs : List (String × LoD.Val))
    (hself : ρ.lookup "self" = some (refsVal rs)) (hkvp : ρ.lookup "key_value_pairs" = some (kvPairsVal kvs)) :
    run F [onePassT (fillEditT (Term.sym "key_value_pairs"))] ρ σ = (fillLoop kvs rs σ).map fun σ' => (rs.map PVal.ref, σ') :=
  run_of_agrees F (Keeps editNames ρ) _ ρ σ _
    (agrees_onePass F editNames (by decide) (by decide) ρ rs hself _ (fun r => foldSteps (fillStep r) kvs)
      (fun r ρ' σ' out' hI => agrees_fillEdit F ρ _ (fun _ => some kvs) r ρ' σ' out' hI
        (by rw [evalE_kvp, hI.1 _ (by decide), hkvp]; rfl)) ρ σ [] (Keeps.refl _ ρ))

/-- the pairs of `fill_missing_keys()` without arguments, as the translated term computes them: `self.keys()` in the
    store at hand, each with value None. -/
def allKeyPairs (rs : List Nat) (σ : Store) : Option (List (String × LoD.Val)) :=
  (σ.view rs).map fun xs => (LoD.allKeys xs).map fun k => (k, LoD.Val.none)

def fromkeysT : Term := Term.app "dict.fromkeys" [Term.app ".keys" [Term.sym "self"], Term.sym "None"]

theorem keysOf_refs (σ : Store) (rs : List Nat) :
    keysOf σ (refsVal rs) = (σ.view rs).map fun xs => .tuple ((LoD.allKeys xs).map PVal.str) := by
  cases rs with
  | nil => rfl
  | cons r rs =>
    have h1 : allM PVal.fst? (List.map PVal.ref (r :: rs)) = none := rfl
    have h2 : allM PVal.asRef (List.map PVal.ref (r :: rs)) = some (r :: rs) := by
      rw [allM_map PVal.asRef PVal.ref id (fun _ => rfl), List.map_id]
    simp only [refsVal, keysOf, h1, h2, Option.bind_some]

theorem evalE_fromkeys_self (ρ : Env) (σ : Store) (rs : List Nat) (hself : ρ.lookup "self" = some (refsVal rs)) :
    evalE F fromkeysT ρ σ = (allKeyPairs rs σ).map kvPairsVal := by
  simp only [fromkeysT, evalE_fromkeys, evalE_keysOf, evalE_self, hself, Option.bind_some, keysOf_refs, evalE_None, allKeyPairs]
  cases σ.view rs with
  | none => rfl
  | some xs => simp [PVal.asTuple, kvPairsVal, PVal.str]

/-- **fill_missing_keys()** (no pairs): the term recomputes `self.keys()` at every position (the translator inlined
    the local `key_value_pairs`), so that is what the specification loop does too. -/
def fillAllLoop (rs : List Nat) : List Nat → Store → Option Store :=
  foldSteps (fun r σ => (allKeyPairs rs σ).bind fun kvs => foldSteps (fillStep r) kvs σ)

theorem fill_all_run (ρ : Env) (σ : Store) (rs : List Nat) (hself : ρ.lookup "self" = some (refsVal rs)) :
    run F [onePassT (fillEditT fromkeysT)] ρ σ = (fillAllLoop rs rs σ).map fun σ' => (rs.map PVal.ref, σ') :=
  run_of_agrees F (Keeps editNames ρ) _ ρ σ _
    (agrees_onePass F editNames (by decide) (by decide) ρ rs hself _ _
      (fun r ρ' σ' out' hI => agrees_fillEdit F ρ _ (allKeyPairs rs) r ρ' σ' out' hI
        (evalE_fromkeys_self F ρ' σ' rs (by rw [hI.1 _ (by decide), hself]))) ρ σ [] (Keeps.refl _ ρ))


/-! #### filter / filter_out: `for item in self: if <test>: yield item` -/

/-- `TieC15.keepIf`. -/
def keepIfT (test : Term) : Term :=
  Term.app "for" [Term.sym "item", Term.sym "self", Term.app "block"
    [Term.app "if" [test, Term.app "block" [yieldItemT], Term.app "block" []]]]

/-- if the truth value of `test` at object `r` is `p r σ`, the loop yields the references picked by the mask of the
    `p r σ` (all taken in the initial store: nothing is written). -/
theorem agrees_keepIf (N : List String) (hN : "item" ∈ N) (hS : "self" ∉ N)
    (ρ0 : Env) (rs : List Nat) (h0 : ρ0.lookup "self" = some (refsVal rs))
    (test : Term) (p : Nat → Store → Option Bool)
    (ht : ∀ r ρ σ, AtItem N ρ0 r ρ → (evalE F test ρ σ).bind (truthy σ) = p r σ)
    (ρ : Env) (σ : Store) (out : List PVal) (hK : Keeps N ρ0 ρ) :
    Agrees (Keeps N ρ0) (evalS F (keepIfT test) ⟨ρ, σ, out⟩)
      ((allM (fun r => p r σ) rs).map fun mask => ((pick rs mask).map PVal.ref, σ)) out := by
  rw [← specLoop_test]
  refine agrees_for F (Keeps N ρ0) _ _ _ PVal.ref _ rs ρ σ out ?_ hK ?_
  · rw [evalE_self, hK _ hS, h0]; rfl
  · intro r ρ σ out hK
    have hI : AtItem N ρ0 r (("item", PVal.ref r) :: ρ) := ⟨hK.cons _ _ hN, by simp⟩
    simp only [bindTarget, Option.bind_some, evalS_block]
    apply agrees_single
    rw [evalS_if, ← Option.bind_assoc]
    simp only [ht r _ σ hI]
    cases p r σ with
    | none => rfl
    | some b =>
      cases b with
      | true =>
        simp only [Option.bind_some, if_true, evalS_block, Option.map_some]
        exact agrees_yieldItem F N ρ0 r _ σ out hI
      | false =>
        simp only [Option.bind_some, Bool.false_eq_true, if_false, evalS_block, Option.map_some]
        exact agrees_nil F _ _ σ out hI.1

/-- the test of the callable branch. -/
def callTest (F : Funs) (hf : Nat) (r : Nat) (σ : Store) : Option Bool := truthy σ (F.call hf [.ref r] σ)

theorem filter_fn_run (ρ : Env) (σ : Store) (rs : List Nat) (hf : Nat)
    (hself : ρ.lookup "self" = some (refsVal rs)) (hfn : ρ.lookup "function" = some (.fn hf)) :
    run F [keepIfT (Term.app "function" [Term.sym "item"])] ρ σ =
      (allM (fun r => callTest F hf r σ) rs).map fun mask => ((pick rs mask).map PVal.ref, σ) :=
  run_of_agrees F (Keeps ["item"] ρ) _ ρ σ _
    (agrees_keepIf F ["item"] (by decide) (by decide) ρ rs hself _ (callTest F hf)
      (fun r ρ' σ' hI => by
        simp only [evalE_function_app, hI.1 _ (by decide : "function" ∉ ["item"]), hfn, PVal.asFn, Option.bind_some,
          evalEs_cons, evalEs_nil, evalE_item, hI.2, Option.map_some, callTest])
      ρ σ [] (Keeps.refl _ ρ))

theorem truthy_bool (σ : Store) (b : Bool) : truthy σ (.bool b) = some b := rfl

theorem filter_out_fn_run (ρ : Env) (σ : Store) (rs : List Nat) (hf : Nat)
    (hself : ρ.lookup "self" = some (refsVal rs)) (hfn : ρ.lookup "function" = some (.fn hf)) :
    run F [keepIfT (Term.app "not" [Term.app "function" [Term.sym "item"]])] ρ σ =
      (allM (fun r => (callTest F hf r σ).map (!·)) rs).map fun mask => ((pick rs mask).map PVal.ref, σ) :=
  run_of_agrees F (Keeps ["item"] ρ) _ ρ σ _
    (agrees_keepIf F ["item"] (by decide) (by decide) ρ rs hself _ (fun r σ => (callTest F hf r σ).map (!·))
      (fun r ρ' σ' hI => by
        simp only [evalE_not, evalE_function_app, hI.1 _ (by decide : "function" ∉ ["item"]), hfn, PVal.asFn,
          Option.bind_some, evalEs_cons, evalEs_nil, evalE_item, hI.2, Option.map_some, callTest]
        cases truthy σ' (F.call hf [PVal.ref r] σ') <;> rfl)
      ρ σ [] (Keeps.refl _ ρ))


/-! #### the key=value branch of filter / filter_out -/

/-- `TieC15.kvExtract`. -/
def kvExtractT : Term := Term.app "operator.itemgetter" [Term.app "*" [Term.app ".keys" [Term.sym "key_value_pairs"]]]
def kvValuesTupleT : Term := Term.app "tuple()" [Term.app ".values" [Term.sym "key_value_pairs"]]
/-- `TieC15.kvValues truth`, the test `len(values) == 1` resolved to `one`. -/
def kvValuesT (one : Bool) : Term := if one then Term.app "getitem" [kvValuesTupleT, Term.int 0] else kvValuesTupleT

/-- `extract(item) == values` at object `r`: all the keys present (else KeyError) and their values equal to the given ones. -/
def kvTest (kvs : List (String × LoD.Val)) (r : Nat) (σ : Store) : Option Bool :=
  (σ.lookup r).bind fun d => (getAll d (kvs.map (·.1))).map fun vs => decide (vs = kvs.map (·.2))

theorem allM_length {α β : Type} (f : α → Option β) (l : List α) (r : List β) (h : allM f l = some r) : r.length = l.length := by
  induction l generalizing r with
  | nil => simp only [allM, Option.some.injEq] at h; subst h; rfl
  | cons a l ih =>
    simp only [allM] at h
    cases hf : f a with
    | none => rw [hf] at h; simp at h
    | some b =>
      rw [hf] at h
      cases hl : allM f l with
      | none => rw [hl] at h; simp at h
      | some bs =>
        rw [hl] at h
        simp only [Option.bind_some, Option.map_some, Option.some.injEq] at h
        subst h
        simp [ih bs hl]

theorem keysOf_kvPairs (σ : Store) (kvs : List (String × LoD.Val)) :
    keysOf σ (kvPairsVal kvs) = some (keysVal (kvs.map (·.1))) := by
  simp only [kvPairsVal, keysOf]
  rw [allM_map PVal.fst? _ (fun p => PVal.str p.1) (fun _ => rfl)]
  simp [keysVal]

theorem valuesOf_kvPairs (σ : Store) (kvs : List (String × LoD.Val)) :
    valuesOf σ (kvPairsVal kvs) = some (.tuple ((kvs.map (·.2)).map PVal.atom)) := by
  simp only [kvPairsVal, valuesOf]
  rw [allM_map PVal.snd? _ (fun p => PVal.atom p.2) (fun _ => rfl)]
  simp

theorem itemgetter_keys (σ : Store) (ks : List String) (r : Nat) :
    itemgetter σ (keysVal ks) (.ref r) = (σ.lookup r).bind fun d => (getAll d ks).bind fun vs =>
      match vs with
      | [] => none
      | [v] => some (.atom v)
      | vs => some (.tuple (vs.map PVal.atom)) := by
  simp only [itemgetter, keysVal, PVal.asTuple, Option.bind_some, PVal.asRef]
  rw [allM_map PVal.asStr PVal.str id (fun _ => rfl), List.map_id]
  rfl

theorem map_atom_inj (vs ws : List LoD.Val) : vs.map PVal.atom = ws.map PVal.atom ↔ vs = ws := by
  constructor
  · intro h
    induction vs generalizing ws with
    | nil => cases ws with
      | nil => rfl
      | cons w ws => simp at h
    | cons v vs ih =>
      cases ws with
      | nil => simp at h
      | cons w ws =>
        simp only [List.map_cons, List.cons.injEq, PVal.atom.injEq] at h
        rw [h.1, ih ws h.2]
  · intro h; rw [h]

theorem plain_tuple_atoms (vs : List LoD.Val) : (PVal.tuple (vs.map PVal.atom)).plain = true := by
  simp [PVal.plain, PVal.isAtom]


theorem kv_eq_eval (kvs : List (String × LoD.Val)) (ρ : Env) (σ : Store) (r : Nat)
    (hitem : ρ.lookup "item" = some (.ref r)) (hkvp : ρ.lookup "key_value_pairs" = some (kvPairsVal kvs)) :
    evalE F (Term.app "call" [kvExtractT, Term.sym "item"]) ρ σ = 
      (σ.lookup r).bind fun d => (getAll d (kvs.map (·.1))).bind fun vs =>
      match vs with
      | [] => none
      | [v] => some (.atom v)
      | vs => some (.tuple (vs.map PVal.atom)) := by
  simp only [kvExtractT, evalE_call_itemgetter, evalE_keysOf, evalE_kvp, hkvp, Option.bind_some, keysOf_kvPairs, evalE_item,
    hitem, itemgetter_keys]

theorem kvValues_eval (kvs : List (String × LoD.Val)) (hne : kvs ≠ []) (ρ : Env) (σ : Store)
    (hkvp : ρ.lookup "key_value_pairs" = some (kvPairsVal kvs)) :
    evalE F (kvValuesT (decide (kvs.length = 1))) ρ σ =
      some (match kvs.map (·.2) with | [w] => .atom w | ws => .tuple (ws.map PVal.atom)) := by
  have hv : evalE F kvValuesTupleT ρ σ = some (.tuple ((kvs.map (·.2)).map PVal.atom)) := by
    simp only [kvValuesTupleT, evalE_tuple_values, evalE_kvp, hkvp, Option.bind_some, valuesOf_kvPairs]
  cases kvs with
  | nil => exact absurd rfl hne
  | cons p kvs =>
    cases kvs with
    | nil =>
      simp only [List.length_singleton, decide_true, kvValuesT, if_true, evalE_getitem, hv, Option.bind_some, evalE_int]
      rfl
    | cons q kvs =>
      have : decide ((p :: q :: kvs).length = 1) = false := by simp
      rw [this]
      simp only [kvValuesT, Bool.false_eq_true, if_false, hv]
      rfl

theorem Eq_truthy (a b : Term) (ρ : Env) (σ : Store) :
    (evalE F (Term.app "Eq" [a, b]) ρ σ).bind (truthy σ) =
      (evalE F a ρ σ).bind fun va => (evalE F b ρ σ).bind fun vb => pyEq va vb := by
  rw [evalE_Eq]
  cases evalE F a ρ σ with
  | none => rfl
  | some va =>
    cases evalE F b ρ σ with
    | none => rfl
    | some vb => simp only [Option.bind_some]; cases pyEq va vb <;> rfl

theorem NotEq_truthy (a b : Term) (ρ : Env) (σ : Store) :
    (evalE F (Term.app "NotEq" [a, b]) ρ σ).bind (truthy σ) =
      ((evalE F a ρ σ).bind fun va => (evalE F b ρ σ).bind fun vb => pyEq va vb).map (!·) := by
  rw [evalE_NotEq]
  cases evalE F a ρ σ with
  | none => rfl
  | some va =>
    cases evalE F b ρ σ with
    | none => rfl
    | some vb => simp only [Option.bind_some]; cases pyEq va vb <;> rfl

/-- the value of `extract(item) == values` is `kvTest`. -/
theorem kv_test_eval (kvs : List (String × LoD.Val)) (hne : kvs ≠ []) (ρ : Env) (σ : Store) (r : Nat)
    (hitem : ρ.lookup "item" = some (.ref r)) (hkvp : ρ.lookup "key_value_pairs" = some (kvPairsVal kvs)) :
    ((evalE F (Term.app "call" [kvExtractT, Term.sym "item"]) ρ σ).bind fun va =>
      (evalE F (kvValuesT (decide (kvs.length = 1))) ρ σ).bind fun vb => pyEq va vb) = kvTest kvs r σ := by
  rw [kv_eq_eval F kvs ρ σ r hitem hkvp, kvValues_eval F kvs hne ρ σ hkvp]
  unfold kvTest
  cases σ.lookup r with
  | none => rfl
  | some d =>
    simp only [Option.bind_some]
    cases hg : getAll d (kvs.map (·.1)) with
    | none => rfl
    | some vs =>
      have hlen : vs.length = kvs.length := by
        have := allM_length _ _ _ hg
        simpa using this
      simp only [Option.bind_some, Option.map_some]
      match kvs, hne, vs, hlen with
      | [p], _, [v], _ =>
        simp only [List.map_cons, List.map_nil, Option.bind_some, pyEq, PVal.plain, Bool.and_self, if_true,
          PVal.atom.injEq, List.cons.injEq, and_true]
      | p :: q :: kvs, _, v :: v' :: vs, _ =>
        have h1 := plain_tuple_atoms (v :: v' :: vs)
        have h2 := plain_tuple_atoms (p.2 :: q.2 :: kvs.map (·.2))
        simp only [List.map_cons] at h1 h2
        have := map_atom_inj (v :: v' :: vs) (p.2 :: q.2 :: kvs.map (·.2))
        simp only [List.map_cons] at this
        simp only [List.map_cons, Option.bind_some, pyEq, h1, h2, Bool.and_self, if_true, PVal.tuple.injEq, this]

theorem filter_kv_run (ρ : Env) (σ : Store) (rs : List Nat) (kvs : List (String × LoD.Val)) (hne : kvs ≠ [])
    (hself : ρ.lookup "self" = some (refsVal rs)) (hkvp : ρ.lookup "key_value_pairs" = some (kvPairsVal kvs)) :
    run F [keepIfT (Term.app "Eq" [Term.app "call" [kvExtractT, Term.sym "item"], kvValuesT (decide (kvs.length = 1))])] ρ σ =
      (allM (fun r => kvTest kvs r σ) rs).map fun mask => ((pick rs mask).map PVal.ref, σ) :=
  run_of_agrees F (Keeps ["item"] ρ) _ ρ σ _
    (agrees_keepIf F ["item"] (by decide) (by decide) ρ rs hself _ (kvTest kvs)
      (fun r ρ' σ' hI => by
        rw [Eq_truthy]
        exact kv_test_eval F kvs hne ρ' σ' r hI.2 (by rw [hI.1 _ (by decide), hkvp]))
      ρ σ [] (Keeps.refl _ ρ))

theorem filter_out_kv_run (ρ : Env) (σ : Store) (rs : List Nat) (kvs : List (String × LoD.Val)) (hne : kvs ≠ [])
    (hself : ρ.lookup "self" = some (refsVal rs)) (hkvp : ρ.lookup "key_value_pairs" = some (kvPairsVal kvs)) :
    run F [keepIfT (Term.app "NotEq" [Term.app "call" [kvExtractT, Term.sym "item"], kvValuesT (decide (kvs.length = 1))])] ρ σ =
      (allM (fun r => (kvTest kvs r σ).map (!·)) rs).map fun mask => ((pick rs mask).map PVal.ref, σ) :=
  run_of_agrees F (Keeps ["item"] ρ) _ ρ σ _
    (agrees_keepIf F ["item"] (by decide) (by decide) ρ rs hself _ (fun r σ => (kvTest kvs r σ).map (!·))
      (fun r ρ' σ' hI => by
        rw [NotEq_truthy]
        exact congrArg _ (kv_test_eval F kvs hne ρ' σ' r hI.2 (by rw [hI.1 _ (by decide), hkvp])))
      ρ σ [] (Keeps.refl _ ρ))

/-! #### reverse, append, `+`, `*` -/

theorem reverse_run (ρ : Env) (σ : Store) (rs : List Nat) (hself : ρ.lookup "self" = some (refsVal rs)) :
    run F [Term.app "yield-from" [Term.app "reversed" [Term.sym "self"]]] ρ σ = some (rs.reverse.map PVal.ref, σ) := by
  simp [run, evalB_cons, evalB_nil, evalS_yieldFrom, evalE_reversed, evalE_self, hself, refsVal, PVal.asTuple]

theorem append_run (ρ : Env) (σ : Store) (rs : List Nat) (n : Nat) (hself : ρ.lookup "self" = some (refsVal rs))
    (hitem : ρ.lookup "item" = some (.ref n)) :
    run F [Term.app "yield-from" [Term.app "itertools.chain" [Term.sym "self", Term.app "list" [Term.sym "item"]]]] ρ σ =
      some ((rs ++ [n]).map PVal.ref, σ) := by
  simp [run, evalB_cons, evalB_nil, evalS_yieldFrom, evalE_chain, evalE_list, evalEs_cons, evalEs_nil, evalE_item, hitem,
    evalE_self, hself, refsVal, PVal.asTuple]

theorem add_run (ρ : Env) (σ : Store) (rs ys : List Nat) (hself : ρ.lookup "self" = some (refsVal rs))
    (hother : ρ.lookup "other" = some (refsVal ys)) :
    run F [Term.app "yield-from" [Term.app "itertools.chain" [Term.sym "self", Term.sym "other"]]] ρ σ =
      some ((rs ++ ys).map PVal.ref, σ) := by
  simp [run, evalB_cons, evalB_nil, evalS_yieldFrom, evalE_chain, evalE_other, hother, evalE_self, hself, refsVal, PVal.asTuple]

theorem flatMap_const {α β : Type} (ys : List β) (l : List α) :
    (l.flatMap fun _ => ys) = (List.replicate l.length ys).flatten := by
  induction l with
  | nil => rfl
  | cons a l ih => simp only [List.flatMap_cons, ih, List.length_cons, List.replicate_succ, List.flatten_cons]

theorem mul_run (ρ : Env) (σ : Store) (rs : List Nat) (n : Int) (hself : ρ.lookup "self" = some (refsVal rs))
    (hother : ρ.lookup "other" = some (.atom (.i n))) :
    run F [Term.app "for" [Term.sym "i", Term.app "range" [Term.sym "other"],
        Term.app "block" [Term.app "yield-from" [Term.sym "self"]]]] ρ σ =
      some ((List.replicate n.toNat rs).flatten.map PVal.ref, σ) := by
  have hspec := specLoop_foldSteps (fun (_ : Nat) σ => some σ) (fun _ => rs.map PVal.ref) (List.range n.toNat) σ
  have hfold : foldSteps (fun (_ : Nat) σ => some σ) (List.range n.toNat) σ = some σ := by
    generalize List.range n.toNat = l
    induction l with
    | nil => rfl
    | cons a l ih => simpa [foldSteps] using ih
  rw [hfold, flatMap_const, List.length_range] at hspec
  have hmap : (List.replicate n.toNat (rs.map PVal.ref)).flatten = (List.replicate n.toNat rs).flatten.map PVal.ref := by
    simp [List.map_flatten, List.map_replicate]
  rw [hmap] at hspec
  refine run_of_agrees F (Keeps ["i"] ρ) _ ρ σ _ ?_
  rw [← Option.map_some, ← hspec]
  refine agrees_for F (Keeps ["i"] ρ) _ _ _ (fun (k : Nat) => PVal.atom (.i (k : Int))) _ _ ρ σ [] ?_ (Keeps.refl _ ρ) ?_
  · rw [evalE_range, evalE_other, hother]; rfl
  · intro k ρ' σ' out hK
    refine ⟨("i", PVal.atom (.i (k : Int))) :: ρ', hK.cons _ _ (by decide), ?_⟩
    simp only [bindTarget, Option.bind_some, evalS_block, evalB_cons, evalB_nil, evalS_yieldFrom, evalE_self]
    rw [show List.lookup "self" (("i", PVal.atom (.i (k : Int))) :: ρ') = List.lookup "self" ρ' from rfl,
      hK _ (by decide), hself]
    rfl

end Bodies


/-! ### the store -/

theorem Store.lookup_set (σ : Store) (n m : Nat) (d : LoD.Dict) :
    (Store.set σ n d).lookup m = if m = n then (σ.lookup n).map (fun _ => d) else σ.lookup m := by
  induction σ with
  | nil => simp [Store.set]
  | cons p σ ih =>
    obtain ⟨k, e⟩ := p
    simp only [Store.set]
    by_cases hk : k = n
    · subst hk
      by_cases hm : m = k
      · subst hm; simp
      · have : (m == k) = false := by simpa using hm
        simp [List.lookup_cons, this, hm]
    · have hkn : (k == n) = false := by simpa using hk
      simp only [hkn, Bool.false_eq_true, if_false, List.lookup_cons, ih]
      by_cases hm : m = n
      · subst hm
        have : (m == k) = false := by simpa using Ne.symm hk
        simp [this]
      · simp only [hm, if_false]

theorem Store.lookup_set_self (σ : Store) (n : Nat) (d d' : LoD.Dict) (h : σ.lookup n = some d) :
    (Store.set σ n d').lookup n = some d' := by
  rw [Store.lookup_set, if_pos rfl, h]; rfl

theorem Store.lookup_set_other (σ : Store) (n m : Nat) (d : LoD.Dict) (h : m ≠ n) :
    (Store.set σ n d).lookup m = σ.lookup m := by
  rw [Store.lookup_set, if_neg h]

theorem Store.set_set (σ : Store) (n : Nat) (d d' : LoD.Dict) : Store.set (Store.set σ n d) n d' = Store.set σ n d' := by
  induction σ with
  | nil => rfl
  | cons p σ ih =>
    obtain ⟨k, e⟩ := p
    simp only [Store.set]
    by_cases hk : k = n
    · subst hk; simp [Store.set]
    · have hkn : (k == n) = false := by simpa using hk
      simp [hkn, Store.set, ih]

theorem Store.set_self (σ : Store) (n : Nat) (d : LoD.Dict) (h : σ.lookup n = some d) : Store.set σ n d = σ := by
  induction σ with
  | nil => rfl
  | cons p σ ih =>
    obtain ⟨k, e⟩ := p
    simp only [Store.set]
    by_cases hk : k = n
    · subst hk
      simp only [List.lookup_cons, beq_self_eq_true, Option.some.injEq] at h
      simp [h]
    · have hkn : (k == n) = false := by simpa using hk
      have hnk : (n == k) = false := by simpa using Ne.symm hk
      simp only [List.lookup_cons, hnk] at h
      simp [hkn, ih h]

theorem Store.view_set_of_not_mem (σ : Store) (n : Nat) (d : LoD.Dict) (rs : List Nat) (h : n ∉ rs) :
    Store.view (Store.set σ n d) rs = Store.view σ rs := by
  induction rs with
  | nil => rfl
  | cons r rs ih =>
    have hr : r ≠ n := fun e => h (e ▸ List.mem_cons_self)
    simp only [Store.view, Store.lookup_set_other σ n r d hr, ih (fun hm => h (List.mem_cons_of_mem _ hm))]

theorem Store.view_congr (σ σ' : Store) (rs : List Nat) (h : ∀ n, n ∈ rs → σ'.lookup n = σ.lookup n) :
    Store.view σ' rs = Store.view σ rs := by
  induction rs with
  | nil => rfl
  | cons r rs ih =>
    simp only [Store.view, h r List.mem_cons_self, ih (fun n hn => h n (List.mem_cons_of_mem _ hn))]

theorem Store.view_tags (σ : Store) (rs : List Nat) (xs : List Item) (h : Store.view σ rs = some xs) : xs.map (·.tag) = rs := by
  induction rs generalizing xs with
  | nil => simp only [Store.view, Option.some.injEq] at h; subst h; rfl
  | cons r rs ih =>
    simp only [Store.view] at h
    cases hl : σ.lookup r with
    | none => rw [hl] at h; simp at h
    | some d =>
      rw [hl] at h
      cases hv : Store.view σ rs with
      | none => rw [hv] at h; simp at h
      | some ys =>
        rw [hv] at h
        simp only [Option.bind_some, Option.map_some, Option.some.injEq] at h
        subst h
        simp [ih ys hv]

/-- **local edits**: if at every object the step replaces the contents `d` by `e d` (and touches nothing else), then on
    pairwise distinct references the fold is the per-item map of the model, and objects outside stay as they are. -/
theorem foldSteps_local (step : Nat → Store → Option Store) (e : LoD.Dict → LoD.Dict)
    (hloc : ∀ r σ d, σ.lookup r = some d → step r σ = some (Store.set σ r (e d)))
    (rs : List Nat) (hd : rs.Nodup) (σ : Store) (xs : List Item) (hv : Store.view σ rs = some xs) :
    ∃ σ', foldSteps step rs σ = some σ' ∧
      Store.view σ' rs = some (xs.map fun x => { tag := x.tag, kv := e x.kv }) ∧
      ∀ n, n ∉ rs → σ'.lookup n = σ.lookup n := by
  induction rs generalizing σ xs with
  | nil =>
    simp only [Store.view, Option.some.injEq] at hv
    subst hv
    exact ⟨σ, rfl, rfl, fun _ _ => rfl⟩
  | cons r rs ih =>
    have hr : r ∉ rs := (List.nodup_cons.mp hd).1
    simp only [Store.view] at hv
    cases hl : σ.lookup r with
    | none => rw [hl] at hv; simp at hv
    | some d =>
      rw [hl] at hv
      cases hvr : Store.view σ rs with
      | none => rw [hvr] at hv; simp at hv
      | some ys =>
        rw [hvr] at hv
        simp only [Option.bind_some, Option.map_some, Option.some.injEq] at hv
        subst hv
        have hv1 : Store.view (Store.set σ r (e d)) rs = some ys := by rw [Store.view_set_of_not_mem _ _ _ _ hr, hvr]
        obtain ⟨σ', h1, h2, h3⟩ := ih (List.nodup_cons.mp hd).2 (Store.set σ r (e d)) ys hv1
        refine ⟨σ', ?_, ?_, ?_⟩
        · simp only [foldSteps, hloc r σ d hl, Option.bind_some, h1]
        · simp only [Store.view, h3 r hr, Store.lookup_set_self σ r d (e d) hl, h2, Option.bind_some, Option.map_some,
            List.map_cons]
        · intro n hn
          have hnr : n ≠ r := fun e => hn (e ▸ List.mem_cons_self)
          rw [h3 n (fun hm => hn (List.mem_cons_of_mem _ hm)), Store.lookup_set_other _ _ _ _ hnr]


/-! ### the specification loops are local edits when the callables only read the object they are given -/

/-- the callable `h` reads nothing but the contents of the object it is called on, and returns a storable value:
    `g` of those contents. -/
def LocalFn (F : Funs) (h : Nat) (g : LoD.Dict → LoD.Val) : Prop :=
  ∀ r σ d, σ.lookup r = some d → F.call h [.ref r] σ = .atom (g d)

/-- the truth value of the callable `h` on an object is `q` of the contents of that object. -/
def LocalPred (F : Funs) (h : Nat) (q : LoD.Dict → Bool) : Prop :=
  ∀ r σ d, σ.lookup r = some d → truthy σ (F.call h [.ref r] σ) = some (q d)

/-- the pairs applied in order to one dict, each function seeing the dict as the previous pairs left it. -/
def applyPairsDict (g : Nat → LoD.Dict → LoD.Val) (ps : List (String × Nat)) (d : LoD.Dict) : LoD.Dict :=
  ps.foldl (fun d p => d.set p.1 (g p.2 d)) d

theorem applyPairsLoop_local (F : Funs) (g : Nat → LoD.Dict → LoD.Val) (ps : List (String × Nat))
    (hg : ∀ p, p ∈ ps → LocalFn F p.2 (g p.2)) (r : Nat) (σ : Store) (d : LoD.Dict) (h : σ.lookup r = some d) :
    applyPairsLoop F ps r σ = some (Store.set σ r (applyPairsDict g ps d)) := by
  unfold applyPairsLoop applyPairsDict
  induction ps generalizing σ d with
  | nil => simp only [foldSteps, List.foldl_nil, Store.set_self σ r d h]
  | cons p ps ih =>
    have h1 : setStep F r p σ = some (Store.set σ r (d.set p.1 (g p.2 d))) := by
      simp only [setStep, hg p List.mem_cons_self r σ d h, PVal.asAtom, Option.bind_some, Store.setKey, h, Option.map_some]
    simp only [foldSteps, h1, Option.bind_some, List.foldl_cons]
    rw [ih (fun q hq => hg q (List.mem_cons_of_mem _ hq)) _ _ (Store.lookup_set_self σ r d _ h), Store.set_set]

theorem modifyIfStep_local (F : Funs) (hp : Nat) (q : LoD.Dict → Bool) (hq : LocalPred F hp q)
    (g : Nat → LoD.Dict → LoD.Val) (ps : List (String × Nat)) (hg : ∀ p, p ∈ ps → LocalFn F p.2 (g p.2))
    (r : Nat) (σ : Store) (d : LoD.Dict) (h : σ.lookup r = some d) :
    modifyIfStep F hp ps r σ = some (Store.set σ r (if q d then applyPairsDict g ps d else d)) := by
  simp only [modifyIfStep, hq r σ d h, Option.bind_some]
  cases q d with
  | true => simpa using applyPairsLoop_local F g ps hg r σ d h
  | false => simp [Store.set_self σ r d h]

theorem Dict.del_of_not_has (d : LoD.Dict) (k : String) (h : d.has k = false) : d.del k = d := by
  unfold Dict.del
  rw [List.filter_eq_self]
  intro p hp
  simp only [Dict.has, List.any_eq_false] at h
  have := h p hp
  simpa using this

theorem delSteps_local (ks : List String) (r : Nat) (σ : Store) (d : LoD.Dict) (h : σ.lookup r = some d) :
    foldSteps (delStep r) ks σ = some (Store.set σ r (ks.foldl (fun d k => d.del k) d)) := by
  induction ks generalizing σ d with
  | nil => simp only [foldSteps, List.foldl_nil, Store.set_self σ r d h]
  | cons k ks ih =>
    simp only [foldSteps, delStep, h, Option.map_some, Option.bind_some, List.foldl_cons]
    cases hk : d.has k with
    | true =>
      simp only [if_true]
      rw [ih _ _ (Store.lookup_set_self σ r d _ h), Store.set_set]
    | false =>
      simp only [Bool.false_eq_true, if_false]
      rw [ih σ d h, Dict.del_of_not_has d k hk]

theorem fillSteps_local (kvs : List (String × LoD.Val)) (r : Nat) (σ : Store) (d : LoD.Dict) (h : σ.lookup r = some d) :
    foldSteps (fillStep r) kvs σ =
      some (Store.set σ r (kvs.foldl (fun d p => if d.has p.1 then d else d.set p.1 p.2) d)) := by
  induction kvs generalizing σ d with
  | nil => simp only [foldSteps, List.foldl_nil, Store.set_self σ r d h]
  | cons p kvs ih =>
    simp only [foldSteps, fillStep, h, Option.map_some, Option.bind_some, List.foldl_cons]
    cases hk : d.has p.1 with
    | true =>
      simp only [if_true]
      exact ih σ d h
    | false =>
      simp only [Bool.false_eq_true, if_false]
      rw [ih _ _ (Store.lookup_set_self σ r d _ h), Store.set_set]

/-! ### the model functions as per-item maps -/

theorem modify_eq_map (xs : List Item) (key : String) (g : LoD.Dict → LoD.Val) :
    LoD.modify xs key (xs.map fun x => g x.kv) = xs.map fun x => { tag := x.tag, kv := x.kv.set key (g x.kv) } := by
  unfold LoD.modify
  induction xs with
  | nil => rfl
  | cons x xs ih => simp only [List.map_cons, List.zip_cons_cons, ih]

theorem modifyIf_eq_map (xs : List Item) (key : String) (q : LoD.Dict → Bool) (g : LoD.Dict → LoD.Val) :
    LoD.modifyIf xs (xs.map fun x => q x.kv) key (xs.map fun x => g x.kv) =
      xs.map fun x => { tag := x.tag, kv := if q x.kv then x.kv.set key (g x.kv) else x.kv } := by
  unfold LoD.modifyIf
  induction xs with
  | nil => rfl
  | cons x xs ih =>
    simp only [List.map_cons, List.zip_cons_cons, ih, List.cons.injEq, and_true]
    cases q x.kv <;> rfl

/-- several pairs = one `LoD.modify` per pair, each with the values computed on the list as the previous pairs left it. -/
theorem modify_many_eq_map (g : Nat → LoD.Dict → LoD.Val) (ps : List (String × Nat)) (xs : List Item) :
    ps.foldl (fun acc p => LoD.modify acc p.1 (acc.map fun x => g p.2 x.kv)) xs =
      xs.map fun x => { tag := x.tag, kv := applyPairsDict g ps x.kv } := by
  induction ps generalizing xs with
  | nil => simp [applyPairsDict]
  | cons p ps ih =>
    rw [List.foldl_cons, modify_eq_map, ih, List.map_map]
    rfl


/-! ### specification loop ⇒ model (pairwise distinct references) -/

/-- what "the final store is the model's result" means: the loop succeeds, the receiver's objects now hold `ys`
    (same identities, same order), every other object is untouched. -/
def RefinesTo (loop : Option Store) (σ : Store) (rs : List Nat) (ys : List Item) : Prop :=
  ∃ σ', loop = some σ' ∧ Store.view σ' rs = some ys ∧ ∀ n, n ∉ rs → σ'.lookup n = σ.lookup n

theorem modifyLoop_pointwise (F : Funs) (g : Nat → LoD.Dict → LoD.Val) (ps : List (String × Nat))
    (hg : ∀ p, p ∈ ps → LocalFn F p.2 (g p.2)) (rs : List Nat) (hd : rs.Nodup) (σ : Store) (xs : List Item)
    (hv : Store.view σ rs = some xs) :
    RefinesTo (modifyLoop F ps rs σ) σ rs (xs.map fun x => { tag := x.tag, kv := applyPairsDict g ps x.kv }) :=
  foldSteps_local (applyPairsLoop F ps) (applyPairsDict g ps)
    (fun r σ d h => applyPairsLoop_local F g ps hg r σ d h) rs hd σ xs hv

theorem modifyIfLoop_pointwise (F : Funs) (hp : Nat) (q : LoD.Dict → Bool) (hq : LocalPred F hp q)
    (g : Nat → LoD.Dict → LoD.Val) (ps : List (String × Nat)) (hg : ∀ p, p ∈ ps → LocalFn F p.2 (g p.2))
    (rs : List Nat) (hd : rs.Nodup) (σ : Store) (xs : List Item) (hv : Store.view σ rs = some xs) :
    RefinesTo (modifyIfLoop F hp ps rs σ) σ rs
      (xs.map fun x => { tag := x.tag, kv := if q x.kv then applyPairsDict g ps x.kv else x.kv }) :=
  foldSteps_local (modifyIfStep F hp ps) (fun d => if q d then applyPairsDict g ps d else d)
    (fun r σ d h => modifyIfStep_local F hp q hq g ps hg r σ d h) rs hd σ xs hv

/-- modify, one pair: the model's `LoD.modify` with the values computed on the original contents. -/
theorem modifyLoop_model (F : Funs) (key : String) (h : Nat) (g : LoD.Dict → LoD.Val) (hg : LocalFn F h g)
    (rs : List Nat) (hd : rs.Nodup) (σ : Store) (xs : List Item) (hv : Store.view σ rs = some xs) :
    RefinesTo (modifyLoop F [(key, h)] rs σ) σ rs (LoD.modify xs key (xs.map fun x => g x.kv)) := by
  rw [modify_eq_map]
  exact modifyLoop_pointwise F (fun _ => g) [(key, h)] (fun p hp => by simp at hp; subst hp; exact hg) rs hd σ xs hv

/-- modify, any number of pairs: one `LoD.modify` per pair in order. -/
theorem modifyLoop_model_many (F : Funs) (g : Nat → LoD.Dict → LoD.Val) (ps : List (String × Nat))
    (hg : ∀ p, p ∈ ps → LocalFn F p.2 (g p.2)) (rs : List Nat) (hd : rs.Nodup) (σ : Store) (xs : List Item)
    (hv : Store.view σ rs = some xs) :
    RefinesTo (modifyLoop F ps rs σ) σ rs
      (ps.foldl (fun acc p => LoD.modify acc p.1 (acc.map fun x => g p.2 x.kv)) xs) := by
  rw [modify_many_eq_map]
  exact modifyLoop_pointwise F g ps hg rs hd σ xs hv

/-- modify_if, one pair: the model's `LoD.modifyIf` with mask = predicate on the original contents and values =
    function on the original contents. -/
theorem modifyIfLoop_model (F : Funs) (hp : Nat) (q : LoD.Dict → Bool) (hq : LocalPred F hp q)
    (key : String) (h : Nat) (g : LoD.Dict → LoD.Val) (hg : LocalFn F h g)
    (rs : List Nat) (hd : rs.Nodup) (σ : Store) (xs : List Item) (hv : Store.view σ rs = some xs) :
    RefinesTo (modifyIfLoop F hp [(key, h)] rs σ) σ rs
      (LoD.modifyIf xs (xs.map fun x => q x.kv) key (xs.map fun x => g x.kv)) := by
  rw [modifyIf_eq_map]
  exact modifyIfLoop_pointwise F hp q hq (fun _ => g) [(key, h)] (fun p hp => by simp at hp; subst hp; exact hg) rs hd σ xs hv

theorem unselectLoop_model (ks : List String) (rs : List Nat) (hd : rs.Nodup) (σ : Store) (xs : List Item)
    (hv : Store.view σ rs = some xs) : RefinesTo (unselectLoop ks rs σ) σ rs (LoD.unselect xs ks) :=
  foldSteps_local (fun r => foldSteps (delStep r) ks) (fun d => ks.foldl (fun d k => d.del k) d)
    (fun r σ d h => delSteps_local ks r σ d h) rs hd σ xs hv

theorem fillLoop_model (kvs : List (String × LoD.Val)) (rs : List Nat) (hd : rs.Nodup) (σ : Store) (xs : List Item)
    (hv : Store.view σ rs = some xs) : RefinesTo (fillLoop kvs rs σ) σ rs (LoD.fillMissing xs kvs) :=
  foldSteps_local (fun r => foldSteps (fillStep r) kvs)
    (fun d => kvs.foldl (fun (d : LoD.Dict) (p : String × LoD.Val) => if d.has p.1 then d else d.set p.1 p.2) d)
    (fun r σ d h => fillSteps_local kvs r σ d h) rs hd σ xs hv


/-! ### gluing: evaluation ⇒ specification loop ⇒ model -/

theorem refines_of_run {run : Option (List PVal × Store)} {loop : Option Store} {out : List PVal} {σ : Store}
    {rs : List Nat} {ys : List Item} (hrun : run = loop.map fun σ' => (out, σ')) (h : RefinesTo loop σ rs ys) :
    ∃ σ', run = some (out, σ') ∧ Store.view σ' rs = some ys ∧ ∀ n, n ∉ rs → σ'.lookup n = σ.lookup n := by
  obtain ⟨σ', h1, h2, h3⟩ := h
  exact ⟨σ', by rw [hrun, h1]; rfl, h2, h3⟩

theorem allM_map_fun {α β γ : Type} (f : α → Option β) (h : β → γ) (l : List α) :
    allM (fun a => (f a).map h) l = (allM f l).map (List.map h) := by
  induction l with
  | nil => rfl
  | cons a l ih =>
    simp only [allM, ih]
    cases f a with
    | none => rfl
    | some b => cases allM f l <;> rfl

/-- the picked references are the model's filtered items. -/
theorem pick_refs (σ : Store) (rs : List Nat) (xs : List Item) (hv : Store.view σ rs = some xs) (mask : List Bool) :
    (pick rs mask).map PVal.ref = (LoD.filterMask xs mask).map fun it => PVal.ref it.tag := by
  rw [filterMask_eq_pick, ← Store.view_tags σ rs xs hv, ← pick_map, List.map_map]
  rfl

theorem pick_refs_out (σ : Store) (rs : List Nat) (xs : List Item) (hv : Store.view σ rs = some xs) (mask : List Bool) :
    (pick rs (mask.map (!·))).map PVal.ref = (LoD.filterOutMask xs mask).map fun it => PVal.ref it.tag := by
  rw [filterOutMask_eq_pick, ← Store.view_tags σ rs xs hv, ← pick_map, List.map_map]
  rfl

theorem getAll_of_has (d : LoD.Dict) (ks : List String) (h : ∀ k, k ∈ ks → d.has k = true) (r : Nat) :
    getAll d ks = some (LoD.extract ks { tag := r, kv := d }) := by
  unfold getAll LoD.extract
  induction ks with
  | nil => rfl
  | cons k ks ih =>
    have hk := h k List.mem_cons_self
    have : ∃ v, d.get? k = some v := by
      simp only [Dict.has, List.any_eq_true] at hk
      obtain ⟨p, hp, e⟩ := hk
      cases hf : d.find? (fun p => p.1 == k) with
      | none => rw [List.find?_eq_none] at hf; exact absurd e (hf p hp)
      | some x => exact ⟨x.2, by simp [Dict.get?, hf]⟩
    obtain ⟨v, hv⟩ := this
    simp only [allM, hv, Option.bind_some, ih (fun k' hk' => h k' (List.mem_cons_of_mem _ hk')), Option.map_some,
      List.map_cons, Option.getD_some]

/-- when every item has all the named keys, the tests of the key=value branch are the model's mask. -/
theorem kvMask_model (kvs : List (String × LoD.Val)) (σ : Store) (rs : List Nat) (xs : List Item)
    (hv : Store.view σ rs = some xs) (hall : ∀ x, x ∈ xs → ∀ p, p ∈ kvs → x.kv.has p.1 = true) :
    allM (fun r => kvTest kvs r σ) rs =
      some (xs.map fun it => LoD.extract (kvs.map (·.1)) it == kvs.map (·.2)) := by
  induction rs generalizing xs with
  | nil => simp only [Store.view, Option.some.injEq] at hv; subst hv; rfl
  | cons r rs ih =>
    simp only [Store.view] at hv
    cases hl : σ.lookup r with
    | none => rw [hl] at hv; simp at hv
    | some d =>
      rw [hl] at hv
      cases hvr : Store.view σ rs with
      | none => rw [hvr] at hv; simp at hv
      | some ys =>
        rw [hvr] at hv
        simp only [Option.bind_some, Option.map_some, Option.some.injEq] at hv
        subst hv
        have hd : getAll d (kvs.map (·.1)) = some (LoD.extract (kvs.map (·.1)) { tag := r, kv := d }) :=
          getAll_of_has d _ (fun k hk => by
            obtain ⟨p, hp, e⟩ := List.mem_map.mp hk
            exact e ▸ hall _ List.mem_cons_self p hp) r
        have hhead : kvTest kvs r σ =
            some (LoD.extract (kvs.map (·.1)) { tag := r, kv := d } == kvs.map (·.2)) := by
          simp only [kvTest, hl, hd, Option.bind_some, Option.map_some, Option.some.injEq]
          cases hb : (LoD.extract (kvs.map (·.1)) { tag := r, kv := d } == kvs.map (·.2)) with
          | true => exact decide_eq_true (eq_of_beq hb)
          | false => exact decide_eq_false (ne_of_beq_false hb)
        simp only [allM, hhead, Option.bind_some, ih ys hvr (fun x hx => hall x (List.mem_cons_of_mem _ hx)),
          Option.map_some, List.map_cons]



/-! ### `self.keys()` does not change while fill_missing_keys() runs -/

/-- the accumulation step of `LoD.allKeys`. -/
def addKeys (acc ks : List String) : List String :=
  ks.foldl (fun acc k => if acc.contains k then acc else acc ++ [k]) acc

theorem allKeys_eq_addKeys (xs : List Item) : LoD.allKeys xs = addKeys [] (xs.flatMap fun it => it.kv.map (·.1)) := rfl

theorem addKeys_nil (acc : List String) : addKeys acc [] = acc := rfl
theorem addKeys_cons (acc : List String) (k : String) (ks : List String) :
    addKeys acc (k :: ks) = addKeys (if acc.contains k then acc else acc ++ [k]) ks := rfl

theorem addKeys_append (acc a b : List String) : addKeys acc (a ++ b) = addKeys (addKeys acc a) b := by
  unfold addKeys; rw [List.foldl_append]

theorem addKeys_prefix (acc ks : List String) : ∃ E, addKeys acc ks = acc ++ E := by
  induction ks generalizing acc with
  | nil => exact ⟨[], by simp [addKeys_nil]⟩
  | cons k ks ih =>
    rw [addKeys_cons]
    split
    · exact ih acc
    · obtain ⟨E, h⟩ := ih (acc ++ [k]); exact ⟨k :: E, by rw [h]; simp⟩

theorem mem_addKeys (acc ks : List String) (k : String) : k ∈ addKeys acc ks ↔ k ∈ acc ∨ k ∈ ks := by
  induction ks generalizing acc with
  | nil => simp [addKeys_nil]
  | cons a ks ih =>
    rw [addKeys_cons, ih]
    split
    · rename_i h
      have : a ∈ acc := by simpa using h
      constructor
      · rintro (h | h); exact Or.inl h; exact Or.inr (List.mem_cons_of_mem _ h)
      · rintro (h | h)
        · exact Or.inl h
        · rcases List.mem_cons.mp h with e | e
          · exact Or.inl (e ▸ this)
          · exact Or.inr e
    · simp only [List.mem_append, List.mem_cons, List.not_mem_nil, or_false, or_assoc]

theorem addKeys_of_subset (acc ks : List String) (h : ∀ k, k ∈ ks → k ∈ acc) : addKeys acc ks = acc := by
  induction ks with
  | nil => rfl
  | cons k ks ih =>
    have hk : acc.contains k = true := by simpa using h k List.mem_cons_self
    rw [addKeys_cons, hk, if_pos rfl]
    exact ih (fun k' hk' => h k' (List.mem_cons_of_mem _ hk'))

/-- keys already accumulated into a list all of whose members the accumulator has add nothing new, in any order. -/
theorem addKeys_addKeys (L X B : List String) (h : ∀ k, k ∈ X → k ∈ B) : addKeys B (addKeys X L) = addKeys B L := by
  induction L generalizing X B with
  | nil => rw [addKeys_nil, addKeys_nil]; exact addKeys_of_subset B X h
  | cons k L ih =>
    rw [addKeys_cons X, addKeys_cons B]
    -- the two accumulators after `k`
    have key : ∀ X' B', (∀ k, k ∈ X' → k ∈ B') → addKeys B X' = B' → addKeys B (addKeys X' L) = addKeys B' L := by
      intro X' B' hsub hB
      obtain ⟨E, hE⟩ := addKeys_prefix X' L
      have h1 : addKeys B (addKeys X' L) = addKeys B' E := by rw [hE, addKeys_append, hB]
      have h2 : addKeys B' (addKeys X' L) = addKeys B' E := by
        rw [hE, addKeys_append, addKeys_of_subset B' X' hsub]
      rw [h1, ← h2]
      exact ih X' B' hsub
    by_cases hX : k ∈ X
    · have hB : k ∈ B := h k hX
      have e1 : X.contains k = true := by simpa using hX
      have e2 : B.contains k = true := by simpa using hB
      rw [e1, e2, if_pos rfl, if_pos rfl]
      exact key X B h (addKeys_of_subset B X h)
    · have e1 : X.contains k = false := by simpa using hX
      rw [e1]
      simp only [Bool.false_eq_true, if_false]
      have hstep : addKeys B (X ++ [k]) = if B.contains k then B else B ++ [k] := by
        rw [addKeys_append, addKeys_of_subset B X h]; rfl
      refine key (X ++ [k]) _ ?_ hstep
      intro k' hk'
      rcases List.mem_append.mp hk' with hk' | hk'
      · split
        · exact h k' hk'
        · exact List.mem_append_left _ (h k' hk')
      · have : k' = k := by simpa using hk'
        subst this
        split
        · rename_i hc; simpa using hc
        · simp

/-- replacing one item by one whose keys are its own followed by all keys leaves `allKeys` as it is. -/
theorem allKeys_fill_one (pre post : List Item) (x x' : Item)
    (hx' : x'.kv.map (·.1) = addKeys (x.kv.map (·.1)) (LoD.allKeys (pre ++ x :: post))) :
    LoD.allKeys (pre ++ x' :: post) = LoD.allKeys (pre ++ x :: post) := by
  simp only [allKeys_eq_addKeys, List.flatMap_append, List.flatMap_cons, addKeys_append] at hx' ⊢
  generalize addKeys [] (pre.flatMap fun it => it.kv.map (·.1)) = A at hx' ⊢
  generalize (post.flatMap fun it => it.kv.map (·.1)) = Q at hx' ⊢
  generalize x.kv.map (·.1) = X at hx' ⊢
  rw [hx']
  have hXB : ∀ k, k ∈ X → k ∈ addKeys A X := fun k hk => (mem_addKeys A X k).mpr (Or.inr hk)
  -- A then (X then K) = (A then X) then K = K
  have h1 : addKeys A (addKeys X (addKeys (addKeys A X) Q)) = addKeys (addKeys A X) Q := by
    obtain ⟨E, hE⟩ := addKeys_prefix X (addKeys (addKeys A X) Q)
    have e1 : addKeys A (addKeys X (addKeys (addKeys A X) Q)) = addKeys (addKeys A X) E := by rw [hE, addKeys_append]
    have e2 : addKeys (addKeys A X) (addKeys X (addKeys (addKeys A X) Q)) = addKeys (addKeys A X) E := by
      rw [hE, addKeys_append, addKeys_of_subset (addKeys A X) X hXB]
    rw [e1, ← e2, addKeys_addKeys _ X _ hXB, addKeys_addKeys _ _ _ (fun _ h => h)]
  rw [h1]
  exact addKeys_of_subset _ Q (fun k hk => (mem_addKeys _ Q k).mpr (Or.inr hk))

theorem contains_keys_eq_has (d : LoD.Dict) (k : String) : (d.map (·.1)).contains k = d.has k := by
  induction d with
  | nil => rfl
  | cons p d ih =>
    simp only [List.map_cons, List.contains_cons, Dict.has, List.any_cons] at ih ⊢
    rw [ih]
    cases h : (p.1 == k) with
    | true => have : (k == p.1) = true := by rw [beq_iff_eq] at h ⊢; exact h.symm
              simp [this]
    | false => have : (k == p.1) = false := by rw [beq_eq_false_iff_ne] at h ⊢; exact fun e => h e.symm
               simp [this]

/-- the keys of a dict after `fill_missing_keys`. -/
theorem keys_fillDict (kvs : List (String × LoD.Val)) (d : LoD.Dict) :
    (kvs.foldl (fun (d : LoD.Dict) (p : String × LoD.Val) => if d.has p.1 then d else d.set p.1 p.2) d).map (·.1) =
      addKeys (d.map (·.1)) (kvs.map (·.1)) := by
  induction kvs generalizing d with
  | nil => rfl
  | cons p kvs ih =>
    rw [List.foldl_cons, ih, List.map_cons, addKeys_cons, contains_keys_eq_has]
    cases hh : d.has p.1 with
    | true => simp
    | false =>
      have hm : p.1 ∉ d.keys := fun hc => by
        have := (Dict.has_iff_mem_keys d p.1).mpr hc
        rw [hh] at this; cases this
      have hk : (d.set p.1 p.2).keys = d.keys ++ [p.1] := by rw [Dict.keys_set, if_neg hm]
      simp only [Bool.false_eq_true, if_false]
      exact congrArg (fun l => addKeys l (kvs.map (·.1))) hk


theorem Store.view_append (σ : Store) (a b : List Nat) :
    Store.view σ (a ++ b) = (Store.view σ a).bind fun xs => (Store.view σ b).map fun ys => xs ++ ys := by
  induction a with
  | nil => simp only [List.nil_append, Store.view, Option.bind_some]; cases Store.view σ b <;> rfl
  | cons r a ih =>
    simp only [List.cons_append, Store.view, ih]
    cases σ.lookup r with
    | none => rfl
    | some d =>
      cases Store.view σ a with
      | none => rfl
      | some xs => cases Store.view σ b <;> rfl

theorem Store.view_split (σ : Store) (a b : List Nat) (r : Nat) (zs : List Item)
    (h : Store.view σ (a ++ r :: b) = some zs) :
    ∃ za d zb, Store.view σ a = some za ∧ σ.lookup r = some d ∧ Store.view σ b = some zb ∧
      zs = za ++ { tag := r, kv := d } :: zb := by
  rw [Store.view_append] at h
  cases ha : Store.view σ a with
  | none => rw [ha] at h; simp at h
  | some za =>
    rw [ha] at h
    simp only [Option.bind_some, Store.view] at h
    cases hl : σ.lookup r with
    | none => rw [hl] at h; simp at h
    | some d =>
      rw [hl] at h
      cases hb : Store.view σ b with
      | none => rw [hb] at h; simp at h
      | some zb =>
        rw [hb] at h
        simp only [Option.bind_some, Option.map_some, Option.some.injEq] at h
        exact ⟨za, d, zb, rfl, rfl, rfl, h.symm⟩

/-- two step functions that agree wherever an invariant holds, the invariant being kept by the steps. -/
theorem foldSteps_congr_inv (Inv : Store → Prop) (step step' : Nat → Store → Option Store) (rs : List Nat)
    (hstep : ∀ r, r ∈ rs → ∀ σ, Inv σ → step r σ = step' r σ)
    (hpres : ∀ r, r ∈ rs → ∀ σ σ', Inv σ → step' r σ = some σ' → Inv σ') :
    ∀ σ, Inv σ → foldSteps step rs σ = foldSteps step' rs σ := by
  induction rs with
  | nil => intro σ _; rfl
  | cons r rs ih =>
    intro σ hI
    simp only [foldSteps, hstep r List.mem_cons_self σ hI]
    cases hs : step' r σ with
    | none => rfl
    | some σ' =>
      simp only [Option.bind_some]
      exact ih (fun r' hr' => hstep r' (List.mem_cons_of_mem _ hr')) (fun r' hr' => hpres r' (List.mem_cons_of_mem _ hr'))
        σ' (hpres r List.mem_cons_self σ σ' hI hs)

/-- one dict after `fill_missing_keys(**kvs)` (the fold of `LoD.fillMissing`). -/
abbrev fillDict (kvs : List (String × LoD.Val)) (d : LoD.Dict) : LoD.Dict :=
  kvs.foldl (fun (d : LoD.Dict) (p : String × LoD.Val) => if d.has p.1 then d else d.set p.1 p.2) d

/-- **fill_missing_keys()**: on pairwise distinct references the recomputed `self.keys()` is the same at every
    position, so the loop of the translated term is the loop with the pairs computed once (as in the Python source). -/
theorem fillAllLoop_eq_fillLoop (rs : List Nat) (hd : rs.Nodup) (σ : Store) (xs : List Item)
    (hv : Store.view σ rs = some xs) :
    fillAllLoop rs rs σ = fillLoop ((LoD.allKeys xs).map fun k => (k, LoD.Val.none)) rs σ := by
  let K : List (String × LoD.Val) := (LoD.allKeys xs).map fun k => (k, LoD.Val.none)
  have hK : K.map (·.1) = LoD.allKeys xs := by simp [K, List.map_map, Function.comp_def]
  refine foldSteps_congr_inv (fun σ => ∃ zs, Store.view σ rs = some zs ∧ LoD.allKeys zs = LoD.allKeys xs) _ _ rs ?_ ?_
    σ ⟨xs, hv, rfl⟩
  · intro r _ σ ⟨zs, hz, hk⟩
    simp only [allKeyPairs, hz, Option.map_some, hk, Option.bind_some]
  · intro r hr σ σ' ⟨zs, hz, hk⟩ hs
    obtain ⟨a, b, hab⟩ := List.append_of_mem hr
    have hnd : (a ++ r :: b).Nodup := hab ▸ hd
    have hra : r ∉ a := fun h => (List.nodup_append.mp hnd).2.2 r h r List.mem_cons_self rfl
    have hrb : r ∉ b := (List.nodup_cons.mp (List.nodup_append.mp hnd).2.1).1
    rw [hab] at hz
    obtain ⟨za, d, zb, h1, h2, h3, h4⟩ := Store.view_split σ a b r zs hz
    rw [fillSteps_local _ r σ d h2, Option.some.injEq] at hs
    subst hs
    refine ⟨za ++ { tag := r, kv := fillDict K d } :: zb, ?_, ?_⟩
    · rw [hab, Store.view_append, Store.view_set_of_not_mem _ _ _ _ hra, h1]
      simp only [Option.bind_some, Store.view, Store.lookup_set_self σ r d _ h2,
        Store.view_set_of_not_mem _ _ _ _ hrb, h3, Option.map_some]
      rfl
    · rw [← hk, h4]
      apply allKeys_fill_one
      rw [keys_fillDict, ← h4, hk]
      exact congrArg _ hK

theorem fillAllLoop_model (rs : List Nat) (hd : rs.Nodup) (σ : Store) (xs : List Item)
    (hv : Store.view σ rs = some xs) : RefinesTo (fillAllLoop rs rs σ) σ rs (LoD.fillMissingAll xs) := by
  rw [fillAllLoop_eq_fillLoop rs hd σ xs hv]
  exact fillLoop_model _ rs hd σ xs hv



/-! ### the yielded references as model items -/

/-- the reference to an item of the model. -/
def tagRef (it : Item) : PVal := .ref it.tag

theorem refs_of_view (σ : Store) (rs : List Nat) (xs : List Item) (hv : Store.view σ rs = some xs) :
    rs.map PVal.ref = xs.map tagRef := by
  rw [← Store.view_tags σ rs xs hv, List.map_map]; rfl

section Models
variable (F : Funs)

theorem filter_fn_model (ρ : Env) (σ : Store) (rs : List Nat) (hf : Nat)
    (hself : ρ.lookup "self" = some (refsVal rs)) (hfn : ρ.lookup "function" = some (.fn hf))
    (xs : List Item) (hv : Store.view σ rs = some xs) (mask : List Bool)
    (hm : allM (fun r => callTest F hf r σ) rs = some mask) :
    run F [keepIfT (Term.app "function" [Term.sym "item"])] ρ σ = some ((LoD.filterMask xs mask).map tagRef, σ) := by
  rw [filter_fn_run F ρ σ rs hf hself hfn, hm, Option.map_some, pick_refs σ rs xs hv]; rfl

theorem filter_out_fn_model (ρ : Env) (σ : Store) (rs : List Nat) (hf : Nat)
    (hself : ρ.lookup "self" = some (refsVal rs)) (hfn : ρ.lookup "function" = some (.fn hf))
    (xs : List Item) (hv : Store.view σ rs = some xs) (mask : List Bool)
    (hm : allM (fun r => callTest F hf r σ) rs = some mask) :
    run F [keepIfT (Term.app "not" [Term.app "function" [Term.sym "item"]])] ρ σ =
      some ((LoD.filterOutMask xs mask).map tagRef, σ) := by
  rw [filter_out_fn_run F ρ σ rs hf hself hfn, allM_map_fun, hm, Option.map_some, Option.map_some,
    pick_refs_out σ rs xs hv]; rfl

theorem filter_kv_model (ρ : Env) (σ : Store) (rs : List Nat) (kvs : List (String × LoD.Val)) (hne : kvs ≠ [])
    (hself : ρ.lookup "self" = some (refsVal rs)) (hkvp : ρ.lookup "key_value_pairs" = some (kvPairsVal kvs))
    (xs : List Item) (hv : Store.view σ rs = some xs) (hall : ∀ x, x ∈ xs → ∀ p, p ∈ kvs → x.kv.has p.1 = true) :
    run F [keepIfT (Term.app "Eq" [Term.app "call" [kvExtractT, Term.sym "item"], kvValuesT (decide (kvs.length = 1))])] ρ σ =
      some ((LoD.filterKv xs kvs).map tagRef, σ) := by
  rw [filter_kv_run F ρ σ rs kvs hne hself hkvp, kvMask_model kvs σ rs xs hv hall, Option.map_some,
    pick_refs σ rs xs hv, filterKv_eq_mask]; rfl

theorem filter_out_kv_model (ρ : Env) (σ : Store) (rs : List Nat) (kvs : List (String × LoD.Val)) (hne : kvs ≠ [])
    (hself : ρ.lookup "self" = some (refsVal rs)) (hkvp : ρ.lookup "key_value_pairs" = some (kvPairsVal kvs))
    (xs : List Item) (hv : Store.view σ rs = some xs) (hall : ∀ x, x ∈ xs → ∀ p, p ∈ kvs → x.kv.has p.1 = true) :
    run F [keepIfT (Term.app "NotEq" [Term.app "call" [kvExtractT, Term.sym "item"], kvValuesT (decide (kvs.length = 1))])] ρ σ =
      some ((LoD.filterOutKv xs kvs).map tagRef, σ) := by
  rw [filter_out_kv_run F ρ σ rs kvs hne hself hkvp, allM_map_fun, kvMask_model kvs σ rs xs hv hall, Option.map_some,
    Option.map_some, pick_refs_out σ rs xs hv, filterOutKv_eq_mask]; rfl

theorem reverse_model (ρ : Env) (σ : Store) (rs : List Nat) (hself : ρ.lookup "self" = some (refsVal rs))
    (xs : List Item) (hv : Store.view σ rs = some xs) :
    run F [Term.app "yield-from" [Term.app "reversed" [Term.sym "self"]]] ρ σ = some ((LoD.reverse xs).map tagRef, σ) := by
  rw [reverse_run F ρ σ rs hself, List.map_reverse, refs_of_view σ rs xs hv, ← List.map_reverse]; rfl

theorem append_model (ρ : Env) (σ : Store) (rs : List Nat) (n : Nat) (hself : ρ.lookup "self" = some (refsVal rs))
    (hitem : ρ.lookup "item" = some (.ref n)) (xs : List Item) (hv : Store.view σ rs = some xs) (d : LoD.Dict)
    (_hn : σ.lookup n = some d) :
    run F [Term.app "yield-from" [Term.app "itertools.chain" [Term.sym "self", Term.app "list" [Term.sym "item"]]]] ρ σ =
      some ((LoD.append xs { tag := n, kv := d }).map tagRef, σ) := by
  rw [append_run F ρ σ rs n hself hitem, List.map_append, refs_of_view σ rs xs hv]
  simp [LoD.append, tagRef]

theorem add_model (ρ : Env) (σ : Store) (rs ys : List Nat) (hself : ρ.lookup "self" = some (refsVal rs))
    (hother : ρ.lookup "other" = some (refsVal ys)) (xs zs : List Item) (hv : Store.view σ rs = some xs)
    (hw : Store.view σ ys = some zs) :
    run F [Term.app "yield-from" [Term.app "itertools.chain" [Term.sym "self", Term.sym "other"]]] ρ σ =
      some ((LoD.add xs zs).map tagRef, σ) := by
  rw [add_run F ρ σ rs ys hself hother, List.map_append, refs_of_view σ rs xs hv, refs_of_view σ ys zs hw]
  simp [LoD.add]

theorem mul_model (ρ : Env) (σ : Store) (rs : List Nat) (n : Int) (hself : ρ.lookup "self" = some (refsVal rs))
    (hother : ρ.lookup "other" = some (.atom (.i n))) (xs : List Item) (hv : Store.view σ rs = some xs) :
    run F [Term.app "for" [Term.sym "i", Term.app "range" [Term.sym "other"],
        Term.app "block" [Term.app "yield-from" [Term.sym "self"]]]] ρ σ =
      some ((LoD.mul xs n.toNat).map tagRef, σ) := by
  rw [mul_run F ρ σ rs n hself hother]
  simp only [LoD.mul, List.map_flatten, List.map_replicate, refs_of_view σ rs xs hv]

end Models

/-! ### the witness of the shared-object counterexample -/

/-- predicate `item["a"] <= 1`. -/
def exQ (d : LoD.Dict) : Bool := match d.get? "a" with | some (.i n) => decide (n ≤ 1) | _ => false
/-- function `item["a"] + 1`. -/
def exG (d : LoD.Dict) : LoD.Val := match d.get? "a" with | some (.i n) => .i (n + 1) | _ => .none
/-- handle 0 = the predicate, every other handle = the function; both read only the object they are given. -/
def exFuns : Funs :=
  { call := fun h args σ =>
      match args with
      | [.ref r] => match σ.lookup r with
        | some d => if h = 0 then .bool (exQ d) else .atom (exG d)
        | none => .atom .none
      | _ => .atom .none }
/-- one object, `{"a": 0}`. -/
def exStore : Store := [(0, [("a", .i 0)])]
/-- `self` holds that object twice; `modify_if(predicate, a=function)`. -/
def exEnv : Env :=
  [("self", refsVal [0, 0]), ("key_function_pairs", fnPairsVal [("a", 1)]), ("predicate", .fn 0)]

theorem exFuns_localPred : LocalPred exFuns 0 exQ := by
  intro r σ d h; simp [exFuns, h, truthy]

theorem exFuns_localFn : LocalFn exFuns 1 exG := by
  intro r σ d h; simp [exFuns, h]


end DI.PyEvalLoD

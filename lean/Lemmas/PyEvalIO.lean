/-
  Lemmas/PyEvalIO.lean — what the evaluator of `Model/PyEvalIO.lean` computes on the translated `util.xopen` and on the
  writers / readers of `DataFrame` and `ListOfDicts` (`Generated/CodeC12.lean`): the opener is decided by the END of the
  path alone; every writer's events.  Cited by `Proofs/EvalC12.lean`.
-/
import Model.PyEvalIO
import Proofs.TieC12

namespace DI.PyEvalIO

open DI DI.Py DI.Gen DI.Read DI.Convert DI.Tie.C12

/-! ### `util.xopen` -/

/-- the opener by the end of the path. -/
def codecOf (path : Path) : Opener :=
  if ".bz2".toList.isSuffixOf path then .bz2
  else if ".gz".toList.isSuffixOf path then .gzip
  else if ".xz".toList.isSuffixOf path then .lzma
  else .plain

/-- the keyword arguments after `xopen`'s defaults: utf-8 for a text mode, level 6 for bz2 / gzip — never replacing what the
    caller gave. -/
def defaultsOf (o : Opener) (mode : List Char) (kw : Kwargs) : Kwargs :=
  { encoding := if mode.contains 'b' then kw.encoding else some (kw.encoding.getD "utf-8"),
    compresslevel := if o = .bz2 ∨ o = .gzip then some (kw.compresslevel.getD 6) else kw.compresslevel }

theorem truthX_mode (path : Path) (mode : List Char) :
    truthX path mode (Term.app "NotIn" [Term.sym "'b'", Term.sym "mode"]) = !mode.contains 'b' := rfl
theorem truthX_bz2 (path : Path) (mode : List Char) :
    truthX path mode (Term.app ".endswith" [Term.app "str" [Term.sym "path"], Term.sym "'.bz2'"]) = ".bz2".toList.isSuffixOf path := rfl
theorem truthX_gz (path : Path) (mode : List Char) :
    truthX path mode (Term.app ".endswith" [Term.app "str" [Term.sym "path"], Term.sym "'.gz'"]) = ".gz".toList.isSuffixOf path := rfl
theorem truthX_xz (path : Path) (mode : List Char) :
    truthX path mode (Term.app ".endswith" [Term.app "str" [Term.sym "path"], Term.sym "'.xz'"]) = ".xz".toList.isSuffixOf path := rfl

/-- **`xopen`, evaluated**: the opener by the suffix, the mode as given, the keyword arguments with the defaults. -/
theorem evalXopen_eq (path : Path) (mode : List Char) (kw : Kwargs) :
    evalXopen path mode kw = some ⟨codecOf path, mode, defaultsOf (codecOf path) mode kw⟩ := by
  unfold evalXopen util_xopen codecOf
  simp only [truthX_mode, truthX_bz2, truthX_gz, truthX_xz]
  have hu : unquote "'utf-8'" = some "utf-8".toList := by decide
  rcases Bool.eq_false_or_eq_true (mode.contains 'b') with hb | hb <;>
    rcases Bool.eq_false_or_eq_true (".bz2".toList.isSuffixOf path) with h1 | h1 <;>
    rcases Bool.eq_false_or_eq_true (".gz".toList.isSuffixOf path) with h2 | h2 <;>
    rcases Bool.eq_false_or_eq_true (".xz".toList.isSuffixOf path) with h3 | h3 <;>
    simp only [hb, h1, h2, h3, Bool.not_true, Bool.not_false, if_true, if_false, Bool.false_eq_true, openerOf,
      Option.bind_some, List.foldlM_cons, List.foldlM_nil, setDefault, hu, Option.map_some, defaultsOf] <;>
    simp

/-! ### the suffix test looks at the END of the path -/

/-- two different known suffixes cannot both end one path. -/
theorem suffix_exclusive (a b : List Char) (path : Path) (ha : a <:+ path) (hb : b <:+ path)
    (hab : ¬ a <:+ b) (hba : ¬ b <:+ a) : False := by
  by_cases hl : a.length ≤ b.length
  · exact hab (List.suffix_of_suffix_length_le ha hb hl)
  · exact hba (List.suffix_of_suffix_length_le hb ha (by omega))

theorem excl_bz2_gz (path : Path) (h1 : ".bz2".toList.isSuffixOf path = true) (h2 : ".gz".toList.isSuffixOf path = true) : False :=
  suffix_exclusive _ _ path (List.isSuffixOf_iff_suffix.mp h1) (List.isSuffixOf_iff_suffix.mp h2) (by decide) (by decide)
theorem excl_bz2_xz (path : Path) (h1 : ".bz2".toList.isSuffixOf path = true) (h2 : ".xz".toList.isSuffixOf path = true) : False :=
  suffix_exclusive _ _ path (List.isSuffixOf_iff_suffix.mp h1) (List.isSuffixOf_iff_suffix.mp h2) (by decide) (by decide)
theorem excl_gz_xz (path : Path) (h1 : ".gz".toList.isSuffixOf path = true) (h2 : ".xz".toList.isSuffixOf path = true) : False :=
  suffix_exclusive _ _ path (List.isSuffixOf_iff_suffix.mp h1) (List.isSuffixOf_iff_suffix.mp h2) (by decide) (by decide)

/-- the opener as a function of the three suffix tests — in ANY order of the tests, since at most one succeeds. -/
theorem codecOf_cases (path : Path) :
    (codecOf path = .bz2 ↔ ".bz2".toList.isSuffixOf path = true) ∧
    (codecOf path = .gzip ↔ ".gz".toList.isSuffixOf path = true) ∧
    (codecOf path = .lzma ↔ ".xz".toList.isSuffixOf path = true) ∧
    (codecOf path = .plain ↔ (".bz2".toList.isSuffixOf path = false ∧ ".gz".toList.isSuffixOf path = false ∧
      ".xz".toList.isSuffixOf path = false)) := by
  unfold codecOf
  rcases Bool.eq_false_or_eq_true (".bz2".toList.isSuffixOf path) with h1 | h1 <;>
    rcases Bool.eq_false_or_eq_true (".gz".toList.isSuffixOf path) with h2 | h2 <;>
    rcases Bool.eq_false_or_eq_true (".xz".toList.isSuffixOf path) with h3 | h3
  · exact (excl_bz2_gz path h1 h2).elim
  · exact (excl_bz2_gz path h1 h2).elim
  · exact (excl_bz2_xz path h1 h3).elim
  · simp only [h1, h2, h3, if_true, if_false, Bool.false_eq_true]; simp
  · exact (excl_gz_xz path h2 h3).elim
  · simp only [h1, h2, h3, if_true, if_false, Bool.false_eq_true]; simp
  · simp only [h1, h2, h3, if_true, if_false, Bool.false_eq_true]; simp
  · simp only [h1, h2, h3, if_false, Bool.false_eq_true]; simp

theorem codecOf_bz2_iff (path : Path) : codecOf path = .bz2 ↔ ".bz2".toList <:+ path := by
  rw [← List.isSuffixOf_iff_suffix]; exact (codecOf_cases path).1
theorem codecOf_gz_iff (path : Path) : codecOf path = .gzip ↔ ".gz".toList <:+ path := by
  rw [← List.isSuffixOf_iff_suffix]; exact (codecOf_cases path).2.1
theorem codecOf_xz_iff (path : Path) : codecOf path = .lzma ↔ ".xz".toList <:+ path := by
  rw [← List.isSuffixOf_iff_suffix]; exact (codecOf_cases path).2.2.1
theorem codecOf_plain_iff (path : Path) :
    codecOf path = .plain ↔ ¬ ".bz2".toList <:+ path ∧ ¬ ".gz".toList <:+ path ∧ ¬ ".xz".toList <:+ path := by
  rw [← List.isSuffixOf_iff_suffix, ← List.isSuffixOf_iff_suffix, ← List.isSuffixOf_iff_suffix]
  simp only [Bool.not_eq_true]
  exact (codecOf_cases path).2.2.2

/-- whatever stands before it, a path that ends in a known suffix gets that suffix's opener. -/
theorem codecOf_append (stem : Path) :
    codecOf (stem ++ ".bz2".toList) = .bz2 ∧ codecOf (stem ++ ".gz".toList) = .gzip ∧ codecOf (stem ++ ".xz".toList) = .lzma :=
  ⟨(codecOf_bz2_iff _).mpr (List.suffix_append _ _), (codecOf_gz_iff _).mpr (List.suffix_append _ _),
   (codecOf_xz_iff _).mpr (List.suffix_append _ _)⟩

/-! ### the files a writer / reader opens -/

/-- the handle `util.xopen(path, mode, **kw)` gives for the method's path. -/
def handle (a : Args) (mode : String) (kw : Kwargs) : Handle :=
  ⟨codecOf a.path, mode.toList, defaultsOf (codecOf a.path) mode.toList kw⟩

theorem open_wb (a : Args) : evalOpen a (xo "'wb'") = some (handle a "wb" {}) := by
  have hu : unquote "'wb'" = some "wb".toList := by decide
  simp [xo, evalOpen, hu, evalXopen_eq, handle]

theorem open_rb (a : Args) : evalOpen a (xo "'rb'") = some (handle a "rb" {}) := by
  have hu : unquote "'rb'" = some "rb".toList := by decide
  simp [xo, evalOpen, hu, evalXopen_eq, handle]

theorem open_wt (a : Args) : evalOpen a (xo "'wt'" [enc]) = some (handle a "wt" { encoding := some a.encoding }) := by
  have hu : unquote "'wt'" = some "wt".toList := by decide
  simp [xo, enc, evalOpen, hu, evalXopen_eq, handle]

theorem open_rt_utf8 (a : Args) :
    evalOpen a (xo "'rt'" [Term.app "=encoding" [Term.sym "'utf-8'"]]) = some (handle a "rt" { encoding := some "utf-8" }) := by
  have hu : unquote "'rt'" = some "rt".toList := by decide
  have he : unquote "'utf-8'" = some "utf-8".toList := by decide
  simp [xo, evalOpen, hu, he, evalXopen_eq, handle]

/-! ### the `DataFrame` writers and readers -/

section df

variable {β : Type} (a : Args) (cols : List (Col β))

theorem map_pair_id (cols : List (Col β)) : cols.map (fun c => (c.1, c.2)) = cols := by
  induction cols with
  | nil => rfl
  | cons c cs ih => simp

theorem evalDf_mkdirs : evalDf a cols mkdirs = some [Event.makedirs] := rfl
theorem evalDf_open (m : String) (extra : List Term) (h : Handle) (ht : evalOpen a (xo m extra) = some h) :
    evalDf a cols (xo m extra) = some [Event.opened h] := by
  show (evalOpen a (xo m extra)).map _ = _
  rw [ht]; rfl

/-- **`write_pickle`**: the columns by name, as plain arrays of their own dtype, into `xopen(path, "wb")`. -/
theorem evalDfWritePickle_eq :
    evalDfWritePickle a cols = some [.makedirs, .opened (handle a "wb" {}), .pickleTable cols (handle a "wb" {})] := by
  unfold evalDfWritePickle
  rw [(pickle_code _).1]
  have h3 : evalDf a cols (Term.app "pickle.dump" [Term.app "DictComp" [Term.app "pair" [Term.sym "k", Term.app "np.array" [Term.sym "v", Term.app ".dtype" [Term.sym "v"]]],
      Term.app "in" [Term.app "tuple" [Term.sym "k", Term.sym "v"], Term.app ".items" [Term.sym "self"], Term.app "if" []]], xo "'wb'", Term.sym "pickle.HIGHEST_PROTOCOL"]) =
      (evalOpen a (xo "'wb'")).map fun h => [Event.pickleTable (cols.map fun c => (c.1, c.2)) h] := rfl
  simp only [runDf, runEffs, evalDf_mkdirs, evalDf_open a cols _ _ _ (open_wb a), h3, open_wb, map_pair_id,
    Option.bind_some, Option.map_some, List.cons_append, List.nil_append, List.append_nil]

/-- **`read_pickle`**: `pickle.load` from `xopen(path, "rb")`, into the constructor. -/
theorem evalDfReadPickle_eq (loaded : List (Col β)) : evalDfReadPickle a loaded = some (handle a "rb" {}, loaded) := by
  unfold evalDfReadPickle
  rw [(pickle_code _).2.1]
  show (evalOpen a (xo "'rb'")).map _ = _
  rw [open_rb]; rfl

/-- **`write_npz`**: every column under its name to `np.savez` (`np.savez_compressed` iff `compress`); the PATH goes to
    NumPy, not through `xopen`. -/
theorem evalDfWriteNpz_eq : evalDfWriteNpz a cols = some [.makedirs, .savez a.compress cols] := by
  unfold evalDfWriteNpz
  rw [(npz_code _).1]
  have ht : truthIO a (!cols.isEmpty) (Term.sym "compress") = a.compress := rfl
  rw [ht]
  cases a.compress <;> rfl

/-- **`read_npz`**: the arrays `np.load` yields, by name, in file order. -/
theorem evalDfReadNpz_eq (loaded : List (Col β)) : evalDfReadNpz a loaded = some loaded := rfl

/-- **`write_parquet`**: the Arrow table of the frame to `pq.write_table`; the path goes to Arrow. -/
theorem evalDfWriteParquet_eq : evalDfWriteParquet a cols = some [.makedirs, .parquet cols] := rfl

/-- **`write_csv`**: Arrow writes the table as UTF-8 into `xopen(path, "wb")` with the header / separator of the call; for
    another encoding the file is read back as UTF-8 text and rewritten in the encoding, both through `xopen` again. -/
theorem evalDfWriteCsv_eq :
    evalDfWriteCsv a cols =
      some ([.makedirs, .opened (handle a "wb" {}), .arrowCsv cols (handle a "wb" {}) a.header a.sep "needed"] ++
        (if a.utf8Alias then []
         else [.opened (handle a "rt" { encoding := some "utf-8" }), .opened (handle a "wt" { encoding := some a.encoding }),
               .copyText (handle a "rt" { encoding := some "utf-8" }) (handle a "wt" { encoding := some a.encoding })])) := by
  unfold evalDfWriteCsv
  rw [df_write_csv_code]
  have ht : truthIO a (!cols.isEmpty) (Term.app "NotEq" [Term.app "codecs.lookup" [Term.sym "encoding"], Term.app "codecs.lookup" [Term.sym "'utf-8'"]]) = !a.utf8Alias := rfl
  have hq : unquote "'needed'" = some "needed".toList := by decide
  have h2 : evalDf a cols (Term.app "csv.write_csv" [Term.app ".to_arrow" [Term.sym "self"], xo "'wb'",
      Term.app "=write_options" [Term.app "csv.WriteOptions" [Term.app "=include_header" [Term.sym "header"], Term.app "=delimiter" [Term.sym "sep"],
        Term.app "=quoting_style" [Term.sym "'needed'"]]]]) =
      (evalOpen a (xo "'wb'")).bind fun h => (unquote "'needed'").map fun qs => [Event.arrowCsv cols h a.header a.sep (String.ofList qs)] := rfl
  have h5 : evalDf a cols (Term.app ".write" [xo "'wt'" [enc], Term.app ".read" [xo "'rt'" [Term.app "=encoding" [Term.sym "'utf-8'"]]]]) =
      (evalOpen a (xo "'wt'" [enc])).bind fun hd => (evalOpen a (xo "'rt'" [Term.app "=encoding" [Term.sym "'utf-8'"]])).map fun hs =>
        [Event.copyText hs hd] := rfl
  have hs : String.ofList "needed".toList = "needed" := by decide
  simp only [ht]
  cases a.utf8Alias
  · simp only [Bool.not_false, if_true, runDf, runEffs, List.cons_append, List.nil_append, evalDf_mkdirs,
      evalDf_open a cols _ _ _ (open_wb a), evalDf_open a cols _ _ _ (open_rt_utf8 a), evalDf_open a cols _ _ _ (open_wt a),
      h2, h5, open_wb, open_wt, open_rt_utf8, hq, hs, Option.bind_some, Option.map_some, List.append_nil, Bool.false_eq_true, if_false]
  · simp only [Bool.not_true, Bool.false_eq_true, if_false, runDf, runEffs, List.cons_append, List.nil_append, evalDf_mkdirs,
      evalDf_open a cols _ _ _ (open_wb a), h2, open_wb, hq, hs, Option.bind_some, Option.map_some, List.append_nil, if_true]

end df

/-! ### the `ListOfDicts` writers and readers, and `DataFrame.write_json` -/

section lod

variable {β : Type} (a : Args) (recs : List (Rec (Option β)))

/-- the defaults `write_json` gives `JSONEncoder` (only where the caller gave none). -/
def jsonDefaults : List (String × String) := [("default", "str"), ("ensure_ascii", "False"), ("indent", "2")]

/-- **`ListOfDicts.write_json`**: the items streamed through `JSONEncoder(**kwargs).iterencode` into
    `xopen(path, "wt", encoding=encoding)`, then a newline. -/
theorem evalLodWriteJson_eq :
    evalLodWriteJson a recs =
      some [.makedirs, .opened (handle a "wt" { encoding := some a.encoding }),
            .jsonEncode recs (handle a "wt" { encoding := some a.encoding }) jsonDefaults,
            .text (handle a "wt" { encoding := some a.encoding }) ['\n']] := by
  unfold evalLodWriteJson
  rw [(write_json_code _).2]
  have e0 : ∀ kw, evalLod a recs kw (Term.app ".setdefault" [Term.sym "kwargs", Term.sym "'default'", Term.sym "str"]) =
      some ([], kw ++ [("default", "str")]) := fun _ => by
    have hu : unquote "'default'" = some "default".toList := by decide
    simp [evalLod, hu]
  have e1 : ∀ kw, evalLod a recs kw (Term.app ".setdefault" [Term.sym "kwargs", Term.sym "'ensure_ascii'", Term.sym "False"]) =
      some ([], kw ++ [("ensure_ascii", "False")]) := fun _ => by
    have hu : unquote "'ensure_ascii'" = some "ensure_ascii".toList := by decide
    simp [evalLod, hu]
  have e2 : ∀ kw, evalLod a recs kw (Term.app ".setdefault" [Term.sym "kwargs", Term.sym "'indent'", Term.int 2]) =
      some ([], kw ++ [("indent", "2")]) := fun _ => by
    have hu : unquote "'indent'" = some "indent".toList := by decide
    have h2 : toString (2 : Int) = "2" := by decide
    simp [evalLod, hu, h2]
  have e3 : ∀ kw, evalLod a recs kw mkdirs = some ([Event.makedirs], kw) := fun _ => rfl
  have e4 : ∀ kw, evalLod a recs kw (xo "'wt'" [enc]) = (evalOpen a (xo "'wt'" [enc])).map fun h => ([Event.opened h], kw) := fun _ => rfl
  have e5 : ∀ kw, evalLod a recs kw (Term.app "for" [Term.sym "chunk", Term.app ".iterencode" [Term.app "json.JSONEncoder" [Term.app "=**" [Term.sym "kwargs"]], Term.sym "self"],
      Term.app "block" [Term.app ".write" [xo "'wt'" [enc], Term.sym "chunk"]]]) =
      (evalOpen a (xo "'wt'" [enc])).map fun h => ([Event.jsonEncode recs h kw], kw) := fun _ => rfl
  have e6 : ∀ kw, evalLod a recs kw (Term.app ".write" [xo "'wt'" [enc], Term.sym "'\\n'"]) =
      (evalOpen a (xo "'wt'" [enc])).map fun h => ([Event.text h ['\n']], kw) := fun _ => rfl
  simp only [runLod, runLodEffs, e0, e1, e2, e3, e4, e5, e6, open_wt, Option.bind_some, Option.map_some, List.nil_append,
    List.cons_append, List.append_nil, jsonDefaults]

/-- **`DataFrame.write_json`** hands `self.to_list_of_dicts()` — the model's records (C13) — to that writer. -/
theorem evalDfWriteJson_eq (cols : List (Col β)) (nrow : Nat) :
    evalDfWriteJson a cols nrow = evalLodWriteJson a (toRecords cols nrow) := by
  unfold evalDfWriteJson
  rw [(write_json_code _).1]
  rfl

/-- **`ListOfDicts.write_pickle`** / **`read_pickle`**. -/
theorem evalLodWritePickle_eq :
    evalLodWritePickle a recs = some [.makedirs, .opened (handle a "wb" {}), .pickleItems recs (handle a "wb" {})] := by
  unfold evalLodWritePickle
  rw [(pickle_code _).2.2.1]
  have e0 : ∀ kw, evalLod a recs kw mkdirs = some ([Event.makedirs], kw) := fun _ => rfl
  have e1 : ∀ kw, evalLod a recs kw (xo "'wb'") = (evalOpen a (xo "'wb'")).map fun h => ([Event.opened h], kw) := fun _ => rfl
  have e2 : ∀ kw, evalLod a recs kw (Term.app "pickle.dump" [Term.app "ListComp" [Term.app "dict()" [Term.sym "x"], Term.app "in" [Term.sym "x", Term.sym "self", Term.app "if" []]],
      xo "'wb'", Term.sym "pickle.HIGHEST_PROTOCOL"]) = (evalOpen a (xo "'wb'")).map fun h => ([Event.pickleItems recs h], kw) := fun _ => rfl
  simp only [runLod, runLodEffs, e0, e1, e2, open_wb, Option.bind_some, Option.map_some, List.nil_append, List.cons_append,
    List.append_nil]

theorem evalLodReadPickle_eq (loaded : List (Rec (Option β))) :
    evalLodReadPickle a loaded = some (handle a "rb" {}, loaded) := by
  unfold evalLodReadPickle
  rw [(pickle_code _).2.2.2]
  show (evalOpen a (xo "'rb'")).map _ = _
  rw [open_rb]; rfl

/-- **`ListOfDicts.write_csv`**: refused for an empty list; the header (all keys of the list, first-seen order) when asked
    for; then every item BY KEY in that one field order, `None` where the item lacks the key. -/
theorem evalLodWriteCsv_eq :
    evalLodWriteCsv a recs =
      if recs.isEmpty then none
      else some ([.makedirs, .opened (handle a "wt" { encoding := some a.encoding })] ++
        (if a.header then [.csvHeader (unionKeys recs) (handle a "wt" { encoding := some a.encoding }) a.sep] else []) ++
        recs.map fun r => .csvRow (fillRow (unionKeys recs) r) (handle a "wt" { encoding := some a.encoding })) := by
  unfold evalLodWriteCsv
  rw [lod_write_csv_code]
  have hs : truthIO a (!recs.isEmpty) (Term.sym "self") = !recs.isEmpty := rfl
  have hh : truthIO a (!recs.isEmpty) (Term.sym "header") = a.header := rfl
  rw [hs, hh]
  cases he : recs.isEmpty
  · simp only [Bool.not_false, if_true, Bool.false_eq_true, if_false]
    have e0 : ∀ kw, evalLod a recs kw mkdirs = some ([Event.makedirs], kw) := fun _ => rfl
    have e1 : ∀ kw, evalLod a recs kw (xo "'wt'" [enc]) = (evalOpen a (xo "'wt'" [enc])).map fun h => ([Event.opened h], kw) := fun _ => rfl
    have e2 : ∀ kw, evalLod a recs kw (Term.app ".writeheader" [Term.app "csv.DictWriter" [xo "'wt'" [enc], Term.app "list()" [Term.app ".keys" [Term.sym "self"]],
        Term.app "=dialect" [Term.sym "'unix'"], Term.app "=delimiter" [Term.sym "sep"], Term.app "=quoting" [Term.sym "csv.QUOTE_MINIMAL"]]]) =
        (evalOpen a (xo "'wt'" [enc])).map fun h => ([Event.csvHeader (unionKeys recs) h a.sep], kw) := fun _ => rfl
    have e2' : ∀ kw, evalLod a recs kw (Term.sym "None") = some ([], kw) := fun _ => rfl
    have e3 : ∀ kw, evalLod a recs kw (Term.app "for" [Term.sym "item", Term.sym "self", Term.app "block"
        [Term.app "assign" [Term.sym "item", Term.app "dict" [Term.app "**" [Term.app "dict.fromkeys" [Term.app "list()" [Term.app ".keys" [Term.sym "self"]]]], Term.app "**" [Term.sym "item"]]],
         Term.app ".writerow" [Term.app "csv.DictWriter" [xo "'wt'" [enc], Term.app "list()" [Term.app ".keys" [Term.sym "self"]],
           Term.app "=dialect" [Term.sym "'unix'"], Term.app "=delimiter" [Term.sym "sep"], Term.app "=quoting" [Term.sym "csv.QUOTE_MINIMAL"]], Term.sym "item"]]]) =
        (evalOpen a (xo "'wt'" [enc])).map fun h => (recs.map fun r => Event.csvRow (fillRow (unionKeys recs) r) h, kw) := fun _ => rfl
    cases a.header
    · simp only [Bool.false_eq_true, if_false, runLod, runLodEffs, e0, e1, e2', e3, open_wt, Option.bind_some, Option.map_some,
        List.nil_append, List.cons_append, List.append_nil]
    · simp only [if_true, runLod, runLodEffs, e0, e1, e2, e3, open_wt, Option.bind_some, Option.map_some,
        List.nil_append, List.cons_append, List.append_nil]
  · simp only [Bool.not_true, Bool.false_eq_true, if_false, if_true]
    rfl

end lod

/-! ### a file is read with the codec it was written with -/

/-- the opener depends on the path only: not on the mode, not on the keyword arguments. -/
theorem handle_opener (a : Args) (m : String) (kw : Kwargs) : (handle a m kw).opener = codecOf a.path := rfl

theorem evalXopen_opener (path : Path) (m1 m2 : List Char) (k1 k2 : Kwargs) :
    (evalXopen path m1 k1).map (·.opener) = (evalXopen path m2 k2).map (·.opener) := by
  rw [evalXopen_eq, evalXopen_eq]; rfl

end DI.PyEvalIO
